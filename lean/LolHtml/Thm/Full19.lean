/-
# Package `full`, part 19 — G1 / C04_real in the `ctlSteps` / `CtlEv` form (lexer mode), whole-run C05

`Thm/Full18.lean` extracts the event list of a lexer-mode byte-level run as `EvB` steps, where a token step carries
the DISPATCHER's flag `b`. Here: a token step with `b = true` IS the protocol event `.other tok` — if the
controller's own flag is set by definition of `ctlStep`, and if it is not set because then no handler of the kind is
active and `handle_token` is the identity (`tokIf_true_eq_other`; needs `DispWf`: the vector total is in sync with
the items). So no dispatcher-level flag invariant is needed, and `stepsB evs = ctlSteps (toCtlEvs evs)`.
-/
import LolHtml.Thm.Full18

namespace LolHtml.Thm.Full
open LolHtml LolHtml.Model LolHtml.Model.Full LolHtml.Model.Handlers LolHtml.EditModel LolHtml.Lemmas.Full
open LolHtml.Lemmas.FullReach
open LolHtml.Thm.C01 (run writeAll Rewriter.new)

/-! ## a delivered token is an `.other` event -/

theorem sum_zero_all (l : List Nat) (h : l.sum = 0) : ∀ x ∈ l, x = 0 := by
  induction l with
  | nil => intro x hx; cases hx
  | cons y ys ih =>
    simp only [List.sum_cons] at h
    intro x hx
    rcases List.mem_cons.1 hx with rfl | hx
    · omega
    · exact ih (by omega) x hx

theorem forEachActive_nil {α : Type} {v : HandlerVec α} (h : VecWf v) (hn : v.hasActive = false) :
    v.forEachActive = [] := by
  simp only [HandlerVec.hasActive, decide_eq_false_iff_not, Nat.not_lt, Nat.le_zero_eq] at hn
  rw [h] at hn
  have hall := sum_zero_all _ hn
  unfold HandlerVec.forEachActive
  rw [List.filter_eq_nil_iff.2]
  · rfl
  · intro it hit
    have := hall it.userCount (List.mem_map.2 ⟨it, hit, rfl⟩)
    simp [this]

/-- **tokIf_true_eq_other.** `handle_token(text | comment | doctype)` IS the protocol event `.other tok`, whether or
not the controller's capture flag is set: without an active handler of the kind the token changes nothing. -/
theorem tokIf_true_eq_other (cfg : Cfg) (s : St) (hf : s.fault = none) (hw : DispWf s.disp) (tok : Model.Token)
    (hk : (CtlEv.other tok).WellKinded) : tokIf cfg true s tok = ctlStep cfg s (.other tok) := by
  simp only [ctlStep]
  cases hb : flagFor s.flags tok with
  | true => rfl
  | false =>
    unfold tokIf
    simp only [if_true, Bool.false_eq_true, if_false]
    unfold token
    simp only [hf]
    cases tok with
    | startTag => simp [CtlEv.WellKinded] at hk
    | endTag => simp [CtlEv.WellKinded] at hk
    | comment text raw src =>
      have hn : s.disp.comment.hasActive = false := hb
      simp only [tokComment, forEachActive_nil hw.comment hn, runClosures, outOf]
      rfl
    | doctype name publicId systemId fq raw src =>
      have hn : s.disp.doctype.hasActive = false := hb
      simp only [tokDoctype, forEachActive_nil hw.doctype hn, runClosures, outOf]
      rfl
    | text bytes tt last src =>
      have hn : s.disp.text.hasActive = false := hb
      simp only [tokText, forEachActive_nil hw.text hn, runClosures, outOf]
      rfl

theorem toCtlEvs_ok : ∀ (evs : List EvB), (∀ e ∈ evs, e.Ok) → ∀ e ∈ toCtlEvs evs, EvOk e
  | [], _ => fun e he => by cases he
  | .ev c :: es, h => by
    intro e he
    simp only [toCtlEvs, List.mem_cons] at he
    rcases he with rfl | he
    · have := h (.ev e) (by simp)
      cases e with
      | other t => exact this.elim
      | start => exact this
      | end_ => exact this
    · exact toCtlEvs_ok es (fun x hx => h x (by simp [hx])) e he
  | .tok true t :: es, h => by
    intro e he
    simp only [toCtlEvs, List.mem_cons] at he
    rcases he with rfl | he
    · exact h (.tok true t) (by simp)
    · exact toCtlEvs_ok es (fun x hx => h x (by simp [hx])) e he
  | .tok false t :: es, h => by
    intro e he
    simp only [toCtlEvs] at he
    exact toCtlEvs_ok es (fun x hx => h x (by simp [hx])) e he

theorem tagEvents_toCtlEvs : ∀ (evs : List EvB), (toCtlEvs evs).filterMap selEvOf = tagEvents evs
  | [] => rfl
  | .ev c :: es => by
    simp only [toCtlEvs, tagEvents, List.filterMap_cons, selEvB]
    have := tagEvents_toCtlEvs es
    unfold tagEvents at this
    rw [this]
  | .tok true t :: es => by
    simp only [toCtlEvs, tagEvents, List.filterMap_cons, selEvB, selEvOf]
    exact tagEvents_toCtlEvs es
  | .tok false t :: es => by
    simp only [toCtlEvs, tagEvents, List.filterMap_cons, selEvB]
    exact tagEvents_toCtlEvs es

/-- J2 after one successful step -/
theorem stepB_J2 (cfg : Cfg) (s : St) (hJ : J2 cfg s) (e : EvB) (he : e.Ok) (hok : (stepB cfg s e).2 = none) :
    J2 cfg (stepB cfg s e).1 := by
  cases e with
  | tok b t => exact ((J2_evInv cfg).other s t b hJ he).1 hok
  | ev c =>
    cases c with
    | other t => exact he.elim
    | start name ns info tok =>
      cases tok with
      | startTag nm attrs ns' sc raw src base =>
        exact ((J2_evInv cfg).start s name ns info nm attrs ns' sc raw src base hJ).1 hok
      | endTag => simp [EvB.Ok, EvOk, CtlEv.WellKinded] at he
      | comment => simp [EvB.Ok, EvOk, CtlEv.WellKinded] at he
      | doctype => simp [EvB.Ok, EvOk, CtlEv.WellKinded] at he
      | text => simp [EvB.Ok, EvOk, CtlEv.WellKinded] at he
    | end_ name tok =>
      cases tok with
      | endTag nm raw src => exact ((J2_evInv cfg).end_ s name nm raw src hJ).1 hok
      | startTag => simp [EvB.Ok, EvOk, CtlEv.WellKinded] at he
      | comment => simp [EvB.Ok, EvOk, CtlEv.WellKinded] at he
      | doctype => simp [EvB.Ok, EvOk, CtlEv.WellKinded] at he
      | text => simp [EvB.Ok, EvOk, CtlEv.WellKinded] at he

/-- **stepsB_eq_ctlSteps.** A successful `EvB` run from a `J2` state is the `ctlSteps` run of the translated list. -/
theorem stepsB_eq_ctlSteps (cfg : Cfg) (evs : List EvB) :
    ∀ (s : St), J2 cfg s → (∀ e ∈ evs, e.Ok) → (stepsB cfg s evs).2 = none →
      ctlSteps cfg s (toCtlEvs evs) = stepsB cfg s evs := by
  induction evs with
  | nil => intro s _ _ _; rfl
  | cons ev evs ih =>
    intro s hJ hev hok
    have hev0 := hev ev (by simp)
    have hevs : ∀ e ∈ evs, e.Ok := fun e he => hev e (by simp [he])
    simp only [stepsB] at hok ⊢
    cases hr : (stepB cfg s ev).2 with
    | some err => simp [hr] at hok
    | none =>
      simp only [hr] at hok ⊢
      have hJ' := stepB_J2 cfg s hJ ev hev0 hr
      have hrec := ih _ hJ' hevs hok
      cases ev with
      | ev c =>
        have hr' : (ctlStep cfg s c).2 = none := hr
        simp only [toCtlEvs, ctlSteps, hr']
        exact hrec
      | tok b t =>
        cases b with
        | false =>
          simp only [toCtlEvs]
          have : (stepB cfg s (.tok false t)).1 = s := by simp [stepB, tokIf]
          rw [this] at hrec
          exact hrec
        | true =>
          have heq : ctlStep cfg s (.other t) = stepB cfg s (.tok true t) :=
            (tokIf_true_eq_other cfg s hJ.1.fault hJ.1.valid.wf t hev0).symm
          simp only [toCtlEvs, ctlSteps, heq, hr]
          exact hrec

/-! ## G1 and C04_real in the `ctlSteps` form, lexer mode -/

/-- **Full_events_lexer (G1, `CtlEv` form).** The lexer-mode half of `Full_events_statement`: after successful
`write`s the controller state of the byte-level run is `ctlSteps cfg (St.init cfg) evs` for a list of `EvOk`
protocol events of Model/FullEvents.lean. -/
theorem Full_events_lexer (cfg : Cfg) (hlex : LexCfg cfg) (settings : Settings) (chunks : List Bytes)
    (hok : ∀ x ∈ (writeAll (genWorld cfg) (Rewriter.new (genWorld cfg) (FullSt.init cfg) settings) chunks).2,
      x = CallRes.ok) :
    ∃ evs : List CtlEv, (∀ e ∈ evs, EvOk e) ∧
      ctlSteps cfg (St.init cfg) evs = ((afterWrites cfg settings chunks).stream.disp.ctl.1, none) := by
  obtain ⟨_, evs, hev, hsteps⟩ := Full_events_writes cfg hlex settings chunks hok
  refine ⟨toCtlEvs evs, toCtlEvs_ok evs hev, ?_⟩
  rw [stepsB_eq_ctlSteps cfg evs _ (J2_init cfg) hev (by rw [hsteps]), hsteps]

/-- **C04_real_lexer.** `C04_real_statement` for lexer-mode configurations. -/
theorem C04_real_lexer (cfg : Cfg) (hlex : LexCfg cfg) (hne : cfg.sels.isEmpty = false)
    (hsel : SelVM.selsOk cfg.selLists = true) (settings : Settings) (chunks : List Bytes)
    (hok : ∀ x ∈ (writeAll (genWorld cfg) (Rewriter.new (genWorld cfg) (FullSt.init cfg) settings) chunks).2,
      x = CallRes.ok) :
    ∃ evs : List CtlEv, (∀ e ∈ evs, EvOk e) ∧
      ctlSteps cfg (St.init cfg) evs = ((afterWrites cfg settings chunks).stream.disp.ctl.1, none) ∧
      ∃ vm', (SelVM.Vm.new (SelVM.Ast.ofSelectors cfg.selLists) cfg.esi).runAux (evs.filterMap selEvOf) 0 [] =
          .ok (vm', Spec.Css.run Spec.Css.cssLeaf cfg.selLists cfg.esi (evs.filterMap selEvOf)) ∧
        (afterWrites cfg settings chunks).stream.disp.ctl.1.vm = some vm' := by
  obtain ⟨evs, hev, hsteps, vm', hrun, hfin⟩ := C04_real cfg hlex hne hsel settings chunks hok
  refine ⟨toCtlEvs evs, toCtlEvs_ok evs hev, ?_, vm', ?_, hfin⟩
  · rw [stepsB_eq_ctlSteps cfg evs _ (J2_init cfg) hev (by rw [hsteps]), hsteps]
  · rw [tagEvents_toCtlEvs]; exact hrun

end LolHtml.Thm.Full
