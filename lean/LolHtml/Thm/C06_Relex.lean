import LolHtml.Lemmas.RelexLex
import LolHtml.Gen.Syntax
import LolHtml.Gen.Tags
/-!
# C06 — the lexer restarted by the tag scanner re-lexes the hinted tag

When `finish_tag_name` of the tag scanner hands over (`directive .lex bm`, either because the sink asked
for the lexer at the hint, or with `ApplyUnhandled(RequestLexeme)`), `continue_from_bookmark` puts the
lexer on the `<` of the tag, in the text state of the bookmark's text type. `C06_relex_same_tag`: over
the same bytes the lexer walks the head `<`[`/`]name silently (no sink call, simulator untouched) and at
the same terminator byte runs `finish_tag_name` on a tag token of the same kind (start/end), the same
name hash and the name range of exactly the head's name bytes; `C06_relex_intag` / `C06_relex_emit`:
that token is not touched until `emit_tag`, whose `handle_tag` call (the first call the sink receives,
`lexeme_start` still being the bookmark position) carries it.

Decidable side-conditions on the table (all hold of the generated table, `decide +kernel`):
`HeadOk` (C09), `PhaseOk` (C06), and the two new ones `TextTypeOk`, `RelexOk` (Lemmas/RelexDefs.lean).
-/
namespace LolHtml.Thm.C06
open LolHtml LolHtml.Model

/-! ### side-conditions on the current table -/

/-- text-type labelling of the current table (`= textTypeLabels Gen.Syntax.table`, `#guard`):
CDATA states, data/plaintext/rawtext/rcdata/script-data groups, tag open .. tag name, comments and
doctype labelled with their text type; the in-tag states 32–39 unlabelled. -/
def genTextLabels : TLabels :=
  [some .cdataSection, some .cdataSection, some .data, some .plainText] ++ List.replicate 4 (some .rawText) ++
  List.replicate 4 (some .rcData) ++ List.replicate 16 (some .scriptData) ++ List.replicate 4 (some .data) ++
  List.replicate 8 none ++ List.replicate 25 (some .data)

/-- shadows: the script-data-escaped `<`, `</`, end-tag-name states behave, on a tag head, like the
script-data ones; every other state is its own shadow -/
def genShadows : SLabels := (List.range 65).map fun i => if i == 19 then 13 else if i == 20 then 14 else if i == 21 then 15 else i

/-- `TagHead` with phases, written out (`= headLabels Gen.Syntax.table`, `#guard`) -/
def genHeadLabels : Labels :=
  (List.range 65).map fun i =>
    if i == 5 || i == 9 || i == 13 || i == 19 || i == 28 then some Phase.lt
    else if i == 6 || i == 10 || i == 14 || i == 20 || i == 29 then some Phase.slash
    else if i == 7 || i == 11 || i == 15 || i == 21 || i == 31 then some Phase.name
    else none

#guard textTypeLabels Gen.Syntax.table == genTextLabels
#guard headLabels Gen.Syntax.table == genHeadLabels
#guard shadowLabels Gen.Syntax.table genHeadLabels genTextLabels == genShadows

theorem C06_textTypeOk_gen : TextTypeOk Gen.Syntax.table genTextLabels = true := by decide +kernel

theorem C06_headOk_gen : HeadOk Gen.Syntax.table genHeadLabels = true := by decide +kernel

theorem C06_relexOk_gen : RelexOk Gen.Syntax.table genHeadLabels genTextLabels genShadows = true := by decide +kernel

/-- the repaired F1 (`before_attribute_value_state`, `b'>'` arm going to `data_state`) is exactly what
`TextTypeOk` forbids: on the pre-fix table the check fails and the witness is that arm -/
def preF1Table : Table :=
  { Gen.Syntax.table with states := Gen.Syntax.table.states.mapIdx fun j sd =>
      if j == 36 then { sd with arms := sd.arms.mapIdx fun n a =>
        if n == 3 then { a with body := .seq ⟨[⟨.finishAttr, false⟩, ⟨.emitTag, true⟩], some (.goto 2)⟩ } else a }
      else sd }

theorem C06_textTypeOk_rejects_F1 :
    TextTypeOk preF1Table genTextLabels = false ∧
    textTypeWitnessFrom preF1Table genTextLabels preF1Table.states 0 = [(36, 3)] := by decide +kernel

/-! ### the theorem -/

variable {κ : Type}

/-- **C06_relex_same_tag.** A scanner machine satisfying its invariants runs (`runLoop`) and hands
over: `directive d bm`. Then `d = lex`, and there is a head `H` = `<`[`/`]name with terminator `term`
at the bookmark position such that every lexer machine loaded from the bookmark (state = text state of
`bm.textType`, cursor and `lexeme_start` at `bm.pos`, `last_start_tag_name_hash` from the bookmark;
any other registers, any context `x`) makes exactly `|H|` silent state-function calls — the context
(sink, simulator, byte count) untouched — and the next call either fails without calling the sink
(the lexer's `is_appropriate_end_tag` assertion; never on the current table) or runs
`finish_tag_name` leaving a tag token `tok` with

* `tagKey tok = headKey H` — the kind (start iff no `/`) and the hash of the name bytes, which are the
  scanner's `!is_in_end_tag` / `tag_name_hash` at its `finish_tag_name` (`HExtra.sem`);
* `tok.name = [bm.pos + |H| − |name|, bm.pos + |H|)` — the name bytes of `H`, the range of the
  scanner's hint (`tag_name_start .. pos`);

followed by the rest of the same action list (`emit_tag`, if the terminator is `>`, and the
transition). `lexeme_start` is still `bm.pos` and the feedback directive is still the bookmark's. -/
theorem C06_relex_same_tag (env : Env κ) (L : Labels) (TT : TLabels) (P : PLabels) (S : SLabels) (Pend : κ → Bool)
    (hlaw : PendLaw env.ops Pend true) (hside : RelexSide env.tbl L TT P S) (inp : Bytes) (n : Nat) (ms : M κ)
    (hs : ScanAll env L TT P S Pend inp ms) (d : Directive) (bm : Bookmark)
    (hrun : (runLoop env inp n ms).2 = .directive d bm) :
    d = .lex ∧ ∃ G : RG, RGOk env.tbl L S G ∧ (G.H ++ [G.term]) <+: inp.drop bm.pos ∧ shapeB .name G.H = true ∧
      ((Pend (runLoop env inp n ms).1.x.sink = true → headKind G.H = true)) ∧
      (∀ k, bm.fd = .applyUnhandled (.requestLexeme k) →
        ∃ sim0, feedbackOf env.cfg sim0 (headKey G.H) = .ok ((runLoop env inp n ms).1.x.sim, .requestLexeme k)) ∧
      ∀ (cl : Common) (l : LexRegs) (x : Ctx κ), cl.state = env.tbl.textState bm.textType → cl.nextPos = bm.pos →
        l.lexemeStart = bm.pos → cl.lastStartTagNameHash = bm.lastStartTagNameHash →
        ∃ c' l', SilentSteps env inp G.H.length (⟨cl, .lexer l, x⟩ : M κ) (⟨c', .lexer l', x⟩ : M κ) ∧
          l'.lexemeStart = bm.pos ∧ l'.fd = l.fd ∧ c'.isLast = cl.isLast ∧
          ((∃ e, (stateFn env inp (⟨c', .lexer l', x⟩ : M κ)).2 = some (.err e) ∧
              (stateFn env inp (⟨c', .lexer l', x⟩ : M κ)).1.x = x) ∨
           (∃ (l1 : LexRegs) (q : ActSeq), finishCalls q.calls = true ∧ RelexTag G l1 ∧ l1.fd = l.fd ∧
              l1.lexemeStart = bm.pos ∧
              stateFn env inp (⟨c', .lexer l', x⟩ : M κ) =
                ((runSeq env inp ⟨q.calls.tail, q.trans⟩ (⟨{ c' with nextPos := c'.nextPos + 1 }, .lexer l1, x⟩ : M κ)).1,
                 (runSeq env inp ⟨q.calls.tail, q.trans⟩ (⟨{ c' with nextPos := c'.nextPos + 1 }, .lexer l1, x⟩ : M κ)).2.1))) := by
  have hloop := runLoop_scanAll (inp := inp) hlaw hside n ms hs
  rw [hrun] at hloop
  obtain ⟨hd, hdone⟩ := hloop
  refine ⟨hd, ?_⟩
  obtain ⟨H, term, s1', sfin, a1, a2, a3, a4, a5, a6, a7, a8⟩ := hdone.ex
  refine ⟨⟨H, term, s1', sfin, bm.lastStartTagNameHash⟩, ⟨a1, a4, a5, a6⟩, a2, a1, a7, a8, ?_⟩
  intro cl l x h1 h2 h3 h4
  have hstart : RelexHead env.tbl L ⟨H, term, s1', sfin, bm.lastStartTagNameHash⟩ inp cl l [] :=
    ⟨h4, by rw [h3]; exact a2, List.nil_prefix, by simp [h3, h2], fun _ => by rw [h1]; exact a3, fun hn => absurd rfl hn⟩
  have hG : RGOk env.tbl L S ⟨H, term, s1', sfin, bm.lastStartTagNameHash⟩ := ⟨a1, a4, a5, a6⟩
  obtain ⟨c', l', hsil, hhead, e1, e2, e3⟩ :=
    relex_head_run (inp := inp) hside.head hside.relex hG x H.length cl l [] hstart (by simp)
  refine ⟨c', l', hsil, by rw [e1, h3], e2, e3, ?_⟩
  rcases relex_step_fin (x := x) hside.relex hG hhead with herr | ⟨l1, q, A', _, _, hfc, _, r1, r2, r3, r4⟩
  · exact Or.inl ⟨_, herr⟩
  · exact Or.inr ⟨l1, q, hfc, r1, by rw [r2, e2], by rw [r3, e1, h3], r4⟩

/-- the lexer loaded by `continue_from_bookmark` satisfies the premises of `C06_relex_same_tag` -/
theorem C06_relex_loaded (env : Env κ) (bm : Bookmark) (p : Parser κ) (last : Bool) :
    let p' := loadBookmark env .lex bm p
    ∃ cl l, p'.machine last = ⟨cl, .lexer l, p.x⟩ ∧ cl.state = env.tbl.textState bm.textType ∧ cl.nextPos = bm.pos ∧
      l.lexemeStart = bm.pos ∧ cl.lastStartTagNameHash = bm.lastStartTagNameHash ∧ l.fd = bm.fd := by
  intro p'
  refine ⟨{ p'.lexC with isLast := last }, p'.lexR, ?_, rfl, rfl, rfl, rfl, rfl⟩
  simp [p', loadBookmark, Parser.machine]

/-- **C06_relex_intag.** Between `finish_tag_name` and `emit_tag` (the actions `PhaseOk` allows in
states labelled `inTag`) kind, hash and name of the tag token, the feedback directive and the
simulator are untouched. -/
theorem C06_relex_intag (env : Env κ) (inp : Bytes) (a : ActName) (ha : phAct a .inTag = some .inTag)
    (c : Common) (l : LexRegs) (x : Ctx κ) :
    ∃ c' l' x', (lexAct env a inp c l x).1 = ⟨c', .lexer l', x'⟩ ∧ l'.curTag.map tagId = l.curTag.map tagId ∧
      l'.fd = l.fd ∧ x'.sim = x.sim :=
  lexAct_inTag a ha c l x

/-- **C06_relex_emit.** `emit_tag` on a tag token `tok`: either the simulator / a callback refuses and
the sink is not called, or `handle_tag` is called with the lexeme `[lexeme_start, pos+1)` whose outline
has `tok`'s kind, hash and name. -/
theorem C06_relex_emit (env : Env κ) (inp : Bytes) (c : Common) (l : LexRegs) (x : Ctx κ) (tok : TagOutline)
    (hct : l.curTag = some tok) :
    (∃ e, (lexEmitTag env inp c l x).2 = some (.err e) ∧ (lexEmitTag env inp c l x).1.x.sink = x.sink) ∨
    (∃ tok', tagId tok' = tagId tok ∧
      (lexEmitTag env inp c l x).1.x.sink =
        (env.ops.handleTag inp ⟨x.prevConsumed, ⟨l.lexemeStart, c.pos + 1⟩, tok'⟩ x.sink).1) := by
  rcases lexEmitTag_outcome (env := env) (inp := inp) c l x tok hct with h | ⟨c2, sim2, tok', h1, h2⟩
  · exact Or.inl h
  · exact Or.inr ⟨tok', h1, by rw [h2, lexEmitTagLexeme_call]⟩

/-! ### non-vacuity -/

/-- `x</scr` … in script data, escaped: `<script><!--</script>`: the scanner is in
`script_data_escaped_end_tag_name_state` (21) when it finishes the name, the lexer re-lexes through
`script_data_end_tag_name_state` (15): the shadow of 21. -/
example : genShadows.at 21 = 15 ∧ genShadows.at 15 = 15 ∧ genHeadLabels.at 21 = some .name := by decide

example : headKey [60, 47, 115, 99] = (false, NameHash.ofBytes [115, 99]) ∧ headKey [60, 97] = (true, NameHash.ofBytes [97]) := by
  decide

end LolHtml.Thm.C06
