/-
Property C18 — determinism and isolation.

* `C18_no_globals`          the translator-derived list of global items (`Gen.Globals`, regenerated from
                            /repo on every check) contains no mutable item in the core crate and exactly
                            one in the C API: the `thread_local!` `LAST_ERROR`.
* `C18_last_error_isolated` in the C-API model a top-level call by thread `t` (including every call-back it
                            triggers) changes `LAST_ERROR` of no other thread.
* `C18_take_latest`         `lol_html_take_last_error` by thread `t` returns exactly what `t` itself recorded
                            last, whatever other threads did in between, and clears only slot `t`.
* `C18_function`            a model run is a function of (policy, handler scripts, call list): stated on the
                            type of `run`, so that hidden state would have to change the type.
-/
import LolHtml.Gen.Globals
import LolHtml.Lemmas.CApi
import LolHtml.Model.CApiMiniR

namespace LolHtml.Thm.C18
open LolHtml.Model.CApi

/-- Anything but a plain immutable table counts as mutable global state. -/
def isMutableKind (k : String) : Bool := k != "immutable"

/-- No mutable global in the core crate; the C API's only one is the thread-local `LAST_ERROR`. -/
theorem C18_no_globals :
    (Gen.Globals.core.all fun x => !isMutableKind x.1) = true ∧
    ((Gen.Globals.capi.filter fun x => isMutableKind x.1).map fun x => (x.1, x.2.1))
      = [("thread_local", "LAST_ERROR")] := by
  decide

/-- Non-vacuity: the generated lists are not empty (two immutable tables in the core crate). -/
example : Gen.Globals.core.length = 2 ∧ Gen.Globals.capi.length = 1 := by decide

variable {R : RApi}

/-- A call by thread `c.tid` leaves every other thread's `LAST_ERROR` untouched. -/
theorem C18_last_error_isolated (pol : Policy) (prog : Prog) (e e' : Env R) (c : Call R.Chunk)
    (h : topStep pol prog e c = .ok e') (t' : Tid) (ht : t' ≠ c.tid) :
    e'.lastErr t' = e.lastErr t' :=
  Lemmas.CApi.topStep_lastErr_frame pol prog e e' c h t' ht

/-- Whole histories: calls made by other threads never change thread `t`'s slot. -/
theorem C18_last_error_isolated_run (pol : Policy) (prog : Prog) (cs : List (Call R.Chunk))
    (e e' : Env R) (t : Tid) (hcs : ∀ c ∈ cs, c.tid ≠ t) (h : run pol prog e cs = .ok e') :
    e'.lastErr t = e.lastErr t := by
  induction cs generalizing e with
  | nil => simp [run] at h; subst h; rfl
  | cons c rest ih =>
    simp only [run, Lemmas.CApi.Res.bind_ok] at h
    obtain ⟨e1, h1, h2⟩ := h
    have hc : t ≠ c.tid := fun heq => hcs c (by simp) heq.symm
    rw [ih e1 (fun c' hc' => hcs c' (by simp [hc'])) h2]
    exact Lemmas.CApi.topStep_lastErr_frame pol prog e e1 c h1 t hc

/-- `take` by `t` after `t` recorded `m`, with arbitrary calls of other threads in between, yields `m`,
    empties slot `t`, and touches no other slot. -/
theorem C18_take_latest (pol : Policy) (prog : Prog) (cs : List (Call R.Chunk))
    (e e' : Env R) (t : Tid) (m : ErrMsg) (dst : Nat)
    (hcs : ∀ c ∈ cs, c.tid ≠ t) (h : run pol prog (saveLastError e t m) cs = .ok e') :
    (takeLastError e' t dst).log.head? = some (.taken (some m)) ∧
    (takeLastError e' t dst).lastErr t = none ∧
    ∀ t', t' ≠ t → (takeLastError e' t dst).lastErr t' = e'.lastErr t' := by
  have hm : e'.lastErr t = some m := by
    rw [C18_last_error_isolated_run pol prog cs _ e' t hcs h]; simp [saveLastError]
  refine ⟨?_, ?_, ?_⟩
  · simp [takeLastError, hm, alloc, Env.setVar, Env.out]
  · simp [takeLastError, hm, alloc, Env.setVar, Env.out]
  · intro t' ht'; simp [takeLastError, hm, alloc, Env.setVar, Env.out, ht']

open LolHtml.Model.CApi.Mini in
/-- Non-vacuity: thread 0 fails to parse a selector; thread 1 sees no error; thread 0 then takes its own. -/
example :
    (match run .header (fun _ => ⟨[], none, 0⟩) (Env.init MiniR)
        [⟨0, .selectorParse 1 [0x61, 0x5b]⟩, ⟨1, .takeLastError 2⟩, ⟨0, .takeLastError 3⟩] with
      | .ok e => e.log == [.taken (some (.rust [0x73])), .taken none, .ptr true]
      | _ => false) = true := by
  decide +kernel

/-- A run is a function of its inputs: there is no other argument it could depend on. -/
theorem C18_function (pol₁ pol₂ : Policy) (prog₁ prog₂ : Prog) (cs₁ cs₂ : List (Call R.Chunk))
    (hp : pol₁ = pol₂) (hprog : prog₁ = prog₂) (hcs : cs₁ = cs₂) :
    run pol₁ prog₁ (Env.init R) cs₁ = run pol₂ prog₂ (Env.init R) cs₂ := by
  subst hp hprog hcs; rfl

end LolHtml.Thm.C18
