import LolHtml.Thm.Full8
import LolHtml.Lemmas.HintCtlDefs
/-!
# Package `full` — scanner mode: the definitions hypothesis 1 is stated with

World with the ghost "kind of the outstanding hint" (`Lemmas/HintCtlDefs.lean`):
`hintWorld (genWorld cfg)` over `hintCtl (fullCtl cfg)`, compared with `hintCtl (cleanCtl (fullCtl cfg))`.

* `InvH cfg d` — the invariant of the dispatcher state `d : Disp (FullSt cfg × Option Bool)` between two operations:
  one of the four protocol states
  - `idle`: no hint outstanding (`Idle`), `J2` of the controller state, and an open text node only while the TEXT flag
    is set (so: no open text node when a hint arrives — hints arrive only while the flags are empty);
  - `startLex`: a start-tag hint was answered `lex` with flags `f`: `got_flags_from_hint`, ghost `some true`, the
    controller state is `(startTag s ln ns).1` for a `J2` state `s`, no text node open, the dispatcher's flags are `f`;
  - `auxPend`: a start-tag hint asked for the attributes: `pending_element_aux_info_req`, ghost `some true`, the
    controller state is `(startTag s ln ns).1` with answer `infoRequest`, no text node open;
  - `endLex`: an end-tag hint was answered `lex`: `got_flags_from_hint`, ghost `some false`, the controller state is
    `(endTag s ln).1` for a `J2` state `s`, no text node open.
  (A skeleton: whoever proves hypothesis 1 may strengthen the four cases; `Full_no_panic_partial3` is generic in `Inv`.)
* `Full_scan_opsH_statement Inv` — hypothesis 1 in the world with the ghost, for the guard
  `withArgs argSite kindGuard` (argument guard on top of the kind guard) on BOTH dispatchers.
-/
set_option linter.unusedVariables false
namespace LolHtml.Thm.Full
open LolHtml LolHtml.Model LolHtml.Model.Full LolHtml.Lemmas.Full
open LolHtml.Model.RelI LolHtml.Model.Hint

/-- the state type with the ghost -/
abbrev FullStH (cfg : Cfg) : Type := FullSt cfg × Option Bool

/-- the real controller / the cleaned real controller, with the ghost -/
def fullCtlH (cfg : Cfg) : Controller (FullStH cfg) := hintCtl (fullCtl cfg)
def cleanCtlH (cfg : Cfg) : Controller (FullStH cfg) := hintCtl (Chunk.R.cleanCtl (fullCtl cfg))

/-- the whole model over the real controller with the ghost -/
def genWorldH (cfg : Cfg) : World (FullStH cfg) := hintWorld (genWorld cfg)

/-- the four protocol states -/
inductive InvH (cfg : Cfg) (d : Disp (FullStH cfg)) : Prop
  | idle (hi : Idle (projD d)) (hJ : J2 cfg d.ctl.1.1) (ht : d.textPending = true → d.flags.text = true)
  | startLex (s : St) (ln : LocalName) (ns : Model.Ns) (f : Model.Flags) (hJ : J2 cfg s)
      (hc : d.ctl.1.1 = (startTag s ln ns).1) (ha : (startTag s ln ns).2 = .flags f) (hf : d.flags = f)
      (hg : d.gotFlagsFromHint = true) (hp : d.pendingAux = false) (hk : d.ctl.2 = some true) (ht : d.textPending = false)
  | auxPend (s : St) (ln : LocalName) (ns : Model.Ns) (hJ : J2 cfg s)
      (hc : d.ctl.1.1 = (startTag s ln ns).1) (ha : (startTag s ln ns).2 = .infoRequest)
      (hg : d.gotFlagsFromHint = false) (hp : d.pendingAux = true) (hk : d.ctl.2 = some true) (ht : d.textPending = false)
  | endLex (s : St) (ln : LocalName) (hJ : J2 cfg s) (hc : d.ctl.1.1 = (endTag s ln).1)
      (hg : d.gotFlagsFromHint = true) (hp : d.pendingAux = false) (hk : d.ctl.2 = some false) (ht : d.textPending = false)

/-- **named hypothesis 1 (operations), in the world with the ghost**: `Inv` holds of a new dispatcher; from a state with
`Inv` every operation of the guarded dispatcher over the real controller is the operation of the guarded dispatcher over
the cleaned controller (and re-establishes `Inv` if it succeeds) or fails with a non-panic error. Guard: the argument
guard on top of the kind guard — only valid lexemes of the kind the outstanding hint admits have to be considered. -/
def Full_scan_opsH_statement (Inv : ∀ cfg, Disp (FullStH cfg) → Prop) : Prop :=
  ∀ cfg : Cfg, (∀ enc, Inv cfg (Disp.new (fullCtlH cfg) (FullSt.init cfg, none) enc)) ∧
    CtlRelG (genWorldH cfg) (cleanCtlH cfg) (withArgs argSite kindGuard) (Inv cfg) NP

end LolHtml.Thm.Full
