/-
# Package `full`, part 16 — the real run IS the cleaned run (corollaries of `Full_no_panic`)

`Full_writes_agree_or_panic` (Thm/Full4.lean) left the alternative "a callback returned a panic- or internal-class error".
`Full_no_panic` (Thm/Full15.lean) excludes the panic half: a panic-class callback error would be reported by the call.
The internal half stays: `parse` reports an internal-class error as the handler error, which `Full_no_panic` allows —
and the only internal-class error of the real controller, "vm req without vm" of the aux-info continuation, is excluded
only by the dispatcher's protocol (`pending_element_aux_info_req` ⇒ the controller has a pending request), a dispatcher-level
invariant that the stepwise simulation `Lemmas/CtlSim.lean` does not carry.
-/
import LolHtml.Thm.Full15
import LolHtml.Lemmas.FullSites

namespace LolHtml.Thm.Full
open LolHtml LolHtml.Model LolHtml.Model.Full LolHtml.Lemmas.Full
open LolHtml.Thm.C01 (run writeAll Rewriter.new)

/-- a callback of the real controller returned an internal-class error, reported by a `write` as the handler error -/
def InternalAlt (cfg : Cfg) (settings : Settings) (chunks : List Bytes) : Prop :=
  ∃ s, Chunk.R.CbErr (fullCtl cfg) (Chunk.R.DO cfg) (.internal s) ∧
    CallRes.err .handler ∈ (writeAll (genWorld cfg) (Rewriter.new (genWorld cfg) (FullSt.init cfg) settings) chunks).2

/-- **Full_real_eq_clean_writes.** For every configuration, settings record and chunking, `write*` over the REAL controller
is `write*` over the cleaned controller — the same rewriter state (sink log, dispatcher, controller state, parser, buffer)
and the same call results — unless a callback returned an internal-class error (then a `write` returned the handler error). -/
theorem Full_real_eq_clean_writes (cfg : Cfg) (settings : Settings) (chunks : List Bytes) :
    writeAll (genWorld cfg) (Rewriter.new (genWorld cfg) (FullSt.init cfg) settings) chunks =
      writeAll (cleanWorld cfg) (Rewriter.new (cleanWorld cfg) (FullSt.init cfg) settings) chunks ∨
    InternalAlt cfg settings chunks := by
  have hsim := Chunk.R.fullCtl_sim_prov cfg
  have hnew := Chunk.R.new_eq (w := genWorld cfg) hsim (FullSt.init cfg) (Chunk.R.init_DO cfg) settings
  rcases Chunk.R.writeAll_sim (w := genWorld cfg) hsim C03.C03_emitsChecked_gen chunks
      (Rewriter.new (genWorld cfg) (FullSt.init cfg) settings) (Or.inr (Chunk.R.init_DO cfg)) with ⟨he, _⟩ | ⟨_, e, ⟨hG, hc⟩, hmem⟩
  · left
    rw [he, hnew]
    rfl
  · right
    rcases hG with ⟨m, rfl, _⟩ | ⟨s, rfl⟩
    · -- a panic-class callback error would be the result of a call: excluded by `Full_no_panic`
      exfalso
      have hx : CallRes.err (.panic m) ∈
          (run (genWorld cfg) (Rewriter.new (genWorld cfg) (FullSt.init cfg) settings) chunks).2 := by
        simp only [run, List.mem_append]
        exact Or.inl hmem
      exact Full_no_panic cfg settings chunks _ hx
    · exact ⟨s, hc, hmem⟩

/-- … in particular: if no `write` of the real run returns the handler error, the two runs of `write*` are the same -/
theorem Full_real_eq_clean_of_no_handler (cfg : Cfg) (settings : Settings) (chunks : List Bytes)
    (hnh : CallRes.err .handler ∉ (writeAll (genWorld cfg) (Rewriter.new (genWorld cfg) (FullSt.init cfg) settings) chunks).2) :
    writeAll (genWorld cfg) (Rewriter.new (genWorld cfg) (FullSt.init cfg) settings) chunks =
      writeAll (cleanWorld cfg) (Rewriter.new (cleanWorld cfg) (FullSt.init cfg) settings) chunks := by
  rcases Full_real_eq_clean_writes cfg settings chunks with h | ⟨s, _, hm⟩
  · exact h
  · exact absurd hm hnh

/-- **C11_bailout_general_real** (errors other than the handler error, e.g. the memory limit). `C11_bailout_general` — the
exact sink log at a failing `write` after successful ones — for the REAL controller: the run is the cleaned controller's
(`Full_real_eq_clean_of_no_handler`), to which `C11_bailout_general_cleaned` applies. (For `e = .handler` the internal-class
alternative of `Full_real_eq_clean_writes` is in the way.) -/
theorem C11_bailout_general_real (cfg : Cfg) (settings : Settings) (chunks : List Bytes) (data : Bytes) (e : Err)
    (hne : e ≠ .handler)
    (hok : ∀ x ∈ (writeAll (genWorld cfg) (Rewriter.new (genWorld cfg) (FullSt.init cfg) settings) chunks).2, x = CallRes.ok)
    (herr : ((writeAll (genWorld cfg) (Rewriter.new (genWorld cfg) (FullSt.init cfg) settings) chunks).1.write
          (genWorld cfg) data).2 = .err e) :
    C11G.BailLog (cleanWorld cfg)
      (writeAll (genWorld cfg) (Rewriter.new (genWorld cfg) (FullSt.init cfg) settings) chunks).1.stream
      ((writeAll (genWorld cfg) (Rewriter.new (genWorld cfg) (FullSt.init cfg) settings) chunks).1.write
        (genWorld cfg) data).1.stream
      ((writeAll (genWorld cfg) (Rewriter.new (genWorld cfg) (FullSt.init cfg) settings) chunks).1.stream.pending ++ data) e ∧
    ((writeAll (genWorld cfg) (Rewriter.new (genWorld cfg) (FullSt.init cfg) settings) chunks).1.write
      (genWorld cfg) data).1.poisoned = true := by
  have hnh1 : CallRes.err .handler ∉ (writeAll (genWorld cfg) (Rewriter.new (genWorld cfg) (FullSt.init cfg) settings) chunks).2 := by
    intro hm; have := hok _ hm; cases this
  have E1 := Full_real_eq_clean_of_no_handler cfg settings chunks hnh1
  have a1 := Chunk.R.writeAll_append (w := genWorld cfg) (Rewriter.new (genWorld cfg) (FullSt.init cfg) settings) chunks [data]
  have a2 := Chunk.R.writeAll_append (w := cleanWorld cfg) (Rewriter.new (cleanWorld cfg) (FullSt.init cfg) settings) chunks [data]
  have hnh2 : CallRes.err .handler ∉
      (writeAll (genWorld cfg) (Rewriter.new (genWorld cfg) (FullSt.init cfg) settings) (chunks ++ [data])).2 := by
    rw [a1]
    simp only [writeAll, List.mem_append, List.mem_singleton, not_or]
    refine ⟨hnh1, ?_⟩
    rw [herr]
    intro hh
    simp only [CallRes.err.injEq] at hh
    exact hne hh.symm
  have E2 := Full_real_eq_clean_of_no_handler cfg settings (chunks ++ [data]) hnh2
  rw [a1, a2, ← E1] at E2
  simp only [writeAll, Prod.mk.injEq] at E2
  obtain ⟨e1, e2⟩ := E2
  have e2' : ((writeAll (genWorld cfg) (Rewriter.new (genWorld cfg) (FullSt.init cfg) settings) chunks).1.write (genWorld cfg) data).2 =
      ((writeAll (genWorld cfg) (Rewriter.new (genWorld cfg) (FullSt.init cfg) settings) chunks).1.write (cleanWorld cfg) data).2 := by
    have := List.append_cancel_left e2
    simpa using this
  have hw : (writeAll (genWorld cfg) (Rewriter.new (genWorld cfg) (FullSt.init cfg) settings) chunks).1.write (genWorld cfg) data =
      (writeAll (genWorld cfg) (Rewriter.new (genWorld cfg) (FullSt.init cfg) settings) chunks).1.write (cleanWorld cfg) data :=
    Prod.ext e1 e2'
  have := C11_bailout_general_cleaned cfg settings chunks data e (by rw [← E1]; exact hok) (by rw [← E1, ← hw]; exact herr)
  rw [← E1, ← hw] at this
  exact this

end LolHtml.Thm.Full
