import LolHtml.Thm.C02_Chunk
import LolHtml.Thm.C15_Full
import LolHtml.Thm.C01_Total
/-!
# C02 / C09, capstone: the `Clean` hypotheses reduced to "no memory-limit error"

`C02_chunk_invariance` and `C09_schedule_independent` (package chunk) assume that the runs involved are
`Clean`: no panic-class result and no memory-limit error. `C15_no_panic_full` (packages inv + scan)
proves the first half for every table passing the decidable side-conditions and every controller that
never returns a panic-class error itself. What remains is the memory limit, which is chunk-dependent by
nature (how much is buffered depends on where the writes end).
-/
namespace LolHtml.Thm.C02
open LolHtml LolHtml.Model LolHtml.Model.Chunk

variable {γ : Type}

/-- no call fails on the memory limit -/
def NoMem (rs : List CallRes) : Prop := ∀ r ∈ rs, r ≠ .err .mem

theorem clean_of_callOK {rs : List CallRes} (h : ∀ x ∈ rs, Model.CallOK (fun _ => False) x) (hm : NoMem rs) :
    Clean rs := by
  intro r hr
  refine ⟨fun s hs => ?_, hm r hr⟩
  have := h r hr
  rw [hs] at this
  exact this

/-- **C02, final form.** Two chunkings of the same document, any controller of the class `TextBlind`
that never returns a panic-class error itself, any table passing the side-conditions: if no call of
the two runs and of the single-write run fails on the memory limit, the outcomes are equal and on
success so are the sink bytes and (up to `E`) the controller states. -/
theorem C02_chunk_invariance_final (w : World γ) (L : Labels) (TT : TLabels) (P : PLabels) (S : SLabels)
    (E : γ → γ → Prop) (g : γ) (cfg : Settings) (cs₁ cs₂ : List Bytes)
    (hwfc : WfChunk w.tbl = true) (hwf : WfTable w.tbl = true) (hcert : checkCert w.tbl (computeCert w.tbl) = true)
    (hside : RelexSide w.tbl L TT P S) (hc : CtlClean w.ctl)
    (hcl : TextBlind w.ctl E) (hg : E g g) (h1 : cs₁ ≠ []) (h2 : cs₂ ≠ [])
    (hflat : cs₁.flatten = cs₂.flatten)
    (hm1 : NoMem (C01.run w (C01.Rewriter.new w g cfg) cs₁).2)
    (hm2 : NoMem (C01.run w (C01.Rewriter.new w g cfg) cs₂).2)
    (hmW : NoMem (C01.run w (C01.Rewriter.new w g cfg) [cs₁.flatten]).2) :
    outcome (C01.run w (C01.Rewriter.new w g cfg) cs₁).2 = outcome (C01.run w (C01.Rewriter.new w g cfg) cs₂).2 ∧
    (outcome (C01.run w (C01.Rewriter.new w g cfg) cs₁).2 = .ok →
      sinkBytes (C01.run w (C01.Rewriter.new w g cfg) cs₁).1.sink =
        sinkBytes (C01.run w (C01.Rewriter.new w g cfg) cs₂).1.sink ∧
      ∃ gW, E (C01.run w (C01.Rewriter.new w g cfg) cs₁).1.stream.disp.ctl gW ∧
        E (C01.run w (C01.Rewriter.new w g cfg) cs₂).1.stream.disp.ctl gW) :=
  C02_chunk_invariance w E g cfg cs₁ cs₂ hwfc hcl hg h1 h2 hflat
    (clean_of_callOK (C15.C15_no_panic_full w L TT P S hwf hcert hside hc g cfg cs₁) hm1)
    (clean_of_callOK (C15.C15_no_panic_full w L TT P S hwf hcert hside hc g cfg cs₂) hm2)
    (clean_of_callOK (C15.C15_no_panic_full w L TT P S hwf hcert hside hc g cfg [cs₁.flatten]) hmW)

/-- **C09, final form.** After any successful writes the sink has exactly the bytes of a fresh rewriter
given the concatenation in ONE write, and that write succeeds, provided it does not hit the memory limit. -/
theorem C09_schedule_independent_final (w : World γ) (L : Labels) (TT : TLabels) (P : PLabels) (S : SLabels)
    (E : γ → γ → Prop) (g : γ) (cfg : Settings) (cs : List Bytes)
    (hwfc : WfChunk w.tbl = true) (hwf : WfTable w.tbl = true) (hcert : checkCert w.tbl (computeCert w.tbl) = true)
    (hside : RelexSide w.tbl L TT P S) (hc : CtlClean w.ctl)
    (hcl : TextBlind w.ctl E) (hg : E g g) (hne : cs ≠ [])
    (hall : ∀ r ∈ (C01.writeAll w (C01.Rewriter.new w g cfg) cs).2, r = .ok)
    (hmW : ((C01.Rewriter.new w g cfg).write w cs.flatten).2 ≠ .err .mem) :
    ((C01.Rewriter.new w g cfg).write w cs.flatten).2 = .ok ∧
    sinkBytes (C01.writeAll w (C01.Rewriter.new w g cfg) cs).1.sink =
      sinkBytes ((C01.Rewriter.new w g cfg).write w cs.flatten).1.sink := by
  apply C09_schedule_independent w E g cfg cs hwfc hcl hg hne hall
  intro r hr
  simp only [List.mem_singleton] at hr
  subst hr
  have hmem : ((C01.Rewriter.new w g cfg).write w cs.flatten).2 ∈
      (C01.run w (C01.Rewriter.new w g cfg) [cs.flatten]).2 := by
    simp [C01.run, C01.writeAll]
  refine ⟨fun s hs => ?_, hmW⟩
  have := C15.C15_no_panic_full w L TT P S hwf hcert hside hc g cfg [cs.flatten] _ hmem
  rw [hs] at this
  exact this

/-- at the code's current table, constant capture flags -/
theorem C02_chunk_invariance_final_gen (f : Nat) (cfg : Settings) (cs₁ cs₂ : List Bytes) (h1 : cs₁ ≠ []) (h2 : cs₂ ≠ [])
    (hflat : cs₁.flatten = cs₂.flatten)
    (hm1 : NoMem (C01.run (C01.genWorld f) (C01.Rewriter.new (C01.genWorld f) () cfg) cs₁).2)
    (hm2 : NoMem (C01.run (C01.genWorld f) (C01.Rewriter.new (C01.genWorld f) () cfg) cs₂).2)
    (hmW : NoMem (C01.run (C01.genWorld f) (C01.Rewriter.new (C01.genWorld f) () cfg) [cs₁.flatten]).2) :
    outcome (C01.run (C01.genWorld f) (C01.Rewriter.new (C01.genWorld f) () cfg) cs₁).2 =
      outcome (C01.run (C01.genWorld f) (C01.Rewriter.new (C01.genWorld f) () cfg) cs₂).2 ∧
    (outcome (C01.run (C01.genWorld f) (C01.Rewriter.new (C01.genWorld f) () cfg) cs₁).2 = .ok →
      sinkBytes (C01.run (C01.genWorld f) (C01.Rewriter.new (C01.genWorld f) () cfg) cs₁).1.sink =
        sinkBytes (C01.run (C01.genWorld f) (C01.Rewriter.new (C01.genWorld f) () cfg) cs₂).1.sink) := by
  obtain ⟨a, b⟩ := C02_chunk_invariance_final (C01.genWorld f) _ _ _ _ Eq () cfg cs₁ cs₂ C02_wf_gen C15.C15_gen
    C15.C15_cert_gen C15.C15_relexSide_gen (C01.constCtl_neverFails f).clean (constCtl_textBlind f) rfl h1 h2 hflat hm1 hm2 hmW
  exact ⟨a, fun h => (b h).1⟩

end LolHtml.Thm.C02
