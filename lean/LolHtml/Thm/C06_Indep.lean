import LolHtml.Lemmas.ObsParse
import LolHtml.Thm.C15_Full
/-!
# C06 — independence of a handler set `H` from observer-only handlers `O`

`withObs H o` (`Lemmas/ObsIndep.lean`) is the controller "`H` together with observer-only handlers
that capture `o`, write nothing and never fail": every capture-flag decision of `H` is joined with
`o`; a token is handed to `H` only if `H`'s own flags asked for it (the controller records them — the
one-shot flags cleared by the token they asked for — in the second component of its state), otherwise
it is serialised unchanged.

* `C06_independence_statement` — the full claim (a `Prop`, not proved): for EVERY controller `H`, in
  non-strict mode, on runs in which no call fails in either run, the state of `H` after the run (hence
  every event `H`'s handlers received, `H` being arbitrary), the call results and the sink bytes
  are the same with and without the observers.
* `C06_independence_partial` — proved: the call results and the state of `H` (all its events), in
  BOTH modes (strict too), for every `H` whose own capture flags always contain a non-one-shot flag
  (`StickyCtl`: text, comments or doctypes — e.g. any document-level content handler), so that the
  `H` run never hands the input to the tag scanner. `C06_independence_partial_no_panic` removes the
  "unless the observing run panics" escape with `C15_no_panic_full`.

EXCLUDED from the proved part, exactly:
1. runs of `H` in which its flags become empty, i.e. the tag scanner runs (the scanner ⇄ lexer half:
   `C06_scan_lex_simulation`, `C06_run_simulation`, `C06_relex_same_tag` prove the tag-event agreement
   per run of the parsing loop; the dispatcher-level induction over hand-overs is not done) — this
   is also where the known differences live: F27 (strict mode, unterminated text-switching start tag
   at end of input) and memory-limit errors (the lexer holds back whole lexemes, the scanner only tag
   heads: C09/C10);
2. the sink bytes for a rewriting `H` (`C06_independence_observing` gives them for observer-only `H`
   from C01): in the model `H.shouldEmit` may change in any call of `H`, not only in token
   handlers, and then content already passed on by the observing run could still be dropped by the
   plain run.
-/
set_option linter.unusedSimpArgs false
set_option linter.unusedVariables false

namespace LolHtml.Thm.C06
open LolHtml LolHtml.Model LolHtml.Thm.C01

variable {γ : Type}

/-- the world of the observing run -/
def World.withObs (w : World γ) (o : Flags) : World (γ × Flags) := ⟨w.tbl, w.tags, Model.withObs w.ctl o⟩

/-- **Full statement** (not proved in this generality; see the module documentation). -/
def C06_independence_statement : Prop :=
  ∀ (γ : Type) (w : World γ) (o : Flags) (g : γ) (cfg : Settings) (chunks : List Bytes), cfg.strict = false →
    let R' := run (World.withObs w o) (Rewriter.new (World.withObs w o) (g, w.ctl.initialFlags g) cfg) chunks
    let R := run w (Rewriter.new w g cfg) chunks
    (∀ x ∈ R'.2, x = CallRes.ok) → (∀ x ∈ R.2, x = CallRes.ok) →
      R'.2 = R.2 ∧ R'.1.stream.disp.ctl.1 = R.1.stream.disp.ctl ∧ sinkBytes R'.1.sink = sinkBytes R.1.sink

/-! ### the transform stream -/

/-- related streams: related parsers, the same buffer and settings -/
def SRel (s' : Stream (γ × Flags)) (s : Stream γ) : Prop :=
  (obsCong γ).PR s'.parser s.parser ∧ s'.buf = s.buf ∧ s'.cfg = s.cfg ∧ s'.hasBuffered = s.hasBuffered

/-- the observing run returned a dispatcher panic -/
def PanicRes (r : Except Err Unit) : Prop := ∃ s, r = .error (.panic s)

section
variable {w : World γ} {o : Flags}

local notation "w'" => World.withObs w o

theorem flushRemaining_obs {d' : Disp (γ × Flags)} {d : Disp γ} (h : ObsR true d' d) (inp : Bytes) (k : Nat) :
    (∃ s, d'.flushRemaining inp k = .error (.panic s)) ∨
    (∃ e' e, d'.flushRemaining inp k = .ok e' ∧ d.flushRemaining inp k = .ok e ∧ ObsR true e' e) := by
  have he : d'.emissionEnabled = d.emissionEnabled := h.emis
  have hr : d.rcs ≤ d'.rcs := h.rcs
  have hV : ObsV true d.flags d'.ctl d.ctl { d'.view with rcs := 0 } { d.view with rcs := 0 } :=
    ⟨h.ctl, h.flags, h.sticky, h.sticky', h.emis, h.gf', h.gf, h.pa', h.pa, h.tp, h.tp', Nat.le_refl _⟩
  unfold Disp.flushRemaining
  by_cases hem : d.emissionEnabled = true
  · rw [if_pos (by rw [he]; exact hem), if_pos hem]
    cases h1 : checkedSlice inp ⟨d'.rcs, k⟩ with
    | none => left; exact ⟨_, rfl⟩
    | some out' =>
      have hb : d'.rcs ≤ k ∧ k ≤ inp.length := by
        unfold checkedSlice at h1
        split at h1
        · rename_i hh; exact hh
        · cases h1
      have h2 : ∃ out, checkedSlice inp ⟨d.rcs, k⟩ = some out := by
        unfold checkedSlice
        rw [if_pos ⟨by simp only; omega, hb.2⟩]
        exact ⟨_, rfl⟩
      obtain ⟨out, h2⟩ := h2
      right
      rw [h2]
      refine ⟨_, _, rfl, rfl, ?_⟩
      refine ObsR.mk' (c' := d'.ctl) (c := d.ctl) (v' := { d'.view with rcs := 0 }) (v := { d.view with rcs := 0 })
        (by dsimp only; split <;> rfl) (by dsimp only; split <;> rfl) (by dsimp only; split <;> rfl) (by dsimp only; split <;> rfl) hV
  · rw [if_neg (by rw [he]; exact hem), if_neg hem]
    right
    exact ⟨_, _, rfl, rfl, ObsR.mk' (c' := d'.ctl) (c := d.ctl) (v' := { d'.view with rcs := 0 }) (v := { d.view with rcs := 0 }) rfl rfl rfl rfl hV⟩

theorem SRel.setDisp {s' : Stream (γ × Flags)} {s : Stream γ} (h : SRel s' s) {e' : Disp (γ × Flags)} {e : Disp γ}
    (he : ObsR true e' e) : SRel (s'.setDisp e') (s.setDisp e) := by
  obtain ⟨⟨a1, a2, a3, a4, a5, ⟨_, b2, b3⟩, a7⟩, h2, h3, h4⟩ := h
  exact ⟨⟨a1, a2, a3, a4, a5, ⟨he, b2, b3⟩, a7⟩, h2, h3, h4⟩

theorem keepTail_obs {s' : Stream (γ × Flags)} {s : Stream γ} (h : SRel s' s) (data chunk : Bytes) (consumed : Nat) :
    (s'.keepTail w' data chunk consumed).2 = (s.keepTail w data chunk consumed).2 ∧
    ((s.keepTail w data chunk consumed).2 = .ok () →
      SRel (s'.keepTail w' data chunk consumed).1 (s.keepTail w data chunk consumed).1) := by
  obtain ⟨p', b', hb', c', n'⟩ := s'
  obtain ⟨p, b, hbf, c, n⟩ := s
  obtain ⟨hp, hb, hc, hh⟩ := h
  simp only at hp hb hc hh
  subst hb hc hh
  unfold Stream.keepTail
  dsimp only
  by_cases hlt : consumed < chunk.length
  · simp only [hlt, if_true]
    cases hb' with
    | true =>
      simp only [if_true]
      cases hsh : b'.shift consumed with
      | some bb => exact ⟨rfl, fun _ => ⟨hp, rfl, rfl, rfl⟩⟩
      | none => exact ⟨rfl, fun hh' => by cases hh'⟩
    | false =>
      simp only [Bool.false_eq_true, if_false]
      cases hi : (b'.initWith (data.drop consumed)).2 with
      | true => simp only [if_true]; exact ⟨by first | rfl | trivial, fun _ => ⟨hp, rfl, rfl, rfl⟩⟩
      | false => simp only [Bool.false_eq_true, if_false]; exact ⟨by first | rfl | trivial, fun hh' => by cases hh'⟩
  · simp only [hlt, if_false]
    exact ⟨by first | rfl | trivial, fun _ => ⟨hp, rfl, rfl, rfl⟩⟩

/-- `parse` of the two runs: the observing run panics, or same result and related parsers -/
theorem parse_obs' (hst : StickyCtl w.ctl) (ht : EmitsChecked w.tbl = true) (inp : Bytes) (last : Bool)
    (p' : Parser (Disp (γ × Flags))) (p : Parser (Disp γ)) (hp : (obsCong γ).PR p' p) :
    (∃ s, (Parser.parse (w').env inp last p').2 = .error (.panic s)) ∨
    ((obsCong γ).PR (Parser.parse (w').env inp last p').1 (Parser.parse w.env inp last p).1 ∧
      (Parser.parse (w').env inp last p').2 = (Parser.parse w.env inp last p).2) := by
  rcases parse_obs (H := w.ctl) (o := o) (tbl := w.tbl) (cfg := w.tags) (inp := inp) hst ht last p' p hp with
    ⟨m, e, ⟨s, hs, _⟩, _, hres⟩ | ⟨h1, h2, _⟩
  · left
    simp only [Option.some.injEq, Signal.err.injEq] at hs
    subst hs
    exact ⟨s, hres⟩
  · exact Or.inr ⟨h1, h2⟩

theorem chunkFor_obs {s' : Stream (γ × Flags)} {s : Stream γ} (h : SRel s' s) (data : Bytes) :
    (∃ t' t, s'.chunkFor w' data = .inl t' ∧ s.chunkFor w data = .inl t) ∨
    (∃ t' t chunk, s'.chunkFor w' data = .inr (t', chunk) ∧ s.chunkFor w data = .inr (t, chunk) ∧ SRel t' t) := by
  obtain ⟨p', b', hb', c', n'⟩ := s'
  obtain ⟨p, b, hbf, c, n⟩ := s
  obtain ⟨hp, hb, hc, hh⟩ := h
  simp only at hp hb hc hh
  subst hb hc hh
  unfold Stream.chunkFor
  dsimp only
  cases hb' with
  | false => right; exact ⟨_, _, _, rfl, rfl, hp, rfl, rfl, rfl⟩
  | true =>
    simp only [if_true]
    cases ha : (b'.append data).2 with
    | true => right; simp only [if_true]; exact ⟨_, _, _, rfl, rfl, hp, rfl, rfl, rfl⟩
    | false => left; simp only [Bool.false_eq_true, if_false]; exact ⟨_, _, rfl, rfl⟩

theorem Stream.write_obs (hst : StickyCtl w.ctl) (ht : EmitsChecked w.tbl = true) (s' : Stream (γ × Flags)) (s : Stream γ)
    (data : Bytes) (h : SRel s' s) :
    PanicRes (s'.write w' data).2 ∨
    ((s'.write w' data).2 = (s.write w data).2 ∧ ((s.write w data).2 = .ok () → SRel (s'.write w' data).1 (s.write w data).1)) := by
  unfold Stream.write
  rcases chunkFor_obs (w := w) (o := o) h data with ⟨t', t, e1, e2⟩ | ⟨t', t, chunk, e1, e2, hrel⟩
  · rw [e1, e2]
    exact Or.inr ⟨rfl, fun hh' => by cases hh'⟩
  · rw [e1, e2]
    dsimp only
    obtain ⟨hp1, hb1, hc1, hh1⟩ := hrel
    rcases parse_obs' (o := o) hst ht chunk false t'.parser t.parser hp1 with ⟨sp, hs⟩ | ⟨hpr, hres⟩
    · left
      rw [hs]
      exact ⟨sp, rfl⟩
    · rw [hres]
      cases hpar : (t.parser.parse w.env chunk false).2 with
      | error e => exact Or.inr ⟨rfl, fun hh' => by cases hh'⟩
      | ok consumed =>
        dsimp only
        have hx := hpr.2.2.2.2.2.1
        have e3 : Stream.disp ({ t' with parser := (t'.parser.parse (w').env chunk false).1 } : Stream (γ × Flags)) =
            (t'.parser.parse (w').env chunk false).1.x.sink := rfl
        have e4 : Stream.disp ({ t with parser := (t.parser.parse w.env chunk false).1 } : Stream γ) =
            (t.parser.parse w.env chunk false).1.x.sink := rfl
        rw [e3, e4]
        rcases flushRemaining_obs hx.1 chunk consumed with ⟨sf, hf⟩ | ⟨f', f, hf', hf, hfr⟩
        · left
          rw [hf]
          exact ⟨sf, rfl⟩
        · right
          rw [hf', hf]
          dsimp only
          have hrel2 : SRel ({ t' with parser := (t'.parser.parse (w').env chunk false).1 } : Stream (γ × Flags))
              ({ t with parser := (t.parser.parse w.env chunk false).1 } : Stream γ) := ⟨hpr, hb1, hc1, hh1⟩
          exact keepTail_obs (hrel2.setDisp hfr) data chunk consumed

theorem finish_obs {d' : Disp (γ × Flags)} {d : Disp γ} (h : ObsR true d' d) (inp : Bytes) :
    PanicRes (d'.finish (Model.withObs w.ctl o) inp).2 ∨
    ((d'.finish (Model.withObs w.ctl o) inp).2 = (d.finish w.ctl inp).2 ∧
      (d'.finish (Model.withObs w.ctl o) inp).1.ctl.1 = (d.finish w.ctl inp).1.ctl) := by
  unfold Disp.finish
  rcases flushRemaining_obs h inp inp.length with ⟨sf, hf⟩ | ⟨f', f, hf', hf, hfr⟩
  · left
    rw [hf]
    exact ⟨sf, rfl⟩
  · right
    rw [hf', hf]
    simp only [DRes.ofExcept, DRes.bind]
    have hc : f'.ctl = (f.ctl, f.flags) := hfr.ctl
    rw [hc]
    have e1 : (Model.withObs w.ctl o).handleEnd (f.ctl, f.flags) =
        (((w.ctl.handleEnd f.ctl).1, f.flags), (w.ctl.handleEnd f.ctl).2) := rfl
    rw [e1]
    dsimp only
    cases (w.ctl.handleEnd f.ctl).2.2 with
    | some e => exact ⟨rfl, rfl⟩
    | none => exact ⟨rfl, rfl⟩

theorem Stream.end_obs (hst : StickyCtl w.ctl) (ht : EmitsChecked w.tbl = true) (s' : Stream (γ × Flags)) (s : Stream γ)
    (h : SRel s' s) :
    PanicRes (s'.end w').2 ∨
    ((s'.end w').2 = (s.end w).2 ∧ ((s.end w).2 = .ok () → (s'.end w').1.disp.ctl.1 = (s.end w).1.disp.ctl)) := by
  obtain ⟨p', b', hb', c', n'⟩ := s'
  obtain ⟨p, b, hbf, c, n⟩ := s
  obtain ⟨hp, hb, hc, hh⟩ := h
  simp only at hp hb hc hh
  subst hb hc hh
  unfold Stream.end
  dsimp only
  rcases parse_obs' (o := o) hst ht (if hb' then b'.data else []) true p' p hp with ⟨sp, hs⟩ | ⟨hpr, hres⟩
  · left
    rw [hs]
    exact ⟨sp, rfl⟩
  · rw [hres]
    cases hpar : (p.parse w.env (if hb' then b'.data else []) true).2 with
    | error e => exact Or.inr ⟨rfl, fun hh' => by cases hh'⟩
    | ok consumed =>
      dsimp only
      have hx := hpr.2.2.2.2.2.1
      rcases finish_obs (w := w) (o := o) hx.1 (if hb' then b'.data else []) with hpn | ⟨f1, f2⟩
      · exact Or.inl hpn
      · exact Or.inr ⟨f1, fun _ => f2⟩

/-! ### the rewriter -/

/-- related rewriters -/
def RRel (r' : Rewriter (γ × Flags)) (r : Rewriter γ) : Prop :=
  r'.poisoned = r.poisoned ∧ (r.poisoned = false → SRel r'.stream r.stream)

/-- the observing run returned a dispatcher panic from some call -/
def PanicCall (x : CallRes) : Prop := ∃ s, x = .err (.panic s)

theorem Rewriter.write_obs (hst : StickyCtl w.ctl) (ht : EmitsChecked w.tbl = true) (r' : Rewriter (γ × Flags))
    (r : Rewriter γ) (data : Bytes) (h : RRel r' r) :
    PanicCall (r'.write w' data).2 ∨ ((r'.write w' data).2 = (r.write w data).2 ∧ RRel (r'.write w' data).1 (r.write w data).1) := by
  obtain ⟨st', po', en'⟩ := r'
  obtain ⟨st, po, en⟩ := r
  obtain ⟨hp, hs⟩ := h
  simp only at hp hs
  subst hp
  unfold Rewriter.write
  dsimp only
  cases po' with
  | true => simp only [if_true]; exact Or.inr ⟨by first | rfl | trivial, rfl, fun hh => by cases hh⟩
  | false =>
    simp only [Bool.false_eq_true, if_false]
    rcases Stream.write_obs (o := o) hst ht st' st data (hs rfl) with ⟨s, hpn⟩ | ⟨h1, h2⟩
    · left
      rw [hpn]
      exact ⟨s, rfl⟩
    · right
      rw [h1]
      cases hres : (st.write w data).2 with
      | ok u => exact ⟨by first | rfl | trivial, rfl, fun _ => h2 hres⟩
      | error e => exact ⟨by first | rfl | trivial, rfl, fun hh => by cases hh⟩

theorem writeAll_obs (hst : StickyCtl w.ctl) (ht : EmitsChecked w.tbl = true) (chunks : List Bytes)
    (r' : Rewriter (γ × Flags)) (r : Rewriter γ) (h : RRel r' r) :
    (∃ x ∈ (writeAll w' r' chunks).2, PanicCall x) ∨
    ((writeAll w' r' chunks).2 = (writeAll w r chunks).2 ∧ RRel (writeAll w' r' chunks).1 (writeAll w r chunks).1) := by
  induction chunks generalizing r' r with
  | nil => exact Or.inr ⟨rfl, h⟩
  | cons c cs ih =>
    simp only [writeAll]
    rcases Rewriter.write_obs (o := o) hst ht r' r c h with hpn | ⟨h1, h2⟩
    · exact Or.inl ⟨_, by simp, hpn⟩
    · rcases ih _ _ h2 with ⟨x, hx, hpn⟩ | ⟨h3, h4⟩
      · exact Or.inl ⟨x, by simp [hx], hpn⟩
      · exact Or.inr ⟨by rw [h1, h3], h4⟩

theorem new_rel (hst : StickyCtl w.ctl) (g : γ) (cfg : Settings) :
    RRel (Rewriter.new w' (g, w.ctl.initialFlags g) cfg) (Rewriter.new w g cfg) := by
  refine ⟨rfl, fun _ => ?_⟩
  have hne : (w.ctl.initialFlags g).isEmpty = false := Flags.sticky_nonempty (hst.init g)
  have hne' : ((w.ctl.initialFlags g).join o).isEmpty = false := Flags.sticky_nonempty (Flags.sticky_join (hst.init g))
  simp only [Rewriter.new, Stream.new, World.withObs, Model.withObs, hne, hne', Bool.false_eq_true, if_false]
  refine ⟨⟨rfl, rfl, rfl, rfl, rfl, ⟨?_, rfl, rfl⟩, ⟨_, rfl⟩⟩, rfl, rfl, rfl⟩
  refine ObsR.mk' (c' := (g, w.ctl.initialFlags g)) (c := g)
    (v' := ⟨(w.ctl.initialFlags g).join o, true, false, false, false, 0, .data, 0⟩)
    (v := ⟨w.ctl.initialFlags g, true, false, false, false, 0, .data, 0⟩) rfl rfl rfl rfl ?_
  exact ⟨rfl, ⟨o, rfl⟩, fun _ => hst.init g, Flags.sticky_join (hst.init g), rfl, rfl, rfl, rfl, rfl,
    fun hh => (by cases hh), fun _ hh => (by cases hh), Nat.le_refl _⟩

end

/-! ### the theorems -/

/-- **C06_independence_partial.** `H` a controller whose own capture flags always contain a
non-one-shot flag, `o` any observer flags, any table with `EmitsChecked`, any settings (strict or not),
any chunking: unless some call of the observing run returns a dispatcher panic, the two runs return
the same call results, and — if the final `end` succeeded — `H` ends in the same state (so `H`'s
handlers received the same events in the same order, `H` being arbitrary). -/
theorem C06_independence_partial (w : World γ) (o : Flags) (hst : StickyCtl w.ctl) (ht : EmitsChecked w.tbl = true)
    (g : γ) (cfg : Settings) (chunks : List Bytes) :
    let R' := run (World.withObs w o) (Rewriter.new (World.withObs w o) (g, w.ctl.initialFlags g) cfg) chunks
    let R := run w (Rewriter.new w g cfg) chunks
    (∃ x ∈ R'.2, ∃ s, x = CallRes.err (.panic s)) ∨
    (R'.2 = R.2 ∧ ((∀ x ∈ R.2, x = CallRes.ok) → R'.1.stream.disp.ctl.1 = R.1.stream.disp.ctl)) := by
  intro R' R
  simp only [R', R, run]
  rcases writeAll_obs (o := o) hst ht chunks _ _ (new_rel (o := o) hst g cfg) with ⟨x, hx, hpn⟩ | ⟨h1, hp, hs⟩
  · exact Or.inl ⟨x, by simp [hx], hpn⟩
  · -- the final `end`
    generalize writeAll (World.withObs w o) (Rewriter.new (World.withObs w o) (g, w.ctl.initialFlags g) cfg) chunks = A' at h1 hp hs ⊢
    generalize writeAll w (Rewriter.new w g cfg) chunks = A at h1 hp hs ⊢
    unfold Rewriter.end
    rw [hp]
    cases hpo : A.1.poisoned with
    | true =>
      right
      simp only [if_true]
      refine ⟨by rw [h1], fun hall => ?_⟩
      have := hall CallRes.panicUseAfterError (by simp)
      cases this
    | false =>
      simp only [Bool.false_eq_true, if_false]
      rcases Stream.end_obs (o := o) hst ht A'.1.stream A.1.stream (hs hpo) with ⟨s, hpn⟩ | ⟨e1, e2⟩
      · left
        refine ⟨CallRes.err (.panic s), ?_, s, rfl⟩
        rw [hpn]
        simp
      · right
        rw [e1]
        cases hres : (A.1.stream.end w).2 with
        | ok u =>
          refine ⟨by rw [h1], fun _ => ?_⟩
          exact e2 hres
        | error e =>
          refine ⟨by rw [h1], fun hall => ?_⟩
          have := hall (CallRes.err e) (by simp)
          cases this

/-- observer-only handlers do not make a clean controller unclean -/
theorem withObs_clean {H : Controller γ} (hc : CtlClean H) (o : Flags) : CtlClean (Model.withObs H o) where
  token := by
    intro g t e h
    simp only [Model.withObs] at h
    split at h
    · exact hc.token _ _ _ h
    · cases h
  startTag := by
    intro g n ns e h
    simp only [Model.withObs] at h
    split at h
    · cases h
    · cases h
    · rename_i g' e' heq
      simp only [StartTagRes.err.injEq] at h
      subst h
      exact hc.startTag _ _ _ _ (by rw [heq])
  auxInfo := by
    intro g i e h
    simp only [Model.withObs] at h
    split at h
    · cases h
    · rename_i g' e' heq
      simp only [Except.error.injEq] at h
      subst h
      exact hc.auxInfo _ _ _ (by rw [heq])
  handleEnd := by
    intro g e h
    exact hc.handleEnd _ _ h

/-- **C06_independence_partial_no_panic.** With the side-conditions of `C15_no_panic_full` the escape
"the observing run panics" is gone: same call results, same final state of `H`. -/
theorem C06_independence_partial_no_panic (w : World γ) (o : Flags) (L : Labels) (TT : TLabels) (P : PLabels) (S : SLabels)
    (hwf : WfTable w.tbl = true) (hcert : checkCert w.tbl (computeCert w.tbl) = true)
    (hside : RelexSide w.tbl L TT P S) (hc : CtlClean w.ctl) (hst : StickyCtl w.ctl) (ht : EmitsChecked w.tbl = true)
    (g : γ) (cfg : Settings) (chunks : List Bytes) :
    let R' := run (World.withObs w o) (Rewriter.new (World.withObs w o) (g, w.ctl.initialFlags g) cfg) chunks
    let R := run w (Rewriter.new w g cfg) chunks
    R'.2 = R.2 ∧ ((∀ x ∈ R.2, x = CallRes.ok) → R'.1.stream.disp.ctl.1 = R.1.stream.disp.ctl) := by
  intro R' R
  rcases C06_independence_partial w o hst ht g cfg chunks with ⟨x, hx, s, hs⟩ | h
  · exfalso
    have := C15.C15_no_panic_full (World.withObs w o) L TT P S hwf hcert hside (withObs_clean hc o)
      (g, w.ctl.initialFlags g) cfg chunks x hx
    rw [hs] at this
    exact this
  · exact h

/-- **C06_independence_observing.** For observer-only `H` and `H ∪ O` (both serialise every token
unchanged, never fail, never stop emission) the sink bytes of two successful runs are equal — both are
the input (C01). -/
theorem C06_independence_observing (w : World γ) (o : Flags) (hobs : ObservingAll w.ctl)
    (hobs' : ObservingAll (Model.withObs w.ctl o)) (g : γ) (cfg : Settings) (chunks : List Bytes)
    (hok' : ∀ x ∈ (run (World.withObs w o) (Rewriter.new (World.withObs w o) (g, w.ctl.initialFlags g) cfg) chunks).2, x = CallRes.ok)
    (hok : ∀ x ∈ (run w (Rewriter.new w g cfg) chunks).2, x = CallRes.ok) :
    sinkBytes (run (World.withObs w o) (Rewriter.new (World.withObs w o) (g, w.ctl.initialFlags g) cfg) chunks).1.sink =
      sinkBytes (run w (Rewriter.new w g cfg) chunks).1.sink := by
  rw [C01_passthrough (World.withObs w o) hobs' _ cfg chunks hok', C01_passthrough w hobs g cfg chunks hok]

/-! ### the code's current table; non-vacuity -/

theorem C06_emitsChecked_gen : EmitsChecked Gen.Syntax.table = true := by decide +kernel

/-- **C06_independence_partial_gen.** At the regenerated table: every tag configuration, every clean
always-lexing controller, every observer flag set, both modes, every chunking. -/
theorem C06_independence_partial_gen (w : World γ) (htbl : w.tbl = Gen.Syntax.table) (o : Flags)
    (hc : CtlClean w.ctl) (hst : StickyCtl w.ctl) (g : γ) (cfg : Settings) (chunks : List Bytes) :
    let R' := run (World.withObs w o) (Rewriter.new (World.withObs w o) (g, w.ctl.initialFlags g) cfg) chunks
    let R := run w (Rewriter.new w g cfg) chunks
    R'.2 = R.2 ∧ ((∀ x ∈ R.2, x = CallRes.ok) → R'.1.stream.disp.ctl.1 = R.1.stream.disp.ctl) :=
  C06_independence_partial_no_panic w o _ _ _ _ (by rw [htbl]; exact C15.C15_gen) (by rw [htbl]; exact C15.C15_cert_gen)
    (by rw [htbl]; exact C15.C15_relexSide_gen) hc hst (by rw [htbl]; exact C06_emitsChecked_gen) g cfg chunks

/-- a controller with a document-level text handler (constant flags containing TEXT) is always-lexing -/
theorem constCtl_sticky (f : Nat) (h : (Flags.ofNat f).sticky = true) : StickyCtl (constCtl f) where
  init := fun _ => h
  start := by intro g n ns f' hf; simp [constCtl] at hf; subst hf; exact h
  aux := by intro g i f' hf; simp [constCtl] at hf; subst hf; exact h
  end_ := fun _ _ => h

example : StickyCtl (constCtl 1) := constCtl_sticky 1 (by decide)

/-- the two runs differ in what the dispatcher captures: with the observer `comments` (2) the text-only
controller's run hands comment tokens to the (filtering) controller — yet `H` sees the same events -/
example : ((Flags.ofNat 1).join (Flags.ofNat 2)).comments = true ∧ (Flags.ofNat 1).comments = false := by decide

end LolHtml.Thm.C06
