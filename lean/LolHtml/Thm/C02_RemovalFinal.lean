import LolHtml.Thm.C02_Removal
import LolHtml.Thm.C02_Final
import LolHtml.Lemmas.ChunkResume
import LolHtml.Lemmas.ChunkFullPanic
/-!
# C02 / C09 with content removal, capstone: `ResumeAtEndTag` discharged

`Thm/C02_Removal.lean` assumes `ResumeAtEndTag` (the assertions of the checked rewriter never fire). With
pkg scan's END direction of the re-lexing agreement (`C06_relex_end_tag`) and pkg inv's watermark invariant
(`parse_post`) it is a theorem — `C02_resumeAtEndTag` — for every table passing the decidable
side-conditions (`RelexSide`, `EmitsChecked`, `WfTable`) and every controller of the class that never
returns a panic-class error itself (`CtlClean`). With `C15_no_panic_full` for the panic half of `Clean`,
what remains of the hypotheses of C02 / C09 is "no memory-limit error" (chunk-dependent by nature).

The real controller `fullCtl` is NOT `CtlClean` (`Full_not_ctlClean`: its callbacks report the panic sites
of `selectors_vm` / `handlers_dispatcher` as panic-class errors, in states no run reaches), and "no callback
returns `.panic guardSite`" is false of it in ALL states too (the recorded `fault` is an arbitrary string in
states no run reaches). `C02_resumeAtEndTag_all` (Lemmas/ChunkResumeAll.lean) needs only `PanicLaws ctl D`: a
callback-closed set `D` of states on which no callback returns `.panic guardSite`. Until a call fails and
poisons the rewriter, the run of `ctl` is the run of `cleanCtl ctl` (panic- and internal-class errors of the
callbacks replaced by the handler error), which is `CtlClean`; "the guard never fires" and the watermark bound
are transported along that simulation (Lemmas/ParseRelE.lean, Lemmas/CtlSim.lean). The real controller has
`PanicLaws` (`fullCtl_panicLaws`: its panic-class errors carry its own site strings or the recorded fault, and
`handle_end_tag` records only its own sites), hence **`C02_real_final` / `C09_real_final`**: no
`ResumeAtEndTag` hypothesis left.
-/
namespace LolHtml.Thm.C02
open LolHtml LolHtml.Model LolHtml.Model.Chunk LolHtml.Model.Chunk.R

variable {γ : Type}

/-- **`ResumeAtEndTag` is a theorem** for clean controllers whose `handle_start_tag` and non-tag tokens keep
`should_emit_content()` (in particular: for the class `TextBlindR`, hence also for `TextBlind`, where it is
vacuous — emission is never disabled): on every chunking the checked rewriter IS the real one. -/
theorem C02_resumeAtEndTag (w : World γ) (L : Labels) (TT : TLabels) (P : PLabels) (S : SLabels)
    (hwf : WfTable w.tbl = true) (hside : RelexSide w.tbl L TT P S) (ht : EmitsChecked w.tbl = true)
    (hc : CtlClean w.ctl) (hl : ResumeLaws w.ctl) (g : γ) (cfg : Settings) (cs : List Bytes) :
    ResumeAtEndTag w g cfg cs := by
  unfold ResumeAtEndTag
  rw [runG_eq hside ht hwf hc hl g cfg cs, writeAllG_eq hside ht hwf hc hl g cfg cs]
  exact ⟨rfl, rfl, rfl, rfl⟩

/-- **`ResumeAtEndTag` is a theorem for every controller with `PanicLaws`** (no `CtlClean`): the checked
rewriter IS the real one on every chunking, whatever the calls return. -/
theorem C02_resumeAtEndTag_all (w : World γ) (L : Labels) (TT : TLabels) (P : PLabels) (S : SLabels) (D : γ → Prop)
    (hwf : WfTable w.tbl = true) (hside : RelexSide w.tbl L TT P S) (ht : EmitsChecked w.tbl = true)
    (hl : ResumeLaws w.ctl) (hpl : PanicLaws w.ctl D) (g : γ) (hg : D g) (cfg : Settings) (cs : List Bytes) :
    ResumeAtEndTag w g cfg cs := by
  unfold ResumeAtEndTag
  rw [runG_eq' hside ht hwf hl hpl g hg cfg cs, writeAllG_eq' hside ht hwf hl hpl g hg cfg cs]
  exact ⟨rfl, rfl, rfl, rfl⟩

/-- **C02 with removal, final form.** Two chunkings of the same document, any controller of the class
`TextBlindR` that starts with emission on and never returns a panic-class error itself, any table passing the
side-conditions: if no call of the two runs and of the single-write run fails on the memory limit, the
outcomes are equal and on success so are the bytes at the sink. -/
theorem C02_chunk_invariance_removal_final (w : World γ) (L : Labels) (TT : TLabels) (P : PLabels) (S : SLabels)
    (E : γ → γ → Prop) (g : γ) (cfg : Settings) (cs₁ cs₂ : List Bytes)
    (hwfc : WfChunk w.tbl = true) (hwf : WfTable w.tbl = true) (hcert : checkCert w.tbl (computeCert w.tbl) = true)
    (hside : RelexSide w.tbl L TT P S) (ht : EmitsChecked w.tbl = true) (hc : CtlClean w.ctl)
    (hcl : TextBlindR w.ctl E) (hg : E g g) (hse : w.ctl.shouldEmit g = true) (h1 : cs₁ ≠ []) (h2 : cs₂ ≠ [])
    (hflat : cs₁.flatten = cs₂.flatten)
    (hm1 : NoMem (C01.run w (C01.Rewriter.new w g cfg) cs₁).2)
    (hm2 : NoMem (C01.run w (C01.Rewriter.new w g cfg) cs₂).2)
    (hmW : NoMem (C01.run w (C01.Rewriter.new w g cfg) [cs₁.flatten]).2) :
    outcome (C01.run w (C01.Rewriter.new w g cfg) cs₁).2 = outcome (C01.run w (C01.Rewriter.new w g cfg) cs₂).2 ∧
    (outcome (C01.run w (C01.Rewriter.new w g cfg) cs₁).2 = .ok →
      sinkBytes (C01.run w (C01.Rewriter.new w g cfg) cs₁).1.sink =
        sinkBytes (C01.run w (C01.Rewriter.new w g cfg) cs₂).1.sink) :=
  C02_chunk_invariance_removal w E g cfg cs₁ cs₂ hwfc hcl hg hse h1 h2 hflat
    (clean_of_callOK (C15.C15_no_panic_full w L TT P S hwf hcert hside hc g cfg cs₁) hm1)
    (clean_of_callOK (C15.C15_no_panic_full w L TT P S hwf hcert hside hc g cfg cs₂) hm2)
    (clean_of_callOK (C15.C15_no_panic_full w L TT P S hwf hcert hside hc g cfg [cs₁.flatten]) hmW)
    (C02_resumeAtEndTag w L TT P S hwf hside ht hc hcl.resumeLaws g cfg cs₁)
    (C02_resumeAtEndTag w L TT P S hwf hside ht hc hcl.resumeLaws g cfg cs₂)
    (C02_resumeAtEndTag w L TT P S hwf hside ht hc hcl.resumeLaws g cfg [cs₁.flatten])

/-- **C09 with removal, final form.** -/
theorem C09_schedule_independent_removal_final (w : World γ) (L : Labels) (TT : TLabels) (P : PLabels) (S : SLabels)
    (E : γ → γ → Prop) (g : γ) (cfg : Settings) (cs : List Bytes)
    (hwfc : WfChunk w.tbl = true) (hwf : WfTable w.tbl = true) (hcert : checkCert w.tbl (computeCert w.tbl) = true)
    (hside : RelexSide w.tbl L TT P S) (ht : EmitsChecked w.tbl = true) (hc : CtlClean w.ctl)
    (hcl : TextBlindR w.ctl E) (hg : E g g) (hse : w.ctl.shouldEmit g = true) (hne : cs ≠ [])
    (hall : ∀ r ∈ (C01.writeAll w (C01.Rewriter.new w g cfg) cs).2, r = .ok)
    (hmW : ((C01.Rewriter.new w g cfg).write w cs.flatten).2 ≠ .err .mem) :
    ((C01.Rewriter.new w g cfg).write w cs.flatten).2 = .ok ∧
    sinkBytes (C01.writeAll w (C01.Rewriter.new w g cfg) cs).1.sink =
      sinkBytes ((C01.Rewriter.new w g cfg).write w cs.flatten).1.sink := by
  apply C09_schedule_independent_removal w E g cfg cs hwfc hcl hg hse hne hall ?_
    (C02_resumeAtEndTag w L TT P S hwf hside ht hc hcl.resumeLaws g cfg cs)
    (C02_resumeAtEndTag w L TT P S hwf hside ht hc hcl.resumeLaws g cfg [cs.flatten])
  intro r hr
  simp only [List.mem_singleton] at hr
  subst hr
  have hmem : ((C01.Rewriter.new w g cfg).write w cs.flatten).2 ∈
      (C01.run w (C01.Rewriter.new w g cfg) [cs.flatten]).2 := by
    simp [C01.run, C01.writeAll]
  refine ⟨fun s hs => ?_, hmW⟩
  have := C15.C15_no_panic_full w L TT P S hwf hcert hside hc g cfg [cs.flatten] _ hmem
  rw [hs] at this
  exact this

/-! ## The real `HtmlRewriteController`, final form -/

section real
open LolHtml.Model.Full LolHtml.Thm.Full

/-- the assertions of the checked rewriter never fire for the real controller, on any chunking, with any
handlers (also text handlers) -/
theorem C02_resumeAtEndTag_real (hc : Cfg) (settings : Settings) (cs : List Bytes) :
    ResumeAtEndTag (genWorld hc) (FullSt.init hc) settings cs :=
  C02_resumeAtEndTag_all (genWorld hc) _ _ _ _ (FullD hc) C15.C15_gen C15.C15_relexSide_gen
    (show EmitsChecked Gen.Syntax.table = true by decide +kernel)
    (fullCtl_textBlindR hc).resumeLaws (fullCtl_panicLaws hc) (FullSt.init hc) (init_fullD hc) settings cs

/-- **C02_real_final.** The whole rewriter model — tokenizer tables regenerated from /repo, the real
`HtmlRewriteController` — for every configuration without text handlers (arbitrary selectors; element,
comment, doctype, end-tag and document-end handlers with arbitrary mutating / removing / failing scripts):
any two chunkings of a document give the same outcome and on success the same OUTPUT, provided no call of the
two runs and of the single-write run returns a panic-class or memory-limit error. -/
theorem C02_real_final (hc : Cfg) (hnt : noText hc = true) (settings : Settings) (cs₁ cs₂ : List Bytes)
    (h1 : cs₁ ≠ []) (h2 : cs₂ ≠ []) (hflat : cs₁.flatten = cs₂.flatten)
    (hc1 : Clean (C01.run (genWorld hc) (C01.Rewriter.new (genWorld hc) (FullSt.init hc) settings) cs₁).2)
    (hc2 : Clean (C01.run (genWorld hc) (C01.Rewriter.new (genWorld hc) (FullSt.init hc) settings) cs₂).2)
    (hcW : Clean (C01.run (genWorld hc) (C01.Rewriter.new (genWorld hc) (FullSt.init hc) settings) [cs₁.flatten]).2) :
    outcome (C01.run (genWorld hc) (C01.Rewriter.new (genWorld hc) (FullSt.init hc) settings) cs₁).2 =
      outcome (C01.run (genWorld hc) (C01.Rewriter.new (genWorld hc) (FullSt.init hc) settings) cs₂).2 ∧
    (outcome (C01.run (genWorld hc) (C01.Rewriter.new (genWorld hc) (FullSt.init hc) settings) cs₁).2 = .ok →
      sinkBytes (C01.run (genWorld hc) (C01.Rewriter.new (genWorld hc) (FullSt.init hc) settings) cs₁).1.sink =
        sinkBytes (C01.run (genWorld hc) (C01.Rewriter.new (genWorld hc) (FullSt.init hc) settings) cs₂).1.sink) :=
  C02_real hc hnt settings cs₁ cs₂ h1 h2 hflat hc1 hc2 hcW (C02_resumeAtEndTag_real hc settings cs₁)
    (C02_resumeAtEndTag_real hc settings cs₂) (C02_resumeAtEndTag_real hc settings [cs₁.flatten])

/-- **C09_real_final.** After any successful writes the sink has exactly the bytes a fresh rewriter given the
concatenation in ONE write has emitted, and that write succeeds, provided it returns no panic-class or
memory-limit error. -/
theorem C09_real_final (hc : Cfg) (hnt : noText hc = true) (settings : Settings) (cs : List Bytes) (hne : cs ≠ [])
    (hall : ∀ r ∈ (C01.writeAll (genWorld hc) (C01.Rewriter.new (genWorld hc) (FullSt.init hc) settings) cs).2, r = .ok)
    (hcW : Clean [((C01.Rewriter.new (genWorld hc) (FullSt.init hc) settings).write (genWorld hc) cs.flatten).2]) :
    ((C01.Rewriter.new (genWorld hc) (FullSt.init hc) settings).write (genWorld hc) cs.flatten).2 = .ok ∧
    sinkBytes (C01.writeAll (genWorld hc) (C01.Rewriter.new (genWorld hc) (FullSt.init hc) settings) cs).1.sink =
      sinkBytes ((C01.Rewriter.new (genWorld hc) (FullSt.init hc) settings).write (genWorld hc) cs.flatten).1.sink :=
  C09_real hc hnt settings cs hne hall hcW (C02_resumeAtEndTag_real hc settings cs)
    (C02_resumeAtEndTag_real hc settings [cs.flatten])

/-- non-vacuity: the hypotheses of `C02_real_final` hold for `el.remove()` on the three chunkings of
`<div a=b>x</div>y` (`Clean`: all calls succeed), so its conclusion — proved, not evaluated — is that the
outputs agree; evaluated, each is `y` (examples in `Thm/C02_Removal.lean`) -/
example : sinkBytes (C01.run (genWorld mutCfg) (C01.Rewriter.new (genWorld mutCfg) (FullSt.init mutCfg) {}) rch2).1.sink =
    sinkBytes (C01.run (genWorld mutCfg) (C01.Rewriter.new (genWorld mutCfg) (FullSt.init mutCfg) {}) rch3).1.sink :=
  (C02_real_final mutCfg (by decide) {} rch2 rch3 (by decide) (by decide) (by decide)
    (clean_of_all_ok (by decide +kernel)) (clean_of_all_ok (by decide +kernel)) (clean_of_all_ok (by decide +kernel))).2
    (by decide +kernel)

/-- the same for `set_attribute` + `after` on `[a]` -/
example : sinkBytes (C01.run (genWorld auxCfg) (C01.Rewriter.new (genWorld auxCfg) (FullSt.init auxCfg) {}) rch2).1.sink =
    sinkBytes (C01.run (genWorld auxCfg) (C01.Rewriter.new (genWorld auxCfg) (FullSt.init auxCfg) {}) rch3).1.sink :=
  (C02_real_final auxCfg (by decide) {} rch2 rch3 (by decide) (by decide) (by decide)
    (clean_of_all_ok (by decide +kernel)) (clean_of_all_ok (by decide +kernel)) (clean_of_all_ok (by decide +kernel))).2
    (by decide +kernel)

end real

/-! ## Non-vacuity: a clean controller that removes content

`dropCtl` removes every `<b>` element with its content: the start-tag hint for `b` requests the lexeme, the
start-tag token is dropped and opens a removed region (`should_emit_content() = false`), the end-tag hint for
`b` closes it (the dispatcher then requests the end-tag lexeme: `should_stop_removing_element_content`), and
the end-tag token is dropped. State: nesting depth of open `<b>`. -/

def bName : LocalName := .hash (NameHash.ofBytes [98])

def dropCtl : Controller Nat :=
  { initialFlags := fun _ => {}
    startTag := fun n name _ => (n, .flags (if name == bName then { nextStartTag := true } else {}))
    auxInfo := fun n _ => (n, .ok {})
    endTag := fun n name => (if name == bName then n - 1 else n, {})
    token := fun n t => match t with
      | .startTag .. => (n + 1, { chunks := [] })
      | .endTag .. => (n, { chunks := [] })
      | .text b _ _ _ => (n, { chunks := [b] })
      | t => (n, { chunks := [t.raw] })
    shouldEmit := fun n => n == 0
    handleEnd := fun n => (n, [], none)
    bailOut := fun n _ => (n, []) }

theorem dropCtl_clean : CtlClean dropCtl where
  token := fun g t e h => by
    cases t <;> simp [dropCtl] at h
  startTag := fun g n ns e h => by simp [dropCtl] at h
  auxInfo := fun g i e h => by simp [dropCtl] at h
  handleEnd := fun g e h => by simp [dropCtl] at h

theorem dropCtl_textBlindR : TextBlindR dropCtl Eq where
  dom := fun _ _ _ => ⟨rfl, rfl⟩
  dom_tok := fun _ _ _ => rfl
  trans := fun _ _ _ h1 h2 => h1.trans h2
  token_norm := fun g t t' h _ _ => by
    cases t <;> cases t' <;> simp only [normToken] at h <;> first | cases h | skip
    all_goals first | rfl | (injection h with h1 h2 h3 h4 h5 h6 h7; subst_vars; rfl)
  aux_norm := fun _ _ _ _ => Or.inr rfl
  start := fun g g' n ns h => by subst h; exact ⟨rfl, rfl⟩
  endT := fun g g' n h => by subst h; exact ⟨rfl, rfl⟩
  aux := fun g g' i h => by subst h; exact ⟨rfl, rfl⟩
  emit := fun g g' h => by subst h; rfl
  emit_start := fun _ _ _ => rfl
  emit_aux := fun _ _ => rfl
  emit_end := fun g n h => by
    have hg : g = 0 := by simpa [dropCtl] using h
    subst hg
    show ((if n == bName then 0 - 1 else 0) == 0) = true
    split <;> rfl
  emit_tok := fun g t ht => by cases t <;> first | rfl | cases ht
  flags := fun g g' h => by subst h; rfl
  tok := fun g g' t h _ => by subst h; exact ⟨rfl, rfl, rfl, rfl⟩
  text_ok := fun g b tt l s _ => Or.inl ⟨rfl, rfl, by simp [dropCtl]⟩
  dead_E := fun g g' h hd => by subst h; exact hd
  dead_tok := fun g b tt l s _ hd => hd
  text_cong := fun g g' b tt l s h => by subst h; rfl
  text_split := fun g b1 b2 tt l s _ => rfl
  handleEnd := fun g g' h => by subst h; exact ⟨rfl, rfl⟩

/-- the regenerated tables with `dropCtl` -/
def dropWorld : World Nat := ⟨Gen.Syntax.table, Gen.Tags.cfg, dropCtl⟩

/-- **C02 with removal at the code's current table**, for `dropCtl`: no hypothesis but "no memory-limit
error". -/
theorem C02_chunk_invariance_drop (cfg : Settings) (cs₁ cs₂ : List Bytes) (h1 : cs₁ ≠ []) (h2 : cs₂ ≠ [])
    (hflat : cs₁.flatten = cs₂.flatten)
    (hm1 : NoMem (C01.run dropWorld (C01.Rewriter.new dropWorld 0 cfg) cs₁).2)
    (hm2 : NoMem (C01.run dropWorld (C01.Rewriter.new dropWorld 0 cfg) cs₂).2)
    (hmW : NoMem (C01.run dropWorld (C01.Rewriter.new dropWorld 0 cfg) [cs₁.flatten]).2) :
    outcome (C01.run dropWorld (C01.Rewriter.new dropWorld 0 cfg) cs₁).2 =
      outcome (C01.run dropWorld (C01.Rewriter.new dropWorld 0 cfg) cs₂).2 ∧
    (outcome (C01.run dropWorld (C01.Rewriter.new dropWorld 0 cfg) cs₁).2 = .ok →
      sinkBytes (C01.run dropWorld (C01.Rewriter.new dropWorld 0 cfg) cs₁).1.sink =
        sinkBytes (C01.run dropWorld (C01.Rewriter.new dropWorld 0 cfg) cs₂).1.sink) :=
  C02_chunk_invariance_removal_final dropWorld _ _ _ _ Eq 0 cfg cs₁ cs₂ C02_wf_gen C15.C15_gen C15.C15_cert_gen
    C15.C15_relexSide_gen (by decide +kernel) dropCtl_clean dropCtl_textBlindR rfl rfl h1 h2 hflat hm1 hm2 hmW

/-- `a<b c=d>x<i>y</i></b>z<b>w` -/
def ddoc : Bytes := [97, 60,98,32,99,61,100,62, 120, 60,105,62, 121, 60,47,105,62, 60,47,98,62, 122, 60,98,62, 119]

def dch1 : List Bytes := [ddoc]
/-- split inside the removed start tag, inside the removed content and inside the end tag that resumes -/
def dch2 : List Bytes := [ddoc.take 4, (ddoc.take 10).drop 4, (ddoc.take 19).drop 10, ddoc.drop 19]

example : dch1.flatten = dch2.flatten := by decide

/-- removal really happens, under both chunkings: `az`, and all calls succeed -/
example : (C01.run dropWorld (C01.Rewriter.new dropWorld 0 {}) dch2).2 = [.ok, .ok, .ok, .ok, .ok] ∧
    sinkBytes (C01.run dropWorld (C01.Rewriter.new dropWorld 0 {}) dch1).1.sink = [97, 122] ∧
    sinkBytes (C01.run dropWorld (C01.Rewriter.new dropWorld 0 {}) dch2).1.sink = [97, 122] := by decide +kernel

/-- the hypothesis `ResumeAtEndTag` holds on the concrete runs (as `C02_resumeAtEndTag` says it must) -/
example : ResumeAtEndTag dropWorld 0 {} dch1 ∧ ResumeAtEndTag dropWorld 0 {} dch2 := by decide +kernel

end LolHtml.Thm.C02
