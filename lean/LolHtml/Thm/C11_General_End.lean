import LolHtml.Thm.C11_General
/-!
# C11 — graceful bail-out for every controller: the `end()` variant

`end()` parses the retained bytes as the last input and then runs `Dispatcher::finish`. It can fail in
two ways:

* the parser (or a handler called by it) fails with `e`: exactly as for `write`, `BailLog` with
  `inp` = the retained bytes — with the matching flag the bail-out handlers run once and every remaining
  retained byte is flushed unmodified, without it nothing is added;
* an end handler fails (`handle_end`): all input has already been flushed (`remaining_content_start = 0`
  over the whole retained slice), the log is the log at that moment plus what the end handlers wrote
  before failing; no bail-out handler runs (there is nothing left to preserve), whatever the flags.
-/
namespace LolHtml.Thm.C11G
open LolHtml LolHtml.Model LolHtml.Thm.C01

variable {γ : Type}

/-- what a failing `end()` leaves in the sink log when the failure is in an end handler -/
def EndHandlerFail (w : World γ) (s s' : Stream γ) (e : Err) : Prop :=
  ∃ d : Disp γ, Grows s.disp d ∧ d.rcs = 0 ∧ (w.ctl.handleEnd d.ctl).2.2 = some e ∧
    s'.disp.sink = d.sink ++ (w.ctl.handleEnd d.ctl).2.1.map .chunk ∧ s'.bailOutRuns = s.bailOutRuns

section
variable {w : World γ}

/-- **A failing `end`, any controller.** -/
theorem Stream.end_bail {cert : Cert} (hc : CtlClean w.ctl) (hw : Wf w.tbl) (hchk : checkCert w.tbl cert = true)
    (s : Stream γ) (hs : SInv2 w cert s) (e : Err) (h : (s.end w).2 = .error e) :
    BailLog w s (s.end w).1 s.pending e ∨ EndHandlerFail w s (s.end w).1 e := by
  obtain ⟨⟨hrcs, hpinv⟩, hptok⟩ := hs
  have hpend : s.pending = (if s.hasBuffered then s.buf.data else []) := rfl
  have hp1 : PInv w.tbl (if s.hasBuffered then s.buf.data else []).length (fun d : Disp γ => d.rcs) s.parser := by
    split <;> rename_i hb <;> simpa [hb] using hpinv
  have hgrow := Stream.parse_grows (w := w) s (if s.hasBuffered then s.buf.data else []) true
  have hW := parse_W (env := w.env) (cert := cert) hchk (dispOps_safe hc) (dispOps_safe2 hc) hw true s.parser hp1 hptok
  have hpost := parse_post (env := w.env) (dispOps_safe hc) hw true s.parser hp1
  unfold ParsePost at hpost
  unfold Stream.end at h ⊢
  dsimp only at h ⊢
  cases hpr : (s.parser.parse w.env (if s.hasBuffered then s.buf.data else []) true).2 with
  | error e' =>
    rw [hpr] at h
    dsimp only at h ⊢
    simp only [Except.error.injEq] at h
    subst h
    left
    rw [hpend]
    exact bailLog_of_one (s0 := { s with parser := (s.parser.parse w.env (if s.hasBuffered then s.buf.data else []) true).1 })
      hgrow rfl rfl hW hW rfl
  | ok consumed =>
    rw [hpr] at hpost h
    obtain ⟨p1, p2, _⟩ := hpost
    dsimp only at h ⊢
    right
    obtain ⟨d, hfl, hd0⟩ := flushRemaining_ok
      (Stream.disp { s with parser := (s.parser.parse w.env (if s.hasBuffered then s.buf.data else []) true).1 })
      (if s.hasBuffered then s.buf.data else []) _ (Nat.le_trans p1 p2) (Nat.le_refl _)
    have hg2 := hgrow.trans (flushRemaining_grows _ d _ _ hfl)
    unfold Disp.finish at h ⊢
    rw [hfl] at h ⊢
    simp only [DRes.ofExcept, DRes.bind] at h ⊢
    cases he : (w.ctl.handleEnd d.ctl).2.2 with
    | none => rw [he] at h; cases h
    | some e' =>
      rw [he] at h
      simp only [Except.error.injEq] at h
      subst h
      exact ⟨d, hg2, hd0, he, by simp [Stream.disp, Stream.setDisp], rfl⟩

end

/-- **C11_bailout_general_end.** All writes succeeded; `end()` fails with `e`. For every controller
(`CtlClean`), every table with the C15 side-conditions, every settings record: either the parser /
a content handler failed — then, with the matching flag, the bail-out handlers run once and every
remaining retained byte is flushed unmodified after the log at the failure, without the flag nothing is
added — or an end handler failed after all input had been flushed, and no bail-out handler runs. -/
theorem C11_bailout_general_end (w : World γ) (hwf : WfTable w.tbl = true)
    (hcert : checkCert w.tbl (computeCert w.tbl) = true) (hc : CtlClean w.ctl) (g : γ) (cfg : Settings)
    (chunks : List Bytes) (e : Err)
    (hok : ∀ x ∈ (writeAll w (Rewriter.new w g cfg) chunks).2, x = CallRes.ok)
    (herr : ((writeAll w (Rewriter.new w g cfg) chunks).1.end w).2 = .err e) :
    (BailLog w (writeAll w (Rewriter.new w g cfg) chunks).1.stream
        ((writeAll w (Rewriter.new w g cfg) chunks).1.end w).1.stream
        (writeAll w (Rewriter.new w g cfg) chunks).1.stream.pending e ∨
     EndHandlerFail w (writeAll w (Rewriter.new w g cfg) chunks).1.stream
        ((writeAll w (Rewriter.new w g cfg) chunks).1.end w).1.stream e) ∧
    ((writeAll w (Rewriter.new w g cfg) chunks).1.end w).1.poisoned = true := by
  have hw := WfTable.wf hwf
  obtain ⟨hp, hs⟩ := writeAll_ok_inv hc hw hcert chunks (Rewriter.new w g cfg) rfl
    (Stream.new_SInv2 hw hcert g cfg) hok
  generalize (writeAll w (Rewriter.new w g cfg) chunks).1 = r0 at *
  unfold Model.Rewriter.end at herr ⊢
  simp only [hp, Bool.false_eq_true, if_false] at herr ⊢
  cases hres : (r0.stream.end w).2 with
  | ok u => simp [hres] at herr
  | error e' =>
    simp only [hres, CallRes.err.injEq] at herr ⊢
    subst herr
    exact ⟨Stream.end_bail hc hw hcert r0.stream hs e' hres, trivial⟩

/-- `<a>x<!--c` then `end()` with the token-removing controller of `C11_General`: the comment is only
complete at `end()`, the handler fails there; with `bailOnHandler` the bail-out handler writes `!` and
the retained `<!--c` is flushed unmodified -/
example : (((Rewriter.new ⟨Gen.Syntax.table, Gen.Tags.cfg, dropCtl⟩ () { bailOnHandler := true }).write
      ⟨Gen.Syntax.table, Gen.Tags.cfg, dropCtl⟩ [60,97,62,120,60,33,45,45,99]).1.end
      ⟨Gen.Syntax.table, Gen.Tags.cfg, dropCtl⟩).1.sink
    = [.enc 0, .chunk [33], .chunk [60,33,45,45,99]] := by decide +kernel

end LolHtml.Thm.C11G
