/-
C04 (selector matching = CSS semantics) — the pure leaf functions of the selector engine:
`NthChild::has_index` (src/selectors_vm/ast.rs) and the attribute operators of
src/selectors_vm/attribute_matcher.rs as wired by src/selectors_vm/compiler.rs.

Everything below is about `LolHtml.Model.Nth.hasIndex` and the `LolHtml.Model.AttrMatch` functions —
the very functions lane `selpure` executes — against `LolHtml.Spec.Nth` / `LolHtml.Spec.AttrOps`.
Notation in comments: `A B I` are the mathematical integers denoted by the `i32`s `a b i`.
-/
import LolHtml.Lemmas.Nth
import LolHtml.Lemmas.AttrMatch

namespace LolHtml.Thm.C04_Pure
open LolHtml LolHtml.Model LolHtml.Model.Nth LolHtml.Model.AttrMatch
open LolHtml.Spec.Nth LolHtml.Spec.AttrOps
open LolHtml.Lemmas.Nth LolHtml.Lemmas.AttrMatch

/-! ## `:nth-child(An+B)` / `:nth-of-type(An+B)` -/

/-- **C04_nth_total.** `has_index` never panics: no `i64` overflow in `index as i64 - offset as i64`,
no zero divisor and no `i64::MIN % -1` in `offsetted % step`, for all `i32` triples. -/
theorem C04_nth_total (a b i : Int32) : ∃ r, hasIndex ⟨a, b⟩ i = some r :=
  ⟨_, hasIndex_eq a b i⟩

/-- **C04_nth.** The property at full strength: for **all** `i32` triples (no condition on the sign
of `i`, no range condition), `has_index` answers `true` exactly when `I = A·n + B` for some
non-negative integer `n` — over the mathematical integers. -/
theorem C04_nth (a b i : Int32) :
    hasIndex ⟨a, b⟩ i = some true ↔ Matches a.toInt b.toInt i.toInt := by
  rw [hasIndex_eq, Option.some.injEq, intHasIndex_iff]
  unfold Matches
  constructor <;> rintro ⟨n, hn⟩ <;> exact ⟨n, by omega⟩

/-- The same as a decision in both directions: the answer is `false` exactly when there is no
such `n` (a corollary of totality + `C04_nth`). -/
theorem C04_nth_false (a b i : Int32) :
    hasIndex ⟨a, b⟩ i = some false ↔ ¬ Matches a.toInt b.toInt i.toInt := by
  rw [← C04_nth]
  obtain ⟨r, hr⟩ := C04_nth_total a b i
  rw [hr]
  cases r <;> simp

/-- The property as stated in the brief (all `i32` triples with `0 < i`) — now a theorem. -/
theorem C04_nth_pos (a b i : Int32) (_hi : 0 < i) :
    hasIndex ⟨a, b⟩ i = some true ↔ Matches a.toInt b.toInt i.toInt :=
  C04_nth a b i

/-- Regression of the repaired defect (commit 614f5b5), formerly the two counterexamples:
`:nth-child(n-2147483648)` selects the first child (`n = 2³¹ + 1`), `:nth-child(-n-2147483647)`
does not. -/
theorem C04_nth_extreme_offsets :
    hasIndex ⟨1, -2147483648⟩ 1 = some true ∧ hasIndex ⟨-1, -2147483647⟩ 1 = some false ∧
    hasIndex ⟨-1, -2147483648⟩ 2147483647 = some false ∧
    hasIndex ⟨2147483647, -2147483648⟩ 2147483647 = some false ∧
    hasIndex ⟨-2147483648, 2147483647⟩ (-2147483648) = some false ∧
    hasIndex ⟨-1, 2147483647⟩ (-2147483648) = some true := by decide

/-- Non-vacuity: `:nth-child(2n+1)` selects child 5 (`n = 2`) and not child 4. -/
example : hasIndex ⟨2, 1⟩ 5 = some true ∧ Matches (2 : Int32).toInt (1 : Int32).toInt (5 : Int32).toInt :=
  ⟨by decide, (C04_nth 2 1 5).1 (by decide)⟩
example : hasIndex ⟨2, 1⟩ 4 = some false ∧ ¬ Matches (2 : Int32).toInt (1 : Int32).toInt (4 : Int32).toInt :=
  ⟨by decide, (C04_nth_false 2 1 4).1 (by decide)⟩
example : hasIndex ⟨-3, 7⟩ 1 = some true ∧ hasIndex ⟨-3, 7⟩ 10 = some false := by decide
example : Matches (1 : Int32).toInt (-2147483648 : Int32).toInt (1 : Int32).toInt :=
  (C04_nth 1 (-2147483648) 1).1 (by decide)

/-! ## Attribute operators -/

/-- The CSS meaning of each operator (Spec/AttrOps.lean). -/
def OpHolds : Op → Case → Bytes → Bytes → Prop
  | .equal => OpEqual
  | .includes => OpIncludes
  | .dashMatch => OpDashMatch
  | .pre => OpPrefix
  | .suffix => OpSuffix
  | .substring => OpSubstring

/-- **C04_attr_ops_total.** None of the six closures can panic (`usize` underflow in `$=`, the
`search` loop of `*=` running out of the stated fuel `len + 1`): ∀ operator, case mode, byte strings. -/
theorem C04_attr_ops_total (op : Op) (cs : CaseSensitivity) (v n : Bytes) :
    ∃ r, evalOpV op cs v n = some r := by
  cases op
  · exact ⟨_, rfl⟩
  · exact ⟨_, rfl⟩
  · exact ⟨_, rfl⟩
  · exact ⟨_, rfl⟩
  · obtain ⟨r, hr, _⟩ := hasAttrWithSuffixV_iff cs v n; exact ⟨r, hr⟩
  · obtain ⟨r, hr, _⟩ := hasAttrWithSubstringV_iff cs v n; exact ⟨r, hr⟩

/-- `[att=val]`: exact, ∀ byte strings, both case modes. -/
theorem C04_attr_eq (cs : CaseSensitivity) (v n : Bytes) :
    evalOpV .equal cs v n = some true ↔ OpEqual (toCase cs) v n := by
  simp only [evalOpV, Option.some.injEq]; exact attrEqV_iff cs v n

/-- `[att|=val]`: exact, ∀ byte strings (also for the empty operand), both case modes. -/
theorem C04_attr_dash (cs : CaseSensitivity) (v n : Bytes) :
    evalOpV .dashMatch cs v n = some true ↔ OpDashMatch (toCase cs) v n := by
  simp only [evalOpV, Option.some.injEq]; exact hasDashMatchingAttrV_iff cs v n

/-- `[att*=val]`: exact, ∀ byte strings (the empty operand never matches), both case modes —
including the `memchr`/`memchr2` candidate loop. -/
theorem C04_attr_substring (cs : CaseSensitivity) (v n : Bytes) :
    evalOpV .substring cs v n = some true ↔ OpSubstring (toCase cs) v n := by
  obtain ⟨r, hr, hiff⟩ := hasAttrWithSubstringV_iff cs v n
  simp only [evalOpV, hr, Option.some.injEq]; exact hiff

/-- `[att^=val]`: exact, ∀ byte strings (the empty operand never matches), both case modes. -/
theorem C04_attr_prefix (cs : CaseSensitivity) (v n : Bytes) :
    evalOpV .pre cs v n = some true ↔ OpPrefix (toCase cs) v n := by
  simp only [evalOpV, Option.some.injEq]; exact hasAttrWithPrefixV_iff cs v n

/-- `[att$=val]`: exact, ∀ byte strings (the empty operand never matches), both case modes. -/
theorem C04_attr_suffix (cs : CaseSensitivity) (v n : Bytes) :
    evalOpV .suffix cs v n = some true ↔ OpSuffix (toCase cs) v n := by
  obtain ⟨r, hr, hiff⟩ := hasAttrWithSuffixV_iff cs v n
  simp only [evalOpV, hr, Option.some.injEq]; exact hiff

/-- `[att~=val]`: exact, ∀ byte strings (the empty operand never matches; an operand containing
whitespace never matches either: `C04_attr_includes_ws_operand`), both case modes. -/
theorem C04_attr_includes (cs : CaseSensitivity) (v n : Bytes) :
    evalOpV .includes cs v n = some true ↔ OpIncludes (toCase cs) v n := by
  simp only [evalOpV, Option.some.injEq, matchesSplittedByWhitespaceV_iff, OpIncludes]
  constructor
  · rintro ⟨hn, w, hw, he⟩
    have hwne : w ≠ [] := by
      intro h; subst h
      exact hn (List.eq_nil_of_length_eq_zero (CEq_length he).symm)
    exact ⟨hn, w, (isPiece_isWord hwne).1 hw, he⟩
  · rintro ⟨hn, w, hw, he⟩
    exact ⟨hn, w, (isPiece_isWord hw.1).2 hw, he⟩

/-- CSS: "if `val` contains whitespace, `[att~=val]` never represents anything" — a consequence of
the declarative spec, hence (by `C04_attr_includes`) of the code as well. -/
theorem C04_attr_includes_ws_operand (c : Case) (v n : Bytes) (b : UInt8) (hb : b ∈ n)
    (hws : IsWhitespace b) : ¬ OpIncludes c v n := by
  rintro ⟨_, w, ⟨_, hfree, _⟩, he⟩
  cases c with
  | sensitive => simp only [CEq] at he; subst he; exact hfree b hb hws
  | asciiInsensitive =>
    simp only [CEq] at he
    have : lower b ∈ n.map lower := List.mem_map_of_mem hb
    rw [← he] at this
    obtain ⟨x, hx, hxl⟩ := List.mem_map.1 this
    have hxw : IsWhitespace (lower x) := by rw [hxl]; exact (lower_ws b).2 hws
    exact hfree x hx ((lower_ws x).1 hxw)

/-- **C04_attr_ops.** Each of the six operator closures equals its CSS definition, in both case
modes, for **all** byte strings (values and operands, empty ones included). -/
theorem C04_attr_ops (op : Op) (cs : CaseSensitivity) (v n : Bytes) :
    evalOpV op cs v n = some true ↔ OpHolds op (toCase cs) v n := by
  cases op
  · exact C04_attr_eq cs v n
  · exact C04_attr_includes cs v n
  · exact C04_attr_dash cs v n
  · exact C04_attr_prefix cs v n
  · exact C04_attr_suffix cs v n
  · exact C04_attr_substring cs v n

/-- The empty operand (repaired in commit 11ef1d1): `^=`, `$=`, `~=`, `*=` with `""` never match,
whatever the value — in the code and in CSS; `=""` matches exactly the empty value and `|=""` the
empty value and values starting with `-` (CSS has no empty-operand rule for these two). -/
theorem C04_attr_empty_operand (cs : CaseSensitivity) (v : Bytes) :
    evalOpV .pre cs v [] = some false ∧ evalOpV .suffix cs v [] = some false ∧
    evalOpV .includes cs v [] = some false ∧ evalOpV .substring cs v [] = some false ∧
    (evalOpV .equal cs v [] = some true ↔ v = []) ∧
    (evalOpV .dashMatch cs v [] = some true ↔ v = [] ∨ ∃ s, v = 45 :: s) := by
  have hfalse : ∀ op, ¬ OpHolds op (toCase cs) v [] → evalOpV op cs v [] = some false := by
    intro op h
    obtain ⟨r, hr⟩ := C04_attr_ops_total op cs v []
    cases r with
    | false => exact hr
    | true => exact absurd ((C04_attr_ops op cs v []).1 hr) h
  refine ⟨hfalse .pre (by simp [OpHolds, OpPrefix]), hfalse .suffix (by simp [OpHolds, OpSuffix]),
    hfalse .includes (by simp [OpHolds, OpIncludes]), hfalse .substring (by simp [OpHolds, OpSubstring]),
    ?_, ?_⟩
  · rw [C04_attr_eq]; exact CEq_nil_right
  · rw [C04_attr_dash]
    simp only [OpDashMatch, CEq_nil_right]
    constructor
    · rintro (h | ⟨p, s, rfl, rfl⟩)
      · exact Or.inl h
      · exact Or.inr ⟨s, rfl⟩
    · rintro (h | ⟨s, rfl⟩)
      · exact Or.inl h
      · exact Or.inr ⟨[], s, rfl, rfl⟩

/-- Regression of the repaired defect, formerly the counterexamples: `[k^=""]` on `k="a"`,
`[k$=""]` on `k="a"`, `[k~=""]` on `k=""` and on `k="a "` do not match. -/
theorem C04_attr_empty_operand_regression :
    evalOpV .pre .caseSensitive [97] [] = some false ∧
    evalOpV .suffix .caseSensitive [97] [] = some false ∧
    evalOpV .includes .caseSensitive [] [] = some false ∧
    evalOpV .includes .caseSensitive [97, 32] [] = some false := by decide

/-- Non-vacuity: `[k~="b" i]` on `k="a  B "` (two spaces, trailing space) — word `B`. -/
example : evalOpV .includes .asciiCaseInsensitive [97, 32, 32, 66, 32] [98] = some true ∧
    OpIncludes .asciiInsensitive [97, 32, 32, 66, 32] [98] :=
  ⟨by decide, (C04_attr_includes .asciiCaseInsensitive _ _).1 (by decide)⟩
/-- `[k*="bc" i]` on `k="abBC"`: the first candidate `bB` fails, the loop goes on and finds `BC`. -/
example : evalOpV .substring .asciiCaseInsensitive [97, 98, 66, 67] [98, 99] = some true ∧
    OpSubstring .asciiInsensitive [97, 98, 66, 67] [98, 99] :=
  ⟨by decide, (C04_attr_substring .asciiCaseInsensitive _ _).1 (by decide)⟩
example : evalOpV .substring .caseSensitive [97, 98, 66, 67] [98, 99] = some false := by decide
example : evalOpV .dashMatch .caseSensitive [101, 110, 45, 85, 83] [101, 110] = some true ∧
    evalOpV .dashMatch .caseSensitive [101, 110, 103] [101, 110] = some false := by decide
example : evalOpV .suffix .caseSensitive [97, 98] [97, 97, 98] = some false := by decide

/-! ## The matcher object and the compiled predicate -/

/-- **C04_case_mode.** Which case mode a compiled attribute predicate uses: `i` flag —
ASCII-case-insensitive everywhere; `s` flag and case-sensitive attribute names — byte identity
everywhere; no flag on one of the HTML-listed names (`type`, `lang`, …) — insensitive exactly on
elements in the HTML namespace. -/
theorem C04_case_mode (isHtml : Bool) :
    toUnconditional .asciiCaseInsensitive isHtml = .asciiCaseInsensitive ∧
    toUnconditional .explicitCaseSensitive isHtml = .caseSensitive ∧
    toUnconditional .caseSensitive isHtml = .caseSensitive ∧
    toUnconditional .asciiCaseInsensitiveIfInHtmlElementInHtmlDocument isHtml =
      (if isHtml then .asciiCaseInsensitive else .caseSensitive) := by
  cases isHtml <;> exact ⟨rfl, rfl, rfl, rfl⟩

/-- **C04_attr_compiled.** The closure the compiler builds for `[name op "value" flag]`
(compiler.rs:153-184), run on any element: it never panics, and it fires iff the *first* attribute whose name equals `name`
ASCII-case-insensitively exists and its value satisfies the CSS definition of the operator in the
resolved case mode. ∀ attribute lists (duplicates, any case), names, values, operands. -/
theorem C04_attr_compiled (m : AttributeMatcher) (name value : Bytes) (pcs : ParsedCaseSensitivity)
    (op : Op) :
    ∃ r, compiledAttrExpr false (.attributeComparison name value pcs op) m = some r ∧
      (r = true ↔ ∃ v, firstAttr m.attributes name = some v ∧
        OpHolds op (toCase (toUnconditional pcs m.isHtmlElement)) v value) := by
  simp only [compiledAttrExpr, AttributeMatcher.evalOp, AttributeMatcher.valueMatches,
    getValue_lowercased]
  cases hv : firstAttr m.attributes name with
  | none => exact ⟨false, rfl, by simp⟩
  | some v =>
    obtain ⟨r, hr⟩ := C04_attr_ops_total op (toUnconditional pcs m.isHtmlElement) v value
    refine ⟨r, by simp [hr], ?_⟩
    have := C04_attr_ops op (toUnconditional pcs m.isHtmlElement) v value
    rw [hr, Option.some.injEq] at this
    simp only [Option.some.injEq, exists_eq_left', this]

/-- The case mode CSS + HTML prescribe for `[name op value flag]` on an element: `i` — insensitive;
`s` — sensitive; no flag — insensitive iff the element is an HTML element and `name`, lower-cased,
is one of the 46 attributes HTML lists as case-insensitive for selectors; else sensitive. -/
def resolvedCase (flags : AttributeFlags) (name : Bytes) (isHtml : Bool) : Case :=
  match flags with
  | .asciiCaseInsensitive => .asciiInsensitive
  | .caseSensitive => .sensitive
  | .caseSensitivityDependsOnName =>
    if isHtml = true ∧ name.map lower ∈ asciiCaseInsensitiveHtmlAttributes then .asciiInsensitive
    else .sensitive

/-- **C04_attr_selector.** End to end for one attribute selector, from its parsed text
(`parseAttributeSelector`: name, operand, flag, operator) through the compiler to the closure run on
an element: no panic, and it fires iff the first attribute
named `name` (ASCII-case-insensitively) exists and satisfies the CSS operator in the prescribed
case mode. ∀ names (any case), operands (empty included), flags, operators, attribute lists,
namespaces. -/
theorem C04_attr_selector (m : AttributeMatcher) (name value : Bytes) (flags : AttributeFlags)
    (op : Op) :
    ∃ r, compiledAttrExpr false (parseAttributeSelector name value flags op) m = some r ∧
      (r = true ↔ ∃ v, firstAttr m.attributes name = some v ∧
        OpHolds op (resolvedCase flags name m.isHtmlElement) v value) := by
  unfold parseAttributeSelector
  obtain ⟨r, hr, hiff⟩ := C04_attr_compiled m (makeAsciiLowercase name) value
    (flags.toCaseSensitivity (makeAsciiLowercase name) false) op
  refine ⟨r, hr, ?_⟩
  rw [hiff, firstAttr_makeAsciiLowercase]
  have hcase : toCase (toUnconditional (flags.toCaseSensitivity (makeAsciiLowercase name) false)
      m.isHtmlElement) = resolvedCase flags name m.isHtmlElement := by
    have hn : makeAsciiLowercase name = name.map lower := by
      unfold makeAsciiLowercase; rw [map_lower_eq]
    cases flags
    · rfl
    · rfl
    · simp only [AttributeFlags.toCaseSensitivity, resolvedCase, Bool.not_false, Bool.true_and,
        List.contains_iff_mem, hn]
      by_cases hmem : name.map lower ∈ asciiCaseInsensitiveHtmlAttributes
      · cases hh : m.isHtmlElement <;> simp [hmem, toUnconditional, toCase]
      · simp [hmem, toUnconditional, toCase]
  rw [hcase]

/-- Non-vacuity: `[TYPE="text"]` on `<x type="TEXT">` fires in HTML (listed name), not in SVG;
`[data-k^="a" i]` on `<x DATA-K="Ab">` fires. -/
example :
    compiledAttrExpr false (parseAttributeSelector [84, 89, 80, 69] [116, 101, 120, 116]
      .caseSensitivityDependsOnName .equal) ⟨[([116, 121, 112, 101], [84, 69, 88, 84])], true⟩ = some true ∧
    compiledAttrExpr false (parseAttributeSelector [84, 89, 80, 69] [116, 101, 120, 116]
      .caseSensitivityDependsOnName .equal) ⟨[([116, 121, 112, 101], [84, 69, 88, 84])], false⟩ = some false ∧
    compiledAttrExpr false (parseAttributeSelector [100, 97, 116, 97, 45, 107] [97]
      .asciiCaseInsensitive .pre) ⟨[([68, 65, 84, 65, 45, 75], [65, 98])], true⟩ = some true := by
  decide

/-- Negation (`:not([…])`, compiler.rs:98-108) flips the answer and nothing else. -/
theorem C04_attr_compiled_negation (e : OnAttributesExpr) (m : AttributeMatcher) :
    compiledAttrExpr true e m = (compiledAttrExpr false e m).map not := by
  simp only [compiledAttrExpr, Option.map_map]
  congr 1

/-- `[name]` (`has_attribute`): some attribute's name equals `name` ASCII-case-insensitively.
(The parser hands over the lower-cased name; `find` lower-cases the element's names.) -/
theorem C04_has_attribute (m : AttributeMatcher) (name : Bytes) :
    compiledAttrExpr false (.attributeExists (makeAsciiLowercase name)) m =
      some (firstAttr m.attributes name).isSome := by
  simp only [compiledAttrExpr, AttributeMatcher.hasAttribute, Option.map_some, Bool.false_eq_true,
    ↓reduceIte, find_lowercased, firstAttr, Option.isSome_map]

/-- `#id` (`has_id`): the first `id` attribute (name in any case) has exactly this value
(byte identity; the `OnceCell` memo is the identity on an immutable buffer). -/
theorem C04_has_id (m : AttributeMatcher) (id : Bytes) :
    compiledAttrExpr false (.id id) m = some true ↔ firstAttr m.attributes idAttr = some id := by
  simp only [compiledAttrExpr, AttributeMatcher.hasId, Option.map_some, Bool.false_eq_true, ↓reduceIte,
    Option.some.injEq]
  rw [← idAttr_lower, getValue_lowercased, idAttr_lower]
  cases firstAttr m.attributes idAttr with
  | none => simp
  | some v => simp

/-- `.class` (`has_class`): the first `class` attribute has `cls` among its whitespace-separated
words (byte identity), for every non-empty class name (the selector grammar admits no empty one). -/
theorem C04_has_class (m : AttributeMatcher) (cls : Bytes) (hc : cls ≠ []) :
    compiledAttrExpr false (.class_ cls) m = some true ↔
      ∃ v, firstAttr m.attributes classAttr = some v ∧ IsWord v cls := by
  simp only [compiledAttrExpr, AttributeMatcher.hasClass, Option.map_some, Bool.false_eq_true,
    ↓reduceIte, Option.some.injEq]
  rw [← classAttr_lower, getValue_lowercased, classAttr_lower]
  cases firstAttr m.attributes classAttr with
  | none => simp
  | some v =>
    simp only [List.any_eq_true, beq_iff_eq, Option.some.injEq, exists_eq_left']
    constructor
    · rintro ⟨w, hw, rfl⟩
      exact (isPiece_isWord hc).1 ((mem_split_iff _ _ _).1 hw)
    · intro hw
      exact ⟨cls, (mem_split_iff _ _ _).2 ((isPiece_isWord hc).2 hw), rfl⟩

/-- Non-vacuity: `<x ID=a id=b TYPE="Text/CSS">`; `#a` fires, `#b` does not (first wins),
`[type="text/css"]` fires on an HTML element and not on a foreign one. -/
example :
    let attrs : List (Bytes × Bytes) :=
      [([73, 68], [97]), ([105, 100], [98]), ([84, 89, 80, 69], [84, 101, 120, 116])]
    compiledAttrExpr false (.id [97]) ⟨attrs, true⟩ = some true ∧
    compiledAttrExpr false (.id [98]) ⟨attrs, true⟩ = some false ∧
    compiledAttrExpr false (.attributeComparison [116, 121, 112, 101] [116, 101, 120, 116]
      .asciiCaseInsensitiveIfInHtmlElementInHtmlDocument .equal) ⟨attrs, true⟩ = some true ∧
    compiledAttrExpr false (.attributeComparison [116, 121, 112, 101] [116, 101, 120, 116]
      .asciiCaseInsensitiveIfInHtmlElementInHtmlDocument .equal) ⟨attrs, false⟩ = some false := by
  decide

end LolHtml.Thm.C04_Pure
