/-
C04 (selector matching = CSS semantics) — the pure leaf functions of the selector engine:
`NthChild::has_index` (src/selectors_vm/ast.rs) and the attribute operators of
src/selectors_vm/attribute_matcher.rs as wired by src/selectors_vm/compiler.rs.

Everything below is about `LolHtml.Model.Nth.hasIndex` and the `LolHtml.Model.AttrMatch` functions —
the very functions lane `selpure` executes — against `LolHtml.Spec.Nth` / `LolHtml.Spec.AttrOps`.
Notation in comments: `A B I` are the mathematical integers denoted by the `i32`s `a b i`.
-/
import LolHtml.Lemmas.Nth
import LolHtml.Lemmas.AttrMatch

namespace LolHtml.Thm.C04_Pure
open LolHtml LolHtml.Model LolHtml.Model.Nth LolHtml.Model.AttrMatch
open LolHtml.Spec.Nth LolHtml.Spec.AttrOps
open LolHtml.Lemmas.Nth LolHtml.Lemmas.AttrMatch

/-! ## `:nth-child(An+B)` / `:nth-of-type(An+B)` -/

/-- **C04_nth_total.** `has_index` never panics: the `wrapping_rem` division-by-zero branch is
unreachable, for all `i32` triples. -/
theorem C04_nth_total (a b i : Int32) : ∃ r, hasIndex ⟨a, b⟩ i = some r :=
  ⟨_, hasIndex_eq a b i⟩

/-- **C04_nth_exact.** What `has_index` computes, for *all* `i32` triples: whether the *wrapped*
difference `(I − B) bmod 2³²` is a non-negative multiple of `A`. (Everything except
`index.wrapping_sub(offset)` is exact, including `i32::MIN.wrapping_rem(-1)`.) -/
theorem C04_nth_exact (a b i : Int32) :
    hasIndex ⟨a, b⟩ i = some true ↔
      Matches a.toInt 0 ((i.toInt - b.toInt).bmod (2 ^ 32)) := by
  rw [hasIndex_eq, Option.some.injEq, intHasIndex_iff]
  unfold Matches
  simp only [Int.add_zero]

/-- **C04_nth.** The property, under the weakest hypothesis that makes it true for every step `a`:
`I − B` is representable as an `i32`. No condition on the sign of `i` is needed. -/
theorem C04_nth (a b i : Int32)
    (hlo : -2 ^ 31 ≤ i.toInt - b.toInt) (hhi : i.toInt - b.toInt < 2 ^ 31) :
    hasIndex ⟨a, b⟩ i = some true ↔ Matches a.toInt b.toInt i.toInt := by
  rw [C04_nth_exact, Int.bmod_eq_of_le (by omega) (by omega)]
  unfold Matches
  constructor <;> rintro ⟨n, hn⟩ <;> exact ⟨n, by omega⟩

/-- **C04_nth_pos.** As used by the implementation (`index` is a child counter, `0 < i`): the iff
holds whenever `I − B < 2³¹`, in particular (next theorem) for every `b ≥ −2³¹ + i`. -/
theorem C04_nth_pos (a b i : Int32) (hi : 0 < i) (h : i.toInt - b.toInt < 2 ^ 31) :
    hasIndex ⟨a, b⟩ i = some true ↔ Matches a.toInt b.toInt i.toInt := by
  have hi' : 0 < i.toInt := by rw [Int32.lt_iff_toInt_lt] at hi; simpa using hi
  have := b.toInt_lt
  exact C04_nth a b i (by omega) h

/-- Every non-negative offset is safe (`:nth-child(an+b)`, `b ≥ 0`, any `a`, any child index). -/
theorem C04_nth_nonneg_offset (a b i : Int32) (hi : 0 < i) (hb : 0 ≤ b) :
    hasIndex ⟨a, b⟩ i = some true ↔ Matches a.toInt b.toInt i.toInt := by
  have hb' : 0 ≤ b.toInt := by rw [Int32.le_iff_toInt_le] at hb; simpa using hb
  have := i.toInt_lt
  exact C04_nth_pos a b i hi (by omega)

/-- The property as stated in the brief (all `i32` triples with `0 < i`). It is **false**
(`C04_nth_statement_false`): the code comment "we won't wrap around anyway … since index is always
more than 0" (ast.rs:23-24) overlooks very negative offsets. -/
def C04_nth_statement : Prop :=
  ∀ a b i : Int32, 0 < i → (hasIndex ⟨a, b⟩ i = some true ↔ Matches a.toInt b.toInt i.toInt)

/-- False negative: `:nth-child(n-2147483648)` selects every child (`n = 2³¹ + i`), the code selects
none: `1.wrapping_sub(i32::MIN) = i32::MIN + 1 < 0` with `step > 0`. -/
theorem C04_nth_counterexample_false_negative :
    hasIndex ⟨1, -2147483648⟩ 1 = some false ∧ Matches (1 : Int32).toInt (-2147483648 : Int32).toInt (1 : Int32).toInt :=
  ⟨by decide, ⟨2147483649, by decide⟩⟩

/-- False positive: `:nth-child(-n-2147483647)` selects nothing (`−n − 2147483647 ≤ −2147483647`),
the code selects the first child: `1.wrapping_sub(-2147483647) = i32::MIN`, `MIN.wrapping_rem(-1) = 0`. -/
theorem C04_nth_counterexample_false_positive :
    hasIndex ⟨-1, -2147483647⟩ 1 = some true ∧ ¬ Matches (-1 : Int32).toInt (-2147483647 : Int32).toInt (1 : Int32).toInt := by
  refine ⟨by decide, ?_⟩
  rintro ⟨n, hn⟩
  have h1 : (-1 : Int32).toInt = -1 := by decide
  have h2 : (-2147483647 : Int32).toInt = -2147483647 := by decide
  have h3 : (1 : Int32).toInt = 1 := by decide
  rw [h1, h2, h3] at hn
  omega

theorem C04_nth_statement_false : ¬ C04_nth_statement := by
  intro h
  have := (h 1 (-2147483648) 1 (by decide)).2 C04_nth_counterexample_false_negative.2
  rw [C04_nth_counterexample_false_negative.1] at this
  cases this

private theorem exists_mul_pos {a x : Int} (hx : 0 < x) :
    (∃ n : Nat, a * (n : Int) = x) ↔ 0 < a ∧ a ∣ x := by
  constructor
  · rintro ⟨n, hn⟩
    refine ⟨?_, ⟨n, hn.symm⟩⟩
    rcases Int.lt_or_le 0 a with h | h
    · exact h
    · have : a * (n : Int) ≤ 0 := Int.mul_nonpos_of_nonpos_of_nonneg h (by omega)
      omega
  · rintro ⟨ha, k, hk⟩
    have hk0 : 0 ≤ k := by
      rcases Int.lt_or_le k 0 with h | h
      · have : a * k < 0 := Int.mul_neg_of_pos_of_neg ha h
        omega
      · exact h
    exact ⟨k.toNat, by rw [Int.toNat_of_nonneg hk0]; exact hk.symm⟩

private theorem exists_mul_neg {a x : Int} (hx : x < 0) :
    (∃ n : Nat, a * (n : Int) = x) ↔ a < 0 ∧ a ∣ x := by
  constructor
  · rintro ⟨n, hn⟩
    refine ⟨?_, ⟨n, hn.symm⟩⟩
    rcases Int.lt_or_le a 0 with h | h
    · exact h
    · have : 0 ≤ a * (n : Int) := Int.mul_nonneg h (by omega)
      omega
  · rintro ⟨ha, k, hk⟩
    have hk0 : 0 ≤ k := by
      rcases Int.lt_or_le k 0 with h | h
      · have : 0 < a * k := Int.mul_pos_of_neg_of_neg ha h
        omega
      · exact h
    exact ⟨k.toNat, by rw [Int.toNat_of_nonneg hk0]; exact hk.symm⟩

/-- **C04_nth_wrap.** Exactly what happens outside the hypothesis of `C04_nth_pos`
(`0 < i`, `I − B ≥ 2³¹`, i.e. `b ≤ i − 2³¹`): CSS selects `i` iff `A > 0 ∧ A ∣ I − B`, the code selects
it iff `A < 0 ∧ A ∣ I − B − 2³²`. The two never hold together, so in this zone code and CSS agree
only where both say "no". -/
theorem C04_nth_wrap (a b i : Int32) (hi : 0 < i) (h : 2 ^ 31 ≤ i.toInt - b.toInt) :
    (Matches a.toInt b.toInt i.toInt ↔ 0 < a.toInt ∧ a.toInt ∣ i.toInt - b.toInt) ∧
    (hasIndex ⟨a, b⟩ i = some true ↔ a.toInt < 0 ∧ a.toInt ∣ i.toInt - b.toInt - 2 ^ 32) := by
  have hi' : 0 < i.toInt := by rw [Int32.lt_iff_toInt_lt] at hi; simpa using hi
  have hb := b.le_toInt
  have hi2 := i.toInt_lt
  constructor
  · rw [← exists_mul_pos (by omega)]
    unfold Matches
    constructor <;> rintro ⟨n, hn⟩ <;> exact ⟨n, by omega⟩
  · have hw : (i.toInt - b.toInt).bmod (2 ^ 32) = i.toInt - b.toInt - 2 ^ 32 := by
      rw [Int.bmod_eq_iff (by decide)]
      refine ⟨by omega, by omega, ⟨-1, by omega⟩⟩
    rw [C04_nth_exact, hw, ← exists_mul_neg (by omega)]
    unfold Matches
    simp only [Int.add_zero]

/-- **C04_nth_agree_iff.** The exact set of `i32` triples with `0 < i` on which `has_index` is right. -/
theorem C04_nth_agree_iff (a b i : Int32) (hi : 0 < i) :
    (hasIndex ⟨a, b⟩ i = some true ↔ Matches a.toInt b.toInt i.toInt) ↔
      (i.toInt - b.toInt < 2 ^ 31 ∨
        (¬ (0 < a.toInt ∧ a.toInt ∣ i.toInt - b.toInt) ∧
         ¬ (a.toInt < 0 ∧ a.toInt ∣ i.toInt - b.toInt - 2 ^ 32))) := by
  by_cases h : i.toInt - b.toInt < 2 ^ 31
  · simp only [h, true_or, iff_true]; exact C04_nth_pos a b i hi h
  · obtain ⟨h1, h2⟩ := C04_nth_wrap a b i hi (by omega)
    rw [h1, h2]
    simp only [h, false_or]
    constructor
    · intro hiff
      constructor
      · intro hp; have := hiff.2 hp; omega
      · intro hn; have := hiff.1 hn; omega
    · rintro ⟨hp, hn⟩
      exact ⟨fun x => absurd x hn, fun x => absurd x hp⟩

/-- Non-vacuity: `:nth-child(2n+1)` selects child 5 (`n = 2`) and not child 4; hypotheses of
`C04_nth_pos` / `C04_nth_wrap` are satisfiable. -/
example : hasIndex ⟨2, 1⟩ 5 = some true ∧ Matches (2 : Int32).toInt (1 : Int32).toInt (5 : Int32).toInt :=
  ⟨by decide, (C04_nth_pos 2 1 5 (by decide) (by decide)).1 (by decide)⟩
example : hasIndex ⟨2, 1⟩ 4 = some false := by decide
example : hasIndex ⟨-3, 7⟩ 1 = some true ∧ hasIndex ⟨-3, 7⟩ 10 = some false := by decide
example : (0 : Int32) < 1 ∧ (2 : Int) ^ 31 ≤ (1 : Int32).toInt - (-2147483648 : Int32).toInt := by decide

/-! ## Attribute operators -/

/-- The CSS meaning of each operator (Spec/AttrOps.lean). -/
def OpHolds : Op → Case → Bytes → Bytes → Prop
  | .equal => OpEqual
  | .includes => OpIncludes
  | .dashMatch => OpDashMatch
  | .pre => OpPrefix
  | .suffix => OpSuffix
  | .substring => OpSubstring

/-- **C04_attr_ops_total.** None of the six closures can panic (`usize` underflow in `$=`, the
`search` loop of `*=` running out of the stated fuel `len + 1`): ∀ operator, case mode, byte strings. -/
theorem C04_attr_ops_total (op : Op) (cs : CaseSensitivity) (v n : Bytes) :
    ∃ r, evalOpV op cs v n = some r := by
  cases op
  · exact ⟨_, rfl⟩
  · exact ⟨_, rfl⟩
  · exact ⟨_, rfl⟩
  · exact ⟨_, rfl⟩
  · obtain ⟨r, hr, _⟩ := hasAttrWithSuffixV_iff cs v n; exact ⟨r, hr⟩
  · obtain ⟨r, hr, _⟩ := hasAttrWithSubstringV_iff cs v n; exact ⟨r, hr⟩

/-- `[att=val]`: exact, ∀ byte strings, both case modes. -/
theorem C04_attr_eq (cs : CaseSensitivity) (v n : Bytes) :
    evalOpV .equal cs v n = some true ↔ OpEqual (toCase cs) v n := by
  simp only [evalOpV, Option.some.injEq]; exact attrEqV_iff cs v n

/-- `[att|=val]`: exact, ∀ byte strings (also for the empty operand), both case modes. -/
theorem C04_attr_dash (cs : CaseSensitivity) (v n : Bytes) :
    evalOpV .dashMatch cs v n = some true ↔ OpDashMatch (toCase cs) v n := by
  simp only [evalOpV, Option.some.injEq]; exact hasDashMatchingAttrV_iff cs v n

/-- `[att*=val]`: exact, ∀ byte strings (the empty operand never matches), both case modes —
including the `memchr`/`memchr2` candidate loop. -/
theorem C04_attr_substring (cs : CaseSensitivity) (v n : Bytes) :
    evalOpV .substring cs v n = some true ↔ OpSubstring (toCase cs) v n := by
  obtain ⟨r, hr, hiff⟩ := hasAttrWithSubstringV_iff cs v n
  simp only [evalOpV, hr, Option.some.injEq]; exact hiff

/-- `[att^=val]`: exact for every non-empty operand. -/
theorem C04_attr_prefix (cs : CaseSensitivity) (v n : Bytes) (hn : n ≠ []) :
    evalOpV .pre cs v n = some true ↔ OpPrefix (toCase cs) v n := by
  simp only [evalOpV, Option.some.injEq, hasAttrWithPrefixV_iff, OpPrefix, hn, ne_eq, not_false_eq_true,
    true_and, and_iff_right_iff_imp]
  rintro ⟨p, s, rfl, hp⟩ h
  have := CEq_length hp
  simp only [List.append_eq_nil_iff] at h
  rw [h.1] at this
  exact hn (List.eq_nil_of_length_eq_zero this.symm)

/-- `[att$=val]`: exact for every non-empty operand. -/
theorem C04_attr_suffix (cs : CaseSensitivity) (v n : Bytes) (hn : n ≠ []) :
    evalOpV .suffix cs v n = some true ↔ OpSuffix (toCase cs) v n := by
  obtain ⟨r, hr, hiff⟩ := hasAttrWithSuffixV_iff cs v n
  simp only [evalOpV, hr, Option.some.injEq, hiff, OpSuffix, hn, ne_eq, not_false_eq_true, true_and,
    and_iff_right_iff_imp]
  rintro ⟨p, s, rfl, hs⟩ h
  have := CEq_length hs
  simp only [List.append_eq_nil_iff] at h
  rw [h.2] at this
  exact hn (List.eq_nil_of_length_eq_zero this.symm)

/-- `[att~=val]`: exact for every non-empty operand (an operand containing whitespace never
matches, on both sides: see `C04_attr_includes_ws_operand`). -/
theorem C04_attr_includes (cs : CaseSensitivity) (v n : Bytes) (hn : n ≠ []) :
    evalOpV .includes cs v n = some true ↔ OpIncludes (toCase cs) v n := by
  simp only [evalOpV, Option.some.injEq, matchesSplittedByWhitespaceV_iff, OpIncludes, hn, ne_eq,
    not_false_eq_true, true_and]
  constructor
  · rintro ⟨w, hw, he⟩
    have hwne : w ≠ [] := by
      intro h; subst h
      exact hn (List.eq_nil_of_length_eq_zero (CEq_length he).symm)
    exact ⟨w, (isPiece_isWord hwne).1 hw, he⟩
  · rintro ⟨w, hw, he⟩
    exact ⟨w, (isPiece_isWord hw.1).2 hw, he⟩

/-- CSS: "if `val` contains whitespace, `[att~=val]` never represents anything" — a consequence of
the declarative spec, hence (by `C04_attr_includes`) of the code as well. -/
theorem C04_attr_includes_ws_operand (c : Case) (v n : Bytes) (b : UInt8) (hb : b ∈ n)
    (hws : IsWhitespace b) : ¬ OpIncludes c v n := by
  rintro ⟨_, w, ⟨_, hfree, _⟩, he⟩
  cases c with
  | sensitive => simp only [CEq] at he; subst he; exact hfree b hb hws
  | asciiInsensitive =>
    simp only [CEq] at he
    have : lower b ∈ n.map lower := List.mem_map_of_mem hb
    rw [← he] at this
    obtain ⟨x, hx, hxl⟩ := List.mem_map.1 this
    have hxw : IsWhitespace (lower x) := by rw [hxl]; exact (lower_ws b).2 hws
    exact hfree x hx ((lower_ws x).1 hxw)

/-- The brief's statement for the six operators at full strength. It is **false**
(`C04_attr_ops_statement_false`): three operators mishandle the empty operand. -/
def C04_attr_ops_statement : Prop :=
  ∀ (op : Op) (cs : CaseSensitivity) (v n : Bytes),
    evalOpV op cs v n = some true ↔ OpHolds op (toCase cs) v n

/-- **C04_attr_ops_partial.** Each of the six operator closures equals its CSS definition, in both
case modes, for all byte strings — except `^=`, `$=`, `~=` with the *empty* operand. -/
theorem C04_attr_ops_partial (op : Op) (cs : CaseSensitivity) (v n : Bytes)
    (h : n ≠ [] ∨ op = .equal ∨ op = .dashMatch ∨ op = .substring) :
    evalOpV op cs v n = some true ↔ OpHolds op (toCase cs) v n := by
  cases op
  · exact C04_attr_eq cs v n
  · exact C04_attr_includes cs v n (by rcases h with h | h | h | h <;> first | exact h | cases h)
  · exact C04_attr_dash cs v n
  · exact C04_attr_prefix cs v n (by rcases h with h | h | h | h <;> first | exact h | cases h)
  · exact C04_attr_suffix cs v n (by rcases h with h | h | h | h <;> first | exact h | cases h)
  · exact C04_attr_substring cs v n

/-- What the code does with the empty operand, exactly: `[att^=""]` and `[att$=""]` match every
element whose `att` is present with a **non-empty** value (the code tests `!actual_value.is_empty()`
where CSS demands a non-empty *operand*); `[att~=""]` matches when the value is empty, starts or ends
with whitespace, or has two adjacent whitespace bytes (`split` yields an empty piece).
CSS: none of the three ever matches. -/
theorem C04_attr_empty_operand (cs : CaseSensitivity) (v : Bytes) :
    (evalOpV .pre cs v [] = some true ↔ v ≠ []) ∧
    (evalOpV .suffix cs v [] = some true ↔ v ≠ []) ∧
    (evalOpV .includes cs v [] = some true ↔ IsPiece isAttrWhitespace v []) ∧
    ¬ OpPrefix (toCase cs) v [] ∧ ¬ OpSuffix (toCase cs) v [] ∧ ¬ OpIncludes (toCase cs) v [] := by
  refine ⟨?_, ?_, ?_, by simp [OpPrefix], by simp [OpSuffix], by simp [OpIncludes]⟩
  · simp only [evalOpV, Option.some.injEq, hasAttrWithPrefixV_iff, and_iff_left_iff_imp]
    intro _; exact ⟨[], v, rfl, CEq_nil_right.2 rfl⟩
  · obtain ⟨r, hr, hiff⟩ := hasAttrWithSuffixV_iff cs v []
    simp only [evalOpV, hr, Option.some.injEq, hiff, and_iff_left_iff_imp]
    intro _; exact ⟨v, [], by simp, CEq_nil_right.2 rfl⟩
  · simp only [evalOpV, Option.some.injEq, matchesSplittedByWhitespaceV_iff]
    constructor
    · rintro ⟨w, hw, he⟩; rw [CEq_nil_right.1 he] at hw; exact hw
    · intro h; exact ⟨[], h, CEq_nil_right.2 rfl⟩

/-- `[k^=""]` on `k="a"`, `[k$=""]` on `k="a"`, `[k~=""]` on `k=""` and on `k="a "`: the code matches. -/
theorem C04_attr_empty_operand_counterexamples :
    evalOpV .pre .caseSensitive [97] [] = some true ∧
    evalOpV .suffix .caseSensitive [97] [] = some true ∧
    evalOpV .includes .caseSensitive [] [] = some true ∧
    evalOpV .includes .caseSensitive [97, 32] [] = some true := by decide

theorem C04_attr_ops_statement_false : ¬ C04_attr_ops_statement := by
  intro h
  have := (h .pre .caseSensitive [97] []).1 C04_attr_empty_operand_counterexamples.1
  exact (C04_attr_empty_operand .caseSensitive [97]).2.2.2.1 this

/-- Non-vacuity: `[k~="b" i]` on `k="a  B "` (two spaces, trailing space) — word `B`. -/
example : evalOpV .includes .asciiCaseInsensitive [97, 32, 32, 66, 32] [98] = some true ∧
    OpIncludes .asciiInsensitive [97, 32, 32, 66, 32] [98] :=
  ⟨by decide, (C04_attr_includes .asciiCaseInsensitive _ _ (by decide)).1 (by decide)⟩
/-- `[k*="bc" i]` on `k="abBC"`: the first candidate `bB` fails, the loop goes on and finds `BC`. -/
example : evalOpV .substring .asciiCaseInsensitive [97, 98, 66, 67] [98, 99] = some true ∧
    OpSubstring .asciiInsensitive [97, 98, 66, 67] [98, 99] :=
  ⟨by decide, (C04_attr_substring .asciiCaseInsensitive _ _).1 (by decide)⟩
example : evalOpV .substring .caseSensitive [97, 98, 66, 67] [98, 99] = some false := by decide
example : evalOpV .dashMatch .caseSensitive [101, 110, 45, 85, 83] [101, 110] = some true ∧
    evalOpV .dashMatch .caseSensitive [101, 110, 103] [101, 110] = some false := by decide
example : evalOpV .suffix .caseSensitive [97, 98] [97, 97, 98] = some false := by decide

/-! ## The matcher object and the compiled predicate -/

/-- **C04_case_mode.** Which case mode a compiled attribute predicate uses: `i` flag —
ASCII-case-insensitive everywhere; `s` flag and case-sensitive attribute names — byte identity
everywhere; no flag on one of the HTML-listed names (`type`, `lang`, …) — insensitive exactly on
elements in the HTML namespace. -/
theorem C04_case_mode (isHtml : Bool) :
    toUnconditional .asciiCaseInsensitive isHtml = .asciiCaseInsensitive ∧
    toUnconditional .explicitCaseSensitive isHtml = .caseSensitive ∧
    toUnconditional .caseSensitive isHtml = .caseSensitive ∧
    toUnconditional .asciiCaseInsensitiveIfInHtmlElementInHtmlDocument isHtml =
      (if isHtml then .asciiCaseInsensitive else .caseSensitive) := by
  cases isHtml <;> exact ⟨rfl, rfl, rfl, rfl⟩

/-- **C04_attr_compiled.** The closure the compiler builds for `[name op "value" flag]`
(compiler.rs:153-184), run on any element: it never panics, and — unless the operand is empty and
the operator is `^=`/`$=`/`~=` — it fires iff the *first* attribute whose name equals `name`
ASCII-case-insensitively exists and its value satisfies the CSS definition of the operator in the
resolved case mode. ∀ attribute lists (duplicates, any case), names, values, operands. -/
theorem C04_attr_compiled (m : AttributeMatcher) (name value : Bytes) (pcs : ParsedCaseSensitivity)
    (op : Op) (h : value ≠ [] ∨ op = .equal ∨ op = .dashMatch ∨ op = .substring) :
    ∃ r, compiledAttrExpr false (.attributeComparison name value pcs op) m = some r ∧
      (r = true ↔ ∃ v, firstAttr m.attributes name = some v ∧
        OpHolds op (toCase (toUnconditional pcs m.isHtmlElement)) v value) := by
  simp only [compiledAttrExpr, AttributeMatcher.evalOp, AttributeMatcher.valueMatches,
    getValue_lowercased]
  cases hv : firstAttr m.attributes name with
  | none => exact ⟨false, rfl, by simp⟩
  | some v =>
    obtain ⟨r, hr⟩ := C04_attr_ops_total op (toUnconditional pcs m.isHtmlElement) v value
    refine ⟨r, by simp [hr], ?_⟩
    have := C04_attr_ops_partial op (toUnconditional pcs m.isHtmlElement) v value h
    rw [hr, Option.some.injEq] at this
    simp only [Option.some.injEq, exists_eq_left', this]

/-- The case mode CSS + HTML prescribe for `[name op value flag]` on an element: `i` — insensitive;
`s` — sensitive; no flag — insensitive iff the element is an HTML element and `name`, lower-cased,
is one of the 46 attributes HTML lists as case-insensitive for selectors; else sensitive. -/
def resolvedCase (flags : AttributeFlags) (name : Bytes) (isHtml : Bool) : Case :=
  match flags with
  | .asciiCaseInsensitive => .asciiInsensitive
  | .caseSensitive => .sensitive
  | .caseSensitivityDependsOnName =>
    if isHtml = true ∧ name.map lower ∈ asciiCaseInsensitiveHtmlAttributes then .asciiInsensitive
    else .sensitive

/-- **C04_attr_selector.** End to end for one attribute selector, from its parsed text
(`parseAttributeSelector`: name, operand, flag, operator) through the compiler to the closure run on
an element: no panic, and — outside the empty-operand defect — it fires iff the first attribute
named `name` (ASCII-case-insensitively) exists and satisfies the CSS operator in the prescribed
case mode. ∀ names (any case), operands, flags, operators, attribute lists, namespaces. -/
theorem C04_attr_selector (m : AttributeMatcher) (name value : Bytes) (flags : AttributeFlags)
    (op : Op) (h : value ≠ [] ∨ op = .equal ∨ op = .dashMatch ∨ op = .substring) :
    ∃ r, compiledAttrExpr false (parseAttributeSelector name value flags op) m = some r ∧
      (r = true ↔ ∃ v, firstAttr m.attributes name = some v ∧
        OpHolds op (resolvedCase flags name m.isHtmlElement) v value) := by
  unfold parseAttributeSelector
  obtain ⟨r, hr, hiff⟩ := C04_attr_compiled m (makeAsciiLowercase name) value
    (flags.toCaseSensitivity (makeAsciiLowercase name) false) op h
  refine ⟨r, hr, ?_⟩
  rw [hiff, firstAttr_makeAsciiLowercase]
  have hcase : toCase (toUnconditional (flags.toCaseSensitivity (makeAsciiLowercase name) false)
      m.isHtmlElement) = resolvedCase flags name m.isHtmlElement := by
    have hn : makeAsciiLowercase name = name.map lower := by
      unfold makeAsciiLowercase; rw [map_lower_eq]
    cases flags
    · rfl
    · rfl
    · simp only [AttributeFlags.toCaseSensitivity, resolvedCase, Bool.not_false, Bool.true_and,
        List.contains_iff_mem, hn]
      by_cases hmem : name.map lower ∈ asciiCaseInsensitiveHtmlAttributes
      · cases hh : m.isHtmlElement <;> simp [hmem, toUnconditional, toCase]
      · simp [hmem, toUnconditional, toCase]
  rw [hcase]

/-- Non-vacuity: `[TYPE="text"]` on `<x type="TEXT">` fires in HTML (listed name), not in SVG;
`[data-k^="a" i]` on `<x DATA-K="Ab">` fires. -/
example :
    compiledAttrExpr false (parseAttributeSelector [84, 89, 80, 69] [116, 101, 120, 116]
      .caseSensitivityDependsOnName .equal) ⟨[([116, 121, 112, 101], [84, 69, 88, 84])], true⟩ = some true ∧
    compiledAttrExpr false (parseAttributeSelector [84, 89, 80, 69] [116, 101, 120, 116]
      .caseSensitivityDependsOnName .equal) ⟨[([116, 121, 112, 101], [84, 69, 88, 84])], false⟩ = some false ∧
    compiledAttrExpr false (parseAttributeSelector [100, 97, 116, 97, 45, 107] [97]
      .asciiCaseInsensitive .pre) ⟨[([68, 65, 84, 65, 45, 75], [65, 98])], true⟩ = some true := by
  decide

/-- Negation (`:not([…])`, compiler.rs:98-108) flips the answer and nothing else. -/
theorem C04_attr_compiled_negation (e : OnAttributesExpr) (m : AttributeMatcher) :
    compiledAttrExpr true e m = (compiledAttrExpr false e m).map not := by
  simp only [compiledAttrExpr, Option.map_map]
  congr 1

/-- `[name]` (`has_attribute`): some attribute's name equals `name` ASCII-case-insensitively.
(The parser hands over the lower-cased name; `find` lower-cases the element's names.) -/
theorem C04_has_attribute (m : AttributeMatcher) (name : Bytes) :
    compiledAttrExpr false (.attributeExists (makeAsciiLowercase name)) m =
      some (firstAttr m.attributes name).isSome := by
  simp only [compiledAttrExpr, AttributeMatcher.hasAttribute, Option.map_some, Bool.false_eq_true,
    ↓reduceIte, find_lowercased, firstAttr, Option.isSome_map]

/-- `#id` (`has_id`): the first `id` attribute (name in any case) has exactly this value
(byte identity; the `OnceCell` memo is the identity on an immutable buffer). -/
theorem C04_has_id (m : AttributeMatcher) (id : Bytes) :
    compiledAttrExpr false (.id id) m = some true ↔ firstAttr m.attributes idAttr = some id := by
  simp only [compiledAttrExpr, AttributeMatcher.hasId, Option.map_some, Bool.false_eq_true, ↓reduceIte,
    Option.some.injEq]
  rw [← idAttr_lower, getValue_lowercased, idAttr_lower]
  cases firstAttr m.attributes idAttr with
  | none => simp
  | some v => simp

/-- `.class` (`has_class`): the first `class` attribute has `cls` among its whitespace-separated
words (byte identity), for every non-empty class name (the selector grammar admits no empty one). -/
theorem C04_has_class (m : AttributeMatcher) (cls : Bytes) (hc : cls ≠ []) :
    compiledAttrExpr false (.class_ cls) m = some true ↔
      ∃ v, firstAttr m.attributes classAttr = some v ∧ IsWord v cls := by
  simp only [compiledAttrExpr, AttributeMatcher.hasClass, Option.map_some, Bool.false_eq_true,
    ↓reduceIte, Option.some.injEq]
  rw [← classAttr_lower, getValue_lowercased, classAttr_lower]
  cases firstAttr m.attributes classAttr with
  | none => simp
  | some v =>
    simp only [List.any_eq_true, beq_iff_eq, Option.some.injEq, exists_eq_left']
    constructor
    · rintro ⟨w, hw, rfl⟩
      exact (isPiece_isWord hc).1 ((mem_split_iff _ _ _).1 hw)
    · intro hw
      exact ⟨cls, (mem_split_iff _ _ _).2 ((isPiece_isWord hc).2 hw), rfl⟩

/-- Non-vacuity: `<x ID=a id=b TYPE="Text/CSS">`; `#a` fires, `#b` does not (first wins),
`[type="text/css"]` fires on an HTML element and not on a foreign one. -/
example :
    let attrs : List (Bytes × Bytes) :=
      [([73, 68], [97]), ([105, 100], [98]), ([84, 89, 80, 69], [84, 101, 120, 116])]
    compiledAttrExpr false (.id [97]) ⟨attrs, true⟩ = some true ∧
    compiledAttrExpr false (.id [98]) ⟨attrs, true⟩ = some false ∧
    compiledAttrExpr false (.attributeComparison [116, 121, 112, 101] [116, 101, 120, 116]
      .asciiCaseInsensitiveIfInHtmlElementInHtmlDocument .equal) ⟨attrs, true⟩ = some true ∧
    compiledAttrExpr false (.attributeComparison [116, 121, 112, 101] [116, 101, 120, 116]
      .asciiCaseInsensitiveIfInHtmlElementInHtmlDocument .equal) ⟨attrs, false⟩ = some false := by
  decide

end LolHtml.Thm.C04_Pure
