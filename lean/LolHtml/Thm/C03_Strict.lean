import LolHtml.Lemmas.StrictStream
import LolHtml.Lemmas.NoAmb
import LolHtml.Thm.C01
import LolHtml.Thm.C03_Sim
import LolHtml.Gen.Syntax
import LolHtml.Gen.Tags
/-!
# C03 — a strict run that succeeds is the non-strict run; strict mode fails only at the guard

Stream-level statements over the core parser model (`Model/SM.lean`, `Model/Dispatcher.lean`,
`Model/Stream.lean`), for **every** tokenizer table whose sink-calling actions are written with `?`
(`EmitsChecked`, decidable, true of the generated table), every tag configuration, every controller,
every settings record and every chunking. Runs are `C01.run` (`write* ; end`).

Proof: `Lemmas/Congr.lean` (generic two-machine congruence through all interpreter layers),
`Lemmas/StrictSim.lean` (the action level: the two simulators differ only in the guard, which either
refuses — `Refusal` — or changes nothing but its own state), `Lemmas/StrictStream.lean` (parser,
transform stream, rewriter).
-/
namespace LolHtml.Thm.C03
open LolHtml LolHtml.Model
open LolHtml.Thm.C01 (run writeAll)

variable {γ : Type}

/-- side condition on the generated table -/
theorem C03_emitsChecked_gen : EmitsChecked Gen.Syntax.table = true := by decide +kernel

theorem writeAll_erase (w : World γ) (ht : EmitsChecked w.tbl = true) (chunks : List Bytes)
    (r : Rewriter γ) (hok : ∀ x ∈ (writeAll w r chunks).2, x = CallRes.ok) :
    writeAll w (eraseRw r) chunks = (eraseRw (writeAll w r chunks).1, (writeAll w r chunks).2) := by
  induction chunks generalizing r with
  | nil => rfl
  | cons c cs ih =>
    simp only [writeAll, List.mem_cons, forall_eq_or_imp] at hok ⊢
    rcases rw_write_erase w ht r c with ⟨h, he, -⟩ | heq
    · rw [he] at hok; exact absurd hok.1 (by simp)
    · rw [heq]
      dsimp only
      rw [ih _ hok.2]

/-- **C03_strict_eq_nonstrict_stream.** If every call of the strict run (`write` for each chunk,
then `end`) returns `ok`, then the run with the same settings but `strict := false` returns the same
results, and its final rewriter is the strict one with the guard forgotten — in particular the same
sink log, the same controller state, the same dispatcher and parser registers. -/
theorem C03_strict_eq_nonstrict_stream (w : World γ) (ht : EmitsChecked w.tbl = true) (g : γ)
    (cfg : Settings) (hs : cfg.strict = true) (chunks : List Bytes)
    (hok : ∀ x ∈ (run w (C01.Rewriter.new w g cfg) chunks).2, x = CallRes.ok) :
    let strict := run w (C01.Rewriter.new w g cfg) chunks
    let nonstrict := run w (C01.Rewriter.new w g { cfg with strict := false }) chunks
    nonstrict.2 = strict.2 ∧
    nonstrict.1 = eraseRw strict.1 ∧
    nonstrict.1.sink = strict.1.sink ∧
    nonstrict.1.stream.disp = strict.1.stream.disp := by
  have hnew : C01.Rewriter.new w g { cfg with strict := false } = eraseRw (C01.Rewriter.new w g cfg) := by
    unfold C01.Rewriter.new eraseRw
    rw [new_erase w g cfg hs]
  have key : run w (eraseRw (C01.Rewriter.new w g cfg)) chunks =
      (eraseRw (run w (C01.Rewriter.new w g cfg) chunks).1, (run w (C01.Rewriter.new w g cfg) chunks).2) := by
    unfold run at hok ⊢
    simp only [List.mem_append, List.mem_singleton] at hok
    rw [writeAll_erase w ht chunks _ (fun x hx => hok x (.inl hx))]
    dsimp only
    rcases rw_end_erase w ht (writeAll w (C01.Rewriter.new w g cfg) chunks).1 with ⟨h, he, -⟩ | heq
    · have := hok _ (.inr rfl)
      rw [he] at this; cases this
    · rw [heq]
  intro strict nonstrict
  have : nonstrict = (eraseRw strict.1, strict.2) := by
    show run w (C01.Rewriter.new w g { cfg with strict := false }) chunks = _
    rw [hnew, key]
  rw [this]
  exact ⟨rfl, rfl, rfl, rfl⟩

/-- … for the tables generated from the sources. -/
theorem C03_strict_eq_nonstrict_stream_gen (ctl : Controller γ) (g : γ) (cfg : Settings)
    (hs : cfg.strict = true) (chunks : List Bytes)
    (hok : ∀ x ∈ (run ⟨Gen.Syntax.table, Gen.Tags.cfg, ctl⟩ (C01.Rewriter.new ⟨Gen.Syntax.table, Gen.Tags.cfg, ctl⟩ g cfg) chunks).2,
      x = CallRes.ok) :
    (run ⟨Gen.Syntax.table, Gen.Tags.cfg, ctl⟩
        (C01.Rewriter.new ⟨Gen.Syntax.table, Gen.Tags.cfg, ctl⟩ g { cfg with strict := false }) chunks).2 =
      (run ⟨Gen.Syntax.table, Gen.Tags.cfg, ctl⟩ (C01.Rewriter.new ⟨Gen.Syntax.table, Gen.Tags.cfg, ctl⟩ g cfg) chunks).2 ∧
    (run ⟨Gen.Syntax.table, Gen.Tags.cfg, ctl⟩
        (C01.Rewriter.new ⟨Gen.Syntax.table, Gen.Tags.cfg, ctl⟩ g { cfg with strict := false }) chunks).1.sink =
      (run ⟨Gen.Syntax.table, Gen.Tags.cfg, ctl⟩ (C01.Rewriter.new ⟨Gen.Syntax.table, Gen.Tags.cfg, ctl⟩ g cfg) chunks).1.sink := by
  have := C03_strict_eq_nonstrict_stream ⟨Gen.Syntax.table, Gen.Tags.cfg, ctl⟩ C03_emitsChecked_gen g cfg hs chunks hok
  exact ⟨this.1, this.2.2.1⟩

/-! ## Strict mode fails only at the guard -/

/-- What a guard refusal of `h` means (by `C03_guard_err_iff`): `h` is a text-mode-switching tag and
the guard is in select (h ≠ script, not a select-exit tag), in a template in select, or in/after
frameset (h ≠ noframes). -/
theorem refusal_meaning (cfg : TagCfg) (hside : Lemmas.Guard.Side cfg) (sim : Sim) (h : Nat)
    (hr : Refusal cfg sim h) :
    sim.strict = true ∧ h ∈ cfg.guardTextSwitch ∧
    ((sim.guard = .inSelect ∧ h ≠ cfg.gScript ∧ h ∉ cfg.gSelectExit) ∨
     (∃ d, sim.guard = .inTemplateInSelect d) ∨
     (sim.guard = .inOrAfterFrameset ∧ h ≠ cfg.gNoframes)) := by
  obtain ⟨hs, he⟩ := hr
  have := ((C03_guard_err_iff cfg hside sim.guard h).1).1 ⟨_, he⟩
  exact ⟨hs, this.1, this.2⟩

/-- **C03_strict_fails_only_on_guard** (one `write`). If a `write` of a stream returns the
ambiguity error for hash `h`, then either the error originates from `Guard.trackStartTag`: the
simulator the call leaves behind is strict, its guard refuses `h`, `h ∈ guardTextSwitch` and the
guard is in one of the three ambiguous contexts — or the same call on the non-strict stream fails
with the very same error, i.e. the error has nothing to do with strict mode (the parser and
dispatcher models create `Err.ambiguity` nowhere else, so it was returned by the controller;
`C03_nonstrict_no_ambiguity` excludes this for controllers that never return it). -/
theorem C03_strict_fails_only_on_guard (w : World γ) (ht : EmitsChecked w.tbl = true)
    (hside : Lemmas.Guard.Side w.tags) (s : Stream γ) (data : Bytes) (h : Nat)
    (herr : (s.write w data).2 = .error (.ambiguity h)) :
    (Refusal w.tags (s.write w data).1.parser.x.sim h ∧ h ∈ w.tags.guardTextSwitch ∧
      (((s.write w data).1.parser.x.sim.guard = .inSelect ∧ h ≠ w.tags.gScript ∧ h ∉ w.tags.gSelectExit) ∨
       (∃ d, (s.write w data).1.parser.x.sim.guard = .inTemplateInSelect d) ∨
       ((s.write w data).1.parser.x.sim.guard = .inOrAfterFrameset ∧ h ≠ w.tags.gNoframes))) ∨
    ((eraseS s).write w data).2 = .error (.ambiguity h) := by
  rcases write_erase w ht s data with ⟨h', he, hr⟩ | heq
  · left
    rw [herr] at he
    injection he with he
    injection he with he
    subst he
    have := refusal_meaning w.tags hside _ h hr
    exact ⟨hr, this.2.1, this.2.2⟩
  · right
    rw [heq]
    exact herr

/-- the same for `end` -/
theorem C03_strict_fails_only_on_guard_end (w : World γ) (ht : EmitsChecked w.tbl = true)
    (hside : Lemmas.Guard.Side w.tags) (s : Stream γ) (h : Nat)
    (herr : (s.end w).2 = .error (.ambiguity h)) :
    (Refusal w.tags (s.end w).1.parser.x.sim h ∧ h ∈ w.tags.guardTextSwitch) ∨
    ((eraseS s).end w).2 = .error (.ambiguity h) := by
  rcases end_erase_s w ht s with ⟨h', he, hr⟩ | heq
  · left
    rw [herr] at he
    injection he with he
    injection he with he
    subst he
    exact ⟨hr, (refusal_meaning w.tags hside _ h hr).2.1⟩
  · right
    rw [heq]
    exact herr


/-- **A non-strict stream never returns a `ParsingAmbiguityError`** when the controller never returns
one (`CtlNoAmb`: `handle_start_tag`, the aux-info callback, `handle_token` and `handle_end` do not
fail with `Err.ambiguity`): the guard is the only source of that error in parser, dispatcher and
transform stream. -/
theorem C03_nonstrict_no_ambiguity (w : World γ) (hc : CtlNoAmb w.ctl) (ht : EmitsChecked w.tbl = true)
    (s : Stream γ) (hs : s.parser.x.sim.strict = false) (data : Bytes) (h : Nat) :
    (s.write w data).2 ≠ .error (.ambiguity h) ∧ (s.end w).2 ≠ .error (.ambiguity h) :=
  ⟨write_noAmb w hc ht s hs data h, end_noAmb w hc ht s hs h⟩

/-- **C03_strict_fails_only_on_guard, closed form.** With a controller that never returns an ambiguity
error: if `write` (resp. `end`) of a stream returns `ambiguity h`, the simulator it leaves behind is
strict and its guard refuses `h` — `Guard.trackStartTag` is where the error comes from —,
`h ∈ guardTextSwitch`, and the guard is in select (h ≠ script, h not a select-exit tag), in a template in
select, or in/after frameset (h ≠ noframes). -/
theorem C03_strict_fails_only_on_guard_ctl (w : World γ) (hc : CtlNoAmb w.ctl)
    (ht : EmitsChecked w.tbl = true) (hside : Lemmas.Guard.Side w.tags) (s : Stream γ) (data : Bytes) (h : Nat) :
    ((s.write w data).2 = .error (.ambiguity h) →
      Refusal w.tags (s.write w data).1.parser.x.sim h ∧ h ∈ w.tags.guardTextSwitch ∧
      (((s.write w data).1.parser.x.sim.guard = .inSelect ∧ h ≠ w.tags.gScript ∧ h ∉ w.tags.gSelectExit) ∨
       (∃ d, (s.write w data).1.parser.x.sim.guard = .inTemplateInSelect d) ∨
       ((s.write w data).1.parser.x.sim.guard = .inOrAfterFrameset ∧ h ≠ w.tags.gNoframes))) ∧
    ((s.end w).2 = .error (.ambiguity h) →
      Refusal w.tags (s.end w).1.parser.x.sim h ∧ h ∈ w.tags.guardTextSwitch) := by
  constructor
  · intro herr
    rcases C03_strict_fails_only_on_guard w ht hside s data h herr with hg | hn
    · exact hg
    · exact absurd hn (write_noAmb w hc ht (eraseS s) rfl data h)
  · intro herr
    rcases C03_strict_fails_only_on_guard_end w ht hside s h herr with hg | hn
    · exact hg
    · exact absurd hn (end_noAmb w hc ht (eraseS s) rfl h)

/-- a controller that never fails -/
def quietCtl : Controller Unit where
  initialFlags := fun _ => ({} : Flags)
  startTag := fun g _ _ => (g, .flags ({} : Flags))
  auxInfo := fun g _ => (g, .ok ({} : Flags))
  endTag := fun g _ => (g, ({} : Flags))
  token := fun g _ => (g, ⟨[], none, none⟩)
  shouldEmit := fun _ => true
  handleEnd := fun g => (g, [], none)
  bailOut := fun g _ => (g, [])

/-- non-vacuity of `CtlNoAmb` -/
example : CtlNoAmb quietCtl where
  startTag := by intro g n ns e h; cases h
  auxInfo := by intro g i e h; cases h
  token := by intro g t e h; cases h
  handleEnd := by intro g e h; cases h

/-- world over the generated tables with the quiet controller -/
def genWorld : World Unit := ⟨Gen.Syntax.table, Gen.Tags.cfg, quietCtl⟩

/-- `<select><xmp>` and `<div><textarea>x</textarea>` -/
def inRefused : Bytes := [60, 115, 101, 108, 101, 99, 116, 62, 60, 120, 109, 112, 62]
def inAccepted : Bytes :=
  [60, 100, 105, 118, 62, 60, 116, 101, 120, 116, 97, 114, 101, 97, 62, 120, 60, 47, 116, 101, 120, 116, 97, 114, 101, 97, 62]

/-- Non-vacuity on the generated tables: the strict run over `<select><xmp>` is refused at `xmp`
(hash 30293) — the hypothesis of `C03_strict_fails_only_on_guard` occurs —, the non-strict run of the
same input succeeds, and the strict run over `<div><textarea>x</textarea>` succeeds — the hypothesis of
`C03_strict_eq_nonstrict_stream` occurs. -/
example :
    (run genWorld (C01.Rewriter.new genWorld () { strict := true }) [inRefused]).2 =
      [.err (.ambiguity 30293), .panicUseAfterError] ∧
    (run genWorld (C01.Rewriter.new genWorld () { strict := false }) [inRefused]).2 = [.ok, .ok] ∧
    (run genWorld (C01.Rewriter.new genWorld () { strict := true }) [inAccepted]).2 = [.ok, .ok] := by
  decide +kernel

end LolHtml.Thm.C03
