import LolHtml.Thm.FullGuardX
import LolHtml.Lemmas.HintMode
/-!
# Package `full`, part 13 — the hint guard never fires (`Full_clean_hintFree`), hence `Full_no_panic_partial4`

The run-level hypothesis left by Thm/FullGuardX.lean: in the runs of the cleaned real controller with the ghost no tag hint is
issued while `got_flags_from_hint ∨ pending_element_aux_info_req`.

* `Lemmas/HintMode.lean` (`parse_H`): over a sink with `HLaws` the parser keeps "in tag-scanner mode the flag is down" and
  never returns `.panic guardSite`.
* `hlaws_hint`: the dispatcher of a clean controller with hints that refuse with `.panic guardSite` while the flag is up
  has `HLaws` (flag `PendH`, consistency `Disp.Good`).
* `parse_hint`: so that probe never refuses, is the real parse; the probe and `guardHints` differ only in the refusal
  error, so (`RelE.parse_relE`, three times) the parse over `guardHints` is the real parse as well — the real parse never
  returns `.panic hintSite` by the register invariant (`parse_post`: only `U1` sites).
* along `Stream.write` (`write_SH`), recast as `HintFree`.

`Full_no_panic_partial4 Inv : Full_scan_opsX_statement Inv → Full_no_panic_statement` — no run-level hypothesis left;
`Full_no_panic_partial5` from the two post-hint hypotheses of Thm/Full12.lean.
-/
set_option linter.unusedSimpArgs false
set_option linter.unusedVariables false
namespace LolHtml.Thm.Full
open LolHtml LolHtml.Model LolHtml.Model.Full LolHtml.Lemmas.Full
open LolHtml.Thm.C01 (run writeAll Rewriter.new)
open LolHtml.Model.RelI LolHtml.Model.Hint

/-- a tag hint is outstanding -/
def PendH {κ : Type} (d : Disp κ) : Bool := d.gotFlagsFromHint || d.pendingAux

theorem pendH_false {κ : Type} {d : Disp κ} (h : PendH d = false) : d.gotFlagsFromHint = false ∧ d.pendingAux = false := by
  simpa [PendH] using h

/-- `guardHints` with the refusal site as a parameter -/
def guardHintsAt {γ : Type} (s : String) (ops : SinkOps (Disp γ)) : SinkOps (Disp γ) :=
  { ops with
    startTagHint := fun n ns d =>
      if d.gotFlagsFromHint || d.pendingAux then (d, .error (.panic s)) else ops.startTagHint n ns d
    endTagHint := fun n d =>
      if d.gotFlagsFromHint || d.pendingAux then (d, .error (.panic s)) else ops.endTagHint n d }

theorem guardHints_at {γ : Type} (ops : SinkOps (Disp γ)) : guardHints ops = guardHintsAt hintSite ops := rfl

section rel
variable {γ : Type}

theorem guardHintsAt_relReal (s : String) (ops : SinkOps (Disp γ)) (inp : Bytes) :
    RelE.OpsRelE (guardHintsAt s ops) ops inp (fun a b => a = b) (fun e => e = .panic s) where
  handleTag := fun lx k₁ k₂ hk => by subst hk; exact Or.inl ⟨rfl, rfl⟩
  handleNonTag := fun lx k₁ k₂ hk => by subst hk; exact Or.inl ⟨rfl, rfl⟩
  startTagHint := fun n ns k₁ k₂ hk => by
    subst hk
    simp only [guardHintsAt]
    by_cases hc : (k₁.gotFlagsFromHint || k₁.pendingAux) = true
    · simp only [hc, if_true]; exact Or.inr ⟨_, rfl, rfl⟩
    · simp only [hc, if_false, Bool.false_eq_true]; exact Or.inl ⟨by first | rfl | trivial, by first | rfl | trivial⟩
  endTagHint := fun n k₁ k₂ hk => by
    subst hk
    simp only [guardHintsAt]
    by_cases hc : (k₁.gotFlagsFromHint || k₁.pendingAux) = true
    · simp only [hc, if_true]; exact Or.inr ⟨_, rfl, rfl⟩
    · simp only [hc, if_false, Bool.false_eq_true]; exact Or.inl ⟨by first | rfl | trivial, by first | rfl | trivial⟩

/-- two refusal sites: the same operations, up to the refusal -/
theorem guardHintsAt_rel (s s' : String) (ops : SinkOps (Disp γ)) (inp : Bytes) :
    RelE.OpsRelE (guardHintsAt s ops) (guardHintsAt s' ops) inp (fun a b => a = b) (fun e => e = .panic s) where
  handleTag := fun lx k₁ k₂ hk => by subst hk; exact Or.inl ⟨rfl, rfl⟩
  handleNonTag := fun lx k₁ k₂ hk => by subst hk; exact Or.inl ⟨rfl, rfl⟩
  startTagHint := fun n ns k₁ k₂ hk => by
    subst hk
    simp only [guardHintsAt]
    by_cases hc : (k₁.gotFlagsFromHint || k₁.pendingAux) = true
    · simp only [hc, if_true]; exact Or.inr ⟨_, rfl, rfl⟩
    · simp only [hc, if_false, Bool.false_eq_true]; exact Or.inl ⟨by first | rfl | trivial, by first | rfl | trivial⟩
  endTagHint := fun n k₁ k₂ hk => by
    subst hk
    simp only [guardHintsAt]
    by_cases hc : (k₁.gotFlagsFromHint || k₁.pendingAux) = true
    · simp only [hc, if_true]; exact Or.inr ⟨_, rfl, rfl⟩
    · simp only [hc, if_false, Bool.false_eq_true]; exact Or.inl ⟨by first | rfl | trivial, by first | rfl | trivial⟩

end rel

section main
variable {γ : Type} {ctl : Controller γ} {tbl : Table} {tags : TagCfg} {P : PLabels}

variable (hc : CtlClean (hintCtl ctl))
include hc

/-- **the sink laws of the probe**: the dispatcher whose hints refuse with `.panic guardSite` while a hint is outstanding -/
theorem hlaws_hint (inp : Bytes) :
    HLaws (guardHintsAt guardSite (dispOps (hintCtl ctl))) inp (PendH (κ := γ × Option Bool)) Disp.Good where
  startScan := by
    intro n ns k hp hr
    obtain ⟨h1, h2⟩ := pendH_false hp
    have hg : (k.gotFlagsFromHint || k.pendingAux) = false := hp
    simp only [guardHintsAt, hg, Bool.false_eq_true, if_false, dispOps] at hr ⊢
    obtain ⟨a, b⟩ := startTagHint_scan (ctl := ctl) n ns k hr
    unfold PendH
    rw [a, b, h2]; rfl
  endScan := by
    intro n k hp hr
    obtain ⟨h1, h2⟩ := pendH_false hp
    have hg : (k.gotFlagsFromHint || k.pendingAux) = false := hp
    simp only [guardHintsAt, hg, Bool.false_eq_true, if_false, dispOps] at hr ⊢
    obtain ⟨hpa', h | ⟨hgh, dir, hd, hg'⟩⟩ := endTagHint_facts (ctl := ctl) n k
    · obtain ⟨e, he, _⟩ := h
      rw [he] at hr; cases hr
    · rw [hd] at hr
      simp only [Except.ok.injEq] at hr
      subst hr
      unfold PendH
      rw [hg', hpa', h2]; rfl
  goodS := by
    intro n ns k hgd hp
    obtain ⟨h1, h2⟩ := pendH_false hp
    have hg : (k.gotFlagsFromHint || k.pendingAux) = false := hp
    simp only [guardHintsAt, hg, Bool.false_eq_true, if_false]
    exact (dispOps_xlaws (inp := inp) hc).goodS n ns k hgd h2
  goodE := by
    intro n k hgd hp
    obtain ⟨h1, h2⟩ := pendH_false hp
    have hg : (k.gotFlagsFromHint || k.pendingAux) = false := hp
    simp only [guardHintsAt, hg, Bool.false_eq_true, if_false]
    exact (dispOps_xlaws (inp := inp) hc).goodE n k hgd h2
  errS := by
    intro n ns k e hp hr hG
    have hg : (k.gotFlagsFromHint || k.pendingAux) = false := hp
    simp only [guardHintsAt, hg, Bool.false_eq_true, if_false, dispOps] at hr
    unfold GErr at hG
    subst hG
    exact (LolHtml.Thm.C06.dispOps_clean_guard (inp := inp) hc).2.2.1 n ns k hr
  errE := by
    intro n k e hp hr hG
    have hg : (k.gotFlagsFromHint || k.pendingAux) = false := hp
    simp only [guardHintsAt, hg, Bool.false_eq_true, if_false, dispOps] at hr
    unfold GErr at hG
    subst hG
    exact (LolHtml.Thm.C06.dispOps_clean_guard (inp := inp) hc).2.2.2 n k hr
  goodNT := fun lx k hg => (dispOps_xlaws (inp := inp) hc).goodNT lx k hg
  goodT := by
    intro lx k hg
    show Disp.Good (Disp.handleTag (hintCtl ctl) inp lx k).1
    rcases handleTag_flags (ctl := hintCtl ctl) (inp := inp) lx k hg with h | ⟨h, _⟩
    · intro hh; rw [h.2] at hh; cases hh
    · simp only [Disp.pg, Prod.mk.injEq] at h
      simp only [Disp.Good, h.1, h.2]; exact hg
  pendT := by
    intro lx k d hg hok
    show PendH (Disp.handleTag (hintCtl ctl) inp lx k).1 = false
    rcases handleTag_flags (ctl := hintCtl ctl) (inp := inp) lx k hg with h | ⟨_, e, he, _⟩
    · unfold PendH; rw [h.1, h.2]; rfl
    · have hok' : (Disp.handleTag (hintCtl ctl) inp lx k).2 = .ok d := hok
      rw [he] at hok'; cases hok'
  errNT := by
    intro lx k e hr hG
    unfold GErr at hG
    subst hG
    exact (LolHtml.Thm.C06.dispOps_clean_guard (inp := inp) hc).1 lx k hr
  errT := by
    intro lx k e hr hG
    unfold GErr at hG
    subst hG
    exact (LolHtml.Thm.C06.dispOps_clean_guard (inp := inp) hc).2.1 lx k hr

omit hc in
theorem hintSite_not_U1 : ¬ U1 hintSite := by unfold U1 hintSite; decide

/-- the real parse returns no `.panic hintSite` (not a `U1` site) -/
theorem parse_noHint (hw : Wf tbl) (inp : Bytes) (last : Bool) (p : Parser (Disp (γ × Option Bool)))
    (hp : PInv tbl inp.length (fun d : Disp (γ × Option Bool) => d.rcs) p) :
    (Parser.parse (wH tbl tags ctl).env inp last p).2 ≠ .error (.panic hintSite) := by
  have hpost := parse_post (env := (wH tbl tags ctl).env) (inp := inp) (dispOps_safe hc) hw last p hp
  intro he
  unfold ParsePost at hpost
  rw [he] at hpost
  exact hintSite_not_U1 hpost

/-- **one `parse`**: from the mode invariant, the parse over the dispatcher with guarded hints is the real parse, and the
invariant holds again -/
theorem parse_hint (hph : PhaseOk tbl P = true) (ht : EmitsChecked tbl = true) (inp : Bytes) (last : Bool)
    (p : Parser (Disp (γ × Option Bool))) (hp : Model.HMode (PendH (κ := γ × Option Bool)) Disp.Good p)
    (hU : (Parser.parse (wH tbl tags ctl).env inp last p).2 ≠ .error (.panic hintSite)) :
    Parser.parse (envT (wH tbl tags ctl) guardHints) inp last p = Parser.parse (wH tbl tags ctl).env inp last p ∧
    (∀ k, (Parser.parse (wH tbl tags ctl).env inp last p).2 = .ok k →
      Model.HMode (PendH (κ := γ × Option Bool)) Disp.Good (Parser.parse (wH tbl tags ctl).env inp last p).1) := by
  obtain ⟨hG, hN⟩ := parse_H (env := ⟨tbl, tags, guardHintsAt guardSite (dispOps (hintCtl ctl))⟩) (inp := inp)
    (hlaws_hint hc inp) hph last p hp
  have ePR : Parser.parse ⟨tbl, tags, guardHintsAt guardSite (dispOps (hintCtl ctl))⟩ inp last p =
      Parser.parse (wH tbl tags ctl).env inp last p := by
    rcases RelE.parse_relE (tbl := tbl) (cfg := tags) (inp := inp) (guardHintsAt_relReal guardSite (dispOps (hintCtl ctl)) inp)
        ht last p p (PR_refl p) with ⟨hpr, hres⟩ | ⟨e, hF, hres⟩
    · exact Prod.ext (PR_eq' hpr) hres
    · subst hF
      exact absurd rfl (hG _ hres)
  have eGR : Parser.parse (envT (wH tbl tags ctl) guardHints) inp last p = Parser.parse (wH tbl tags ctl).env inp last p := by
    rcases RelE.parse_relE (tbl := tbl) (cfg := tags) (inp := inp) (guardHintsAt_relReal hintSite (dispOps (hintCtl ctl)) inp)
        ht last p p (PR_refl p) with ⟨hpr, hres⟩ | ⟨e, hF, hres⟩
    · exact Prod.ext (PR_eq' hpr) hres
    · subst hF
      have hres' : (Parser.parse (envT (wH tbl tags ctl) guardHints) inp last p).2 = .error (.panic hintSite) := hres
      rcases RelE.parse_relE (tbl := tbl) (cfg := tags) (inp := inp)
          (guardHintsAt_rel guardSite hintSite (dispOps (hintCtl ctl)) inp) ht last p p (PR_refl p) with ⟨hpr, hres2⟩ | ⟨e, hF, hres2⟩
      · have : Parser.parse ⟨tbl, tags, guardHintsAt guardSite (dispOps (hintCtl ctl))⟩ inp last p =
            Parser.parse (envT (wH tbl tags ctl) guardHints) inp last p := Prod.ext (PR_eq' hpr) hres2
        rw [← this, ePR] at hres'
        exact absurd hres' hU
      · subst hF
        exact absurd rfl (hG _ hres2)
  refine ⟨eGR, ?_⟩
  rw [← ePR]
  exact hN

/-! ### along the run -/

/-- stream invariant -/
def SH (s : Stream (γ × Option Bool)) : Prop := Model.HMode (PendH (κ := γ × Option Bool)) Disp.Good s.parser

omit hc in
theorem new_SH (g : γ × Option Bool) (cfg : Settings) : SH (Stream.new (wH tbl tags ctl) g cfg) := by
  unfold SH Model.HMode
  exact ⟨fun h => (by cases h), fun _ => rfl⟩

theorem write_SH (hw : Wf tbl) (hph : PhaseOk tbl P = true) (ht : EmitsChecked tbl = true) (s : Stream (γ × Option Bool))
    (data : Bytes) (hi : SInv (wH tbl tags ctl) s) (hs : SH s) (hres : (s.write (wH tbl tags ctl) data).2 = .ok ()) :
    SH (s.write (wH tbl tags ctl) data).1 := by
  obtain ⟨_, hpinv⟩ := hi
  unfold Stream.write at hres ⊢
  cases hcf : s.chunkFor (wH tbl tags ctl) data with
  | inl s' => rw [hcf] at hres; cases hres
  | inr sc =>
    obtain ⟨s1, chunk⟩ := sc
    obtain ⟨c1, c2, c3, c4, c5⟩ := Stream.chunkFor_inr hcf
    rw [hcf] at hres
    dsimp only at hres ⊢
    subst c1
    rw [c2] at hres ⊢
    have hlen : (if s.hasBuffered then s.buf.data.length else 0) ≤ (s.pending ++ data).length := by
      simp only [Stream.pending, List.length_append]
      split <;> omega
    obtain ⟨_, e2⟩ := parse_hint (tags := tags) hc hph ht (s.pending ++ data) false s.parser hs
      (parse_noHint hc hw _ false s.parser (PInv_mono hpinv hlen))
    cases hpr : (s.parser.parse (wH tbl tags ctl).env (s.pending ++ data) false).2 with
    | error e => rw [hpr] at hres; cases hres
    | ok consumed =>
      rw [hpr] at hres
      dsimp only at hres ⊢
      have hnext := e2 consumed hpr
      cases hfl : Disp.flushRemaining (Stream.disp { s1 with parser := (s.parser.parse (wH tbl tags ctl).env (s.pending ++ data) false).1 })
          (s.pending ++ data) consumed with
      | error e => rw [hfl] at hres; cases hres
      | ok d =>
        rw [hfl] at hres
        dsimp only at hres ⊢
        obtain ⟨k1, k2⟩ := LolHtml.Thm.C09.keepTail_pending (w := wH tbl tags ctl)
          (s := Stream.setDisp { s1 with parser := (s.parser.parse (wH tbl tags ctl).env (s.pending ++ data) false).1 } d)
          (data := data) (chunk := s.pending ++ data) (consumed := consumed)
          (by intro hb; exact c5 (by simpa [Stream.setDisp, c3] using hb))
          (by intro hb
              have : s.hasBuffered = false := by simpa [Stream.setDisp, c3] using hb
              simp [Stream.pending, this])
          hres
        obtain ⟨f1, f2⟩ := LolHtml.Thm.C15.flushRemaining_flags hfl
        unfold SH
        rw [k2]
        obtain ⟨n1, n2⟩ := hnext
        refine ⟨?_, fun hd => ?_⟩
        · show d.gotFlagsFromHint = true → d.pendingAux = false
          intro hh
          exact f1.trans (n1 (f2.symm.trans hh))
        · show PendH d = false
          have := n2 hd
          unfold PendH at this ⊢
          rw [f1, f2]
          exact this

theorem writeAll_SH (hw : Wf tbl) (hph : PhaseOk tbl P = true) (ht : EmitsChecked tbl = true) (chunks : List Bytes)
    (r : Rewriter (γ × Option Bool)) (hi : RInv (wH tbl tags ctl) r) (hr : r.poisoned = true ∨ SH r.stream) :
    RInv (wH tbl tags ctl) (writeAll (wH tbl tags ctl) r chunks).1 ∧
    ((writeAll (wH tbl tags ctl) r chunks).1.poisoned = true ∨ SH (writeAll (wH tbl tags ctl) r chunks).1.stream) := by
  induction chunks generalizing r with
  | nil => exact ⟨hi, hr⟩
  | cons c cs ih =>
    simp only [writeAll]
    apply ih
    · exact (Rewriter.write_post hc hw r c hi).2
    · unfold Rewriter.write
      by_cases hp : r.poisoned = true
      · rw [if_pos hp]; exact Or.inl hp
      · have hs : SH r.stream := by rcases hr with h | h; exact absurd h hp; exact h
        have hi' : SInv (wH tbl tags ctl) r.stream := by rcases hi with h | h; exact absurd h hp; exact h
        simp only [hp, Bool.false_eq_true, if_false]
        cases hres : (r.stream.write (wH tbl tags ctl) c).2 with
        | ok u => exact Or.inr (write_SH hc hw hph ht r.stream c hi' hs hres)
        | error e => exact Or.inl rfl

/-- **the hint guard never fires** in the runs over `hintCtl ctl`, for every clean `hintCtl ctl` -/
theorem hintFree_of_clean (hw : Wf tbl) (hph : PhaseOk tbl P = true) (ht : EmitsChecked tbl = true) (g : γ × Option Bool)
    (cfg : Settings) : HintFree (wH tbl tags ctl) g cfg := by
  intro pre hu
  obtain ⟨hri, hrs⟩ := writeAll_SH (tags := tags) hc hw hph ht pre (Rewriter.new (wH tbl tags ctl) g cfg)
    (Or.inr (Stream.new_SInv hw g cfg)) (Or.inr (new_SH g cfg))
  have hi : SInv (wH tbl tags ctl) (writeAll (wH tbl tags ctl) (Rewriter.new (wH tbl tags ctl) g cfg) pre).1.stream := by
    rcases hri with h | h
    · rw [hu] at h; cases h
    · exact h
  have hs : SH (writeAll (wH tbl tags ctl) (Rewriter.new (wH tbl tags ctl) g cfg) pre).1.stream := by
    rcases hrs with h | h
    · rw [hu] at h; cases h
    · exact h
  generalize (writeAll (wH tbl tags ctl) (Rewriter.new (wH tbl tags ctl) g cfg) pre).1 = R at hi hs ⊢
  obtain ⟨_, hpinv⟩ := hi
  constructor
  · intro data s1 chunk hcf
    obtain ⟨c1, c2, _, _, _⟩ := Stream.chunkFor_inr hcf
    have hlen : (if R.stream.hasBuffered then R.stream.buf.data.length else 0) ≤ chunk.length := by
      rw [c1]
      simp only [Stream.pending, List.length_append]
      split <;> omega
    rw [c2]
    have hU := parse_noHint (tags := tags) hc hw chunk false R.stream.parser (PInv_mono hpinv hlen)
    obtain ⟨a, _⟩ := parse_hint (tags := tags) hc hph ht chunk false R.stream.parser hs hU
    exact ⟨a, fun e he => by unfold HFires at he; subst he; exact hU⟩
  · have hp1 : PInv tbl (if R.stream.hasBuffered then R.stream.buf.data else []).length
        (fun d : Disp (γ × Option Bool) => d.rcs) R.stream.parser := by
      split <;> rename_i hb <;> simpa [hb] using hpinv
    have hU := parse_noHint (tags := tags) hc hw _ true R.stream.parser hp1
    obtain ⟨a, _⟩ := parse_hint (tags := tags) hc hph ht _ true R.stream.parser hs hU
    exact ⟨a, fun e he => by unfold HFires at he; subst he; exact hU⟩

end main

/-! ### the theorems -/

/-- **Full_clean_hintFree.** In the runs of the cleaned real controller with the ghost no tag hint is issued while a tag
hint is outstanding. -/
theorem Full_clean_hintFree : Full_clean_hintFree_statement := by
  intro cfg settings
  exact hintFree_of_clean (tbl := Gen.Syntax.table) (tags := Gen.Tags.cfg) (ctl := Chunk.R.cleanCtl (fullCtl cfg))
    (cleanCtlH_clean cfg) C15.C15_argsTable_gen.wf C15.C15_relexSide_gen.phase C03.C03_emitsChecked_gen
    (FullSt.init cfg, none) settings

/-- the run-level companion of `Full_scan_opsX_statement`, with no hypothesis -/
theorem Full_clean_guardX' (cfg : Cfg) (settings : Settings) :
    GuardFreeX (cleanWorldH cfg) (withArgs argSite (andGuard kindGuard wmGuard)) (FullSt.init cfg, none) settings :=
  Full_clean_guardX Full_clean_hintFree cfg settings

/-- **Full_no_panic_partial4.** `Full_no_panic_statement` from package full's operation-level statement with guarded hints
ALONE: every run-level obligation (none of the four guards fires in the cleaned run; the cleaned run never panics; the
ghost is free; the lifting) is discharged. -/
theorem Full_no_panic_partial4 (Inv : ∀ cfg, Disp (FullStH cfg) → Prop) (h : Full_scan_opsX_statement Inv) :
    Full_no_panic_statement :=
  Full_no_panic_partial4_cond Inv h Full_clean_hintFree

/-- … and from the two post-hint operation-level hypotheses of Thm/Full12.lean -/
theorem Full_no_panic_partial5 (h1 : ∀ cfg, X_postHint_tag cfg) (h2 : ∀ cfg, X_postHint_nonTag cfg) :
    Full_no_panic_statement :=
  Full_no_panic_partial4 InvX (Full_scan_opsX_partial h1 h2)

/-! ### sanity: both earlier counterexamples are refused by the guards -/

/-- counterexample 1 (`Full_scan_opsH_unsat`, Thm/Full11.lean): the SECOND operation — the end-tag lexeme `0..4`, handed
over when the watermark is already at 3 — is refused by the watermark guard -/
example : ((XT (withArgs argSite (andGuard kindGuard wmGuard)) (dispOps (fullCtlH hazardCfg))).handleTag hzInp hzLx2 hzD1).2 =
    .error (.panic wmSite) := by decide +kernel

/-- counterexample 2 (`Full_scan_opsW_unsat`, Thm/Full12.lean): the THIRD operation — a start-tag hint while the end-tag
hint of the second operation is outstanding — is refused by the hint guard -/
example : ((XT hwK (dispOps (fullCtlH hazardCfg))).startTagHint (hwName 98) .html (hwStates [.tag hzLx1, .eh 97] hzD0)).2 =
    .error (.panic hintSite) := by decide +kernel

/-- … while its first two operations are let through -/
example : (resKind ((XT hwK (dispOps (fullCtlH hazardCfg))).handleTag hzInp hzLx1 hzD0).2,
    resKind ((XT hwK (dispOps (fullCtlH hazardCfg))).endTagHint (hwName 97) (hwStates [.tag hzLx1] hzD0)).2) = (0, 0) := by
  decide +kernel

end LolHtml.Thm.Full
