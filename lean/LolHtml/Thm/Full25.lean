/-
# Package `full`, part 20 — the real and the cleaned guarded OPERATION agree on every `InvY` state; so do the parses

`Full_scan_opsX` (Thm/Full14.lean) states the operation level as `OpsRelE … (IRel InvY) NP`: related results, or the real
operation fails with a non-panic, non-internal error — the form `run_relX` lifts to `CallE`. Its proof shows more
(`rel_of_unaryY`): the two operations are EQUAL from every `InvY` state, failures included (the class-`GP` case is
impossible under the invariant), and `InvY` holds again after a success. Here that stronger statement
(`Full_ops_agree : RelQ.OpsAgree …`, the assembly of `Full_scan_opsX_of` with `agree_of_unaryY` in place of
`rel_of_unaryY`) and its lifting through `Parser::parse` for BOTH directives (`RelQ.parse_eq_of_agree`,
Lemmas/ParseRelQ.lean): `Full_parse_eq_guarded` — from every parser whose dispatcher satisfies `InvY`, the parse over
the guarded real dispatcher IS the parse over the guarded cleaned dispatcher (same final parser, same result, failing
parses included), and `InvY` holds again after a successful parse. No internal-class alternative.
-/
import LolHtml.Thm.Full14
import LolHtml.Thm.FullGuardX
import LolHtml.Lemmas.ParseRelQ

namespace LolHtml.Thm.Full
open LolHtml LolHtml.Model LolHtml.Model.Full LolHtml.Model.Handlers LolHtml.EditModel LolHtml.Lemmas.Full
open LolHtml.Model.RelI LolHtml.Model.Hint

/-- `rel_of_unaryY`, keeping what its proof shows: the two results are equal, and `InvY` after a success -/
theorem agree_of_unaryY {α : Type} {cfg : Cfg} {r1 r2 : DRes (FullStH cfg) α}
    (hstep : Chunk.R.DStep (fun g : FullStH cfg => Chunk.R.DO cfg g.1)
      (fun e => Chunk.R.GP e ∧ Chunk.R.CbErr (fullCtl cfg) (Chunk.R.DO cfg) e) r1 r2)
    (hu : UPostY cfg r1) : r1 = r2 ∧ ∀ a, r1.2 = .ok a → InvY cfg r1.1 := by
  rcases hstep with ⟨he, _⟩ | ⟨e, ⟨hG, hc⟩, he⟩
  · exact ⟨he, hu.1⟩
  · exact (no_gp hG hc (hu.2 e he)).elim

/-- **Full_ops_agree.** The four guarded operations of the dispatcher over the real controller (with the ghost) and over
the cleaned one do the same on every `InvY` state, failures included; `InvY` again after a success. -/
theorem Full_ops_agree (cfg : Cfg) (inp : Bytes) :
    RelQ.OpsAgree (XT (withArgs argSite (andGuard kindGuard wmGuard)) (dispOps (fullCtlH cfg)))
      (XT (withArgs argSite (andGuard kindGuard wmGuard)) (dispOps (cleanCtlH cfg))) inp (InvY cfg) := by
  have hsim := fullCtlH_sim cfg
  have hcl := cleanCtlH_clean cfg
  constructor
  · intro lx d hI
    simp only [XT, guardHints, guardS]
    cases hK : (withArgs argSite (andGuard kindGuard wmGuard)).tag inp lx d with
    | some e => exact ⟨rfl, fun a ha => by cases ha⟩
    | none =>
      simp only [withArgs, andGuard] at hK
      have hv : TagArgsOK inp lx := by
        cases ha : (argGuard argSite).tag inp lx with
        | some e => rw [ha] at hK; cases hK
        | none => exact argGuard_tag_none ha
      have ha : (argGuard argSite).tag inp lx = none := by
        cases ha : (argGuard argSite).tag inp lx with
        | some e => rw [ha] at hK; cases hK
        | none => rfl
      rw [ha] at hK
      dsimp only at hK
      have hkind : (kindGuard (γ := FullSt cfg)).tag inp lx d = none := by
        cases hk : (kindGuard (γ := FullSt cfg)).tag inp lx d with
        | some e => rw [hk] at hK; cases hK
        | none => rfl
      rw [hkind] at hK
      dsimp only at hK
      have hw : d.rcs ≤ lx.raw.start := by
        simp only [wmGuard] at hK
        split at hK
        · assumption
        · cases hK
      exact agree_of_unaryY (Chunk.R.handleTag_step hsim inp lx d (invX_DO hI.1))
        (U_tag_Y cfg (tag_startLex cfg) (tag_auxPend cfg) inp lx d hI hv hkind)
  · intro lx d hI
    simp only [XT, guardHints, guardS]
    cases hK : (withArgs argSite (andGuard kindGuard wmGuard)).nonTag inp lx d with
    | some e => exact ⟨rfl, fun a ha => by cases ha⟩
    | none =>
      simp only [withArgs, andGuard] at hK
      have hv : NTLexValid inp lx := by
        cases ha : (argGuard argSite).nonTag inp lx with
        | some e => rw [ha] at hK; cases hK
        | none =>
          simp only [argGuard] at ha
          split at ha
          · assumption
          · cases ha
      have ha : (argGuard argSite).nonTag inp lx = none := by
        cases ha : (argGuard argSite).nonTag inp lx with
        | some e => rw [ha] at hK; cases hK
        | none => rfl
      rw [ha] at hK
      simp only [kindGuard, wmGuard] at hK
      have hw : d.rcs ≤ lx.raw.start := by
        split at hK
        · assumption
        · cases hK
      exact agree_of_unaryY (Chunk.R.handleNonTag_step hsim inp lx d (invX_DO hI.1)) (U_nonTag_Y cfg inp lx d hI hv hw)
  · intro n ns d hI
    simp only [XT, guardHints, guardS]
    cases hb : (d.gotFlagsFromHint || d.pendingAux) with
    | true => simp only [if_true]; exact ⟨trivial, fun a ha => by cases ha⟩
    | false =>
      simp only [Bool.false_eq_true, if_false]
      obtain ⟨a, b, c⟩ := invX_idle_of hI.1 hb
      exact agree_of_unaryY (Chunk.R.startTagHint_step hsim n ns d (invX_DO hI.1)) (U_startHint_Y cfg d a b c n ns)
  · intro n d hI
    simp only [XT, guardHints, guardS]
    cases hb : (d.gotFlagsFromHint || d.pendingAux) with
    | true => simp only [if_true]; exact ⟨trivial, fun a ha => by cases ha⟩
    | false =>
      simp only [Bool.false_eq_true, if_false]
      obtain ⟨a, b, c⟩ := invX_idle_of hI.1 hb
      exact agree_of_unaryY (Chunk.R.endTagHint_step hsim n d (invX_DO hI.1)) (U_endHint_Y cfg d a b c n)

/-- **Full_parse_eq_guarded.** From every parser state whose dispatcher satisfies `InvY`, for every slice, `last` or not:
`Parser::parse` over the guarded dispatcher with the REAL controller IS `Parser::parse` over the guarded dispatcher with the
cleaned controller — the same final parser (dispatcher, controller state, sink log included) and the same result, failing
parses included — and after a successful parse `InvY` holds again. -/
theorem Full_parse_eq_guarded (cfg : Cfg) (inp : Bytes) (last : Bool) (p : Parser (Disp (FullStH cfg)))
    (hI : InvY cfg p.x.sink) :
    Parser.parse (envT (genWorldH cfg) (XT (withArgs argSite (andGuard kindGuard wmGuard)))) inp last p =
      Parser.parse (envT (cleanWorldH cfg) (XT (withArgs argSite (andGuard kindGuard wmGuard)))) inp last p ∧
    ∀ n, (Parser.parse (envT (genWorldH cfg) (XT (withArgs argSite (andGuard kindGuard wmGuard)))) inp last p).2 = .ok n →
      InvY cfg (Parser.parse (envT (genWorldH cfg) (XT (withArgs argSite (andGuard kindGuard wmGuard)))) inp last p).1.x.sink :=
  RelQ.parse_eq_of_agree (tbl := Gen.Syntax.table) (cfg := Gen.Tags.cfg) (Full_ops_agree cfg inp)
    C03.C03_emitsChecked_gen last p hI

end LolHtml.Thm.Full
