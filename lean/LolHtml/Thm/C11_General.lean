import LolHtml.Lemmas.WBound
import LolHtml.Lemmas.SinkMono
import LolHtml.Thm.C15_Core
/-!
# C11 — graceful bail-out for EVERY controller (mutating handlers included)

`Thm/C11.lean` proves the bail-out property for observing controllers, at byte level. Here the
controller is arbitrary (it may rewrite, remove, fail; only `CtlClean`: it does not itself return a
panic-class error) and the statement is about the sink LOG:

when a `write` fails with `e` after successful writes, there is a dispatcher state `dB` (the moment of
the failure) whose log extends the log at the start of the call by non-empty events only (`Grows`),
and an offset `k ≤ |inp|` (`inp` = bytes retained from earlier writes ++ the new data; `k` =
`remaining_content_start` at the failure, inside the slice by the C15 invariant) such that

* with the matching flag (`shouldBailOutFor e`): the final log is
  `dB.log ++ (bail-out handler output as chunks) ++ flush(a) ++ flush(b)` with `a ++ b = inp.drop k` —
  every remaining received byte, unmodified, in order; `flush(x)` is the single chunk `x`, or nothing
  if `x` is empty; `a = []` except when `Arena::append` itself failed (then the retained tail and the
  new data are flushed as two chunks, `k = 0`); the bail-out handlers ran exactly once, on the
  controller state of `dB`;
* without the flag: the final log is `dB.log`, and no bail-out handler ran.

Needs the C15 side-conditions on the table (the flush must start inside the slice).
-/
namespace LolHtml.Thm.C11G
open LolHtml LolHtml.Model LolHtml.Thm.C01

variable {γ : Type}

/-- one flush of `b`: a single chunk, or nothing when `b` is empty -/
def flush1 (b : Bytes) : List SinkEv := if b.isEmpty then [] else [.chunk b]

theorem sinkBytes_flush1 (b : Bytes) : sinkBytes (flush1 b) = b := by
  unfold flush1
  split
  · rename_i h; cases b <;> simp_all [sinkBytes]
  · simp [sinkBytes]

theorem flushForBailOut_log (d : Disp γ) (inp : Bytes) (h : d.rcs ≤ inp.length) :
    ∃ d', d.flushForBailOut inp = .ok d' ∧ d'.sink = d.sink ++ flush1 (inp.drop d.rcs) ∧ d'.rcs = 0 ∧ d'.ctl = d.ctl := by
  unfold Disp.flushForBailOut
  have hs : checkedSlice inp ⟨d.rcs, inp.length⟩ = some (inp.drop d.rcs) := by
    unfold checkedSlice
    simp [h, slice]
  rw [hs]
  refine ⟨_, rfl, ?_, rfl, ?_⟩
  · unfold flush1
    split
    · simp
    · simp [Disp.push]
  · split <;> rfl

section
variable {w : World γ}

theorem bail_log_one (s : Stream γ) (e : Err) (chunk : Bytes) (hr : s.disp.rcs ≤ chunk.length)
    (hb : s.shouldBailOutFor e = true) :
    (s.bail w e [chunk]).disp.sink =
      s.disp.sink ++ (w.ctl.bailOut s.disp.ctl e).2.map .chunk ++ flush1 (chunk.drop s.disp.rcs) ∧
    (s.bail w e [chunk]).bailOutRuns = s.bailOutRuns + 1 := by
  obtain ⟨d', hd', hs', _, _⟩ := flushForBailOut_log (s.disp.runBailOut w.ctl e) chunk (by simpa [Disp.runBailOut] using hr)
  refine ⟨?_, by simp [Stream.bail, hb]⟩
  simp only [Stream.disp] at hd' hs'
  simp only [Stream.bail, hb, if_true, List.foldl_cons, List.foldl_nil, Stream.disp, Stream.setDisp, hd']
  rw [hs']
  simp [Disp.runBailOut, Stream.disp]

theorem bail_log_two (s : Stream γ) (e : Err) (a b : Bytes) (hr : s.disp.rcs = 0)
    (hb : s.shouldBailOutFor e = true) :
    (s.bail w e [a, b]).disp.sink =
      s.disp.sink ++ (w.ctl.bailOut s.disp.ctl e).2.map .chunk ++ flush1 a ++ flush1 b ∧
    (s.bail w e [a, b]).bailOutRuns = s.bailOutRuns + 1 := by
  obtain ⟨d1, hd1, hs1, hr1, _⟩ := flushForBailOut_log (s.disp.runBailOut w.ctl e) a
    (by simp [Disp.runBailOut, hr])
  obtain ⟨d2, hd2, hs2, _, _⟩ := flushForBailOut_log d1 b (by rw [hr1]; omega)
  refine ⟨?_, by simp [Stream.bail, hb]⟩
  simp only [Stream.disp] at hd1 hd2 hs1 hs2
  simp only [Stream.bail, hb, if_true, List.foldl_cons, List.foldl_nil, Stream.disp, Stream.setDisp, hd1, hd2]
  have hr' : s.parser.x.sink.rcs = 0 := hr
  rw [hs2, hs1, hr1]
  simp [Disp.runBailOut, hr']

/-- what a failing call leaves in the sink log -/
def BailLog (w : World γ) (s s' : Stream γ) (inp : Bytes) (e : Err) : Prop :=
  ∃ (dB : Disp γ) (k : Nat) (a b : Bytes), Grows s.disp dB ∧ k ≤ inp.length ∧ a ++ b = inp.drop k ∧
    (if s.shouldBailOutFor e = true then
      s'.disp.sink = dB.sink ++ (w.ctl.bailOut dB.ctl e).2.map .chunk ++ flush1 a ++ flush1 b ∧
        s'.bailOutRuns = s.bailOutRuns + 1
     else s'.disp.sink = dB.sink ∧ s'.bailOutRuns = s.bailOutRuns)

theorem bailLog_of_one {s s0 : Stream γ} {e : Err} {inp chunk : Bytes} {k : Nat} (hg : Grows s.disp s0.disp)
    (hcfg : s0.cfg = s.cfg) (hruns : s0.bailOutRuns = s.bailOutRuns) (hr : s0.disp.rcs ≤ chunk.length)
    (hk : k ≤ inp.length) (hdrop : chunk.drop s0.disp.rcs = inp.drop k) :
    BailLog w s (s0.bail w e [chunk]) inp e := by
  refine ⟨s0.disp, k, [], inp.drop k, hg, hk, by simp, ?_⟩
  have hsb : s0.shouldBailOutFor e = s.shouldBailOutFor e := by simp [Stream.shouldBailOutFor, hcfg]
  split
  · rename_i hb
    obtain ⟨h1, h2⟩ := bail_log_one (w := w) s0 e chunk hr (by rw [hsb]; exact hb)
    refine ⟨?_, by rw [h2, hruns]⟩
    rw [h1, hdrop]
    simp [flush1]
  · rename_i hb
    rw [Stream.bail_off s0 e _ (by rw [hsb]; simpa using hb)]
    exact ⟨rfl, hruns⟩

/-- **A failing `write`, any controller.** -/
theorem Stream.write_bail {cert : Cert} (hc : CtlClean w.ctl) (hw : Wf w.tbl) (hchk : checkCert w.tbl cert = true)
    (s : Stream γ) (data : Bytes) (hs : SInv2 w cert s) (e : Err) (h : (s.write w data).2 = .error e) :
    BailLog w s (s.write w data).1 (s.pending ++ data) e := by
  obtain ⟨⟨hrcs, hpinv⟩, hptok⟩ := hs
  unfold Stream.write at h ⊢
  cases hcf : s.chunkFor w data with
  | inl s' =>
    rw [hcf] at h
    simp only [Except.error.injEq] at h
    subst h
    obtain ⟨hb, hs'⟩ := Stream.chunkFor_inl hcf
    subst hs'
    dsimp only
    refine ⟨s.disp, 0, s.buf.data, data, Grows.refl _, Nat.zero_le _, by simp [Stream.pending, hb], ?_⟩
    split
    · rename_i hbail
      exact bail_log_two (w := w) { s with buf := (s.buf.append data).1 } .mem s.buf.data data hrcs hbail
    · rename_i hbail
      rw [Stream.bail_off _ _ _ (by simpa [Stream.shouldBailOutFor] using hbail)]
      exact ⟨rfl, rfl⟩
  | inr sc =>
    obtain ⟨s1, chunk⟩ := sc
    obtain ⟨c1, c2, c3, c4, c5⟩ := Stream.chunkFor_inr hcf
    rw [hcf] at h
    dsimp only at h ⊢
    have hd1 : s1.disp = s.disp := by simp [Stream.disp, c2]
    have hruns1 : s1.bailOutRuns = s.bailOutRuns := by
      unfold Stream.chunkFor at hcf
      by_cases hb : s.hasBuffered = true
      · rw [if_pos hb] at hcf
        by_cases ha : (s.buf.append data).2 = true
        · dsimp only at hcf
          rw [if_pos ha] at hcf
          simp only [Sum.inr.injEq, Prod.mk.injEq] at hcf
          rw [← hcf.1]
        · simp [ha] at hcf
      · rw [if_neg hb] at hcf
        simp only [Sum.inr.injEq, Prod.mk.injEq] at hcf
        rw [← hcf.1]
    have hlen : (if s.hasBuffered then s.buf.data.length else 0) ≤ chunk.length := by
      rw [c1]
      simp only [Stream.pending, List.length_append]
      split <;> omega
    have hp1 : PInv w.tbl chunk.length (fun d : Disp γ => d.rcs) s1.parser := by
      rw [c2]; exact PInv_mono hpinv hlen
    have hgrow := Stream.parse_grows (w := w) s1 chunk false
    rw [hd1] at hgrow
    have hW := parse_W (env := w.env) (inp := chunk) (cert := cert) hchk (dispOps_safe hc) (dispOps_safe2 hc) hw false
      s1.parser hp1 (by rw [c2]; exact hptok)
    have hpost := parse_post (env := w.env) (inp := chunk) (dispOps_safe hc) hw false s1.parser hp1
    unfold ParsePost at hpost
    cases hpr : (s1.parser.parse w.env chunk false).2 with
    | error e' =>
      rw [hpr] at h
      dsimp only at h ⊢
      simp only [Except.error.injEq] at h
      subst h
      rw [← c1]
      exact bailLog_of_one (s0 := { s1 with parser := (s1.parser.parse w.env chunk false).1 }) hgrow c4 hruns1 hW hW rfl
    | ok consumed =>
      rw [hpr] at hpost h
      obtain ⟨p1, p2, p3⟩ := hpost
      dsimp only at p1 p2 p3 h ⊢
      obtain ⟨d, hfl, hd0⟩ := flushRemaining_ok (Stream.disp { s1 with parser := (s1.parser.parse w.env chunk false).1 })
        chunk consumed p1 p2
      rw [hfl] at h ⊢
      dsimp only at h ⊢
      have hg2 := hgrow.trans (flushRemaining_grows _ d chunk consumed hfl)
      -- only `init_with` can fail now
      unfold Stream.keepTail at h ⊢
      by_cases hlt : consumed < chunk.length
      · rw [if_pos hlt] at h ⊢
        by_cases hb : (Stream.setDisp { s1 with parser := (s1.parser.parse w.env chunk false).1 } d).hasBuffered = true
        · rw [if_pos hb] at h
          have hbs : s.hasBuffered = true := by simpa [Stream.setDisp, c3] using hb
          have hle : consumed ≤ s1.buf.data.length := by rw [c5 hbs]; exact p2
          unfold Buf.shift at h
          rw [if_pos (show consumed ≤ (Stream.setDisp { s1 with parser := (s1.parser.parse w.env chunk false).1 } d).buf.data.length from hle)] at h
          cases h
        · rw [if_neg hb] at h ⊢
          have hbs : s.hasBuffered = false := by simpa [Stream.setDisp, c3] using hb
          have hchunk : chunk = data := by rw [c1]; simp [Stream.pending, hbs]
          dsimp only at h ⊢
          by_cases hiw : ((Stream.setDisp { s1 with parser := (s1.parser.parse w.env chunk false).1 } d).buf.initWith (data.drop consumed)).2 = true
          · rw [if_pos hiw] at h; cases h
          · rw [if_neg hiw] at h ⊢
            simp only [Except.error.injEq] at h
            subst h
            rw [← c1]
            refine bailLog_of_one (k := consumed)
              (s0 := { Stream.setDisp { s1 with parser := (s1.parser.parse w.env chunk false).1 } d with
                        buf := ((Stream.setDisp { s1 with parser := (s1.parser.parse w.env chunk false).1 } d).buf.initWith (data.drop consumed)).1 })
              ?_ c4 hruns1 ?_ p2 ?_
            · simpa [Stream.disp, Stream.setDisp] using hg2
            · simp [Stream.disp, Stream.setDisp, hd0]
            · simp [Stream.disp, Stream.setDisp, hd0, hchunk]
      · rw [if_neg hlt] at h
        cases h

end

/-! ### from a fresh rewriter -/

theorem writeAll_ok_inv {w : World γ} {cert : Cert} (hc : CtlClean w.ctl) (hw : Wf w.tbl)
    (hchk : checkCert w.tbl cert = true) (chunks : List Bytes) (r : Rewriter γ) (hp : r.poisoned = false)
    (hs : SInv2 w cert r.stream) (hok : ∀ x ∈ (writeAll w r chunks).2, x = CallRes.ok) :
    (writeAll w r chunks).1.poisoned = false ∧ SInv2 w cert (writeAll w r chunks).1.stream := by
  induction chunks generalizing r with
  | nil => exact ⟨hp, hs⟩
  | cons c cs ih =>
    simp only [writeAll, List.mem_cons, forall_eq_or_imp] at hok ⊢
    obtain ⟨_, h2⟩ := Stream.write_post2 hc hw hchk r.stream c hs
    cases hres : (r.stream.write w c).2 with
    | error e =>
      have hokc := hok.1
      unfold Model.Rewriter.write at hokc
      rw [if_neg (by rw [hp]; simp)] at hokc
      simp only [hres] at hokc
      cases hokc
    | ok u =>
      have hwr : r.write w c = ({ r with stream := (r.stream.write w c).1 }, CallRes.ok) := by
        unfold Model.Rewriter.write
        rw [if_neg (by rw [hp]; simp)]
        simp only [hres]
      rw [hwr] at hok ⊢
      exact ih { r with stream := (r.stream.write w c).1 } hp (h2 hres) hok.2

/-- **C11_bailout_general.** All earlier writes succeeded; this `write` fails with `e`. For every
controller (`CtlClean`), every table with the C15 side-conditions, every settings record: the sink log
is the log at the failure, then (with the matching flag) the bail-out handlers' output and one flush
of every remaining received byte, unmodified; without the flag nothing is added and no handler ran.
The rewriter is poisoned. -/
theorem C11_bailout_general (w : World γ) (hwf : WfTable w.tbl = true)
    (hcert : checkCert w.tbl (computeCert w.tbl) = true) (hc : CtlClean w.ctl) (g : γ) (cfg : Settings)
    (chunks : List Bytes) (data : Bytes) (e : Err)
    (hok : ∀ x ∈ (writeAll w (Rewriter.new w g cfg) chunks).2, x = CallRes.ok)
    (herr : ((writeAll w (Rewriter.new w g cfg) chunks).1.write w data).2 = .err e) :
    BailLog w (writeAll w (Rewriter.new w g cfg) chunks).1.stream
      ((writeAll w (Rewriter.new w g cfg) chunks).1.write w data).1.stream
      ((writeAll w (Rewriter.new w g cfg) chunks).1.stream.pending ++ data) e ∧
    ((writeAll w (Rewriter.new w g cfg) chunks).1.write w data).1.poisoned = true := by
  have hw := WfTable.wf hwf
  obtain ⟨hp, hs⟩ := writeAll_ok_inv hc hw hcert chunks (Rewriter.new w g cfg) rfl
    (Stream.new_SInv2 hw hcert g cfg) hok
  generalize (writeAll w (Rewriter.new w g cfg) chunks).1 = r0 at *
  unfold Model.Rewriter.write at herr ⊢
  simp only [hp, Bool.false_eq_true, if_false] at herr ⊢
  cases hres : (r0.stream.write w data).2 with
  | ok u => simp [hres] at herr
  | error e' =>
    simp only [hres, CallRes.err.injEq] at herr ⊢
    subst herr
    exact ⟨Stream.write_bail hc hw hcert r0.stream data hs e' hres, trivial⟩

/-- the bytes of the flushes are exactly the remaining received bytes -/
theorem BailLog.flushed_bytes {w : World γ} {s s' : Stream γ} {inp : Bytes} {e : Err} (h : BailLog w s s' inp e)
    (hb : s.shouldBailOutFor e = true) :
    ∃ (dB : Disp γ) (k : Nat), Grows s.disp dB ∧ k ≤ inp.length ∧
      sinkBytes s'.disp.sink = sinkBytes dB.sink ++ (w.ctl.bailOut dB.ctl e).2.flatten ++ inp.drop k := by
  obtain ⟨dB, k, a, b, h1, h2, h3, h4⟩ := h
  rw [if_pos hb] at h4
  refine ⟨dB, k, h1, h2, ?_⟩
  rw [h4.1]
  simp only [sinkBytes_append, sinkBytes_chunks, sinkBytes_flush1, List.append_assoc, h3]

/-- instantiated at the generated tables, with a controller that REMOVES every token it is given
(`chunks := []`) and fails at the first comment: the bail-out still flushes every remaining byte -/
def dropCtl : Controller Unit :=
  { initialFlags := fun _ => Flags.ofNat 31
    startTag := fun _ _ _ => ((), .flags (Flags.ofNat 31))
    auxInfo := fun _ _ => ((), .ok (Flags.ofNat 31))
    endTag := fun _ _ => ((), Flags.ofNat 31)
    token := fun _ t => ((), match t with
      | .comment .. => { chunks := [], err := some .handler }
      | _ => { chunks := [] })
    shouldEmit := fun _ => true
    handleEnd := fun _ => ((), [], none)
    bailOut := fun _ _ => ((), [[33]]) }

/-- `<a>x<!--c-->y<b>` with `bailOnHandler`: `<a>` and `x` are removed, the handler fails at the comment,
the bail-out handler writes `!`, then `<!--c-->y<b>` is flushed unmodified -/
example : ((Rewriter.new ⟨Gen.Syntax.table, Gen.Tags.cfg, dropCtl⟩ () { bailOnHandler := true }).write
      ⟨Gen.Syntax.table, Gen.Tags.cfg, dropCtl⟩ [60,97,62,120,60,33,45,45,99,45,45,62,121,60,98,62]).1.sink
    = [.enc 0, .chunk [33], .chunk [60,33,45,45,99,45,45,62,121,60,98,62]] := by decide +kernel

end LolHtml.Thm.C11G
