/-
Property C05 — scoped dispatch: handlers fire exactly once, in order, for exactly their scope.

Everything is stated about `Model.Controller.runDoc / steps / step` (the functions the lane `scope`
executes) for ALL element-handler scripts, ALL registrations, ALL event sequences and ALL matchers
(every start-tag event carries an arbitrary list of match ids; the only hypothesis is `WfEvents`:
ids are ids of registered selectors).

Reading guide (definitions in `Spec/Scope.lean`):
* handler ids: selector entries `0 … n-1`, document-level entries `n …` (registration order);
* `openStack script sels [] 0 evs` — the open elements (outermost first) after `evs`;
* `expected sels docs sp ord ev` — the invocations promised for event `ev` given open elements `sp`;
* `log … evs` — concatenation of `expected` over `evs`; `expectedEnd` — the `end` handlers.
-/
import LolHtml.Lemmas.ScopeTrace

namespace LolHtml.Thm.C05
open LolHtml.Model.Handlers LolHtml.Model.Controller LolHtml.Spec.Scope LolHtml.Lemmas.Scope

/-! ## Refinement (and: no panic) -/

/-- **C05_refines.** For every script, registration and well-formed event sequence the model runs
to completion (no `Panic`: no counter underflow, no dangling locator, no stale end-tag handler) and
its invocation log is exactly the reference log followed by the `end` handlers. -/
theorem C05_refines (script : ElemScript) (sels : List SelReg) (docs : List DocReg)
    (evs : List Event) (wf : WfEvents sels.length evs) :
    ∃ s, runDoc script sels docs evs =
      .ok (s, log script sels docs [] 0 evs ++ expectedEnd sels docs evs.length) :=
  runDoc_refines script sels docs evs wf

/-- **C05_no_panic.** No explicit failure branch of the model is reachable. -/
theorem C05_no_panic (script : ElemScript) (sels : List SelReg) (docs : List DocReg)
    (evs : List Event) (wf : WfEvents sels.length evs) (p : Panic) :
    runDoc script sels docs evs ≠ .error p := by
  obtain ⟨s, h⟩ := C05_refines script sels docs evs wf
  rw [h]; intro h'; cases h'

/-- **C05_event.** After any well-formed prefix, the next event produces exactly the promised
invocations for the elements open at that point. -/
theorem C05_event (script : ElemScript) (sels : List SelReg) (docs : List DocReg)
    (pre : List Event) (ev : Event) (wf : WfEvents sels.length pre) (wfe : WfEvent sels.length ev) :
    ∃ s l s', steps script (State.init sels docs) 0 pre = .ok (s, l) ∧
      step script s pre.length ev =
        .ok (s', expected sels docs (openStack script sels [] 0 pre) pre.length ev) := by
  obtain ⟨s, h, inv⟩ := steps_refines script sels docs pre [] _ 0 (inv_init sels docs) wf
  obtain ⟨s', h', _⟩ := step_refines script sels docs _ s pre.length ev inv wfe
  exact ⟨s, _, s', h, by simpa using h'⟩

/-! ## C05_refcount -/

/-- **C05_refcount.** In every reachable state: the `user_count` of a selector-scoped text/comment
handler `h` is the number of open elements whose match set contains `h` (counted with multiplicity;
see `openCount_eq_countP`), a document-level handler has count 1; doctype and `end` handlers have
count 1 forever; element and end-tag handler counts are 0 between events; every vector total is the
sum of its item counts; `matched_elements_with_removed_content` is the number of open elements
whose content is being removed. -/
theorem C05_refcount (script : ElemScript) (sels : List SelReg) (docs : List DocReg)
    (evs : List Event) (wf : WfEvents sels.length evs) :
    ∃ s l, steps script (State.init sels docs) 0 evs = .ok (s, l) ∧
      let sp := openStack script sels [] 0 evs
      let d := s.ctrl.disp
      d.text.items = (textIds sels docs).map
        (fun h => ⟨h, (if h < sels.length then 0 else 1) + openCount sp h⟩) ∧
      d.comment.items = (commentIds sels docs).map
        (fun h => ⟨h, (if h < sels.length then 0 else 1) + openCount sp h⟩) ∧
      (∀ it ∈ d.doctype.items, it.userCount = 1) ∧ (∀ it ∈ d.end_.items, it.userCount = 1) ∧
      (∀ it ∈ d.element.items, it.userCount = 0) ∧ (∀ it ∈ d.endTag.items, it.userCount = 0) ∧
      d.text.userCount = (d.text.items.map (·.userCount)).sum ∧
      d.comment.userCount = (d.comment.items.map (·.userCount)).sum ∧
      d.doctype.userCount = (d.doctype.items.map (·.userCount)).sum ∧
      d.end_.userCount = (d.end_.items.map (·.userCount)).sum ∧
      d.element.userCount = (d.element.items.map (·.userCount)).sum ∧
      d.endTag.userCount = (d.endTag.items.map (·.userCount)).sum ∧
      d.removedContent = sp.countP (·.removed) := by
  obtain ⟨s, h, inv⟩ := steps_refines script sels docs evs [] _ 0 (inv_init sels docs) wf
  refine ⟨s, _, h, ?_⟩
  have hdoc : ∀ (ids : List HId), (∀ i ∈ ids, sels.length ≤ i) →
      ∀ it ∈ regItems sels.length ids, it.userCount = 1 := by
    intro ids hge it hit
    simp only [regItems, List.mem_map] at hit
    obtain ⟨(i : Nat), hi, rfl⟩ := hit
    have : (sels.length : Nat) ≤ i := hge i hi
    have : ¬ i < sels.length := by omega
    simp [base, this]
  have het : (∀ it ∈ s.ctrl.disp.endTag.items, it.userCount = 0) ∧
      s.ctrl.disp.endTag.userCount = (s.ctrl.disp.endTag.items.map (·.userCount)).sum := by
    have hvm := inv.vm
    cases hv : s.ctrl.vm with
    | none => rw [hv] at hvm; rw [hvm.2]; exact ⟨by simp, rfl⟩
    | some st =>
      rw [hv] at hvm
      obtain ⟨_, items, hE, hrel⟩ := hvm
      rw [hE]; exact ⟨hrel.counts_zero, rfl⟩
  refine ⟨?_, ?_, ?_, ?_, ?_, het.1, ?_, ?_, ?_, ?_, ?_, het.2, inv.removed⟩
  · rw [inv.text, mk_items, addBy_regItems]; rfl
  · rw [inv.comment, mk_items, addBy_regItems]; rfl
  · rw [inv.doctype]; exact hdoc _ (fun i hi => (mem_idsFrom_bounds _ _ _ i hi).1)
  · rw [inv.end_]; exact hdoc _ (fun i hi => (mem_idsFrom_bounds _ _ _ i hi).1)
  · rw [inv.element]; exact elem_items_zero sels
  · rw [inv.text]; rfl
  · rw [inv.comment]; rfl
  · rw [inv.doctype]; rfl
  · rw [inv.end_]; rfl
  · rw [inv.element]; rfl

/-- With duplicate-free match sets (what a `DenseHashSet` yields), `openCount` is the number of
open elements whose match set contains `h`. -/
theorem openCount_eq_countP (sp : List OpenElem) (h : Nat) (nd : ∀ e ∈ sp, e.matched.Nodup) :
    openCount sp h = sp.countP (fun e => e.matched.contains h) := by
  induction sp with
  | nil => rfl
  | cons e sp ih =>
    rw [openCount_cons, List.countP_cons, ih (fun e' he' => nd e' (by simp [he']))]
    have := nd e (by simp)
    rw [this.count]
    by_cases hm : h ∈ e.matched
    · simp [hm]; omega
    · simp [hm]

/-! ## C05_scope -/

/-- **C05_scope (text).** A text token is passed to exactly: the selector-scoped text handlers `h`
for which some open element matched selector `h`, and every document-level text handler. -/
theorem C05_scope_text (sels : List SelReg) (docs : List DocReg) (sp : List OpenElem) (ord : Nat)
    (x : Invocation) :
    x ∈ expected sels docs sp ord .text ↔
      ∃ h, x = .token .text h ord ∧ h ∈ textIds sels docs ∧
        (sels.length ≤ h ∨ ∃ e ∈ sp, h ∈ e.matched) := by
  simp only [expected, List.mem_map, List.mem_filter, inScope, Bool.or_eq_true, decide_eq_true_eq,
    List.any_eq_true, List.contains_iff_mem]
  constructor
  · rintro ⟨h, ⟨h1, h2⟩, rfl⟩; exact ⟨h, rfl, h1, h2⟩
  · rintro ⟨h, rfl, h1, h2⟩; exact ⟨h, ⟨h1, h2⟩, rfl⟩

/-- **C05_scope (comments).** Same for comment tokens. -/
theorem C05_scope_comment (sels : List SelReg) (docs : List DocReg) (sp : List OpenElem)
    (ord : Nat) (x : Invocation) :
    x ∈ expected sels docs sp ord .comment ↔
      ∃ h, x = .token .comment h ord ∧ h ∈ commentIds sels docs ∧
        (sels.length ≤ h ∨ ∃ e ∈ sp, h ∈ e.matched) := by
  simp only [expected, List.mem_map, List.mem_filter, inScope, Bool.or_eq_true, decide_eq_true_eq,
    List.any_eq_true, List.contains_iff_mem]
  constructor
  · rintro ⟨h, ⟨h1, h2⟩, rfl⟩; exact ⟨h, rfl, h1, h2⟩
  · rintro ⟨h, rfl, h1, h2⟩; exact ⟨h, ⟨h1, h2⟩, rfl⟩

/-- **C05_scope (doctype).** Every document-level doctype handler receives every doctype, and
nothing else does. -/
theorem C05_scope_doctype (sels : List SelReg) (docs : List DocReg) (sp : List OpenElem)
    (ord : Nat) (x : Invocation) :
    x ∈ expected sels docs sp ord .doctype ↔
      ∃ h, x = .token .doctype h ord ∧ h ∈ doctypeIds sels docs := by
  simp only [expected, List.mem_map]
  constructor
  · rintro ⟨h, h1, rfl⟩; exact ⟨h, rfl, h1⟩
  · rintro ⟨h, rfl, h1⟩; exact ⟨h, h1, rfl⟩

/-- Which ids are text handlers: selector `h` with a text handler, or document entry `h - n` with
one. (Same shape for the other kinds.) -/
theorem mem_textIds (sels : List SelReg) (docs : List DocReg) (h : Nat) :
    h ∈ textIds sels docs ↔
      (∃ r, sels[h]? = some r ∧ r.text = true) ∨
      (∃ j r, docs[j]? = some r ∧ r.text = true ∧ h = sels.length + j) := by
  simp only [textIds, List.mem_append, mem_idsFrom_iff, Nat.zero_add]
  constructor
  · rintro (⟨j, r, h1, h2, rfl⟩ | ⟨j, r, h1, h2, rfl⟩)
    · exact Or.inl ⟨r, h1, h2⟩
    · exact Or.inr ⟨j, r, h1, h2, rfl⟩
  · rintro (⟨r, h1, h2⟩ | ⟨j, r, h1, h2, rfl⟩)
    · exact Or.inl ⟨h, r, h1, h2, rfl⟩
    · exact Or.inr ⟨j, r, h1, h2, rfl⟩

/-! ## C05_order -/

/-- Handler id of an invocation. -/
def hidOf : Invocation → Nat
  | .token _ h _ => h
  | .endTag h _ _ _ => h

theorem pairwise_filter_map (ids : List Nat) (p : Nat → Bool) (f : Nat → Invocation)
    (hf : ∀ h, hidOf (f h) = h) (hs : ids.Pairwise (· < ·)) :
    (((ids.filter p).map f).map hidOf).Pairwise (· < ·) := by
  have : ((ids.filter p).map f).map hidOf = ids.filter p := by
    rw [List.map_map]
    calc (ids.filter p).map (hidOf ∘ f) = (ids.filter p).map id := by
          apply List.map_congr_left; intro h _; exact hf h
      _ = ids.filter p := by simp
  rw [this]; exact hs.filter p

/-- **C05_order (per token).** For a text / comment / doctype / start-tag token the handlers run
in strictly increasing registration index — registration order, and since selector entries have
indices `< n` and document-level entries `≥ n`, selector-scoped before document-level; in
particular nobody runs twice for one token. -/
theorem C05_order (sels : List SelReg) (docs : List DocReg) (sp : List OpenElem) (ord : Nat)
    (ev : Event) (hne : ∀ name, ev ≠ .endTag name) :
    ((expected sels docs sp ord ev).map hidOf).Pairwise (· < ·) := by
  cases ev with
  | endTag name => exact absurd rfl (hne name)
  | text => exact pairwise_filter_map _ _ _ (fun _ => rfl) (ids_append_pairwise _ _ _ _)
  | comment => exact pairwise_filter_map _ _ _ (fun _ => rfl) (ids_append_pairwise _ _ _ _)
  | doctype =>
    have := pairwise_filter_map (doctypeIds sels docs) (fun _ => true)
      (fun h => .token .doctype h ord) (fun _ => rfl) (idsFrom_pairwise _ _ _)
    have hf : (doctypeIds sels docs).filter (fun _ => true) = doctypeIds sels docs :=
      List.filter_eq_self.2 (fun _ _ => rfl)
    rw [hf] at this
    exact this
  | startTag name dir sc matched =>
    exact pairwise_filter_map _ _ _ (fun _ => rfl) (idsFrom_pairwise _ _ _)

/-- **C05_order (document order).** Every invocation logged for event number `ord` carries `ord`:
the log of `runDoc` is ordered by event. -/
theorem C05_order_ord (sels : List SelReg) (docs : List DocReg) (sp : List OpenElem) (ord : Nat)
    (ev : Event) : ∀ x ∈ expected sels docs sp ord ev, ordOf x = ord := by
  intro x hx
  cases ev with
  | endTag name =>
    simp only [expected] at hx
    cases hs : splitLast (fun e => decide (e.name = name)) sp with
    | none => rw [hs] at hx; simp at hx
    | some r =>
      rw [hs] at hx
      simp only [List.mem_flatMap, List.mem_map] at hx
      obtain ⟨e, _, p, _, rfl⟩ := hx; rfl
  | text => simp only [expected, List.mem_map] at hx; obtain ⟨h, _, rfl⟩ := hx; rfl
  | comment => simp only [expected, List.mem_map] at hx; obtain ⟨h, _, rfl⟩ := hx; rfl
  | doctype => simp only [expected, List.mem_map] at hx; obtain ⟨h, _, rfl⟩ := hx; rfl
  | startTag name dir sc matched =>
    simp only [expected, List.mem_map] at hx; obtain ⟨h, _, rfl⟩ := hx; rfl

/-- **C05_order (end).** No `end` handler runs before the end of input; at the end every `end`
handler runs exactly once (`runDoc`'s log ends with `expectedEnd`, see `C05_refines`), last
registered first. -/
theorem C05_end_once (script : ElemScript) (sels : List SelReg) (docs : List DocReg)
    (evs : List Event) (sp : List OpenElem) (ord : Nat) :
    (∀ x ∈ log script sels docs sp ord evs, ∀ h o, x ≠ .token .end_ h o) ∧
    (expectedEnd sels docs evs.length).map hidOf = (endIds sels docs).reverse ∧
    (endIds sels docs).Nodup := by
  refine ⟨?_, ?_, pairwise_lt_nodup _ (idsFrom_pairwise _ _ _)⟩
  · induction evs generalizing sp ord with
    | nil => simp [log]
    | cons ev es ih =>
      intro x hx h o
      simp only [log, List.mem_append] at hx
      rcases hx with hx | hx
      · cases ev with
        | endTag name =>
          simp only [expected] at hx
          cases hs : splitLast (fun e => decide (e.name = name)) sp with
          | none => rw [hs] at hx; simp at hx
          | some r =>
            rw [hs] at hx
            simp only [List.mem_flatMap, List.mem_map] at hx
            obtain ⟨e, _, p, _, rfl⟩ := hx; intro h'; cases h'
        | text =>
          simp only [expected, List.mem_map] at hx; obtain ⟨h', _, rfl⟩ := hx; intro h''; cases h''
        | comment =>
          simp only [expected, List.mem_map] at hx; obtain ⟨h', _, rfl⟩ := hx; intro h''; cases h''
        | doctype =>
          simp only [expected, List.mem_map] at hx; obtain ⟨h', _, rfl⟩ := hx; intro h''; cases h''
        | startTag name dir sc matched =>
          simp only [expected, List.mem_map] at hx; obtain ⟨h', _, rfl⟩ := hx; intro h''; cases h''
      · exact ih _ _ x hx h o
  · simp [expectedEnd, List.map_map, Function.comp_def, hidOf]

/-! ## C05_end_tag_once -/

/-- **C05_end_tag_once (where).** An end-tag closure runs only at an `EndTag` event, and then it
belongs to one of the elements that this end tag closes: the innermost open element with that name
(`first`) or an element opened inside it (`inner`); elements outside are untouched (`kept`). -/
theorem C05_end_tag_where (sels : List SelReg) (docs : List DocReg) (sp : List OpenElem) (ord : Nat)
    (ev : Event) (h k so o : Nat) (hx : Invocation.endTag h k so o ∈ expected sels docs sp ord ev) :
    ∃ name kept first inner, ev = .endTag name ∧ sp = kept ++ first :: inner ∧
      first.name = name ∧ (∀ e ∈ inner, e.name ≠ name) ∧
      ∃ e ∈ first :: inner, so = e.ord ∧ (h, k) ∈ e.subs ∧ o = ord := by
  have hk : (h, k, so) ∈ (expected sels docs sp ord ev).filterMap etKey :=
    List.mem_filterMap.2 ⟨_, hx, rfl⟩
  obtain ⟨name, kept, closed, rfl, hs, hkc⟩ := expected_keys sels docs sp ord ev _ hk
  obtain ⟨hsp, first, inner, rfl, hfirst, hinner⟩ := (splitLast_some_iff _ _ _ _).1 hs
  obtain ⟨e, he, h1, h2⟩ := closedInv_keys _ ord _ hkc
  refine ⟨name, kept, first, inner, rfl, hsp, by simpa using hfirst, ?_, e, he, h1, h2, ?_⟩
  · intro e' he'; simpa using hinner e' he'
  · exact C05_order_ord sels docs sp ord _ _ hx

/-- **C05_end_tag_once (all and in order).** At an end tag that closes elements, the closures of all
closed elements run, innermost element first, within one element in registration order. -/
theorem C05_end_tag_all (sels : List SelReg) (docs : List DocReg) (sp kept closed : List OpenElem)
    (ord : Nat) (name : Name)
    (hs : splitLast (fun e => decide (e.name = name)) sp = some (kept, closed)) :
    expected sels docs sp ord (.endTag name) =
      closed.reverse.flatMap fun e => e.subs.map fun (p : HId × Nat) => .endTag p.1 p.2 e.ord ord := by
  simp [expected, hs]

/-- **C05_end_tag_once (at most once).** In the log of a whole document no end-tag closure —
identified by (registering element handler, k-th closure of that invocation, start-tag ordinal) —
occurs twice. -/
theorem C05_end_tag_once (script : ElemScript) (sels : List SelReg) (docs : List DocReg)
    (evs : List Event) :
    ((log script sels docs [] 0 evs ++ expectedEnd sels docs evs.length).filterMap etKey).Nodup := by
  have := (log_keys script sels docs evs [] 0 ⟨by simp, by simp, by simp⟩).1
  simpa [List.filterMap_append, expectedEnd, List.filterMap_map, Function.comp_def, etKey,
    filterMap_none] using this

/-- Generalisation used for `C05_open_only`. -/
theorem openStack_origin (script : ElemScript) (sels : List SelReg) (evs : List Event) :
    ∀ (sp : List OpenElem) (ord : Nat), ∀ e ∈ openStack script sels sp ord evs,
      e ∈ sp ∨ ∃ j name dir sc matched, evs[j]? = some (.startTag name dir sc matched) ∧
        withContentOf dir sc = true ∧ e = mkOpen script sels name matched (ord + j) := by
  induction evs with
  | nil => intro sp ord e he; exact Or.inl he
  | cons ev es ih =>
    intro sp ord e he
    simp only [openStack] at he
    rcases ih _ _ e he with h | ⟨j, name, dir, sc, matched, h1, h2, h3⟩
    · cases ev with
      | startTag name dir sc matched =>
        simp only [openStep] at h
        by_cases hwc : withContentOf dir sc = true
        · simp only [hwc, if_true, List.mem_append, List.mem_singleton] at h
          rcases h with h | h
          · exact Or.inl h
          · exact Or.inr ⟨0, name, dir, sc, matched, rfl, hwc, by simpa using h⟩
        · simp only [hwc] at h; exact Or.inl h
      | endTag name =>
        simp only [openStep] at h
        cases hs : splitLast (fun e => decide (e.name = name)) sp with
        | none => rw [hs] at h; exact Or.inl h
        | some r =>
          obtain ⟨kept, closed⟩ := r
          rw [hs] at h
          left; rw [splitLast_append _ _ _ _ hs]; simp [h]
      | text => exact Or.inl h
      | comment => exact Or.inl h
      | doctype => exact Or.inl h
    · exact Or.inr ⟨j + 1, name, dir, sc, matched, by simpa using h1, h2, by rw [h3]; congr 1; omega⟩

/-- **C05_end_tag_once (never for void / self-closed).** Every open element — hence every element
whose end-tag closures can ever run — stems from a start tag that can have content
(`withContentOf` is false for void HTML elements and for self-closed foreign elements), and its
closures are exactly those its element handlers registered on that start tag. -/
theorem C05_open_only (script : ElemScript) (sels : List SelReg) (evs : List Event) :
    ∀ e ∈ openStack script sels [] 0 evs, ∃ name dir sc matched,
      evs[e.ord]? = some (.startTag name dir sc matched) ∧ withContentOf dir sc = true ∧
      e = mkOpen script sels name matched e.ord := by
  intro e he
  rcases openStack_origin script sels evs [] 0 e he with h | ⟨j, name, dir, sc, matched, h1, h2, h3⟩
  · simp at h
  · have : e.ord = j := by rw [h3]; simp [mkOpen]
    exact ⟨name, dir, sc, matched, by rw [this]; exact h1, h2, by rw [this]; simpa using h3⟩

/-- An `EndTag` token that reaches the dispatcher while no end-tag handler is active (this is what
`handle_end_tag_hint`, `dispatcher.rs:533`, requests to stop content removal) changes nothing and
invokes nobody — which is why the model need not represent that extra `NEXT_END_TAG` request. -/
theorem C05_idle_end_tag_token (d : Dispatcher) (items : List (Item EndTagH)) (ord : Nat)
    (h : d.endTag = mk items) (hz : ∀ it ∈ items, it.userCount = 0) :
    d.handleEndTagToken ord = .ok (d, []) := by
  have := removeTail_split items [] hz (by simp)
  simp only [List.append_nil, List.reverse_nil, List.map_nil] at this
  simp only [Dispatcher.handleEndTagToken, h, this, List.flatMap_nil]
  cases d; simp_all

/-! ## Non-vacuity -/

section Examples

/-- `div` = [100,105,118], `b` = [98]. -/
def exSels : List SelReg := [⟨true, true, true⟩, ⟨false, false, true⟩]
def exDocs : List DocReg := [⟨true, true, true, true⟩, ⟨false, false, false, true⟩]
/-- Every element handler registers one end-tag closure and removes the content on event 0. -/
def exScript : ElemScript := fun _ ord => ⟨1, ord == 0, false⟩
/-- `<div>` (sel 0) `t` `<b>` (sel 1) `t` `<br>` (void, sel 0) `</div>` `t` `<!---->` `<!DOCTYPE>`. -/
def exEvs : List Event :=
  [.startTag [100, 105, 118] .push false [0], .text, .startTag [98] .push false [1], .text,
   .startTag [98, 114] .popImmediately false [0], .endTag [100, 105, 118], .text, .comment, .doctype]

theorem exWf : WfEvents exSels.length exEvs := by
  intro e he
  simp only [exEvs, List.mem_cons, List.not_mem_nil, or_false] at he
  rcases he with rfl | rfl | rfl | rfl | rfl | rfl | rfl | rfl | rfl <;> simp [WfEvent, exSels]

/-- The hypotheses of all theorems hold on a non-trivial instance, and the log is what one expects:
element handler 0 on `<div>`; text to 0 and doc 2 inside `<div>`; to 0, 1, 2 inside `<b>`; element
handler 0 on the void `<br>` (its `on_end_tag` is refused); the `</div>` closes `<b>` and `<div>` and
runs the closure registered at event 0 once; afterwards only document-level handlers; both `end`
handlers, last registered first. -/
example : (runDoc exScript exSels exDocs exEvs).toOption.map (·.2) =
    some [.token .element 0 0, .token .text 0 1, .token .text 2 1, .token .text 0 3,
          .token .text 1 3, .token .text 2 3, .token .element 0 4, .endTag 0 0 0 5,
          .token .text 2 6, .token .comment 2 7, .token .doctype 2 8,
          .token .end_ 3 9, .token .end_ 2 9] := by decide

example : ∃ s, runDoc exScript exSels exDocs exEvs =
    .ok (s, log exScript exSels exDocs [] 0 exEvs ++ expectedEnd exSels exDocs exEvs.length) :=
  C05_refines _ _ _ _ exWf

/-- Two open elements after the first four events; selector 0's text handler has count 1. -/
example : (openStack exScript exSels [] 0 (exEvs.take 4)).map (·.ord) = [0, 2] := by decide
example : openCount (openStack exScript exSels [] 0 (exEvs.take 4)) 0 = 1 := by decide
/-- … and the removed-content counter is 1 (the `<div>` handler asked for removal). -/
example : (openStack exScript exSels [] 0 (exEvs.take 4)).countP (·.removed) = 1 := by decide

/-- The hypothesis `WfEvents` matters: an id that no selector has makes `start_matching` hit its
`debug_assert!(false)` branch. -/
example : (match runDoc exScript exSels exDocs [.startTag [98] .push false [7]] with
    | .error .badMatchId => true
    | _ => false) = true := by decide

end Examples

end LolHtml.Thm.C05
