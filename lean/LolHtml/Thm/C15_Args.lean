import LolHtml.Lemmas.LexOnlyEArgs
import LolHtml.Thm.C15_Core
import LolHtml.Gen.Tags
/-!
# C15 — the ARGUMENTS the lexer passes to its sink are valid, whatever the sink answers

`C15_no_panic` bundles "the lexemes are valid" with "the sink does not fail at a covered site" for clean
controllers. Here the first half is separated out, for ARBITRARY sinks / controllers:

* `C15_parse_args_valid` — every table with `WfTable`, the token-part certificate `checkCert`, the raw-range
  certificate `checkRaw` (new: `Lemmas/RawDefs.lean`) and `EmitsChecked`; every sink, every input, every parser
  state with `PArgs`: `Parser.parse` over the sink guarded by `argGuard` IS `Parser.parse` over the sink.
  `argGuard` refuses a tag lexeme unless `TagArgsOK`: raw range, tag-name range, attribute name / value ranges
  inside the input (`TagValid`; pkg-full's `AttrsInInput`) and attribute RAW ranges inside the lexeme's raw
  range (`AttrsRawOK`; pkg-full's `AttrsRawIn`); a non-tag lexeme unless `NTLexValid`.
* `C15_args_valid_run` — stream / rewriter level, any controller, any chunking.
* `LexE.parse_lexE_args` / `LexE.run_lexEA` (`Lemmas/LexOnlyEArgs.lean`) — the until-first-error lifting of
  `Lemmas/LexOnlyE.lean` with the per-operation comparison of the two sinks asked for VALID lexemes only.

The only hypothesis about the sink is `ArgsFresh s ops inp Dk`: on sink states with an invariant `Dk` (which its
successful operations keep; `fun _ => True` for "all states") it does not itself report one of the guard's two errors
(`.panic s` for a chosen token-part site `s ≠ rawSite`, `.panic rawSite`; both can be taken among the dispatcher's own
slice checks) on a lexeme the guard lets through. (Without it "guarded = real" is still true but the guard's refusal
could not be told from the sink's own answer. `Dk` is there because the real controller of pkg-full can return ANY panic
string from states no run reaches — its `fault` field.)
-/
namespace LolHtml.Thm.C15
open LolHtml LolHtml.Model
open LolHtml.Thm.C01 (writeAll run Rewriter.new)

variable {γ : Type}

/-! ### the side-conditions hold of the generated table -/

theorem C15_raw_gen : checkRaw Gen.Syntax.table (computeRaw Gen.Syntax.table) = true := by decide +kernel

theorem C15_raw_gen_witness : checkRawWitness Gen.Syntax.table (computeRaw Gen.Syntax.table) = [] := by decide +kernel

theorem C15_emitsChecked_gen : EmitsChecked Gen.Syntax.table = true := by decide +kernel

theorem C15_argsTable_gen :
    ArgsTable Gen.Syntax.table (computeCert Gen.Syntax.table) (computeRaw Gen.Syntax.table) :=
  ⟨WfTable.wf C15_gen, C15_cert_gen, C15_raw_gen, C15_emitsChecked_gen⟩

/-- what the raw-range certificate says about the attribute states of the generated table: in
`attribute_name_state` the current attribute is not yet named, from `after_attribute_name_state` on it is; the
attributes already pushed are always good -/
example : (computeRaw Gen.Syntax.table).at 34 = [⟨false, true, true⟩] ∧ (computeRaw Gen.Syntax.table).at 35 = [⟨true, true, true⟩] ∧
    (computeRaw Gen.Syntax.table).at 39 = [⟨true, true, true⟩] := by decide +kernel

/-! ### the theorems -/

/-- **C15_parse_args_valid.** -/
theorem C15_parse_args_valid {κ : Type} (tbl : Table) (cfg : TagCfg) (ops : SinkOps κ) (hwf : WfTable tbl = true)
    (hcert : checkCert tbl (computeCert tbl) = true) (hraw : checkRaw tbl (computeRaw tbl) = true)
    (hemit : EmitsChecked tbl = true) (s : String) (hs : T2 s) (hne : s ≠ rawSite) (inp : Bytes) (Dk : κ → Prop)
    (hf : ArgsFresh s ops inp Dk) (last : Bool) (p : Parser κ)
    (hp : PArgs tbl (computeCert tbl) (computeRaw tbl) inp.length p) (hDk : Dk p.x.sink) :
    Parser.parse ⟨tbl, cfg, guardArgs (argGuard s) ops⟩ inp last p = Parser.parse ⟨tbl, cfg, ops⟩ inp last p ∧
    (Parser.parse ⟨tbl, cfg, ops⟩ inp last p).2 ≠ .error (.panic s) ∧
    (Parser.parse ⟨tbl, cfg, ops⟩ inp last p).2 ≠ .error (.panic rawSite) ∧
    (∀ k, (Parser.parse ⟨tbl, cfg, ops⟩ inp last p).2 = .ok k →
      k ≤ inp.length ∧ Dk (Parser.parse ⟨tbl, cfg, ops⟩ inp last p).1.x.sink ∧
      (last = false → PArgs tbl (computeCert tbl) (computeRaw tbl) (inp.length - k) (Parser.parse ⟨tbl, cfg, ops⟩ inp last p).1)) :=
  parse_args_valid (WfTable.wf hwf) hcert hraw hemit hs hne hf last p hp hDk

/-- a new parser has the invariants, whatever the slice -/
theorem C15_new_pargs {κ : Type} (tbl : Table) (hwf : WfTable tbl = true) (hcert : checkCert tbl (computeCert tbl) = true)
    (hraw : checkRaw tbl (computeRaw tbl) = true) (sink : κ) (d : Directive) (strict : Bool) (L : Nat) :
    PArgs tbl (computeCert tbl) (computeRaw tbl) L (Parser.new tbl sink d strict) :=
  ⟨PInv_new tbl (WfTable.wf hwf) _ _ _ _ rfl, PTok_new tbl _ hcert _ _ _, PRaw_new tbl _ hraw _ _ _⟩

/-- **C15_args_valid_run.** In every run `write*` of the rewriter — any table with the side-conditions, ANY
controller, any settings and chunking — for every prefix that left the rewriter usable: the `Parser.parse` call of
the next `write` (whatever chunk comes next) and of the final `end` IS the call over the guarded dispatcher and
returns neither of the guard's errors. -/
theorem C15_args_valid_run (w : World γ) (hwf : WfTable w.tbl = true)
    (hcert : checkCert w.tbl (computeCert w.tbl) = true) (hraw : checkRaw w.tbl (computeRaw w.tbl) = true)
    (hemit : EmitsChecked w.tbl = true) (s0 : String) (hs0 : T2 s0) (hne : s0 ≠ rawSite) (Dk : Disp γ → Prop)
    (hf : ArgsCtl w s0 Dk) (g : γ) (cfg : Settings) (hD : Dk (Disp.new w.ctl g cfg.encoding)) (pre : List Bytes)
    (hu : (writeAll w (Rewriter.new w g cfg) pre).1.poisoned = false) :
    (∀ data s1 chunk, (writeAll w (Rewriter.new w g cfg) pre).1.stream.chunkFor w data = .inr (s1, chunk) →
      ParseArgsOK w s0 chunk false s1.parser) ∧
    ParseArgsOK w s0 (if (writeAll w (Rewriter.new w g cfg) pre).1.stream.hasBuffered
        then (writeAll w (Rewriter.new w g cfg) pre).1.stream.buf.data else []) true
      (writeAll w (Rewriter.new w g cfg) pre).1.stream.parser :=
  args_valid_run ⟨WfTable.wf hwf, hcert, hraw, hemit⟩ hs0 hne hf g cfg hD pre hu

/-! ### what the two lexeme predicates give (the facts pkg-full's glue sites need) -/

/-- `TagArgsOK` ⇒ the attribute name / value ranges are slices of the input (`AttrsInInput`) -/
theorem TagArgsOK.attrs_in_input {inp : Bytes} {pc : Nat} {raw n : Range} {h : Nat} {ns : Ns} {as : List AttrOutline}
    {sc : Bool} (hv : TagArgsOK inp ⟨pc, raw, .startTag n h ns as sc⟩) :
    ∀ a ∈ as, (a.name.start ≤ a.name.end ∧ a.name.end ≤ inp.length) ∧ (a.value.start ≤ a.value.end ∧ a.value.end ≤ inp.length) :=
  fun a ha => hv.1.2.2 a ha

/-- `TagArgsOK` ⇒ the attribute raw ranges lie inside the lexeme's raw range (`AttrsRawIn`), which is a slice of
the input -/
theorem TagArgsOK.attrs_raw_in {inp : Bytes} {pc : Nat} {raw n : Range} {h : Nat} {ns : Ns} {as : List AttrOutline}
    {sc : Bool} (hv : TagArgsOK inp ⟨pc, raw, .startTag n h ns as sc⟩) :
    (raw.start ≤ raw.end ∧ raw.end ≤ inp.length) ∧
    ∀ a ∈ as, raw.start ≤ a.raw.start ∧ a.raw.start ≤ a.raw.end ∧ a.raw.end ≤ raw.end :=
  ⟨hv.1.1, fun a ha => hv.2 a ha⟩

/-! ### the raw-range checker is not vacuous -/

/-- `attribute_name_state`: `finish_attr_name` dropped from the `/` arm — `finish_attr` pushes an attribute whose raw
range is still the default `0..0`. The token-part certificate does not see it (name and value `0..0` are slices of
the input); the raw-range checker rejects the table, pointing at the state where such a tag can be emitted. -/
def mutNoName : Table := mutate 34 fun sd => { sd with arms := sd.arms.map fun a =>
  match a.pat with
  | .byte 47 => ⟨.byte 47, .seq ⟨[⟨.finishAttr, false⟩], some (.goto 32)⟩⟩
  | _ => a }

set_option maxRecDepth 100000 in
example : WfTable mutNoName = true ∧ checkCert mutNoName (computeCert mutNoName) = true ∧
    checkRaw mutNoName (computeRaw mutNoName) = false ∧
    checkRawWitness mutNoName (computeRaw mutNoName) = [("self_closing_start_tag_state", 1)] := by decide +kernel

/-- a sink that accepts everything -/
def okOps : SinkOps Unit :=
  ⟨fun _ _ k => (k, .ok .lex), fun _ _ k => (k, .ok ()), fun _ _ k => (k, .ok .lex), fun _ k => (k, .ok .lex)⟩

def errOf {α : Type} : Except Err α → Option Err
  | .error e => some e
  | .ok _ => none

/-- … and the mutated table really hands over a bad lexeme: on `x<a b/>` the guard fires (the tag lexeme starts at
1, its attribute's raw range is `0..0`); with the real table the same input parses -/
example :
    errOf (Parser.parse ⟨mutNoName, Gen.Tags.cfg, guardArgs (argGuard "leave_ns: namespace stack empty") okOps⟩
      [120,60,97,32,98,47,62] true (Parser.new mutNoName () .lex false)).2 = some (.panic rawSite) ∧
    (Parser.parse ⟨Gen.Syntax.table, Gen.Tags.cfg, guardArgs (argGuard "leave_ns: namespace stack empty") okOps⟩
      [120,60,97,32,98,47,62] true (Parser.new Gen.Syntax.table () .lex false)).2.toOption = some 7 := by decide +kernel

end LolHtml.Thm.C15
