import LolHtml.Thm.FullHintDefs
import LolHtml.Lemmas.HintCtl
import LolHtml.Thm.C06_EndTag
/-!
# Package `full`, part 9 — `Full_no_panic_partial3`: the reduction in the world with the ghost hint kind

`Full_no_panic_statement` from
* `Full_scan_opsH_statement Inv` (operations; Thm/FullHintDefs.lean) and
* `Full_clean_kindH_statement` (runs of the CLEANED controller with the ghost: the kind guard never fires),
for any `Inv`. Ingredients: `run_hint` (the ghost is free, Lemmas/CtlHom.lean / HintCtl.lean), `RelI.run_relG`
(Lemmas/RunRelClean.lean), `guardFree2_withArgs` + `argsCtl_of_clean` (the argument guard never fires),
`C15_no_panic_full_gen` for the cleaned controller with the ghost (it is `CtlClean` in every state).
-/
set_option linter.unusedSimpArgs false
set_option linter.unusedVariables false
namespace LolHtml.Thm.Full
open LolHtml LolHtml.Model LolHtml.Model.Full LolHtml.Lemmas.Full
open LolHtml.Thm.C01 (run writeAll Rewriter.new)
open LolHtml.Model.RelI LolHtml.Model.Hint

/-- the whole model over the cleaned real controller with the ghost -/
def cleanWorldH (cfg : Cfg) : World (FullStH cfg) := Chunk.R.World.withCtl (genWorldH cfg) (cleanCtlH cfg)

theorem cleanCtlH_clean (cfg : Cfg) : CtlClean (cleanCtlH cfg) :=
  hintCtl_clean (Chunk.R.cleanCtl_clean (fullCtl cfg))

/-- **named hypothesis 2 (runs of the cleaned controller, with the ghost)**: the kind guard never fires — after every
usable prefix, for the next `write` (any chunk) and for `end`, the parse over the dispatcher guarded by `kindGuard` is the
unguarded parse and returns neither `.panic startSite` nor `.panic guardSite` -/
def Full_clean_kindH_statement : Prop :=
  ∀ (cfg : Cfg) (settings : Settings), GuardFree2 (cleanWorldH cfg) kindGuard (FullSt.init cfg, none) settings

theorem kindGuard_kfresh (inp : Bytes) {γ : Type} : KFresh argSite (kindGuard (γ := γ)) inp := by
  constructor
  · intro lx k e he
    rcases kindGuard_fires (Or.inl ⟨inp, lx, k, he⟩) with rfl | rfl
    · exact ⟨by simp [startSite, argSite], by simp [startSite, rawSite]⟩
    · exact ⟨by simp [guardSite, argSite], by simp [guardSite, rawSite]⟩
  · intro lx k e he; cases he

/-- **Full_no_panic_partial3.** -/
theorem Full_no_panic_partial3 (Inv : ∀ cfg, Disp (FullStH cfg) → Prop) (h1 : Full_scan_opsH_statement Inv)
    (h2 : Full_clean_kindH_statement) : Full_no_panic_statement := by
  intro cfg settings chunks x hx
  obtain ⟨hI, hL⟩ := h1 cfg
  -- the ghost is free
  have hx' : x ∈ (run (genWorldH cfg) (Rewriter.new (genWorldH cfg) (FullSt.init cfg, none) settings) chunks).2 := by
    have := run_hint (genWorld cfg) C03.C03_emitsChecked_gen (FullSt.init cfg) none settings chunks
    unfold genWorldH
    rw [this]
    exact hx
  have ht : ArgsTable (cleanWorldH cfg).tbl (computeCert Gen.Syntax.table) (computeRaw Gen.Syntax.table) := C15.C15_argsTable_gen
  have hgf : GuardFree2 (cleanWorldH cfg) (withArgs argSite kindGuard) (FullSt.init cfg, none) settings :=
    guardFree2_withArgs (Dk := fun _ => True) ht argSite_T2 argSite_ne
      (argsCtl_of_clean (w := cleanWorldH cfg) (cleanCtlH_clean cfg) argSite_T2)
      (FullSt.init cfg, none) settings trivial (fun inp => kindGuard_kfresh inp) (h2 cfg settings)
  have hpan : ∀ e, (withArgs argSite (kindGuard (γ := FullSt cfg))).Fires e → ∃ s, e = .panic s := by
    intro e hF
    rcases withArgs_fires hF with rfl | rfl | hFK
    · exact ⟨_, rfl⟩
    · exact ⟨_, rfl⟩
    · rcases kindGuard_fires hFK with rfl | rfl <;> exact ⟨_, rfl⟩
  have hemit : EmitsChecked (genWorldH cfg).tbl = true := C03.C03_emitsChecked_gen
  rcases run_relG hL hemit hpan (FullSt.init cfg, none) settings (hI settings.encoding) hgf chunks x hx'
    with k | k | ⟨e', ⟨e, hG, hee⟩, hxe⟩
  · exact C15.C15_no_panic_full_gen (cleanWorldH cfg) rfl (cleanCtlH_clean cfg) (FullSt.init cfg, none) settings chunks x k
  · rw [k]; trivial
  · rw [hxe]
    rcases hee with rfl | rfl
    · exact hG
    · rw [hG.parseErr]; exact hG

/-- bridge to package scan (for hypothesis 2, E half): the dispatcher guarded by `kindGuardE` is package scan's
`guardOps … PendE`, so `C06_relex_end_tag` applies to it once `EndLawsD` is shown for `PendE` -/
theorem guardS_kindGuardE_eq {γ : Type} (ops : SinkOps (Disp (γ × Option Bool))) :
    guardS kindGuardE ops = LolHtml.Thm.C06.guardOps ops PendE := by
  unfold guardS kindGuardE LolHtml.Thm.C06.guardOps
  congr 1
  funext inp lx d
  dsimp only
  by_cases hc : (PendE d && lx.outline.isStart) = true
  · simp only [hc, if_true]
  · simp only [hc, if_false, Bool.false_eq_true]

end LolHtml.Thm.Full
