import LolHtml.Lemmas.StreamTiling
import LolHtml.Gen.Syntax
import LolHtml.Gen.Tags
/-!
# C01 — pass-through identity

For every tokenizer table, every tag configuration, every settings record, every observing
controller (arbitrary capture-flag decisions at every tag, i.e. arbitrary switching between the
tag scanner and the lexer), every byte string and every split of it into `write` calls (empty
writes included): if all calls succeed, the bytes received by the sink are exactly the bytes written.

What is proved about the *model* (`LolHtml.Model.Stream`, tied to the code by lane `lex`):
the statement holds for every run in which no call returned an error. Runs that hit one of the
model's explicit panic branches (`Err.panic`, i.e. a Rust debug assertion / clamped slice) are not
successful runs; that such branches are unreachable is the business of C15.
-/
namespace LolHtml.Thm.C01
open LolHtml LolHtml.Model

variable {γ : Type}

def Rewriter.new (w : World γ) (g : γ) (cfg : Settings) : Rewriter γ := { stream := Stream.new w g cfg }

/-- `write` every chunk in order (a poisoned rewriter answers with the documented panic). -/
def writeAll (w : World γ) : Rewriter γ → List Bytes → Rewriter γ × List CallRes
  | r, [] => (r, [])
  | r, c :: cs =>
    let r1 := r.write w c
    let rest := writeAll w r1.1 cs
    (rest.1, r1.2 :: rest.2)

/-- `write* ; end` -/
def run (w : World γ) (r : Rewriter γ) (chunks : List Bytes) : Rewriter γ × List CallRes :=
  let r1 := writeAll w r chunks
  let r2 := r1.1.end w
  (r2.1, r1.2 ++ [r2.2])

/-- invariant between successful calls -/
def Good (r : Rewriter γ) (written : Bytes) : Prop :=
  r.poisoned = false ∧ r.stream.Idle ∧ r.stream.emitted ++ r.stream.pending = written

theorem new_good (w : World γ) (g : γ) (cfg : Settings) : Good (Rewriter.new w g cfg) [] := by
  refine ⟨rfl, ⟨rfl, rfl⟩, ?_⟩
  simp [Rewriter.new, Stream.new, Stream.emitted, Stream.pending, Stream.disp, Parser.new, Disp.new, sinkBytes]

theorem write_good {w : World γ} (hobs : Observing w.ctl) (r : Rewriter γ) (written data : Bytes)
    (hg : Good r written) (hok : (r.write w data).2 = .ok) : Good (r.write w data).1 (written ++ data) := by
  obtain ⟨hp, hi, he⟩ := hg
  unfold Model.Rewriter.write at *
  simp only [hp, Bool.false_eq_true, if_false] at hok ⊢
  cases hres : (r.stream.write w data).2 with
  | error e => simp [hres] at hok
  | ok u =>
    obtain ⟨h1, h2⟩ := Stream.write_ok hobs r.stream data hi hres
    exact ⟨by simp [hp], h1, by rw [h2, he]⟩

/-- every successful prefix of writes keeps `emitted ++ pending = bytes written so far` -/
theorem writeAll_good {w : World γ} (hobs : Observing w.ctl) (chunks : List Bytes) (r : Rewriter γ)
    (written : Bytes) (hg : Good r written) (hok : ∀ x ∈ (writeAll w r chunks).2, x = CallRes.ok) :
    Good (writeAll w r chunks).1 (written ++ chunks.flatten) := by
  induction chunks generalizing r written with
  | nil => simpa [writeAll] using hg
  | cons c cs ih =>
    simp only [writeAll, List.mem_cons, forall_eq_or_imp] at hok ⊢
    have h1 := write_good hobs r written c hg hok.1
    have := ih (r.write w c).1 (written ++ c) h1 hok.2
    simpa [List.append_assoc] using this

/-- **C01_passthrough.** -/
theorem C01_passthrough (w : World γ) (hobs : ObservingAll w.ctl) (g : γ) (cfg : Settings)
    (chunks : List Bytes) (hok : ∀ x ∈ (run w (Rewriter.new w g cfg) chunks).2, x = CallRes.ok) :
    sinkBytes (run w (Rewriter.new w g cfg) chunks).1.sink = chunks.flatten := by
  unfold run at *
  simp only [List.mem_append, List.mem_singleton] at hok
  have hw := writeAll_good hobs.toObserving chunks (Rewriter.new w g cfg) [] (new_good w g cfg)
    (fun x hx => hok x (Or.inl hx))
  obtain ⟨hp, hi, he⟩ := hw
  have hend := hok _ (Or.inr rfl)
  unfold Model.Rewriter.end at *
  simp only [hp, Bool.false_eq_true, if_false] at hend ⊢
  cases hres : ((writeAll w (Rewriter.new w g cfg) chunks).1.stream.end w).2 with
  | error e => simp [hres] at hend
  | ok u =>
    have := Stream.end_ok hobs _ hi hres
    simp only [Model.Rewriter.sink]
    simp only [Stream.emitted] at this he
    rw [this, he]; simp

/-- **C01_tiling_after_each_write.** After every successful `write`, what the sink has received plus
what the rewriter retains is exactly what has been written so far (re-used by C09, C10, C11). -/
theorem C01_tiling_after_each_write (w : World γ) (hobs : Observing w.ctl) (g : γ) (cfg : Settings)
    (chunks : List Bytes) (hok : ∀ x ∈ (writeAll w (Rewriter.new w g cfg) chunks).2, x = CallRes.ok) :
    let r := (writeAll w (Rewriter.new w g cfg) chunks).1
    sinkBytes r.sink ++ r.stream.pending = chunks.flatten := by
  have := writeAll_good hobs chunks (Rewriter.new w g cfg) [] (new_good w g cfg) hok
  simpa [Good, Stream.emitted, Model.Rewriter.sink] using this.2.2

/-! ### Instantiation at the code's current table, and non-vacuity -/

/-- an observing controller with constant capture flags -/
def constCtl (flags : Nat) : Controller Unit :=
  { initialFlags := fun _ => Flags.ofNat flags
    startTag := fun _ _ _ => ((), .flags (Flags.ofNat flags))
    auxInfo := fun _ _ => ((), .ok (Flags.ofNat flags))
    endTag := fun _ _ => ((), Flags.ofNat flags)
    token := fun _ t => ((), { chunks := [t.raw] })
    shouldEmit := fun _ => true
    handleEnd := fun _ => ((), [], none)
    bailOut := fun _ _ => ((), []) }

theorem constCtl_observing (f : Nat) : ObservingAll (constCtl f) where
  token_raw := by intro g t _; simp [constCtl]
  token_err := by intro g t e h; simp [constCtl] at h
  shouldEmit := by intro g; rfl
  handleEnd_empty := by intro g; rfl

/-- the world the driver runs: tables regenerated from /repo -/
def genWorld (f : Nat) : World Unit := ⟨Gen.Syntax.table, Gen.Tags.cfg, constCtl f⟩

/-- C01 for the generated table, full lexing and pure tag scanning alike. -/
theorem C01_passthrough_gen (f : Nat) (cfg : Settings) (chunks : List Bytes)
    (hok : ∀ x ∈ (run (genWorld f) (Rewriter.new (genWorld f) () cfg) chunks).2, x = CallRes.ok) :
    sinkBytes (run (genWorld f) (Rewriter.new (genWorld f) () cfg) chunks).1.sink = chunks.flatten :=
  C01_passthrough (genWorld f) (constCtl_observing f) () cfg chunks hok

/-- `<div a=b>x<!--c--></div>` split in three, all tokens captured: every call succeeds (so the
hypothesis of the theorem is satisfiable on a non-trivial run) and the output is the input. -/
def sampleChunks : List Bytes :=
  [[60,100,105,118,32,97,61], [98,62,120,60,33,45,45,99,45], [45,62,60,47,100,105,118,62]]

example : (run (genWorld 31) (Rewriter.new (genWorld 31) () {}) sampleChunks).2 = [.ok, .ok, .ok, .ok] := by
  decide +kernel

example : sinkBytes (run (genWorld 31) (Rewriter.new (genWorld 31) () {}) sampleChunks).1.sink
    = sampleChunks.flatten := by decide +kernel

end LolHtml.Thm.C01
