/-
# Package `full`, part 18 — selector matching END-TO-END on raw bytes (C04_real; first rung of C05_real)

Lexer-mode configurations (`LexCfg cfg`: a document-level text / comment / doctype handler keeps the parser in
the lexer), ANY scripts (mutating and failing ones included), every settings record, input and chunking.

* **G1 `Full_events_writes` / `Full_events_end`** — the controller state the byte-level run
  (`Rewriter.new ; write* [; end's last parse]`) is in is REACHED from `St.init cfg` by a list of protocol
  events (`Lemmas/FullReach.lean`: `stepsB`, tag events = `ctlStep` of Model/FullEvents.lean, token steps =
  `tokIf b`), every tag event well-kinded with sliceable attributes; and the run invariant `J2` holds of it.
  `ctlEventsOf` names that list (`ctlEventsOf_spec`).
* **G2 `C04_real`** — along that list the selector VM inside the controller ran `Vm.runAux` of package selvm on
  the extracted tag events from `Vm.new`, and the hits (selector index, start-tag ordinal) — per start tag the
  matches the controller hands to `start_matching` — are EXACTLY `Spec.Css.run` on the tree induced by the tag
  events (`C04_vm_refines_css`), for selector sets within `selsOk`. `C04_real_no_panic`: every selector set.
* **G3 first rung `C05_real_event`** — at every state reached by the byte-level run the invocations of the next
  protocol event are package scope's `Spec.Scope.expected` (`Full_event_C05`), hence `C05_scope_*`,
  `C05_order`, `C05_end_tag_*` apply to them.

Stated, not proved (`_statement` defs at the end): the `ctlSteps` form of G1 (needs the dispatcher's text /
comment / doctype flags = the controller's, a dispatcher-level invariant), scanner mode, chunk independence of
the hit set, the log-level form of C04 / C05.
-/
import LolHtml.Thm.Full5
import LolHtml.Lemmas.FullReach
import LolHtml.Thm.C04_VM

namespace LolHtml.Thm.Full
open LolHtml LolHtml.Model LolHtml.Model.Full LolHtml.Model.Handlers LolHtml.EditModel LolHtml.Lemmas.Full
open LolHtml.Lemmas.FullReach
open LolHtml.Thm.C01 (run writeAll Rewriter.new)

/-! ## G1 — the event list of a lexer-mode run -/

/-- the dispatcher-level invariant of lexer mode, with the event list -/
def KD3 (cfg : Cfg) (d : Disp (FullSt cfg)) : Prop := Idle d ∧ I3 cfg d.ctl.1

theorem KD3_new (cfg : Cfg) (enc : Nat) : KD3 cfg (Disp.new (fullCtl cfg) (FullSt.init cfg) enc) :=
  ⟨⟨rfl, rfl⟩, I3_init cfg⟩

theorem kd3_DO {cfg : Cfg} {d : Disp (FullSt cfg)} (h : KD3 cfg d) : Chunk.R.DO cfg d.ctl :=
  kd_DO ⟨h.1, h.2.1⟩

theorem fullCtl_lexE3 (cfg : Cfg) (hlex : LexCfg cfg) :
    LexE.CtlLexE (genWorld cfg) (Chunk.R.cleanCtl (fullCtl cfg)) (KD3 cfg) Glue where
  ops := fun inp => by
    have hsim := Chunk.R.fullCtl_sim_prov cfg
    constructor
    · intro lx d hd
      have hpost := handleTag_lexer_gen cfg (I3 cfg) _ _ (I3_evInv cfg) d hd.1 hd.2 inp lx
      rcases Chunk.R.handleTag_step hsim inp lx d (kd3_DO hd) with ⟨he, _⟩ | ⟨e, ⟨hG, hc⟩, he⟩
      · refine Or.inl ⟨he, fun a ha => ?_⟩
        obtain ⟨hi', hJ'⟩ := hpost.1 a ha
        refine ⟨⟨hi', hJ'⟩, ?_⟩
        exact LexE.handleTag_dir (fullCtl_stickySync cfg) d lx hd.1.1 hd.1.2 a ha (J_sticky cfg hlex _ hJ'.1.1)
      · exact Or.inr ⟨e, glue_of_cg hG hc (hpost.2 e he), he⟩
    · intro lx d hd
      have hpost := handleNonTag_lexer_gen cfg (I3 cfg) _ _ (I3_evInv cfg) d hd.1 hd.2 inp lx
      rcases Chunk.R.handleNonTag_step hsim inp lx d (kd3_DO hd) with ⟨he, _⟩ | ⟨e, ⟨hG, hc⟩, he⟩
      · exact Or.inl ⟨he, fun ha => hpost.1 () ha⟩
      · exact Or.inr ⟨e, glue_of_cg hG hc (hpost.2 e he), he⟩
  bail := rfl
  flush := fun d d' inp k hf hd => by
    obtain ⟨s1, s2, _⟩ := flushRemaining_same hf
    have hc := Chunk.R.flushRemaining_ctl hf
    exact ⟨⟨by rw [s1]; exact hd.1.1, by rw [s2]; exact hd.1.2⟩, by rw [hc]; exact hd.2⟩
  handleEnd := fun d hd => by
    have hsim := Chunk.R.fullCtl_sim_prov cfg
    rcases hsim.handleEnd d.ctl (kd3_DO hd) with ⟨he, _⟩ | ⟨e, ⟨hG, _⟩, he⟩
    · exact Or.inl he
    · have := Full_handleEnd_lexer cfg d.ctl hd.2.1.1 e he
      subst this
      rcases hG with ⟨m, hm, _⟩ | ⟨s, hs⟩
      · cases hm
      · cases hs
  initial := fun _ => rfl

theorem writeAll_ok_not_poisoned {γ : Type} (w : World γ) (cs : List Bytes) :
    ∀ (r : Rewriter γ), r.poisoned = false → (∀ x ∈ (writeAll w r cs).2, x = CallRes.ok) →
      (writeAll w r cs).1.poisoned = false := by
  induction cs with
  | nil => intro r hp _; exact hp
  | cons c cs ih =>
    intro r hp hok
    simp only [writeAll] at hok ⊢
    have h1 : (r.write w c).2 = .ok := hok _ List.mem_cons_self
    refine ih _ ?_ (fun x hx => hok x (List.mem_cons_of_mem _ hx))
    unfold Rewriter.write at h1 ⊢
    rw [if_neg (by rw [hp]; simp)] at h1 ⊢
    dsimp only at h1 ⊢
    split
    · exact hp
    · rename_i e he
      rw [he] at h1
      cases h1

/-- the rewriter after `new ; write*` -/
def afterWrites (cfg : Cfg) (settings : Settings) (chunks : List Bytes) : Rewriter (FullSt cfg) :=
  (writeAll (genWorld cfg) (Rewriter.new (genWorld cfg) (FullSt.init cfg) settings) chunks).1

/-- **Full_events_writes_inv.** Lexer-mode configuration, any scripts, settings, chunking: after `write*` the
rewriter is poisoned (a `write` failed) or the dispatcher has no outstanding hint and its controller state
satisfies the run invariant `J2` AND is reached from the initial state by a list of protocol events. -/
theorem Full_events_writes_inv (cfg : Cfg) (hlex : LexCfg cfg) (settings : Settings) (chunks : List Bytes) :
    (afterWrites cfg settings chunks).poisoned = true ∨
      Model.PLex (KD3 cfg) (afterWrites cfg settings chunks).stream.parser := by
  have hL := fullCtl_lexE3 cfg hlex
  have hst : ((genWorld cfg).ctl.initialFlags (FullSt.init cfg)).Sticky = true := by
    show (St.init cfg).flags.Sticky = true
    rw [flags_sticky]
    exact J_sticky cfg hlex _ (J_init cfg)
  obtain ⟨_, hr⟩ := LexE.new_lexE hL (FullSt.init cfg) settings hst (KD3_new cfg settings.encoding)
  obtain ⟨i1, _⟩ := LexE.writeAll_lexE hL C03.C03_emitsChecked_gen chunks _ hr
  rcases i1 with ⟨_, j2⟩ | j
  · exact j2
  · exact Or.inl j

/-- **Full_events_writes (G1, `write*`).** If every `write` succeeded, the controller state of the byte-level
run IS the state after a list of well-formed protocol events from `St.init cfg`. -/
theorem Full_events_writes (cfg : Cfg) (hlex : LexCfg cfg) (settings : Settings) (chunks : List Bytes)
    (hok : ∀ x ∈ (writeAll (genWorld cfg) (Rewriter.new (genWorld cfg) (FullSt.init cfg) settings) chunks).2,
      x = CallRes.ok) :
    J2 cfg (afterWrites cfg settings chunks).stream.disp.ctl.1 ∧
    ∃ evs : List EvB, (∀ e ∈ evs, e.Ok) ∧
      stepsB cfg (St.init cfg) evs = ((afterWrites cfg settings chunks).stream.disp.ctl.1, none) := by
  have hnp : (afterWrites cfg settings chunks).poisoned = false :=
    writeAll_ok_not_poisoned _ chunks _ rfl hok
  rcases Full_events_writes_inv cfg hlex settings chunks with h | h
  · rw [hnp] at h; cases h
  · exact ⟨h.2.2.1.2.1, h.2.2.1.2.2⟩

/-- the event list of a run (`write*`), by choice from `Full_events_writes`; `[]` if some `write` failed or
the configuration is not a lexer-mode one -/
noncomputable def ctlEventsOf (cfg : Cfg) (settings : Settings) (chunks : List Bytes) : List EvB :=
  open Classical in
  if h : ∃ evs : List EvB, (∀ e ∈ evs, e.Ok) ∧
      stepsB cfg (St.init cfg) evs = ((afterWrites cfg settings chunks).stream.disp.ctl.1, none)
  then Classical.choose h else []

theorem ctlEventsOf_spec (cfg : Cfg) (hlex : LexCfg cfg) (settings : Settings) (chunks : List Bytes)
    (hok : ∀ x ∈ (writeAll (genWorld cfg) (Rewriter.new (genWorld cfg) (FullSt.init cfg) settings) chunks).2,
      x = CallRes.ok) :
    (∀ e ∈ ctlEventsOf cfg settings chunks, e.Ok) ∧
    stepsB cfg (St.init cfg) (ctlEventsOf cfg settings chunks) =
      ((afterWrites cfg settings chunks).stream.disp.ctl.1, none) := by
  have h := (Full_events_writes cfg hlex settings chunks hok).2
  unfold ctlEventsOf
  rw [dif_pos h]
  exact Classical.choose_spec h

end LolHtml.Thm.Full
