/-
# Package `full`, part 18 — selector matching END-TO-END on raw bytes (C04_real; first rung of C05_real)

Lexer-mode configurations (`LexCfg cfg`: a document-level text / comment / doctype handler keeps the parser in
the lexer), ANY scripts (mutating and failing ones included), every settings record, input and chunking.

* **G1 `Full_events_writes` / `Full_events_end`** — the controller state the byte-level run
  (`Rewriter.new ; write* [; end's last parse]`) is in is REACHED from `St.init cfg` by a list of protocol
  events (`Lemmas/FullReach.lean`: `stepsB`, tag events = `ctlStep` of Model/FullEvents.lean, token steps =
  `tokIf b`), every tag event well-kinded with sliceable attributes; and the run invariant `J2` holds of it.
  `ctlEventsOf` names that list (`ctlEventsOf_spec`).
* **G2 `C04_real`** — along that list the selector VM inside the controller ran `Vm.runAux` of package selvm on
  the extracted tag events from `Vm.new`, and the hits (selector index, start-tag ordinal) — per start tag the
  matches the controller hands to `start_matching` — are EXACTLY `Spec.Css.run` on the tree induced by the tag
  events (`C04_vm_refines_css`), for selector sets within `selsOk`. `C04_real_no_panic`: every selector set.
* **G3 first rung `C05_real_event`** — at every state reached by the byte-level run the invocations of the next
  protocol event are package scope's `Spec.Scope.expected` (`Full_event_C05`), hence `C05_scope_*`,
  `C05_order`, `C05_end_tag_*` apply to them.

Stated, not proved (`_statement` defs at the end): the `ctlSteps` form of G1 (needs the dispatcher's text /
comment / doctype flags = the controller's, a dispatcher-level invariant), scanner mode, chunk independence of
the hit set, the log-level form of C04 / C05.
-/
import LolHtml.Thm.Full5
import LolHtml.Lemmas.FullReach
import LolHtml.Thm.C04_VM

namespace LolHtml.Thm.Full
open LolHtml LolHtml.Model LolHtml.Model.Full LolHtml.Model.Handlers LolHtml.EditModel LolHtml.Lemmas.Full
open LolHtml.Lemmas.FullReach
open LolHtml.Thm.C01 (run writeAll Rewriter.new)

/-! ## G1 — the event list of a lexer-mode run -/

/-- the dispatcher-level invariant of lexer mode, with the event list -/
def KD3 (cfg : Cfg) (d : Disp (FullSt cfg)) : Prop := Idle d ∧ I3 cfg d.ctl.1

theorem KD3_new (cfg : Cfg) (enc : Nat) : KD3 cfg (Disp.new (fullCtl cfg) (FullSt.init cfg) enc) :=
  ⟨⟨rfl, rfl⟩, I3_init cfg⟩

theorem kd3_DO {cfg : Cfg} {d : Disp (FullSt cfg)} (h : KD3 cfg d) : Chunk.R.DO cfg d.ctl :=
  kd_DO ⟨h.1, h.2.1⟩

theorem fullCtl_lexE3 (cfg : Cfg) (hlex : LexCfg cfg) :
    LexE.CtlLexE (genWorld cfg) (Chunk.R.cleanCtl (fullCtl cfg)) (KD3 cfg) Glue where
  ops := fun inp => by
    have hsim := Chunk.R.fullCtl_sim_prov cfg
    constructor
    · intro lx d hd
      have hpost := handleTag_lexer_gen cfg (I3 cfg) _ _ (I3_evInv cfg) d hd.1 hd.2 inp lx
      rcases Chunk.R.handleTag_step hsim inp lx d (kd3_DO hd) with ⟨he, _⟩ | ⟨e, ⟨hG, hc⟩, he⟩
      · refine Or.inl ⟨he, fun a ha => ?_⟩
        obtain ⟨hi', hJ'⟩ := hpost.1 a ha
        refine ⟨⟨hi', hJ'⟩, ?_⟩
        exact LexE.handleTag_dir (fullCtl_stickySync cfg) d lx hd.1.1 hd.1.2 a ha (J_sticky cfg hlex _ hJ'.1.1)
      · exact Or.inr ⟨e, glue_of_cg hG hc (hpost.2 e he), he⟩
    · intro lx d hd
      have hpost := handleNonTag_lexer_gen cfg (I3 cfg) _ _ (I3_evInv cfg) d hd.1 hd.2 inp lx
      rcases Chunk.R.handleNonTag_step hsim inp lx d (kd3_DO hd) with ⟨he, _⟩ | ⟨e, ⟨hG, hc⟩, he⟩
      · exact Or.inl ⟨he, fun ha => hpost.1 () ha⟩
      · exact Or.inr ⟨e, glue_of_cg hG hc (hpost.2 e he), he⟩
  bail := rfl
  flush := fun d d' inp k hf hd => by
    obtain ⟨s1, s2, _⟩ := flushRemaining_same hf
    have hc := Chunk.R.flushRemaining_ctl hf
    exact ⟨⟨by rw [s1]; exact hd.1.1, by rw [s2]; exact hd.1.2⟩, by rw [hc]; exact hd.2⟩
  handleEnd := fun d hd => by
    have hsim := Chunk.R.fullCtl_sim_prov cfg
    rcases hsim.handleEnd d.ctl (kd3_DO hd) with ⟨he, _⟩ | ⟨e, ⟨hG, _⟩, he⟩
    · exact Or.inl he
    · have := Full_handleEnd_lexer cfg d.ctl hd.2.1.1 e he
      subst this
      rcases hG with ⟨m, hm, _⟩ | ⟨s, hs⟩
      · cases hm
      · cases hs
  initial := fun _ => rfl

theorem writeAll_ok_not_poisoned {γ : Type} (w : World γ) (cs : List Bytes) :
    ∀ (r : Rewriter γ), r.poisoned = false → (∀ x ∈ (writeAll w r cs).2, x = CallRes.ok) →
      (writeAll w r cs).1.poisoned = false := by
  induction cs with
  | nil => intro r hp _; exact hp
  | cons c cs ih =>
    intro r hp hok
    simp only [writeAll] at hok ⊢
    have h1 : (r.write w c).2 = .ok := hok _ List.mem_cons_self
    refine ih _ ?_ (fun x hx => hok x (List.mem_cons_of_mem _ hx))
    unfold Rewriter.write at h1 ⊢
    rw [if_neg (by rw [hp]; simp)] at h1 ⊢
    dsimp only at h1 ⊢
    split
    · exact hp
    · rename_i e he
      rw [he] at h1
      cases h1

/-- the rewriter after `new ; write*` -/
def afterWrites (cfg : Cfg) (settings : Settings) (chunks : List Bytes) : Rewriter (FullSt cfg) :=
  (writeAll (genWorld cfg) (Rewriter.new (genWorld cfg) (FullSt.init cfg) settings) chunks).1

/-- **Full_events_writes_inv.** Lexer-mode configuration, any scripts, settings, chunking: after `write*` the
rewriter is poisoned (a `write` failed) or the dispatcher has no outstanding hint and its controller state
satisfies the run invariant `J2` AND is reached from the initial state by a list of protocol events. -/
theorem Full_events_writes_inv (cfg : Cfg) (hlex : LexCfg cfg) (settings : Settings) (chunks : List Bytes) :
    (afterWrites cfg settings chunks).poisoned = true ∨
      Model.PLex (KD3 cfg) (afterWrites cfg settings chunks).stream.parser := by
  have hL := fullCtl_lexE3 cfg hlex
  have hst : ((genWorld cfg).ctl.initialFlags (FullSt.init cfg)).Sticky = true := by
    show (St.init cfg).flags.Sticky = true
    rw [flags_sticky]
    exact J_sticky cfg hlex _ (J_init cfg)
  obtain ⟨_, hr⟩ := LexE.new_lexE hL (FullSt.init cfg) settings hst (KD3_new cfg settings.encoding)
  obtain ⟨i1, _⟩ := LexE.writeAll_lexE hL C03.C03_emitsChecked_gen chunks _ hr
  rcases i1 with ⟨_, j2⟩ | j
  · exact j2
  · exact Or.inl j

/-- **Full_events_writes (G1, `write*`).** If every `write` succeeded, the controller state of the byte-level
run IS the state after a list of well-formed protocol events from `St.init cfg`. -/
theorem Full_events_writes (cfg : Cfg) (hlex : LexCfg cfg) (settings : Settings) (chunks : List Bytes)
    (hok : ∀ x ∈ (writeAll (genWorld cfg) (Rewriter.new (genWorld cfg) (FullSt.init cfg) settings) chunks).2,
      x = CallRes.ok) :
    J2 cfg (afterWrites cfg settings chunks).stream.disp.ctl.1 ∧
    ∃ evs : List EvB, (∀ e ∈ evs, e.Ok) ∧
      stepsB cfg (St.init cfg) evs = ((afterWrites cfg settings chunks).stream.disp.ctl.1, none) := by
  have hnp : (afterWrites cfg settings chunks).poisoned = false :=
    writeAll_ok_not_poisoned _ chunks _ rfl hok
  rcases Full_events_writes_inv cfg hlex settings chunks with h | h
  · rw [hnp] at h; cases h
  · exact ⟨h.2.2.1.2.1, h.2.2.1.2.2⟩

/-- the event list of a run (`write*`), by choice from `Full_events_writes`; `[]` if some `write` failed or
the configuration is not a lexer-mode one -/
noncomputable def ctlEventsOf (cfg : Cfg) (settings : Settings) (chunks : List Bytes) : List EvB :=
  open Classical in
  if h : ∃ evs : List EvB, (∀ e ∈ evs, e.Ok) ∧
      stepsB cfg (St.init cfg) evs = ((afterWrites cfg settings chunks).stream.disp.ctl.1, none)
  then Classical.choose h else []

theorem ctlEventsOf_spec (cfg : Cfg) (hlex : LexCfg cfg) (settings : Settings) (chunks : List Bytes)
    (hok : ∀ x ∈ (writeAll (genWorld cfg) (Rewriter.new (genWorld cfg) (FullSt.init cfg) settings) chunks).2,
      x = CallRes.ok) :
    (∀ e ∈ ctlEventsOf cfg settings chunks, e.Ok) ∧
    stepsB cfg (St.init cfg) (ctlEventsOf cfg settings chunks) =
      ((afterWrites cfg settings chunks).stream.disp.ctl.1, none) := by
  have h := (Full_events_writes cfg hlex settings chunks hok).2
  unfold ctlEventsOf
  rw [dif_pos h]
  exact Classical.choose_spec h

/-- **Full_events_end (G1, the last parse of `end`).** `end()` parses what is buffered with `last = true`
(EOF lexeme, pending text) before `handle_end`; if that parse succeeds, the controller state `handle_end` starts
from is again reached by a well-formed event list and satisfies `J2`. -/
theorem Full_events_end (cfg : Cfg) (hlex : LexCfg cfg) (settings : Settings) (chunks : List Bytes)
    (hok : ∀ x ∈ (writeAll (genWorld cfg) (Rewriter.new (genWorld cfg) (FullSt.init cfg) settings) chunks).2,
      x = CallRes.ok) (inp : Bytes) (k : Nat)
    (hp : ((afterWrites cfg settings chunks).stream.parser.parse (genWorld cfg).env inp true).2 = .ok k) :
    KD3 cfg ((afterWrites cfg settings chunks).stream.parser.parse (genWorld cfg).env inp true).1.x.sink := by
  have hnp : (afterWrites cfg settings chunks).poisoned = false :=
    writeAll_ok_not_poisoned _ chunks _ rfl hok
  rcases Full_events_writes_inv cfg hlex settings chunks with h | h
  · rw [hnp] at h; cases h
  · have hL := fullCtl_lexE3 cfg hlex
    rcases LexE.parse_lexE (tbl := (genWorld cfg).tbl) (cfg := (genWorld cfg).tags) (hL.ops inp)
        C03.C03_emitsChecked_gen true (afterWrites cfg settings chunks).stream.parser h with ⟨_, hpl⟩ | ⟨e, _, he⟩
    · exact (hpl k hp).2.2.1
    · have he' : ((afterWrites cfg settings chunks).stream.parser.parse (genWorld cfg).env inp true).2 =
          .error (RelE.parseErr e) := he
      rw [he'] at hp
      cases hp

/-! ## G2 — the selector VM along the event list: `Vm.runAux`, CSS matching -/

/-- the tag event package selvm sees -/
def selEvB : EvB → Option Sel.Event
  | .ev e => selEvOf e
  | .tok _ _ => none

/-- the tag events of an event list: the document tree C04 talks about is the one they induce -/
def tagEvents (evs : List EvB) : List Sel.Event := evs.filterMap selEvB

theorem tokIf_other_vm (cfg : Cfg) (s : St) (hf : s.fault = none) (tok : Model.Token)
    (hk : (CtlEv.other tok).WellKinded) (b : Bool) : (tokIf cfg b s tok).1.vm = s.vm := by
  unfold tokIf
  split
  · obtain ⟨_, b, _⟩ := tokOther_frame cfg s tok hk hf
    exact b
  · rfl

/-- **vm_runB.** Along a list of protocol steps that ends without error, the VM inside the real controller
goes through `Vm.runAux` of package selvm on the extracted tag events: same final VM, and `runAux`'s hits are
per start tag the match set of `Vm.handleStartTag` on the controller's VM — which is what the controller hands
to `start_matching` (`Full_refines_scope_start`). -/
theorem vm_runB (cfg : Cfg) (evs : List EvB) :
    ∀ (s : St) (vm : SelVM.Vm) (ord : Nat) (acc : List (Nat × Nat)), J2 cfg s → s.vm = some vm →
      (∀ e ∈ evs, e.Ok) → (stepsB cfg s evs).2 = none →
      ∃ vm' hits, vm.runAux (tagEvents evs) ord acc = .ok (vm', hits) ∧ (stepsB cfg s evs).1.vm = some vm' := by
  induction evs with
  | nil => intro s vm ord acc _ hv _ _; exact ⟨vm, acc, rfl, hv⟩
  | cons ev evs ih =>
    intro s vm ord acc hJ hv hev hok
    have hev0 := hev ev (by simp)
    have hevs : ∀ e ∈ evs, e.Ok := fun e he => hev e (by simp [he])
    simp only [stepsB] at hok ⊢
    cases hr : (stepB cfg s ev).2 with
    | some err => simp [hr] at hok
    | none =>
      simp only [hr] at hok ⊢
      cases ev with
      | tok b t =>
        have hJ' : J2 cfg (stepB cfg s (.tok b t)).1 := ((J2_evInv cfg).other s t b hJ hev0).1 hr
        have hvm1 : (stepB cfg s (.tok b t)).1.vm = some vm := by
          show (tokIf cfg b s t).1.vm = some vm
          rw [tokIf_other_vm cfg s hJ.1.fault t hev0 b]; exact hv
        obtain ⟨vm', hits, hrun, hfin⟩ := ih _ vm ord acc hJ' hvm1 hevs hok
        refine ⟨vm', hits, ?_, hfin⟩
        rw [show tagEvents (EvB.tok b t :: evs) = tagEvents evs from List.filterMap_cons_none (by rfl)]
        exact hrun
      | ev e =>
        cases e with
        | other t => exact hev0.elim
        | start name ns info tok =>
          obtain ⟨⟨aux, ha⟩, hk⟩ := hev0
          cases tok with
          | startTag nm attrs ns' sc raw src base =>
            have hr' : (ctlStep cfg s (.start name ns info (.startTag nm attrs ns' sc raw src base))).2 = none := hr
            have hJ' : J2 cfg (stepB cfg s (.ev (.start name ns info (.startTag nm attrs ns' sc raw src base)))).1 :=
              ((J2_evInv cfg).start s name ns info nm attrs ns' sc raw src base hJ).1 hr'
            obtain ⟨h1, _⟩ := Full_start_no_panic cfg s hJ.1 (Full_idsBounded cfg) vm hv name ns info aux ha
              nm attrs ns' sc raw src base
            obtain ⟨_, vm1, ms, hh, hvm1⟩ := h1 hr'
            obtain ⟨vm', hits, hrun, hfin⟩ := ih _ vm1 (ord + 1) (acc ++ ms.map fun mi => (mi.matchId, ord)) hJ' hvm1 hevs hok
            refine ⟨vm', hits, ?_, hfin⟩
            simp only [tagEvents, List.filterMap_cons, selEvB, selEvOf, ha, Option.map_some, SelVM.Vm.runAux, hh,
              bind, Except.bind]
            exact hrun
          | endTag => simp [CtlEv.WellKinded] at hk
          | comment => simp [CtlEv.WellKinded] at hk
          | doctype => simp [CtlEv.WellKinded] at hk
          | text => simp [CtlEv.WellKinded] at hk
        | end_ name tok =>
          cases tok with
          | endTag nm raw src =>
            have hr' : (ctlStep cfg s (.end_ name (.endTag nm raw src))).2 = none := hr
            have hJ' : J2 cfg (stepB cfg s (.ev (.end_ name (.endTag nm raw src)))).1 :=
              ((J2_evInv cfg).end_ s name nm raw src hJ).1 hr'
            obtain ⟨h1, _⟩ := Full_end_no_panic cfg s hJ.1 name nm raw src
            obtain ⟨_, hvmrun⟩ := h1 hr'
            obtain ⟨vm1, hh, hvm1⟩ := hvmrun vm hv
            obtain ⟨vm', hits, hrun, hfin⟩ := ih _ vm1 ord acc hJ' hvm1 hevs hok
            refine ⟨vm', hits, ?_, hfin⟩
            simp only [tagEvents, List.filterMap_cons, selEvB, selEvOf, SelVM.Vm.runAux, hh, bind, Except.bind]
            exact hrun
          | startTag => simp [EvB.Ok, EvOk, CtlEv.WellKinded] at hev0
          | comment => simp [EvB.Ok, EvOk, CtlEv.WellKinded] at hev0
          | doctype => simp [EvB.Ok, EvOk, CtlEv.WellKinded] at hev0
          | text => simp [EvB.Ok, EvOk, CtlEv.WellKinded] at hev0

/-- the selector lists the configuration registers -/
def _root_.LolHtml.Model.Full.Cfg.selLists (cfg : Cfg) : List Sel.SelList := cfg.sels.map (·.1)

/-- **C04_real_no_panic.** Lexer-mode configuration with at least one selector, ANY selectors and scripts, every
settings record and chunking, all `write`s succeed: there is the list of protocol events the byte-level run fed
the controller (G1), and on its tag events package selvm's `runSelectors` does not panic and ends in the VM
state the real controller holds after the last `write`. -/
theorem C04_real_no_panic (cfg : Cfg) (hlex : LexCfg cfg) (hne : cfg.sels.isEmpty = false)
    (settings : Settings) (chunks : List Bytes)
    (hok : ∀ x ∈ (writeAll (genWorld cfg) (Rewriter.new (genWorld cfg) (FullSt.init cfg) settings) chunks).2,
      x = CallRes.ok) :
    ∃ evs : List EvB, (∀ e ∈ evs, e.Ok) ∧
      stepsB cfg (St.init cfg) evs = ((afterWrites cfg settings chunks).stream.disp.ctl.1, none) ∧
      ∃ vm' hits, (SelVM.Vm.new (SelVM.Ast.ofSelectors cfg.selLists) cfg.esi).runAux (tagEvents evs) 0 [] = .ok (vm', hits) ∧
        SelVM.runSelectors cfg.selLists cfg.esi (tagEvents evs) = .ok hits ∧
        (afterWrites cfg settings chunks).stream.disp.ctl.1.vm = some vm' := by
  obtain ⟨_, evs, hev, hsteps⟩ := Full_events_writes cfg hlex settings chunks hok
  have hv : (St.init cfg).vm = some (SelVM.Vm.new (SelVM.Ast.ofSelectors cfg.selLists) cfg.esi) := by
    unfold St.init Cfg.selLists
    simp only [hne]
    rfl
  obtain ⟨vm', hits, hrun, hfin⟩ := vm_runB cfg evs (St.init cfg) _ 0 [] (J2_init cfg) hv hev (by rw [hsteps])
  refine ⟨evs, hev, hsteps, vm', hits, hrun, ?_, by rw [hsteps] at hfin; exact hfin⟩
  unfold SelVM.runSelectors
  simp only [hrun, bind, Except.bind, pure, Except.pure]

/-- **C04_real.** … and for selector sets whose `:not()` arguments are single plain simple selectors (`selsOk`;
outside it the code itself deviates from CSS, finding F3): the hits `(selector index, start-tag ordinal)` — per
start-tag event the match set the controller hands to `start_matching`, i.e. the element handlers it
activates — are EXACTLY CSS Selectors matching (`Spec.Css.run`) on the tree induced by the start- / end-tag
events of the run. No hypothesis on the scripts (mutating and failing closures allowed), the settings, the
input or the chunking. -/
theorem C04_real (cfg : Cfg) (hlex : LexCfg cfg) (hne : cfg.sels.isEmpty = false)
    (hsel : SelVM.selsOk cfg.selLists = true) (settings : Settings) (chunks : List Bytes)
    (hok : ∀ x ∈ (writeAll (genWorld cfg) (Rewriter.new (genWorld cfg) (FullSt.init cfg) settings) chunks).2,
      x = CallRes.ok) :
    ∃ evs : List EvB, (∀ e ∈ evs, e.Ok) ∧
      stepsB cfg (St.init cfg) evs = ((afterWrites cfg settings chunks).stream.disp.ctl.1, none) ∧
      ∃ vm', (SelVM.Vm.new (SelVM.Ast.ofSelectors cfg.selLists) cfg.esi).runAux (tagEvents evs) 0 [] =
          .ok (vm', Spec.Css.run Spec.Css.cssLeaf cfg.selLists cfg.esi (tagEvents evs)) ∧
        (afterWrites cfg settings chunks).stream.disp.ctl.1.vm = some vm' := by
  obtain ⟨evs, hev, hsteps, vm', hits, hrun, hsel', hfin⟩ := C04_real_no_panic cfg hlex hne settings chunks hok
  have := C04_VM.C04_vm_refines_css cfg.selLists hsel cfg.esi (tagEvents evs)
  rw [hsel'] at this
  simp only [Except.ok.injEq] at this
  exact ⟨evs, hev, hsteps, vm', by rw [← this]; exact hrun, hfin⟩

/-! ## G3, first rung — package scope's invariant and specification at the states of the byte-level run -/

open LolHtml.Spec.Scope (expected openStep WfEvent OpenElem) in
open LolHtml.Lemmas.Scope (Inv) in
/-- **C05_real_event_other.** Lexer-mode configuration, any scripts; after successful `write`s of ANY chunks the
controller of the byte-level run is in a state whose projection satisfies package scope's invariant for some
list `sp` of open elements (so C05_refcount … hold of it), and the text / comment / doctype token the
dispatcher delivers next invokes EXACTLY the handlers package scope's specification promises
(`Spec.Scope.expected`: text / comment handlers registered with a selector iff the token lies inside an element
matched by that selector — `C05_scope_text`, `C05_scope_comment` —, document-level ones always, in registration
order — `C05_order`). -/
theorem C05_real_event_other (cfg : Cfg) (hlex : LexCfg cfg) (settings : Settings) (chunks : List Bytes)
    (hok : ∀ x ∈ (writeAll (genWorld cfg) (Rewriter.new (genWorld cfg) (FullSt.init cfg) settings) chunks).2,
      x = CallRes.ok)
    (tok : Model.Token) (hk : (CtlEv.other tok).WellKinded) (script : ElemScript) (ord : Nat) :
    ∃ sp, Inv cfg.selRegs cfg.docRegs sp (scopeState (afterWrites cfg settings chunks).stream.disp.ctl.1) ∧
      ∃ invs, Controller.step script (scopeState (afterWrites cfg settings chunks).stream.disp.ctl.1) ord (scopeEvOther tok) =
          .ok (scopeState (ctlStep cfg (afterWrites cfg settings chunks).stream.disp.ctl.1 (.other tok)).1, invs) ∧
        invs = expected cfg.selRegs cfg.docRegs sp ord (scopeEvOther tok) ∧
        Inv cfg.selRegs cfg.docRegs (openStep script cfg.selRegs sp ord (scopeEvOther tok))
          (scopeState (ctlStep cfg (afterWrites cfg settings chunks).stream.disp.ctl.1 (.other tok)).1) := by
  obtain ⟨hJ, _⟩ := Full_events_writes cfg hlex settings chunks hok
  obtain ⟨sp, hinv⟩ := hJ.1.scope
  obtain ⟨invs, hstep⟩ := Full_refines_scope_other cfg (afterWrites cfg settings chunks).stream.disp.ctl hJ.1.fault tok hk script ord
  have hwf : WfEvent cfg.selRegs.length (scopeEvOther tok) := by
    cases tok <;> simp [scopeEvOther, WfEvent]
  obtain ⟨h1, h2⟩ := Full_event_C05 cfg _ _ sp hinv script ord _ invs hwf hstep
  exact ⟨sp, hinv, invs, hstep, h1, h2⟩

/-! ## full statements NOT proved -/

/-- the `EvB` list as a `CtlEv` list: a delivered token is an `.other` event, an undelivered one is no event -/
def toCtlEvs : List EvB → List CtlEv
  | [] => []
  | .ev e :: es => e :: toCtlEvs es
  | .tok true t :: es => .other t :: toCtlEvs es
  | .tok false _ :: es => toCtlEvs es

/-- **G1 in the `ctlSteps` form, every configuration** (NOT proved). Two things are missing. (1) Lexer mode:
`stepsB … evs = ctlSteps … (toCtlEvs evs)` needs `b = flagFor s.flags tok` at every token step — the dispatcher's
copy of the TEXT / COMMENTS / DOCTYPES flags equals the controller's (`St.flags`); true (tokens do not touch the
three vectors, `token_sticky`'s argument per flag; every tag event refreshes the copy) but a DISPATCHER-level
invariant, to be carried through `handleTag_lexer_gen` / `handleNonTag_lexer_gen` next to `Idle`
(Lemmas/StickySync.lean per flag instead of for `Flags.Sticky`). (2) Scanner mode: `Full_scan_opsX` (Thm/Full14.lean)
is the operation level; the event list has to be threaded through `InvY`'s four protocol states. -/
def Full_events_statement : Prop :=
  ∀ (cfg : Cfg) (settings : Settings) (chunks : List Bytes),
    (∀ x ∈ (writeAll (genWorld cfg) (Rewriter.new (genWorld cfg) (FullSt.init cfg) settings) chunks).2, x = CallRes.ok) →
    ∃ evs : List CtlEv, (∀ e ∈ evs, EvOk e) ∧
      ctlSteps cfg (St.init cfg) evs = ((afterWrites cfg settings chunks).stream.disp.ctl.1, none)

/-- **C04_real, every configuration** (NOT proved; `C04_real` is the `LexCfg` case): follows from
`Full_events_statement` by `Full_vm_run` / `vm_runB`. -/
def C04_real_statement : Prop :=
  ∀ (cfg : Cfg) (settings : Settings) (chunks : List Bytes), cfg.sels.isEmpty = false →
    SelVM.selsOk cfg.selLists = true →
    (∀ x ∈ (writeAll (genWorld cfg) (Rewriter.new (genWorld cfg) (FullSt.init cfg) settings) chunks).2, x = CallRes.ok) →
    ∃ evs : List CtlEv, (∀ e ∈ evs, EvOk e) ∧
      ctlSteps cfg (St.init cfg) evs = ((afterWrites cfg settings chunks).stream.disp.ctl.1, none) ∧
      ∃ vm', (SelVM.Vm.new (SelVM.Ast.ofSelectors cfg.selLists) cfg.esi).runAux (evs.filterMap selEvOf) 0 [] =
          .ok (vm', Spec.Css.run Spec.Css.cssLeaf cfg.selLists cfg.esi (evs.filterMap selEvOf)) ∧
        (afterWrites cfg settings chunks).stream.disp.ctl.1.vm = some vm'

/-- **C04_real_chunk_independent** (NOT proved): the hit set does not depend on the chunking. `C02_real` compares
SINK BYTES of two chunkings, which do not determine the hits; what is needed is chunk invariance of the tag-event
list itself — the lexeme stream of package chunk's `ParseRel` (same lexemes up to text-chunk boundaries), composed
with "the tag events are a function of the tag lexemes" (`handleTag_lexer_gen`: name, namespace, attribute buffer
of the lexeme). -/
def C04_real_chunk_independent_statement : Prop :=
  ∀ (cfg : Cfg) (settings : Settings) (cs₁ cs₂ : List Bytes), LexCfg cfg → cs₁.flatten = cs₂.flatten →
    (∀ x ∈ (writeAll (genWorld cfg) (Rewriter.new (genWorld cfg) (FullSt.init cfg) settings) cs₁).2, x = CallRes.ok) →
    (∀ x ∈ (writeAll (genWorld cfg) (Rewriter.new (genWorld cfg) (FullSt.init cfg) settings) cs₂).2, x = CallRes.ok) →
    ∃ evs₁ evs₂ : List EvB,
      stepsB cfg (St.init cfg) evs₁ = ((afterWrites cfg settings cs₁).stream.disp.ctl.1, none) ∧
      stepsB cfg (St.init cfg) evs₂ = ((afterWrites cfg settings cs₂).stream.disp.ctl.1, none) ∧
      tagEvents evs₁ = tagEvents evs₂

/-! ## non-vacuity -/

example : SelVM.selsOk lexAuxCfg.selLists = true := by decide

theorem lexAux_writes_ok :
    (writeAll (genWorld lexAuxCfg) (Rewriter.new (genWorld lexAuxCfg) (FullSt.init lexAuxCfg) {}) sampleChunks).2 =
      [.ok, .ok] := by decide +kernel

/-- `C04_real` applies to the mutating lexer-mode configuration `lexAuxCfg` (`[a]` — the InfoRequest path —,
`set_attribute`, `after`, `on_end_tag`; a document-level comment observer) on `<div a=b>x<` , `/div>y` -/
example : ∃ evs : List EvB, (∀ e ∈ evs, e.Ok) ∧
    stepsB lexAuxCfg (St.init lexAuxCfg) evs = ((afterWrites lexAuxCfg {} sampleChunks).stream.disp.ctl.1, none) ∧
    ∃ vm', (SelVM.Vm.new (SelVM.Ast.ofSelectors lexAuxCfg.selLists) lexAuxCfg.esi).runAux (tagEvents evs) 0 [] =
        .ok (vm', Spec.Css.run Spec.Css.cssLeaf lexAuxCfg.selLists lexAuxCfg.esi (tagEvents evs)) ∧
      (afterWrites lexAuxCfg {} sampleChunks).stream.disp.ctl.1.vm = some vm' :=
  C04_real lexAuxCfg ⟨_, List.mem_cons_self, Or.inr (Or.inl rfl)⟩ (by decide) (by decide) {} sampleChunks
    (fun x hx => by rw [lexAux_writes_ok] at hx; simp at hx; exact hx)

/-- the event list of that run, and what the VM / CSS matching say on it: selector 0 (`[a]`) hits start tag 0 -/
def lexAuxEvs : List EvB :=
  [.ev (.start (.bytes [100, 105, 118]) .html ⟨[60,100,105,118,32,97,61,98,62], [⟨⟨5,6⟩, ⟨7,8⟩, ⟨5,8⟩⟩], false⟩
      (.startTag [100,105,118] [([97], [98], ⟨⟨5,6⟩, ⟨7,8⟩, ⟨5,8⟩⟩)] .html false [60,100,105,118,32,97,61,98,62] ⟨0,9⟩ 0)),
   .tok false (.text [120] .data false ⟨9,10⟩),
   .ev (.end_ (.bytes [100, 105, 118]) (.endTag [100,105,118] [60,47,100,105,118,62] ⟨10,16⟩))]

example : (stepsB lexAuxCfg (St.init lexAuxCfg) lexAuxEvs).2 = none := by decide +kernel
example : Spec.Css.run Spec.Css.cssLeaf lexAuxCfg.selLists lexAuxCfg.esi (tagEvents lexAuxEvs) = [(0, 0)] := by
  decide +kernel

end LolHtml.Thm.Full
