/-
# Package `full`, part 18 — `C15_linear_parse` for the REAL controller, unconditionally

`C15_linear_parse` needs `CtlClean` (no callback returns a panic- / internal-class error), which the real controller
does not satisfy (`Full_ctlClean_unattainable`). But the real controller is FOLLOWED by its cleaned version until its
first panic- / internal-class error (`cleanCtl_sim`), and a parse that aborts stops working: under `OpsRelE` the first
parse performs at most as many state-function invocations as the second one (`RelE.parseSteps_relE`,
Lemmas/StepsRelE.lean). So the bound of the cleaned controller is a bound for the real one — no alternative, no
hypothesis about the run; the controller state only has to be one without a recorded fault of the guard's / the
dispatcher's own sites (`DO`, closed under the callbacks; the initial state is one).
-/
import LolHtml.Thm.Full16
import LolHtml.Thm.C15_Linear
import LolHtml.Lemmas.StepsRelE

namespace LolHtml.Thm.Full
open LolHtml LolHtml.Model LolHtml.Model.Full LolHtml.Lemmas.Full
open LolHtml.Thm.C01 (run writeAll Rewriter.new)

/-- `parseSteps` of a controller is at most that of a controller that follows it (any world, any class) -/
theorem parseSteps_le_of_sim {γ : Type} {w : World γ} {c2 : Controller γ} {D : γ → Prop} {G : Err → Prop}
    (h : Chunk.R.CtlSim w.ctl c2 D G) (ht : EmitsChecked w.tbl = true) (inp : Bytes) (last : Bool)
    (p : Parser (Disp γ)) (hd : D p.x.sink.ctl) :
    Parser.parseSteps w.env inp last p ≤ Parser.parseSteps (Chunk.R.World.withCtl w c2).env inp last p :=
  RelE.parseSteps_relE (tbl := w.tbl) (cfg := w.tags) (inp := inp) (Chunk.R.dispOps_relE h inp) ht last p p
    ⟨rfl, rfl, rfl, rfl, rfl, ⟨rfl, hd⟩, rfl, rfl⟩

/-- **C15_linear_parse_real.** One whole `Parser::parse` call over the dispatcher with the REAL controller — every
configuration, every slice, `last` or not, every parser state satisfying the invariants of `C15_linear_parse` whose
controller state is in `DO` — performs at most `32·(n+1)` state-function invocations, all lexer ⇄ scanner switches
included. -/
theorem C15_linear_parse_real (cfg : Cfg) (inp : Bytes) (last : Bool) (p : Parser (Disp (FullSt cfg)))
    (hd : Chunk.R.DO cfg p.x.sink.ctl)
    (hp : PInv Gen.Syntax.table inp.length (fun d : Disp (FullSt cfg) => d.rcs) p)
    (htp : PTok Gen.Syntax.table (computeCert Gen.Syntax.table) p)
    (hph : PHead Gen.Syntax.table (headLabels Gen.Syntax.table) inp p) :
    Parser.parseSteps (genWorld cfg).env inp last p ≤ 32 * (inp.length + 1) :=
  Nat.le_trans
    (parseSteps_le_of_sim (w := genWorld cfg) (Chunk.R.cleanCtl_sim (Chunk.R.fullCtl_panicLaws_DO cfg))
      C03.C03_emitsChecked_gen inp last p hd)
    (C15.C15_linear_parse (cleanWorld cfg) C15.C15_wfLinear_gen (Chunk.R.cleanCtl_clean (fullCtl cfg)) inp last p hp htp hph)

/-- the first `parse` of every run: a fresh rewriter satisfies the hypotheses, whatever the slice -/
theorem C15_linear_parse_real_new (cfg : Cfg) (settings : Settings) (inp : Bytes) (last : Bool) :
    Parser.parseSteps (genWorld cfg).env inp last (Stream.new (genWorld cfg) (FullSt.init cfg) settings).parser
      ≤ 32 * (inp.length + 1) := by
  obtain ⟨h1, h2, h3⟩ := C15.new_parser_invs (genWorld cfg) C15.C15_wfLinear_gen (FullSt.init cfg) settings inp
  exact C15_linear_parse_real cfg inp last _ (Chunk.R.init_DO cfg) h1 h2 h3

/-- non-vacuity: the real controller with an element closure on `div` and a text handler, `<div a=b>x</div>y` as the
last slice: the parse switches between tag scanner and lexer and really works -/
example : Parser.parseSteps (genWorld obsCfg).env sampleChunks.flatten true
    (Stream.new (genWorld obsCfg) (FullSt.init obsCfg) {}).parser = 17 := by decide +kernel

end LolHtml.Thm.Full
