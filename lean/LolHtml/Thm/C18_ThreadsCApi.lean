/-
Property C18 — the thread model (`Model/Threads.lean`) instantiated with the C-API model (`Model/CApi.lean`):
a C client session is an instance (`Model/ThreadsCApi.lean` `capiSys`).

* `capiThreadParametric`   THREAD PARAMETRICITY of the C API, for every `R`, policy, handler program that does not
                           itself call `take_last_error`, environment, thread and entry point other than
                           `take_last_error` — including `write`/`end` with every call-back they run (`drive`,
                           `runHandler`, `runStreaming`, all 18 `cUnitOp` shapes): executed by thread `t` on an
                           environment with ARBITRARY `LAST_ERROR` slots the call has the same outcome class and yields
                           the same environment up to `lastErr` as on a canonical thread with clean slots, and `lastErr`
                           changes exactly by recording into slot `t` what the canonical run left in its own slot.
                           Proof: every function `f` of the model commutes with `Φ L t` (re-slotting):
                           `f t (Φ L t e) = mapRes (Φ L t) (f canon e)`; only `saveLastError` is not `rfl` (`save_Φ`).
* `capi_step_faithful`     hence `capiSys.step` + the thread model's `record` IS `CApi.topStep` by thread `t`.
* `capi_session_faithful`  for any assignment of a session's calls to threads, `CApi.run` (one environment, real thread
                           ids, real slots) and the thread model agree on the session state and on every thread's
                           `LAST_ERROR`. With `C18_sequential_prediction`/`C18_interleaving_projection` at `capiSys`:
                           any interleaving of any number of sessions on any threads = each session's `CApi` run alone.
* `capiThreadParametric_partial`  the call-back-free entry points, without the `takeFree` hypothesis.
-/
import LolHtml.Model.ThreadsCApi
import LolHtml.Thm.C18_Threads
import LolHtml.Lemmas.CApi
import LolHtml.Model.CApiMiniR

namespace LolHtml.Thm.C18
open LolHtml LolHtml.Model.CApi LolHtml.Model.Threads LolHtml.Lemmas.Threads

variable {R : RApi}

def mapRes {α β : Type} (f : α → β) : Res α → Res β
  | .ok a => .ok (f a)
  | .notPermitted w => .notPermitted w
  | .fault x => .fault x

/-- The environment thread `t` really works on, given the environment `e` of the canonical run: the same, except
    that the slots are `L` (what they were before the call) with `e`'s canonical slot recorded into slot `t`. -/
def Φ (L : Tid → Option ErrMsg) (t : Tid) (e : Env R) : Env R :=
  { e with lastErr := record L t (e.lastErr canon) }

variable (L : Tid → Option ErrMsg) (t : Tid)

theorem Φ_clearErr (e : Env R) : Φ e.lastErr t (clearErr e) = e := by
  cases e; rfl

theorem save_Φ (e : Env R) (m : ErrMsg) : saveLastError (Φ L t e) t m = Φ L t (saveLastError e canon m) := by
  simp only [saveLastError, Φ, canon, if_true]
  congr 1
  funext x
  cases e.lastErr 0 <;> simp [record, upd] <;> split <;> simp_all

theorem releaseHandler_Φ (e : Env R) (sid : Nat) :
    releaseHandler (Φ L t e) sid = mapRes (Φ L t) (releaseHandler e sid) := by
  unfold releaseHandler
  simp only [Φ]
  split
  · split
    · rfl
    · split <;> rfl
  · rfl

theorem applyEvents_Φ (e : Env R) (evs : List REv) :
    applyEvents (Φ L t e) evs = mapRes (Φ L t) (applyEvents e evs) := by
  induction evs generalizing e with
  | nil => rfl
  | cons ev rest ih =>
    cases ev with
    | emit b => exact ih { e with sink := b :: e.sink }
    | dropHandler sid =>
      simp only [applyEvents, releaseHandler_Φ]
      cases releaseHandler e sid with
      | ok e1 => exact ih e1
      | notPermitted w => rfl
      | fault f => rfl

theorem release_Φ (e : Env R) (v : Nat) (k : Kind) :
    release (Φ L t e) v k = mapRes (fun x => (Φ L t x.1, x.2)) (release e v k) := by
  unfold release
  simp only [Φ]
  split
  · rfl
  · split
    · rfl
    · split
      · rfl
      · split <;> rfl

theorem resolveSelectors_Φ (e : Env R) (l : List (ElemReg Nat)) :
    resolveSelectors (Φ L t e) l = resolveSelectors e l := by
  induction l with
  | nil => rfl
  | cons r rest ih =>
    simp only [resolveSelectors, ih]
    rfl

theorem strFree_Φ (pol : Policy) (e : Env R) (v : Nat) :
    strFree pol (Φ L t e) v = mapRes (Φ L t) (strFree pol e v) := by
  unfold strFree
  show (match e.vars v with | none => _ | some _ => _) = _
  cases e.vars v with
  | none => rfl
  | some h =>
    show (do require (validArg e v .str) "str_free: not a live Str"; let (e, _, _) ← release (Φ L t e) v .str; pure (e.out .void)) = _
    rw [release_Φ]
    cases validArg e v .str <;> simp only [require] <;> try rfl
    cases release e v .str <;> rfl

theorem ok_bind {α β : Type} (a : α) (f : α → Res β) : (Res.ok a >>= f) = f a := rfl

theorem validArg_Φ (e : Env R) (v : Nat) (k : Kind) : validArg (Φ L t e) v k = validArg e v k := rfl
theorem deref_Φ (e : Env R) (v : Nat) (k : Kind) : deref (Φ L t e) v k = deref e v k := rfl
theorem selectorInUse_Φ (e : Env R) (h : Nat) : selectorInUse (Φ L t e) h = selectorInUse e h := rfl

theorem topStep_Φ (pol : Policy) (prog : Prog) (e : Env R) (op : TopOp R.Chunk)
    (h1 : isTake op = false) (h2 : noCallback op = true) :
    topStep pol prog (Φ L t e) ⟨t, op⟩ = mapRes (Φ L t) (topStep pol prog e ⟨canon, op⟩) := by
  cases op with
  | takeLastError dst => simp [isTake] at h1
  | write r c => simp [noCallback] at h2
  | end_ r => simp [noCallback] at h2
  | builderNew dst => rfl
  | selectorParse dst s =>
    simp only [topStep]
    cases utf8Check s with
    | some err => simp only [save_Φ]; rfl
    | none =>
      cases R.parseSelector s with
      | error m => simp only [save_Φ]; rfl
      | ok sel => rfl
  | addDoc b r =>
    simp only [topStep, validArg_Φ, deref_Φ]
    cases validArg e b .builder <;> simp only [require] <;> try rfl
    rcases deref e b .builder with ⟨h, ⟨st, p⟩⟩ | w | f <;> try rfl
    cases p <;> rfl
  | addElem b sel el cm tx =>
    simp only [topStep, validArg_Φ, deref_Φ]
    cases validArg e b .builder <;> simp only [require] <;> try rfl
    cases validArg e sel .selector <;> try rfl
    rcases deref e sel .selector with ⟨hs, os⟩ | w | f <;> try rfl
    rcases deref e b .builder with ⟨h, ⟨st, p⟩⟩ | w | f <;> try rfl
    cases p <;> rfl
  | build dst b enc mem strict esi =>
    simp only [topStep, validArg_Φ, deref_Φ, resolveSelectors_Φ]
    cases validArg e b .builder <;> simp only [require] <;> try rfl
    rcases deref e b .builder with ⟨h, ⟨st, p⟩⟩ | w | f <;> try rfl
    cases p <;> try rfl
    rename_i elem doc
    simp only [if_true, ok_bind]
    rcases resolveSelectors e elem with elemR | w | f <;> try rfl
    simp only [ok_bind]
    cases R.forLabel enc with
    | none => simp only [save_Φ]; rfl
    | some encoding =>
      dsimp only
      cases R.asciiCompatible encoding
      · simp only [Bool.not_false, if_true, save_Φ]; rfl
      · simp only [Bool.not_true, Bool.false_eq_true, if_false]
        generalize R.new ⟨elemR, doc, encoding, mem, strict, esi⟩ = rn
        cases rn with
        | error m => simp only [save_Φ]; rfl
        | ok rw => rfl
  | rewriterFree r =>
    simp only [topStep, validArg_Φ, release_Φ]
    cases validArg e r .rewriter <;> simp only [require] <;> try rfl
    rcases release e r .rewriter with ⟨e1, h, ⟨st, p⟩⟩ | w | f <;> try rfl
    cases p <;> try rfl
    rename_i inner poisoned
    cases inner <;> try rfl
    rename_i rw
    simp only [if_true, mapRes, ok_bind, applyEvents_Φ]
    cases applyEvents e1 (R.drop rw) <;> rfl
  | builderFree b =>
    simp only [topStep, validArg_Φ, release_Φ]
    cases validArg e b .builder <;> simp only [require] <;> try rfl
    rcases release e b .builder with ⟨e1, h, o⟩ | w | f <;> rfl
  | selectorFree s =>
    simp only [topStep, validArg_Φ, deref_Φ, selectorInUse_Φ, release_Φ]
    cases validArg e s .selector <;> simp only [require] <;> try rfl
    rcases deref e s .selector with ⟨h, o⟩ | w | f <;> try rfl
    simp only [if_true, ok_bind]
    cases selectorInUse e h <;> try rfl
    rcases release e s .selector with ⟨e1, h', o'⟩ | w | f <;> rfl
  | strFree v => exact strFree_Φ L t pol e v

omit L t in
theorem parametricAt_of_Φ {pol : Policy} {prog : Prog} {op : TopOp R.Chunk}
    (h : ∀ (L : Tid → Option ErrMsg) (t : Tid) (e : Env R),
      topStep pol prog (Φ L t e) ⟨t, op⟩ = mapRes (Φ L t) (topStep pol prog e ⟨canon, op⟩))
    (e : Env R) (t : Tid) : parametricAt pol prog e t op := by
  unfold parametricAt
  have := h e.lastErr t (clearErr e)
  rw [Φ_clearErr] at this
  rw [this]
  cases topStep pol prog (clearErr e) ⟨canon, op⟩ with
  | ok e'' => exact ⟨rfl, rfl⟩
  | notPermitted w => trivial
  | fault f => rfl

omit L t in
/-- Thread parametricity for every entry point that runs no call-back (all but `write`, `end`; `take_last_error`
    is thread-level by definition). -/
theorem capiThreadParametric_partial (pol : Policy) (prog : Prog) (e : Env R) (t : Tid) (op : TopOp R.Chunk)
    (h1 : isTake op = false) (h2 : noCallback op = true) : parametricAt pol prog e t op :=
  parametricAt_of_Φ (fun L t e => topStep_Φ L t pol prog e op h1 h2) e t

omit L t in
/-- What parametricity buys: the per-session step of `capiSys` (canonical thread, clean slots) followed by the
    thread model's `record` IS `CApi.topStep` run by thread `t` on the real slots. -/
theorem capi_step_faithful {V : Type} {g0 : Nat → V} (pol : Policy) (prog : Prog) (e e' : Env R) (t : Tid)
    (op : TopOp R.Chunk) (h1 : isTake op = false) (hp : parametricAt pol prog e t op)
    (hrun : topStep pol prog e ⟨t, op⟩ = .ok e') (g : Nat → V) :
    ∃ rec, (capiSys R pol prog V g0).step g (some (clearErr e)) op
        = (some (clearErr e'), .ok e'.log e'.sink e'.drops, rec) ∧
      e'.lastErr = record e.lastErr t rec := by
  unfold parametricAt at hp
  rw [hrun] at hp
  have hcc : clearErr (clearErr e) = clearErr e := rfl
  simp only [capiSys, h1, hcc]
  cases h : topStep pol prog (clearErr e) ⟨canon, op⟩ with
  | ok e'' =>
    rw [h] at hp
    refine ⟨e''.lastErr canon, ?_, hp.2⟩
    have h3 : clearErr e'' = clearErr e' := hp.1.symm
    have hl : e''.log = e'.log := by
      have := congrArg (fun x : Env R => x.log) h3; exact this
    have hs : e''.sink = e'.sink := by
      have := congrArg (fun x : Env R => x.sink) h3; exact this
    have hd : e''.drops = e'.drops := by
      have := congrArg (fun x : Env R => x.drops) h3; exact this
    simp [h3, hl, hs, hd]
  | notPermitted w => rw [h] at hp; exact hp.elim
  | fault f => rw [h] at hp; exact hp.elim

/-! ## Call-backs: `write` / `end` -/

def HΦ (s : HState R) : HState R := { s with env := Φ L t s.env }

theorem HΦ_env (s : HState R) : (HΦ L t s).env = Φ L t s.env := rfl
theorem HΦ_u (s : HState R) : (HΦ L t s).u = s.u := rfl

theorem dropAll_Φ (e : Env R) (l : List Nat) : dropAll (Φ L t e) l = mapRes (Φ L t) (dropAll e l) := by
  induction l generalizing e with
  | nil => rfl
  | cons sid rest ih =>
    simp only [dropAll, releaseHandler_Φ]
    cases releaseHandler e sid with
    | ok e1 => exact ih e1
    | notPermitted w => rfl
    | fault f => rfl

theorem opAllowed_Φ (pol : Policy) (e : Env R) (op : ROp) : opAllowed pol (Φ L t e) op = opAllowed pol e op := by
  cases op <;> cases pol <;> rfl

theorem callR_Φ (pol : Policy) (s : HState R) (op : ROp) :
    callR pol (HΦ L t s) op = mapRes (fun x => (HΦ L t x.1, x.2)) (callR pol s op) := by
  unfold callR
  dsimp only [HΦ]
  simp only [opAllowed_Φ, dropAll_Φ]
  cases opAllowed pol s.env op
  · rfl
  · simp only [if_true]
    cases dropAll s.env (R.unitOp s.u op).2.2 with
    | ok env =>
      simp only [mapRes]
      by_cases hb : bumps op (R.unitOp s.u op).2.1 = true
      · simp only [if_pos hb]; rfl
      · simp only [if_neg hb]
    | notPermitted w => rfl
    | fault f => rfl

theorem alloc_Φ (e : Env R) (p : Payload R) : alloc (Φ L t e) p = (Φ L t (alloc e p).1, (alloc e p).2) := rfl

theorem callR_Φ' (pol : Policy) (u : R.U) (e : Env R) (op : ROp) :
    callR pol ⟨u, Φ L t e⟩ op = mapRes (fun x => (HΦ L t x.1, x.2)) (callR pol ⟨u, e⟩ op) :=
  callR_Φ L t pol ⟨u, e⟩ op

macro "fin_Φ" : tactic =>
  `(tactic| first | rfl | (simp only [save_Φ]; rfl) | (dsimp only [HΦ]; simp only [save_Φ]; rfl) | (simp only [mapRes, ok_bind, HΦ_env, save_Φ]; rfl))

theorem cUnitOp_Φ (pol : Policy) (s : HState R) (op : COp) (hop : COp.isTake op = false) :
    cUnitOp pol t (HΦ L t s) op = mapRes (HΦ L t) (cUnitOp pol canon s op) := by
  cases op with
  | takeLastError dst => simp [COp.isTake] at hop
  | strGet dst f =>
    simp only [cUnitOp, callR_Φ]
    rcases callR pol s (.get f []) with ⟨s1, r⟩ | w | f' <;> try rfl
    cases r <;> rfl
  | optStrGet dst f args =>
    simp only [cUnitOp, callR_Φ]
    cases decodeArgs args with
    | error err => fin_Φ
    | ok args' =>
      dsimp only
      rcases callR pol s (.get f args') with ⟨s1, r⟩ | w | f' <;> try rfl
      cases r <;> try rfl
      rename_i o; cases o <;> rfl
  | intGet f args =>
    simp only [cUnitOp, callR_Φ]
    cases decodeArgs args with
    | error err => fin_Φ
    | ok args' =>
      dsimp only
      rcases callR pol s (.get f args') with ⟨s1, r⟩ | w | f' <;> try rfl
      cases r <;> rfl
  | fallible f args =>
    simp only [cUnitOp, callR_Φ]
    cases decodeArgs args with
    | error err => fin_Φ
    | ok args' =>
      dsimp only
      rcases callR pol s (.call f args' false) with ⟨s1, r⟩ | w | f' <;> try rfl
      cases r <;> fin_Φ
  | infallible f args isHtml =>
    simp only [cUnitOp, callR_Φ]
    cases decodeArgs args with
    | error err => fin_Φ
    | ok args' =>
      dsimp only
      rcases callR pol s (.call f args' isHtml) with ⟨s1, r⟩ | w | f' <;> rfl
  | void f =>
    simp only [cUnitOp, callR_Φ]
    rcases callR pol s (.call f [] false) with ⟨s1, r⟩ | w | f' <;> rfl
  | boolGet f =>
    simp only [cUnitOp, callR_Φ]
    rcases callR pol s (.get f []) with ⟨s1, r⟩ | w | f' <;> try rfl
    cases r <;> rfl
  | rawGet f =>
    simp only [cUnitOp, callR_Φ]
    rcases callR pol s (.get f []) with ⟨s1, r⟩ | w | f' <;> rfl
  | bytesFallible f b isHtml =>
    simp only [cUnitOp, callR_Φ]
    rcases callR pol s (.callBytes f b isHtml) with ⟨s1, r⟩ | w | f' <;> try rfl
    cases r <;> fin_Φ
  | addEndTagHandler hid =>
    simp only [cUnitOp, callR_Φ]
    rcases callR pol s (.addEndTagHandler hid) with ⟨s1, r⟩ | w | f' <;> try rfl
    cases r <;> fin_Φ
  | clearEndTagHandlers =>
    simp only [cUnitOp, callR_Φ]
    rcases callR pol s .clearEndTagHandlers with ⟨s1, r⟩ | w | f' <;> rfl
  | streaming f h =>
    cases h with
    | null => simp only [cUnitOp]; fin_Φ
    | mk rn hw hd script =>
      simp only [cUnitOp]
      cases rn
      · simp only [Bool.not_false, if_true]; fin_Φ
      · simp only [Bool.not_true, Bool.false_eq_true, if_false]
        dsimp only [HΦ]
        simp only [alloc_Φ]
        cases hw
        · simp only [Bool.not_false, if_true, save_Φ, releaseHandler_Φ]
          cases releaseHandler (saveLastError (alloc s.env (.shandler script hd)).1 canon .uninitialized)
            (alloc s.env (.shandler script hd)).2 <;> rfl
        · simp only [Bool.not_true, Bool.false_eq_true, if_false, callR_Φ']
          rcases callR pol ⟨s.u, (alloc s.env (.shandler script hd)).1⟩
            (.streaming f (alloc s.env (.shandler script hd)).2) with ⟨s1, r⟩ | w | f' <;> rfl
  | iterGet dst =>
    simp only [cUnitOp, callR_Φ]
    rcases callR pol s .attrCount with ⟨s1, r⟩ | w | f' <;> try rfl
    cases r <;> rfl
  | iterNext it =>
    simp only [cUnitOp]
    dsimp only [HΦ]
    simp only [validArg_Φ, deref_Φ]
    cases validArg s.env it .attrIter <;> simp only [require] <;> try rfl
    rcases deref s.env it .attrIter with ⟨h, ⟨st, p⟩⟩ | w | f' <;> try rfl
    cases p <;> try rfl
    rename_i pos len scope epoch
    simp only [if_true, ok_bind]
    by_cases h1 : (scope == s.env.scope) = true
    · have h1' : (scope == (Φ L t s.env).scope) = true := h1
      simp only [if_pos h1, if_pos h1', ok_bind]
      by_cases h2 : epoch ≠ s.env.epoch
      · have h2' : epoch ≠ (Φ L t s.env).epoch := h2
        simp only [if_pos h2, if_pos h2']; rfl
      · have h2' : ¬ epoch ≠ (Φ L t s.env).epoch := h2
        simp only [if_neg h2, if_neg h2']
        by_cases h3 : pos < len
        · simp only [if_pos h3]; rfl
        · simp only [if_neg h3]; rfl
    · have h1' : ¬ (scope == (Φ L t s.env).scope) = true := h1
      simp only [if_neg h1, if_neg h1']; rfl
  | iterFree it =>
    simp only [cUnitOp]
    dsimp only [HΦ]
    simp only [validArg_Φ, release_Φ]
    cases validArg s.env it .attrIter <;> simp only [require] <;> try rfl
    rcases release s.env it .attrIter with ⟨e1, h, o⟩ | w | f' <;> rfl
  | attrStrGet dst it f =>
    simp only [cUnitOp]
    dsimp only [HΦ]
    simp only [validArg_Φ, deref_Φ]
    cases validArg s.env it .attrIter <;> simp only [require] <;> try rfl
    rcases deref s.env it .attrIter with ⟨h, ⟨st, p⟩⟩ | w | f' <;> try rfl
    cases p <;> try rfl
    rename_i pos len scope epoch
    simp only [if_true, ok_bind]
    by_cases h1 : (scope == s.env.scope) = true
    · have h1' : (scope == (Φ L t s.env).scope) = true := h1
      simp only [if_pos h1, if_pos h1', ok_bind]
      by_cases h2 : (0 < pos && pos ≤ len) = true
      · simp only [if_pos h2, ok_bind]
        by_cases h3 : epoch = s.env.epoch
        · have e1 : (epoch ≠ s.env.epoch) = False := eq_false (not_not_intro h3)
          have e2 : (epoch ≠ (Φ L t s.env).epoch) = False := eq_false (not_not_intro h3)
          simp only [e1, e2, if_false, callR_Φ']
          rcases callR pol ⟨s.u, s.env⟩ (.attrGet (pos - 1) f) with ⟨s1, r⟩ | w | f' <;> try rfl
          cases r <;> rfl
        · have e1 : (epoch ≠ s.env.epoch) = True := eq_true h3
          have e2 : (epoch ≠ (Φ L t s.env).epoch) = True := eq_true h3
          simp only [e1, e2, if_true]; rfl
      · simp only [if_neg h2]; rfl
    · have h1' : ¬ (scope == (Φ L t s.env).scope) = true := h1
      simp only [if_neg h1, if_neg h1']; rfl
  | strFree v =>
    simp only [cUnitOp]
    dsimp only [HΦ]
    rw [strFree_Φ]
    cases strFree pol s.env v <;> rfl

/-- A list of handler-body calls without `take_last_error`. -/
def opsTakeFree (ops : List COp) : Prop := ∀ op ∈ ops, COp.isTake op = false

theorem cUnitOps_Φ (pol : Policy) (ops : List COp) (hops : opsTakeFree ops) (s : HState R) :
    cUnitOps pol t (HΦ L t s) ops = mapRes (HΦ L t) (cUnitOps pol canon s ops) := by
  induction ops generalizing s with
  | nil => rfl
  | cons op rest ih =>
    simp only [cUnitOps, cUnitOp_Φ L t pol s op (hops op (by simp))]
    cases cUnitOp pol canon s op with
    | ok s1 => exact ih (fun o ho => hops o (by simp [ho])) s1
    | notPermitted w => rfl
    | fault f => rfl

theorem enter_Φ (e : Env R) (hid : Nat) : enter (Φ L t e) hid = (Φ L t (enter e hid).1, (enter e hid).2) := rfl

theorem runHandler_Φ (pol : Policy) (prog : Prog) (hp : takeFree prog) (hid : Nat) (u : R.U) (e : Env R) :
    runHandler pol prog t hid u (Φ L t e) = mapRes (fun x => (HΦ L t x.1, x.2)) (runHandler pol prog canon hid u e) := by
  unfold runHandler
  simp only [enter_Φ]
  have := cUnitOps_Φ L t pol (prog hid).ops (hp hid) ⟨u, (enter e hid).1⟩
  dsimp only [HΦ] at this
  rw [this]
  cases cUnitOps pol canon ⟨u, (enter e hid).1⟩ (prog hid).ops <;> rfl

omit L t in
/-- The tail of `runStreaming` after the handler body ran. -/
def afterOps (sid : Nat) (ret : Int) (r : Res (HState R)) : Res (HState R × Int) := do
  let s ← r
  let env ← releaseHandler s.env sid
  pure ({ s with env := env }, ret)

theorem afterOps_Φ (sid : Nat) (ret : Int) (r : Res (HState R)) :
    afterOps sid ret (mapRes (HΦ L t) r) = mapRes (fun x => (HΦ L t x.1, x.2)) (afterOps sid ret r) := by
  cases r with
  | ok s =>
    simp only [afterOps, mapRes, ok_bind, HΦ_env, releaseHandler_Φ]
    cases releaseHandler s.env sid <;> rfl
  | notPermitted w => rfl
  | fault f => rfl

theorem runStreaming_Φ (pol : Policy) (prog : Prog) (hp : takeFree prog) (sid : Nat) (u : R.U) (e : Env R) :
    runStreaming pol prog t sid u (Φ L t e)
      = mapRes (fun x => (HΦ L t x.1, x.2)) (runStreaming pol prog canon sid u e) := by
  unfold runStreaming
  rw [show (Φ L t e).objs[sid]? = e.objs[sid]? from rfl]
  cases e.objs[sid]? with
  | none => rfl
  | some o =>
    obtain ⟨st, p⟩ := o
    cases st <;> try rfl
    cases p <;> try rfl
    rename_i script hasDrop
    have := cUnitOps_Φ L t pol (prog script).ops (hp script)
      ⟨u, (enter (e.setObj sid ⟨.taken, .shandler script hasDrop⟩) script).1⟩
    show afterOps sid (prog script).ret (cUnitOps pol t
        (HΦ L t ⟨u, (enter (e.setObj sid ⟨.taken, .shandler script hasDrop⟩) script).1⟩) (prog script).ops) = _
    rw [this, afterOps_Φ]
    rfl

theorem drive_Φ (pol : Policy) (prog : Prog) (hp : takeFree prog) (fuel : Nat) (rw : R.Rw)
    (inp : RIn R.Chunk R.U) (e : Env R) :
    drive pol prog t fuel rw inp (Φ L t e)
      = mapRes (fun x => (x.1, Φ L t x.2.1, x.2.2)) (drive pol prog canon fuel rw inp e) := by
  induction fuel generalizing rw inp e with
  | zero => rfl
  | succ fuel ih =>
    unfold drive
    rcases R.step rw inp with ⟨rw', evs, next⟩
    simp only [applyEvents_Φ]
    cases applyEvents e evs with
    | notPermitted w => rfl
    | fault f => rfl
    | ok e1 =>
      simp only [mapRes, ok_bind]
      cases next with
      | done r =>
        cases r with
        | ok x => cases x; rfl
        | error m => rfl
      | invoke h u =>
        cases h with
        | reg hid =>
          simp only [runHandler_Φ L t pol prog hp]
          rcases runHandler pol prog canon hid u e1 with ⟨s, stop⟩ | w | f
          · exact ih _ _ s.env
          · rfl
          · rfl
        | endTag hid =>
          simp only [runHandler_Φ L t pol prog hp]
          rcases runHandler pol prog canon hid u e1 with ⟨s, stop⟩ | w | f
          · exact ih _ _ s.env
          · rfl
          · rfl
        | streaming sid =>
          simp only [runStreaming_Φ L t pol prog hp]
          rcases runStreaming pol prog canon sid u e1 with ⟨s, code⟩ | w | f
          · exact ih _ _ s.env
          · rfl
          · rfl

theorem setObj_Φ (e : Env R) (h : Nat) (o : Obj R) : (Φ L t e).setObj h o = Φ L t (e.setObj h o) := rfl

theorem topStep_Φ_write (pol : Policy) (prog : Prog) (hp : takeFree prog) (e : Env R) (r : Nat) (chunk : R.Chunk) :
    topStep pol prog (Φ L t e) ⟨t, .write r chunk⟩ = mapRes (Φ L t) (topStep pol prog e ⟨canon, .write r chunk⟩) := by
  simp only [topStep, validArg_Φ, deref_Φ]
  cases validArg e r .rewriter <;> simp only [require] <;> try rfl
  rcases deref e r .rewriter with ⟨h, ⟨st, p⟩⟩ | w | f <;> try rfl
  cases p <;> try rfl
  rename_i inner poisoned
  cases inner <;> try rfl
  rename_i rw
  simp only [if_true, ok_bind]
  cases poisoned
  · simp only [Bool.not_false, if_true, ok_bind, drive_Φ L t pol prog hp]
    rcases drive pol prog canon fuelDefault rw (.write chunk) e with ⟨rw1, e1, res⟩ | w | f <;> try rfl
    cases res with
    | ok x => cases x; rfl
    | error m => simp only [mapRes, ok_bind, setObj_Φ, save_Φ]; rfl
  · rfl

theorem topStep_Φ_end (pol : Policy) (prog : Prog) (hp : takeFree prog) (e : Env R) (r : Nat) :
    topStep pol prog (Φ L t e) ⟨t, .end_ r⟩ = mapRes (Φ L t) (topStep pol prog e ⟨canon, .end_ r⟩) := by
  simp only [topStep, validArg_Φ, deref_Φ]
  cases validArg e r .rewriter <;> simp only [require] <;> try rfl
  rcases deref e r .rewriter with ⟨h, ⟨st, p⟩⟩ | w | f <;> try rfl
  cases p <;> try rfl
  rename_i inner poisoned
  cases inner <;> try rfl
  rename_i rw
  simp only [if_true, ok_bind]
  cases poisoned
  · simp only [Bool.not_false, if_true, ok_bind, setObj_Φ, drive_Φ L t pol prog hp]
    rcases drive pol prog canon fuelDefault rw .end_ (e.setObj h ⟨.taken, .rewriter none false⟩)
      with ⟨rw1, e1, res⟩ | w | f <;> try rfl
    simp only [mapRes, ok_bind, applyEvents_Φ]
    cases applyEvents e1 (R.drop rw1) with
    | notPermitted w => rfl
    | fault f => rfl
    | ok e2 =>
      cases res with
      | ok x => cases x; rfl
      | error m => simp only [ok_bind, save_Φ]; rfl
  · rfl

omit L t in
/-- **Thread parametricity of the whole C API** (`capiThreadParametric_statement`): every entry point other than
    `take_last_error`, with all the call-backs it triggers (handlers that do not themselves call
    `take_last_error`), behaves on thread `t` with arbitrary `LAST_ERROR` slots exactly as on the canonical
    thread with clean slots, up to recording its last error into slot `t`. -/
theorem capiThreadParametric : capiThreadParametric_statement R := by
  intro pol prog hp e t op hop
  refine parametricAt_of_Φ (fun L t e => ?_) e t
  cases op with
  | write r chunk => exact topStep_Φ_write L t pol prog hp e r chunk
  | end_ r => exact topStep_Φ_end L t pol prog hp e r
  | builderNew dst => exact topStep_Φ L t pol prog e _ rfl rfl
  | selectorParse dst s => exact topStep_Φ L t pol prog e _ rfl rfl
  | addDoc b r => exact topStep_Φ L t pol prog e _ rfl rfl
  | addElem b sel el cm tx => exact topStep_Φ L t pol prog e _ rfl rfl
  | build dst b enc mem strict esi => exact topStep_Φ L t pol prog e _ rfl rfl
  | rewriterFree r => exact topStep_Φ L t pol prog e _ rfl rfl
  | builderFree b => exact topStep_Φ L t pol prog e _ rfl rfl
  | selectorFree s => exact topStep_Φ L t pol prog e _ rfl rfl
  | strFree v => exact topStep_Φ L t pol prog e _ rfl rfl
  | takeLastError dst => simp [isTake] at hop

/-! ## The thread model over `capiSys` agrees with `CApi.run` -/

/-- The calls of a multi-threaded C client on ONE session, as a schedule of the thread model (session `i`). -/
def sessionSched {V : Type} {g0 : Nat → V} (pol : Policy) (prog : Prog) (i : Nat) (adv : (Nat → V) → Nat → V)
    (cs : List (Call R.Chunk)) : List (Event (capiSys R pol prog V g0)) :=
  cs.map fun c => ⟨c.tid, .inst i c.op, adv⟩

omit L t in
/-- For any assignment of the calls to threads: running the C-API model `CApi.run` (one environment, the real
    thread ids, the real `LAST_ERROR` slots) and running the thread model over per-session steps give the same
    session state and the same `LAST_ERROR` slots. (Calls other than `take_last_error`, which is thread-level in
    the thread model; handlers that do not call it.) -/
theorem capi_session_faithful {V : Type} {g0 : Nat → V} (items : List Item) (pol : Policy) (prog : Prog)
    (hp : takeFree prog) (i : Nat) (adv : (Nat → V) → Nat → V) (cs : List (Call R.Chunk))
    (hcs : ∀ c ∈ cs, isTake c.op = false) (e0 e' : Env R) (w : World (capiSys R pol prog V g0))
    (hrun : Model.CApi.run pol prog e0 cs = .ok e') (hi : w.inst i = some (clearErr e0)) (hl : w.lastErr = e0.lastErr) :
    (Model.Threads.run items w (sessionSched pol prog i adv cs)).inst i = some (clearErr e') ∧
    (Model.Threads.run items w (sessionSched pol prog i adv cs)).lastErr = e'.lastErr := by
  induction cs generalizing e0 w with
  | nil =>
    simp only [Model.CApi.run] at hrun
    cases hrun
    exact ⟨hi, hl⟩
  | cons c rest ih =>
    simp only [Model.CApi.run, Lemmas.CApi.Res.bind_ok] at hrun
    obtain ⟨e1, h1, h2⟩ := hrun
    obtain ⟨tid, op⟩ := c
    have hop : isTake op = false := hcs ⟨tid, op⟩ (by simp)
    obtain ⟨rec, hstep, hrec⟩ := capi_step_faithful (V := V) (g0 := g0) pol prog e0 e1 tid op hop
      (capiThreadParametric pol prog hp e0 tid op hop) h1
      (view items w tid)
    refine ih (fun c hc => hcs c (by simp [hc])) e1 _ h2 ?_ ?_
    · simp only [exec, call, disturb, upd, hi]
      exact (if_pos trivial).trans (congrArg Prod.fst hstep)
    · simp only [exec, call, disturb, hi, hl, hrec]
      exact congrArg (fun r => record e0.lastErr tid r.2.2) hstep

omit L t in
/-- C API, any number of sessions on any number of threads, any interleaving, sessions handed from thread to
    thread: what the client observes of session `i` (results of every call, sink output, drop call-backs) and the
    session's state are those of running session `i`'s calls alone, sequentially. -/
theorem C18_capi_sessions {V : Type} {g0 : Nat → V} (pol : Policy) (prog : Prog)
    (σ : List (Event (capiSys R pol prog V g0))) (i : Nat) :
    ((Model.Threads.run sourceItems (World.fresh _) σ).inst i, (Model.Threads.run sourceItems (World.fresh _) σ).obs i)
      = seqRun (capiSys R pol prog V g0) (instOps i σ) :=
  C18_sequential_prediction C18_threads_side_condition σ i

omit L t in
/-- C API: if no other thread touches the sessions thread `t` works on, then `t`'s `LAST_ERROR` and everything its
    `take_last_error` calls return are what they would be if no other thread existed. -/
theorem C18_capi_last_error {V : Type} {g0 : Nat → V} (pol : Policy) (prog : Prog)
    (σ : List (Event (capiSys R pol prog V g0))) (t : Tid)
    (hpriv : ∀ e ∈ σ, ∀ i, e.instOf = some i → usedBy t σ i = true → e.tid = t) :
    threadView (Model.Threads.run sourceItems (World.fresh _) σ) t
      = threadView (Model.Threads.run sourceItems (World.fresh _) (σ.filter fun e => e.tid == t)) t :=
  C18_last_error_own_calls C18_threads_side_condition σ t hpriv

/-! ## Non-vacuity on the replay machine `MiniR` -/

namespace CApiDemo
open LolHtml.Model.CApi.Mini

@[reducible] def S : Sys := capiSys MiniR .header (fun _ => ⟨[], none, 0⟩) Nat (fun _ => 0)
def adv : (Nat → Nat) → Nat → Nat := fun g j => g j + 1

/-- Two C sessions on three threads. Session 0 (thread 0) fails to parse a selector; thread 1, working on
    session 1, sees no error and its own parse succeeds; session 0 is handed to thread 2, which frees the builder
    (twice: the second call is rejected by the header's precondition); thread 0 still finds ITS error, thread 2
    has none. -/
def σ : List (Event S) := [
  ⟨0, .inst 0 (.builderNew 0), adv⟩,
  ⟨1, .inst 1 (.builderNew 0), adv⟩,
  ⟨0, .inst 0 (.selectorParse 1 [0x61, 0x5b]), adv⟩,
  ⟨1, .takeLastError, adv⟩,
  ⟨1, .inst 1 (.selectorParse 1 [0x61]), adv⟩,
  ⟨0, .migrate 0 2, adv⟩,
  ⟨2, .inst 0 (.builderFree 0), adv⟩,
  ⟨2, .inst 0 (.builderFree 0), adv⟩,
  ⟨0, .takeLastError, adv⟩,
  ⟨2, .takeLastError, adv⟩ ]

example :
    let W := run sourceItems (World.fresh S) σ
    wellOwned (fun _ => none) σ = true ∧
    W.obs 0 = [.notPermitted, .ok [.void, .ptr true, .ptr false] [] [], .ok [.ptr true, .ptr false] [] [],
               .ok [.ptr false] [] []] ∧
    W.obs 1 = [.ok [.ptr false, .ptr false] [] [], .ok [.ptr false] [] []] ∧
    W.tobs 0 = [.taken (some (.rust [0x73]))] ∧ W.tobs 1 = [.taken none] ∧ W.tobs 2 = [.taken none] ∧
    (seqRun S (instOps 0 σ)).2 = W.obs 0 := by
  decide +kernel

end CApiDemo

end LolHtml.Thm.C18
