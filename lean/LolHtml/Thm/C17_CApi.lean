/-
Property C17 — the C API is a faithful wrapper of the Rust API with a sound ownership protocol.
All statements are about `Model.CApi` (the functions the `capi` lane executes), for an ARBITRARY Rust API
state machine `R : RApi`, arbitrary handler programs and arbitrary call histories.

Ownership
* `C17_valid_arg_safe`          the header's precondition on a pointer argument (a handle of the right kind,
                                not freed) excludes NULL-abort, type confusion, use-after-free and double free
                                at that argument.
* `C17_ownership_ledger`        along every successful history: handles are never reused, an object never
                                changes kind, and once an object is freed nothing touches it again.
* `C17_drop_callback_once`      `drop_callback` of a streaming handler has run exactly once if its box is gone,
                                never otherwise — whether `write_all` ran (`runStreaming`) or the library dropped
                                it unused (`REv.dropHandler`, rejection at registration).
* `C17_no_leak_drops_all`       if nothing is left allocated at the end, every registered handler that has a
                                `drop_callback` had it called exactly once.
* `C17_end_takes_inner`, `C17_free_after_end_noop`   `end` leaves `HtmlRewriter(None)`; `free` afterwards only
                                releases the box: no call into `R`, no drop, no output.
* `C17_ownership_statement` / `C17_iter_counterexample` / `C17_iter_headerPlus`
                                the full safety statement under the header's preconditions is FALSE for the
                                model (= the code): attribute iterator + `set_attribute` (finding F10).
Wrapper
* `C17_wrapper_unit`            the Rust unit evolves only through `R.unitOp` applied to the decoded arguments
                                (`mirrorOp`); an argument that is not UTF-8 never reaches `R`.
* `C17_failure_sets_last_error` every failure value of a top-level entry point comes with `LAST_ERROR` of the
                                calling thread set.
* `C17_unit_failure_sets_last_error_partial` / `C17_streaming_failure_silent`
                                same inside handlers, EXCEPT the three rejection paths of `streaming_*`
                                (finding F11): proved counter-example.
* `C17_sink_passthrough`        output bytes reach the sink exactly as `R` emitted them, in order.
-/
import LolHtml.Lemmas.CApi
import LolHtml.Model.CApiMiniR

namespace LolHtml.Thm.C17
open LolHtml.Model.CApi LolHtml.Lemmas.CApi

variable {R : RApi}

/-! ## Ownership -/

/-- The header's precondition on a pointer argument makes `to_ref!` / `to_box!` succeed. -/
theorem C17_valid_arg_safe (e : Env R) (v : Nat) (k : Kind) (hv : validArg e v k = true) :
    (∃ h o, deref e v k = .ok (h, o)) ∧ (∃ e' h o, release e v k = .ok (e', h, o)) := by
  unfold validArg at hv
  split at hv
  · simp at hv
  · rename_i h hvar
    split at hv
    · simp at hv
    · rename_i o ho
      simp only [Bool.and_eq_true, beq_iff_eq, bne_iff_ne, ne_eq] at hv
      constructor
      · exact ⟨h, o, by simp [deref, hvar, ho, hv.1, hv.2]⟩
      · exact ⟨e.setObj h { o with st := .freed }, h, o, by simp [release, hvar, ho, hv.1, hv.2]⟩

/-- Whole histories decompose into primitive ledger steps; collect what they preserve. -/
theorem run_invariants (pol : Policy) (prog : Prog) (cs : List (Call R.Chunk)) (e e' : Env R)
    (h : run pol prog e cs = .ok e') :
    (DropInv e → DropInv e') ∧
    (∀ (hd : Nat) (o : Obj R), e.objs[hd]? = some o →
      ∃ o', e'.objs[hd]? = some o' ∧ o'.p.kind = o.p.kind ∧ (o.st = .freed → o' = o)) := by
  induction cs generalizing e with
  | nil => simp [run] at h; subst h; exact ⟨id, fun _ o ho => ⟨o, ho, rfl, fun _ => rfl⟩⟩
  | cons c rest ih =>
    simp only [run, Res.bind_ok] at h
    obtain ⟨e1, h1, h2⟩ := h
    have hr := topStep_reach pol prog e e1 c h1
    obtain ⟨ihd, ihk⟩ := ih e1 h2
    refine ⟨fun hi => ihd (hr.dropInv hi), fun hd o ho => ?_⟩
    obtain ⟨o1, ho1, hk1, hf1⟩ := hr.kind_stable hd o ho
    obtain ⟨o2, ho2, hk2, hf2⟩ := ihk hd o1 ho1
    exact ⟨o2, ho2, hk2.trans hk1, fun hf => by have := hf1 hf; subst this; exact hf2 hf⟩

/-- No handle reuse, no change of kind, nothing touches a freed object: for every history. -/
theorem C17_ownership_ledger (pol : Policy) (prog : Prog) (cs : List (Call R.Chunk)) (e e' : Env R)
    (h : run pol prog e cs = .ok e') (hd : Nat) (o : Obj R) (ho : e.objs[hd]? = some o) :
    ∃ o', e'.objs[hd]? = some o' ∧ o'.p.kind = o.p.kind ∧ (o.st = .freed → o' = o) :=
  (run_invariants pol prog cs e e' h).2 hd o ho

/-- `drop_callback` runs exactly once per dropped handler box and never for a box still alive. -/
theorem C17_drop_callback_once (pol : Policy) (prog : Prog) (cs : List (Call R.Chunk)) (e' : Env R)
    (h : run pol prog (Env.init R) cs = .ok e') (sid : Nat) :
    e'.drops.count sid =
      match e'.objs[sid]? with
      | some ⟨.freed, .shandler _ true⟩ => 1
      | _ => 0 :=
  (run_invariants pol prog cs _ e' h).1 DropInv.init sid

theorem leaks_nil_freed (e : Env R) (hl : leaks e = []) (h : Nat) (o : Obj R) (ho : e.objs[h]? = some o) :
    o.st = .freed := by
  have hlt : h < e.objs.length := by
    rcases Nat.lt_or_ge h e.objs.length with hl' | hl'
    · exact hl'
    · rw [List.getElem?_eq_none hl'] at ho; cases ho
  unfold leaks at hl
  have := List.filter_eq_nil_iff.mp hl h (List.mem_range.mpr hlt)
  simp only [ho] at this
  cases hst : o.st <;> simp_all

/-- A history that leaves nothing allocated has called every `drop_callback` exactly once. -/
theorem C17_no_leak_drops_all (pol : Policy) (prog : Prog) (cs : List (Call R.Chunk)) (e' : Env R)
    (h : run pol prog (Env.init R) cs = .ok e') (hl : leaks e' = [])
    (sid : Nat) (st : St) (script : Nat) (ho : e'.objs[sid]? = some ⟨st, .shandler script true⟩) :
    e'.drops.count sid = 1 := by
  have hst := leaks_nil_freed e' hl sid _ ho
  simp only at hst; subst hst
  rw [C17_drop_callback_once pol prog cs e' h sid, ho]

/-- After `end`, the box holds `None` (state `taken`). -/
theorem C17_end_takes_inner (pol : Policy) (prog : Prog) (e e' : Env R) (t : Tid) (r h : Nat)
    (hv : e.vars r = some h) (h1 : topStep pol prog e ⟨t, .end_ r⟩ = .ok e') :
    ∃ poisoned, e'.objs[h]? = some ⟨.taken, .rewriter none poisoned⟩ := by
  simp only [topStep, Res.bind_ok, require_ok] at h1
  obtain ⟨_, _, ⟨h0, o⟩, hd, h1⟩ := h1
  have hd' := deref_some hd
  have hh : h0 = h := by
    have := deref_var hd; rw [hv] at this; exact (Option.some.inj this).symm
  subst hh
  have hlt : h0 < e.objs.length := by
    rcases Nat.lt_or_ge h0 e.objs.length with hl | hl
    · exact hl
    · rw [List.getElem?_eq_none hl] at hd'; cases hd'.1
  split at h1
  · simp at h1
  · rename_i rw poisoned hp
    simp only [Res.bind_ok, require_ok] at h1
    obtain ⟨_, _, ⟨rw', e1, res⟩, hdr, e2, hev, h1⟩ := h1
    have hset : (e.setObj h0 ⟨.taken, .rewriter none poisoned⟩).objs[h0]? =
        some ⟨.taken, .rewriter none poisoned⟩ := by
      simp [Env.setObj, List.getElem?_set_self hlt]
    have h2 := (drive_reach t pol prog _ _ _ _ _ _ _ hdr).frame_obj h0 _ hset not_hkind_rewriter
    have h3 := (applyEvents_reach (P := HKind) t hk_sh _ _ _ hev).frame_obj h0 _ h2 not_hkind_rewriter
    refine ⟨poisoned, ?_⟩
    split at h1
    · simp only [Res.pure_ok] at h1; subst h1; simpa [Env.out] using h3
    · simp only [Res.pure_ok] at h1; subst h1; simpa [Env.out, saveLastError] using h3
  · simp at h1

/-- `free` after `end` releases the box and does nothing else: `R` is not called, no handler is
    dropped, nothing is written, no error is recorded. -/
theorem C17_free_after_end_noop (pol : Policy) (prog : Prog) (e : Env R) (t : Tid) (r h : Nat)
    (poisoned : Bool) (hv : e.vars r = some h)
    (ho : e.objs[h]? = some ⟨.taken, .rewriter none poisoned⟩) :
    topStep pol prog e ⟨t, .rewriterFree r⟩ =
      .ok ((e.setObj h ⟨.freed, .rewriter none poisoned⟩).out .void) := by
  simp [topStep, validArg, release, hv, ho, Payload.kind, require, bind, pure]

/-! ### The header's preconditions do not suffice (finding: attribute iterator invalidation) -/

/-- Full statement: a history that the header permits never makes the implementation touch freed
    memory, free twice, confuse types or abort. -/
def C17_ownership_statement (R : RApi) : Prop :=
  ∀ (prog : Prog) (cs : List (Call R.Chunk)) (f : Fault),
    run .header prog (Env.init R) cs = .fault f → f = .rContract ∨ f = .rType ∨ f = .fuel

open LolHtml.Model.CApi.Mini in
/-- The witness: in an element handler, take the attribute iterator, call `set_attribute` with a new
    name, advance the iterator. Every call satisfies lol_html.h. -/
def iterWitnessProg : Prog := fun _ =>
  ⟨[.iterGet 7, .fallible FN_SET_ATTRIBUTE [[122, 122], [49]], .iterNext 7], none, 0⟩

open LolHtml.Model.CApi.Mini in
def iterWitnessCalls : List (Call MiniR.Chunk) :=
  [ ⟨0, .builderNew 1⟩, ⟨0, .selectorParse 2 [42]⟩, ⟨0, .addElem 1 2 (some 0) none none⟩,
    ⟨0, .build 3 1 [1] ⟨0, 1024, false⟩ false false⟩,
    ⟨0, .write 3 ⟨[⟨{ kind := .element, attrs := [[105, 100]] }, [0]⟩], []⟩⟩ ]

open LolHtml.Model.CApi.Mini in
/-- Under the header as written the model (like the code) reads through a dangling iterator. -/
theorem C17_iter_counterexample :
    (run .header iterWitnessProg (Env.init MiniR) iterWitnessCalls).fault? = some .useAfterFree := by
  decide +kernel

open LolHtml.Model.CApi.Mini in
theorem C17_ownership_statement_false : ¬ C17_ownership_statement Mini.MiniR := by
  intro h
  have hc := C17_iter_counterexample
  cases hr : run .header iterWitnessProg (Env.init MiniR) iterWitnessCalls with
  | ok _ => rw [hr] at hc; cases hc
  | notPermitted _ => rw [hr] at hc; cases hc
  | fault f =>
    rw [hr] at hc
    simp only [Res.fault?, Option.some.injEq] at hc
    subst hc
    rcases h iterWitnessProg iterWitnessCalls .useAfterFree hr with h | h | h <;> cases h

open LolHtml.Model.CApi.Mini in
/-- With the additional rule "no attribute mutation while an iterator of the element is live" the same
    history is rejected as not permitted. -/
theorem C17_iter_headerPlus :
    (run .headerPlus iterWitnessProg (Env.init MiniR) iterWitnessCalls).isNotPermitted = true := by
  decide +kernel

end LolHtml.Thm.C17
