/-
Property C17 — the C API is a faithful wrapper of the Rust API with a sound ownership protocol.
All statements are about `Model.CApi` (the functions the `capi` lane executes), for an ARBITRARY Rust API
state machine `R : RApi`, arbitrary handler programs and arbitrary call histories.

Ownership
* `C17_valid_arg_safe`          the header's precondition on a pointer argument (a handle of the right kind,
                                not freed) excludes NULL-abort, type confusion, use-after-free and double free
                                at that argument.
* `C17_ownership_ledger`        along every successful history: handles are never reused, an object never
                                changes kind, and once an object is freed nothing touches it again.
* `C17_drop_callback_once`      `drop_callback` of a streaming handler has run exactly once if its box is gone,
                                never otherwise — whether `write_all` ran (`runStreaming`) or the library dropped
                                it unused (`REv.dropHandler`, rejection at registration).
* `C17_no_leak_drops_all`       if nothing is left allocated at the end, every registered handler that has a
                                `drop_callback` had it called exactly once.
* `C17_end_takes_inner`, `C17_free_after_end_noop`   `end` leaves `HtmlRewriter(None)`; `free` afterwards only
                                releases the box: no call into `R`, no drop, no output.
* `C17_ownership_statement` / `C17_iter_counterexample` / `C17_iter_headerPlus`
                                the full safety statement under the header's preconditions is FALSE for the
                                model (= the code): attribute iterator + `set_attribute` (finding F20).
Wrapper
* `C17_wrapper_unit`            the Rust unit evolves only through `R.unitOp` applied to the decoded arguments
                                (`mirrorOp`); an argument that is not UTF-8 never reaches `R`.
* `C17_failure_sets_last_error` every failure value of a top-level entry point comes with `LAST_ERROR` of the
                                calling thread set.
* `C17_unit_failure_sets_last_error` / `C17_streaming_failure_reported`
                                same for every entry point called inside handlers, including (since /repo
                                9f8617f, finding F21 fixed) the three rejection paths of `streaming_*`.
* `C17_str_marshalling_new/_opt/_injective`
                                `Str::new` / `Str::from_opt`: the C caller gets non-NULL + the exact bytes for
                                `String` / `Some(v)` (also for ""), NULL exactly for `None`.
* `C17_utf8_never_reaches_R`    an argument that is not valid UTF-8 is answered with the failure value and the
                                `Utf8Error` in `LAST_ERROR`; the unit is untouched.
(sink bytes are handed through unchanged by construction of `applyEvents`; their equality with the Rust run is
 checked by the lane oracle, not by a theorem.)
-/
import LolHtml.Lemmas.CApi
import LolHtml.Model.CApiMiniR

namespace LolHtml.Thm.C17
open LolHtml.Model.CApi LolHtml.Lemmas.CApi

variable {R : RApi}

/-! ## Ownership -/

/-- The header's precondition on a pointer argument makes `to_ref!` / `to_box!` succeed. -/
theorem C17_valid_arg_safe (e : Env R) (v : Nat) (k : Kind) (hv : validArg e v k = true) :
    (∃ h o, deref e v k = .ok (h, o)) ∧ (∃ e' h o, release e v k = .ok (e', h, o)) := by
  unfold validArg at hv
  split at hv
  · simp at hv
  · rename_i h hvar
    split at hv
    · simp at hv
    · rename_i o ho
      simp only [Bool.and_eq_true, beq_iff_eq, bne_iff_ne, ne_eq] at hv
      constructor
      · exact ⟨h, o, by simp [deref, hvar, ho, hv.1, hv.2]⟩
      · exact ⟨e.setObj h { o with st := .freed }, h, o, by simp [release, hvar, ho, hv.1, hv.2]⟩

/-- Whole histories decompose into primitive ledger steps; collect what they preserve. -/
theorem run_invariants (pol : Policy) (prog : Prog) (cs : List (Call R.Chunk)) (e e' : Env R)
    (h : run pol prog e cs = .ok e') :
    (DropInv e → DropInv e') ∧
    (∀ (hd : Nat) (o : Obj R), e.objs[hd]? = some o →
      ∃ o', e'.objs[hd]? = some o' ∧ o'.p.kind = o.p.kind ∧ (o.st = .freed → o' = o)) := by
  induction cs generalizing e with
  | nil => simp [run] at h; subst h; exact ⟨id, fun _ o ho => ⟨o, ho, rfl, fun _ => rfl⟩⟩
  | cons c rest ih =>
    simp only [run, Res.bind_ok] at h
    obtain ⟨e1, h1, h2⟩ := h
    have hr := topStep_reach pol prog e e1 c h1
    obtain ⟨ihd, ihk⟩ := ih e1 h2
    refine ⟨fun hi => ihd (hr.dropInv hi), fun hd o ho => ?_⟩
    obtain ⟨o1, ho1, hk1, hf1⟩ := hr.kind_stable hd o ho
    obtain ⟨o2, ho2, hk2, hf2⟩ := ihk hd o1 ho1
    exact ⟨o2, ho2, hk2.trans hk1, fun hf => by have := hf1 hf; subst this; exact hf2 hf⟩

/-- No handle reuse, no change of kind, nothing touches a freed object: for every history. -/
theorem C17_ownership_ledger (pol : Policy) (prog : Prog) (cs : List (Call R.Chunk)) (e e' : Env R)
    (h : run pol prog e cs = .ok e') (hd : Nat) (o : Obj R) (ho : e.objs[hd]? = some o) :
    ∃ o', e'.objs[hd]? = some o' ∧ o'.p.kind = o.p.kind ∧ (o.st = .freed → o' = o) :=
  (run_invariants pol prog cs e e' h).2 hd o ho

/-- `drop_callback` runs exactly once per dropped handler box and never for a box still alive. -/
theorem C17_drop_callback_once (pol : Policy) (prog : Prog) (cs : List (Call R.Chunk)) (e' : Env R)
    (h : run pol prog (Env.init R) cs = .ok e') (sid : Nat) :
    e'.drops.count sid =
      match e'.objs[sid]? with
      | some ⟨.freed, .shandler _ true⟩ => 1
      | _ => 0 :=
  (run_invariants pol prog cs _ e' h).1 DropInv.init sid

theorem leaks_nil_freed (e : Env R) (hl : leaks e = []) (h : Nat) (o : Obj R) (ho : e.objs[h]? = some o) :
    o.st = .freed := by
  have hlt : h < e.objs.length := by
    rcases Nat.lt_or_ge h e.objs.length with hl' | hl'
    · exact hl'
    · rw [List.getElem?_eq_none hl'] at ho; cases ho
  unfold leaks at hl
  have := List.filter_eq_nil_iff.mp hl h (List.mem_range.mpr hlt)
  simp only [ho] at this
  cases hst : o.st <;> simp_all

/-- A history that leaves nothing allocated has called every `drop_callback` exactly once. -/
theorem C17_no_leak_drops_all (pol : Policy) (prog : Prog) (cs : List (Call R.Chunk)) (e' : Env R)
    (h : run pol prog (Env.init R) cs = .ok e') (hl : leaks e' = [])
    (sid : Nat) (st : St) (script : Nat) (ho : e'.objs[sid]? = some ⟨st, .shandler script true⟩) :
    e'.drops.count sid = 1 := by
  have hst := leaks_nil_freed e' hl sid _ ho
  simp only at hst; subst hst
  rw [C17_drop_callback_once pol prog cs e' h sid, ho]

/-- After `end`, the box holds `None` (state `taken`). -/
theorem C17_end_takes_inner (pol : Policy) (prog : Prog) (e e' : Env R) (t : Tid) (r h : Nat)
    (hv : e.vars r = some h) (h1 : topStep pol prog e ⟨t, .end_ r⟩ = .ok e') :
    ∃ poisoned, e'.objs[h]? = some ⟨.taken, .rewriter none poisoned⟩ := by
  simp only [topStep, Res.bind_ok, require_ok] at h1
  obtain ⟨_, _, ⟨h0, o⟩, hd, h1⟩ := h1
  have hd' := deref_some hd
  have hh : h0 = h := by
    have := deref_var hd; rw [hv] at this; exact (Option.some.inj this).symm
  subst hh
  have hlt : h0 < e.objs.length := by
    rcases Nat.lt_or_ge h0 e.objs.length with hl | hl
    · exact hl
    · rw [List.getElem?_eq_none hl] at hd'; cases hd'.1
  split at h1
  · simp at h1
  · rename_i rw poisoned hp
    simp only [Res.bind_ok, require_ok] at h1
    obtain ⟨_, _, ⟨rw', e1, res⟩, hdr, e2, hev, h1⟩ := h1
    have hset : (e.setObj h0 ⟨.taken, .rewriter none poisoned⟩).objs[h0]? =
        some ⟨.taken, .rewriter none poisoned⟩ := by
      simp [Env.setObj, List.getElem?_set_self hlt]
    have h2 := (drive_reach t pol prog _ _ _ _ _ _ _ hdr).frame_obj h0 _ hset not_hkind_rewriter
    have h3 := (applyEvents_reach (P := HKind) t hk_sh _ _ _ hev).frame_obj h0 _ h2 not_hkind_rewriter
    refine ⟨poisoned, ?_⟩
    split at h1
    · simp only [Res.pure_ok] at h1; subst h1; simpa [Env.out] using h3
    · simp only [Res.pure_ok] at h1; subst h1; simpa [Env.out, saveLastError] using h3
  · simp at h1

/-- `free` after `end` releases the box and does nothing else: `R` is not called, no handler is
    dropped, nothing is written, no error is recorded. -/
theorem C17_free_after_end_noop (pol : Policy) (prog : Prog) (e : Env R) (t : Tid) (r h : Nat)
    (poisoned : Bool) (hv : e.vars r = some h)
    (ho : e.objs[h]? = some ⟨.taken, .rewriter none poisoned⟩) :
    topStep pol prog e ⟨t, .rewriterFree r⟩ =
      .ok ((e.setObj h ⟨.freed, .rewriter none poisoned⟩).out .void) := by
  simp [topStep, validArg, release, hv, ho, Payload.kind, require, bind, pure]

/-! ### The header's preconditions do not suffice (finding: attribute iterator invalidation) -/

/-- Full statement: a history that the header permits never makes the implementation touch freed
    memory, free twice, confuse types or abort. -/
def C17_ownership_statement (R : RApi) : Prop :=
  ∀ (prog : Prog) (cs : List (Call R.Chunk)) (f : Fault),
    run .header prog (Env.init R) cs = .fault f → f = .rContract ∨ f = .rType ∨ f = .fuel

open LolHtml.Model.CApi.Mini in
/-- The witness: in an element handler, take the attribute iterator, call `set_attribute` with a new
    name, advance the iterator. Every call satisfies lol_html.h. -/
def iterWitnessProg : Prog := fun _ =>
  ⟨[.iterGet 7, .fallible FN_SET_ATTRIBUTE [[122, 122], [49]], .iterNext 7], none, 0⟩

open LolHtml.Model.CApi.Mini in
def iterWitnessCalls : List (Call MiniR.Chunk) :=
  [ ⟨0, .builderNew 1⟩, ⟨0, .selectorParse 2 [42]⟩, ⟨0, .addElem 1 2 (some 0) none none⟩,
    ⟨0, .build 3 1 [1] ⟨0, 1024, false⟩ false false⟩,
    ⟨0, .write 3 ⟨[⟨{ kind := .element, attrs := [([105, 100], [])] }, [0]⟩], []⟩⟩ ]

open LolHtml.Model.CApi.Mini in
/-- Under the header as written the model (like the code) reads through a dangling iterator. -/
theorem C17_iter_counterexample :
    (run .header iterWitnessProg (Env.init MiniR) iterWitnessCalls).fault? = some .useAfterFree := by
  decide +kernel

open LolHtml.Model.CApi.Mini in
theorem C17_ownership_statement_false : ¬ C17_ownership_statement Mini.MiniR := by
  intro h
  have hc := C17_iter_counterexample
  cases hr : run .header iterWitnessProg (Env.init MiniR) iterWitnessCalls with
  | ok _ => rw [hr] at hc; cases hc
  | notPermitted _ => rw [hr] at hc; cases hc
  | fault f =>
    rw [hr] at hc
    simp only [Res.fault?, Option.some.injEq] at hc
    subst hc
    rcases h iterWitnessProg iterWitnessCalls .useAfterFree hr with h | h | h <;> cases h

open LolHtml.Model.CApi.Mini in
/-- With the additional rule "no attribute mutation while an iterator of the element is live" the same
    history is rejected as not permitted. -/
theorem C17_iter_headerPlus :
    (run .headerPlus iterWitnessProg (Env.init MiniR) iterWitnessCalls).isNotPermitted = true := by
  decide +kernel

/-! ## Wrapper: decode arguments ; call `R` ; encode the result -/

theorem callR_spec {pol : Policy} {s s' : HState R} {op : ROp} {r : RRes}
    (h : callR pol s op = .ok (s', r)) :
    s'.u = (R.unitOp s.u op).1 ∧ r = (R.unitOp s.u op).2.1 := by
  unfold callR at h
  split at h
  · split at h
    · simp only [Res.ok.injEq, Prod.mk.injEq] at h
      obtain ⟨rfl, rfl⟩ := h; exact ⟨rfl, rfl⟩
    · simp at h
    · simp at h
  · simp at h

/-- The Rust-level call a C entry point makes, if any: arguments decoded with `str::from_utf8`, the
    boxed streaming handler identified by the handle it gets, the attribute by the iterator position. -/
def mirrorOp (e : Env R) : COp → Option ROp
  | .strGet _ f | .boolGet f | .rawGet f => some (.get f [])
  | .optStrGet _ f args | .intGet f args =>
    match decodeArgs args with
    | .ok a => some (.get f a)
    | .error _ => none
  | .fallible f args =>
    match decodeArgs args with
    | .ok a => some (.call f a false)
    | .error _ => none
  | .infallible f args isHtml =>
    match decodeArgs args with
    | .ok a => some (.call f a isHtml)
    | .error _ => none
  | .void f => some (.call f [] false)
  | .bytesFallible f b isHtml => some (.callBytes f b isHtml)
  | .addEndTagHandler hid => some (.addEndTagHandler hid)
  | .clearEndTagHandlers => some .clearEndTagHandlers
  | .streaming f (.mk true true _ _) => some (.streaming f e.objs.length)
  | .streaming _ _ => none
  | .iterGet _ => some .attrCount
  | .attrStrGet _ it f =>
    match e.vars it with
    | some h =>
      match e.objs[h]? with
      | some ⟨_, .attrIter pos _ _ _⟩ => some (.attrGet (pos - 1) f)
      | _ => none
    | none => none
  | .iterNext _ | .iterFree _ | .strFree _ | .takeLastError _ => none

/-- Every entry point on a rewritable unit changes the unit exactly as the mirrored Rust call does,
    and not at all when there is none (C-only bookkeeping, or arguments that do not decode). -/
theorem C17_wrapper_unit (pol : Policy) (t : Tid) (s s' : HState R) (op : COp)
    (h : cUnitOp pol t s op = .ok s') :
    s'.u = match mirrorOp s.env op with
      | some rop => (R.unitOp s.u rop).1
      | none => s.u := by
  cases op with
  | strGet dst f =>
    simp only [cUnitOp, Res.bind_ok] at h
    obtain ⟨⟨s1, r⟩, hc, h⟩ := h
    have hc := (callR_spec hc).1
    split at h
    · simp only [Res.pure_ok] at h; subst h; simpa [mirrorOp] using hc
    · simp at h
  | optStrGet dst f args =>
    simp only [cUnitOp] at h
    split at h
    · rename_i err hdec
      simp only [Res.pure_ok] at h; subst h; simp [mirrorOp, hdec]
    · rename_i a hdec
      simp only [Res.bind_ok] at h
      obtain ⟨⟨s1, r⟩, hc, h⟩ := h
      have hc := (callR_spec hc).1
      split at h
      · simp only [Res.pure_ok] at h; subst h; simpa [mirrorOp, hdec] using hc
      · simp only [Res.pure_ok] at h; subst h; simpa [mirrorOp, hdec] using hc
      · simp at h
  | intGet f args =>
    simp only [cUnitOp] at h
    split at h
    · rename_i err hdec
      simp only [Res.pure_ok] at h; subst h; simp [mirrorOp, hdec]
    · rename_i a hdec
      simp only [Res.bind_ok] at h
      obtain ⟨⟨s1, r⟩, hc, h⟩ := h
      have hc := (callR_spec hc).1
      split at h
      · simp only [Res.pure_ok] at h; subst h; simpa [mirrorOp, hdec] using hc
      · simp at h
  | fallible f args =>
    simp only [cUnitOp] at h
    split at h
    · rename_i err hdec
      simp only [Res.pure_ok] at h; subst h; simp [mirrorOp, hdec]
    · rename_i a hdec
      simp only [Res.bind_ok] at h
      obtain ⟨⟨s1, r⟩, hc, h⟩ := h
      have hc := (callR_spec hc).1
      split at h
      · simp only [Res.pure_ok] at h; subst h; simpa [mirrorOp, hdec] using hc
      · simp only [Res.pure_ok] at h; subst h; simpa [mirrorOp, hdec] using hc
      · simp at h
  | infallible f args isHtml =>
    simp only [cUnitOp] at h
    split at h
    · rename_i err hdec
      simp only [Res.pure_ok] at h; subst h; simp [mirrorOp, hdec]
    · rename_i a hdec
      simp only [Res.bind_ok, Res.pure_ok] at h
      obtain ⟨⟨s1, r⟩, hc, rfl⟩ := h
      simpa [mirrorOp, hdec] using (callR_spec hc).1
  | void f =>
    simp only [cUnitOp, Res.bind_ok, Res.pure_ok] at h
    obtain ⟨⟨s1, r⟩, hc, rfl⟩ := h
    simpa [mirrorOp] using (callR_spec hc).1
  | boolGet f =>
    simp only [cUnitOp, Res.bind_ok] at h
    obtain ⟨⟨s1, r⟩, hc, h⟩ := h
    have hc := (callR_spec hc).1
    split at h
    · simp only [Res.pure_ok] at h; subst h; simpa [mirrorOp] using hc
    · simp at h
  | rawGet f =>
    simp only [cUnitOp, Res.bind_ok, Res.pure_ok] at h
    obtain ⟨⟨s1, r⟩, hc, rfl⟩ := h
    simpa [mirrorOp] using (callR_spec hc).1
  | bytesFallible f b isHtml =>
    simp only [cUnitOp, Res.bind_ok] at h
    obtain ⟨⟨s1, r⟩, hc, h⟩ := h
    have hc := (callR_spec hc).1
    split at h
    · simp only [Res.pure_ok] at h; subst h; simpa [mirrorOp] using hc
    · simp only [Res.pure_ok] at h; subst h; simpa [mirrorOp] using hc
    · simp at h
  | addEndTagHandler hid =>
    simp only [cUnitOp, Res.bind_ok] at h
    obtain ⟨⟨s1, r⟩, hc, h⟩ := h
    have hc := (callR_spec hc).1
    split at h
    · simp only [Res.pure_ok] at h; subst h; simpa [mirrorOp] using hc
    · simp only [Res.pure_ok] at h; subst h; simpa [mirrorOp] using hc
    · simp at h
  | clearEndTagHandlers =>
    simp only [cUnitOp, Res.bind_ok, Res.pure_ok] at h
    obtain ⟨⟨s1, r⟩, hc, rfl⟩ := h
    simpa [mirrorOp] using (callR_spec hc).1
  | streaming f a =>
    simp only [cUnitOp] at h
    split at h
    · simp only [Res.pure_ok] at h; subst h; simp [mirrorOp]
    · rename_i reservedNull hasWriteAll hasDrop script
      split at h
      · rename_i hres
        simp only [Res.pure_ok] at h; subst h
        cases reservedNull <;> simp_all [mirrorOp]
      · rename_i hres
        have hres' : reservedNull = true := by cases reservedNull <;> simp_all
        subst hres'
        split at h
        · rename_i hw
          have hw' : hasWriteAll = false := by cases hasWriteAll <;> simp_all
          subst hw'
          simp only [Res.bind_ok, Res.pure_ok] at h
          obtain ⟨env, _, rfl⟩ := h
          simp [mirrorOp]
        · rename_i hw
          have hw' : hasWriteAll = true := by cases hasWriteAll <;> simp_all
          subst hw'
          simp only [Res.bind_ok, Res.pure_ok] at h
          obtain ⟨⟨s1, r⟩, hc, rfl⟩ := h
          simpa [mirrorOp, alloc] using (callR_spec hc).1
  | iterGet dst =>
    simp only [cUnitOp, Res.bind_ok] at h
    obtain ⟨⟨s1, r⟩, hc, h⟩ := h
    have hc := (callR_spec hc).1
    split at h
    · simp only [Res.pure_ok] at h; subst h; simpa [mirrorOp] using hc
    · simp at h
  | iterNext it =>
    simp only [cUnitOp, Res.bind_ok, require_ok] at h
    obtain ⟨_, _, ⟨h0, o⟩, hd, h⟩ := h
    split at h
    · simp only [Res.bind_ok, require_ok] at h
      obtain ⟨_, _, h⟩ := h
      split at h
      · simp at h
      · split at h
        · simp only [Res.pure_ok] at h; subst h; simp [mirrorOp]
        · simp only [Res.pure_ok] at h; subst h; simp [mirrorOp]
    · simp at h
  | iterFree it =>
    simp only [cUnitOp, Res.bind_ok, require_ok, Res.pure_ok] at h
    obtain ⟨_, _, ⟨env, h1, o1⟩, hrel, rfl⟩ := h
    simp [mirrorOp]
  | attrStrGet dst it f =>
    simp only [cUnitOp, Res.bind_ok, require_ok] at h
    obtain ⟨_, _, ⟨h0, o⟩, hd, h⟩ := h
    have hv := deref_var hd
    have ho := (deref_some hd).1
    split at h
    · rename_i pos len scope epoch hp
      simp only [Res.bind_ok, require_ok] at h
      obtain ⟨_, _, _, _, h⟩ := h
      split at h
      · simp at h
      · simp only [Res.bind_ok] at h
        obtain ⟨⟨s1, r⟩, hc, h⟩ := h
        have hc := (callR_spec hc).1
        obtain ⟨st, p⟩ := o
        simp only at hp; subst hp
        split at h
        · simp only [Res.pure_ok] at h; subst h; simpa [mirrorOp, hv, ho] using hc
        · simp at h
    · simp at h
  | strFree v =>
    simp only [cUnitOp, Res.bind_ok, Res.pure_ok] at h
    obtain ⟨env, hf, rfl⟩ := h
    simp [mirrorOp]
  | takeLastError dst =>
    simp only [cUnitOp, Res.pure_ok] at h
    subst h; simp [mirrorOp]

/-- A whole handler body: the unit it returns to `R` is the one obtained by the mirrored Rust calls. -/
theorem C17_wrapper_script (pol : Policy) (t : Tid) (ops : List COp) (s s' : HState R)
    (h : cUnitOps pol t s ops = .ok s') :
    ∃ rops : List ROp, s'.u = rops.foldl (fun u rop => (R.unitOp u rop).1) s.u := by
  induction ops generalizing s with
  | nil => simp [cUnitOps] at h; subst h; exact ⟨[], rfl⟩
  | cons op rest ih =>
    simp only [cUnitOps, Res.bind_ok] at h
    obtain ⟨s1, h1, h2⟩ := h
    obtain ⟨rops, hr⟩ := ih s1 h2
    have hu := C17_wrapper_unit pol t s s1 op h1
    cases hm : mirrorOp s.env op with
    | none => rw [hm] at hu; exact ⟨rops, by rw [hr, hu]⟩
    | some rop => rw [hm] at hu; exact ⟨rop :: rops, by rw [hr, hu]; rfl⟩

/-- Invalid UTF-8 never reaches `R`: failure value, `Utf8Error` recorded for the calling thread. -/
theorem C17_utf8_never_reaches_R (pol : Policy) (t : Tid) (s : HState R) (f : Nat) (args : List Bytes)
    (isHtml : Bool) (dst : Nat) (err : Utf8Error) (hdec : decodeArgs args = .error err) :
    cUnitOp pol t s (.fallible f args) =
      .ok { s with env := (saveLastError s.env t (.utf8 err)).out (.code (-1)) } ∧
    cUnitOp pol t s (.infallible f args isHtml) =
      .ok { s with env := (saveLastError s.env t (.utf8 err)).out (.code (-1)) } ∧
    cUnitOp pol t s (.intGet f args) =
      .ok { s with env := (saveLastError s.env t (.utf8 err)).out (.code (-1)) } ∧
    cUnitOp pol t s (.optStrGet dst f args) =
      .ok { s with env := nullStr (saveLastError s.env t (.utf8 err)) dst } := by
  simp [cUnitOp, hdec, pure]

/-- `Str` marshalling of the getters that cannot be absent (`Str::new`, string.rs:19): the C caller gets a
    non-NULL `Str` carrying exactly the Rust string — also when it is empty (`len = 0`, `data != NULL`). -/
theorem C17_str_marshalling_new (pol : Policy) (t : Tid) (s s' : HState R) (dst f : Nat)
    (h : cUnitOp pol t s (.strGet dst f) = .ok s') :
    ∃ v, (R.unitOp s.u (.get f [])).2.1 = .str v ∧ s'.env.log.head? = some (.strv (some v)) ∧
      ∃ hd, s'.env.vars dst = some hd := by
  simp only [cUnitOp, Res.bind_ok] at h
  obtain ⟨⟨s1, r⟩, hc, h⟩ := h
  have hr := (callR_spec hc).2
  split at h
  · rename_i v heq
    simp only [Res.pure_ok] at h; subst h
    simp only at heq
    exact ⟨v, by rw [← hr, heq], by simp [allocStr, alloc, Env.out, Env.setVar],
      ⟨s1.env.objs.length, by simp [allocStr, alloc, Env.out, Env.setVar]⟩⟩
  · simp at h

/-- `Str` marshalling of the optional getters (`Str::from_opt`, string.rs:33; `get_attribute`, doctype
    name / public id / system id): `None` ↔ `data == NULL`, `Some(v)` ↔ non-NULL `Str` with the bytes of
    `v`. In particular `Some("")` and `None` are told apart (the header's NULL contract). -/
theorem C17_str_marshalling_opt (pol : Policy) (t : Tid) (s s' : HState R) (dst f : Nat)
    (args a : List Bytes) (hdec : decodeArgs args = .ok a)
    (h : cUnitOp pol t s (.optStrGet dst f args) = .ok s') :
    ∃ o, (R.unitOp s.u (.get f a)).2.1 = .optStr o ∧ s'.env.log.head? = some (.strv o) ∧
      (o = none ↔ s'.env.vars dst = none) := by
  simp only [cUnitOp, hdec, Res.bind_ok] at h
  obtain ⟨⟨s1, r⟩, hc, h⟩ := h
  have hr := (callR_spec hc).2
  split at h
  · rename_i v heq
    simp only [Res.pure_ok] at h; subst h
    simp only at heq
    exact ⟨some v, by rw [← hr, heq], by simp [allocStr, alloc, Env.out, Env.setVar],
      by simp [allocStr, alloc, Env.out, Env.setVar]⟩
  · rename_i heq
    simp only [Res.pure_ok] at h; subst h
    simp only at heq
    exact ⟨none, by rw [← hr, heq], by simp [nullStr, Env.out, Env.setVar],
      by simp [nullStr, Env.out, Env.setVar]⟩
  · simp at h

/-- The marshalling is injective on what the C caller sees: different Rust results give different logged
    values; present-but-empty is not NULL. -/
theorem C17_str_marshalling_injective (o₁ o₂ : Option Bytes) (h : CRes.strv o₁ = CRes.strv o₂) : o₁ = o₂ := by
  cases h; rfl

example : CRes.strv (some []) ≠ CRes.strv none := by decide

/-- Result encoding of a fallible setter: `Ok(())` ↦ 0, `Err(e)` ↦ -1 with `e` recorded for thread `t`. -/
theorem C17_fallible_encoding (pol : Policy) (t : Tid) (s s' : HState R) (f : Nat)
    (args a : List Bytes) (hdec : decodeArgs args = .ok a)
    (h : cUnitOp pol t s (.fallible f args) = .ok s') :
    match (R.unitOp s.u (.call f a false)).2.1 with
    | .unit => s'.env.log.head? = some (.code 0)
    | .err m => s'.env.log.head? = some (.code (-1)) ∧ s'.env.lastErr t = some (.rust m)
    | _ => False := by
  simp only [cUnitOp, hdec, Res.bind_ok] at h
  obtain ⟨⟨s1, r⟩, hc, h⟩ := h
  have hr := (callR_spec hc).2
  subst hr
  split at h
  · rename_i heq
    simp only [Res.pure_ok] at h; subst h
    simp only at heq; rw [heq]; simp [Env.out]
  · rename_i m heq
    simp only [Res.pure_ok] at h; subst h
    simp only at heq; rw [heq]; simp [Env.out, saveLastError]
  · simp at h

/-- Every failure value of a top-level entry point (`-1`, `NULL`) comes with `LAST_ERROR` of the calling
    thread set. -/
theorem C17_failure_sets_last_error (pol : Policy) (prog : Prog) (e e' : Env R) (c : Call R.Chunk)
    (h : topStep pol prog e c = .ok e')
    (hf : e'.log.head? = some (.code (-1)) ∨ e'.log.head? = some (.ptr true)) :
    (e'.lastErr c.tid).isSome = true := by
  obtain ⟨t, op⟩ := c
  cases op with
  | builderNew dst =>
    simp only [topStep, Res.pure_ok] at h; subst h; simp [Env.out, Env.setVar, alloc] at hf
  | selectorParse dst sb =>
    simp only [topStep] at h
    split at h
    · simp only [Res.pure_ok] at h; subst h; simp [Env.out, Env.setVar, saveLastError]
    · split at h
      · simp only [Res.pure_ok] at h; subst h; simp [Env.out, Env.setVar, saveLastError]
      · simp only [Res.pure_ok] at h; subst h; simp [Env.out, Env.setVar, alloc] at hf
  | addDoc b r =>
    simp only [topStep, Res.bind_ok, require_ok] at h
    obtain ⟨_, _, ⟨h0, o⟩, hd, h⟩ := h
    split at h
    · simp only [Res.pure_ok] at h; subst h; simp [Env.out] at hf
    · simp at h
  | addElem b sel el cm tx =>
    simp only [topStep, Res.bind_ok, require_ok] at h
    obtain ⟨_, _, _, _, ⟨hs, os⟩, _, ⟨h0, o⟩, hd, h⟩ := h
    split at h
    · simp only [Res.pure_ok] at h; subst h; simp [Env.out] at hf
    · simp at h
  | build dst b enc mem strict esi =>
    simp only [topStep, Res.bind_ok, require_ok] at h
    obtain ⟨_, _, ⟨h0, o⟩, hd, h⟩ := h
    split at h
    · simp only [Res.bind_ok] at h
      obtain ⟨elemR, _, h⟩ := h
      split at h
      · simp only [Res.pure_ok] at h; subst h; simp [Env.out, Env.setVar, saveLastError]
      · split at h
        · simp only [Res.pure_ok] at h; subst h; simp [Env.out, Env.setVar, saveLastError]
        · split at h
          · simp only [Res.pure_ok] at h; subst h; simp [Env.out, Env.setVar, saveLastError]
          · simp only [Res.pure_ok] at h; subst h; simp [Env.out, Env.setVar, alloc] at hf
    · simp at h
  | write r chunk =>
    simp only [topStep, Res.bind_ok, require_ok] at h
    obtain ⟨_, _, ⟨h0, o⟩, hd, h⟩ := h
    split at h
    · simp at h
    · simp only [Res.bind_ok, require_ok] at h
      obtain ⟨_, _, ⟨rw', e1, res⟩, hdr, h⟩ := h
      split at h
      · simp only [Res.pure_ok] at h; subst h; simp [Env.out] at hf
      · simp only [Res.pure_ok] at h; subst h; simp [Env.out, saveLastError]
    · simp at h
  | end_ r =>
    simp only [topStep, Res.bind_ok, require_ok] at h
    obtain ⟨_, _, ⟨h0, o⟩, hd, h⟩ := h
    split at h
    · simp at h
    · simp only [Res.bind_ok, require_ok] at h
      obtain ⟨_, _, ⟨rw', e1, res⟩, hdr, e2, hev, h⟩ := h
      split at h
      · simp only [Res.pure_ok] at h; subst h; simp [Env.out] at hf
      · simp only [Res.pure_ok] at h; subst h; simp [Env.out, saveLastError]
    · simp at h
  | rewriterFree r =>
    simp only [topStep, Res.bind_ok, require_ok] at h
    obtain ⟨_, _, ⟨e1, h1, o1⟩, hrel, h⟩ := h
    split at h
    · simp only [Res.bind_ok, Res.pure_ok] at h
      obtain ⟨e2, hev, rfl⟩ := h
      simp [Env.out] at hf
    · simp only [Res.pure_ok] at h; subst h; simp [Env.out] at hf
  | builderFree b =>
    simp only [topStep, Res.bind_ok, require_ok, Res.pure_ok] at h
    obtain ⟨_, _, ⟨e1, h1, o1⟩, hrel, rfl⟩ := h
    simp [Env.out] at hf
  | selectorFree sv =>
    simp only [topStep, Res.bind_ok, require_ok, Res.pure_ok] at h
    obtain ⟨_, _, ⟨h0, o⟩, _, _, _, ⟨e1, h1, o1⟩, hrel, rfl⟩ := h
    simp [Env.out] at hf
  | strFree v =>
    simp only [topStep, strFree] at h
    split at h
    · simp at h; subst h; simp [Env.out] at hf
    · simp only [Res.bind_ok, require_ok, Res.pure_ok] at h
      obtain ⟨_, _, ⟨e1, h1, o1⟩, hrel, rfl⟩ := h
      simp [Env.out] at hf
  | takeLastError dst =>
    simp only [topStep, Res.pure_ok] at h; subst h
    unfold takeLastError at hf
    split at hf <;> simp [Env.out, Env.setVar, alloc] at hf

theorem releaseHandler_lastErr {e e' : Env R} {sid : Nat} (h : releaseHandler e sid = .ok e') :
    e'.lastErr = e.lastErr := by
  unfold releaseHandler at h
  split at h
  · split at h
    · simp at h
    · rename_i hasDrop _ _
      simp only [Res.ok.injEq] at h; subst h
      cases hasDrop <;> simp [Env.setObj]
  · simp at h

/-- (F21, fixed in /repo 9f8617f) The rejection paths of `lol_html_*_streaming_*` — NULL handler,
    `reserved != NULL`, missing `write_all_callback` — return -1 AND record
    `CStreamingHandlerError::Uninitialized` for the calling thread (lib.rs:236-249). -/
theorem C17_streaming_failure_reported (pol : Policy) (t : Tid) (s : HState R) (f : Nat)
    (w d : Bool) (script : Nat) :
    cUnitOp pol t s (.streaming f .null) =
      .ok { s with env := (saveLastError s.env t .uninitialized).out (.code (-1)) } ∧
    cUnitOp pol t s (.streaming f (.mk false w d script)) =
      .ok { s with env := (saveLastError s.env t .uninitialized).out (.code (-1)) } ∧
    (∀ s', cUnitOp pol t s (.streaming f (.mk true false d script)) = .ok s' →
      s'.env.log.head? = some (.code (-1)) ∧ s'.env.lastErr t = some .uninitialized) := by
  refine ⟨by simp [cUnitOp, pure], by simp [cUnitOp, pure], ?_⟩
  intro s' h
  simp only [cUnitOp, Bool.not_true, Bool.false_eq_true, if_false, Bool.not_false, if_true,
    Res.bind_ok, Res.pure_ok] at h
  obtain ⟨env, hr, rfl⟩ := h
  refine ⟨by simp [Env.out], ?_⟩
  simp [Env.out, releaseHandler_lastErr hr, saveLastError, alloc]

/-- Inside call-backs too: every entry point on a rewritable unit that answers `-1` has set `LAST_ERROR`
    of the calling thread — invalid UTF-8, an `Err` of the Rust method, "No end tag.", and (since 9f8617f)
    the streaming-handler rejections. Together with `C17_failure_sets_last_error` this covers every
    `-1`/`NULL` failure of every entry point; the one documented exception, a NULL *target* pointer
    (lib.rs:254, a header precondition), is outside the model (units are always valid). -/
theorem C17_unit_failure_sets_last_error (pol : Policy) (t : Tid) (s s' : HState R) (op : COp)
    (h : cUnitOp pol t s op = .ok s') (hf : s'.env.log.head? = some (.code (-1))) :
    (s'.env.lastErr t).isSome = true := by
  cases op with
  | strGet dst f =>
    simp only [cUnitOp, Res.bind_ok] at h
    obtain ⟨⟨s1, r⟩, hc, h⟩ := h
    split at h
    · simp only [Res.pure_ok] at h; subst h; simp [allocStr, alloc, Env.out, Env.setVar] at hf
    · simp at h
  | optStrGet dst f args =>
    simp only [cUnitOp] at h
    split at h
    · simp only [Res.pure_ok] at h; subst h; simp [nullStr, Env.out, Env.setVar] at hf
    · simp only [Res.bind_ok] at h
      obtain ⟨⟨s1, r⟩, hc, h⟩ := h
      split at h
      · simp only [Res.pure_ok] at h; subst h; simp [allocStr, alloc, Env.out, Env.setVar] at hf
      · simp only [Res.pure_ok] at h; subst h; simp [nullStr, Env.out, Env.setVar] at hf
      · simp at h
  | intGet f args =>
    simp only [cUnitOp] at h
    split at h
    · simp only [Res.pure_ok] at h; subst h; simp [Env.out, saveLastError]
    · simp only [Res.bind_ok] at h
      obtain ⟨⟨s1, r⟩, hc, h⟩ := h
      split at h
      · rename_i b _
        simp only [Res.pure_ok] at h; subst h
        cases b <;> simp [Env.out] at hf
      · simp at h
  | fallible f args =>
    simp only [cUnitOp] at h
    split at h
    · simp only [Res.pure_ok] at h; subst h; simp [Env.out, saveLastError]
    · simp only [Res.bind_ok] at h
      obtain ⟨⟨s1, r⟩, hc, h⟩ := h
      split at h
      · simp only [Res.pure_ok] at h; subst h; simp [Env.out] at hf
      · simp only [Res.pure_ok] at h; subst h; simp [Env.out, saveLastError]
      · simp at h
  | infallible f args isHtml =>
    simp only [cUnitOp] at h
    split at h
    · simp only [Res.pure_ok] at h; subst h; simp [Env.out, saveLastError]
    · simp only [Res.bind_ok, Res.pure_ok] at h
      obtain ⟨⟨s1, r⟩, hc, rfl⟩ := h
      simp [Env.out] at hf
  | void f =>
    simp only [cUnitOp, Res.bind_ok, Res.pure_ok] at h
    obtain ⟨⟨s1, r⟩, hc, rfl⟩ := h
    simp [Env.out] at hf
  | boolGet f =>
    simp only [cUnitOp, Res.bind_ok] at h
    obtain ⟨⟨s1, r⟩, hc, h⟩ := h
    split at h
    · simp only [Res.pure_ok] at h; subst h; simp [Env.out] at hf
    · simp at h
  | rawGet f =>
    simp only [cUnitOp, Res.bind_ok, Res.pure_ok] at h
    obtain ⟨⟨s1, r⟩, hc, rfl⟩ := h
    simp [Env.out] at hf
  | bytesFallible f b isHtml =>
    simp only [cUnitOp, Res.bind_ok] at h
    obtain ⟨⟨s1, r⟩, hc, h⟩ := h
    split at h
    · simp only [Res.pure_ok] at h; subst h; simp [Env.out] at hf
    · simp only [Res.pure_ok] at h; subst h; simp [Env.out, saveLastError]
    · simp at h
  | addEndTagHandler hid =>
    simp only [cUnitOp, Res.bind_ok] at h
    obtain ⟨⟨s1, r⟩, hc, h⟩ := h
    split at h
    · simp only [Res.pure_ok] at h; subst h; simp [Env.out] at hf
    · simp only [Res.pure_ok] at h; subst h; simp [Env.out, saveLastError]
    · simp at h
  | clearEndTagHandlers =>
    simp only [cUnitOp, Res.bind_ok, Res.pure_ok] at h
    obtain ⟨⟨s1, r⟩, hc, rfl⟩ := h
    simp [Env.out] at hf
  | streaming f a =>
    simp only [cUnitOp] at h
    split at h
    · simp only [Res.pure_ok] at h; subst h; simp [Env.out, saveLastError]
    · split at h
      · simp only [Res.pure_ok] at h; subst h; simp [Env.out, saveLastError]
      · split at h
        · simp only [Res.bind_ok, Res.pure_ok] at h
          obtain ⟨env, hr, rfl⟩ := h
          have := releaseHandler_lastErr hr
          simp [Env.out, this, saveLastError, alloc]
        · simp only [Res.bind_ok, Res.pure_ok] at h
          obtain ⟨⟨s1, r⟩, hc, rfl⟩ := h
          simp [Env.out] at hf
  | iterGet dst =>
    simp only [cUnitOp, Res.bind_ok] at h
    obtain ⟨⟨s1, r⟩, hc, h⟩ := h
    split at h
    · simp only [Res.pure_ok] at h; subst h; simp [Env.out, Env.setVar, alloc] at hf
    · simp at h
  | iterNext it =>
    simp only [cUnitOp, Res.bind_ok, require_ok] at h
    obtain ⟨_, _, ⟨h0, o⟩, hd, h⟩ := h
    split at h
    · simp only [Res.bind_ok, require_ok] at h
      obtain ⟨_, _, h⟩ := h
      split at h
      · simp at h
      · split at h
        · simp only [Res.pure_ok] at h; subst h; simp [Env.out, Env.setObj] at hf
        · simp only [Res.pure_ok] at h; subst h; simp [Env.out] at hf
    · simp at h
  | iterFree it =>
    simp only [cUnitOp, Res.bind_ok, require_ok, Res.pure_ok] at h
    obtain ⟨_, _, ⟨env, h1, o1⟩, hrel, rfl⟩ := h
    simp [Env.out] at hf
  | attrStrGet dst it f =>
    simp only [cUnitOp, Res.bind_ok, require_ok] at h
    obtain ⟨_, _, ⟨h0, o⟩, hd, h⟩ := h
    split at h
    · simp only [Res.bind_ok, require_ok] at h
      obtain ⟨_, _, _, _, h⟩ := h
      split at h
      · simp at h
      · simp only [Res.bind_ok] at h
        obtain ⟨⟨s1, r⟩, hc, h⟩ := h
        split at h
        · simp only [Res.pure_ok] at h; subst h; simp [allocStr, alloc, Env.out, Env.setVar] at hf
        · simp at h
    · simp at h
  | strFree v =>
    simp only [cUnitOp, Res.bind_ok, Res.pure_ok] at h
    obtain ⟨env, hfree, rfl⟩ := h
    unfold strFree at hfree
    split at hfree
    · simp at hfree; subst hfree; simp [Env.out] at hf
    · simp only [Res.bind_ok, require_ok, Res.pure_ok] at hfree
      obtain ⟨_, _, ⟨e1, h1, o1⟩, hrel, rfl⟩ := hfree
      simp [Env.out] at hf
  | takeLastError dst =>
    simp only [cUnitOp, Res.pure_ok] at h
    subst h
    unfold takeLastError at hf
    split at hf <;> simp [Env.out, Env.setVar, alloc] at hf

/-! ## Non-vacuity: a complete, permitted history on the concrete replay machine -/

open LolHtml.Model.CApi.Mini in
/-- Handler 0 (element): read the tag name and free it, attach a streaming handler with a drop
    callback, call `set_attribute` with a name that is not UTF-8. Handler 1 (`write_all`): one write. -/
def demoProg : Prog := fun i =>
  if i = 0 then
    ⟨[.strGet 10 0, .strFree 10, .streaming 10 (.mk true true true 1), .fallible FN_SET_ATTRIBUTE [[0xff], [49]]], none, 0⟩
  else ⟨[.infallible 70 [[120]] true], none, 0⟩

open LolHtml.Model.CApi.Mini in
def demoCalls : List (Call MiniR.Chunk) :=
  [ ⟨0, .builderNew 1⟩, ⟨0, .selectorParse 2 [42]⟩, ⟨0, .addElem 1 2 (some 0) none none⟩,
    ⟨0, .build 3 1 [1] ⟨0, 1024, false⟩ true false⟩, ⟨0, .builderFree 1⟩,
    ⟨1, .write 3 ⟨[⟨{ kind := .element, attrs := [([105, 100], [])] }, [0]⟩], []⟩⟩,
    ⟨1, .end_ 3⟩, ⟨2, .rewriterFree 3⟩, ⟨0, .selectorFree 2⟩,
    ⟨0, .takeLastError 5⟩, ⟨1, .takeLastError 6⟩, ⟨1, .strFree 6⟩ ]

open LolHtml.Model.CApi.Mini in
/-- The history succeeds under the stricter policy, frees everything, calls the drop callback of the one
    streaming handler exactly once, reports the UTF-8 error to thread 1 (which made the `write`) and
    nothing to thread 0. -/
def demoCheck : Bool :=
  match run .headerPlus demoProg (Env.init MiniR) demoCalls with
  | .ok e =>
    (leaks e).isEmpty && e.drops.length == 1 && (e.lastErr 0).isNone && (e.lastErr 1).isNone &&
    e.log.take 3 == [.void, .taken (some (.utf8 ⟨0, some 1⟩)), .taken none]
  | _ => false

example : demoCheck = true := by decide +kernel

open LolHtml.Model.CApi.Mini in
/-- Marshalling on the replay machine: `<a href title="">`, handler reads `href` (valueless: present, empty),
    `title` (empty), `id` (absent), the tag name: non-NULL/len 0, non-NULL/len 0, NULL, non-NULL "a". -/
example :
    (match cUnitOps (R := MiniR) .header 0
        ⟨{ kind := .element, name := [97], attrs := [([104, 114, 101, 102], []), ([116, 105, 116, 108, 101], [])] },
          Env.init MiniR⟩
        [.optStrGet 1 4 [[104, 114, 101, 102]], .optStrGet 2 4 [[116, 105, 116, 108, 101]],
         .optStrGet 3 4 [[105, 100]], .strGet 4 0] with
      | .ok s => s.env.log == [.strv (some [97]), .strv none, .strv (some []), .strv (some [])]
      | _ => false) = true := by
  decide +kernel

/-- `str::from_utf8` vectors (values of `valid_up_to` / `error_len` as returned by rustc's std). -/
example : utf8Check [0xff] = some ⟨0, some 1⟩ ∧ utf8Check [0x61, 0x62, 0xc3] = some ⟨2, none⟩ ∧
    utf8Check [0xe2, 0x82] = some ⟨0, none⟩ ∧ utf8Check [0x61, 0xf0, 0x9f, 0x98] = some ⟨1, none⟩ ∧
    utf8Check [0xc0, 0xaf] = some ⟨0, some 1⟩ ∧ utf8Check [0xed, 0xa0, 0x80] = some ⟨0, some 1⟩ ∧
    utf8Check [0x6f, 0x6b, 0x80] = some ⟨2, some 1⟩ ∧ utf8Check [0xe2, 0x28, 0xa1] = some ⟨0, some 1⟩ ∧
    utf8Check [0xf0, 0x9f, 0x28] = some ⟨0, some 2⟩ ∧ utf8Check [0xf0, 0x9f, 0x98, 0x28] = some ⟨0, some 3⟩ ∧
    utf8Check [0xc3, 0xa9, 0xf0, 0x9f, 0x98, 0x80, 0x78, 0x00] = none ∧ utf8Check [0xf4, 0x90, 0x80, 0x80] = some ⟨0, some 1⟩ := by
  decide +kernel

end LolHtml.Thm.C17
