/-
# Package `full` — the whole rewriter as one model

`fullWorld tbl tags cfg : World (FullSt cfg)` = tokenizer table + tag lists + the REAL transform
controller `fullCtl cfg` (`Model/Full.lean`, `Model/FullCtl.lean`: `HtmlRewriteController` glued from
the selector VM, the handler dispatcher and the token-edit models). It runs on raw bytes through the
existing `Stream` / `Rewriter` model; lane `full` executes exactly these definitions against the public
`HtmlRewriter`.

Theorems (statements readable on their own):

* `Full_observing`   no script mutates ⇒ `fullCtl` is `ObservingAll`;  `Full_clean_ends` (every cfg)
* `C01_real`, `C11_real`, `C11_real_no_bailout`, `C12_real`, `C12_real_encoding_first`
                      the generic stream theorems hold for the real controller model
* `Full_flags_returned`, `Full_flags_exact`, `Full_initial_scan`
                      capture flags = exactly the kinds that have an active handler; scanner mode at
                      start iff no document-level doctype / comments / text handler is registered
* `Full_vm_direct`, `Full_vm_aux`
                      what the controller does with the VM is `SelVM.Vm.handleStartTag` (the function
                      C04's theorems are about); an `infoRequest` is resumed with the attributes the
                      dispatcher hands over
* `Full_aux_same_tag`, `Full_aux_pending`
                      those attributes are the ones of the lexeme being handled
* `Full_elemAct_faithful`, `Full_endTagHandler_faithful`, `Full_unhash`, `Full_unhash_gen`   adapters are faithful
* `Full_vec_loops_never_fail`, `Full_handleEnd_clean`, `Full_descs_in_sync`, `Full_endTag_in_sync`; `Full_not_ctlClean`; `Full_no_panic_statement` (not proved); `C06_real_output`
-/
import LolHtml.Model.FullCtl
import LolHtml.Lemmas.FullObs
import LolHtml.Lemmas.InvStream
import LolHtml.Lemmas.FullUnhash
import LolHtml.Thm.C01
import LolHtml.Thm.C11
import LolHtml.Thm.C12
import LolHtml.Gen.Syntax
import LolHtml.Gen.Tags

namespace LolHtml.Thm.Full
open LolHtml LolHtml.Model LolHtml.Model.Full LolHtml.Model.Handlers LolHtml.EditModel LolHtml.Lemmas.Full
open LolHtml.Thm.C01 (run writeAll Rewriter.new)

/-! ## Observing -/

/-- **Full_clean_ends.** For EVERY configuration (mutating scripts included) the content the real
controller appends at document end / on bail-out never contains an empty chunk. -/
theorem Full_clean_ends (cfg : Cfg) : CleanEnds (fullCtl cfg) where
  handleEnd := fun g => handleEnd_noEmpty g.1
  bailOut := fun _ _ => NoEmpty.nil

/-- **Full_observing.** If no script mutates (`cfg.Observing`: token / end closures make no API call,
element closures at most register call-free end-tag closures; closures may fail), the real controller
serialises every token to its raw bytes, serialises nothing when a closure fails, never disables
emission and appends nothing at the end — in every state it can be in. -/
theorem Full_observing (cfg : Cfg) (ho : cfg.Observing) : ObservingAll (fullCtl cfg) where
  token_raw := fun g t he => token_raw ho (g.2.obs ho) t he
  token_err := fun g t e he => token_err g.1 t e he
  shouldEmit := fun g => shouldEmit_true (g.2.obs ho)
  handleEnd_empty := fun g => handleEnd_empty ho g.1

/-- the decidable form of the hypothesis -/
theorem Full_observing' (cfg : Cfg) (ho : cfg.observing = true) : ObservingAll (fullCtl cfg) ∧ CleanEnds (fullCtl cfg) :=
  ⟨Full_observing cfg (cfg.observing_sound ho), Full_clean_ends cfg⟩

variable (tbl : Table) (tags : TagCfg)

/-- **C01_real.** Pass-through identity for the real controller model: every tokenizer table, every
selector set and handler registration whose scripts do not mutate, every settings record, every
chunking — if all calls succeed, the sink receives exactly the bytes written. -/
theorem C01_real (cfg : Cfg) (ho : cfg.Observing) (settings : Settings) (chunks : List Bytes)
    (hok : ∀ x ∈ (run (fullWorld tbl tags cfg) (Rewriter.new (fullWorld tbl tags cfg) (FullSt.init cfg) settings) chunks).2,
      x = CallRes.ok) :
    sinkBytes (run (fullWorld tbl tags cfg) (Rewriter.new (fullWorld tbl tags cfg) (FullSt.init cfg) settings) chunks).1.sink
      = chunks.flatten :=
  C01.C01_passthrough (fullWorld tbl tags cfg) (Full_observing cfg ho) _ settings chunks hok

/-- **C11_real.** Graceful bail-out for the real controller model (observing scripts, possibly
failing): when a `write` fails after successful ones, the sink holds a prefix of the bytes written —
followed, iff the matching graceful flag is set, by the bail-out content and all the remaining bytes —
the bail-out handlers ran exactly that once, and the rewriter is poisoned. -/
theorem C11_real (cfg : Cfg) (ho : cfg.Observing) (settings : Settings) (chunks : List Bytes) (data : Bytes) (e : Err)
    (hok : ∀ x ∈ (writeAll (fullWorld tbl tags cfg) (Rewriter.new (fullWorld tbl tags cfg) (FullSt.init cfg) settings) chunks).2,
      x = CallRes.ok)
    (herr : ((writeAll (fullWorld tbl tags cfg) (Rewriter.new (fullWorld tbl tags cfg) (FullSt.init cfg) settings) chunks).1.write
      (fullWorld tbl tags cfg) data).2 = .err e) :
    C11.BailedOut settings e
      (sinkBytes ((writeAll (fullWorld tbl tags cfg) (Rewriter.new (fullWorld tbl tags cfg) (FullSt.init cfg) settings) chunks).1.write
        (fullWorld tbl tags cfg) data).1.sink)
      (chunks.flatten ++ data)
      ((writeAll (fullWorld tbl tags cfg) (Rewriter.new (fullWorld tbl tags cfg) (FullSt.init cfg) settings) chunks).1.write
        (fullWorld tbl tags cfg) data).1.stream.bailOutRuns ∧
    ((writeAll (fullWorld tbl tags cfg) (Rewriter.new (fullWorld tbl tags cfg) (FullSt.init cfg) settings) chunks).1.write
      (fullWorld tbl tags cfg) data).1.poisoned = true :=
  C11.C11_bailout_write (fullWorld tbl tags cfg) (Full_observing cfg ho).toObserving _ settings chunks data e hok herr

/-- **C11_real_no_bailout.** No bail-out handler runs while calls succeed. -/
theorem C11_real_no_bailout (cfg : Cfg) (ho : cfg.Observing) (settings : Settings) (chunks : List Bytes)
    (hok : ∀ x ∈ (writeAll (fullWorld tbl tags cfg) (Rewriter.new (fullWorld tbl tags cfg) (FullSt.init cfg) settings) chunks).2,
      x = CallRes.ok) :
    (writeAll (fullWorld tbl tags cfg) (Rewriter.new (fullWorld tbl tags cfg) (FullSt.init cfg) settings) chunks).1.stream.bailOutRuns = 0 :=
  C11.C11_no_bailout_on_success (fullWorld tbl tags cfg) (Full_observing cfg ho).toObserving _ settings chunks hok

/-- **C12_real.** Sink protocol for the real controller model, for EVERY configuration (mutating and
failing scripts included): the encoding first; then events none of which is a zero-length chunk; then
the zero-length chunk iff `end()` succeeded, and then last. -/
theorem C12_real (cfg : Cfg) (settings : Settings) (chunks : List Bytes) :
    ∃ l, NoEmpty l ∧
      (run (fullWorld tbl tags cfg) (Rewriter.new (fullWorld tbl tags cfg) (FullSt.init cfg) settings) chunks).1.sink =
        SinkEv.enc settings.encoding :: l ++
          (if (run (fullWorld tbl tags cfg) (Rewriter.new (fullWorld tbl tags cfg) (FullSt.init cfg) settings) chunks).2.getLast?
              = some CallRes.ok then [SinkEv.chunk []] else []) :=
  C12.C12_protocol (fullWorld tbl tags cfg) (Full_clean_ends cfg) _ settings chunks

theorem C12_real_encoding_first (cfg : Cfg) (settings : Settings) (chunks : List Bytes) :
    (run (fullWorld tbl tags cfg) (Rewriter.new (fullWorld tbl tags cfg) (FullSt.init cfg) settings) chunks).1.sink.head?
      = some (SinkEv.enc settings.encoding) :=
  C12.C12_encoding_first (fullWorld tbl tags cfg) (Full_clean_ends cfg) _ settings chunks

/-! ## Capture flags -/

theorem startTag_eq_core (s : St) (hf : s.fault = none) (name : LocalName) (ns : Model.Ns) :
    startTag s name ns = startTagCore { s with ord := s.ord + 1 } name ns := by
  unfold startTag; simp [hf]

theorem startTag_fault (s : St) (m : String) (hf : s.fault = some m) (name : LocalName) (ns : Model.Ns) :
    startTag s name ns = (s, .err (.panic m)) := by
  unfold startTag; simp [hf]

theorem afterVm_flags (s : St) (n : Nat) (vm' : SelVM.Vm) (infos : List SelVM.MatchInfo) (f : Model.Flags)
    (h : (s.afterVm n vm' infos).2 = .ok f) : f = (s.afterVm n vm' infos).1.flags := by
  unfold St.afterVm at h ⊢
  split
  · rename_i hh; simp [hh] at h
  · rename_i hh
    simp only [hh, Except.ok.injEq] at h
    exact h.symm

theorem startTagCore_flags (s : St) (n : LocalName) (ns : Model.Ns) (f : Model.Flags)
    (h : (startTagCore s n ns).2 = .flags f) : f = (startTagCore s n ns).1.flags := by
  unfold startTagCore at h ⊢
  split
  · rename_i hv
    simp only [hv, StartTagRes.flags.injEq] at h
    exact h.symm
  · rename_i vm hv
    simp only [hv] at h
    split
    · rename_i he; simp [he] at h
    · rename_i vm' infos he
      simp only [he] at h
      dsimp only at h ⊢
      split
      · rename_i f' hr
        simp only [hr, StartTagRes.flags.injEq] at h
        rw [← h]
        exact afterVm_flags _ _ _ _ _ hr
      · rename_i hr; simp [hr] at h
    · rename_i he; simp [he] at h

/-- **Full_flags_returned.** Whatever `handle_start_tag`, the aux-info continuation and
`handle_end_tag` return as capture flags are the flags of the state they leave behind:
`get_token_capture_flags()` of the handler dispatcher (`Handlers.Dispatcher.getTokenCaptureFlags`, the
function package scope's C05 theorems are about). -/
theorem Full_flags_returned (s : St) :
    (∀ n ns f, (startTag s n ns).2 = .flags f → f = (startTag s n ns).1.flags) ∧
    (∀ i f, (auxInfo s i).2 = .ok f → f = (auxInfo s i).1.flags) ∧
    (∀ n, (endTag s n).2 = (endTag s n).1.flags) := by
  have hafter : ∀ (s : St) n vm' infos f, (s.afterVm n vm' infos).2 = .ok f → f = (s.afterVm n vm' infos).1.flags := by
    intro s n vm' infos f h
    unfold St.afterVm at h ⊢
    split
    · rename_i hh; simp [hh] at h
    · rename_i hh
      simp only [hh, Except.ok.injEq] at h
      exact h.symm
  refine ⟨?_, ?_, ?_⟩
  · intro n ns f h
    cases hf : s.fault with
    | some m => rw [startTag_fault s m hf] at h; simp at h
    | none =>
      rw [startTag_eq_core s hf] at h ⊢
      exact startTagCore_flags _ n ns f h
  · intro i f h
    unfold auxInfo at h ⊢
    cases hv : s.vm with
    | none => simp [hv] at h
    | some vm =>
      cases hp : s.pending with
      | none => simp [hv, hp] at h
      | some req =>
        simp only [hv, hp] at h ⊢
        split
        · rename_i ha; simp [ha] at h
        · rename_i aux ha
          simp only [ha] at h
          split
          · rename_i hr; simp [hr] at h
          · rename_i vm' infos hr
            simp only [hr] at h
            exact hafter _ _ _ _ _ h
  · intro n
    unfold endTag
    split
    · rfl
    · split
      · rfl
      · split
        · dsimp only
          split <;> rfl
        · rfl

/-- **Full_flags_exact.** In every state of the real controller, each capture flag is set iff a handler
of the corresponding kind is active (`user_count > 0` on some item): TEXT ⇔ a text handler,
COMMENTS ⇔ a comment handler, DOCTYPES ⇔ a doctype handler, NEXT_START_TAG ⇔ an element handler
(activated by `start_matching` for the tag being handled), NEXT_END_TAG ⇔ an end-tag handler
(activated by `stop_matching` for an element just popped). -/
theorem Full_flags_exact (cfg : Cfg) (s : FullSt cfg) :
    let f := (fullCtl cfg).initialFlags s
    (f.text = true ↔ ∃ it ∈ s.1.disp.text.items, 0 < it.userCount) ∧
    (f.comments = true ↔ ∃ it ∈ s.1.disp.comment.items, 0 < it.userCount) ∧
    (f.doctypes = true ↔ ∃ it ∈ s.1.disp.doctype.items, 0 < it.userCount) ∧
    (f.nextStartTag = true ↔ ∃ it ∈ s.1.disp.element.items, 0 < it.userCount) ∧
    (f.nextEndTag = true ↔ ∃ it ∈ s.1.disp.endTag.items, 0 < it.userCount) :=
  ⟨hasActive_iff s.2.wf.text, hasActive_iff s.2.wf.comment, hasActive_iff s.2.wf.doctype,
   hasActive_iff s.2.wf.element, hasActive_iff s.2.wf.endTag⟩

/-! ### initial flags -/

theorem push_count {α : Type} (v : HandlerVec α) (x : α) (b : Bool) :
    (v.push x b).1.userCount = v.userCount + (if b then 1 else 0) := rfl

theorem foldl_addSel_counts (rs : List SelReg) (d : Dispatcher) :
    (rs.foldl Dispatcher.addSelectorAssociatedHandlers d).doctype.userCount = d.doctype.userCount ∧
    (rs.foldl Dispatcher.addSelectorAssociatedHandlers d).comment.userCount = d.comment.userCount ∧
    (rs.foldl Dispatcher.addSelectorAssociatedHandlers d).text.userCount = d.text.userCount ∧
    (rs.foldl Dispatcher.addSelectorAssociatedHandlers d).element.userCount = d.element.userCount ∧
    (rs.foldl Dispatcher.addSelectorAssociatedHandlers d).endTag.userCount = d.endTag.userCount := by
  induction rs generalizing d with
  | nil => exact ⟨rfl, rfl, rfl, rfl, rfl⟩
  | cons r rs ih =>
    obtain ⟨a, b, c, e, f⟩ := ih (d.addSelectorAssociatedHandlers r)
    simp only [List.foldl_cons]
    refine ⟨a, ?_, ?_, ?_, f⟩
    · rw [b]; simp only [Dispatcher.addSelectorAssociatedHandlers]; split <;> simp [push_count]
    · rw [c]; simp only [Dispatcher.addSelectorAssociatedHandlers]; split <;> simp [push_count]
    · rw [e]; simp only [Dispatcher.addSelectorAssociatedHandlers]; split <;> simp [push_count]

def cnt (b : Bool) : Nat := if b then 1 else 0

theorem addDocs_counts (rs : List DocReg) (d : Dispatcher) (base : Nat) :
    (d.addDocs base rs).doctype.userCount = d.doctype.userCount + (rs.map fun r => cnt r.doctype).sum ∧
    (d.addDocs base rs).comment.userCount = d.comment.userCount + (rs.map fun r => cnt r.comments).sum ∧
    (d.addDocs base rs).text.userCount = d.text.userCount + (rs.map fun r => cnt r.text).sum ∧
    (d.addDocs base rs).element.userCount = d.element.userCount ∧
    (d.addDocs base rs).endTag.userCount = d.endTag.userCount := by
  induction rs generalizing d base with
  | nil => simp [Dispatcher.addDocs]
  | cons r rs ih =>
    obtain ⟨a, b, c, e, f⟩ := ih (d.addDocumentContentHandlers base r) (base + 1)
    simp only [Dispatcher.addDocs, List.map_cons, List.sum_cons]
    have h1 : (d.addDocumentContentHandlers base r).doctype.userCount = d.doctype.userCount + cnt r.doctype := by
      simp only [Dispatcher.addDocumentContentHandlers, cnt]
      split <;> split <;> split <;> split <;> simp_all [push_count]
    have h2 : (d.addDocumentContentHandlers base r).comment.userCount = d.comment.userCount + cnt r.comments := by
      simp only [Dispatcher.addDocumentContentHandlers, cnt]
      split <;> split <;> split <;> split <;> simp_all [push_count]
    have h3 : (d.addDocumentContentHandlers base r).text.userCount = d.text.userCount + cnt r.text := by
      simp only [Dispatcher.addDocumentContentHandlers, cnt]
      split <;> split <;> split <;> split <;> simp_all [push_count]
    have h4 : (d.addDocumentContentHandlers base r).element.userCount = d.element.userCount := by
      simp only [Dispatcher.addDocumentContentHandlers]
      split <;> split <;> split <;> split <;> rfl
    have h5 : (d.addDocumentContentHandlers base r).endTag.userCount = d.endTag.userCount := by
      simp only [Dispatcher.addDocumentContentHandlers]
      split <;> split <;> split <;> split <;> rfl
    refine ⟨by rw [a, h1]; omega, by rw [b, h2]; omega, by rw [c, h3]; omega, by rw [e, h4], by rw [f, h5]⟩

theorem sum_cnt_zero {α : Type} (l : List α) (p : α → Bool) :
    (l.map fun r => cnt (p r)).sum = 0 ↔ ∀ r ∈ l, p r = false := by
  induction l with
  | nil => simp
  | cons x xs ih =>
    simp only [List.map_cons, List.sum_cons, List.mem_cons, forall_eq_or_imp]
    rw [← ih]
    cases p x <;> simp [cnt]

/-- **Full_initial_scan.** The parser starts in tag-scanner mode (`initial_capture_flags()` empty) iff
no document-level doctype, comments or text handler is registered — i.e. iff only selector-scoped
handlers and document `end` handlers are. -/
theorem Full_initial_scan (cfg : Cfg) :
    ((fullCtl cfg).initialFlags (FullSt.init cfg)).isEmpty = true ↔
      ∀ d ∈ cfg.docs, d.doctype.isSome = false ∧ d.comments.isSome = false ∧ d.text.isSome = false := by
  obtain ⟨a1, a2, a3, a4, a5⟩ := foldl_addSel_counts cfg.selRegs Dispatcher.default
  obtain ⟨b1, b2, b3, b4, b5⟩ := addDocs_counts cfg.docRegs
    (cfg.selRegs.foldl Dispatcher.addSelectorAssociatedHandlers Dispatcher.default) cfg.selRegs.length
  have e1 : (St.init cfg).disp.doctype.userCount = (cfg.docs.map fun d => cnt d.doctype.isSome).sum := by
    show (Dispatcher.fromSettings _ _).doctype.userCount = _
    unfold Dispatcher.fromSettings
    rw [b1, a1]; simp [Dispatcher.default, HandlerVec.empty, Cfg.docRegs, DocHandlers.reg, Function.comp_def]
  have e2 : (St.init cfg).disp.comment.userCount = (cfg.docs.map fun d => cnt d.comments.isSome).sum := by
    show (Dispatcher.fromSettings _ _).comment.userCount = _
    unfold Dispatcher.fromSettings
    rw [b2, a2]; simp [Dispatcher.default, HandlerVec.empty, Cfg.docRegs, DocHandlers.reg, Function.comp_def]
  have e3 : (St.init cfg).disp.text.userCount = (cfg.docs.map fun d => cnt d.text.isSome).sum := by
    show (Dispatcher.fromSettings _ _).text.userCount = _
    unfold Dispatcher.fromSettings
    rw [b3, a3]; simp [Dispatcher.default, HandlerVec.empty, Cfg.docRegs, DocHandlers.reg, Function.comp_def]
  have e4 : (St.init cfg).disp.element.userCount = 0 := by
    show (Dispatcher.fromSettings _ _).element.userCount = _
    unfold Dispatcher.fromSettings
    rw [b4, a4]; rfl
  have e5 : (St.init cfg).disp.endTag.userCount = 0 := by
    show (Dispatcher.fromSettings _ _).endTag.userCount = _
    unfold Dispatcher.fromSettings
    rw [b5, a5]; rfl
  show (St.init cfg).flags.isEmpty = true ↔ _
  simp only [St.flags, convFlags, Dispatcher.getTokenCaptureFlags, HandlerVec.hasActive, Model.Flags.isEmpty,
    e1, e2, e3, e4, e5, Bool.and_eq_true, Bool.not_eq_true', decide_eq_false_iff_not, Nat.lt_irrefl,
    not_false_eq_true, and_true, Nat.pos_iff_ne_zero, Decidable.not_not]
  rw [sum_cnt_zero, sum_cnt_zero, sum_cnt_zero]
  constructor
  · rintro ⟨⟨h1, h2⟩, h3⟩ d hd
    exact ⟨h3 d hd, h2 d hd, h1 d hd⟩
  · intro h
    exact ⟨⟨fun d hd => (h d hd).2.2, fun d hd => (h d hd).2.1⟩, fun d hd => (h d hd).1⟩

/-! ## The selector VM inside the controller -/

theorem vm_direct_core (s : St) (vm : SelVM.Vm) (hv : s.vm = some vm) (name : LocalName) (ns : Model.Ns)
    (f : Model.Flags) (h : (startTagCore s name ns).2 = .flags f) (attrs : List Sel.Attr) (sc : Bool) :
    ∃ vm' infos d', vm.handleStartTag ⟨nameBytes name, nsConv ns, attrs, sc⟩ = .ok (vm', infos) ∧
      startMatchingInfos s.disp infos = .ok d' ∧
      (startTagCore s name ns).1.vm = some vm' ∧ (startTagCore s name ns).1.disp = d' := by
  unfold startTagCore at h ⊢
  simp only [hv] at h ⊢
  cases he : vm.execForStartTag (nameBytes name) (nsConv ns) with
  | error p => simp [he] at h
  | ok o =>
    cases o with
    | infoRequest vm1 req => simp [he] at h
    | done vm' infos =>
      simp only [he] at h ⊢
      unfold St.afterVm at h ⊢
      cases hm : startMatchingInfos s.disp infos with
      | error p => simp [hm] at h
      | ok d =>
        refine ⟨vm', infos, d, ?_, hm, ?_, ?_⟩
        · simp [SelVM.Vm.handleStartTag, he, bind, Except.bind, pure, Except.pure]
        · simp
        · simp

theorem vm_aux_core (s : St) (vm : SelVM.Vm) (hv : s.vm = some vm) (name : LocalName) (ns : Model.Ns)
    (h : (startTagCore s name ns).2 = .infoRequest) (info : AuxInfo) (aux : SelVM.AuxStartTagInfo)
    (ha : auxConv info = some aux) (f : Model.Flags) (hok : (auxInfo (startTagCore s name ns).1 info).2 = .ok f) :
    ∃ vm' infos d', vm.handleStartTag ⟨nameBytes name, nsConv ns, aux.attrs, aux.selfClosing⟩ = .ok (vm', infos) ∧
      startMatchingInfos s.disp infos = .ok d' ∧
      (auxInfo (startTagCore s name ns).1 info).1.vm = some vm' ∧ (auxInfo (startTagCore s name ns).1 info).1.disp = d' := by
  unfold startTagCore at h hok ⊢
  simp only [hv] at h hok ⊢
  cases he : vm.execForStartTag (nameBytes name) (nsConv ns) with
  | error p => simp [he] at h
  | ok o =>
    cases o with
    | done vm' infos =>
      simp only [he] at h
      split at h <;> simp at h
    | infoRequest vm1 req =>
      simp only [he] at hok ⊢
      unfold auxInfo at hok ⊢
      simp only [ha] at hok ⊢
      cases hr : req.resume vm1 aux with
      | error p => simp [hr] at hok
      | ok r =>
        obtain ⟨vm', infos⟩ := r
        simp only [hr] at hok ⊢
        unfold St.afterVm at hok ⊢
        cases hm : startMatchingInfos s.disp infos with
        | error p => simp [hm] at hok
        | ok d =>
          refine ⟨vm', infos, d, ?_, hm, ?_, ?_⟩
          · simp only [SelVM.Vm.handleStartTag, he, bind, Except.bind]
            exact hr
          · simp
          · simp

/-- **Full_vm_direct.** When `handle_start_tag` answers with flags at once, the VM has done exactly what
`SelVM.Vm.handleStartTag` (package selvm; C04) does for this tag — whatever its attributes are — and
every reported match has been passed to `start_matching`. -/
theorem Full_vm_direct (s : St) (vm : SelVM.Vm) (hv : s.vm = some vm) (name : LocalName) (ns : Model.Ns)
    (f : Model.Flags) (h : (startTag s name ns).2 = .flags f) (attrs : List Sel.Attr) (sc : Bool) :
    ∃ vm' infos d', vm.handleStartTag ⟨nameBytes name, nsConv ns, attrs, sc⟩ = .ok (vm', infos) ∧
      startMatchingInfos s.disp infos = .ok d' ∧
      (startTag s name ns).1.vm = some vm' ∧ (startTag s name ns).1.disp = d' := by
  cases hf : s.fault with
  | some m => rw [startTag_fault s m hf] at h; simp at h
  | none =>
    rw [startTag_eq_core s hf] at h ⊢
    exact vm_direct_core { s with ord := s.ord + 1 } vm hv name ns f h attrs sc

/-- **Full_vm_aux.** When `handle_start_tag` asks for the attributes (`InfoRequest`) and the request is
answered with `info`, the two steps together are `SelVM.Vm.handleStartTag` on the tag WITH the
attributes and self-closing flag of `info`: the pending request is resumed on the VM state that issued
it, with the attributes it is given. -/
theorem Full_vm_aux (s : St) (vm : SelVM.Vm) (hv : s.vm = some vm) (name : LocalName) (ns : Model.Ns)
    (h : (startTag s name ns).2 = .infoRequest) (info : AuxInfo) (aux : SelVM.AuxStartTagInfo)
    (ha : auxConv info = some aux) (f : Model.Flags) (hok : (auxInfo (startTag s name ns).1 info).2 = .ok f) :
    ∃ vm' infos d', vm.handleStartTag ⟨nameBytes name, nsConv ns, aux.attrs, aux.selfClosing⟩ = .ok (vm', infos) ∧
      startMatchingInfos s.disp infos = .ok d' ∧
      (auxInfo (startTag s name ns).1 info).1.vm = some vm' ∧ (auxInfo (startTag s name ns).1 info).1.disp = d' := by
  cases hf : s.fault with
  | some m => rw [startTag_fault s m hf] at h; simp at h
  | none =>
    rw [startTag_eq_core s hf] at h hok ⊢
    exact vm_aux_core { s with ord := s.ord + 1 } vm hv name ns h info aux ha f hok

/-! ## The dispatcher hands over the attributes of the tag it is handling -/

/-- **Full_aux_same_tag** (any controller). In lexer mode, when `handle_start_tag` asks for the
attributes, the request is answered at once with the attribute buffer and self-closing flag of the
SAME start-tag lexeme. -/
theorem Full_aux_same_tag {γ : Type} (ctl : Controller γ) (d : Disp γ) (input : Bytes) (lx : TagLexeme)
    (name : Range) (h : Nat) (ns : Model.Ns) (as : List AttrOutline) (sc : Bool) (ln : LocalName)
    (ho : lx.outline = .startTag name h ns as sc) (hp : d.pendingAux = false)
    (hl : LocalName.new input name h = some ln) (hr : (ctl.startTag d.ctl ln ns).2 = .infoRequest) :
    d.adjustFlagsForTag ctl input lx =
      Disp.answerAux ctl { d with ctl := (ctl.startTag d.ctl ln ns).1 } ⟨input, as, sc⟩ := by
  unfold Disp.adjustFlagsForTag
  simp only [hp, Bool.false_eq_true, if_false, ho, hl, hr]

/-- **Full_aux_pending** (any controller). After a start-tag HINT whose `handle_start_tag` asked for the
attributes (scanner mode: `pending_element_aux_info_req`), the request is answered with the attribute
buffer of the next tag lexeme the lexer produces — which is the hinted tag as far as scanner and lexer
agree on where tags start (C06). -/
theorem Full_aux_pending {γ : Type} (ctl : Controller γ) (d : Disp γ) (input : Bytes) (lx : TagLexeme)
    (name : Range) (h : Nat) (ns : Model.Ns) (as : List AttrOutline) (sc : Bool)
    (ho : lx.outline = .startTag name h ns as sc) (hp : d.pendingAux = true) :
    d.adjustFlagsForTag ctl input lx = Disp.answerAux ctl { d with pendingAux := false } ⟨input, as, sc⟩ := by
  unfold Disp.adjustFlagsForTag
  simp only [hp, if_true, ho]

/-! ## Adapters are faithful -/

@[simp] theorem setStartTagMutations_chc (e : Element) (i : MutationsInner) :
    (e.setStartTagMutations i).canHaveContent = e.canHaveContent := rfl
@[simp] theorem setEndTagMutations_chc (e : Element) (i : MutationsInner) :
    (e.setEndTagMutations i).canHaveContent = e.canHaveContent := rfl
@[simp] theorem removeContent_chc (e : Element) : e.removeContent.canHaveContent = e.canHaveContent := by
  unfold Element.removeContent
  dsimp only
  split <;> rfl

theorem apply_chc (e : Element) (op : ElementOp) : (e.apply op).canHaveContent = e.canHaveContent := by
  cases op <;> simp only [Element.apply] <;> (try split) <;> (try split) <;> simp

/-- what the dispatcher needs to know about an element after the handlers ran -/
def endMut (e : Element) : Bool := e.endTagMutations.isSome || e.modifiedEndTagName.isSome

theorem opAct_faithful (e : Element) (op : ElementOp) :
    (e.apply op).shouldRemoveContent = (e.shouldRemoveContent || (opAct e.canHaveContent op).removeContent) ∧
    endMut (e.apply op) = (endMut e || (opAct e.canHaveContent op).endTagMutation) ∧
    (e.apply op).endTagHandlers.length = e.endTagHandlers.length + (opAct e.canHaveContent op).onEndTag := by
  cases hc : e.canHaveContent <;> cases op <;>
    simp [Element.apply, opAct, endMut, hc, Element.removeContent, Element.setEndTagMutations,
      Element.setStartTagMutations, Element.endTagMutationsMut] <;>
    (try split) <;> simp_all

/-- **Full_elemAct_faithful.** The `ElemAct` the glue feeds to the dispatcher model
(`Handlers.Dispatcher.handleStartTag`) for a list of API calls says exactly what those calls do to the
`EditModel.Element`: `should_remove_content()`, "has deferred end-tag mutations", and the number of
`on_end_tag` closures registered. -/
theorem Full_elemAct_faithful (ops : List ElementOp) (e : Element) :
    (e.applyOps ops).shouldRemoveContent = (e.shouldRemoveContent || (elemActOf e.canHaveContent ops).removeContent) ∧
    endMut (e.applyOps ops) = (endMut e || (elemActOf e.canHaveContent ops).endTagMutation) ∧
    (e.applyOps ops).endTagHandlers.length = e.endTagHandlers.length + (elemActOf e.canHaveContent ops).onEndTag := by
  unfold elemActOf
  suffices ∀ (a : ElemAct) (e0 : Element), e.canHaveContent = e0.canHaveContent →
      e.shouldRemoveContent = (e0.shouldRemoveContent || a.removeContent) →
      endMut e = (endMut e0 || a.endTagMutation) →
      e.endTagHandlers.length = e0.endTagHandlers.length + a.onEndTag →
      let a' := ops.foldl (fun a op =>
        let b := opAct e0.canHaveContent op
        (⟨a.onEndTag + b.onEndTag, a.removeContent || b.removeContent, a.endTagMutation || b.endTagMutation⟩ : ElemAct)) a
      (e.applyOps ops).shouldRemoveContent = (e0.shouldRemoveContent || a'.removeContent) ∧
      endMut (e.applyOps ops) = (endMut e0 || a'.endTagMutation) ∧
      (e.applyOps ops).endTagHandlers.length = e0.endTagHandlers.length + a'.onEndTag from by
    simpa using this ⟨0, false, false⟩ e rfl (by simp) (by simp) (by simp)
  induction ops generalizing e with
  | nil => intro a e0 _ h1 h2 h3; exact ⟨h1, h2, h3⟩
  | cons op ops ih =>
    intro a e0 hc h1 h2 h3
    obtain ⟨f1, f2, f3⟩ := opAct_faithful e op
    simp only [Element.applyOps, List.foldl_cons]
    have := ih (e.apply op)
      ⟨a.onEndTag + (opAct e0.canHaveContent op).onEndTag, a.removeContent || (opAct e0.canHaveContent op).removeContent,
        a.endTagMutation || (opAct e0.canHaveContent op).endTagMutation⟩ e0
      (by rw [apply_chc, hc])
      (by rw [f1, h1, hc, Bool.or_assoc])
      (by rw [f2, h2, hc, Bool.or_assoc])
      (by simp only [f3, h3, hc]; omega)
    exact this

/-- an element gets a boxed end-tag handler iff it has deferred mutations or `on_end_tag` closures —
the test `Handlers.Dispatcher.handleStartTag` makes on the `ElemAct`s -/
theorem intoEndTagHandler_isSome (e : Element) :
    e.intoEndTagHandler.isSome = (endMut e || decide (0 < e.endTagHandlers.length)) := by
  unfold Element.intoEndTagHandler endMut
  cases h1 : e.endTagMutations.isSome <;> cases h2 : e.modifiedEndTagName.isSome <;>
    cases h3 : e.endTagHandlers <;> simp


/-! ### the `LocalName` adapter on the declared tags -/

/-- declared tags whose hash does not decode back to the declared lower-case name (diagnostics) -/
def UnhashOkWitness (tags : List (Bytes × Nat)) : List Bytes :=
  (tags.filter fun t => !(unhash t.2 == t.1 && NameHash.ofBytes t.1 == t.2)).map (·.1)

/-- side-condition on the regenerated tag table: `unhash` inverts `LocalNameHash` on every declared tag -/
def UnhashOk (tags : List (Bytes × Nat)) : Bool := (UnhashOkWitness tags).isEmpty

/-- **Full_unhash_gen.** On every tag the Rust declares (`declare_tags!`: all names the code tests with
`tag_is_one_of!`, among them the void elements the VM's stack directive depends on), the name bytes the
glue hands to the selector VM for a hashed `LocalName` are the declared lower-case name. -/
theorem Full_unhash_gen : UnhashOk Gen.Tags.tags = true := by decide +kernel

theorem Full_unhash_gen_witness : UnhashOkWitness Gen.Tags.tags = [] := by decide +kernel

/-- **Full_endTagHandler_faithful.** The logging variant used by the glue computes the same end tag
as `EditModel.EndTagHandler.run` (element.rs:708-720). -/
theorem Full_endTagHandler_faithful (src : Range) (subs : List (HId × Nat)) (h : EndTagHandler) (s : St) (t : EndTag) :
    (runEndTagHandler src subs h s t).2 = h.run t := by
  have key : ∀ (user : List (List EndTagOp)) (subs : List (HId × Nat)) (s : St) (t0 : EndTag),
      (runEndTagUser src subs user s t0).2 = user.foldl EndTag.applyOps t0 := by
    intro user
    induction user with
    | nil => intro subs s t0; cases subs <;> rfl
    | cons ops user ih =>
      intro subs s t0
      cases subs with
      | nil => simpa [runEndTagUser] using ih [] s (t0.applyOps ops)
      | cons sub subs => simpa [runEndTagUser] using ih subs _ (t0.applyOps ops)
  unfold runEndTagHandler EndTagHandler.run
  exact key _ _ _ _



/-! ## Panic sites -/

/-- **Full_vec_loops_never_fail.** In every state of the real controller the three `HandlerVec` loops
succeed: `do_for_each_active_and_deactivate` on the element handlers (start-tag token) and
`do_for_each_active_and_remove_tail` on the end-tag handlers (end-tag token) and on the `end` handlers
(document end). I.e. the checked subtractions of the vector totals (handlers_dispatcher.rs:105,123) and
`debug_assert_eq!(self.user_count, 0)` (:128) cannot fire. -/
theorem Full_vec_loops_never_fail (cfg : Cfg) (s : FullSt cfg) :
    (∃ r, s.1.disp.element.doForEachActiveAndDeactivate = .ok r) ∧
    (∃ r, s.1.disp.endTag.doForEachActiveAndRemoveTail = .ok r) ∧
    (∃ r, s.1.disp.end_.doForEachActiveAndRemoveTail = .ok r) :=
  ⟨deactivate_ok s.2.wf.element, removeTail_ok s.2.wf.endTag, removeTail_ok s.2.wf.end_⟩

/-- consequence: `handle_end` of the real controller never reports a panic-class error from the
dispatcher itself (only a fault inherited from `handle_end_tag`, or a failing closure) -/
theorem Full_handleEnd_clean (cfg : Cfg) (s : FullSt cfg) (hf : s.1.fault = none) (e : Err)
    (he : ((fullCtl cfg).handleEnd s).2.2 = some e) : e = .handler := by
  obtain ⟨r, hr⟩ := removeTail_ok s.2.wf.end_
  have he' : (handleEnd cfg s.1).2.2 = some e := he
  unfold handleEnd at he'
  simp only [hf, hr] at he'
  split at he'
  · simpa using he'.symm
  · simp at he'

/-- **Full_descs_in_sync.** In every state of the real controller there is exactly one controller-owned
descriptor (`end_tag_handler_idx`, `remove_content`) per open element of the selector VM — the glue's
split of `ElementDescriptor` between the VM's stack items and `St.descs` is consistent: descriptors are
pushed and popped together with the elements they belong to. -/
theorem Full_descs_in_sync (cfg : Cfg) (s : FullSt cfg) :
    match s.1.vm with
    | some vm => s.1.descs.length = vm.stack.items.length
    | none => s.1.descs = [] :=
  s.2.sync

/-- consequence: `handle_end_tag` never takes the glue's "descs out of sync" branch -/
theorem Full_endTag_in_sync (cfg : Cfg) (s : FullSt cfg) (name : LocalName) (hf : s.1.fault = none) :
    (endTag s.1 name).1.fault ≠ some syncMsg := by
  have hs := s.2.sync
  unfold endTag
  split
  · rw [hf]; simp
  · rename_i vm hv
    have hl : s.1.descs.length = vm.stack.items.length := by simpa [Sync, hv] using hs
    split
    · simp [vmMsg, syncMsg]
    · rename_i vm' popped he
      have hlen : vm'.stack.items.length + popped.length = vm.stack.items.length := by
        unfold SelVM.Vm.execForEndTag at he
        simp only [bind, Except.bind, pure, Except.pure] at he
        split at he
        · cases he
        · rename_i r hr
          simp only [Except.ok.injEq, Prod.mk.injEq] at he
          rw [← he.1, ← he.2]
          exact popUpTo_length _ _ _ _ (by rw [hr])
      have : popped.length ≤ s.1.descs.length := by omega
      simp only [this, if_true]
      split
      · simp [dispMsg, syncMsg]
      · rw [hf]; simp

/-- **Full_not_ctlClean** (a finding about C15's hypothesis, not about the Rust). `CtlClean`, the
hypothesis of `C15_no_panic`, quantifies over ALL controller states; the real controller cannot
satisfy it: answering an aux-info request in a state that has none pending is the
`debug_assert!(false)` / `ActionError::internal("vm req without vm")` branch of
rewrite_controller.rs:110-113. The dispatcher only calls the continuation after an `InfoRequest`, so the
branch is unreachable in runs — but C15 would need its hypothesis relativised to reachable states
to apply to the real controller. -/
theorem Full_not_ctlClean (cfg : Cfg) : ¬ CtlClean (fullCtl cfg) := by
  intro h
  have := h.auxInfo (FullSt.init cfg) ⟨[], [], false⟩ (.internal "vm req without vm")
  have hp : (St.init cfg).pending = none := rfl
  have he : ((fullCtl cfg).auxInfo (FullSt.init cfg) ⟨[], [], false⟩).2 = .error (.internal "vm req without vm") := by
    show (auxInfo (St.init cfg) ⟨[], [], false⟩).2 = _
    unfold auxInfo
    split
    · rename_i hv hq; rw [hp] at hq; cases hq
    · rfl
  exact this he

/-- **Full statement** (NOT proved): no call of the whole rewriter model ever returns a panic /
internal-class result. Proved parts: `Full_vec_loops_never_fail`, `Full_handleEnd_clean`; for
scripted (parameter) controllers C15 proves it up to two sites. Missing for the real controller:
unreachability of the VM's explicit failure branches (`typedCounterMissing`, `instrIndex`,
`openNameCountUnderflow`), of the dispatcher's locator / match-id / refcount branches (`badLocator`,
`badMatchId`, `itemUnderflow`, `removedUnderflow`), of the glue's own consistency checks (descs parallel
to the VM stack, payload present, slices in range, request pending), which needs the refcount invariant
of pkg scope (C05_refcount) and the stack / program invariants of pkg selvm transported to `St`, C15's
lexeme-range invariant for the slices, and C15 itself relativised to reachable controller states
(`Full_not_ctlClean`). Lane `full`: never observed in > 140 000 cases. -/
def Full_no_panic_statement : Prop :=
  ∀ (cfg : Cfg) (settings : Settings) (chunks : List Bytes),
    ∀ x ∈ (run (fullWorld Gen.Syntax.table Gen.Tags.cfg cfg)
        (Rewriter.new (fullWorld Gen.Syntax.table Gen.Tags.cfg cfg) (FullSt.init cfg) settings) chunks).2,
      Model.CallOK (fun _ => False) x

/-- **C06_real_output** (the output half of handler independence, for observers): two configurations
whose scripts do not mutate — any selectors, any closures, hence any switching between tag scanner and
lexer — produce the same output on the same chunks whenever both runs succeed. -/
theorem C06_real_output (cfg1 cfg2 : Cfg) (ho1 : cfg1.Observing) (ho2 : cfg2.Observing) (s1 s2 : Settings)
    (chunks : List Bytes)
    (hok1 : ∀ x ∈ (run (fullWorld tbl tags cfg1) (Rewriter.new (fullWorld tbl tags cfg1) (FullSt.init cfg1) s1) chunks).2,
      x = CallRes.ok)
    (hok2 : ∀ x ∈ (run (fullWorld tbl tags cfg2) (Rewriter.new (fullWorld tbl tags cfg2) (FullSt.init cfg2) s2) chunks).2,
      x = CallRes.ok) :
    sinkBytes (run (fullWorld tbl tags cfg1) (Rewriter.new (fullWorld tbl tags cfg1) (FullSt.init cfg1) s1) chunks).1.sink =
    sinkBytes (run (fullWorld tbl tags cfg2) (Rewriter.new (fullWorld tbl tags cfg2) (FullSt.init cfg2) s2) chunks).1.sink := by
  rw [C01_real tbl tags cfg1 ho1 s1 chunks hok1, C01_real tbl tags cfg2 ho2 s2 chunks hok2]

/-- **Full_unhash.** For every tag name that `LocalNameHash` can represent (letters and the digits
1–6, short enough, first character a letter — which the tokenizer guarantees), the name bytes the glue
hands to the selector VM for the hashed `LocalName` are the lower-cased tag name; the VM compares
names ASCII-case-insensitively, so it sees the same name as with the raw bytes. -/
theorem Full_unhash (c : UInt8) (rest : Bytes) (halpha : isAsciiAlpha c = true)
    (hne : NameHash.ofBytes (c :: rest) ≠ emptyHash) :
    nameBytes (.hash (NameHash.ofBytes (c :: rest))) = asciiLowerBytes (c :: rest) :=
  unhash_ofBytes c rest halpha hne

/-! ## Instantiation at the code's current tables, non-vacuity (kernel-evaluated runs of the whole model) -/

/-- the world the driver runs in lane `full`: tables regenerated from /repo, the real controller -/
def genWorld (cfg : Cfg) : World (FullSt cfg) := fullWorld Gen.Syntax.table Gen.Tags.cfg cfg

theorem C01_real_gen (cfg : Cfg) (ho : cfg.observing = true) (settings : Settings) (chunks : List Bytes)
    (hok : ∀ x ∈ (run (genWorld cfg) (Rewriter.new (genWorld cfg) (FullSt.init cfg) settings) chunks).2, x = CallRes.ok) :
    sinkBytes (run (genWorld cfg) (Rewriter.new (genWorld cfg) (FullSt.init cfg) settings) chunks).1.sink = chunks.flatten :=
  C01_real Gen.Syntax.table Gen.Tags.cfg cfg (cfg.observing_sound ho) settings chunks hok

def bDiv : Bytes := [100,105,118]

/-- selector `div` with an element closure that registers one call-free `on_end_tag` closure, and a
document-level text observer -/
def obsCfg : Cfg :=
  { sels := [([⟨[.type bDiv], []⟩], { element := some [([.onEndTag []], false)] })],
    docs := [{ text := some [([], false)] }] }

/-- `<div a=b>x<` , `/div>y` -/
def sampleChunks : List Bytes := [[60,100,105,118,32,97,61,98,62,120,60], [47,100,105,118,62,121]]

example : obsCfg.observing = true := by decide

/-- the hypothesis of `C01_real` is satisfiable on a run in which six closures are invoked -/
example : (run (genWorld obsCfg) (Rewriter.new (genWorld obsCfg) (FullSt.init obsCfg) {}) sampleChunks).2
    = [.ok, .ok, .ok] := by decide +kernel

example : sinkBytes (run (genWorld obsCfg) (Rewriter.new (genWorld obsCfg) (FullSt.init obsCfg) {}) sampleChunks).1.sink
    = sampleChunks.flatten := by decide +kernel

example : (run (genWorld obsCfg) (Rewriter.new (genWorld obsCfg) (FullSt.init obsCfg) {}) sampleChunks).1.stream.disp.ctl.1.log.reverse.map (·.who)
    = [.element 0, .text 1, .text 1, .endTag 0 0, .text 1, .text 1] := by decide +kernel

/-- scanner mode at start iff no document-level token handler: `Full_initial_scan` on instances -/
example : ((fullCtl obsCfg).initialFlags (FullSt.init obsCfg)).isEmpty = false := by decide +kernel
example : ((fullCtl { obsCfg with docs := [{ end_ := some [] }] }).initialFlags
    (FullSt.init { obsCfg with docs := [{ end_ := some [] }] })).isEmpty = true := by decide +kernel

/-- a mutating script is not an observer, and the model really rewrites: `el.remove()` on `div` -/
def mutCfg : Cfg := { sels := [([⟨[.type bDiv], []⟩], { element := some [([.remove], false)] })] }

example : mutCfg.observing = false := by decide
example : sinkBytes (run (genWorld mutCfg) (Rewriter.new (genWorld mutCfg) (FullSt.init mutCfg) {}) sampleChunks).1.sink
    = [121] := by decide +kernel

/-- selector `[a]` (the VM needs the attributes: `InfoRequest`), `set_attribute("c","d")` and
`after("!")`: output `<div a=b c="d">x</div>!y` -/
def auxCfg : Cfg :=
  { sels := [([⟨[.attrExists [97]], []⟩],
      { element := some [([.setAttribute [99] [100], .after (.buffer [33] .html)], false)] })] }

example : sinkBytes (run (genWorld auxCfg) (Rewriter.new (genWorld auxCfg) (FullSt.init auxCfg) {}) sampleChunks).1.sink
    = [60,100,105,118,32,97,61,98,32,99,61,34,100,34,62,120,60,47,100,105,118,62,33,121] := by decide +kernel

/-- `C11_real` non-vacuity: a text observer failing at its 2nd invocation (the closing chunk of the
text node, at `</div>` in the second write), graceful bail-out on: the second `write` fails, the sink
still holds every byte written -/
def failCfg : Cfg := { docs := [{ text := some [([], false), ([], true)] }] }

example : failCfg.observing = true := by decide
example : (writeAll (genWorld failCfg) (Rewriter.new (genWorld failCfg) (FullSt.init failCfg) { bailOnHandler := true }) sampleChunks).2
    = [.ok, .err .handler] := by decide +kernel
example : sinkBytes (writeAll (genWorld failCfg) (Rewriter.new (genWorld failCfg) (FullSt.init failCfg) { bailOnHandler := true }) sampleChunks).1.sink
    = sampleChunks.flatten := by decide +kernel
example : sinkBytes (writeAll (genWorld failCfg) (Rewriter.new (genWorld failCfg) (FullSt.init failCfg) {}) sampleChunks).1.sink
    = [60,100,105,118,32,97,61,98,62,120] := by decide +kernel

end LolHtml.Thm.Full
