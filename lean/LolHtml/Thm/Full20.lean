/-
# Package `full`, part 20 — chunk independence of WHICH handlers ran WHERE (C04 / C05 on raw bytes)

`C02_real_final` compares sink bytes. Its engine (`C02_chunk_invariance_R`, Thm/C02_Removal.lean) also relates the final
CONTROLLER states of two chunkings, up to `FullE` — which is equality (on the domain "no text handler"). The checked
rewriter it talks about IS the real one (`runG_eq'`). So for configurations without text handlers the final controller
state — the selector VM, the dispatcher and the whole invocation LOG (`St.log`: which closure ran, on the unit at which
source range, what it saw) — does not depend on the chunking: in particular the set of (element handler, start tag)
hits and every comment / doctype / end-tag / end handler invocation.
-/
import LolHtml.Thm.C02_RemovalFinal
import LolHtml.Thm.Full19

namespace LolHtml.Thm.Full
open LolHtml LolHtml.Model LolHtml.Model.Full LolHtml.Model.Chunk LolHtml.Model.Chunk.R
open LolHtml.Thm.C02

/-- **C04_real_chunk_independent (state form).** Configuration without text handlers (arbitrary selectors; element,
comment, doctype, end-tag, document-end handlers with arbitrary mutating / removing / failing scripts), every settings
record; two chunkings of the same document whose runs (and the single-write run) return no panic-class or
memory-limit error and succeed: the final controller states are EQUAL. -/
theorem C04_real_chunk_independent (hc : Cfg) (hnt : noText hc = true) (settings : Settings) (cs₁ cs₂ : List Bytes)
    (h1 : cs₁ ≠ []) (h2 : cs₂ ≠ []) (hflat : cs₁.flatten = cs₂.flatten)
    (hc1 : Clean (C01.run (genWorld hc) (C01.Rewriter.new (genWorld hc) (FullSt.init hc) settings) cs₁).2)
    (hc2 : Clean (C01.run (genWorld hc) (C01.Rewriter.new (genWorld hc) (FullSt.init hc) settings) cs₂).2)
    (hcW : Clean (C01.run (genWorld hc) (C01.Rewriter.new (genWorld hc) (FullSt.init hc) settings) [cs₁.flatten]).2)
    (hok : outcome (C01.run (genWorld hc) (C01.Rewriter.new (genWorld hc) (FullSt.init hc) settings) cs₁).2 = .ok) :
    (C01.run (genWorld hc) (C01.Rewriter.new (genWorld hc) (FullSt.init hc) settings) cs₁).1.stream.disp.ctl =
      (C01.run (genWorld hc) (C01.Rewriter.new (genWorld hc) (FullSt.init hc) settings) cs₂).1.stream.disp.ctl := by
  have heq : ∀ cs, runG (genWorld hc) (C01.Rewriter.new (genWorld hc) (FullSt.init hc) settings) cs =
      C01.run (genWorld hc) (C01.Rewriter.new (genWorld hc) (FullSt.init hc) settings) cs := fun cs =>
    runG_eq' (D := FullD hc) C15.C15_relexSide_gen (show EmitsChecked Gen.Syntax.table = true by decide +kernel)
      C15.C15_gen (fullCtl_textBlindR hc).resumeLaws (fullCtl_panicLaws hc) (FullSt.init hc) (init_fullD hc) settings cs
  obtain ⟨_, b⟩ := C02_chunk_invariance_R (genWorld hc) (FullE hc) (FullSt.init hc) settings cs₁ cs₂ C02_wf_gen
    (fullCtl_textBlindR hc) (init_E hc hnt) (init_shouldEmit hc) h1 h2 hflat
    (by rw [heq]; exact hc1) (by rw [heq]; exact hc2) (by rw [heq]; exact hcW)
  rw [heq, heq] at b
  obtain ⟨_, gW, e1, e2⟩ := b hok
  rw [e1.1, e2.1]

/-- **C04_real_chunk_independent_log.** … hence the same invocation log: the same closures ran, on the units at the same
source ranges, seeing the same content — element handlers (the selector hits), comment / doctype handlers, end-tag
handlers and `end` handlers alike — and the selector VM ends in the same state. -/
theorem C04_real_chunk_independent_log (hc : Cfg) (hnt : noText hc = true) (settings : Settings) (cs₁ cs₂ : List Bytes)
    (h1 : cs₁ ≠ []) (h2 : cs₂ ≠ []) (hflat : cs₁.flatten = cs₂.flatten)
    (hc1 : Clean (C01.run (genWorld hc) (C01.Rewriter.new (genWorld hc) (FullSt.init hc) settings) cs₁).2)
    (hc2 : Clean (C01.run (genWorld hc) (C01.Rewriter.new (genWorld hc) (FullSt.init hc) settings) cs₂).2)
    (hcW : Clean (C01.run (genWorld hc) (C01.Rewriter.new (genWorld hc) (FullSt.init hc) settings) [cs₁.flatten]).2)
    (hok : outcome (C01.run (genWorld hc) (C01.Rewriter.new (genWorld hc) (FullSt.init hc) settings) cs₁).2 = .ok) :
    (C01.run (genWorld hc) (C01.Rewriter.new (genWorld hc) (FullSt.init hc) settings) cs₁).1.stream.disp.ctl.1.log =
      (C01.run (genWorld hc) (C01.Rewriter.new (genWorld hc) (FullSt.init hc) settings) cs₂).1.stream.disp.ctl.1.log ∧
    (C01.run (genWorld hc) (C01.Rewriter.new (genWorld hc) (FullSt.init hc) settings) cs₁).1.stream.disp.ctl.1.vm =
      (C01.run (genWorld hc) (C01.Rewriter.new (genWorld hc) (FullSt.init hc) settings) cs₂).1.stream.disp.ctl.1.vm := by
  rw [C04_real_chunk_independent hc hnt settings cs₁ cs₂ h1 h2 hflat hc1 hc2 hcW hok]
  exact ⟨rfl, rfl⟩

/-- non-vacuity: `[a]` with `set_attribute` + `after` (InfoRequest path) on two chunkings of `<div a=b>x</div>y` -/
example : (C01.run (genWorld auxCfg) (C01.Rewriter.new (genWorld auxCfg) (FullSt.init auxCfg) {}) rch2).1.stream.disp.ctl.1.log =
    (C01.run (genWorld auxCfg) (C01.Rewriter.new (genWorld auxCfg) (FullSt.init auxCfg) {}) rch3).1.stream.disp.ctl.1.log :=
  (C04_real_chunk_independent_log auxCfg (by decide) {} rch2 rch3 (by decide) (by decide) (by decide)
    (clean_of_all_ok (by decide +kernel)) (clean_of_all_ok (by decide +kernel)) (clean_of_all_ok (by decide +kernel))
    (by decide +kernel)).1

/-- … and that log is not empty: the element handler of selector 0 ran -/
example : ((C01.run (genWorld auxCfg) (C01.Rewriter.new (genWorld auxCfg) (FullSt.init auxCfg) {}) rch2).1.stream.disp.ctl.1.log.map
    (·.who)) = [.element 0] := by decide +kernel

end LolHtml.Thm.Full
