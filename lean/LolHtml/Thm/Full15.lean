import LolHtml.Thm.Full13
import LolHtml.Thm.Full14
/-!
# `Full_no_panic`: the whole rewriter model never returns a panic-class error

The capstone of the scanner-mode development. `Full_no_panic_partial4` (package inv, `Thm/Full13.lean`)
lifts a per-operation statement about the dispatcher over the REAL controller model
(`fullCtl cfg`: selector VM + handler dispatcher + edit model) to whole runs: the ghost "outstanding
hint kind" is free (`run_hint`), none of the four guards (lexeme arguments, lexeme kind, watermark,
hints) ever fires in the runs of the cleaned controller (`Full_clean_guardX'`: argument validity for
arbitrary sinks, the relex agreement in both hint directions from package scan, the watermark bound,
the hint-mode walk), and the cleaned run is panic-free (`C15_no_panic_full_gen`).
`Full_scan_opsX` (package full, `Thm/Full14.lean`) proves that per-operation statement for the closed
invariant `InvY`, every (operation, protocol state) pair.

Together: for EVERY configuration — any selectors; element, text, comment, doctype, end-tag and
document-end handlers with observing, mutating, removing or failing scripts — every settings record,
every input and every chunking, in lexer AND scanner mode, no call of `write* ; end` on the whole
rewriter model returns a panic- or internal-class error: only `ok`, a content-handler error, the
memory-limit error, the parsing-ambiguity error, or the documented panic of a call after an error.
-/
namespace LolHtml.Thm.Full
open LolHtml LolHtml.Model

theorem Full_no_panic : Full_no_panic_statement :=
  Full_no_panic_partial4 InvY Full_scan_opsX

end LolHtml.Thm.Full
