import LolHtml.Thm.Full9
/-!
# `Full_clean_kindH`: in the runs of the cleaned real controller with the ghost the kind guard never fires

`kindGuard` = `kindGuardS` on top of `kindGuardE` (`guardS_kindGuard`). Both halves are the re-lexing agreement
of package scan (`parse_X`, generic in the kind `K` of the raising hint), for the dispatcher over `hintCtl ctl`:
* E half (`K = false`, flag `PendE`, error `.panic guardSite`): `EndLaws` for `PendE`, then `C06_relex_end_tag_parse`;
* S half (`K = true`, flag `PendS`, error `.panic startSite`, sink = the dispatcher already guarded by `kindGuardE`):
  `XLaws … PendS Disp.Good true`, then `parse_X` + guard transparency (`Parser.parse_rel`);
both threaded through `Stream.write` along the real run, and recast as `GuardFree2`.
-/
set_option linter.unusedSimpArgs false
set_option linter.unusedVariables false
namespace LolHtml.Thm.Full
open LolHtml LolHtml.Model LolHtml.Model.Full
open LolHtml.Thm.C01 (run writeAll Rewriter.new)
open LolHtml.Model.RelI LolHtml.Model.Hint
open LolHtml.Lemmas.Sim (Inv)

variable {γ : Type}

/-! ### the ghost and the two dispatcher flags across the dispatcher's operations -/

section frame
variable {ctl : Controller γ} {inp : Bytes}

/-- the ghost -/
def gh (d : Disp (γ × Option Bool)) : Option Bool := d.ctl.2

theorem tokenProduced_gh (d : Disp (γ × Option Bool)) (t : Token) : gh (Disp.tokenProduced (hintCtl ctl) d t).1 = gh d := by
  unfold Disp.tokenProduced
  dsimp only
  have h1 : ∀ (d : Disp (γ × Option Bool)) o, gh (d.noteNextEncoding o) = gh d := by
    intro d o; unfold Disp.noteNextEncoding; (repeat' split) <;> rfl
  have h2 : ∀ (d : Disp (γ × Option Bool)) cs, gh (d.pushChunks cs) = gh d := by
    intro d cs; unfold Disp.pushChunks; split <;> rfl
  split <;> (simp only; rw [h2, h1]; rfl)

theorem bind_gh {α β : Type} (r : DRes (γ × Option Bool) α) (f : Disp (γ × Option Bool) → α → DRes (γ × Option Bool) β)
    (v : Option Bool) (hr : gh r.1 = v) (hf : ∀ d a, gh d = v → gh (f d a).1 = v) : gh (DRes.bind r f).1 = v := by
  unfold DRes.bind
  split
  · exact hr
  · exact hf _ _ hr

theorem flushPendingText_gh (d : Disp (γ × Option Bool)) : gh (d.flushPendingText (hintCtl ctl)).1 = gh d := by
  unfold Disp.flushPendingText
  split
  · rw [tokenProduced_gh]; rfl
  · rfl

theorem emitToken_gh (d : Disp (γ × Option Bool)) (raw : Range) (tok : Token) :
    gh (d.emitToken (hintCtl ctl) inp raw tok).1 = gh d := by
  unfold Disp.emitToken
  apply bind_gh
  · unfold DRes.ofExcept Disp.emitChunkBefore
    cases checkedSlice inp ⟨d.rcs, raw.start⟩ with
    | none => rfl
    | some ch => dsimp only; split <;> rfl
  · intro d1 _ h1
    apply bind_gh
    · rw [tokenProduced_gh]; exact h1
    · intro d2 _ h2
      unfold Disp.flushEncodingChange
      dsimp only
      (repeat' split) <;> exact h2

theorem produceTag_gh (d : Disp (γ × Option Bool)) (lx : TagLexeme) : gh (d.produceTag (hintCtl ctl) inp lx).1 = gh d := by
  unfold Disp.produceTag
  split
  · rfl
  · split
    · rfl
    · rw [emitToken_gh]; rfl

theorem produceNonTag_gh (d : Disp (γ × Option Bool)) (lx : NonTagLexeme) :
    gh (d.produceNonTag (hintCtl ctl) inp lx).1 = gh d := by
  unfold Disp.produceNonTag
  split
  · split
    · unfold Disp.produceText
      split
      · rfl
      · apply bind_gh
        · unfold DRes.ofExcept Disp.emitChunkBefore
          cases checkedSlice inp ⟨d.rcs, lx.raw.start⟩ with
          | none => rfl
          | some ch => dsimp only; split <;> rfl
        · intro d1 _ h1
          apply bind_gh
          · rw [tokenProduced_gh]; exact h1
          · intro d2 _ h2; exact h2
    · rfl
  · split
    · rfl
    · rfl
    · exact emitToken_gh _ _ _

theorem handleNonTag_gh (lx : NonTagLexeme) (d : Disp (γ × Option Bool)) :
    gh (Disp.handleNonTag (hintCtl ctl) inp lx d).1 = gh d := by
  unfold Disp.handleNonTag
  apply bind_gh
  · split
    · rfl
    · exact flushPendingText_gh d
  · intro d1 _ h1
    rw [produceNonTag_gh]; exact h1

/-- `PendS` / `PendE` as functions of the two flags and the ghost -/
theorem PendS_eq (d : Disp (γ × Option Bool)) : PendS d = ((d.pg.2 && gh d == some true) || d.pg.1) := rfl
theorem PendE_eq (d : Disp (γ × Option Bool)) : PendE d = (d.pg.2 && gh d == some false) := rfl

theorem pend_congr {d d' : Disp (γ × Option Bool)} (h1 : d'.pg = d.pg) (h2 : gh d' = gh d) :
    PendS d' = PendS d ∧ PendE d' = PendE d := by
  rw [PendS_eq, PendS_eq, PendE_eq, PendE_eq, h1, h2]; exact ⟨rfl, rfl⟩

theorem handleNonTag_pend (lx : NonTagLexeme) (d : Disp (γ × Option Bool)) :
    PendS (Disp.handleNonTag (hintCtl ctl) inp lx d).1 = PendS d ∧ PendE (Disp.handleNonTag (hintCtl ctl) inp lx d).1 = PendE d :=
  pend_congr (handleNonTag_pg lx d) (handleNonTag_gh lx d)

/-- a successful `handle_tag` clears `got_flags_from_hint` -/
theorem handleTag_gf_ok (lx : TagLexeme) (d : Disp (γ × Option Bool)) (dir : Directive)
    (h : (Disp.handleTag (hintCtl ctl) inp lx d).2 = .ok dir) :
    (Disp.handleTag (hintCtl ctl) inp lx d).1.gotFlagsFromHint = false := by
  unfold Disp.handleTag at h ⊢
  cases hfl : (d.flushPendingText (hintCtl ctl)).2 with
  | error e => rw [DRes.bind_err_eq hfl] at h; cases h
  | ok u =>
    rw [DRes.bind_ok_eq hfl] at h ⊢
    generalize (d.flushPendingText (hintCtl ctl)).1 = fl at h ⊢
    have hadj : (if fl.gotFlagsFromHint then (({ fl with gotFlagsFromHint := false }, .ok ()) : DRes (γ × Option Bool) Unit)
        else fl.adjustFlagsForTag (hintCtl ctl) inp lx).1.gotFlagsFromHint = false := by
      cases hg : fl.gotFlagsFromHint with
      | true => simp only [if_true]
      | false =>
        simp only [Bool.false_eq_true, if_false]
        rw [(adjustFlagsForTag_pend (ctl := hintCtl ctl) (inp := inp) fl lx).2]; exact hg
    generalize (if fl.gotFlagsFromHint then (({ fl with gotFlagsFromHint := false }, .ok ()) : DRes (γ × Option Bool) Unit)
        else fl.adjustFlagsForTag (hintCtl ctl) inp lx) = ad at hadj h ⊢
    cases har : ad.2 with
    | error e => rw [DRes.bind_err_eq har] at h; cases h
    | ok u2 =>
      rw [DRes.bind_ok_eq har] at h ⊢
      have hp := produceTag_pg (ctl := hintCtl ctl) (inp := inp) (ad.1.resumeEmission (hintCtl ctl) lx) lx
      have hr : (ad.1.resumeEmission (hintCtl ctl) lx).gotFlagsFromHint = false := by
        unfold Disp.resumeEmission; split <;> exact hadj
      simp only [Disp.pg, Prod.mk.injEq] at hp
      cases hpr : ((ad.1.resumeEmission (hintCtl ctl) lx).produceTag (hintCtl ctl) inp lx).2 with
      | error e => rw [DRes.bind_err_eq hpr] at h; cases h
      | ok u3 =>
        rw [DRes.bind_ok_eq hpr]
        show ((ad.1.resumeEmission (hintCtl ctl) lx).produceTag (hintCtl ctl) inp lx).1.gotFlagsFromHint = false
        rw [hp.2]; exact hr

end frame

/-! ### the hints -/

section hints
variable {ctl : Controller γ}

/-- after a start-tag hint the ghost is `some true` -/
theorem startTagHint_gh (n : LocalName) (ns : Ns) (d : Disp (γ × Option Bool)) :
    gh (Disp.startTagHint (hintCtl ctl) n ns d).1 = some true := by
  unfold Disp.startTagHint
  dsimp only
  split <;> rfl

theorem startTagHint_pendE (n : LocalName) (ns : Ns) (d : Disp (γ × Option Bool)) :
    PendE (Disp.startTagHint (hintCtl ctl) n ns d).1 = false := by
  rw [PendE_eq, startTagHint_gh]; simp

/-- a start-tag hint answered `scan` clears `got_flags_from_hint` and keeps the aux request -/
theorem startTagHint_scan (n : LocalName) (ns : Ns) (d : Disp (γ × Option Bool))
    (h : (Disp.startTagHint (hintCtl ctl) n ns d).2 = .ok .scan) :
    (Disp.startTagHint (hintCtl ctl) n ns d).1.gotFlagsFromHint = false ∧
    (Disp.startTagHint (hintCtl ctl) n ns d).1.pendingAux = d.pendingAux := by
  unfold Disp.startTagHint at h ⊢
  dsimp only at h ⊢
  split at h
  · rename_i f hf
    unfold Disp.applyHintFlags at h ⊢
    dsimp only at h ⊢
    simp only [Except.ok.injEq] at h
    rw [h]
    exact ⟨rfl, rfl⟩
  · cases h
  · cases h

/-- an end-tag hint: the two flags and the ghost of the result -/
theorem endTagHint_facts (n : LocalName) (d : Disp (γ × Option Bool)) :
    ((Disp.endTagHint (hintCtl ctl) n d).1.pendingAux = d.pendingAux) ∧
    ((∃ e, (Disp.endTagHint (hintCtl ctl) n d).2 = .error e ∧ (Disp.endTagHint (hintCtl ctl) n d).1.pg = d.pg ∧
        gh (Disp.endTagHint (hintCtl ctl) n d).1 = gh d) ∨
     (gh (Disp.endTagHint (hintCtl ctl) n d).1 = some false ∧
      ∃ dir, (Disp.endTagHint (hintCtl ctl) n d).2 = .ok dir ∧
        (Disp.endTagHint (hintCtl ctl) n d).1.gotFlagsFromHint = (dir == .lex))) := by
  unfold Disp.endTagHint
  have h0 := flushPendingText_pg (ctl := hintCtl ctl) d
  have h1 := flushPendingText_gh (ctl := ctl) d
  cases hfl : (d.flushPendingText (hintCtl ctl)).2 with
  | error e =>
    rw [DRes.bind_err_eq hfl]
    simp only [Disp.pg, Prod.mk.injEq] at h0
    exact ⟨h0.1, Or.inl ⟨e, rfl, by simp only [Disp.pg, Prod.mk.injEq]; exact h0, h1⟩⟩
  | ok u =>
    rw [DRes.bind_ok_eq hfl]
    simp only [Disp.pg, Prod.mk.injEq] at h0
    unfold Disp.applyHintFlags
    dsimp only
    exact ⟨h0.1, Or.inr ⟨rfl, _, rfl, rfl⟩⟩

/-- `PendLaw` for `PendE` (only an end-tag hint can raise it) -/
theorem pendLaw_E : PendLaw (dispOps (hintCtl ctl)) (PendE (γ := γ)) false where
  start := fun n ns k _ _ => startTagHint_pendE n ns k
  end_ := by
    intro n k hp hr
    obtain ⟨_, h | ⟨_, dir, hd, hg⟩⟩ := endTagHint_facts (ctl := ctl) n k
    · obtain ⟨e, he, _⟩ := h
      simp only [dispOps] at hr
      rw [he] at hr; cases hr
    · simp only [dispOps] at hr ⊢
      rw [hd] at hr
      simp only [Except.ok.injEq] at hr
      subst hr
      rw [PendE_eq]
      simp only [Disp.pg]
      rw [hg]; rfl
  otherE := fun h => by cases h
  otherS := fun _ n ns k _ => startTagHint_pendE n ns k

/-- `PendLaw` for `PendS` (only a start-tag hint can raise it) -/
theorem pendLaw_S : PendLaw (dispOps (hintCtl ctl)) (PendS (γ := γ)) true where
  start := by
    intro n ns k hp hr
    have hpa : k.pendingAux = false := by
      rw [PendS_eq] at hp
      simp only [Disp.pg, Bool.or_eq_false_iff] at hp
      exact hp.2
    obtain ⟨a, b⟩ := startTagHint_scan (ctl := ctl) n ns k hr
    simp only [dispOps]
    rw [PendS_eq]
    simp only [Disp.pg]
    rw [a, b, hpa]; rfl
  end_ := by
    intro n k hp hr
    have hpa : k.pendingAux = false := by
      rw [PendS_eq] at hp
      simp only [Disp.pg, Bool.or_eq_false_iff] at hp
      exact hp.2
    obtain ⟨hpa', h | ⟨hgh, dir, hd, hg⟩⟩ := endTagHint_facts (ctl := ctl) n k
    · obtain ⟨e, he, _⟩ := h
      simp only [dispOps] at hr
      rw [he] at hr; cases hr
    · simp only [dispOps]
      rw [PendS_eq, hgh]
      simp only [Disp.pg]
      rw [hpa', hpa]; simp
  otherE := by
    intro _ n k hp
    have hpa : k.pendingAux = false := by
      rw [PendS_eq] at hp
      simp only [Disp.pg, Bool.or_eq_false_iff] at hp
      exact hp.2
    obtain ⟨hpa', h | ⟨hgh, dir, hd, hg⟩⟩ := endTagHint_facts (ctl := ctl) n k
    · obtain ⟨e, he, hpg, hg⟩ := h
      simp only [dispOps]
      rw [(pend_congr hpg hg).1]; exact hp
    · simp only [dispOps]
      rw [PendS_eq, hgh]
      simp only [Disp.pg]
      rw [hpa', hpa]; simp
  otherS := fun h => by cases h

end hints

/-! ### the dispatcher never reports `.panic startSite` itself -/

section cleanS
variable {γ : Type} {ctl : Controller γ} {inp : Bytes}

/-- not `.panic startSite` -/
abbrev NS : Err → Prop := fun e => e ≠ .panic startSite

theorem ns_of_clean {e : Err} (h : e.Clean) : NS e := by
  intro hh; subst hh; exact h

variable (hc : CtlClean ctl)
include hc

theorem tokenProduced_ns (d : Disp γ) (t : Token) : DErr NS (Disp.tokenProduced ctl d t) := by
  intro e he
  unfold Disp.tokenProduced at he
  dsimp only at he
  split at he
  · rename_i e' hh
    simp only [Except.error.injEq] at he
    subst he
    exact ns_of_clean (hc.token _ _ _ hh)
  · cases he

theorem flushPendingText_ns (d : Disp γ) : DErr NS (d.flushPendingText ctl) := by
  unfold Disp.flushPendingText
  split
  · exact tokenProduced_ns hc _ _
  · exact DErr.ok _ _

omit hc in
theorem emitChunkBefore_ns (d : Disp γ) (raw : Range) : DErr NS (DRes.ofExcept d (d.emitChunkBefore inp raw)) := by
  unfold DRes.ofExcept Disp.emitChunkBefore
  cases checkedSlice inp ⟨d.rcs, raw.start⟩ with
  | none => intro e he; simp only [Except.error.injEq] at he; subst he; simp [NS, startSite]
  | some ch => exact DErr.ok _ _

theorem emitToken_ns (d : Disp γ) (raw : Range) (tok : Token) : DErr NS (d.emitToken ctl inp raw tok) := by
  unfold Disp.emitToken
  apply DErr.bind (emitChunkBefore_ns d raw)
  intro d1 _
  apply DErr.bind (tokenProduced_ns hc d1 tok)
  intro d2 _
  exact DErr.ok _ _

theorem produceTag_ns (d : Disp γ) (lx : TagLexeme) : DErr NS (d.produceTag ctl inp lx) := by
  unfold Disp.produceTag
  split
  · intro e he; simp only [Except.error.injEq] at he; subst he; simp [NS, startSite]
  · split
    · exact DErr.ok _ _
    · exact emitToken_ns hc _ _ _

theorem produceNonTag_ns (d : Disp γ) (lx : NonTagLexeme) : DErr NS (d.produceNonTag ctl inp lx) := by
  unfold Disp.produceNonTag
  split
  · split
    · unfold Disp.produceText
      split
      · intro e he; simp only [Except.error.injEq] at he; subst he; simp [NS, startSite]
      · apply DErr.bind (emitChunkBefore_ns d lx.raw)
        intro d1 _
        apply DErr.bind (tokenProduced_ns hc _ _)
        intro d2 _
        exact DErr.ok _ _
    · exact DErr.ok _ _
  · split
    · intro e he; simp only [Except.error.injEq] at he; subst he; simp [NS, startSite]
    · exact DErr.ok _ _
    · exact emitToken_ns hc _ _ _

theorem handleNonTag_ns (lx : NonTagLexeme) (d : Disp γ) : DErr NS (Disp.handleNonTag ctl inp lx d) := by
  unfold Disp.handleNonTag
  apply DErr.bind
  · split
    · exact DErr.ok _ _
    · exact flushPendingText_ns hc d
  · intro d1 _
    exact produceNonTag_ns hc d1 lx

theorem answerAux_ns (d : Disp γ) (info : AuxInfo) : DErr NS (d.answerAux ctl info) := by
  unfold Disp.answerAux
  dsimp only
  split
  · exact DErr.ok _ _
  · rename_i e herr
    intro e' he
    simp only [Except.error.injEq] at he
    subst he
    exact ns_of_clean (hc.auxInfo _ _ _ herr)

theorem adjustFlagsForTag_ns (d : Disp γ) (lx : TagLexeme) : DErr NS (d.adjustFlagsForTag ctl inp lx) := by
  unfold Disp.adjustFlagsForTag
  split
  · split
    · exact answerAux_ns hc _ _
    · intro e he; simp only [Except.error.injEq] at he; subst he; simp [NS]
  · split
    · split
      · intro e he; simp only [Except.error.injEq] at he; subst he; simp [NS, startSite]
      · dsimp only
        split
        · exact DErr.ok _ _
        · exact answerAux_ns hc _ _
        · rename_i e herr
          intro e' he
          simp only [Except.error.injEq] at he
          subst he
          exact ns_of_clean (hc.startTag _ _ _ _ herr)
    · split
      · intro e he; simp only [Except.error.injEq] at he; subst he; simp [NS, startSite]
      · exact DErr.ok _ _

theorem handleTag_ns (lx : TagLexeme) (d : Disp γ) : DErr NS (Disp.handleTag ctl inp lx d) := by
  unfold Disp.handleTag
  apply DErr.bind (flushPendingText_ns hc d)
  intro d1 _
  apply DErr.bind
  · split
    · exact DErr.ok _ _
    · exact adjustFlagsForTag_ns hc _ lx
  · intro d2 _
    apply DErr.bind (produceTag_ns hc _ lx)
    intro d3 _
    exact DErr.ok _ _

theorem startTagHint_ns (name : LocalName) (ns : Ns) (d : Disp γ) : DErr NS (Disp.startTagHint ctl name ns d) := by
  unfold Disp.startTagHint
  dsimp only
  split
  · unfold Disp.applyHintFlags; exact DErr.ok _ _
  · exact DErr.ok _ _
  · rename_i e herr
    intro e' he
    simp only [Except.error.injEq] at he
    subst he
    exact ns_of_clean (hc.startTag _ _ _ _ herr)

theorem endTagHint_ns (name : LocalName) (d : Disp γ) : DErr NS (Disp.endTagHint ctl name d) := by
  unfold Disp.endTagHint
  apply DErr.bind (flushPendingText_ns hc d)
  intro d1 _
  dsimp only
  unfold Disp.applyHintFlags
  exact DErr.ok _ _


/-- for a clean controller the dispatcher never returns `.panic startSite` (it raises that site only as an `internal` error) -/
theorem dispOps_clean_start :
    (∀ lx k, (Disp.handleNonTag ctl inp lx k).2 ≠ .error (.panic startSite)) ∧
    (∀ lx k, (Disp.handleTag ctl inp lx k).2 ≠ .error (.panic startSite)) ∧
    (∀ n ns k, (Disp.startTagHint ctl n ns k).2 ≠ .error (.panic startSite)) ∧
    (∀ n k, (Disp.endTagHint ctl n k).2 ≠ .error (.panic startSite)) :=
  ⟨fun lx k h => handleNonTag_ns hc lx k _ h rfl, fun lx k h => handleTag_ns hc lx k _ h rfl,
   fun n ns k h => startTagHint_ns hc n ns k _ h rfl, fun n k h => endTagHint_ns hc n k _ h rfl⟩

end cleanS

/-! ### the sink laws -/

section laws
variable {ctl : Controller γ}

/-- the dispatcher guarded by `kindGuardE` -/
abbrev opsE (ctl : Controller γ) : SinkOps (Disp (γ × Option Bool)) := guardS kindGuardE (dispOps (hintCtl ctl))
/-- … and by `kindGuardS` on top -/
abbrev opsSE (ctl : Controller γ) : SinkOps (Disp (γ × Option Bool)) := guardS kindGuardS (opsE ctl)

theorem opsSE_handleTag (inp : Bytes) (lx : TagLexeme) (k : Disp (γ × Option Bool)) :
    (opsSE ctl).handleTag inp lx k =
      if PendS k && !lx.outline.isStart then (k, .error (.panic startSite))
      else if PendE k && lx.outline.isStart then (k, .error (.panic guardSite))
      else Disp.handleTag (hintCtl ctl) inp lx k := by
  simp only [opsSE, opsE, guardS, kindGuardS, kindGuardE, dispOps]
  by_cases h1 : (PendS k && !lx.outline.isStart) = true
  · simp only [h1, if_true]
  · simp only [h1, if_false, Bool.false_eq_true]
    by_cases h2 : (PendE k && lx.outline.isStart) = true
    · simp only [h2, if_true]
    · simp only [h2, if_false, Bool.false_eq_true]

theorem opsSE_handleNonTag (inp : Bytes) (lx : NonTagLexeme) (k : Disp (γ × Option Bool)) :
    (opsSE ctl).handleNonTag inp lx k = Disp.handleNonTag (hintCtl ctl) inp lx k := rfl

theorem pendS_pa {k : Disp (γ × Option Bool)} (h : PendS k = false) : k.pendingAux = false := by
  rw [PendS_eq] at h
  simp only [Disp.pg, Bool.or_eq_false_iff] at h
  exact h.2

variable (hc : CtlClean (hintCtl ctl))
include hc

/-- `EndLaws` for `PendE` -/
theorem endLaws_E (inp : Bytes) : LolHtml.Thm.C06.EndLaws (dispOps (hintCtl ctl)) inp (PendE (γ := γ)) (fun _ => True) where
  hint := pendLaw_E
  goodNT := fun _ _ _ => trivial
  goodT := fun _ _ _ => trivial
  goodS := fun _ _ _ _ _ => trivial
  goodE := fun _ _ _ _ => trivial
  pendNT := fun lx k => (handleNonTag_pend lx k).2
  pendT := by
    intro lx k d _ hr
    simp only [dispOps] at hr ⊢
    rw [PendE_eq]
    simp only [Disp.pg]
    rw [handleTag_gf_ok lx k d hr]; rfl
  cleanNT := (LolHtml.Thm.C06.dispOps_clean_guard (inp := inp) hc).1
  cleanT := (LolHtml.Thm.C06.dispOps_clean_guard (inp := inp) hc).2.1
  cleanS := (LolHtml.Thm.C06.dispOps_clean_guard (inp := inp) hc).2.2.1
  cleanE := (LolHtml.Thm.C06.dispOps_clean_guard (inp := inp) hc).2.2.2

/-- the sink laws (`K = true`) of the doubly guarded dispatcher for `PendS`, error class `.panic startSite` -/
theorem xlaws_S (inp : Bytes) :
    XLaws (opsSE ctl) inp (PendS (γ := γ)) Disp.Good true (fun e => e = .panic startSite) where
  hint := ⟨pendLaw_S.start, pendLaw_S.end_, pendLaw_S.otherE, fun h => (by cases h)⟩
  sub := fun e he => Or.inl (by subst he; exact Or.inl rfl)
  goodNT := fun lx k hg => (dispOps_xlaws (inp := inp) hc).goodNT lx k hg
  goodT := by
    intro lx k hg hk
    rw [opsSE_handleTag]
    split
    · exact hg
    · split
      · exact hg
      · refine (dispOps_xlaws (inp := inp) hc).goodT lx k hg (fun hpa => hk ?_)
        rw [PendS_eq]
        simp only [Disp.pg]
        rw [show k.pendingAux = true from hpa]; simp
  goodS := fun n ns k hg hp => (dispOps_xlaws (inp := inp) hc).goodS n ns k hg (pendS_pa hp)
  goodE := fun n k hg hp => (dispOps_xlaws (inp := inp) hc).goodE n k hg (pendS_pa hp)
  pendNT := fun lx k => (handleNonTag_pend lx k).1
  pendT := by
    intro lx k d hg hr
    rw [opsSE_handleTag] at hr ⊢
    split at hr
    · cases hr
    · rename_i h1
      rw [if_neg h1]
      split at hr
      · cases hr
      · rename_i h2
        rw [if_neg h2]
        rcases handleTag_flags (ctl := hintCtl ctl) (inp := inp) lx k hg with ⟨a, b⟩ | ⟨_, e, he, _⟩
        · rw [PendS_eq]
          simp only [Disp.pg]
          rw [a, b]; rfl
        · rw [he] at hr; cases hr
  errNT := fun lx k e he hu => (dispOps_clean_start (inp := inp) hc).1 lx k (by subst hu; exact he)
  errT := by
    intro lx k e he hu
    subst hu
    rw [opsSE_handleTag] at he
    split at he
    · rename_i h1
      simp only [Bool.and_eq_true, Bool.not_eq_true'] at h1
      exact ⟨h1.1, by simpa using h1.2⟩
    · split at he
      · simp only [Except.error.injEq, Err.panic.injEq] at he
        exact absurd he (by simp [guardSite, startSite])
      · exact absurd he ((dispOps_clean_start (inp := inp) hc).2.1 lx k)
  errS := fun n ns k e he hu => (dispOps_clean_start (inp := inp) hc).2.2.1 n ns k (by subst hu; exact he)
  errE := fun n k e he hu => (dispOps_clean_start (inp := inp) hc).2.2.2 n k (by subst hu; exact he)

end laws

/-! ### parser level -/

section parse
variable {ctl : Controller γ} {tbl : Table} {tags : TagCfg}
variable {L : Labels} {TT : TLabels} {P : PLabels} {S : SLabels}

/-- the real environment, and the two guarded ones -/
abbrev envR (tbl : Table) (tags : TagCfg) (ctl : Controller γ) : Env (Disp (γ × Option Bool)) := ⟨tbl, tags, dispOps (hintCtl ctl)⟩
abbrev envE (tbl : Table) (tags : TagCfg) (ctl : Controller γ) : Env (Disp (γ × Option Bool)) :=
  LolHtml.Thm.C06.guardEnv (envR tbl tags ctl) PendE
abbrev envSE (tbl : Table) (tags : TagCfg) (ctl : Controller γ) : Env (Disp (γ × Option Bool)) := ⟨tbl, tags, opsSE ctl⟩

theorem envE_eq : envE tbl tags ctl = ⟨tbl, tags, opsE ctl⟩ := by
  unfold envE LolHtml.Thm.C06.guardEnv opsE
  rw [guardS_kindGuardE_eq]

/-- the parser invariant of both halves -/
def PI (tbl : Table) (tags : TagCfg) (ctl : Controller γ) (L : Labels) (TT : TLabels) (P : PLabels) (S : SLabels)
    (inp : Bytes) (p : Parser (Disp (γ × Option Bool))) : Prop :=
  PX0 (envSE tbl tags ctl) L TT P S PendS Disp.Good true inp p ∧
  PX0 (envE tbl tags ctl) L TT P S PendE (fun _ => True) false inp p

variable (hc : CtlClean (hintCtl ctl))
include hc

/-- **one `parse`**: from the invariant, the parse over the dispatcher guarded by `kindGuard` is the real parse, returns
neither guard error, and the invariant holds again for the next call -/
theorem parse_kind (hside : RelexSide tbl L TT P S) (ht : EmitsChecked tbl = true) (inp : Bytes) (last : Bool)
    (p : Parser (Disp (γ × Option Bool))) (hp : PI tbl tags ctl L TT P S inp p) :
    Parser.parse (envSE tbl tags ctl) inp last p = Parser.parse (envR tbl tags ctl) inp last p ∧
    (Parser.parse (envR tbl tags ctl) inp last p).2 ≠ .error (.panic startSite) ∧
    (Parser.parse (envR tbl tags ctl) inp last p).2 ≠ .error (.panic guardSite) ∧
    (∀ k, (Parser.parse (envR tbl tags ctl) inp last p).2 = .ok k → last = false →
      ∀ data, PI tbl tags ctl L TT P S (inp.drop k ++ data) (Parser.parse (envR tbl tags ctl) inp last p).1) := by
  obtain ⟨hpS, hpE⟩ := hp
  -- E half
  obtain ⟨eE, nE⟩ := LolHtml.Thm.C06.C06_relex_end_tag_parse (env := envR tbl tags ctl) (endLaws_E hc inp) hside ht last p hpE
  obtain ⟨qE, _⟩ := parse_X (env := envE tbl tags ctl) (inp := inp) (LolHtml.Thm.C06.guardOps_xlaws (endLaws_E hc inp)) hside last p hpE
  -- S half
  obtain ⟨qS, nS⟩ := parse_X (env := envSE tbl tags ctl) (inp := inp) (xlaws_S hc inp) hside last p hpS
  have hops : OpsRel (opsSE ctl) (opsE ctl) inp (fun a b : Disp (γ × Option Bool) => a = b) (.panic startSite) := by
    refine ⟨fun lx k₁ k₂ hk => ?_, fun lx k₁ k₂ hk => ?_, fun n ns k₁ k₂ hk => ?_, fun n k₁ k₂ hk => ?_⟩
    · subst hk
      simp only [opsSE, guardS, kindGuardS]
      split
      · rename_i e he
        split at he
        · simp only [Option.some.injEq] at he
          subst he
          exact Or.inr rfl
        · cases he
      · exact Or.inl ⟨rfl, rfl⟩
    · subst hk; exact Or.inl ⟨rfl, rfl⟩
    · subst hk; exact Or.inl ⟨rfl, rfl⟩
    · subst hk; exact Or.inl ⟨rfl, rfl⟩
  have hrel := Parser.parse_rel (tbl := tbl) (cfg := tags) (inp := inp) hops ht (by intro s hh; cases hh) last p p
    ⟨rfl, rfl, rfl, rfl, rfl, rfl, rfl, rfl⟩
  have eS : Parser.parse (envSE tbl tags ctl) inp last p = Parser.parse (envE tbl tags ctl) inp last p := by
    rw [envE_eq]
    rcases hrel with ⟨h1, h2⟩ | habort
    · exact Prod.ext (LolHtml.Thm.C06.PR_eq h1) h2
    · exact absurd rfl (qS _ habort)
  refine ⟨eS.trans eE, ?_, ?_, fun k hk hl data => ⟨?_, nE k hk hl data⟩⟩
  · intro h
    rw [← eE, ← eS] at h
    exact qS _ h rfl
  · intro h
    rw [← eE] at h
    exact qE _ h rfl
  · rw [← eE, ← eS] at hk ⊢
    exact nS k hk hl data

end parse

/-! ### along the run -/

section stream
variable {ctl : Controller γ} {tbl : Table} {tags : TagCfg}
variable {L : Labels} {TT : TLabels} {P : PLabels} {S : SLabels}

/-- the world -/
abbrev wH (tbl : Table) (tags : TagCfg) (ctl : Controller γ) : World (γ × Option Bool) := ⟨tbl, tags, hintCtl ctl⟩

theorem PX0_setSinkG {κ : Type} {env : Env κ} {Pend : κ → Bool} {Good : κ → Prop} {K : Bool} {inp : Bytes} {p : Parser κ} (d : κ)
    (h : PX0 env L TT P S Pend Good K inp p) (hpe : Pend d = Pend p.x.sink) (hgood : Good p.x.sink → Good d) :
    PX0 env L TT P S Pend Good K inp { p with x := { p.x with sink := d } } := by
  cases hd : p.directive with
  | scan =>
    simp only [PX0, hd] at h ⊢
    obtain ⟨hsa, hg, hi⟩ := h
    refine ⟨⟨⟨hsa.head.scan, hsa.head.stale, hsa.head.head⟩, ⟨hsa.lab.scan, hsa.lab.tt, hsa.lab.endc, ?_⟩,
      fun q ph v a1 a2 a3 a4 a5 => ⟨(hsa.sem q ph v a1 a2 a3 a4 a5).path, (hsa.sem q ph v a1 a2 a3 a4 a5).sem⟩⟩,
      hgood hg, hi⟩
    show Pend d = false
    rw [hpe]
    exact hsa.lab.pend
  | lex =>
    simp only [PX0, hd] at h ⊢
    obtain ⟨⟨c0, l0, x0, hm, hcore⟩, hidle⟩ := h
    simp only [M.mk.injEq, Regs.lexer.injEq] at hm
    obtain ⟨rfl, rfl, rfl⟩ := hm
    exact ⟨⟨_, _, _, rfl, hcore.sink d hgood hpe⟩, hidle⟩

theorem flushRemaining_ctl {κ : Type} {d d' : Disp κ} {inp : Bytes} {k : Nat} (h : d.flushRemaining inp k = .ok d') : d'.ctl = d.ctl := by
  unfold Disp.flushRemaining at h
  split at h
  · split at h
    · cases h
    · simp only [Except.ok.injEq] at h
      subst h
      split <;> rfl
  · simp only [Except.ok.injEq] at h
    subst h
    rfl

theorem new_PX0 {κ : Type} (env : Env κ) (Pend : κ → Bool) (Good : κ → Prop) (K : Bool) (hside : RelexSide env.tbl L TT P S)
    (k0 : κ) (dir : Directive) (strict : Bool) (hP : Pend k0 = false) (hG : Good k0) (data : Bytes) :
    PX0 env L TT P S Pend Good K data (Parser.new env.tbl k0 dir strict) := by
  cases dir with
  | scan =>
    simp only [PX0, Parser.new]
    refine ⟨⟨HInv.of_none rfl rfl rfl, ⟨rfl, ?_, fun _ => rfl, hP⟩, HSem_of_none rfl⟩, hG, LolHtml.Lemmas.Sim.inv_new _⟩
    exact tt_flows (TextTypeOk_text (t := env.tbl) hside.tt .data) (x := TextType.data) (fun tt h => by simpa using h)
  | lex =>
    simp only [PX0, Parser.new]
    exact ⟨⟨_, _, _, rfl, hG, LolHtml.Lemmas.Sim.inv_new _, Or.inl ⟨rfl, hP⟩⟩, rfl, rfl, rfl⟩

/-- stream invariant -/
def SPI (tbl : Table) (tags : TagCfg) (ctl : Controller γ) (L : Labels) (TT : TLabels) (P : PLabels) (S : SLabels)
    (s : Stream (γ × Option Bool)) : Prop :=
  ∀ data, PI tbl tags ctl L TT P S (s.pending ++ data) s.parser

theorem new_SPI (hside : RelexSide tbl L TT P S) (g : γ × Option Bool) (cfg : Settings) :
    SPI tbl tags ctl L TT P S (Stream.new (wH tbl tags ctl) g cfg) := by
  intro data
  have hp : (Stream.new (wH tbl tags ctl) g cfg).pending = [] := rfl
  rw [hp, List.nil_append]
  exact ⟨new_PX0 (envSE tbl tags ctl) PendS Disp.Good true hside _ _ _ rfl (fun _ => rfl) data,
    new_PX0 (envE tbl tags ctl) PendE (fun _ => True) false hside _ _ _ rfl trivial data⟩

variable (hc : CtlClean (hintCtl ctl))
include hc

theorem write_SPI (hside : RelexSide tbl L TT P S) (ht : EmitsChecked tbl = true) (s : Stream (γ × Option Bool)) (data : Bytes)
    (hs : SPI tbl tags ctl L TT P S s) (hres : (s.write (wH tbl tags ctl) data).2 = .ok ()) :
    SPI tbl tags ctl L TT P S (s.write (wH tbl tags ctl) data).1 := by
  obtain ⟨_, _, _, e2⟩ := parse_kind (tags := tags) hc hside ht (s.pending ++ data) false s.parser (hs data)
  unfold Stream.write at hres ⊢
  cases hcf : s.chunkFor (wH tbl tags ctl) data with
  | inl s' => rw [hcf] at hres; cases hres
  | inr sc =>
    obtain ⟨s1, chunk⟩ := sc
    obtain ⟨c1, c2, c3, c4, c5⟩ := Stream.chunkFor_inr hcf
    rw [hcf] at hres
    dsimp only at hres ⊢
    subst c1
    rw [c2] at hres ⊢
    cases hpr : (s.parser.parse (wH tbl tags ctl).env (s.pending ++ data) false).2 with
    | error e => rw [hpr] at hres; cases hres
    | ok consumed =>
      rw [hpr] at hres
      dsimp only at hres ⊢
      have hnext := e2 consumed hpr rfl
      cases hfl : Disp.flushRemaining (Stream.disp { s1 with parser := (s.parser.parse (wH tbl tags ctl).env (s.pending ++ data) false).1 })
          (s.pending ++ data) consumed with
      | error e => rw [hfl] at hres; cases hres
      | ok d =>
        rw [hfl] at hres
        dsimp only at hres ⊢
        obtain ⟨k1, k2⟩ := LolHtml.Thm.C09.keepTail_pending (w := wH tbl tags ctl)
          (s := Stream.setDisp { s1 with parser := (s.parser.parse (wH tbl tags ctl).env (s.pending ++ data) false).1 } d)
          (data := data) (chunk := s.pending ++ data) (consumed := consumed)
          (by intro hb; exact c5 (by simpa [Stream.setDisp, c3] using hb))
          (by intro hb
              have : s.hasBuffered = false := by simpa [Stream.setDisp, c3] using hb
              simp [Stream.pending, this])
          hres
        obtain ⟨f1, f2⟩ := LolHtml.Thm.C15.flushRemaining_flags hfl
        have f3 := flushRemaining_ctl hfl
        have hpg : d.pg = (Stream.disp { s1 with parser := (s.parser.parse (wH tbl tags ctl).env (s.pending ++ data) false).1 }).pg := by
          simp only [Disp.pg, f1, f2]
        have hgh : gh d = gh (Stream.disp { s1 with parser := (s.parser.parse (wH tbl tags ctl).env (s.pending ++ data) false).1 }) := by
          unfold gh; rw [f3]
        obtain ⟨pS, pE⟩ := pend_congr hpg hgh
        intro data'
        rw [k1, k2]
        obtain ⟨nS, nE⟩ := hnext data'
        refine ⟨PX0_setSinkG d nS pS ?_, PX0_setSinkG d nE pE (fun _ => trivial)⟩
        intro hg hh
        show d.pendingAux = false
        exact f1.trans (hg (f2.symm.trans hh))

theorem writeAll_SPI (hside : RelexSide tbl L TT P S) (ht : EmitsChecked tbl = true) (chunks : List Bytes)
    (r : Rewriter (γ × Option Bool)) (hr : r.poisoned = true ∨ SPI tbl tags ctl L TT P S r.stream) :
    (writeAll (wH tbl tags ctl) r chunks).1.poisoned = true ∨ SPI tbl tags ctl L TT P S (writeAll (wH tbl tags ctl) r chunks).1.stream := by
  induction chunks generalizing r with
  | nil => exact hr
  | cons c cs ih =>
    simp only [writeAll]
    apply ih
    unfold Rewriter.write
    by_cases hp : r.poisoned = true
    · rw [if_pos hp]; exact Or.inl hp
    · have hs : SPI tbl tags ctl L TT P S r.stream := by rcases hr with h | h; exact absurd h hp; exact h
      simp only [hp, Bool.false_eq_true, if_false]
      cases hres : (r.stream.write (wH tbl tags ctl) c).2 with
      | ok u => exact Or.inr (write_SPI hc hside ht r.stream c hs hres)
      | error e => exact Or.inl rfl

/-- **the kind guard never fires** in the runs over `hintCtl ctl`, for every clean `hintCtl ctl` -/
theorem guardFree2_kind (hside : RelexSide tbl L TT P S) (ht : EmitsChecked tbl = true) (g : γ × Option Bool) (cfg : Settings) :
    GuardFree2 (wH tbl tags ctl) kindGuard g cfg := by
  intro pre hp
  have hr := writeAll_SPI (tags := tags) hc hside ht pre (Rewriter.new (wH tbl tags ctl) g cfg) (Or.inr (new_SPI hside g cfg))
  have hs : SPI tbl tags ctl L TT P S (writeAll (wH tbl tags ctl) (Rewriter.new (wH tbl tags ctl) g cfg) pre).1.stream := by
    rcases hr with h | h
    · rw [hp] at h; cases h
    · exact h
  have henv : RelI.envS (wH tbl tags ctl) kindGuard = envSE tbl tags ctl := by
    unfold RelI.envS envSE opsSE opsE
    rw [guardS_kindGuard]
  have hfire : ∀ {r : Except Err Nat}, r ≠ .error (.panic startSite) → r ≠ .error (.panic guardSite) →
      ∀ e, (kindGuard (γ := γ)).Fires e → r ≠ .error e := by
    intro r h1 h2 e he
    rcases kindGuard_fires he with rfl | rfl
    · exact h1
    · exact h2
  generalize (writeAll (wH tbl tags ctl) (Rewriter.new (wH tbl tags ctl) g cfg) pre).1 = R at hs ⊢
  constructor
  · intro data s1 chunk hcf
    obtain ⟨c1, c2, _, _, _⟩ := Stream.chunkFor_inr hcf
    subst c1
    rw [c2, henv]
    obtain ⟨a, b, c, _⟩ := parse_kind (tags := tags) hc hside ht (R.stream.pending ++ data) false R.stream.parser (hs data)
    exact ⟨a, hfire b c⟩
  · have := hs []
    rw [List.append_nil] at this
    have hpend : R.stream.pending = (if R.stream.hasBuffered then R.stream.buf.data else []) := rfl
    rw [hpend] at this
    rw [henv]
    obtain ⟨a, b, c, _⟩ := parse_kind (tags := tags) hc hside ht _ true R.stream.parser this
    exact ⟨a, hfire b c⟩

end stream

/-! ### the theorem -/

/-- **Full_clean_kindH.** In the runs of the cleaned real controller with the ghost the kind guard never fires. -/
theorem Full_clean_kindH : Full_clean_kindH_statement := by
  intro cfg settings
  exact guardFree2_kind (tbl := Gen.Syntax.table) (tags := Gen.Tags.cfg) (ctl := Chunk.R.cleanCtl (fullCtl cfg))
    (cleanCtlH_clean cfg) C15.C15_relexSide_gen C03.C03_emitsChecked_gen (FullSt.init cfg, none) settings

end LolHtml.Thm.Full
