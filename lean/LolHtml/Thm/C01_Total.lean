import LolHtml.Lemmas.Total
import LolHtml.Thm.C15_Core
/-!
# C01 — pass-through identity, unconditional form

`LolHtml.Thm.C01.C01_passthrough` proves `sink bytes = bytes written` for every run *in which all calls
succeed*. Here the hypothesis "all calls succeed" is removed: for every table satisfying the C15
side-conditions (`WfTable` and the token-part certificate; both re-checked on the regenerated table),
every tag configuration, every observing controller that never fails and never asks for the
attributes of a hinted start tag (`NeverFails`), non-strict settings, a memory limit that is at least
the total number of bytes written, and EVERY list of chunks — every `write` and the `end` return `ok`
and the sink receives exactly the bytes written.

Why no error can occur (each class of `RewritingError` / panic separately):
* panic / internal assertion: C15 (`Thm/C15_Core.lean`) — except the two `U2` sites. The dispatcher's
  "Tag should be a start tag at this point" needs a pending aux-info request, which only a controller
  answering `infoRequest` to a start-tag hint creates: excluded by `NeverFails` (`dispOps_prov`).
  The remaining site, "RequestLexeme callback: unexpected tag type / empty ns stack", is reachable
  only if the lexer restarted by the tag scanner produces a first tag of another kind than the scanner
  saw (scanner/lexer agreement, C06): it is carried as the ONLY remaining hypothesis, `hagree`.
* `handler` (`ContentHandlerError`): only the controller returns it, or `Parser.parseLoop` when it maps
  an `ActionError::Internal` — unreachable (error provenance, `Lemmas/Prov.lean`, + `C15_signals`).
* `ambiguity`: only `Sim.feedbackForStartTag` in strict mode (`Sim.feedbackForStartTag_nonstrict`).
* `mem`: only `Arena::append` / `init_with`; the arena charges exactly its capacity (`BufOK`) and never
  holds more than the bytes written, so a limit ≥ total input length is never exceeded (the
  preallocation is clamped to the limit by `Arena::new`, so it does not matter).
-/
namespace LolHtml.Thm.C01
open LolHtml LolHtml.Model

variable {γ : Type}

/-- invariant between calls of the unconditional argument -/
def GoodT (w : World γ) (cert : Cert) (M : Nat) (r : Rewriter γ) (written : Bytes) : Prop :=
  Good r written ∧ TInv w cert r.stream ∧ r.stream.buf.max = M

theorem pending_le {r : Rewriter γ} {written : Bytes} (h : Good r written) :
    r.stream.pending.length ≤ written.length := by
  have := congrArg List.length h.2.2
  simp only [List.length_append] at this
  omega

theorem new_goodT (w : World γ) (hw : Wf w.tbl) (hchk : checkCert w.tbl (computeCert w.tbl) = true) (g : γ)
    (cfg : Settings) (hstrict : cfg.strict = false) :
    GoodT w (computeCert w.tbl) cfg.maxMem (Rewriter.new w g cfg) [] := by
  refine ⟨new_good w g cfg, ⟨Stream.new_SInv2 hw hchk g cfg, rfl, ?_, ?_⟩, ?_⟩
  · simp only [Rewriter.new, Stream.new, Parser.new, Sim.new]; exact hstrict
  · exact (Buf.new_ok _ _).1
  · exact (Buf.new_ok _ _).2

/-- a call result that is not a panic at a `U2` site -/
def NotU2 (x : CallRes) : Prop := ∀ st, U2 st → x ≠ .err (.panic st)

theorem write_goodT {w : World γ} {cert : Cert} {M : Nat} (hobs : Observing w.ctl) (hn : NeverFails w.ctl)
    (hw : Wf w.tbl) (hchk : checkCert w.tbl cert = true) (r : Rewriter γ) (written data : Bytes)
    (hg : GoodT w cert M r written) (hM : written.length + data.length ≤ M) (hag : NotU2 (r.write w data).2) :
    (r.write w data).2 = .ok ∧ GoodT w cert M (r.write w data).1 (written ++ data) := by
  obtain ⟨hgood, ht, hmax⟩ := hg
  have hp := hgood.1
  have hpl := pending_le hgood
  obtain ⟨t1, t2⟩ := Stream.write_total hn hw hchk r.stream data ht (by rw [hmax]; omega)
  have hres : (r.stream.write w data).2 = .ok () := by
    cases hr : (r.stream.write w data).2 with
    | ok u => rfl
    | error e =>
      exfalso
      obtain ⟨st, rfl, hst⟩ := t1 e hr
      apply hag st hst
      unfold Model.Rewriter.write
      simp only [hp, Bool.false_eq_true, if_false, hr]
  have hok : (r.write w data).2 = .ok := by
    unfold Model.Rewriter.write
    simp only [hp, Bool.false_eq_true, if_false, hres]
  refine ⟨hok, write_good hobs r written data hgood hok, ?_⟩
  have hs : (r.write w data).1.stream = (r.stream.write w data).1 := by
    unfold Model.Rewriter.write
    simp only [hp, Bool.false_eq_true, if_false, hres]
  rw [hs]
  exact ⟨(t2 hres).1, by rw [(t2 hres).2]; exact hmax⟩

theorem writeAll_goodT {w : World γ} {cert : Cert} {M : Nat} (hobs : Observing w.ctl) (hn : NeverFails w.ctl)
    (hw : Wf w.tbl) (hchk : checkCert w.tbl cert = true) (chunks : List Bytes) (r : Rewriter γ) (written : Bytes)
    (hg : GoodT w cert M r written) (hM : written.length + chunks.flatten.length ≤ M)
    (hag : ∀ x ∈ (writeAll w r chunks).2, NotU2 x) :
    (∀ x ∈ (writeAll w r chunks).2, x = CallRes.ok) ∧
    GoodT w cert M (writeAll w r chunks).1 (written ++ chunks.flatten) := by
  induction chunks generalizing r written with
  | nil => exact ⟨fun x hx => (by cases hx), by simpa [writeAll] using hg⟩
  | cons c cs ih =>
    simp only [writeAll, List.mem_cons, forall_eq_or_imp, List.flatten_cons, List.length_append] at hM hag ⊢
    obtain ⟨h1, h2⟩ := write_goodT hobs hn hw hchk r written c hg (by omega) hag.1
    obtain ⟨h3, h4⟩ := ih (r.write w c).1 (written ++ c) h2 (by simp only [List.length_append]; omega) hag.2
    exact ⟨⟨h1, h3⟩, by simpa [List.append_assoc] using h4⟩

/-- **C01_passthrough_total.** No "if all calls succeed": every `write` and the `end` return `ok`, and
the sink receives exactly the bytes written. `hagree` (no call panics at a `U2` site) is the only
hypothesis left about the run; it stands for scanner/lexer agreement (see the header). -/
theorem C01_passthrough_total (w : World γ) (hwf : WfTable w.tbl = true)
    (hcert : checkCert w.tbl (computeCert w.tbl) = true) (hobs : ObservingAll w.ctl) (hn : NeverFails w.ctl)
    (g : γ) (cfg : Settings) (hstrict : cfg.strict = false) (chunks : List Bytes)
    (hmem : chunks.flatten.length ≤ cfg.maxMem)
    (hagree : ∀ x ∈ (run w (Rewriter.new w g cfg) chunks).2, NotU2 x) :
    (∀ x ∈ (run w (Rewriter.new w g cfg) chunks).2, x = CallRes.ok) ∧
    sinkBytes (run w (Rewriter.new w g cfg) chunks).1.sink = chunks.flatten := by
  have hw := WfTable.wf hwf
  have hall : ∀ x ∈ (run w (Rewriter.new w g cfg) chunks).2, x = CallRes.ok := by
    unfold run at hagree ⊢
    simp only [List.mem_append, List.mem_singleton] at hagree ⊢
    obtain ⟨h1, h2⟩ := writeAll_goodT hobs.toObserving hn hw hcert chunks (Rewriter.new w g cfg) []
      (new_goodT w hw hcert g cfg hstrict) (by simpa using hmem) (fun x hx => hagree x (Or.inl hx))
    intro x hx
    rcases hx with hx | rfl
    · exact h1 x hx
    · obtain ⟨hgood, ht, _⟩ := h2
      have hp := hgood.1
      have hag := hagree _ (Or.inr rfl)
      have t1 := Stream.end_total hn hw hcert _ ht
      unfold Model.Rewriter.end at hag ⊢
      simp only [hp, Bool.false_eq_true, if_false] at hag ⊢
      cases hr : ((writeAll w (Rewriter.new w g cfg) chunks).1.stream.end w).2 with
      | ok u => rfl
      | error e =>
        exfalso
        obtain ⟨st, rfl, hst⟩ := t1 e hr
        rw [hr] at hag
        exact hag st hst rfl
  exact ⟨hall, C01_passthrough w hobs g cfg chunks hall⟩

/-! ### instantiation at the code's current tables -/

theorem constCtl_neverFails (f : Nat) : NeverFails (constCtl f) where
  token := by intro g t; rfl
  startTag := by intro g n ns; exact ⟨_, rfl⟩
  auxInfo := by intro g i; exact ⟨_, rfl⟩
  handleEnd := by intro g; rfl

/-- for the generated table and any constant capture flags (full lexing and pure tag scanning alike) -/
theorem C01_passthrough_total_gen (f : Nat) (cfg : Settings) (hstrict : cfg.strict = false) (chunks : List Bytes)
    (hmem : chunks.flatten.length ≤ cfg.maxMem)
    (hagree : ∀ x ∈ (run (genWorld f) (Rewriter.new (genWorld f) () cfg) chunks).2, NotU2 x) :
    (∀ x ∈ (run (genWorld f) (Rewriter.new (genWorld f) () cfg) chunks).2, x = CallRes.ok) ∧
    sinkBytes (run (genWorld f) (Rewriter.new (genWorld f) () cfg) chunks).1.sink = chunks.flatten :=
  C01_passthrough_total (genWorld f) LolHtml.Thm.C15.C15_gen LolHtml.Thm.C15.C15_cert_gen (constCtl_observing f)
    (constCtl_neverFails f) () cfg hstrict chunks hmem hagree

/-- the memory hypothesis is sharp in kind: with a limit below the input length a buffered write fails
(`<a` retained, limit 1) -/
example : (run (genWorld 31) (Rewriter.new (genWorld 31) () { maxMem := 1 }) [[60, 97]]).2 = [.err .mem, .panicUseAfterError] := by
  decide +kernel

/-- and strict mode can fail with `ambiguity`: `<select><title>` -/
example : (run (genWorld 31) (Rewriter.new (genWorld 31) () { strict := true })
    [[60,115,101,108,101,99,116,62,60,116,105,116,108,101,62]]).2.head? ≠ some .ok := by
  decide +kernel

end LolHtml.Thm.C01
