import LolHtml.Lemmas.ScanBound
import LolHtml.Lemmas.StreamTiling
import LolHtml.Gen.Syntax
import LolHtml.Gen.Tags
/-!
# C09 — absolute bound on what is held back after a `write`

With no handlers the parser runs the tag scanner. For every table satisfying the decidable
side-condition `UnmarkOnLeave` (re-checked on the table generated from the Rust on every run),
after every successful `write` during which the parser stayed in scanner mode, the bytes held back
are `w ++ v` where `w` is empty or `<`, `</`, `<`[`/`] + partial tag name, and `v` is empty or a
proper prefix of one of the table's look-ahead sequences.

Runs that leave scanner mode: a start tag in foreign content whose tree-builder feedback is
`RequestLexeme` forces the lexer even with no handlers (known finding F10); the lexer-mode bound is
`C09_lexer_bound`.
-/
namespace LolHtml.Thm.C09
open LolHtml LolHtml.Model

variable {κ γ : Type}

/-! ### the side-condition on the current table -/

/-- `UnmarkOnLeave` holds for the table generated from the current Rust sources. -/
theorem C09_unmarkOnLeave_gen : UnmarkOnLeave Gen.Syntax.table = true := by decide +kernel

/-- `TagHead` of the current table: the `<`, `</` and tag-name states of the five text modes. -/
example : tagHead Gen.Syntax.table = [5, 6, 7, 9, 10, 11, 13, 14, 15, 19, 20, 21, 28, 29, 31] := by
  decide +kernel

/-- remove `unmark_tag_start` from the action lists of arm `k` of state `i` -/
def dropUnmark (t : Table) (i k : Nat) : Table :=
  let stripSeq (q : ActSeq) : ActSeq := { q with calls := q.calls.filter (fun c => c.act != .unmarkTagStart) }
  let stripArm (a : Arm) : Arm :=
    { a with body := match a.body with
        | .seq s => .seq (stripSeq s)
        | .ite c x y => .ite c (stripSeq x) (stripSeq y) }
  { t with states := t.states.mapIdx fun j sd =>
      if j == i then { sd with arms := sd.arms.mapIdx fun n a => if n == k then stripArm a else a } else sd }

/-- the table as it was before /repo commit 1a27e6a (finding F4) -/
def preF4Table : Table := dropUnmark (dropUnmark Gen.Syntax.table 29 3) 21 5

/-- **F4 regression**: on the pre-fix table the side-condition is false and the witness names exactly
the two arms that lacked `unmark_tag_start`: `script_data_escaped_end_tag_name_state` arm 5 (`_`) and
`end_tag_open_state` arm 3 (`_`). -/
theorem C09_unmarkOnLeave_preF4 :
    UnmarkOnLeave preF4Table = false ∧ unmarkOnLeaveWitness preF4Table = [(21, 5), (29, 3)] := by
  decide +kernel

example : unmarkOnLeaveWitness Gen.Syntax.table = [] := by decide +kernel

/-! ### machine level -/

/-- **C09_scanner_bound (parsing loop).** A scanner machine satisfying the invariant, run on the
slice `inp` up to the first signal: if that signal is "end of input, `k` bytes consumed" then the
held bytes `inp.drop k` have the allowed shape, the machine satisfies the invariant again over any
continuation of the held bytes, and if neither a tag head nor a look-ahead is in progress nothing is
held. For every table with `HeadOk`, every tag configuration and sink. -/
theorem C09_scanner_bound_loop (env : Env κ) (L : Labels) (hok : HeadOk env.tbl L = true) (inp : Bytes) (n : Nat)
    (m : M κ) (h : HInv env.tbl L inp m) (k : Nat) (hk : (runLoop env inp n m).2 = .endOfInput k) :
    HeldOk env.tbl inp k ∧
    (m.c.isLast = false → ∀ data, HInv env.tbl L (inp.drop k ++ data) (runLoop env inp n m).1) ∧
    ((runLoop env inp n m).1.ts = none → (runLoop env inp n m).1.cs = none → inp.length ≤ k) ∧
    (runLoop env inp n m).1.isScanner = true := by
  have := scan_runLoop_post (env := env) (inp := inp) rfl hok n m h
  rw [hk] at this
  exact this

/-! ### parser level -/

/-- the parser is in scanner mode and its scanner satisfies the invariant over the bytes `inp` it
will see first in the next call -/
def ScanReady (t : Table) (L : Labels) (inp : Bytes) (p : Parser κ) : Prop :=
  p.directive = .scan ∧ HInv t L inp (⟨p.scanC, .scanner p.scanR, p.x⟩ : M κ)

theorem HInv.congr {t : Table} {L : Labels} {inp : Bytes} {m m' : M κ} (h : HInv t L inp m)
    (hr : m'.r = m.r) (hs : m'.c.state = m.c.state) (hn : m'.c.nextPos = m.c.nextPos) : HInv t L inp m' := by
  have h1 : m'.isScanner = m.isScanner := by simp [M.isScanner, hr]
  have h2 : m'.ts = m.ts := by simp [M.ts, hr]
  have h3 : m'.cs = m.cs := by simp [M.cs, hr]
  exact ⟨by rw [h1]; exact h.scan, by rw [h3, hs]; exact h.stale, by rw [h2, hs, hn]; exact h.head⟩

/-- the parser stays in scanner mode during this call: the scanner's loop ends with "end of input"
(no hand-over to the lexer, no error) -/
def staysInScanner (env : Env κ) (inp : Bytes) (last : Bool) (p : Parser κ) : Bool :=
  p.directive == .scan &&
  match (runLoop env inp (defaultFuel inp) (p.machine last)).2 with
  | .endOfInput _ => true
  | _ => false

theorem parse_scan (env : Env κ) (L : Labels) (hok : HeadOk env.tbl L = true) (inp : Bytes) (last : Bool)
    (p : Parser κ) (h : ScanReady env.tbl L inp p) (hstay : staysInScanner env inp last p = true) :
    ∃ k, (Parser.parse env inp last p).2 = .ok k ∧ HeldOk env.tbl inp k ∧
      (last = false → ∀ data, ScanReady env.tbl L (inp.drop k ++ data) (Parser.parse env inp last p).1) ∧
      (let p' := (Parser.parse env inp last p).1
       p'.scanR.tagStart = none → p'.scanR.chSeqStart = none → inp.length ≤ k) ∧
      (Parser.parse env inp last p).1.directive = .scan := by
  obtain ⟨hd, hinv⟩ := h
  have hm : p.machine last = ⟨{ p.scanC with isLast := last }, .scanner p.scanR, p.x⟩ := by
    simp [Parser.machine, hd]
  have hinv' : HInv env.tbl L inp (p.machine last) := by
    rw [hm]; exact HInv.congr hinv rfl rfl rfl
  simp only [staysInScanner, Bool.and_eq_true] at hstay
  obtain ⟨_, hstay⟩ := hstay
  cases hsig : (runLoop env inp (defaultFuel inp) (p.machine last)).2 with
  | err e => simp [hsig] at hstay
  | directive d bm => simp [hsig] at hstay
  | endOfInput k =>
    obtain ⟨b1, b2, b3, b4⟩ := C09_scanner_bound_loop env L hok inp (defaultFuel inp) (p.machine last) hinv' k hsig
    obtain ⟨c, s, x, hres⟩ := scanner_destruct _ b4
    have hparse : Parser.parse env inp last p =
        ({ (p.store ⟨c, .scanner s, x⟩) with x := { (p.store ⟨c, .scanner s, x⟩).x with
            prevConsumed := (p.store ⟨c, .scanner s, x⟩).x.prevConsumed + k } }, .ok k) := by
      unfold Parser.parse
      have : 2 * inp.length + 8 = (2 * inp.length + 7) + 1 := by omega
      rw [this]
      simp only [Parser.parseLoop, hsig, hres]
    rw [hparse]
    refine ⟨k, rfl, b1, fun hl data => ?_, ?_, ?_⟩
    · have := b2 (by rw [hm]; exact hl) data
      rw [hres] at this
      refine ⟨by simp [Parser.store, hd], ?_⟩
      exact HInv.congr this rfl rfl rfl
    · intro p' h1 h2
      rw [hres] at b3
      exact b3 (by simpa [M.ts, Parser.store, p'] using h1) (by simpa [M.cs, Parser.store, p'] using h2)
    · simp [Parser.store, hd]


/-! ### stream level -/

/-- shape of the bytes held back between two `write` calls -/
def PendingOk (t : Table) (held : Bytes) : Prop :=
  ∃ w v, held = w ++ v ∧ (w = [] ∨ isTagHeadPrefix w = true) ∧ (v = [] ∨ IsSeqPrefix t v)

/-- this `write` is handled by the tag scanner alone -/
def writeStays (w : World γ) (s : Stream γ) (data : Bytes) : Bool :=
  staysInScanner w.env (s.pending ++ data) false s.parser

/-- a sequence of successful `write`s, each handled by the tag scanner alone -/
inductive ScanRun (w : World γ) : Stream γ → List Bytes → Stream γ → Prop
  | nil (s : Stream γ) : ScanRun w s [] s
  | cons {s s' : Stream γ} {data : Bytes} {rest : List Bytes} :
      writeStays w s data = true → (s.write w data).2 = .ok () →
      ScanRun w (s.write w data).1 rest s' → ScanRun w s (data :: rest) s'

/-- invariant of the stream between scanner-only writes -/
structure StreamInv (w : World γ) (L : Labels) (s : Stream γ) : Prop where
  ready : ∀ data, ScanReady w.tbl L (s.pending ++ data) s.parser
  held : PendingOk w.tbl s.pending
  rest : s.parser.scanR.tagStart = none → s.parser.scanR.chSeqStart = none → s.pending = []

theorem keepTail_pending {w : World γ} {s : Stream γ} {data chunk : Bytes} {consumed : Nat}
    (hbuf : s.hasBuffered = true → s.buf.data = chunk) (hnb : s.hasBuffered = false → data = chunk)
    (h : (s.keepTail w data chunk consumed).2 = .ok ()) :
    (s.keepTail w data chunk consumed).1.pending = chunk.drop consumed ∧
    (s.keepTail w data chunk consumed).1.parser = s.parser := by
  unfold Stream.keepTail at *
  by_cases hlt : consumed < chunk.length
  · simp only [hlt, if_true] at h ⊢
    by_cases hb : s.hasBuffered = true
    · simp only [hb, if_true] at h ⊢
      unfold Buf.shift at *
      rw [hbuf hb] at *
      have hc : consumed ≤ chunk.length := by omega
      simp only [hc, if_true] at h ⊢
      simp [Stream.pending, hb]
    · have hb' : s.hasBuffered = false := by simpa using hb
      simp only [hb', Bool.false_eq_true, if_false] at h ⊢
      by_cases hi : (s.buf.initWith (data.drop consumed)).2 = true
      · simp only [hi, if_true] at h ⊢
        have := Buf.append_data { s.buf with data := [] } (data.drop consumed) (by simpa [Buf.initWith] using hi)
        simp only [Stream.pending, if_true]
        simp only [Buf.initWith] at *
        rw [this, hnb hb']
        simp
      · simp [hi] at h
  · simp only [hlt, if_false]
    have : chunk.drop consumed = [] := List.drop_eq_nil_of_le (by omega)
    simp [Stream.pending, this]

/-- **One scanner-only `write`.** -/
theorem write_scan (w : World γ) (L : Labels) (hok : HeadOk w.tbl L = true) (s : Stream γ) (data : Bytes)
    (h : StreamInv w L s) (hstay : writeStays w s data = true) (hres : (s.write w data).2 = .ok ()) :
    StreamInv w L (s.write w data).1 := by
  unfold Stream.write at *
  cases hcf : s.chunkFor w data with
  | inl s' => simp [hcf] at hres
  | inr sc =>
    obtain ⟨s1, chunk⟩ := sc
    obtain ⟨c1, c2, c3, c4, c5⟩ := Stream.chunkFor_inr hcf
    simp only [hcf] at hres ⊢
    subst c1
    have hready := h.ready data
    rw [← c2] at hready
    have hstay' : staysInScanner w.env (s.pending ++ data) false s1.parser = true := by
      rw [c2]; exact hstay
    obtain ⟨k, p1, p2, p3, p4, p5⟩ := parse_scan w.env L hok (s.pending ++ data) false s1.parser hready hstay'
    simp only [p1] at hres ⊢
    cases hfl : Disp.flushRemaining (Stream.disp { s1 with parser := (s1.parser.parse w.env (s.pending ++ data) false).1 })
        (s.pending ++ data) k with
    | error e => simp [hfl] at hres
    | ok d =>
      simp only [hfl] at hres ⊢
      obtain ⟨k1, k2⟩ := keepTail_pending (w := w)
        (s := Stream.setDisp { s1 with parser := (s1.parser.parse w.env (s.pending ++ data) false).1 } d)
        (data := data) (chunk := s.pending ++ data) (consumed := k)
        (by intro hb; exact c5 (by simpa [Stream.setDisp, c3] using hb))
        (by intro hb
            have : s.hasBuffered = false := by simpa [Stream.setDisp, c3] using hb
            simp [Stream.pending, this])
        hres
      have hpar : ∀ p : Parser (Disp γ), ∀ inp', ScanReady w.tbl L inp' p →
          ScanReady w.tbl L inp' { p with x := { p.x with sink := d } } := by
        intro p inp' hp
        exact ⟨hp.1, HInv.congr hp.2 rfl rfl rfl⟩
      refine ⟨fun data' => ?_, ?_, ?_⟩
      · rw [k1, k2]
        exact hpar _ _ (p3 rfl data')
      · rw [k1]
        exact p2
      · rw [k1, k2]
        intro h1 h2
        exact List.drop_eq_nil_of_le (p4 h1 h2)

theorem scanRun_inv (w : World γ) (L : Labels) (hok : HeadOk w.tbl L = true) {s s' : Stream γ} {chunks : List Bytes}
    (hrun : ScanRun w s chunks s') (h : StreamInv w L s) : StreamInv w L s' := by
  induction hrun with
  | nil s => exact h
  | cons hstay hres _ ih => exact ih (write_scan w L hok _ _ h hstay hres)

theorem new_inv (w : World γ) (L : Labels) (g : γ) (cfg : Settings) (hinit : (w.ctl.initialFlags g).isEmpty = true) :
    StreamInv w L (Stream.new w g cfg) := by
  refine ⟨fun data => ⟨?_, ?_⟩, ⟨[], [], rfl, Or.inl rfl, Or.inl rfl⟩, fun _ _ => rfl⟩
  · simp [Stream.new, Parser.new, hinit]
  · exact HInv.of_none rfl rfl rfl

/-- **C09_scanner_bound.** No handlers (the controller's initial capture flags are empty), any
settings, any table satisfying `UnmarkOnLeave`: after every successful `write` of a run that the tag
scanner handles alone, the bytes held back are `w ++ v` with `w` empty or the start of one
unfinished tag (`<`, `</`, `<`[`/`] + partial name) and `v` empty or a proper prefix of a look-ahead
sequence of the table. -/
theorem C09_scanner_bound (w : World γ) (hside : UnmarkOnLeave w.tbl = true) (g : γ) (cfg : Settings)
    (hinit : (w.ctl.initialFlags g).isEmpty = true) (chunks : List Bytes) (s' : Stream γ)
    (hrun : ScanRun w (Stream.new w g cfg) chunks s') : PendingOk w.tbl s'.pending :=
  (scanRun_inv w _ hside hrun (new_inv w _ g cfg hinit)).held

/-- states in which neither a tag head nor a look-ahead can be in progress -/
def restStates (t : Table) : List StateId :=
  (List.range t.states.length).filter fun i =>
    ((headLabels t).at i).isNone && (match t.state? i with | some sd => !hasSeq sd.arms | none => false)

/-- **C09_rest_states.** Same run: if the scanner's state after the write is a rest state (not in
`TagHead`, no look-ahead arm: all text states except those that look ahead, and every state inside
attributes, comments and doctypes), nothing is held back. -/
theorem C09_rest_states (w : World γ) (hside : UnmarkOnLeave w.tbl = true) (g : γ) (cfg : Settings)
    (hinit : (w.ctl.initialFlags g).isEmpty = true) (chunks : List Bytes) (s' : Stream γ)
    (hrun : ScanRun w (Stream.new w g cfg) chunks s')
    (hrest : s'.parser.scanC.state ∈ restStates w.tbl) : s'.pending = [] := by
  have hinv := scanRun_inv w _ hside hrun (new_inv w _ g cfg hinit)
  simp only [restStates, List.mem_filter, Bool.and_eq_true, Option.isNone_iff_eq_none] at hrest
  obtain ⟨_, hlab, hseq⟩ := hrest
  have hI := (hinv.ready []).2
  apply hinv.rest
  · cases hts : s'.parser.scanR.tagStart with
    | none => rfl
    | some p =>
      obtain ⟨ph, _, hl, _⟩ := hI.head p (by simpa [M.ts] using hts)
      simp only at hl
      rw [hlab] at hl; simp at hl
  · cases hcs : s'.parser.scanR.chSeqStart with
    | none => rfl
    | some q =>
      obtain ⟨sd, h1, h2⟩ := hI.stale (by simp [M.cs, hcs])
      simp only at h1
      rw [h1] at hseq
      simp [h2] at hseq

/-- every look-ahead literal of the current table has at most 7 bytes, so a held look-ahead prefix has at most 6 -/
theorem C09_lookahead_short (v : Bytes) (h : IsSeqPrefix Gen.Syntax.table v) : v.length ≤ 6 := by
  obtain ⟨lit, hmem, hm⟩ := h
  have hlen := matchPrefix_length hm
  have : ∀ l ∈ seqLits Gen.Syntax.table, l.1.length ≤ 7 := by decide +kernel
  have := this lit hmem
  omega

/-- the six text states hold nothing back, except the three that look ahead (`]]>`, `--`) -/
example : [2, 3, 4, 8, 12, 0].all (fun i => i ∈ restStates Gen.Syntax.table) = true := by decide +kernel


/-! ### the current table; non-vacuity -/

/-- a controller with no handlers: never asks for tokens, emits everything unchanged -/
def noHandlers : Controller Unit :=
  { initialFlags := fun _ => {}
    startTag := fun _ _ _ => ((), .flags {})
    auxInfo := fun _ _ => ((), .ok {})
    endTag := fun _ _ => ((), {})
    token := fun _ t => ((), { chunks := [t.raw] })
    shouldEmit := fun _ => true
    handleEnd := fun _ => ((), [], none)
    bailOut := fun _ _ => ((), []) }

/-- the world the driver runs (tables regenerated from /repo), with no handlers -/
def genWorld : World Unit := ⟨Gen.Syntax.table, Gen.Tags.cfg, noHandlers⟩

/-- **C09_scanner_bound for the code's current table.** -/
theorem C09_scanner_bound_gen (cfg : Settings) (chunks : List Bytes) (s' : Stream Unit)
    (hrun : ScanRun genWorld (Stream.new genWorld () cfg) chunks s') :
    ∃ w v, s'.pending = w ++ v ∧ (w = [] ∨ isTagHeadPrefix w = true) ∧
      (v = [] ∨ (IsSeqPrefix Gen.Syntax.table v ∧ v.length ≤ 6)) := by
  obtain ⟨w, v, h1, h2, h3⟩ := C09_scanner_bound genWorld C09_unmarkOnLeave_gen () cfg rfl chunks s' hrun
  refine ⟨w, v, h1, h2, ?_⟩
  rcases h3 with h3 | h3
  · exact Or.inl h3
  · exact Or.inr ⟨h3, C09_lookahead_short v h3⟩

/-- executable form of `ScanRun` -/
def runScanWrites (w : World γ) : Stream γ → List Bytes → Option (Stream γ)
  | s, [] => some s
  | s, data :: rest =>
    if writeStays w s data then
      match (s.write w data).2 with
      | .ok () => runScanWrites w (s.write w data).1 rest
      | .error _ => none
    else none

theorem runScanWrites_sound (w : World γ) (s s' : Stream γ) (chunks : List Bytes)
    (h : runScanWrites w s chunks = some s') : ScanRun w s chunks s' := by
  induction chunks generalizing s with
  | nil => simp only [runScanWrites, Option.some.injEq] at h; subst h; exact .nil _
  | cons data rest ih =>
    simp only [runScanWrites] at h
    split at h
    · rename_i hstay
      split at h
      · rename_i hok
        exact .cons hstay hok (ih _ h)
      · simp at h
    · simp at h

/-- `x<di` | `v cla` | `ss=a>y<!-` | `-c--></di`: four scanner-only writes -/
def sampleChunks : List Bytes :=
  [[120,60,100,105], [118,32,99,108,97], [115,115,61,97,62,121,60,33,45], [45,99,45,45,62,60,47,100,105]]

/-- what is held after each write of the sample: `<di` (tag head); nothing (inside attributes);
`-` (look-ahead `--` after `<!`, the `<!` itself is released); `</di` (tag head) -/
example : (List.range 5).map (fun n => (runScanWrites genWorld (Stream.new genWorld () {}) (sampleChunks.take n)).map (·.pending))
    = [some [], some [60,100,105], some [], some [45], some [60,47,100,105]] := by decide +kernel

example : ∃ s', ScanRun genWorld (Stream.new genWorld () {}) sampleChunks s' ∧ s'.pending = [60,47,100,105] := by
  have h : (runScanWrites genWorld (Stream.new genWorld () {}) sampleChunks).isSome = true := by decide +kernel
  obtain ⟨s', hs'⟩ := Option.isSome_iff_exists.mp h
  refine ⟨s', runScanWrites_sound _ _ _ _ hs', ?_⟩
  have h2 : (runScanWrites genWorld (Stream.new genWorld () {}) sampleChunks).map (·.pending) = some [60,47,100,105] := by
    decide +kernel
  rw [hs'] at h2
  simpa using h2

/-- **Known finding F10 on the model**: `<math><ms` TAB `x:y=""` in one write, no handlers. The start
tag `<ms` in MathML makes the simulator request the lexeme, the scanner hands over to the lexer
(`writeStays = false`), and the whole unfinished tag (10 bytes) is held back. -/
def f10Input : Bytes := [60,109,97,116,104,62,60,109,115,9,120,58,121,61,34,34]

def isOk : Except Err Unit → Bool
  | .ok _ => true
  | .error _ => false

theorem C09_F10_witness :
    writeStays genWorld (Stream.new genWorld () {}) f10Input = false ∧
    isOk ((Stream.new genWorld () {}).write genWorld f10Input).2 = true ∧
    ((Stream.new genWorld () {}).write genWorld f10Input).1.pending = [60,109,115,9,120,58,121,61,34,34] := by
  decide +kernel

/-! ### lexer mode -/

/-- **C09_lexer_bound.** In lexer mode the consumed byte count is `lexeme_start`: what is held back is
`chunk.drop lexemeStart`, the single unfinished lexeme (every lexeme handed to the sink moves
`lexeme_start` to its end: `lexEmitNonTag`, `lexEmitTagLexeme`). -/
theorem C09_lexer_bound (inp : Bytes) (c : Common) (l : LexRegs) (x : Ctx κ) :
    consumedByteCount inp (⟨c, .lexer l, x⟩ : M κ) = l.lexemeStart ∧
    (∀ n, (breakOnEndOfInput inp (⟨c, .lexer l, x⟩ : M κ)).2 = some (.endOfInput n) → n = l.lexemeStart) := by
  refine ⟨rfl, fun n h => ?_⟩
  unfold breakOnEndOfInput at h
  simp only [show consumedByteCount inp (⟨c, .lexer l, x⟩ : M κ) = l.lexemeStart from rfl] at h
  generalize (if (⟨c, .lexer l, x⟩ : M κ).c.isLast = true then (⟨c, .lexer l, x⟩ : M κ)
    else adjustForNextInput ⟨c, .lexer l, x⟩) = m' at h
  split at h
  · simp at h
  · simpa using h.symm

/-- every non-tag lexeme starts at `lexeme_start` and moves it to the lexeme's end -/
theorem lexEmitNonTag_lexemeStart (env : Env κ) (inp : Bytes) (c : Common) (l : LexRegs) (x : Ctx κ)
    (o : Option NonTagOutline) (e : Nat) :
    ∃ l', (lexEmitNonTag env inp c l x o e).1.r = .lexer l' ∧ l'.lexemeStart = e := by
  unfold lexEmitNonTag
  dsimp only
  split <;> exact ⟨_, rfl, rfl⟩

/-- every tag lexeme starts at `lexeme_start` and moves it to the lexeme's end -/
theorem lexEmitTagLexeme_lexemeStart (env : Env κ) (inp : Bytes) (c : Common) (l : LexRegs) (x : Ctx κ)
    (sim : Sim) (tok : TagOutline) (e : Nat) :
    ∃ l', (lexEmitTagLexeme env inp c l x sim tok e).1.r = .lexer l' ∧ l'.lexemeStart = e := by
  unfold lexEmitTagLexeme
  dsimp only
  split <;> exact ⟨_, rfl, rfl⟩

end LolHtml.Thm.C09
