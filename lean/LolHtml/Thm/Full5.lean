/-
# Package `full`, part 5 — the lexer-mode headline

For configurations with a document-level text / comment / doctype handler (`LexCfg`: the capture flags are
sticky, the parser never leaves lexer mode) the operation-level theorems of Thm/Full4.lean are lifted to whole
runs of the rewriter model (`Lemmas/LexOnlyE.lean`: until-first-error lifting, side by side with the run of
the cleaned controller, which never panics by C15).
-/
import LolHtml.Thm.Full4
import LolHtml.Thm.FullIds
import LolHtml.Lemmas.LexOnlyE
import LolHtml.Lemmas.StickySync
import LolHtml.Lemmas.FullSites
import LolHtml.Thm.FullPay

namespace LolHtml.Thm.Full
open LolHtml LolHtml.Model LolHtml.Model.Full LolHtml.Model.Handlers LolHtml.EditModel LolHtml.Lemmas.Full
open LolHtml.Thm.C01 (run writeAll Rewriter.new)
open LolHtml.Spec.Scope (textIds commentIds doctypeIds idsFrom openCount OpenElem)
open LolHtml.Lemmas.Scope (Inv mk regItems addBy base mem_idsFrom_bounds)

/-- a document-level text / comment / doctype handler is registered: lexer-mode configuration -/
def LexCfg (cfg : Cfg) : Prop :=
  ∃ d ∈ cfg.docs, d.doctype.isSome = true ∨ d.comments.isSome = true ∨ d.text.isSome = true

/-- a text / comment / doctype handler is active -/
def stickyOf (s : St) : Bool := s.disp.doctype.hasActive || s.disp.comment.hasActive || s.disp.text.hasActive

theorem flags_sticky (s : St) : s.flags.Sticky = stickyOf s := by
  unfold St.flags convFlags Dispatcher.getTokenCaptureFlags Model.Flags.Sticky stickyOf
  cases s.disp.doctype.hasActive <;> cases s.disp.comment.hasActive <;> cases s.disp.text.hasActive <;> rfl

/-! ### a document-level handler keeps its vector active -/

theorem idsFrom_mem {ρ : Type} (f : ρ → Bool) (k : Nat) (rs : List ρ) (r : ρ) (hr : r ∈ rs) (hf : f r = true) :
    ∃ i, i ∈ idsFrom f k rs := by
  induction rs generalizing k with
  | nil => cases hr
  | cons x xs ih =>
    simp only [idsFrom]
    rcases List.mem_cons.1 hr with rfl | hr
    · rw [if_pos hf]; exact ⟨k, List.mem_cons_self⟩
    · obtain ⟨i, hi⟩ := ih (k + 1) hr
      split
      · exact ⟨i, List.mem_cons_of_mem _ hi⟩
      · exact ⟨i, hi⟩

theorem mem_le_sum (l : List Nat) (x : Nat) (h : x ∈ l) : x ≤ l.sum := by
  induction l with
  | nil => cases h
  | cons y ys ih =>
    simp only [List.sum_cons]
    rcases List.mem_cons.1 h with rfl | h
    · omega
    · have := ih h; omega

theorem active_of_docId (n : Nat) (ids : List HId) (f : HId → Nat) (i : Nat) (hi : i ∈ ids) (hn : n ≤ i) :
    (mk (addBy id f (regItems n ids))).hasActive = true := by
  show decide (0 < ((addBy id f (regItems n ids)).map (·.userCount)).sum) = true
  rw [decide_eq_true_eq]
  have hmem : base n i + f i ∈ (addBy id f (regItems n ids)).map (·.userCount) := by
    simp only [addBy, regItems, List.map_map, List.mem_map, Function.comp]
    exact ⟨i, hi, rfl⟩
  have := mem_le_sum _ _ hmem
  have hb : base n i = 1 := by unfold base; rw [if_neg (by omega)]
  omega

/-- **In a lexer-mode configuration the capture flags of every `J` state are sticky.** -/
theorem J_sticky (cfg : Cfg) (hlex : LexCfg cfg) (s : St) (hJ : J cfg s) : stickyOf s = true := by
  obtain ⟨sp, hinv⟩ := hJ.scope
  obtain ⟨d, hd, hk⟩ := hlex
  have hdm : d.reg ∈ cfg.docRegs := List.mem_map.2 ⟨d, hd, rfl⟩
  unfold stickyOf
  rcases hk with hk | hk | hk
  · -- doctype
    obtain ⟨i, hi⟩ := idsFrom_mem (·.doctype) cfg.selRegs.length cfg.docRegs d.reg hdm hk
    have hb := (mem_idsFrom_bounds _ _ _ i hi).1
    have h1 : s.disp.doctype = mk (regItems cfg.selRegs.length (doctypeIds cfg.selRegs cfg.docRegs)) := hinv.doctype
    have h2 := active_of_docId cfg.selRegs.length (doctypeIds cfg.selRegs cfg.docRegs) (fun _ => 0) i hi hb
    rw [LolHtml.Lemmas.Scope.addBy_zero] at h2
    rw [h1, h2]
    rfl
  · -- comments
    obtain ⟨i, hi⟩ := idsFrom_mem (·.comments) cfg.selRegs.length cfg.docRegs d.reg hdm hk
    have hb := (mem_idsFrom_bounds _ _ _ i hi).1
    have h1 : s.disp.comment = mk (addBy id (openCount sp) (regItems cfg.selRegs.length (commentIds cfg.selRegs cfg.docRegs))) :=
      hinv.comment
    have h2 := active_of_docId cfg.selRegs.length (commentIds cfg.selRegs cfg.docRegs) (openCount sp) i
      (List.mem_append_right _ hi) hb
    rw [h1, h2]
    simp
  · -- text
    obtain ⟨i, hi⟩ := idsFrom_mem (·.text) cfg.selRegs.length cfg.docRegs d.reg hdm hk
    have hb := (mem_idsFrom_bounds _ _ _ i hi).1
    have h1 : s.disp.text = mk (addBy id (openCount sp) (regItems cfg.selRegs.length (textIds cfg.selRegs cfg.docRegs))) :=
      hinv.text
    have h2 := active_of_docId cfg.selRegs.length (textIds cfg.selRegs cfg.docRegs) (openCount sp) i
      (List.mem_append_right _ hi) hb
    rw [h1, h2]
    simp

/-! ### tokens do not touch the text / comment / doctype vectors -/

theorem handleStartTag_sticky {d d' : Dispatcher} {script : ElemScript} {ord : Nat} {cur desc : Option ElementDescriptor}
    {inv : List Invocation} (h : d.handleStartTag script ord cur = .ok (d', desc, inv)) :
    d'.doctype = d.doctype ∧ d'.comment = d.comment ∧ d'.text = d.text := by
  unfold Dispatcher.handleStartTag at h
  split at h
  · cases h
  · dsimp only at h
    (repeat' split at h) <;>
      first
      | (cases h; done)
      | (simp only [Except.ok.injEq, Prod.mk.injEq] at h; obtain ⟨h1, _⟩ := h; subst h1; exact ⟨rfl, rfl, rfl⟩)

theorem token_sticky (cfg : Cfg) (s : St) (t : Model.Token) (hok : (token cfg s t).2.err = none) :
    stickyOf (token cfg s t).1 = stickyOf s := by
  have hf : s.fault = none := by
    cases hf : s.fault with
    | none => rfl
    | some m => unfold token at hok; simp [hf] at hok
  cases t with
  | startTag name attrs ns sc raw src base =>
    have e : token cfg s (.startTag name attrs ns sc raw src base) = tokStartTag cfg s name attrs ns sc raw src base := by
      unfold token; simp only [hf]
    rw [e] at hok ⊢
    obtain ⟨d, desc, inv, h1, h2, _⟩ := tokStartTag_ok cfg s name attrs ns sc raw src base hok
    obtain ⟨a, b, c⟩ := handleStartTag_sticky h1
    unfold stickyOf
    rw [h2, a, b, c]
  | endTag name raw src =>
    have e : token cfg s (.endTag name raw src) = tokEndTag s name raw src := by
      unfold token; simp only [hf]
    rw [e] at hok ⊢
    obtain ⟨et, hs, _, h2, _⟩ := tokEndTag_ok s name raw src hok
    unfold stickyOf
    rw [h2]
  | comment text raw src =>
    obtain ⟨a, _⟩ := tokOther_frame cfg s (.comment text raw src) trivial hf
    unfold stickyOf; rw [a]
  | doctype name publicId systemId fq raw src =>
    obtain ⟨a, _⟩ := tokOther_frame cfg s (.doctype name publicId systemId fq raw src) trivial hf
    unfold stickyOf; rw [a]
  | text bytes tt last src =>
    obtain ⟨a, _⟩ := tokOther_frame cfg s (.text bytes tt last src) trivial hf
    unfold stickyOf; rw [a]

/-- the real controller answers the flags of its state -/
theorem fullCtl_stickySync (cfg : Cfg) : LexE.StickySync (fullCtl cfg) (fun g => stickyOf g.1) where
  startTag := fun g n ns f h => by
    have := (Full_flags_returned g.1).1 n ns f h
    rw [this, flags_sticky]
    rfl
  auxInfo := fun g i f h => by
    have := (Full_flags_returned g.1).2.1 i f h
    rw [this, flags_sticky]
    rfl
  endTag := fun g n => by
    have := (Full_flags_returned g.1).2.2 n
    show (endTag g.1 n).2.Sticky = stickyOf (endTag g.1 n).1
    rw [this, flags_sticky]
  token := fun g t h => token_sticky cfg g.1 t h

/-! ## the dispatcher over the real controller, side by side with the cleaned one -/

/-- the two residual glue sites (slices of the start-tag token's attributes) -/
def Glue (e : Err) : Prop := e = .panic rAttr ∨ e = .panic rMatcher

theorem Glue.gp {e : Err} (h : Glue e) : Chunk.R.GP e := by
  rcases h with h | h <;> subst h <;> exact Or.inl ⟨_, rfl, by decide⟩

/-- an error of a lexer-mode dispatcher operation from a `J2` state that was returned by a callback of the
real controller and is of panic class: a glue site -/
theorem glue_of_cg {cfg : Cfg} {e : Err} (hG : Chunk.R.GP e) (hc : Chunk.R.CbErr (fullCtl cfg) (Chunk.R.DO cfg) e)
    (hA : CG (fun e => e = .panic rAttr ∨ e = .panic rMatcher) (fun _ => False) e) : Glue e := by
  rcases hA with h | h | h | h
  · subst h
    rcases hG with ⟨m, hm, _⟩ | ⟨s, hs⟩
    · cases hm
    · cases hs
  · exact h
  · exact h.elim
  · exact absurd h (Chunk.R.cbErr_not_own cfg e hc)

/-- the dispatcher-level invariant of lexer mode, with the payload clauses -/
def KD2 (cfg : Cfg) (d : Disp (FullSt cfg)) : Prop := Idle d ∧ J2 cfg d.ctl.1

theorem KD2_new (cfg : Cfg) (enc : Nat) : KD2 cfg (Disp.new (fullCtl cfg) (FullSt.init cfg) enc) :=
  ⟨⟨rfl, rfl⟩, J2_init cfg⟩

theorem kd_DO {cfg : Cfg} {d : Disp (FullSt cfg)} (h : KD2 cfg d) : Chunk.R.DO cfg d.ctl := by
  refine ⟨?_, fun b _ => ?_⟩
  · show Chunk.R.NGF d.ctl.1
    unfold Chunk.R.NGF
    rw [h.2.1.fault]
    intro hh; cases hh
  · show d.ctl.1.fault ≠ some b
    rw [h.2.1.fault]
    intro hh; cases hh

theorem fullCtl_lexE (cfg : Cfg) (hlex : LexCfg cfg) :
    LexE.CtlLexE (genWorld cfg) (Chunk.R.cleanCtl (fullCtl cfg)) (KD2 cfg) Glue where
  ops := fun inp => by
    have hsim := Chunk.R.fullCtl_sim_prov cfg
    constructor
    · intro lx d hd
      have hpost := handleTag_lexer_gen cfg (J2 cfg) _ _ (J2_evInv cfg) d hd.1 hd.2 inp lx
      rcases Chunk.R.handleTag_step hsim inp lx d (kd_DO hd) with ⟨he, _⟩ | ⟨e, ⟨hG, hc⟩, he⟩
      · refine Or.inl ⟨he, fun a ha => ?_⟩
        obtain ⟨hi', hJ'⟩ := hpost.1 a ha
        refine ⟨⟨hi', hJ'⟩, ?_⟩
        exact LexE.handleTag_dir (fullCtl_stickySync cfg) d lx hd.1.1 hd.1.2 a ha (J_sticky cfg hlex _ hJ'.1)
      · exact Or.inr ⟨e, glue_of_cg hG hc (hpost.2 e he), he⟩
    · intro lx d hd
      have hpost := handleNonTag_lexer_gen cfg (J2 cfg) _ _ (J2_evInv cfg) d hd.1 hd.2 inp lx
      rcases Chunk.R.handleNonTag_step hsim inp lx d (kd_DO hd) with ⟨he, _⟩ | ⟨e, ⟨hG, hc⟩, he⟩
      · exact Or.inl ⟨he, fun ha => hpost.1 () ha⟩
      · exact Or.inr ⟨e, glue_of_cg hG hc (hpost.2 e he), he⟩
  bail := rfl
  flush := fun d d' inp k hf hd => by
    obtain ⟨s1, s2, _⟩ := flushRemaining_same hf
    have hc := Chunk.R.flushRemaining_ctl hf
    exact ⟨⟨by rw [s1]; exact hd.1.1, by rw [s2]; exact hd.1.2⟩, by rw [hc]; exact hd.2⟩
  handleEnd := fun d hd => by
    have hsim := Chunk.R.fullCtl_sim_prov cfg
    rcases hsim.handleEnd d.ctl (kd_DO hd) with ⟨he, _⟩ | ⟨e, ⟨hG, _⟩, he⟩
    · exact Or.inl he
    · have := Full_handleEnd_lexer cfg d.ctl hd.2.1 e he
      subst this
      rcases hG with ⟨m, hm, _⟩ | ⟨s, hs⟩
      · cases hm
      · cases hs
  initial := fun _ => rfl

/-- **Full_no_panic_lexer_allowed.** Lexer-mode configurations (a document-level text / comment / doctype
handler is registered), every settings record, input and chunking: every call of the whole rewriter model
with the REAL controller returns ok, a handler / memory / ambiguity error, the documented panic of a call
after an error — or a panic at one of the two residual glue sites (`Glue`: `rAttr`, `rMatcher`, the slices of
the start-tag token's attributes). Parser, stream and dispatcher contribute nothing (also not the
dispatcher's own slice checks, `DispOwn`), the selector VM and the handler vectors contribute nothing
(`Full_idsBounded`, `J`), and the end-tag payload lookup cannot fail (`PayInv`): until a callback of the
controller returns such an error, the run IS the run of the cleaned controller (`Full_clean_no_panic`). -/
theorem Full_no_panic_lexer_allowed (cfg : Cfg) (hlex : LexCfg cfg) (settings : Settings) (chunks : List Bytes) :
    ∀ x ∈ (run (genWorld cfg) (Rewriter.new (genWorld cfg) (FullSt.init cfg) settings) chunks).2,
      Model.CallOK (fun _ => False) x ∨ ∃ e, Glue e ∧ x = .err e := by
  have hL := fullCtl_lexE cfg hlex
  have hst : ((genWorld cfg).ctl.initialFlags (FullSt.init cfg)).Sticky = true := by
    show (St.init cfg).flags.Sticky = true
    rw [flags_sticky]
    exact J_sticky cfg hlex _ (J_init cfg)
  obtain ⟨hnew, hr⟩ := LexE.new_lexE hL (FullSt.init cfg) settings hst (KD2_new cfg settings.encoding)
  intro x hx
  rcases LexE.run_lexE hL C03.C03_emitsChecked_gen chunks _ hr x hx with k | k | ⟨e', ⟨e, hG, hee⟩, hxe⟩
  · left
    rw [hnew] at k
    exact Full_clean_no_panic cfg settings chunks x k
  · left; rw [k]; trivial
  · right
    refine ⟨e, hG, ?_⟩
    rcases hee with rfl | rfl
    · exact hxe
    · rw [hxe]
      rcases hG with h | h <;> subst h <;> rfl

/-! ## the headline, with the two remaining sites as named hypotheses -/

/-- **named hypothesis**: in lexer-mode runs no call fails at `rAttr` — the raw range of every attribute of a
start-tag lexeme lies inside the lexeme's raw range (a fact about the lexer's registers; package inv's token-part
certificate has the ranges inside the INPUT, not inside the lexeme) -/
def Full_rAttr_statement : Prop :=
  ∀ (cfg : Cfg) (settings : Settings) (chunks : List Bytes), LexCfg cfg →
    CallRes.err (.panic rAttr) ∉ (run (genWorld cfg) (Rewriter.new (genWorld cfg) (FullSt.init cfg) settings) chunks).2

/-- **named hypothesis**: … and none at `rMatcher` — the name and value ranges of every attribute of a start-tag
lexeme are slices of the input (`TagValid`, package inv, for sinks with `SinkSafe2`) -/
def Full_rMatcher_statement : Prop :=
  ∀ (cfg : Cfg) (settings : Settings) (chunks : List Bytes), LexCfg cfg →
    CallRes.err (.panic rMatcher) ∉ (run (genWorld cfg) (Rewriter.new (genWorld cfg) (FullSt.init cfg) settings) chunks).2

/-- **Full_no_panic_lexer_partial.** Given the two lexeme facts, in lexer-mode configurations NO call of the
whole rewriter model returns a panic- or internal-class error (`Full_no_panic_lexer_statement`). -/
theorem Full_no_panic_lexer_partial (h1 : Full_rAttr_statement) (h2 : Full_rMatcher_statement) :
    Full_no_panic_lexer_statement := by
  intro cfg settings chunks hlex x hx
  rcases Full_no_panic_lexer_allowed cfg hlex settings chunks x hx with h | ⟨e, hG, he⟩
  · exact h
  · subst he
    rcases hG with h | h <;> subst h
    · exact absurd hx (h1 cfg settings chunks hlex)
    · exact absurd hx (h2 cfg settings chunks hlex)

/-! ## the two remaining sites from the lexeme facts (glue lemmas, not yet connected to the lexer) -/

/-- lexeme fact for `rMatcher`: attribute name and value ranges are slices of the input (package inv's `TagValid`) -/
def AttrsInInput (inp : Bytes) (as : List AttrOutline) : Prop :=
  ∀ a ∈ as, (a.name.start ≤ a.name.end ∧ a.name.end ≤ inp.length) ∧ (a.value.start ≤ a.value.end ∧ a.value.end ≤ inp.length)

/-- lexeme fact for `rAttr`: attribute raw ranges lie inside the lexeme's raw range -/
def AttrsRawIn (raw : Range) (as : List AttrOutline) : Prop :=
  ∀ a ∈ as, raw.start ≤ a.raw.start ∧ a.raw.start ≤ a.raw.end ∧ a.raw.end ≤ raw.end

theorem attrsOf_some (inp : Bytes) (as : List AttrOutline) (h : AttrsInInput inp as) :
    ∃ l, attrsOf inp as = some l ∧ l.map (·.2.2) = as := by
  unfold attrsOf
  induction as with
  | nil => exact ⟨[], rfl, rfl⟩
  | cons a as ih =>
    obtain ⟨l, hl, hm⟩ := ih (fun b hb => h b (List.mem_cons_of_mem _ hb))
    obtain ⟨h1, h2⟩ := h a List.mem_cons_self
    refine ⟨(slice inp a.name.start a.name.end, slice inp a.value.start a.value.end, a) :: l, ?_, by simp [hm]⟩
    have e1 : checkedSlice inp a.name = some (slice inp a.name.start a.name.end) := by
      unfold checkedSlice; rw [if_pos h1]
    have e2 : checkedSlice inp a.value = some (slice inp a.value.start a.value.end) := by
      unfold checkedSlice; rw [if_pos h2]
    simp only [List.mapM_cons]
    rw [hl]
    simp only [e1, e2]
    rfl

/-- **`rMatcher` is unreachable for a lexeme with `AttrsInInput`** -/
theorem auxConv_some (inp : Bytes) (as : List AttrOutline) (sc : Bool) (h : AttrsInInput inp as) :
    (auxConv ⟨inp, as, sc⟩).isSome = true := by
  obtain ⟨l, hl, _⟩ := attrsOf_some inp as h
  unfold auxConv
  simp only [hl]
  rfl

theorem attrConv_mapM_some (rawBytes : Bytes) (rawR : Range) (hlen : rawBytes.length = rawR.end - rawR.start)
    (attrs : List (Bytes × Bytes × AttrOutline)) (h : AttrsRawIn rawR (attrs.map (·.2.2))) :
    ∃ l, attrs.mapM (attrConv rawBytes rawR.start) = some l := by
  induction attrs with
  | nil => exact ⟨[], rfl⟩
  | cons a as ih =>
    obtain ⟨l, hl⟩ := ih (fun b hb => h b (by simp only [List.map_cons]; exact List.mem_cons_of_mem _ hb))
    obtain ⟨h1, h2, h3⟩ := h a.2.2 (by simp)
    have hc : rawR.start ≤ a.2.2.raw.start ∧ a.2.2.raw.start ≤ a.2.2.raw.end ∧ a.2.2.raw.end - rawR.start ≤ rawBytes.length := by
      refine ⟨h1, h2, ?_⟩
      rw [hlen]; omega
    cases hcv : attrConv rawBytes rawR.start a with
    | none =>
      unfold attrConv at hcv
      dsimp only at hcv
      rw [if_pos hc] at hcv
      cases hcv
    | some x =>
      refine ⟨x :: l, ?_⟩
      simp only [List.mapM_cons]
      rw [hl, hcv]
      rfl

/-- **`rAttr` is unreachable for the token `to_token` builds from a lexeme with `AttrsRawIn`**: the token's raw
bytes are the lexeme's raw slice, `src.start - base` is the lexeme's raw start -/
theorem tokStartTag_no_rAttr (cfg : Cfg) (s : St) (name : Bytes) (attrs : List (Bytes × Bytes × AttrOutline))
    (ns : Model.Ns) (sc : Bool) (rawBytes : Bytes) (rawR : Range) (prev : Nat)
    (hlen : rawBytes.length = rawR.end - rawR.start) (h : AttrsRawIn rawR (attrs.map (·.2.2))) :
    (tokStartTag cfg s name attrs ns sc rawBytes (srcOf prev rawR) prev).2.err ≠ some (.panic rAttr) := by
  obtain ⟨l, hl⟩ := attrConv_mapM_some rawBytes rawR hlen attrs h
  intro hh
  unfold tokStartTag at hh
  have hb : prev ≤ (srcOf prev rawR).start := by simp [srcOf]
  have hoff : (srcOf prev rawR).start - prev = rawR.start := by simp [srcOf]
  rw [if_pos hb, hoff, hl] at hh
  dsimp only at hh
  generalize (if 0 < s.disp.removedContent then
    StartTag.apply { name := name, attributes := l, ns := nsEdit ns, selfClosing := sc, raw := rawBytes } (StartTagOp.mut MutOp.remove)
    else { name := name, attributes := l, ns := nsEdit ns, selfClosing := sc, raw := rawBytes }) = st at hh
  generalize runClosures cfg.elementScripts kElement Who.element (seeElement ns) Element.applyOps (srcOf prev rawR)
      s.disp.element.forEachActive s (Element.new st s.disp.nextElementCanHaveContent) = r at hh
  split at hh
  · simp at hh
  · split at hh
    · simp only [Option.some.injEq, dispErr, dispMsg, rAttr, Err.panic.injEq] at hh; revert hh; decide
    · simp at hh

/-! ### non-vacuity -/

example : LexCfg obsCfg := ⟨_, List.mem_cons_self, Or.inr (Or.inr rfl)⟩
example : LexCfg failCfg := ⟨_, List.mem_cons_self, Or.inr (Or.inr rfl)⟩

/-- a lexer-mode configuration that mutates, needs the attributes for matching (`[a]`: `InfoRequest`) and
registers end-tag handlers: `auxCfg`'s selector entry plus `on_end_tag`, and a document-level comment observer -/
def lexAuxCfg : Cfg :=
  { sels := [([⟨[.attrExists [97]], []⟩],
      { element := some [([.setAttribute [99] [100], .after (.buffer [33] .html), .onEndTag [.mut (.before (.buffer [63] .html))]], false)] })],
    docs := [{ comments := some [([], false)] }] }

example : LexCfg lexAuxCfg := ⟨_, List.mem_cons_self, Or.inr (Or.inl rfl)⟩

/-- … its run on `<div a=b>x<` , `/div>y`: both writes and `end` succeed, the end-tag handler ran (`?` before
`</div>`), the deferred `after` content follows the end tag -/
example : (run (genWorld lexAuxCfg) (Rewriter.new (genWorld lexAuxCfg) (FullSt.init lexAuxCfg) {}) sampleChunks).2 =
    [.ok, .ok, .ok] := by decide +kernel
example : sinkBytes (run (genWorld lexAuxCfg) (Rewriter.new (genWorld lexAuxCfg) (FullSt.init lexAuxCfg) {}) sampleChunks).1.sink
    = [60,100,105,118,32,97,61,98,32,99,61,34,100,34,62,120,63,60,47,100,105,118,62,33,121] := by decide +kernel

end LolHtml.Thm.Full
