/-
Property C07 — rewrite operations produce exactly the documented edit.

All theorems are about the definitions executed by lane `edit` (`LolHtml.EditModel.{Mutations,TokenEdit,
ElementOps,EditDoc}`), for *every* operation script (a list of API calls of any length), every token,
and every sink function `enc : ContentType → Bytes → Bytes` (escaping + encoding is abstract).
-/
import LolHtml.Lemmas.Edit
import LolHtml.Lemmas.EditDoc
import LolHtml.Lemmas.EditElementOps
import LolHtml.Lemmas.EditAttrs
import LolHtml.Spec.EditDoc
import LolHtml.Lemmas.EditRefine

namespace LolHtml.Thm.C07
open LolHtml LolHtml.EditModel LolHtml.Spec.Edit LolHtml.Lemmas.Edit

/-! ## C07_token_edit — serialisation of an edited token = the documented edit

For a token freshly produced by the parser (no pending mutations, raw bytes original) and any script:
`before` contents come first in call order, then the token itself — or, once it was replaced or
removed, the content of the *last* `replace` (nothing if there was none) — then the `after` contents,
latest call first. The token's own bytes are the source bytes unless renamed / re-texted. -/

/-- End tags. -/
theorem C07_token_edit_endTag (enc : Enc) (name raw : Bytes) (ops : List EndTagOp) :
    (({ name := name, raw := raw } : EndTag).applyOps ops).intoBytes enc
      = edit enc (endTagOwn raw ops) (endMutOps ops) := by
  unfold EndTag.intoBytes
  rw [endTag_mutations, endTag_serializeSelf, serialize_foldl_apply]
  rfl

/-- Comments. -/
theorem C07_token_edit_comment (enc : Enc) (text raw : Bytes) (ops : List CommentOp) :
    (({ text := text, raw := raw } : Comment).applyOps ops).intoBytes enc
      = edit enc (commentOwn raw ops) (commentMutOps ops) := by
  unfold Comment.intoBytes
  rw [comment_mutations, comment_serializeSelf, serialize_foldl_apply]
  rfl

/-- Text chunks. -/
theorem C07_token_edit_text (enc : Enc) (text : Bytes) (last : Bool) (ops : List TextOp) :
    (({ text := text, lastInTextNode := last } : TextChunk).applyOps ops).intoBytes enc
      = edit enc (textOwn enc text ops) (textMutOps ops) := by
  unfold TextChunk.intoBytes
  rw [text_mutations, text_serializeSelf, serialize_foldl_apply]

/-- Start tags: the own bytes are those of the start tag after the name / attribute operations
(characterised by `C07_startTag_own_*` and `C07_attrs_*` below). -/
theorem C07_token_edit_startTag (enc : Enc) (t : StartTag) (hfresh : t.mutations = {})
    (ops : List StartTagOp) :
    (t.applyOps ops).intoBytes enc = edit enc (t.applyOps ops).serializeSelf (startMutOps ops) := by
  unfold StartTag.intoBytes
  rw [startTag_mutations, hfresh, serialize_foldl_apply]

/-- Doctype: `remove` is the only operation. -/
theorem C07_token_edit_doctype (raw : Bytes) (ops : List DoctypeOp) :
    (({ raw := raw } : Doctype).applyOps ops).intoBytes = if ops.isEmpty then raw else [] := by
  have h : ∀ (d : Doctype), (d.applyOps ops).removed = (d.removed || !ops.isEmpty) ∧ (d.applyOps ops).raw = d.raw := by
    induction ops with
    | nil => intro d; simp [Doctype.applyOps]
    | cons op ops ih =>
      intro d
      have := ih (d.apply op)
      simp only [Doctype.applyOps, List.foldl_cons] at this ⊢
      cases op
      simp only [Doctype.apply] at this ⊢
      simp [this]
  have h' := h { raw := raw }
  unfold Doctype.intoBytes
  rw [h'.1, h'.2]
  cases ops <;> simp

/-- Operations for another kind of token are ignored (they cannot be expressed in the typed API). -/
theorem Token.applyOps_kind (tok : Token) (ops : List TokenOp) :
    tok.applyOps ops = (match tok with
      | .textChunk t => .textChunk (t.applyOps (opsText ops))
      | .startTag t => .startTag (t.applyOps (opsStart ops))
      | .endTag t => .endTag (t.applyOps (opsEnd ops))
      | .comment t => .comment (t.applyOps (opsComment ops))
      | .doctype t => .doctype (t.applyOps (opsDoctype ops))) := by
  induction ops generalizing tok with
  | nil => cases tok <;> rfl
  | cons op ops ih =>
    simp only [Token.applyOps, List.foldl_cons] at ih ⊢
    rw [ih]
    cases tok <;> cases op <;>
      simp [Token.apply, opsText, opsStart, opsEnd, opsComment, opsDoctype, TextChunk.applyOps,
        StartTag.applyOps, EndTag.applyOps, Comment.applyOps, Doctype.applyOps]

/-- **C07_token_edit** — every token kind, every script: serialisation = the documented edit
`before₁…beforeₙ ++ (own | last replacement | ε) ++ afterₘ…after₁`. -/
theorem C07_token_edit (enc : Enc) (tok : Token) (hfresh : Token.fresh tok) (ops : List TokenOp) :
    (tok.applyOps ops).intoBytes enc = edit enc (ownBytes enc tok ops) (contentOpsOf tok ops) := by
  rw [Token.applyOps_kind]
  cases tok with
  | textChunk t =>
    obtain ⟨text, last, mu⟩ := t
    simp only [Token.fresh] at hfresh; subst hfresh
    exact C07_token_edit_text enc text last _
  | startTag t => exact C07_token_edit_startTag enc t hfresh _
  | endTag t =>
    obtain ⟨name, raw, md, mu⟩ := t
    simp only [Token.fresh] at hfresh; obtain ⟨rfl, rfl⟩ := hfresh
    exact C07_token_edit_endTag enc name raw _
  | comment t =>
    obtain ⟨text, raw, md, mu⟩ := t
    simp only [Token.fresh] at hfresh; obtain ⟨rfl, rfl⟩ := hfresh
    exact C07_token_edit_comment enc text raw _
  | doctype t =>
    obtain ⟨raw, rm⟩ := t
    simp only [Token.fresh] at hfresh; subst hfresh
    simp only [Token.intoBytes, ownBytes, contentOpsOf]
    rw [C07_token_edit_doctype]
    cases hops : opsDoctype ops with
    | nil => simp [edit, befores, afters, dropped, encodeDyn]
    | cons o os =>
      have hl : lastReplacement ((o :: os).map fun _ => MutOp.remove) = none := by
        apply LolHtml.Lemmas.EditElementOps.lastReplacement_none_of
        intro op hop c
        obtain ⟨_, _, rfl⟩ := List.mem_map.mp hop
        simp
      simp only [edit, hl]
      simp [befores, afters, dropped, encodeDyn]

/-- Non-vacuity / readable instance: `before a; after x; replace r1; before b; after y; replace r2`
on `</p>` gives `a b r2 y x`. -/
example :
    (({ name := [112], raw := [60, 47, 112, 62] } : EndTag).applyOps
        [.mut (.before (.buffer [97] .html)), .mut (.after (.buffer [120] .html)),
         .mut (.replace (.buffer [49] .html)), .mut (.before (.buffer [98] .html)),
         .mut (.after (.buffer [121] .html)), .mut (.replace (.buffer [50] .html))]).intoBytes encUtf8
      = [97, 98, 50, 121, 120] := by decide

/-- `remove` then `before`/`after` keeps the insertions. -/
example :
    (({ text := [99], raw := [60, 33, 45, 45, 99, 45, 45, 62] } : Comment).applyOps
        [.mut .remove, .mut (.before (.buffer [60] .text)), .mut (.after (.buffer [62] .text))]).intoBytes encUtf8
      = [38, 108, 116, 59, 38, 103, 116, 59] := by decide


/-! ## C07_attrs_preserved — a modified start tag keeps every untouched attribute

`attrsApplyOps items ops` is the attribute list after any sequence of `set_attribute` /
`remove_attribute` calls (`Lemmas.Attrs.startTag_attributes`: it is the attribute list of the start
tag after the script). An attribute is *touched* if some call with an acceptable name names it
(ASCII case-insensitively). -/

section Attrs
open LolHtml.Lemmas.EditAttrs

/-- The attribute list of a start tag after a script is the attribute operations applied in order. -/
theorem C07_attrs_of_startTag (t : StartTag) (ops : List StartTagOp) :
    (t.applyOps ops).attributes = attrsApplyOps t.attributes (startAttrOps ops) :=
  startTag_attributes t ops

/-- **Untouched attributes survive unchanged, in their original order**: restricted to the
untouched attributes, the list after the script *is* the original list (same records — name, value
and raw source bytes — in the same order). -/
theorem C07_attrs_untouched_preserved (items : List Attribute) (ops : List AttrOp) :
    (attrsApplyOps items ops).filter (fun a => !touched ops a)
      = items.filter (fun a => !touched ops a) := by
  induction ops generalizing items with
  | nil => rfl
  | cons op ops ih =>
    have h1 : ∀ l : List Attribute, l.filter (fun a => !touched (op :: ops) a)
        = (l.filter (fun a => !touched ops a)).filter (fun a => !keyMatch op a) := by
      intro l
      rw [List.filter_filter]
      congr 1
      funext a
      rw [touched_cons]
      cases keyMatch op a <;> cases touched ops a <;> rfl
    have h2 : ∀ l : List Attribute, (l.filter (fun a => !touched ops a)).filter (fun a => !keyMatch op a)
        = (l.filter (fun a => !keyMatch op a)).filter (fun a => !touched ops a) := by
      intro l
      rw [List.filter_filter, List.filter_filter]
      congr 1
      funext a
      cases keyMatch op a <;> cases touched ops a <;> rfl
    simp only [attrsApplyOps, List.foldl_cons] at ih ⊢
    rw [h1, ih, h1, h2, attrApply_filter, ← h2]

/-- **Everything else is an attribute written by the API**: an attribute of the result either is one
of the original attributes (with its raw bytes), or it is a touched one without raw bytes … -/
theorem C07_attrs_provenance (items : List Attribute) (ops : List AttrOp) (a : Attribute)
    (ha : a ∈ attrsApplyOps items ops) : a ∈ items ∨ (a.raw = none ∧ touched ops a = true) := by
  induction ops generalizing items with
  | nil => exact Or.inl ha
  | cons op ops ih =>
    simp only [attrsApplyOps, List.foldl_cons] at ih ha
    rcases ih _ ha with h | h
    · rcases attrApply_mem items op a h with h' | h'
      · exact Or.inl h'
      · exact Or.inr ⟨h'.1, by rw [touched_cons, h'.2]; rfl⟩
    · exact Or.inr ⟨h.1, by rw [touched_cons, h.2]; simp⟩

/-- … and such an attribute is serialised as `name="value with &quot; for quotes"`, an original one
as its raw source bytes. -/
theorem C07_attr_serialisation (a : Attribute) :
    a.intoBytes = (match a.raw with
      | some raw => raw
      | none => a.name ++ [61, 34] ++ escapeDoubleQuotesOnly a.value ++ [34]) := rfl

/-- **The last `set_attribute` for a name wins**: if the last call about the key `k` is
`set_attribute(n, v)`, the first attribute matching `k` — the one `get_attribute` returns — has value
`v` and is serialised as `name="v"`. -/
theorem C07_attrs_last_set (items : List Attribute) (pre post : List AttrOp) (n v k : Bytes)
    (hk : (AttrOp.set n v).key = some k) (hpost : ∀ op ∈ post, op.key ≠ some k) :
    ∃ a, lookup k (attrsApplyOps items (pre ++ AttrOp.set n v :: post)) = some a
      ∧ a.value = v ∧ a.raw = none := by
  simp only [attrsApplyOps, List.foldl_append, List.foldl_cons]
  have := attrsApplyOps_other_lookup (attrApply (pre.foldl attrApply items) (.set n v)) post k hpost
  simp only [attrsApplyOps] at this
  rw [this]
  exact attrApply_set_lookup _ n v k hk

/-- **The last `remove_attribute` for a name wins**: no attribute matching `k` is left. -/
theorem C07_attrs_last_remove (items : List Attribute) (pre post : List AttrOp) (n k : Bytes)
    (hk : (AttrOp.remove n).key = some k) (hpost : ∀ op ∈ post, op.key ≠ some k) :
    lookup k (attrsApplyOps items (pre ++ AttrOp.remove n :: post)) = none := by
  simp only [attrsApplyOps, List.foldl_append, List.foldl_cons]
  have := attrsApplyOps_other_lookup (attrApply (pre.foldl attrApply items) (.remove n)) post k hpost
  simp only [attrsApplyOps] at this
  rw [this]
  exact attrApply_remove_lookup _ n k hk

/-- `get_attribute` is the lookup of the lower-cased name — for every name (`Attribute::lookup_name`: no
validation; before the repair of F8 this needed `attrNameFromString (asciiLowerBytes n) = some k`). -/
theorem C07_getAttribute_lookup (items : List Attribute) (n : Bytes) :
    attrsGetAttribute items n = (lookup (asciiLowerBytes n) items).map (·.value) := rfl

/-- **`remove_attribute` removes every attribute with that name, whatever the name** (`<a =b>`,
`remove_attribute("=b")` included). -/
theorem C07_attrs_remove_any (items : List Attribute) (n : Bytes) :
    lookup (asciiLowerBytes n) (attrApply items (.remove n)) = none :=
  attrApply_remove_lookup items n _ rfl

/-- Own bytes of a start tag: untouched by name/attribute calls ⇒ the source bytes … -/
theorem C07_startTag_own_untouched (t : StartTag) (hm : t.modified = false) (ops : List StartTagOp)
    (h : ∀ op ∈ ops, ∃ o, op = StartTagOp.mut o) : (t.applyOps ops).serializeSelf = t.raw := by
  have : (t.applyOps ops).modified = false ∧ (t.applyOps ops).raw = t.raw := by
    induction ops generalizing t with
    | nil => exact ⟨hm, rfl⟩
    | cons op ops ih =>
      obtain ⟨o, rfl⟩ := h op List.mem_cons_self
      simp only [StartTag.applyOps, List.foldl_cons] at ih ⊢
      exact ih (t.apply (.mut o)) hm (fun x hx => h x (List.mem_cons_of_mem _ hx))
  simp [StartTag.serializeSelf, this.1, this.2]

/-- … otherwise rebuilt: `<` name, a space before every attribute, a space before `/>` if there
are attributes (an unquoted last value must not swallow the `/`), `>` or `/>`. -/
theorem C07_startTag_own_rebuilt (t : StartTag) (hm : t.modified = true) :
    t.serializeSelf = [60] ++ t.name
      ++ (if t.attributes.isEmpty then [] else
            (t.attributes.flatMap fun a => [32] ++ a.intoBytes) ++ (if t.selfClosing then [32] else []))
      ++ (if t.selfClosing then [47, 62] else [62]) := by
  simp only [StartTag.serializeSelf, hm, attrsIntoBytes]
  cases t.attributes.isEmpty <;> simp

/-- Non-vacuity: `<a HREF=x id="1" class=c>` with `set_attribute("href","y\"")`, `remove_attribute("ID")`,
`set_attribute("new","")`: `HREF` keeps its spelling and position, `class=c` its raw bytes. -/
example :
    attrsIntoBytes (attrsApplyOps
      [{ name := [72, 82, 69, 70], value := [120], raw := some [72, 82, 69, 70, 61, 120] },
       { name := [105, 100], value := [49], raw := some [105, 100, 61, 34, 49, 34] },
       { name := [99, 108, 97, 115, 115], value := [99], raw := some [99, 108, 97, 115, 115, 61, 99] }]
      [.set [104, 114, 101, 102] [121, 34], .remove [73, 68], .set [110, 101, 119] []])
    = [32, 72, 82, 69, 70, 61, 34, 121, 38, 113, 117, 111, 116, 59, 34,
       32, 99, 108, 97, 115, 115, 61, 99,
       32, 110, 101, 119, 61, 34, 34] := by decide

end Attrs

/-! ## C07_element_ops — every `Element` method = its documented edit of the element's regions

An element is (start tag, inner content, end tag). `Spec.Edit.ElemEdit.apply` is the documented
effect of each method on the regions  before · start tag · prepended · inner · appended · end tag ·
after  (with "no-op on elements that cannot have content", "`after` of such an element comes right
after its start tag", `el.start_tag()` operations concerning the start tag only).
For every script on a fresh element:
* the start-tag token serialises to the start region
  `before ++ (start tag | replacement | ε) ++ prepended` (`++ after` instead, if no content),
  where the start tag's own bytes are those of the start tag after the implied name/attribute calls,
  with `/` dropped as soon as content was inserted;
* `should_remove_content` ⇔ the inner region is removed;
* when the end tag arrives, the deferred handler (rename, install mutations) followed by the user's
  `on_end_tag` handlers yields the same bytes as running the script of *public* end-tag calls
  `endTagScript` (rename; `before` for each appended chunk; `after` for each after-chunk, innermost
  last; `remove` if the element was removed/replaced/unwrapped; then the user handlers' calls) —
  hence, by `C07_token_edit_endTag`, `appended ++ (end tag | ε) ++ after`;
* an element that cannot have content defers nothing. -/

open LolHtml.Lemmas.EditElementOps in
theorem C07_element_ops (enc : Enc) (st : StartTag) (hfresh : st.mutations = {}) (chc : Bool)
    (ops : List ElementOp) :
    let el := (Element.new st chc).applyOps ops
    let E := ElemEdit.applyOps chc {} ops
    el.startTag.intoBytes enc
        = E.startRegion enc chc
            ({ st.applyOps (startTagOwnOps ops) with
                selfClosing := st.selfClosing && !selfClosingCleared chc ops } : StartTag).serializeSelf
      ∧ el.shouldRemoveContent = E.innerRemoved
      ∧ (chc = true → ∀ name raw : Bytes,
          (endTagAfter el { name := name, raw := raw }).intoBytes enc
            = (({ name := name, raw := raw } : EndTag).applyOps E.endTagScript).intoBytes enc)
      ∧ (chc = false → el.intoEndTagHandler = none) := by
  intro el E
  have hchc : el.canHaveContent = chc := applyOps_canHaveContent _ _
  have habs : absEl el = E := by
    show absEl ((Element.new st chc).applyOps ops) = _
    rw [absEl_applyOps, absEl_new st chc hfresh]; rfl
  have hinv : EInv el := EInv_applyOps _ _ (EInv_new st chc)
  refine ⟨?_, ?_, ?_, ?_⟩
  · have hown := element_startTag_own (Element.new st chc) ops
    rw [startTag_intoBytes_region, habs, hchc]
    congr 1
    apply serializeSelf_of_ownPart
    · exact hown.1
    · exact hown.2
  · rw [← habs]; rfl
  · intro hc name raw
    rw [← habs]
    exact endTag_region enc el hinv (hchc.trans hc) name raw
  · intro hc
    have := hinv.void (hchc.trans hc)
    simp [Element.intoEndTagHandler, this.1, this.2.1, this.2.2]

/-- The end region in closed form: appended contents, the (renamed) end tag unless removed, the
`after` contents — when the user registered no `on_end_tag` handler. -/
theorem C07_element_end_region (enc : Enc) (E : ElemEdit) (hu : E.endHandlers = []) (name raw : Bytes) :
    (({ name := name, raw := raw } : EndTag).applyOps E.endTagScript).intoBytes enc
      = encodeDyn enc E.append
        ++ (if E.endDropped then [] else
              (match E.endName with
               | some n => [60, 47] ++ n ++ [62]
               | none => raw))
        ++ encodeDyn enc E.after := by
  open LolHtml.Lemmas.EditElementOps in
  rw [C07_token_edit_endTag]
  have hm : endMutOps E.endTagScript
      = E.append.map MutOp.before ++ E.after.reverse.map MutOp.after ++ (if E.endDropped then [MutOp.remove] else []) := by
    unfold ElemEdit.endTagScript
    rw [endMutOps_append, endMutOps_append, endMutOps_append, endMutOps_append, endMutOps_map_mut,
      endMutOps_map_mut, endMutOps_removeOps, endMutOps_renameOps, hu]
    simp [endMutOps]
  have hn : endTagOwn raw E.endTagScript = (match E.endName with
               | some n => [60, 47] ++ n ++ [62]
               | none => raw) := by
    show (match (endNameOps E.endTagScript).getLast? with
          | some n => [60, 47] ++ n ++ [62]
          | none => raw) = _
    unfold ElemEdit.endTagScript
    rw [endNameOps_append, endNameOps_append, endNameOps_append, endNameOps_append, endNameOps_map_mut,
      endNameOps_map_mut, endNameOps_removeOps, hu]
    simp only [List.flatten_nil, List.append_nil]
    rw [show endNameOps [] = [] from rfl, List.append_nil, endNameOps_renameOps]
  rw [hm, hn]
  have hl : lastReplacement (E.append.map MutOp.before ++ E.after.reverse.map MutOp.after
      ++ (if E.endDropped then [MutOp.remove] else [])) = none := by
    apply lastReplacement_none_of
    intro op hop c
    simp only [List.mem_append, List.mem_map] at hop
    rcases hop with (⟨x, _, rfl⟩ | ⟨x, _, rfl⟩) | hop
    · simp
    · simp
    · split at hop <;> simp at hop
      subst hop; simp
  simp only [edit, hl, befores_append, afters_append, dropped_append, befores_map_before,
    befores_map_after, afters_map_after, afters_map_before, dropped_map_before, dropped_map_after]
  cases E.endDropped <;> simp [befores, afters, dropped, encodeDyn_nil]

/-- Non-vacuity: `<a/>` (foreign, but here `chc = true`) with
`prepend("p"); append("q"); after("z"); set_tag_name("b"); before("x")`:
start region `x<b>p` (the `/` is dropped, renamed), end tag `</a>` becomes `q</b>z`. -/
example :
    let st : StartTag := { name := [97], attributes := [], selfClosing := true, raw := [60, 97, 47, 62] }
    let el := (Element.new st true).applyOps
      [.prepend (.buffer [112] .html), .append (.buffer [113] .html), .after (.buffer [122] .html),
       .setTagName [98], .before (.buffer [120] .html)]
    el.startTag.intoBytes encUtf8 = [120, 60, 98, 62, 112]
      ∧ (LolHtml.Lemmas.EditElementOps.endTagAfter el { name := [97], raw := [60, 47, 97, 62] }).intoBytes encUtf8
          = [113, 60, 47, 98, 62, 122] := by decide

/-- Non-vacuity: on a void element (`chc = false`) `prepend`/`append`/`set_inner_content` are no-ops
and `after` lands right after the start tag. -/
example :
    let st : StartTag := { name := [98, 114], attributes := [], selfClosing := false, raw := [60, 98, 114, 62] }
    let el := (Element.new st false).applyOps
      [.prepend (.buffer [112] .html), .append (.buffer [113] .html), .setInnerContent (.buffer [105] .html),
       .after (.buffer [122] .html)]
    el.startTag.intoBytes encUtf8 = [60, 98, 114, 62, 122] ∧ el.intoEndTagHandler = none := by decide

/-! ## C07_removed_content — the emission switch

`EditModel.step` is one source token through dispatcher + rewrite controller; `EditModel.steps` a token list.
`RInv` says: `matched_elements_with_removed_content` = number of open elements whose content is
removed, `emission_enabled` = (that number = 0), and the counter never underflowed. It holds
initially and after every token, for every set of handlers and every script. -/

open LolHtml.Lemmas.EditDoc

theorem C07_removed_content_invariant (H : List Handler) (enc : Enc) (toks : List SrcToken)
    (s : St) (h : RInv s) : RInv (steps H enc s toks).1 := by
  induction toks generalizing s with
  | nil => exact h
  | cons t ts ih => exact ih _ (step_spec H enc s t h).1

theorem C07_removed_content_invariant_init (H : List Handler) (enc : Enc) (toks : List SrcToken) :
    RInv (steps H enc (St.init H) toks).1 :=
  C07_removed_content_invariant H enc toks _ (RInv_init H)

/-- Under the invariant, "emission is off" is the same as "some open element has its content removed". -/
theorem C07_emission_off_iff (s : St) (h : RInv s) :
    s.emission = false ↔ ∃ it ∈ s.stack, it.data.removeContent = true := by
  rw [h.emission, h.count, countRemoved]
  constructor
  · intro hz
    have : (s.stack.filter fun it => it.data.removeContent) ≠ [] := by
      intro hnil; simp [hnil] at hz
    obtain ⟨it, hit⟩ := List.exists_mem_of_ne_nil _ this
    rw [List.mem_filter] at hit
    exact ⟨it, hit.1, hit.2⟩
  · rintro ⟨it, hmem, hrc⟩
    have : it ∈ s.stack.filter fun it => it.data.removeContent := List.mem_filter.mpr ⟨hmem, hrc⟩
    have hpos : 0 < (s.stack.filter fun it => it.data.removeContent).length := List.length_pos_of_mem this
    cases hl : (s.stack.filter fun it => it.data.removeContent).length with
    | zero => omega
    | succ n => rfl

/-- Emission stays off during the whole token sequence. -/
def staysOff (H : List Handler) (enc : Enc) : St → List SrcToken → Prop
  | _, [] => True
  | s, t :: ts => (step H enc s t).1.emission = false ∧ staysOff H enc (step H enc s t).1 ts

/-- **Nothing between the start tag of an element whose content is removed and the end tag that
closes it reaches the sink**: as long as some element with removed content stays open (emission
off before and after each token), every token contributes the empty output — whatever the handlers
do on the tokens inside (insertions before/after, replacements, nested elements with their own
deferred end-tag edits, text and comment handlers …). -/
theorem C07_removed_content_silent (H : List Handler) (enc : Enc) (toks : List SrcToken) (s : St)
    (h : RInv s) (hoff : s.emission = false) (hstay : staysOff H enc s toks) :
    (steps H enc s toks).2.flatten = [] := by
  induction toks generalizing s with
  | nil => rfl
  | cons t ts ih =>
    have hs := step_spec H enc s t h
    simp only [steps, List.flatten_cons]
    rw [hs.2 hoff hstay.1, ih _ hs.1 hstay.1 hstay.2]
    rfl

/-- **Emission resumes exactly at the end tag that closes the last such element**: if emission was
off and this end tag pops every element with removed content, the sink receives exactly the
serialisation of that end tag with the deferred end-tag edits of the elements it closes (so
`after` content of the removed element appears, its removed end tag does not, …). -/
theorem C07_removed_content_resume (H : List Handler) (enc : Enc) (s : St) (name raw : Bytes)
    (h : RInv s) (hoff : s.emission = false)
    (hon : (step H enc s (.endTag name raw)).1.emission = true) :
    (step H enc s (.endTag name raw)).2 = (endTagToken H enc s name raw).intoBytes enc :=
  (stepEndTag_spec H enc s name raw h).2.2.1 hoff hon

/-- Only an end tag can switch emission back on. -/
theorem C07_removed_content_only_end_tag_resumes (H : List Handler) (enc : Enc) (s : St)
    (tok : SrcToken) (h : RInv s) (hoff : s.emission = false)
    (hon : (step H enc s tok).1.emission = true) : ∃ n r, tok = .endTag n r := by
  cases tok with
  | endTag n r => exact ⟨n, r, rfl⟩
  | startTag n a sc ns r =>
    have hs := stepStartTag_spec H enc s n a sc ns r h
    have h1 := hs.1.emission
    have h0 := h.emission
    simp only [step] at hon
    rw [hoff] at h0; rw [hon] at h1
    have : s.removedCount ≠ 0 := by intro hz; simp [hz] at h0
    have : (stepStartTag H enc s n a sc ns r).1.removedCount = 0 := by simpa using h1.symm
    have := hs.2.2
    omega
  | text raw =>
    have := (step_nontag_spec H enc s (.text raw) (by intros; simp) (by intros; simp)).1.emission
    rw [hon, hoff] at this; cases this
  | comment t raw =>
    have := (step_nontag_spec H enc s (.comment t raw) (by intros; simp) (by intros; simp)).1.emission
    rw [hon, hoff] at this; cases this
  | doctype raw =>
    have := (step_nontag_spec H enc s (.doctype raw) (by intros; simp) (by intros; simp)).1.emission
    rw [hon, hoff] at this; cases this


/-! Non-vacuity: `<div>a</div>y` with `div { set_inner_content("X"); after("A") }` and a text handler on
`*` that inserts `!` before every chunk: the handler runs on `a` (inside the removed content) but its
insertion never reaches the sink; emission is off after `<div>`, stays off over the text, resumes at
`</div>`. -/

def exH : List Handler :=
  [{ sel := some (.type [100, 105, 118]),
     script := .element fun _ => [.setInnerContent (.buffer [88] .html), .after (.buffer [65] .html)] },
   { sel := some .any, script := .text fun _ => [.mut (.before (.buffer [33] .html))] }]

def exToks : List SrcToken :=
  [.startTag [100, 105, 118] [] false .html [60, 100, 105, 118, 62], .text [97],
   .endTag [100, 105, 118] [60, 47, 100, 105, 118, 62], .text [121]]

example : (rewrite exH encUtf8 exToks).2
    = [60, 100, 105, 118, 62, 88, 60, 47, 100, 105, 118, 62, 65, 121] := by decide

example : (step exH encUtf8 (St.init exH) exToks[0]).1.emission = false := by decide

example : staysOff exH encUtf8 (step exH encUtf8 (St.init exH) exToks[0]).1 [.text [97]] :=
  ⟨by decide, trivial⟩

/-- the text handler did run on the removed text (2 chunks: `a` and the end-of-node chunk) -/
example : (steps exH encUtf8 (St.init exH) (exToks.take 3)).1.inv 1 = 2 := by decide


/-! ## C07_output_eq_edit_spec — whole documents

`Spec.EditDoc.rewrite` is the documented edit of a whole token stream, over element extents. The
dispatcher defers the end-region edits of an element to "the next end tag that pops it", which is
the element's own end tag only if it has one. The whole-document theorem therefore carries the side
condition `cleanRun` (no element with *visible* end-region edits — appended / after content, removal
or renaming of the end tag, an `on_end_tag` handler that makes a call — ends without an end tag of
its own); the unconditional version is *refuted* on concrete witnesses, which are genuine defects of
/repo. The lane checks on every case: model = implementation, `Spec.EditDoc.rewrite` = the harness's
reference editor, and the `cleanRun` flag = the reference editor's own bookkeeping. -/

/-- The whole-document statement. -/
def C07_output_eq_edit_spec_statement : Prop :=
  ∀ (H : List Handler) (enc : Enc) (toks : List SrcToken),
    Spec.EditDoc.cleanRun H enc {} toks = true →
    (rewrite H enc toks).2 = Spec.EditDoc.rewrite H enc toks

/-- **C07_output_eq_edit_spec** — for every set of handlers (any scripts, several handlers per token,
nested matched elements, void / foreign self-closing elements, removed content with handlers inside,
`on_end_tag`, streaming content, stray end tags, unclosed and implicitly closed elements …) and every
clean token stream: the sink bytes of the dispatcher model are exactly the documented edit of the
token stream, and on the way no `user_count` underflows, no end-tag locator is stale (`fault`) and
`matched_elements_with_removed_content` does not underflow (`faultRemoved`).
Proof: simulation `Lemmas.Refine.Sim` between dispatcher state and specification state (user counts =
number of open matching elements; handler vector = the deferred handlers of the open elements,
outermost first, none active; `removedCount` / `emission` = `RInv`), preserved by every token. -/
theorem C07_output_eq_edit_spec (H : List Handler) (enc : Enc) (toks : List SrcToken)
    (hn : Spec.EditDoc.cleanRun H enc {} toks = true) :
    (rewrite H enc toks).2 = Spec.EditDoc.rewrite H enc toks
      ∧ (rewrite H enc toks).1.fault = false ∧ (rewrite H enc toks).1.faultRemoved = false :=
  LolHtml.Lemmas.EditRefine.rewrite_refines H enc toks hn

theorem C07_output_eq_edit_spec_holds : C07_output_eq_edit_spec_statement :=
  fun H enc toks hn => (C07_output_eq_edit_spec H enc toks hn).1

/-- `<div><span>x</div>y` -/
def cexToks : List SrcToken :=
  [.startTag [100, 105, 118] [] false .html [60, 100, 105, 118, 62],
   .startTag [115, 112, 97, 110] [] false .html [60, 115, 112, 97, 110, 62],
   .text [120],
   .endTag [100, 105, 118] [60, 47, 100, 105, 118, 62],
   .text [121]]

def spanHandler (ops : List ElementOp) : List Handler :=
  [{ sel := some (.type [115, 112, 97, 110]), script := .element fun _ => ops }]

/-- **Defect (implicit close, `after`)**: `span.after("A")` on the unclosed `<span>`: documented
`<div><span>xA</div>y`; the model (= the implementation, lane-checked) gives `<div><span>x</div>Ay`
— the content lands outside the parent element. -/
theorem C07_implicit_close_after_counterexample :
    (rewrite (spanHandler [.after (.buffer [65] .html)]) encUtf8 cexToks).2
        = [60, 100, 105, 118, 62, 60, 115, 112, 97, 110, 62, 120, 60, 47, 100, 105, 118, 62, 65, 121]
      ∧ Spec.EditDoc.rewrite (spanHandler [.after (.buffer [65] .html)]) encUtf8 cexToks
        = [60, 100, 105, 118, 62, 60, 115, 112, 97, 110, 62, 120, 65, 60, 47, 100, 105, 118, 62, 121] := by
  decide

/-- **Defect (implicit close, removal)**: `span.remove_and_keep_content()` on the unclosed `<span>`
deletes the end tag of the *parent*: documented `<div>x</div>y`, model/implementation `<div>xy`. -/
theorem C07_implicit_close_removes_parent_end_tag_counterexample :
    (rewrite (spanHandler [.removeAndKeepContent]) encUtf8 cexToks).2
        = [60, 100, 105, 118, 62, 120, 121]
      ∧ Spec.EditDoc.rewrite (spanHandler [.removeAndKeepContent]) encUtf8 cexToks
        = [60, 100, 105, 118, 62, 120, 60, 47, 100, 105, 118, 62, 121] := by
  decide

/-- **Defect (implicit close, rename)**: `span.set_tag_name("b")` renames the parent's end tag:
documented `<div><b>x</div>y`, model/implementation `<div><b>x</b>y`. -/
theorem C07_implicit_close_renames_parent_end_tag_counterexample :
    (rewrite (spanHandler [.setTagName [98]]) encUtf8 cexToks).2
        = [60, 100, 105, 118, 62, 60, 98, 62, 120, 60, 47, 98, 62, 121]
      ∧ Spec.EditDoc.rewrite (spanHandler [.setTagName [98]]) encUtf8 cexToks
        = [60, 100, 105, 118, 62, 60, 98, 62, 120, 60, 47, 100, 105, 118, 62, 121] := by
  decide

/-- **Defect (unclosed at end of input)**: `<div><span>x` with `span.append("B"); span.after("A")`:
documented `<div><span>xBA`; model/implementation `<div><span>x` — the insertions are lost. -/
theorem C07_unclosed_eof_counterexample :
    (rewrite (spanHandler [.append (.buffer [66] .html), .after (.buffer [65] .html)]) encUtf8
        (cexToks.take 3)).2
        = [60, 100, 105, 118, 62, 60, 115, 112, 97, 110, 62, 120]
      ∧ Spec.EditDoc.rewrite (spanHandler [.append (.buffer [66] .html), .after (.buffer [65] .html)])
          encUtf8 (cexToks.take 3)
        = [60, 100, 105, 118, 62, 60, 115, 112, 97, 110, 62, 120, 66, 65] := by
  decide

/-- The unconditional whole-document property is false. -/
theorem C07_output_eq_edit_spec_unconditional_false :
    ¬ ∀ (H : List Handler) (enc : Enc) (toks : List SrcToken),
        (rewrite H enc toks).2 = Spec.EditDoc.rewrite H enc toks := by
  intro h
  have := h (spanHandler [.removeAndKeepContent]) encUtf8 cexToks
  rw [C07_implicit_close_removes_parent_end_tag_counterexample.1,
    C07_implicit_close_removes_parent_end_tag_counterexample.2] at this
  exact absurd this (by decide)

/-- A tidy run is a clean run. -/
theorem tidyRun_imp_cleanRun (H : List Handler) (enc : Enc) (toks : List SrcToken) (s : Spec.EditDoc.SpecSt)
    (h : Spec.EditDoc.tidyRun H enc s toks = true) : Spec.EditDoc.cleanRun H enc s toks = true := by
  induction toks generalizing s with
  | nil => exact h
  | cons t ts ih =>
    simp only [Spec.EditDoc.tidyRun, Spec.EditDoc.cleanRun, Bool.and_eq_true] at h ⊢
    refine ⟨?_, ih _ h.2⟩
    cases t with
    | endTag name raw =>
      have h1 := h.1
      simp only [Spec.EditDoc.closesUntouched] at h1
      simp only [Spec.EditDoc.implicitHere]
      cases hfi : s.openEls.findIdx? (fun o => o.lname == asciiLowerBytes name) with
      | none => rfl
      | some idx =>
        rw [hfi] at h1
        simp only [List.all_eq_true] at h1
        simp only [Bool.not_eq_true', List.any_eq_false]
        intro o ho
        have := h1 o ho
        cases hoe : o.edit with
        | none => simp [Spec.EditDoc.elHasEndEdits, hoe]
        | some e => simp [hoe] at this
    | _ => rfl

/-- Corollary for *tidy* runs (implicitly closed elements untouched by element handlers). -/
theorem C07_output_eq_edit_spec_tidy (H : List Handler) (enc : Enc) (toks : List SrcToken)
    (hn : Spec.EditDoc.tidyRun H enc {} toks = true) :
    (rewrite H enc toks).2 = Spec.EditDoc.rewrite H enc toks :=
  (C07_output_eq_edit_spec H enc toks (tidyRun_imp_cleanRun H enc toks {} hn)).1

/-- Non-vacuity: `<div><span>x<p>y</span></zz>` — a closed `span` with edits in all regions, inside an
unclosed `div`; an unclosed `p` on which an element handler *did* run (`set_attribute`, `prepend`,
`set_inner_content`: no visible end-region edit) closed implicitly by `</span>`; a stray end tag; a
text handler on `*`. The run is clean but not tidy. -/
example :
    let toks : List SrcToken :=
      [.startTag [100, 105, 118] [] false .html [60, 100, 105, 118, 62],
       .startTag [115, 112, 97, 110] [] false .html [60, 115, 112, 97, 110, 62],
       .text [120],
       .startTag [112] [] false .html [60, 112, 62],
       .text [121],
       .endTag [115, 112, 97, 110] [60, 47, 115, 112, 97, 110, 62],
       .endTag [122, 122] [60, 47, 122, 122, 62]]
    let H := spanHandler [.before (.buffer [97] .html), .prepend (.buffer [112] .html),
        .append (.buffer [113] .html), .after (.buffer [122] .html), .setTagName [98]]
      ++ [{ sel := some .any, script := .text fun _ => [.mut (.before (.buffer [33] .html))] },
          { sel := some (.type [112]), script := .element fun _ =>
              [.setAttribute [105, 100] [49], .append (.buffer [] .html), .setInnerContent (.buffer [73] .html)] }]
    Spec.EditDoc.cleanRun H encUtf8 {} toks = true
      ∧ Spec.EditDoc.tidyRun H encUtf8 {} toks = false
      ∧ (rewrite H encUtf8 toks).2
          = [60, 100, 105, 118, 62, 97, 60, 98, 62, 112, 33, 120, 33,
             60, 112, 32, 105, 100, 61, 34, 49, 34, 62, 73, 113,
             60, 47, 98, 62, 122, 60, 47, 122, 122, 62] := by decide

end LolHtml.Thm.C07
