/-
Property C07 — rewrite operations produce exactly the documented edit.

All theorems are about the definitions executed by lane `edit` (`LolHtml.Model.{Mutations,TokenEdit,
ElementOps,EditDoc}`), for *every* operation script (a list of API calls of any length), every token,
and every sink function `enc : ContentType → Bytes → Bytes` (escaping + encoding is abstract).
-/
import LolHtml.Lemmas.Edit

namespace LolHtml.Thm.C07
open LolHtml LolHtml.Model LolHtml.Spec.Edit LolHtml.Lemmas.Edit

/-! ## C07_token_edit — serialisation of an edited token = the documented edit

For a token freshly produced by the parser (no pending mutations, raw bytes original) and any script:
`before` contents come first in call order, then the token itself — or, once it was replaced or
removed, the content of the *last* `replace` (nothing if there was none) — then the `after` contents,
latest call first. The token's own bytes are the source bytes unless renamed / re-texted. -/

/-- End tags. -/
theorem C07_token_edit_endTag (enc : Enc) (name raw : Bytes) (ops : List EndTagOp) :
    (({ name := name, raw := raw } : EndTag).applyOps ops).intoBytes enc
      = edit enc (endTagOwn raw ops) (endMutOps ops) := by
  unfold EndTag.intoBytes
  rw [endTag_mutations, endTag_serializeSelf, serialize_foldl_apply]
  rfl

/-- Comments. -/
theorem C07_token_edit_comment (enc : Enc) (text raw : Bytes) (ops : List CommentOp) :
    (({ text := text, raw := raw } : Comment).applyOps ops).intoBytes enc
      = edit enc (commentOwn raw ops) (commentMutOps ops) := by
  unfold Comment.intoBytes
  rw [comment_mutations, comment_serializeSelf, serialize_foldl_apply]
  rfl

/-- Text chunks. -/
theorem C07_token_edit_text (enc : Enc) (text : Bytes) (last : Bool) (ops : List TextOp) :
    (({ text := text, lastInTextNode := last } : TextChunk).applyOps ops).intoBytes enc
      = edit enc (textOwn enc text ops) (textMutOps ops) := by
  unfold TextChunk.intoBytes
  rw [text_mutations, text_serializeSelf, serialize_foldl_apply]

/-- Start tags: the own bytes are those of the start tag after the name / attribute operations
(characterised by `C07_startTag_own_*` and `C07_attrs_*` below). -/
theorem C07_token_edit_startTag (enc : Enc) (t : StartTag) (hfresh : t.mutations = {})
    (ops : List StartTagOp) :
    (t.applyOps ops).intoBytes enc = edit enc (t.applyOps ops).serializeSelf (startMutOps ops) := by
  unfold StartTag.intoBytes
  rw [startTag_mutations, hfresh, serialize_foldl_apply]

/-- Doctype: `remove` is the only operation. -/
theorem C07_token_edit_doctype (raw : Bytes) (ops : List DoctypeOp) :
    (({ raw := raw } : Doctype).applyOps ops).intoBytes = if ops.isEmpty then raw else [] := by
  have h : ∀ (d : Doctype), (d.applyOps ops).removed = (d.removed || !ops.isEmpty) ∧ (d.applyOps ops).raw = d.raw := by
    induction ops with
    | nil => intro d; simp [Doctype.applyOps]
    | cons op ops ih =>
      intro d
      have := ih (d.apply op)
      simp only [Doctype.applyOps, List.foldl_cons] at this ⊢
      cases op
      simp only [Doctype.apply] at this ⊢
      simp [this]
  have h' := h { raw := raw }
  unfold Doctype.intoBytes
  rw [h'.1, h'.2]
  cases ops <;> simp

/-- Non-vacuity / readable instance: `before a; after x; replace r1; before b; after y; replace r2`
on `</p>` gives `a b r2 y x`. -/
example :
    (({ name := [112], raw := [60, 47, 112, 62] } : EndTag).applyOps
        [.mut (.before (.buffer [97] .html)), .mut (.after (.buffer [120] .html)),
         .mut (.replace (.buffer [49] .html)), .mut (.before (.buffer [98] .html)),
         .mut (.after (.buffer [121] .html)), .mut (.replace (.buffer [50] .html))]).intoBytes encUtf8
      = [97, 98, 50, 121, 120] := by decide

/-- `remove` then `before`/`after` keeps the insertions. -/
example :
    (({ text := [99], raw := [60, 33, 45, 45, 99, 45, 45, 62] } : Comment).applyOps
        [.mut .remove, .mut (.before (.buffer [60] .text)), .mut (.after (.buffer [62] .text))]).intoBytes encUtf8
      = [38, 108, 116, 59, 38, 103, 116, 59] := by decide

end LolHtml.Thm.C07
