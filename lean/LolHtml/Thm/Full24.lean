/-
# Package `full`, part 19 — `C14_ranges_all_controllers` for the REAL controller

`C14_ranges_all_controllers` is about a controller with a token log (`Logging`) that is `CtlClean`. The real controller
keeps no token log, and is not `CtlClean`. Here: the real controller under the logging wrapper `withLog` (the wrapper is a
ghost: `withLog_hom`, every call of every run returns what the unwrapped run returns), followed by the wrapped CLEANED
controller (`CtlSim.withLog`) through the complete run `write* ; end` (`run_sim`, Lemmas/CtlSimEnd.lean). The logged real run
IS the logged cleaned run, whose log is `Ordered` — unless a callback returned an internal-class error
(`InternalAltRun`, the alternative of `Full_real_eq_clean_run`; the panic half is excluded by `Full_no_panic` through the
ghost).
-/
import LolHtml.Thm.Full17
import LolHtml.Lemmas.RangesAllCopy
import LolHtml.Lemmas.CtlHom

namespace LolHtml.Thm.Full
open LolHtml LolHtml.Model LolHtml.Model.Full LolHtml.Lemmas.Full
open LolHtml.Thm.C01 (run writeAll Rewriter.new)
open LolHtml.Thm.C14R (withLog withLog_logging withLog_clean)

section
variable {γ : Type}

/-- the logging wrapper is a ghost -/
theorem withLog_hom (ctl : Controller γ) : Hom.CtlHom (withLog ctl) ctl Prod.fst where
  initialFlags := fun _ => rfl
  startTag := fun _ _ _ => ⟨rfl, rfl⟩
  auxInfo := fun _ _ => ⟨rfl, rfl⟩
  endTag := fun _ _ => ⟨rfl, rfl⟩
  token := fun _ _ => ⟨rfl, rfl⟩
  shouldEmit := fun _ => rfl
  handleEnd := fun _ => ⟨rfl, rfl⟩
  bailOut := fun _ _ => ⟨rfl, rfl⟩

/-- the simulation passes through the logging wrapper -/
theorem CtlSim.withLog {c1 c2 : Controller γ} {D : γ → Prop} {G : Err → Prop} (h : Chunk.R.CtlSim c1 c2 D G) :
    Chunk.R.CtlSim (withLog c1) (withLog c2) (fun g => D g.1) G where
  flags := fun g hg => h.flags g.1 hg
  emit := fun g hg => h.emit g.1 hg
  startTag := fun g n ns hg => by
    rcases h.startTag g.1 n ns hg with ⟨he, hD⟩ | ⟨e, hG, he⟩
    · exact Or.inl ⟨by simp only [C14R.withLog, he], hD⟩
    · exact Or.inr ⟨e, hG, he⟩
  auxInfo := fun g i hg => by
    rcases h.auxInfo g.1 i hg with ⟨he, hD⟩ | ⟨e, hG, he⟩
    · exact Or.inl ⟨by simp only [C14R.withLog, he], hD⟩
    · exact Or.inr ⟨e, hG, he⟩
  endTag := fun g n hg => by
    obtain ⟨he, hD⟩ := h.endTag g.1 n hg
    exact ⟨by simp only [C14R.withLog, he], hD⟩
  token := fun g t hg => by
    rcases h.token g.1 t hg with ⟨he, hD⟩ | ⟨e, hG, he⟩
    · exact Or.inl ⟨by simp only [C14R.withLog, he], hD⟩
    · exact Or.inr ⟨e, hG, he⟩
  handleEnd := fun g hg => by
    rcases h.handleEnd g.1 hg with ⟨he, hD⟩ | ⟨e, hG, he⟩
    · exact Or.inl ⟨by simp only [C14R.withLog, he], hD⟩
    · exact Or.inr ⟨e, hG, he⟩
  bailOut := by simp only [C14R.withLog, h.bailOut]

end

/-- the whole model with the real controller, every token handed to it recorded -/
def logWorld (cfg : Cfg) : World (FullSt cfg × List Token) := ⟨Gen.Syntax.table, Gen.Tags.cfg, withLog (fullCtl cfg)⟩

/-- … and with the cleaned real controller -/
def cleanLogWorld (cfg : Cfg) : World (FullSt cfg × List Token) :=
  ⟨Gen.Syntax.table, Gen.Tags.cfg, withLog (Chunk.R.cleanCtl (fullCtl cfg))⟩

/-- the log is a ghost: the logged run returns what the real run returns -/
theorem logWorld_results (cfg : Cfg) (settings : Settings) (chunks : List Bytes) :
    (run (logWorld cfg) (Rewriter.new (logWorld cfg) (FullSt.init cfg, []) settings) chunks).2 =
      (run (genWorld cfg) (Rewriter.new (genWorld cfg) (FullSt.init cfg) settings) chunks).2 :=
  Hom.run_hom (w := genWorld cfg) (c' := withLog (fullCtl cfg)) (f := Prod.fst) (withLog_hom (fullCtl cfg))
    C03.C03_emitsChecked_gen (FullSt.init cfg, []) settings chunks

/-- the logged complete run over the real controller is the logged run over the cleaned one, or the internal-class
alternative -/
theorem Full_real_eq_clean_run_logged (cfg : Cfg) (settings : Settings) (chunks : List Bytes) :
    run (logWorld cfg) (Rewriter.new (logWorld cfg) (FullSt.init cfg, []) settings) chunks =
      run (cleanLogWorld cfg) (Rewriter.new (cleanLogWorld cfg) (FullSt.init cfg, []) settings) chunks ∨
    InternalAltRun cfg settings chunks := by
  have hsim := CtlSim.withLog (Chunk.R.fullCtl_sim_prov cfg)
  have hnew := Chunk.R.new_eq (w := logWorld cfg) hsim (FullSt.init cfg, []) (Chunk.R.init_DO cfg) settings
  rcases Chunk.R.run_sim (w := logWorld cfg) hsim C03.C03_emitsChecked_gen chunks
      (Rewriter.new (logWorld cfg) (FullSt.init cfg, []) settings) (Or.inr (Chunk.R.init_DO cfg)) with he | ⟨e, ⟨hG, hc⟩, hmem⟩
  · left
    rw [he, hnew]
    rfl
  · rw [logWorld_results] at hmem
    rcases hmem with hmem | hmem
    · rcases hG with ⟨m, rfl, hne⟩ | ⟨s, rfl⟩
      · exact absurd hmem (run_no_GP cfg settings chunks _ (Or.inl ⟨m, rfl, hne⟩))
      · exact Or.inr ⟨s, hc, hmem⟩
    · exact absurd hmem (run_no_GP cfg settings chunks e hG)

/-- **C14_ranges_real.** For every configuration of the REAL controller (handlers rewrite tokens, remove element content,
fail), every settings record and every history `write* ; end` (any chunking, failing calls included): the source ranges
of the tokens handed to the controller, in the order they were handed over, are well-formed, ordered and pairwise
disjoint — or a callback returned an internal-class error (`InternalAltRun`). -/
theorem C14_ranges_real (cfg : Cfg) (settings : Settings) (chunks : List Bytes) :
    Ordered (run (logWorld cfg) (Rewriter.new (logWorld cfg) (FullSt.init cfg, []) settings) chunks).1.stream.disp.ctl.2 ∨
    InternalAltRun cfg settings chunks := by
  rcases Full_real_eq_clean_run_logged cfg settings chunks with he | h
  · left
    rw [he]
    exact C14R.C14_ranges_all_controllers (cleanLogWorld cfg) (·.2) (withLog_logging _)
      (withLog_clean _ (Chunk.R.cleanCtl_clean (fullCtl cfg))) C15.C15_gen C03.C03_emitsChecked_gen
      (FullSt.init cfg, []) rfl settings chunks
  · exact Or.inr h

/-- … in particular for every run none of whose calls returns the handler error -/
theorem C14_ranges_real_of_no_handler (cfg : Cfg) (settings : Settings) (chunks : List Bytes)
    (hnh : CallRes.err .handler ∉ (run (genWorld cfg) (Rewriter.new (genWorld cfg) (FullSt.init cfg) settings) chunks).2) :
    Ordered (run (logWorld cfg) (Rewriter.new (logWorld cfg) (FullSt.init cfg, []) settings) chunks).1.stream.disp.ctl.2 := by
  rcases C14_ranges_real cfg settings chunks with h | ⟨s, _, hm⟩
  · exact h
  · exact absurd hm hnh

/-- non-vacuity: the real controller with an `on_end_tag`-registering element closure on `div` and a document text handler,
`<div a=b>x<` `/div>y`: it is handed six tokens (start tag, `x`, the closing chunk of the text node, the end tag, `y`, the
closing chunk), across the two writes and `end`, with these document ranges; the run returns no handler error -/
example : ((run (logWorld obsCfg) (Rewriter.new (logWorld obsCfg) (FullSt.init obsCfg, []) {}) sampleChunks).1.stream.disp.ctl.2.map
    fun t => (t.src.start, t.src.end)) = [(0, 9), (9, 10), (10, 10), (10, 16), (16, 17), (17, 17)] := by decide +kernel
example : CallRes.err .handler ∉ (run (genWorld obsCfg) (Rewriter.new (genWorld obsCfg) (FullSt.init obsCfg) {}) sampleChunks).2 := by
  decide +kernel

end LolHtml.Thm.Full
