import LolHtml.Gen.Syntax
import LolHtml.Ref.Syntax
import LolHtml.Ref.Resolve
import LolHtml.Lemmas.RefResolve
/-!
# C03 — the tokenizer table of the code equals the WHATWG reference table

`Gen.Syntax.table` is regenerated from `/repo/src/parser/state_machine/syntax/**` on every check;
`Ref.Syntax.table` is the hand-written transcription of WHATWG §13.2.5 (deviations listed in its
header). The theorem says: for **every** state name, closing-quote register value, last-chunk flag and
input class (each of the 256 bytes, or exhausted input) the two tables select an arm with the same
action list (same `?` flags), the same condition, the same transition target **by name**, the same
look-ahead sequences tried before it, the same enter actions and the same end-of-input discipline.

The Boolean computation is split into 24 kernel evaluations of 3 states each (0.5–8 s each, about
60 s in total on the loaded build machine; as one `decide +kernel` it takes 6 minutes).
-/
namespace LolHtml.Thm.C03
open LolHtml.Model LolHtml.Ref

abbrev G : Table := LolHtml.Gen.Syntax.table
abbrev R : Table := LolHtml.Ref.Syntax.table

set_option maxRecDepth 100000

theorem states_00 : statesAgreeFrom G R 0 3 = true := by decide +kernel
theorem states_03 : statesAgreeFrom G R 3 3 = true := by decide +kernel
theorem states_06 : statesAgreeFrom G R 6 3 = true := by decide +kernel
theorem states_09 : statesAgreeFrom G R 9 3 = true := by decide +kernel
theorem states_12 : statesAgreeFrom G R 12 3 = true := by decide +kernel
theorem states_15 : statesAgreeFrom G R 15 3 = true := by decide +kernel
theorem states_18 : statesAgreeFrom G R 18 3 = true := by decide +kernel
theorem states_21 : statesAgreeFrom G R 21 3 = true := by decide +kernel
theorem states_24 : statesAgreeFrom G R 24 3 = true := by decide +kernel
theorem states_27 : statesAgreeFrom G R 27 3 = true := by decide +kernel
theorem states_30 : statesAgreeFrom G R 30 3 = true := by decide +kernel
theorem states_33 : statesAgreeFrom G R 33 3 = true := by decide +kernel
theorem states_36 : statesAgreeFrom G R 36 3 = true := by decide +kernel
theorem states_39 : statesAgreeFrom G R 39 3 = true := by decide +kernel
theorem states_42 : statesAgreeFrom G R 42 3 = true := by decide +kernel
theorem states_45 : statesAgreeFrom G R 45 3 = true := by decide +kernel
theorem states_48 : statesAgreeFrom G R 48 3 = true := by decide +kernel
theorem states_51 : statesAgreeFrom G R 51 3 = true := by decide +kernel
theorem states_54 : statesAgreeFrom G R 54 3 = true := by decide +kernel
theorem states_57 : statesAgreeFrom G R 57 3 = true := by decide +kernel
theorem states_60 : statesAgreeFrom G R 60 3 = true := by decide +kernel
theorem states_63 : statesAgreeFrom G R 63 3 = true := by decide +kernel
theorem states_66 : statesAgreeFrom G R 66 3 = true := by decide +kernel
theorem states_69 : statesAgreeFrom G R 69 3 = true := by decide +kernel

theorem states_count : G.states.length ≤ 72 := by decide +kernel
theorem ref_names_known : ((namesOf R).all fun n => (namesOf G).contains n) = true := by decide +kernel
theorem dyn_names : (textStateNames G == textStateNames R) = true := by decide +kernel

/-- The Boolean table comparison succeeds on the current source tree. -/
theorem C03_tablesAgree : tablesAgree G R = true := by
  have hall : ((namesOf G).drop 0).all (stateAgrees G R) = true :=
    statesAgree_step 0 3 states_00 <|
    statesAgree_step 3 3 states_03 <|
    statesAgree_step 6 3 states_06 <|
    statesAgree_step 9 3 states_09 <|
    statesAgree_step 12 3 states_12 <|
    statesAgree_step 15 3 states_15 <|
    statesAgree_step 18 3 states_18 <|
    statesAgree_step 21 3 states_21 <|
    statesAgree_step 24 3 states_24 <|
    statesAgree_step 27 3 states_27 <|
    statesAgree_step 30 3 states_30 <|
    statesAgree_step 33 3 states_33 <|
    statesAgree_step 36 3 states_36 <|
    statesAgree_step 39 3 states_39 <|
    statesAgree_step 42 3 states_42 <|
    statesAgree_step 45 3 states_45 <|
    statesAgree_step 48 3 states_48 <|
    statesAgree_step 51 3 states_51 <|
    statesAgree_step 54 3 states_54 <|
    statesAgree_step 57 3 states_57 <|
    statesAgree_step 60 3 states_60 <|
    statesAgree_step 63 3 states_63 <|
    statesAgree_step 66 3 states_66 <|
    statesAgree_step 69 3 states_69 <|
    statesAgree_done 72 states_count
  simp only [List.drop_zero] at hall
  simp only [tablesAgree, hall, ref_names_known, dyn_names, Bool.and_self]

/-- **C03_table_matches_reference.** For every state name `n` (of either table, or of none), every
value of the closing-quote register (`q = true`: `"`), on a last or a non-last chunk (`l`), and for
every input class `c` (`some b`: the byte `b` was consumed; `none`: the input is exhausted), the arm
that `dispatch` selects in the table generated from the Rust sources and the arm it selects in the
WHATWG reference table are the same: same look-ahead sequences tried first, same action calls with
the same `?` flags, same condition, same transition with the same target state name, same enter
actions, same break discipline. -/
theorem C03_table_matches_reference (n : String) (q l : Bool) (c : Option UInt8) :
    resolveByName G n q l c = resolveByName R n q l c :=
  tablesAgree_sound C03_tablesAgree n q l c

/-- `--> dyn next_text_parsing_state` selects like-named states for the six text types. -/
theorem C03_dyn_states_match : textStateNames G = textStateNames R :=
  tablesAgree_dyn C03_tablesAgree

/-- Same statement by state *number* of the generated table: state `s` of the code resolves like the
reference state carrying the same name. -/
theorem C03_table_matches_reference_idx (s : StateId) (sd : StateDef) (hs : G.states[s]? = some sd)
    (q l : Bool) (c : Option UInt8) :
    resolve G s q l c = resolveByName R sd.name q l c := by
  rw [← C03_table_matches_reference sd.name q l c]
  exact resolve_eq_resolveByName (t := G) (by decide +kernel) hs q l c

/-! ### Non-vacuity -/

/-- the arm F1 was about: `>` in "before attribute value" emits the tag and continues in the text
state chosen by the tree-builder feedback -/
example : (resolveByName G "before_attribute_value_state" true true (some 62)).body
    = .seq ⟨[⟨.finishAttr, false⟩, ⟨.emitTag, true⟩], .dyn⟩ := by decide +kernel

/-- a look-ahead state: `<!` followed by `D` tries `DOCTYPE` (case-insensitively) before the `_` arm -/
example : (resolveByName R "markup_declaration_open_state" true false (some 100)).seqArms
    = [⟨[68, 79, 67, 84, 89, 80, 69], true, .seq ⟨[], .goto "doctype_state"⟩⟩] := by decide +kernel

/-- the comparison is by name: the two tables number their states differently -/
example : nameOf G 2 = some "data_state" ∧ nameOf R 0 = some "data_state" ∧ nameOf R 2 = some "rawtext_state" := by
  decide +kernel

/-- exhausted input on a non-last chunk in a state with look-ahead arms: wait for more input -/
example : (resolveByName G "after_doctype_name_state" true false none).needMore = true := by decide +kernel

/-! ### Finding F1 (repaired by /repo commit 50aab3e): the pre-fix table is refuted

`before_attribute_value_state` as generated from `50aab3e~1` (the arm for `>` went `--> data_state`). -/

def preFix_before_attribute_value_state : StateDef :=
  { name := "before_attribute_value_state"
    enter := []
    memchr := none
    arms := [
      ⟨.whitespace, .seq ⟨[], none⟩⟩,
      ⟨.byte 34, .seq ⟨[⟨.setClosingQuoteToDouble, false⟩], some (.goto 38)⟩⟩,
      ⟨.byte 39, .seq ⟨[⟨.setClosingQuoteToSingle, false⟩], some (.goto 37)⟩⟩,
      ⟨.byte 62, .seq ⟨[⟨.finishAttr, false⟩, ⟨.emitTag, true⟩], some (.goto 2)⟩⟩,
      ⟨.eof, .seq ⟨[⟨.emitRawWithoutTokenAndEof, true⟩], none⟩⟩,
      ⟨.any, .seq ⟨[], some (.reconsume 39)⟩⟩
    ] }

/-- the pre-fix table: today's table with that one state put back -/
def preFixTable : Table := { G with states := G.states.set 36 preFix_before_attribute_value_state }

/-- On the pre-fix table the comparison fails at state `before_attribute_value_state` (and, by
`C03_tablesAgree`, nowhere else: all other states are today's) … -/
theorem C03_F1_prefix_table_differs :
    stateAgrees preFixTable R "before_attribute_value_state" = false := by decide +kernel

/-- … on the byte `>`: the code went to the data state where the reference continues with `dyn`. -/
theorem C03_F1_prefix_arm :
    (resolveByName preFixTable "before_attribute_value_state" true true (some 62)).body
      = .seq ⟨[⟨.finishAttr, false⟩, ⟨.emitTag, true⟩], .goto "data_state"⟩
    ∧ (resolveByName R "before_attribute_value_state" true true (some 62)).body
      = .seq ⟨[⟨.finishAttr, false⟩, ⟨.emitTag, true⟩], .dyn⟩ := by decide +kernel

end LolHtml.Thm.C03
