import LolHtml.Lemmas.StreamLocations
import LolHtml.Lemmas.LocationsOk
import LolHtml.Lemmas.StreamLocationsAll
import LolHtml.Lemmas.StreamIndep
import LolHtml.Lemmas.StreamTextContig
import LolHtml.Thm.C15_Core
import LolHtml.Lemmas.SpecAttrsWf
import LolHtml.Model.AttrsApi
import LolHtml.Thm.C01
/-!
# C14 — source locations

* `C14_src` — every token the dispatcher hands to the controller carries `src = previously_consumed + raw`
  and its raw bytes are exactly the bytes of the input slice in the lexeme's raw range; the length of
  `src` is the length of the raw bytes.
* `C14_offset` — `previously_consumed` after a `parse` is its value before plus the bytes consumed.
* `C14_ranges` — for every table whose sink-calling actions are written with `?` (`EmitsChecked`, checked on the generated
  table), every settings record, every history `write* ; end` (any chunking, errors included) and every controller
  that does not switch emission off (`NoRemoval`; handlers may rewrite tokens arbitrarily and may FAIL): the source
  ranges of the tokens handed to the controller, in the order they were handed over, are well-formed, ordered and
  pairwise disjoint — within a `write` and across `write`s; the closing (`last_in_text_node`) chunk of a text node is
  the empty range located exactly where the node's last chunk ended. (`C14_ranges_tame`: the same for EVERY table when
  the token callback never fails.)
* `C14_attr_locations` — for a start tag read by `Spec.Attrs` at `[i, j)`: the token built from the
  lexeme of `C16_outline` reports, for every attribute, name / value locations `base + outline` that
  are exactly the document ranges of the name / value bytes, lie strictly inside the tag's range, and
  are ordered and disjoint.
-/
namespace LolHtml.Thm.C14
open LolHtml LolHtml.Model LolHtml.Spec.Attrs LolHtml.Thm.C01

variable {γ : Type}

/-! ### `src = previously_consumed + raw` -/

/-- **C14_src.** -/
theorem C14_src (inp : Bytes) :
    (∀ (f f' : Flags) (lx : TagLexeme) (tok : Token), tagToToken f inp lx = some (f', some tok) →
      tok.src = ⟨lx.prevConsumed + lx.raw.start, lx.prevConsumed + lx.raw.end⟩ ∧
      tok.raw = slice inp lx.raw.start lx.raw.end ∧ lx.raw.start ≤ lx.raw.end ∧ lx.raw.end ≤ inp.length) ∧
    (∀ (f : Flags) (lx : NonTagLexeme) (tok : Token), nonTagToToken f inp lx = some (some tok) →
      tok.src = ⟨lx.prevConsumed + lx.raw.start, lx.prevConsumed + lx.raw.end⟩ ∧
      tok.raw = slice inp lx.raw.start lx.raw.end ∧ lx.raw.start ≤ lx.raw.end ∧ lx.raw.end ≤ inp.length) := by
  constructor
  · intro f f' lx tok h
    obtain ⟨h1, h2, h3⟩ := tagToToken_src h
    obtain ⟨_, _, h4⟩ := checkedSlice_some (tagToToken_raw h)
    exact ⟨h1, h4, h2, h3⟩
  · intro f lx tok h
    obtain ⟨h1, h2, h3⟩ := nonTagToToken_src h
    obtain ⟨_, _, h4⟩ := checkedSlice_some (nonTagToToken_raw h)
    exact ⟨h1, h4, h2, h3⟩

/-- the source range is as long as the raw bytes -/
theorem C14_src_length (inp : Bytes) (f f' : Flags) (lx : TagLexeme) (tok : Token)
    (h : tagToToken f inp lx = some (f', some tok)) : tok.src.end - tok.src.start = tok.raw.length := by
  obtain ⟨h1, h2, h3, h4⟩ := (C14_src inp).1 f f' lx tok h
  rw [h1, h2]
  simp only [slice, List.length_drop, List.length_take]
  omega

/-- **C14_offset.** What locates the next slice: the byte count grows by what `parse` consumed. -/
theorem C14_offset (w : World γ) (log : γ → List Token) (hlog : Logging w.ctl log) (htame : Tame w.ctl)
    (inp : Bytes) (last : Bool) (p : Parser (Disp γ)) (h : LInv log p.x.prevConsumed p.x.sink) :
    (Parser.parse w.env inp last p).1.x.prevConsumed =
      p.x.prevConsumed + (match (Parser.parse w.env inp last p).2 with | .ok c => c | .error _ => 0) :=
  (Parser.parse_at (env := w.env) (P := LInv log p.x.prevConsumed) (dispOps_LInv hlog htame) last p ⟨rfl, h⟩).2

/-! ### ordered and disjoint, within and across writes -/

/-- invariant of the public object -/
def RInv (log : γ → List Token) (r : Rewriter γ) : Prop :=
  Ordered (log r.stream.disp.ctl) ∧ (r.poisoned = false → r.stream.LocInv log)

theorem new_RInv (w : World γ) (log : γ → List Token) (g : γ) (cfg : Settings) (hg : log g = []) :
    RInv log (Rewriter.new w g cfg) := by
  have ho : Ordered (log g) := by rw [hg]; exact ⟨by simp, List.Pairwise.nil⟩
  refine ⟨ho, fun _ => ⟨⟨ho, ?_, ?_, rfl⟩, rfl⟩⟩
  · intro a ha
    simp only [Rewriter.new, Stream.new, Stream.disp, Parser.new, Disp.new] at ha
    rw [hg] at ha; simp at ha
  · intro hp
    simp [Rewriter.new, Stream.new, Stream.disp, Parser.new, Disp.new] at hp

theorem write_RInv {w : World γ} {log : γ → List Token} (hlog : Logging w.ctl log) (htame : Tame w.ctl)
    (r : Rewriter γ) (data : Bytes) (h : RInv log r) : RInv log (r.write w data).1 := by
  unfold Model.Rewriter.write
  split
  · exact h
  · rename_i hp
    have hp' : r.poisoned = false := by simpa using hp
    obtain ⟨ho, hok⟩ := Stream.write_LocInv hlog htame r.stream data (h.2 hp')
    dsimp only
    split
    · rename_i hres
      exact ⟨ho, fun _ => hok hres⟩
    · exact ⟨ho, fun hc => by simp at hc⟩

theorem writeAll_RInv {w : World γ} {log : γ → List Token} (hlog : Logging w.ctl log) (htame : Tame w.ctl)
    (chunks : List Bytes) (r : Rewriter γ) (h : RInv log r) : RInv log (writeAll w r chunks).1 := by
  induction chunks generalizing r with
  | nil => exact h
  | cons c cs ih => exact ih _ (write_RInv hlog htame r c h)

/-- C14_ranges for EVERY table, under the additional assumption that the token callback never fails (`Tame`). -/
theorem C14_ranges_tame (w : World γ) (log : γ → List Token) (hlog : Logging w.ctl log) (htame : Tame w.ctl)
    (g : γ) (hg : log g = []) (cfg : Settings) (chunks : List Bytes) :
    Ordered (log (run w (Rewriter.new w g cfg) chunks).1.stream.disp.ctl) := by
  unfold run
  have h := writeAll_RInv hlog htame chunks _ (new_RInv w log g cfg hg)
  dsimp only
  unfold Model.Rewriter.end
  split
  · exact h.1
  · rename_i hp
    have hp' : (writeAll w (Rewriter.new w g cfg) chunks).1.poisoned = false := by simpa using hp
    have := Stream.end_ordered hlog htame _ (h.2 hp')
    dsimp only
    split <;> exact this

/-- ... and after every prefix of the writes (so also when a later call fails) -/
theorem C14_ranges_prefix_tame (w : World γ) (log : γ → List Token) (hlog : Logging w.ctl log) (htame : Tame w.ctl)
    (g : γ) (hg : log g = []) (cfg : Settings) (chunks : List Bytes) :
    Ordered (log (writeAll w (Rewriter.new w g cfg) chunks).1.stream.disp.ctl) :=
  (writeAll_RInv hlog htame chunks _ (new_RInv w log g cfg hg)).1

/-! ### … for handlers that may fail -/

/-- **Side-condition on the current code**: every sink-calling action of the generated table is written with `?`
(so that a failing sink call stops the action list). `emitsCheckedWitness` names the offending arms. -/
theorem emitsChecked_gen : EmitsChecked Gen.Syntax.table = true := by decide +kernel

theorem emitsCheckedWitness_gen : emitsCheckedWitness Gen.Syntax.table = [] := by decide +kernel

theorem write_RInv_ok {w : World γ} {log : γ → List Token} (hlog : Logging w.ctl log) (hnr : NoRemoval w.ctl)
    (ht : EmitsChecked w.tbl = true) (r : Rewriter γ) (data : Bytes) (h : RInv log r) : RInv log (r.write w data).1 := by
  unfold Model.Rewriter.write
  split
  · exact h
  · rename_i hp
    have hp' : r.poisoned = false := by simpa using hp
    obtain ⟨ho, hok⟩ := Stream.write_LocInv_ok hlog hnr ht r.stream data (h.2 hp')
    dsimp only
    split
    · rename_i hres
      exact ⟨ho, fun _ => hok hres⟩
    · exact ⟨ho, fun hc => by simp at hc⟩

theorem writeAll_RInv_ok {w : World γ} {log : γ → List Token} (hlog : Logging w.ctl log) (hnr : NoRemoval w.ctl)
    (ht : EmitsChecked w.tbl = true) (chunks : List Bytes) (r : Rewriter γ) (h : RInv log r) :
    RInv log (writeAll w r chunks).1 := by
  induction chunks generalizing r with
  | nil => exact h
  | cons c cs ih => exact ih _ (write_RInv_ok hlog hnr ht r c h)

/-- **C14_ranges.** For every table whose sink-calling actions are written with `?` (`EmitsChecked`, true of the
generated table), every tag configuration, settings record, history `write* ; end` (any chunking, failing calls
included) and EVERY controller that does not switch emission off — handlers may rewrite tokens arbitrarily and may
fail at any point —: the source ranges of the tokens handed to the controller, in the order they were handed over, are
well-formed, ordered and pairwise disjoint, within a `write` and across `write`s. -/
theorem C14_ranges (w : World γ) (log : γ → List Token) (hlog : Logging w.ctl log) (hnr : NoRemoval w.ctl)
    (ht : EmitsChecked w.tbl = true) (g : γ) (hg : log g = []) (cfg : Settings) (chunks : List Bytes) :
    Ordered (log (run w (Rewriter.new w g cfg) chunks).1.stream.disp.ctl) := by
  unfold run
  have h := writeAll_RInv_ok hlog hnr ht chunks _ (new_RInv w log g cfg hg)
  dsimp only
  unfold Model.Rewriter.end
  split
  · exact h.1
  · rename_i hp
    have hp' : (writeAll w (Rewriter.new w g cfg) chunks).1.poisoned = false := by simpa using hp
    have := Stream.end_ordered_ok hlog hnr ht _ (h.2 hp')
    dsimp only
    split <;> exact this

theorem C14_ranges_prefix (w : World γ) (log : γ → List Token) (hlog : Logging w.ctl log) (hnr : NoRemoval w.ctl)
    (ht : EmitsChecked w.tbl = true) (g : γ) (hg : log g = []) (cfg : Settings) (chunks : List Bytes) :
    Ordered (log (writeAll w (Rewriter.new w g cfg) chunks).1.stream.disp.ctl) :=
  (writeAll_RInv_ok hlog hnr ht chunks _ (new_RInv w log g cfg hg)).1

/-! ### … for EVERY controller (element content removal included), with package `inv`'s register invariants -/

/-- invariant of the public object, with `inv`'s stream invariant -/
def RInv2 (w : World γ) (log : γ → List Token) (r : Rewriter γ) : Prop :=
  Ordered (log r.stream.disp.ctl) ∧ (r.poisoned = false → r.stream.LocInv2 w log)

theorem new_RInv2 (w : World γ) (hw : Wf w.tbl) (log : γ → List Token) (g : γ) (cfg : Settings) (hg : log g = []) :
    RInv2 w log (Rewriter.new w g cfg) := by
  have ho : Ordered (log g) := by rw [hg]; exact ⟨by simp, List.Pairwise.nil⟩
  refine ⟨ho, fun _ => ⟨Stream.new_SInv hw g cfg, ho, ?_, ?_⟩⟩
  · intro a ha
    simp only [Rewriter.new, Stream.new, Stream.disp, Parser.new, Disp.new] at ha
    rw [hg] at ha; simp at ha
  · intro hp
    simp [Rewriter.new, Stream.new, Stream.disp, Parser.new, Disp.new] at hp

theorem write_RInv2 {w : World γ} {log : γ → List Token} (hlog : Logging w.ctl log) (hc : CtlClean w.ctl)
    (hw : Wf w.tbl) (ht : EmitsChecked w.tbl = true) (r : Rewriter γ) (data : Bytes) (h : RInv2 w log r) :
    RInv2 w log (r.write w data).1 := by
  unfold Model.Rewriter.write
  split
  · exact h
  · rename_i hp
    have hp' : r.poisoned = false := by simpa using hp
    obtain ⟨ho, hok⟩ := Stream.write_LocInv2 hlog hc hw ht r.stream data (h.2 hp')
    dsimp only
    split
    · rename_i hres
      exact ⟨ho, fun _ => hok hres⟩
    · exact ⟨ho, fun hcc => by simp at hcc⟩

theorem writeAll_RInv2 {w : World γ} {log : γ → List Token} (hlog : Logging w.ctl log) (hc : CtlClean w.ctl)
    (hw : Wf w.tbl) (ht : EmitsChecked w.tbl = true) (chunks : List Bytes) (r : Rewriter γ) (h : RInv2 w log r) :
    RInv2 w log (writeAll w r chunks).1 := by
  induction chunks generalizing r with
  | nil => exact h
  | cons c cs ih => exact ih _ (write_RInv2 hlog hc hw ht r c h)

/-- **C14_ranges_all_controllers.** For every table satisfying the decidable side-conditions `WfTable` (package `inv`)
and `EmitsChecked`, every tag configuration, settings record, history `write* ; end` (any chunking, failing calls
included) and EVERY controller — handlers may rewrite tokens, remove element content (switch emission off and on
again) and fail at any point; the only assumption, `CtlClean`, is that an error returned by a handler is a handler-class
error and not one of the model's markers for a Rust panic —: the source ranges of the tokens handed to the controller,
in the order they were handed over, are well-formed, ordered and pairwise disjoint, within a `write` and across
`write`s. (`Disp.resumeEmission` re-positions `remaining_content_start` at the end tag of a removed element without a
bounds check; it never moves backwards because `remaining_content_start ≤ lexeme_start`, `inv`'s register invariant.) -/
theorem C14_ranges_all_controllers (w : World γ) (log : γ → List Token) (hlog : Logging w.ctl log) (hc : CtlClean w.ctl)
    (hwf : WfTable w.tbl = true) (ht : EmitsChecked w.tbl = true) (g : γ) (hg : log g = []) (cfg : Settings)
    (chunks : List Bytes) :
    Ordered (log (run w (Rewriter.new w g cfg) chunks).1.stream.disp.ctl) := by
  have hw := WfTable.wf hwf
  unfold run
  have h := writeAll_RInv2 hlog hc hw ht chunks _ (new_RInv2 w hw log g cfg hg)
  dsimp only
  unfold Model.Rewriter.end
  split
  · exact h.1
  · rename_i hp
    have hp' : (writeAll w (Rewriter.new w g cfg) chunks).1.poisoned = false := by simpa using hp
    have := Stream.end_ordered2 hlog hc hw ht _ (h.2 hp')
    dsimp only
    split <;> exact this

theorem C14_ranges_all_controllers_prefix (w : World γ) (log : γ → List Token) (hlog : Logging w.ctl log)
    (hc : CtlClean w.ctl) (hwf : WfTable w.tbl = true) (ht : EmitsChecked w.tbl = true) (g : γ) (hg : log g = [])
    (cfg : Settings) (chunks : List Bytes) :
    Ordered (log (writeAll w (Rewriter.new w g cfg) chunks).1.stream.disp.ctl) :=
  (writeAll_RInv2 hlog hc (WfTable.wf hwf) ht chunks _ (new_RInv2 w (WfTable.wf hwf) log g cfg hg)).1

/-- what `Ordered` says, spelled out: any two tokens, the earlier one ends before the later one starts -/
theorem Ordered.disjoint {l : List Token} (h : Ordered l) (i j : Nat) (hij : i < j) (hj : j < l.length) :
    l[i].src.start ≤ l[i].src.end ∧ l[i].src.end ≤ l[j].src.start ∧ l[j].src.start ≤ l[j].src.end := by
  refine ⟨h.1 _ (List.getElem_mem _), ?_, h.1 _ (List.getElem_mem _)⟩
  exact List.pairwise_iff_getElem.mp h.2 i j (by omega) hj hij

/-- the closing chunk of a text node (`flush_pending`): empty, `last_in_text_node`, located at the end
of the node's last chunk -/
theorem C14_text_close (ctl : Controller γ) (d : Disp γ) (h : d.textPending = true) :
    d.flushPendingText ctl = Disp.tokenProduced ctl { d with textPending := false }
      (.text [] d.lastTextType true ⟨d.textPendingStart, d.textPendingStart⟩) := by
  unfold Disp.flushPendingText; rw [if_pos h]

/-- every text chunk leaves the node open at its own end: the next chunk of the node, or the closing
chunk, cannot start before it (`LInv.pending`) and the closing chunk starts exactly there -/
theorem C14_text_chunk_end (ctl : Controller γ) (d : Disp γ) (inp : Bytes) (lx : NonTagLexeme) (tt : TextType)
    (hok : (d.produceText ctl inp lx tt).2 = .ok ()) :
    (d.produceText ctl inp lx tt).1.textPending = true ∧
    (d.produceText ctl inp lx tt).1.textPendingStart = lx.prevConsumed + lx.raw.end := by
  unfold Disp.produceText at hok ⊢
  split
  · rename_i h; simp [h] at hok
  · rename_i rawb hraw
    simp only [hraw] at hok
    cases he : d.emitChunkBefore inp lx.raw with
    | error e => simp [he, DRes.ofExcept, DRes.bind] at hok
    | ok d1 =>
      simp only [he, DRes.ofExcept, DRes.bind] at hok ⊢
      split
      · rename_i h; simp [h] at hok
      · exact ⟨rfl, rfl⟩

/-- Full contiguity of the chunks of one text node — every chunk starts where the previous one ended —
needs in addition that consecutive text lexemes are adjacent (`lexeme_start` of the next is `raw.end`
of the previous, across `adjust_for_next_input` too): a lexer register invariant (package `inv`), not a
property of the dispatcher. -/
def C14_text_contiguous_statement (log : γ → List Token) (w : World γ) (g : γ) (cfg : Settings) : Prop :=
  ∀ chunks : List Bytes,
    let l := log (run w (Rewriter.new w g cfg) chunks).1.stream.disp.ctl
    ∀ i, (h : i + 1 < l.length) →
      (match l[i], l[i + 1] with
       | .text _ _ false s1, .text _ _ _ s2 => s1.end = s2.start
       | _, _ => True)

/-- the rewriter between calls, for text contiguity -/
def RT (log : γ → List Token) (r : Rewriter γ) : Prop :=
  Good (log r.stream.disp.ctl) ∧ (r.poisoned = false → r.stream.TxtInv log)

theorem new_RT (w : World γ) (log : γ → List Token) (g : γ) (cfg : Settings) (hg : log g = []) :
    RT log (Rewriter.new w g cfg) := by
  have ho : Good (log g) := by rw [hg]; exact ⟨trivial, by simp⟩
  have hT : TextInv log (Rewriter.new w g cfg).stream.disp := by
    refine ⟨ho, ?_, ?_⟩
    · intro hp; simp [Rewriter.new, Stream.new, Stream.disp, Parser.new, Disp.new] at hp
    · intro _ a ha
      simp only [Rewriter.new, Stream.new, Stream.disp, Parser.new, Disp.new] at ha
      rw [hg] at ha; simp at ha
  refine ⟨ho, fun _ => ⟨hT, ?_⟩⟩
  have hnp : (Rewriter.new w g cfg).stream.disp.textPending = false := rfl
  cases hl : (Rewriter.new w g cfg).stream.parser.ls with
  | none => exact hnp
  | some l => exact notPending_adj hnp

theorem write_RT {w : World γ} {log : γ → List Token} (hlog : Logging w.ctl log) (ht : EmitsChecked w.tbl = true)
    (r : Rewriter γ) (data : Bytes) (h : RT log r) : RT log (r.write w data).1 := by
  unfold Model.Rewriter.write
  split
  · exact h
  · rename_i hp
    have hp' : r.poisoned = false := by simpa using hp
    obtain ⟨ho, hok⟩ := Stream.write_TxtInv hlog ht r.stream data (h.2 hp')
    dsimp only
    split
    · rename_i hres
      exact ⟨ho, fun _ => hok hres⟩
    · exact ⟨ho, fun hcc => by simp at hcc⟩

theorem writeAll_RT {w : World γ} {log : γ → List Token} (hlog : Logging w.ctl log) (ht : EmitsChecked w.tbl = true)
    (chunks : List Bytes) (r : Rewriter γ) (h : RT log r) : RT log (writeAll w r chunks).1 := by
  induction chunks generalizing r with
  | nil => exact h
  | cons c cs ih => exact ih _ (write_RT hlog ht r c h)

/-- **C14_text_contiguous** (dispatcher level: one chunk per text lexeme, plus the closing empty chunk). For every
table with `EmitsChecked`, every tag configuration, settings record, EVERY controller (no restriction at all: handlers
may rewrite, remove content, fail, even return the model's panic markers) and every history `write* ; end` (any
chunking, failing calls included), the list of tokens handed to the controller is `Good`:
* after a text chunk that is not `last_in_text_node`, the next token is again a text chunk and starts exactly where
  that one ended (the next chunk of the node, or the empty closing chunk) — within a `write` and across `write`s;
* the source range of every text chunk is exactly as long as the chunk's bytes.
Hence the chunks of one text node tile one interval of the source, without gaps or overlaps (`C14_text_node_layout`). -/
theorem C14_text_contiguous (w : World γ) (log : γ → List Token) (hlog : Logging w.ctl log)
    (ht : EmitsChecked w.tbl = true) (g : γ) (hg : log g = []) (cfg : Settings) (chunks : List Bytes) :
    Good (log (run w (Rewriter.new w g cfg) chunks).1.stream.disp.ctl) := by
  unfold run
  have h := writeAll_RT hlog ht chunks _ (new_RT w log g cfg hg)
  dsimp only
  unfold Model.Rewriter.end
  split
  · exact h.1
  · rename_i hp
    have hp' : (writeAll w (Rewriter.new w g cfg) chunks).1.poisoned = false := by simpa using hp
    have := Stream.end_good hlog ht _ (h.2 hp')
    dsimp only
    split <;> exact this

/-- … and after any prefix of the history (no `end`) -/
theorem C14_text_contiguous_prefix (w : World γ) (log : γ → List Token) (hlog : Logging w.ctl log)
    (ht : EmitsChecked w.tbl = true) (g : γ) (hg : log g = []) (cfg : Settings) (chunks : List Bytes) :
    Good (log (writeAll w (Rewriter.new w g cfg) chunks).1.stream.disp.ctl) :=
  (writeAll_RT hlog ht chunks _ (new_RT w log g cfg hg)).1

/-- the statement announced earlier, now proved (for logging controllers started with an empty log) -/
theorem C14_text_contiguous_proved (w : World γ) (log : γ → List Token) (hlog : Logging w.ctl log)
    (ht : EmitsChecked w.tbl = true) (g : γ) (hg : log g = []) (cfg : Settings) :
    C14_text_contiguous_statement log w g cfg := by
  intro chunks l i hi
  have hl := (C14_text_contiguous w log hlog ht g hg cfg chunks).1.get i hi
  change Link l[i] l[i + 1] at hl
  generalize l[i] = a at hl ⊢
  generalize l[i + 1] = b at hl ⊢
  unfold Link at hl
  split
  · rename_i s1 _ _ s2
    simp only at hl
    exact hl.symm
  · trivial

/-- **C14_text_node_layout.** In a `Good` list, let `l[i], …, l[i+n-1]` be non-last text chunks. Then `l[i+n]` starts
where their bytes, laid end to end from `l[i]`'s start, stop; and (for `n > 0`) it is a text chunk. So the lexeme-level
pieces of a text node are exactly the `(start, parts)` layout that package `enc`'s `textNode` assumes. -/
theorem C14_text_node_layout {l : List Token} (h : Good l) (i : Nat) : ∀ (n : Nat) (hn : i + n < l.length),
    (∀ k (hk : k < n), OpenText (l[i + k]'(by omega))) →
    (l[i + n]).src.start = (l[i]'(by omega)).src.start + (((l.drop i).take n).map Token.raw).flatten.length ∧
    (0 < n → ∃ b tt last s, l[i + n] = .text b tt last s) := by
  intro n
  induction n with
  | zero => intro hn _; exact ⟨by simp, fun h0 => absurd h0 (by omega)⟩
  | succ n ih =>
    intro hn hopen
    obtain ⟨ih1, _⟩ := ih (by omega) (fun k hk => hopen k (by omega))
    obtain ⟨b, tt, s, hb⟩ := hopen n (by omega)
    have hlink := h.1.get (i + n) (by omega)
    have hlen := h.2 _ (List.getElem_mem (h := (by omega : i + n < l.length)))
    rw [hb] at hlink hlen
    have htk : ((l.drop i).take (n + 1)).map Token.raw = ((l.drop i).take n).map Token.raw ++ [b] := by
      have hlt : n < (l.drop i).length := by simp only [List.length_drop]; omega
      rw [List.take_succ_eq_append_getElem hlt, List.map_append]
      simp only [List.getElem_drop, List.map_cons, List.map_nil, hb, Token.raw]
    rw [htk]
    simp only [List.flatten_append, List.length_append, List.flatten_cons, List.flatten_nil, List.append_nil]
    unfold Link at hlink
    simp only [TextLen] at hlen
    have hidx : l[i + (n + 1)] = l[i + n + 1] := by congr 1
    rw [hidx]
    rw [hb] at ih1
    simp only [Token.src] at ih1
    generalize l[i + n + 1] = t at hlink ⊢
    cases t with
    | text b2 tt2 last2 s2 =>
      simp only at hlink
      refine ⟨?_, fun _ => ⟨b2, tt2, last2, s2, rfl⟩⟩
      simp only [Token.src]
      omega
    | _ => simp at hlink

/-! ### a logging wrapper: the hypotheses are satisfiable by any observing controller -/

/-- record every token handed to `ctl` -/
def withLog (ctl : Controller γ) : Controller (γ × List Token) :=
  { initialFlags := fun g => ctl.initialFlags g.1
    startTag := fun g n ns => (((ctl.startTag g.1 n ns).1, g.2), (ctl.startTag g.1 n ns).2)
    auxInfo := fun g i => (((ctl.auxInfo g.1 i).1, g.2), (ctl.auxInfo g.1 i).2)
    endTag := fun g n => (((ctl.endTag g.1 n).1, g.2), (ctl.endTag g.1 n).2)
    token := fun g t => (((ctl.token g.1 t).1, g.2 ++ [t]), (ctl.token g.1 t).2)
    shouldEmit := fun g => ctl.shouldEmit g.1
    handleEnd := fun g => (((ctl.handleEnd g.1).1, g.2), (ctl.handleEnd g.1).2)
    bailOut := fun g e => (((ctl.bailOut g.1 e).1, g.2), (ctl.bailOut g.1 e).2) }

theorem withLog_logging (ctl : Controller γ) : Logging (withLog ctl) (·.2) where
  token := fun _ _ => rfl
  startTag := fun _ _ _ => rfl
  auxInfo := fun _ _ => rfl
  endTag := fun _ _ => rfl
  handleEnd := fun _ => rfl
  bailOut := fun _ _ => rfl

theorem withLog_tame (ctl : Controller γ) (h : Tame ctl) : Tame (withLog ctl) where
  shouldEmit := fun g => h.shouldEmit g.1
  tokenOk := fun g t => h.tokenOk g.1 t

theorem constCtl_tame (f : Nat) : Tame (constCtl f) where
  shouldEmit := fun _ => rfl
  tokenOk := fun _ _ => rfl

/-- C14_ranges on the generated table, all capture-flag settings -/
theorem C14_ranges_tame_gen (f : Nat) (cfg : Settings) (chunks : List Bytes) :
    Ordered (run ⟨Gen.Syntax.table, Gen.Tags.cfg, withLog (constCtl f)⟩
      (Rewriter.new ⟨Gen.Syntax.table, Gen.Tags.cfg, withLog (constCtl f)⟩ ((), []) cfg) chunks).1.stream.disp.ctl.2 :=
  C14_ranges_tame ⟨Gen.Syntax.table, Gen.Tags.cfg, withLog (constCtl f)⟩ (·.2) (withLog_logging _)
    (withLog_tame _ (constCtl_tame f)) ((), []) rfl cfg chunks

/-- non-vacuity: `<div a=b>x<!--c--></div>` in three writes, everything captured: 7 tokens
(start tag, text chunk, closing text chunk, comment, end tag …) with these absolute ranges -/
example : ((run ⟨Gen.Syntax.table, Gen.Tags.cfg, withLog (constCtl 31)⟩
      (Rewriter.new ⟨Gen.Syntax.table, Gen.Tags.cfg, withLog (constCtl 31)⟩ ((), []) {}) sampleChunks).1.stream.disp.ctl.2.map
        fun t => (t.src.start, t.src.end))
    = [(0, 9), (9, 10), (10, 10), (10, 18), (18, 24)] := by decide +kernel

/-- a controller whose handler fails on every comment (after having been handed the token) -/
def failOnComment : Controller Unit :=
  { constCtl 31 with
    token := fun _ t => ((), match t with
      | .comment .. => { chunks := [], err := some .handler }
      | t => { chunks := [t.raw] }) }

theorem failOnComment_noRemoval : NoRemoval (withLog failOnComment) := fun _ => rfl

/-- C14_ranges on the generated table for that failing controller -/
theorem C14_ranges_gen (cfg : Settings) (chunks : List Bytes) :
    Ordered (run ⟨Gen.Syntax.table, Gen.Tags.cfg, withLog failOnComment⟩
      (Rewriter.new ⟨Gen.Syntax.table, Gen.Tags.cfg, withLog failOnComment⟩ ((), []) cfg) chunks).1.stream.disp.ctl.2 :=
  C14_ranges ⟨Gen.Syntax.table, Gen.Tags.cfg, withLog failOnComment⟩ (·.2) (withLog_logging _)
    failOnComment_noRemoval emitsChecked_gen ((), []) rfl cfg chunks

/-- non-vacuity: the same three writes; the third one fails at the comment (which was handed over), `end` is then refused -/
example : (run ⟨Gen.Syntax.table, Gen.Tags.cfg, withLog failOnComment⟩
      (Rewriter.new ⟨Gen.Syntax.table, Gen.Tags.cfg, withLog failOnComment⟩ ((), []) {}) sampleChunks).2
    = [.ok, .ok, .err .handler, .panicUseAfterError] := by decide +kernel
example : ((run ⟨Gen.Syntax.table, Gen.Tags.cfg, withLog failOnComment⟩
      (Rewriter.new ⟨Gen.Syntax.table, Gen.Tags.cfg, withLog failOnComment⟩ ((), []) {}) sampleChunks).1.stream.disp.ctl.2.map
        fun t => (t.src.start, t.src.end))
    = [(0, 9), (9, 10), (10, 10), (10, 18)] := by decide +kernel

/-- a controller that removes the content of every element (emission off from each start tag to the matching …
next end tag), captures everything and fails on nothing -/
def removeAll : Controller Bool :=
  { initialFlags := fun _ => Flags.ofNat 31
    startTag := fun _ _ _ => (false, .flags (Flags.ofNat 31))
    auxInfo := fun g _ => (g, .ok (Flags.ofNat 31))
    endTag := fun _ _ => (true, Flags.ofNat 31)
    token := fun g t => (g, { chunks := [t.raw] })
    shouldEmit := fun g => g
    handleEnd := fun g => (g, [], none)
    bailOut := fun g _ => (g, []) }

theorem withLog_clean (ctl : Controller γ) (h : CtlClean ctl) : CtlClean (withLog ctl) where
  token := fun g t e he => h.token g.1 t e he
  startTag := fun g n ns e he => h.startTag g.1 n ns e he
  auxInfo := fun g i e he => h.auxInfo g.1 i e he
  handleEnd := fun g e he => h.handleEnd g.1 e he

theorem removeAll_clean : CtlClean removeAll where
  token := by intro g t e he; simp [removeAll] at he
  startTag := by intro g n ns e he; simp [removeAll] at he
  auxInfo := by intro g i e he; simp [removeAll] at he
  handleEnd := by intro g e he; simp [removeAll] at he

/-- C14_ranges_all_controllers on the generated table for the content-removing controller -/
theorem C14_ranges_all_controllers_gen (cfg : Settings) (chunks : List Bytes) :
    Ordered (run ⟨Gen.Syntax.table, Gen.Tags.cfg, withLog removeAll⟩
      (Rewriter.new ⟨Gen.Syntax.table, Gen.Tags.cfg, withLog removeAll⟩ (true, []) cfg) chunks).1.stream.disp.ctl.2 :=
  C14_ranges_all_controllers ⟨Gen.Syntax.table, Gen.Tags.cfg, withLog removeAll⟩ (·.2) (withLog_logging _)
    (withLog_clean _ removeAll_clean) LolHtml.Thm.C15.C15_gen emitsChecked_gen (true, []) rfl cfg chunks

/-- non-vacuity: emission really is switched off and on (the sink receives only `<div a=b>` … `</div>`), all
calls succeed, and the five tokens are handed over with the same ranges as before -/
example : (run ⟨Gen.Syntax.table, Gen.Tags.cfg, withLog removeAll⟩
      (Rewriter.new ⟨Gen.Syntax.table, Gen.Tags.cfg, withLog removeAll⟩ (true, []) {}) sampleChunks).2
    = [.ok, .ok, .ok, .ok] := by decide +kernel
example : ((run ⟨Gen.Syntax.table, Gen.Tags.cfg, withLog removeAll⟩
      (Rewriter.new ⟨Gen.Syntax.table, Gen.Tags.cfg, withLog removeAll⟩ (true, []) {}) sampleChunks).1.stream.disp.ctl.2.map
        fun t => (t.src.start, t.src.end))
    = [(0, 9), (9, 10), (10, 10), (10, 18), (18, 24)] := by decide +kernel
example : sinkBytes (run ⟨Gen.Syntax.table, Gen.Tags.cfg, withLog removeAll⟩
      (Rewriter.new ⟨Gen.Syntax.table, Gen.Tags.cfg, withLog removeAll⟩ (true, []) {}) sampleChunks).1.sink
    = [60,100,105,118,32,97,61,98,62, 60,47,100,105,118,62] := by decide +kernel

/-! ### independence of rewrites -/

/-- related rewriters: the same state except for the sink log -/
def RR (r₁ r₂ : Rewriter γ) : Prop := SR r₁.stream r₂.stream ∧ r₁.poisoned = r₂.poisoned ∧ r₁.ended = r₂.ended

theorem new_RR (w : World γ) (ch : γ → Token → List Bytes) (he : γ → List Bytes) (bo : γ → Err → List Bytes)
    (g : γ) (cfg : Settings) : RR (Rewriter.new (w.rechunk ch he bo) g cfg) (Rewriter.new w g cfg) :=
  ⟨⟨⟨rfl, rfl, rfl, rfl, rfl, rfl, rfl, rfl⟩, rfl, rfl, rfl, rfl⟩, rfl, rfl⟩

theorem write_RR {w : World γ} {ch : γ → Token → List Bytes} {he : γ → List Bytes} {bo : γ → Err → List Bytes}
    (ht : EmitsChecked w.tbl = true) {r₁ r₂ : Rewriter γ} (data : Bytes) (h : RR r₁ r₂) :
    RR (r₁.write (w.rechunk ch he bo) data).1 (r₂.write w data).1 ∧
    (r₁.write (w.rechunk ch he bo) data).2 = (r₂.write w data).2 := by
  obtain ⟨hs, hp, he'⟩ := h
  unfold Model.Rewriter.write
  rw [hp]
  split
  · exact ⟨⟨hs, hp, he'⟩, rfl⟩
  · obtain ⟨a, b⟩ := write_rel (w := w) (ch := ch) (he := he) (bo := bo) ht data hs
    simp only
    rw [b]
    cases (r₂.stream.write w data).2 with
    | ok u => exact ⟨⟨a, rfl, he'⟩, rfl⟩
    | error e => exact ⟨⟨a, rfl, he'⟩, rfl⟩

theorem end_RR {w : World γ} {ch : γ → Token → List Bytes} {he : γ → List Bytes} {bo : γ → Err → List Bytes}
    (ht : EmitsChecked w.tbl = true) {r₁ r₂ : Rewriter γ} (h : RR r₁ r₂) :
    RR (r₁.end (w.rechunk ch he bo)).1 (r₂.end w).1 ∧ (r₁.end (w.rechunk ch he bo)).2 = (r₂.end w).2 := by
  obtain ⟨hs, hp, he'⟩ := h
  unfold Model.Rewriter.end
  rw [hp]
  split
  · exact ⟨⟨hs, hp, he'⟩, rfl⟩
  · obtain ⟨a, b⟩ := end_rel (w := w) (ch := ch) (he := he) (bo := bo) ht hs
    simp only
    rw [b]
    cases (r₂.stream.end w).2 with
    | ok u => exact ⟨⟨a, rfl, rfl⟩, rfl⟩
    | error e => exact ⟨⟨a, rfl, rfl⟩, rfl⟩

theorem writeAll_RR {w : World γ} {ch : γ → Token → List Bytes} {he : γ → List Bytes} {bo : γ → Err → List Bytes}
    (ht : EmitsChecked w.tbl = true) (chunks : List Bytes) {r₁ r₂ : Rewriter γ} (h : RR r₁ r₂) :
    RR (writeAll (w.rechunk ch he bo) r₁ chunks).1 (writeAll w r₂ chunks).1 ∧
    (writeAll (w.rechunk ch he bo) r₁ chunks).2 = (writeAll w r₂ chunks).2 := by
  induction chunks generalizing r₁ r₂ with
  | nil => exact ⟨h, rfl⟩
  | cons c cs ih =>
    obtain ⟨a, b⟩ := write_RR (w := w) (ch := ch) (he := he) (bo := bo) ht c h
    obtain ⟨a', b'⟩ := ih a
    simp only [writeAll]
    exact ⟨a', by rw [b, b']⟩

/-- **C14_independent_of_rewrites.** What handlers WRITE has no influence on what they are HANDED. Replace, in any
controller, the bytes every token handler writes (`ch`), the end-of-document content (`he`) and the bail-out content
(`bo`) by arbitrary other bytes, keeping the handlers' decisions (state, capture flags, errors, encoding switch): on
every history `write* ; end`, every call returns the same result and the controller ends in the same state — so it was
handed the same tokens, each with the same source range: ranges are computed from input offsets only (`C14_src`),
never from the output. (The two runs differ in the sink log alone: `DR`.) -/
theorem C14_independent_of_rewrites (w : World γ) (ht : EmitsChecked w.tbl = true)
    (ch : γ → Token → List Bytes) (he : γ → List Bytes) (bo : γ → Err → List Bytes) (g : γ) (cfg : Settings)
    (chunks : List Bytes) :
    (run (w.rechunk ch he bo) (Rewriter.new (w.rechunk ch he bo) g cfg) chunks).2 = (run w (Rewriter.new w g cfg) chunks).2 ∧
    DR (run (w.rechunk ch he bo) (Rewriter.new (w.rechunk ch he bo) g cfg) chunks).1.stream.disp
       (run w (Rewriter.new w g cfg) chunks).1.stream.disp := by
  unfold run
  obtain ⟨a, b⟩ := writeAll_RR (w := w) (ch := ch) (he := he) (bo := bo) ht chunks (new_RR w ch he bo g cfg)
  obtain ⟨a', b'⟩ := end_RR (w := w) (ch := ch) (he := he) (bo := bo) ht a
  exact ⟨by simp only; rw [b, b'], a'.1.disp⟩

/-- … in particular the same controller state, hence (for a logging controller) the same list of tokens -/
theorem C14_same_tokens (w : World γ) (ht : EmitsChecked w.tbl = true) (log : γ → List Token)
    (ch : γ → Token → List Bytes) (he : γ → List Bytes) (bo : γ → Err → List Bytes) (g : γ) (cfg : Settings)
    (chunks : List Bytes) :
    log (run (w.rechunk ch he bo) (Rewriter.new (w.rechunk ch he bo) g cfg) chunks).1.stream.disp.ctl =
    log (run w (Rewriter.new w g cfg) chunks).1.stream.disp.ctl := by
  have h : Disp.forget _ = Disp.forget _ := (C14_independent_of_rewrites w ht ch he bo g cfg chunks).2
  have h2 := congrArg (fun d : Disp γ => log d.ctl) h
  exact h2

/-- non-vacuity: the logging controller writing each token twice and `!` at the end, versus writing it once: the
outputs differ, the tokens handed over (with their ranges) are the same -/
example : sinkBytes (run (World.rechunk ⟨Gen.Syntax.table, Gen.Tags.cfg, withLog (constCtl 31)⟩ (fun _ t => [t.raw, t.raw]) (fun _ => [[33]]) (fun _ _ => []))
      (Rewriter.new (World.rechunk ⟨Gen.Syntax.table, Gen.Tags.cfg, withLog (constCtl 31)⟩ (fun _ t => [t.raw, t.raw]) (fun _ => [[33]]) (fun _ _ => [])) ((), []) {})
      sampleChunks).1.sink ≠
    sinkBytes (run ⟨Gen.Syntax.table, Gen.Tags.cfg, withLog (constCtl 31)⟩
      (Rewriter.new ⟨Gen.Syntax.table, Gen.Tags.cfg, withLog (constCtl 31)⟩ ((), []) {}) sampleChunks).1.sink := by
  decide +kernel

/-! ### attribute locations -/

theorem checkedSlice_ok {xs : Bytes} {r : Range} (h1 : r.start ≤ r.end) (h2 : r.end ≤ xs.length) :
    checkedSlice xs r = some (slice xs r.start r.end) := by
  unfold checkedSlice; rw [if_pos ⟨h1, h2⟩]

theorem attrsOf_ok (inp : Bytes) (as : List AttrOutline)
    (h : ∀ a ∈ as, a.name.start ≤ a.name.end ∧ a.name.end ≤ inp.length ∧ a.value.start ≤ a.value.end ∧ a.value.end ≤ inp.length) :
    attrsOf inp as = some (as.map fun a => (slice inp a.name.start a.name.end, slice inp a.value.start a.value.end, a)) := by
  unfold attrsOf
  induction as with
  | nil => rfl
  | cons a as ih =>
    obtain ⟨h1, h2, h3, h4⟩ := h a List.mem_cons_self
    rw [List.mapM_cons, checkedSlice_ok h1 h2, checkedSlice_ok h3 h4]
    simp only [Option.pure_def, Option.bind_eq_bind, Option.bind_some]
    rw [ih (fun x hx => h x (List.mem_cons_of_mem _ hx))]
    rfl

/-- **C14_attr_locations.** -/
theorem C14_attr_locations (inp : Bytes) (i : Nat) (t : Tag) (hspec : startTagAt inp i = some (.finished t))
    (flags : Flags) (hf : flags.nextStartTag = true) (pc h : Nat) (ns : Ns) :
    ∃ tok attrs, tagToToken flags inp ⟨pc, ⟨i, t.stop⟩, .startTag t.name h ns t.attrs t.selfClosing⟩
        = some ({ flags with nextStartTag := false }, some tok) ∧
      tok = .startTag (slice inp t.name.start t.name.end) attrs ns t.selfClosing (slice inp i t.stop) ⟨pc + i, pc + t.stop⟩ pc ∧
      attrs = t.attrs.map (fun a => (slice inp a.name.start a.name.end, slice inp a.value.start a.value.end, a)) ∧
      -- the reported locations are the document ranges of the outlines …
      (∀ a ∈ attrs, 0 < pc + a.2.2.value.start →
        AttrsApi.attrLocations pc a = some (⟨pc + a.2.2.name.start, pc + a.2.2.name.end⟩, ⟨pc + a.2.2.value.start, pc + a.2.2.value.end⟩)) ∧
      -- … strictly inside the tag `[pc + i, pc + t.stop)`, after its name, name before value, in order
      (∀ a ∈ t.attrs, AttrWF t.name.end t.stop a) ∧ i < t.name.start ∧ t.name.end < t.stop ∧ Sorted t.attrs := by
  obtain ⟨w1, w2, w3, w4, w5, w6⟩ := startTagAt_wf inp i t hspec
  have hattrs := attrsOf_ok inp t.attrs (fun a ha => by
    obtain ⟨a1, a2, a3, a4, a5, a6, a7⟩ := w5 a ha
    exact ⟨by omega, by omega, a4, by omega⟩)
  refine ⟨_, _, ?_, rfl, rfl, ?_, w5, by omega, w3, w6⟩
  · unfold tagToToken
    simp only [hf, if_true]
    rw [checkedSlice_ok (by omega) (by omega), hattrs, checkedSlice_ok (by simp only; omega) (by simp only; omega)]
    rfl
  · intro a ha hpos
    simp only [List.mem_map] at ha
    obtain ⟨o, ho, rfl⟩ := ha
    obtain ⟨a1, a2, a3, a4, a5, a6, a7⟩ := w5 o ho
    unfold AttrsApi.attrLocations
    simp only
    rw [if_neg (by omega)]
    simp only [slice, List.length_drop, List.length_take]
    congr 3 <;> omega

end LolHtml.Thm.C14
