/-
Property C13, single-byte encodings: the index tables of ALL 28 single-byte encodings of the pinned
`encoding_rs` (regenerated from its `data.rs` into `Gen/Encodings.lean` on every run) and x-user-defined's
rule satisfy the decidable table condition `TableOk`; hence, by the generic theorems of
`Lemmas/EncTables.lean`, `Lemmas/EncCodecs.lean` and `Thm/C08_Codec.lean`, for each of them the codec
`singleByte t` that the lane runs is `Lawful`, `StructSafe`, encodes exactly the scalars it decodes (encode
is the inverse of decode) and turns every other scalar into `&#N;`.

So for these 29 encodings the C13/C08/C14 theorems no longer *assume* the codec laws: what remains assumed
of encoding_rs is that its single-byte decoder/encoder computes the table lookup (checked by lane `enc`).
-/
import LolHtml.Gen.Encodings
import LolHtml.Lemmas.EncTables
import LolHtml.Lemmas.EncCodecs
import LolHtml.Thm.C08_Codec

namespace LolHtml.Enc.Tables
open LolHtml.Gen.Encodings LolHtml.Thm.C08Codec

/-! ## the table condition, one kernel evaluation per table -/

theorem ok_ibm866 : TableOk t_ibm866 = true := by decide +kernel
theorem ok_iso_8859_2 : TableOk t_iso_8859_2 = true := by decide +kernel
theorem ok_iso_8859_3 : TableOk t_iso_8859_3 = true := by decide +kernel
theorem ok_iso_8859_4 : TableOk t_iso_8859_4 = true := by decide +kernel
theorem ok_iso_8859_5 : TableOk t_iso_8859_5 = true := by decide +kernel
theorem ok_iso_8859_6 : TableOk t_iso_8859_6 = true := by decide +kernel
theorem ok_iso_8859_7 : TableOk t_iso_8859_7 = true := by decide +kernel
theorem ok_iso_8859_8 : TableOk t_iso_8859_8 = true := by decide +kernel
theorem ok_iso_8859_10 : TableOk t_iso_8859_10 = true := by decide +kernel
theorem ok_iso_8859_13 : TableOk t_iso_8859_13 = true := by decide +kernel
theorem ok_iso_8859_14 : TableOk t_iso_8859_14 = true := by decide +kernel
theorem ok_iso_8859_15 : TableOk t_iso_8859_15 = true := by decide +kernel
theorem ok_iso_8859_16 : TableOk t_iso_8859_16 = true := by decide +kernel
theorem ok_koi8_r : TableOk t_koi8_r = true := by decide +kernel
theorem ok_koi8_u : TableOk t_koi8_u = true := by decide +kernel
theorem ok_macintosh : TableOk t_macintosh = true := by decide +kernel
theorem ok_windows_874 : TableOk t_windows_874 = true := by decide +kernel
theorem ok_windows_1250 : TableOk t_windows_1250 = true := by decide +kernel
theorem ok_windows_1251 : TableOk t_windows_1251 = true := by decide +kernel
theorem ok_windows_1252 : TableOk t_windows_1252 = true := by decide +kernel
theorem ok_windows_1253 : TableOk t_windows_1253 = true := by decide +kernel
theorem ok_windows_1254 : TableOk t_windows_1254 = true := by decide +kernel
theorem ok_windows_1255 : TableOk t_windows_1255 = true := by decide +kernel
theorem ok_windows_1256 : TableOk t_windows_1256 = true := by decide +kernel
theorem ok_windows_1257 : TableOk t_windows_1257 = true := by decide +kernel
theorem ok_windows_1258 : TableOk t_windows_1258 = true := by decide +kernel
theorem ok_x_mac_cyrillic : TableOk t_x_mac_cyrillic = true := by decide +kernel
theorem ok_x_user_defined : TableOk t_x_user_defined = true := by decide +kernel

/-- every table the translator found: assembled from the per-table evaluations above (if a future
encoding_rs adds a table, this proof — not a `decide` — breaks and names it) -/
theorem ok_tableList : ∀ t ∈ tableList, TableOk t = true := by
  unfold tableList
  simp only [List.forall_mem_cons, List.not_mem_nil, false_imp_iff, implies_true, and_true,
    ok_ibm866, ok_iso_8859_2, ok_iso_8859_3, ok_iso_8859_4, ok_iso_8859_5, ok_iso_8859_6, ok_iso_8859_7, ok_iso_8859_8, ok_iso_8859_10, ok_iso_8859_13, ok_iso_8859_14, ok_iso_8859_15, ok_iso_8859_16, ok_koi8_r, ok_koi8_u, ok_macintosh, ok_windows_874, ok_windows_1250, ok_windows_1251, ok_windows_1252, ok_windows_1253, ok_windows_1254, ok_windows_1255, ok_windows_1256, ok_windows_1257, ok_windows_1258, ok_x_mac_cyrillic, and_self]

/-- every (name, table) pair of the generated list -/
theorem ok_singleByteTables : ∀ p ∈ singleByteTables, TableOk p.2 = true := by
  unfold singleByteTables
  simp only [List.forall_mem_cons, List.not_mem_nil, false_imp_iff, implies_true, and_true,
    ok_ibm866, ok_iso_8859_2, ok_iso_8859_3, ok_iso_8859_4, ok_iso_8859_5, ok_iso_8859_6, ok_iso_8859_7, ok_iso_8859_8, ok_iso_8859_10, ok_iso_8859_13, ok_iso_8859_14, ok_iso_8859_15, ok_iso_8859_16, ok_koi8_r, ok_koi8_u, ok_macintosh, ok_windows_874, ok_windows_1250, ok_windows_1251, ok_windows_1252, ok_windows_1253, ok_windows_1254, ok_windows_1255, ok_windows_1256, ok_windows_1257, ok_windows_1258, ok_x_mac_cyrillic, and_self]

theorem count_singleByteTables : singleByteTables.length = 28 ∧ tableList.length = 27 := by decide

/-! ## what a good table gives -/

/-- Everything the C13 / C08 / C14 theorems ask of a codec, for a table satisfying `TableOk`. -/
structure GoodCodec (t : List Nat) : Prop where
  lawful : (singleByte t).Lawful
  encLawful : (⟨singleByte t, false⟩ : Encoding).Lawful
  structSafe : StructSafe (singleByte t)
  /-- a byte ≥ 0x80 that decodes to a scalar is exactly what that scalar encodes to -/
  decode_encode : ∀ (b : UInt8) (ch : Char), 128 ≤ b.toNat → tblLookup t b = some ch →
    (singleByte t).encChar ch = some [b]
  /-- a non-ASCII scalar encodes to one byte ≥ 0x80 which decodes to it -/
  encode_decode : ∀ (ch : Char) (bs : Bytes), 128 ≤ ch.toNat → (singleByte t).encChar ch = some bs →
    ∃ b : UInt8, bs = [b] ∧ 128 ≤ b.toNat ∧ tblLookup t b = some ch
  /-- anything else is written as a numeric character reference -/
  unmapped_ncr : ∀ ch : Char, (singleByte t).encChar ch = none → encUnit (singleByte t) ch = ncr ch

/-- **Generic theorem**: the decidable table condition implies all of it. -/
theorem goodCodec_of_tableOk (t : List Nat) (h : TableOk t = true) : GoodCodec t where
  lawful := singleByte_lawful t
  encLawful := singleByteEnc_lawful t
  structSafe := singleByte_structSafe t (by rw [TableOk.length h]; exact Nat.le_refl _)
  decode_encode := fun b ch hb hl => singleByte_decode_encode h b hb ch hl
  encode_decode := fun ch bs hc he => singleByte_encode_decode h ch hc bs he
  unmapped_ncr := fun ch hn => singleByte_unmapped_ncr ch hn

/-- **C13_tables.** Every single-byte encoding of the pinned encoding_rs, by name. -/
theorem C13_tables : ∀ p ∈ singleByteTables, GoodCodec p.2 :=
  fun p hp => goodCodec_of_tableOk p.2 (ok_singleByteTables p hp)

/-- x-user-defined (a rule, not a table: byte `b ≥ 0x80` ↔ U+F700 + b) -/
theorem C13_x_user_defined : GoodCodec t_x_user_defined := goodCodec_of_tableOk _ ok_x_user_defined

/-! ## the hand-written tables of `Model/Codecs.lean` are the generated ones -/

example : windows1252Table = t_windows_1252 := by decide +kernel
example : iso88597Table = t_iso_8859_7 := by decide +kernel

/-- non-vacuity / spot checks: KOI8-R 0xC1 ↔ U+0430, ISO-8859-6 0xA1 unmapped → U+FFFD, `я` in IBM866,
x-user-defined 0xFF ↔ U+F7FF -/
example : tblLookup t_koi8_r 0xC1 = some (Char.ofNat 0x430) := by decide +kernel
example : (singleByte t_koi8_r).encChar (Char.ofNat 0x430) = some [0xC1] :=
  (goodCodec_of_tableOk _ ok_koi8_r).decode_encode 0xC1 _ (by decide) (by decide +kernel)
example : ((singleByte t_iso_8859_6).decStep () 0xA1).out = [replacement] := by decide +kernel
example : (singleByte t_ibm866).encChar (Char.ofNat 0x44F) = some [0xEF] := by decide +kernel
example : tblLookup t_x_user_defined 0xFF = some (Char.ofNat 0xF7FF) := by decide +kernel
example : encUnit (singleByte t_windows_1251) (Char.ofNat 0xE9) = [38, 35, 50, 51, 51, 59] := by decide +kernel

end LolHtml.Enc.Tables
