import LolHtml.Model.NameHash
import LolHtml.Model.TagCfg
import LolHtml.Model.TreeSim
import LolHtml.Gen.Tags
import LolHtml.Lemmas.NameHash
/-!
# C03 — name hashes, ambiguity guard, tree-builder simulator

Property theorems only; helper lemmas live in `LolHtml/Lemmas/{NameHash,Guard,Sim,Island}.lean`,
specifications in `LolHtml/Spec/{Guard,Island}.lean`, the reviewed reference table in
`LolHtml/Ref/Tags.lean`.
-/
namespace LolHtml.Thm.C03
open LolHtml LolHtml.Model
open LolHtml.Lemmas.NameHash (validCh)

/-! ## 2. Name hashes -/

/-- Every row of `declare_tags!` (src/html/tag.rs) carries the hash that `LocalNameHash::from`
computes for its name. -/
theorem C03_hash_table : ∀ row ∈ Gen.Tags.tags, NameHash.ofBytes row.1 = row.2 := by
  decide +kernel

/-- "First byte, if any, is an ASCII letter" (tag names always start with a letter). -/
def StartsWithLetter (n : Bytes) : Prop := ∀ c, n.head? = some c → isAsciiAlpha c = true

/-- Hash equality is name equality (up to ASCII case) whenever the hash is valid. -/
theorem C03_hash_injective (n₁ n₂ : Bytes) (h₁ : StartsWithLetter n₁) (h₂ : StartsWithLetter n₂)
    (heq : NameHash.ofBytes n₁ = NameHash.ofBytes n₂) (hne : NameHash.ofBytes n₁ ≠ emptyHash) :
    asciiLowerBytes n₁ = asciiLowerBytes n₂ := by
  have a₁ := Lemmas.NameHash.fold_ne_empty n₁ 0 hne
  have a₂ := Lemmas.NameHash.fold_ne_empty n₂ 0 (by
    show NameHash.ofBytes n₂ ≠ emptyHash
    rw [← heq]; exact hne)
  have d₁ := Lemmas.NameHash.decode_V n₁ 0 a₁.1 (fun _ => h₁)
  have d₂ := Lemmas.NameHash.decode_V n₂ 0 a₂.1 (fun _ => h₂)
  have e : Lemmas.NameHash.V 0 n₁ = Lemmas.NameHash.V 0 n₂ := by
    rw [← a₁.2, ← a₂.2]; exact heq
  rw [e, d₂] at d₁
  simpa [Lemmas.NameHash.decode_zero] using d₁.symm

/-- non-vacuity: `DiV` and `div` -/
example : asciiLowerBytes [68, 105, 86] = asciiLowerBytes [100, 105, 118] :=
  C03_hash_injective [68, 105, 86] [100, 105, 118] (by simp [StartsWithLetter]; decide)
    (by simp [StartsWithLetter]; decide) (by decide +kernel) (by decide +kernel)

/-- The letter hypothesis is necessary: `1a` and `a` have the same valid hash. -/
theorem C03_hash_leading_digit_collision :
    NameHash.ofBytes [49, 97] = NameHash.ofBytes [97] ∧ NameHash.ofBytes [97] ≠ emptyHash := by
  decide +kernel

/-- A valid hash identifies its table row: a name (starting with a letter) whose hash equals the
hash of a `declare_tags!` row is that row's name, up to ASCII case. -/
theorem C03_hash_identifies_tag (n : Bytes) (hn : StartsWithLetter n) :
    ∀ row ∈ Gen.Tags.tags, NameHash.ofBytes n = row.2 → asciiLowerBytes n = row.1 := by
  intro row hrow heq
  have hfacts : ∀ row ∈ Gen.Tags.tags,
      NameHash.ofBytes row.1 = row.2 ∧ row.2 ≠ emptyHash ∧ asciiLowerBytes row.1 = row.1 ∧
      (row.1.head?.all isAsciiAlpha) = true := by decide +kernel
  obtain ⟨f1, f2, f3, f4⟩ := hfacts row hrow
  have := C03_hash_injective n row.1 hn
    (by intro c hc; simpa [hc] using f4) (by rw [heq, f1]) (by rw [heq]; exact f2)
  rw [this, f3]

/-- The hash ignores ASCII case. -/
theorem C03_hash_case_insensitive (n : Bytes) :
    NameHash.ofBytes (asciiLowerBytes n) = NameHash.ofBytes n :=
  Lemmas.NameHash.fold_lower n 0

/-- A name containing a byte outside `[A-Za-z1-6]` has the empty hash. -/
theorem C03_hash_invalid_byte (n : Bytes) (h : ∃ c ∈ n, validCh c = false) :
    NameHash.ofBytes n = emptyHash := by
  apply Classical.byContradiction
  intro hne
  obtain ⟨c, hc, hv⟩ := h
  have := (Lemmas.NameHash.fold_ne_empty n 0 hne).1 c hc
  simp [hv] at this

/-- Conversely a valid hash means every byte is in `[A-Za-z1-6]`. -/
theorem C03_hash_valid_alphabet (n : Bytes) (hne : NameHash.ofBytes n ≠ emptyHash) :
    ∀ c ∈ n, validCh c = true :=
  (Lemmas.NameHash.fold_ne_empty n 0 hne).1

/-- `jzzzzzzzzzzzz` (13 bytes) -/
def jz12 : Bytes := [106, 122, 122, 122, 122, 122, 122, 122, 122, 122, 122, 122, 122]

/-- **Exact characterisation of the empty hash on alphabet names.** For a name over `[A-Za-z1-6]`
that starts with a letter, the hash is the sentinel `2^64-1` iff the name has ≥ 14 bytes, or has
13 bytes and starts with a letter after `j`/`J` (overflow of the 64-bit word), or is
`jzzzzzzzzzzzz` up to case (the one name whose genuine base-32 value *is* `2^64-1`).
In particular 13-byte names starting with `a`..`j` (e.g. `foreignobject`) are hashable, contrary to
the "up to 12 characters" comment in local_name.rs. -/
theorem C03_hash_empty_iff (c₀ : UInt8) (cs : Bytes) (hc₀ : isAsciiAlpha c₀ = true)
    (hall : ∀ c ∈ cs, validCh c = true) :
    NameHash.ofBytes (c₀ :: cs) = emptyHash ↔
      14 ≤ (c₀ :: cs).length ∨
      ((c₀ :: cs).length = 13 ∧
        (106 < (asciiLower c₀).toNat ∨ asciiLowerBytes (c₀ :: cs) = jz12)) := by
  have hv₀ : validCh c₀ = true := by simp [validCh, hc₀]
  obtain ⟨hD6, hD31, hchr, -, -⟩ := (Lemmas.NameHash.byte_facts c₀).1 hc₀
  have hDl : (asciiLower c₀).toNat = Lemmas.NameHash.D c₀ + 91 := by
    rw [← hchr]; unfold Lemmas.NameHash.chr; rw [if_pos hD6]
    simp only [UInt8.toNat_ofNat']; omega
  have hstep : NameHash.ofBytes (c₀ :: cs) = cs.foldl NameHash.update (Lemmas.NameHash.D c₀) := by
    show (c₀ :: cs).foldl NameHash.update NameHash.new = _
    rw [List.foldl_cons, show NameHash.new = 0 from rfl,
      Lemmas.NameHash.update_valid 0 c₀ (by decide) hv₀]; simp
  have hjz : NameHash.ofBytes jz12 = emptyHash := by decide +kernel
  constructor
  · intro hE
    apply Classical.byContradiction
    intro hcon
    have hlen : cs.length ≤ 11 ∨ (cs.length = 12 ∧ Lemmas.NameHash.D c₀ ≤ 15) := by
      simp only [List.length_cons] at hcon; omega
    have hnj : asciiLowerBytes (c₀ :: cs) ≠ jz12 := by
      intro hj
      have : (c₀ :: cs).length = 13 := by
        have := congrArg List.length hj
        simpa [asciiLowerBytes, jz12] using this
      apply hcon; right; exact ⟨this, .inr hj⟩
    have hfit : (Lemmas.NameHash.D c₀ + 1) * 32 ^ cs.length ≤ 2 ^ 64 := by
      rcases hlen with h | ⟨h, hd⟩
      · have : 32 ^ cs.length ≤ 32 ^ 11 := Nat.pow_le_pow_right (by decide) h
        calc _ ≤ 32 * 32 ^ 11 := Nat.mul_le_mul (by omega) this
          _ ≤ 2 ^ 64 := by decide
      · rw [h]
        calc _ ≤ 16 * 32 ^ 12 := Nat.mul_le_mul_right _ (by omega)
          _ ≤ 2 ^ 64 := by decide
    have hval := Lemmas.NameHash.fold_success cs _ hall hfit
    have hV : Lemmas.NameHash.V 0 (c₀ :: cs) = Lemmas.NameHash.V 0 jz12 := by
      have : Lemmas.NameHash.V 0 jz12 = emptyHash := by decide +kernel
      rw [this, ← hE, hstep, hval]; simp [Lemmas.NameHash.V]
    have d₁ := Lemmas.NameHash.decode_V (c₀ :: cs) 0
      (by intro c hc; rcases List.mem_cons.mp hc with rfl | hc; exact hv₀; exact hall c hc)
      (by intro _ c hc; simp at hc; rw [← hc]; exact hc₀)
    have d₂ := Lemmas.NameHash.decode_V jz12 0 (by decide +kernel) (by decide +kernel)
    rw [hV, d₂] at d₁
    apply hnj
    have hl : asciiLowerBytes jz12 = jz12 := by decide +kernel
    simpa [Lemmas.NameHash.decode_zero, hl] using d₁.symm
  · rintro (hlong | ⟨h13, hj | hj⟩)
    · rw [hstep]
      apply Lemmas.NameHash.fold_overflow _ _ (by omega)
      simp only [List.length_cons] at hlong
      have : 32 ^ 13 ≤ 32 ^ cs.length := Nat.pow_le_pow_right (by decide) (by omega)
      calc 2 ^ 64 ≤ 6 * 32 ^ 13 := by decide
        _ ≤ _ := Nat.mul_le_mul hD6 this
    · rw [hstep]
      apply Lemmas.NameHash.fold_overflow _ _ (by omega)
      simp only [List.length_cons] at h13
      have h12 : cs.length = 12 := by omega
      rw [h12]
      calc 2 ^ 64 ≤ 16 * 32 ^ 12 := by decide
        _ ≤ _ := Nat.mul_le_mul_right _ (by omega)
    · rw [← C03_hash_case_insensitive, hj, hjz]

/-- Names of 14 or more bytes are never hashable (whatever they contain), provided they start with
a letter. -/
theorem C03_hash_long_empty (n : Bytes) (hn : StartsWithLetter n) (hlen : 14 ≤ n.length) :
    NameHash.ofBytes n = emptyHash := by
  match n, hn, hlen with
  | c₀ :: cs, hn, hlen =>
    have hc₀ : isAsciiAlpha c₀ = true := hn c₀ rfl
    by_cases hall : ∀ c ∈ cs, validCh c = true
    · exact (C03_hash_empty_iff c₀ cs hc₀ hall).2 (.inl hlen)
    · apply C03_hash_invalid_byte
      apply Classical.byContradiction
      intro hne
      apply hall
      intro c hc
      cases hv : validCh c
      · exact absurd ⟨c, List.mem_cons_of_mem _ hc, hv⟩ hne
      · rfl

/-- The sentinel collision is real: `jzzzzzzzzzzzz` is over the alphabet, nothing overflows while
hashing it (its 12-byte prefix hashes to a value `< 2^59`), and its hash is `EMPTY_HASH`; so
`is_empty` treats it as unhashable and it is compared as bytes — consistently. -/
theorem C03_hash_sentinel_collision :
    NameHash.ofBytes jz12 = emptyHash ∧ (∀ c ∈ jz12, validCh c = true) ∧
    NameHash.ofBytes (jz12.take 12) < 2 ^ 59 ∧ NameHash.ofBytes (jz12.take 12) ≠ emptyHash := by
  decide +kernel

/-- non-vacuity of `C03_hash_empty_iff`: `foreignobject` (13 bytes, first letter ≤ j) is hashable. -/
example : NameHash.ofBytes [102, 111, 114, 101, 105, 103, 110, 111, 98, 106, 101, 99, 116] ≠ emptyHash := by
  intro h
  have := (C03_hash_empty_iff 102 [111, 114, 101, 105, 103, 110, 111, 98, 106, 101, 99, 116]
    (by decide) (by decide +kernel)).1 h
  revert this; decide +kernel

end LolHtml.Thm.C03
