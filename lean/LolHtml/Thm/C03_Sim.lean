import LolHtml.Model.NameHash
import LolHtml.Model.NameHashDebug
import LolHtml.Model.TagCfg
import LolHtml.Model.TreeSim
import LolHtml.Gen.Tags
import LolHtml.Ref.Tags
import LolHtml.Lemmas.NameHash
import LolHtml.Lemmas.Guard
import LolHtml.Lemmas.Sim
import LolHtml.Lemmas.Island
/-!
# C03 — name hashes, ambiguity guard, tree-builder simulator

Property theorems only; helper lemmas live in `LolHtml/Lemmas/{NameHash,Guard,Sim,Island}.lean`,
specifications in `LolHtml/Spec/{Guard,Island}.lean`, the reviewed reference table in
`LolHtml/Ref/Tags.lean`.
-/
namespace LolHtml.Thm.C03
open LolHtml LolHtml.Model
open LolHtml.Lemmas.NameHash (validCh)

/-! ## 1. Tag tables -/

deriving instance DecidableEq for LolHtml.Model.TagCfg

/-- The tag table and every tag list translated from the Rust sources equal the reviewed reference
(`Ref/Tags.lean`, whose hashes are *computed* from the names by the model hash). -/
theorem C03_tags_match_reference :
    Gen.Tags.cfg = Ref.Tags.cfg ∧ Gen.Tags.tags = Ref.Tags.tags := by
  decide +kernel

/-- The guard's list of text-mode-switching tags is exactly the set of tags for which
`get_text_type_adjustment` switches the text type: no text-mode-switching tag escapes the guard. -/
theorem C03_guard_list_complete (t : Nat) :
    t ∈ Gen.Tags.cfg.guardTextSwitch ↔ textTypeAdjustment Gen.Tags.cfg t ≠ .none := by
  have hl : Gen.Tags.cfg.guardTextSwitch =
      Gen.Tags.cfg.rcdata ++ [Gen.Tags.cfg.plaintext, Gen.Tags.cfg.script] ++ Gen.Tags.cfg.rawtext := by
    decide +kernel
  rw [hl]
  unfold textTypeAdjustment
  by_cases h1 : t ∈ Gen.Tags.cfg.rcdata
  · simp [h1]
  by_cases h2 : t = Gen.Tags.cfg.plaintext
  · subst h2; simp [h1]
  by_cases h3 : t = Gen.Tags.cfg.script
  · subst h3; simp [h1, h2]
  by_cases h4 : t ∈ Gen.Tags.cfg.rawtext <;> simp [h1, h2, h3, h4]

/-! ## 2. Name hashes -/

/-- Every row of `declare_tags!` (src/html/tag.rs) carries the hash that `LocalNameHash::from`
computes for its name. -/
theorem C03_hash_table : ∀ row ∈ Gen.Tags.tags, NameHash.ofBytes row.1 = row.2 := by
  decide +kernel

/-- "First byte, if any, is an ASCII letter" (tag names always start with a letter). -/
def StartsWithLetter (n : Bytes) : Prop := ∀ c, n.head? = some c → isAsciiAlpha c = true

/-- Hash equality is name equality (up to ASCII case) whenever the hash is valid. -/
theorem C03_hash_injective (n₁ n₂ : Bytes) (h₁ : StartsWithLetter n₁) (h₂ : StartsWithLetter n₂)
    (heq : NameHash.ofBytes n₁ = NameHash.ofBytes n₂) (hne : NameHash.ofBytes n₁ ≠ emptyHash) :
    asciiLowerBytes n₁ = asciiLowerBytes n₂ := by
  have a₁ := Lemmas.NameHash.fold_ne_empty n₁ 0 hne
  have a₂ := Lemmas.NameHash.fold_ne_empty n₂ 0 (by
    show NameHash.ofBytes n₂ ≠ emptyHash
    rw [← heq]; exact hne)
  have d₁ := Lemmas.NameHash.decode_V n₁ 0 a₁.1 (fun _ => h₁)
  have d₂ := Lemmas.NameHash.decode_V n₂ 0 a₂.1 (fun _ => h₂)
  have e : Lemmas.NameHash.V 0 n₁ = Lemmas.NameHash.V 0 n₂ := by
    rw [← a₁.2, ← a₂.2]; exact heq
  rw [e, d₂] at d₁
  simpa [Lemmas.NameHash.decode_zero] using d₁.symm

/-- non-vacuity: `DiV` and `div` -/
example : asciiLowerBytes [68, 105, 86] = asciiLowerBytes [100, 105, 118] :=
  C03_hash_injective [68, 105, 86] [100, 105, 118] (by simp [StartsWithLetter]; decide)
    (by simp [StartsWithLetter]; decide) (by decide +kernel) (by decide +kernel)

/-- The letter hypothesis is necessary: `1a` and `a` have the same valid hash. -/
theorem C03_hash_leading_digit_collision :
    NameHash.ofBytes [49, 97] = NameHash.ofBytes [97] ∧ NameHash.ofBytes [97] ≠ emptyHash := by
  decide +kernel

/-- A valid hash identifies its table row: a name (starting with a letter) whose hash equals the
hash of a `declare_tags!` row is that row's name, up to ASCII case. -/
theorem C03_hash_identifies_tag (n : Bytes) (hn : StartsWithLetter n) :
    ∀ row ∈ Gen.Tags.tags, NameHash.ofBytes n = row.2 → asciiLowerBytes n = row.1 := by
  intro row hrow heq
  have hfacts : ∀ row ∈ Gen.Tags.tags,
      NameHash.ofBytes row.1 = row.2 ∧ row.2 ≠ emptyHash ∧ asciiLowerBytes row.1 = row.1 ∧
      (row.1.head?.all isAsciiAlpha) = true := by decide +kernel
  obtain ⟨f1, f2, f3, f4⟩ := hfacts row hrow
  have := C03_hash_injective n row.1 hn
    (by intro c hc; simpa [hc] using f4) (by rw [heq, f1]) (by rw [heq]; exact f2)
  rw [this, f3]

/-- The hash ignores ASCII case. -/
theorem C03_hash_case_insensitive (n : Bytes) :
    NameHash.ofBytes (asciiLowerBytes n) = NameHash.ofBytes n :=
  Lemmas.NameHash.fold_lower n 0

/-- A name containing a byte outside `[A-Za-z1-6]` has the empty hash. -/
theorem C03_hash_invalid_byte (n : Bytes) (h : ∃ c ∈ n, validCh c = false) :
    NameHash.ofBytes n = emptyHash := by
  apply Classical.byContradiction
  intro hne
  obtain ⟨c, hc, hv⟩ := h
  have := (Lemmas.NameHash.fold_ne_empty n 0 hne).1 c hc
  simp [hv] at this

/-- Conversely a valid hash means every byte is in `[A-Za-z1-6]`. -/
theorem C03_hash_valid_alphabet (n : Bytes) (hne : NameHash.ofBytes n ≠ emptyHash) :
    ∀ c ∈ n, validCh c = true :=
  (Lemmas.NameHash.fold_ne_empty n 0 hne).1

/-- `jzzzzzzzzzzzz` (13 bytes) -/
def jz12 : Bytes := [106, 122, 122, 122, 122, 122, 122, 122, 122, 122, 122, 122, 122]

/-- **Exact characterisation of the empty hash on alphabet names.** For a name over `[A-Za-z1-6]`
that starts with a letter, the hash is the sentinel `2^64-1` iff the name has ≥ 14 bytes, or has
13 bytes and starts with a letter after `j`/`J` (overflow of the 64-bit word), or is
`jzzzzzzzzzzzz` up to case (the one name whose genuine base-32 value *is* `2^64-1`).
In particular 13-byte names starting with `a`..`j` (e.g. `foreignobject`) are hashable, contrary to
the "up to 12 characters" comment in local_name.rs. -/
theorem C03_hash_empty_iff (c₀ : UInt8) (cs : Bytes) (hc₀ : isAsciiAlpha c₀ = true)
    (hall : ∀ c ∈ cs, validCh c = true) :
    NameHash.ofBytes (c₀ :: cs) = emptyHash ↔
      14 ≤ (c₀ :: cs).length ∨
      ((c₀ :: cs).length = 13 ∧
        (106 < (asciiLower c₀).toNat ∨ asciiLowerBytes (c₀ :: cs) = jz12)) := by
  have hv₀ : validCh c₀ = true := by simp [validCh, hc₀]
  obtain ⟨hD6, hD31, hchr, -, -⟩ := (Lemmas.NameHash.byte_facts c₀).1 hc₀
  have hDl : (asciiLower c₀).toNat = Lemmas.NameHash.D c₀ + 91 := by
    rw [← hchr]; unfold Lemmas.NameHash.chr; rw [if_pos hD6]
    simp only [UInt8.toNat_ofNat']; omega
  have hstep : NameHash.ofBytes (c₀ :: cs) = cs.foldl NameHash.update (Lemmas.NameHash.D c₀) := by
    show (c₀ :: cs).foldl NameHash.update NameHash.new = _
    rw [List.foldl_cons, show NameHash.new = 0 from rfl,
      Lemmas.NameHash.update_valid 0 c₀ (by decide) hv₀]; simp
  have hjz : NameHash.ofBytes jz12 = emptyHash := by decide +kernel
  constructor
  · intro hE
    apply Classical.byContradiction
    intro hcon
    have hlen : cs.length ≤ 11 ∨ (cs.length = 12 ∧ Lemmas.NameHash.D c₀ ≤ 15) := by
      simp only [List.length_cons] at hcon; omega
    have hnj : asciiLowerBytes (c₀ :: cs) ≠ jz12 := by
      intro hj
      have : (c₀ :: cs).length = 13 := by
        have := congrArg List.length hj
        simpa [asciiLowerBytes, jz12] using this
      apply hcon; right; exact ⟨this, .inr hj⟩
    have hfit : (Lemmas.NameHash.D c₀ + 1) * 32 ^ cs.length ≤ 2 ^ 64 := by
      rcases hlen with h | ⟨h, hd⟩
      · have : 32 ^ cs.length ≤ 32 ^ 11 := Nat.pow_le_pow_right (by decide) h
        calc _ ≤ 32 * 32 ^ 11 := Nat.mul_le_mul (by omega) this
          _ ≤ 2 ^ 64 := by decide
      · rw [h]
        calc _ ≤ 16 * 32 ^ 12 := Nat.mul_le_mul_right _ (by omega)
          _ ≤ 2 ^ 64 := by decide
    have hval := Lemmas.NameHash.fold_success cs _ hall hfit
    have hV : Lemmas.NameHash.V 0 (c₀ :: cs) = Lemmas.NameHash.V 0 jz12 := by
      have : Lemmas.NameHash.V 0 jz12 = emptyHash := by decide +kernel
      rw [this, ← hE, hstep, hval]; simp [Lemmas.NameHash.V]
    have d₁ := Lemmas.NameHash.decode_V (c₀ :: cs) 0
      (by intro c hc; rcases List.mem_cons.mp hc with rfl | hc; exact hv₀; exact hall c hc)
      (by intro _ c hc; simp at hc; rw [← hc]; exact hc₀)
    have d₂ := Lemmas.NameHash.decode_V jz12 0 (by decide +kernel) (by decide +kernel)
    rw [hV, d₂] at d₁
    apply hnj
    have hl : asciiLowerBytes jz12 = jz12 := by decide +kernel
    simpa [Lemmas.NameHash.decode_zero, hl] using d₁.symm
  · rintro (hlong | ⟨h13, hj | hj⟩)
    · rw [hstep]
      apply Lemmas.NameHash.fold_overflow _ _ (by omega)
      simp only [List.length_cons] at hlong
      have : 32 ^ 13 ≤ 32 ^ cs.length := Nat.pow_le_pow_right (by decide) (by omega)
      calc 2 ^ 64 ≤ 6 * 32 ^ 13 := by decide
        _ ≤ _ := Nat.mul_le_mul hD6 this
    · rw [hstep]
      apply Lemmas.NameHash.fold_overflow _ _ (by omega)
      simp only [List.length_cons] at h13
      have h12 : cs.length = 12 := by omega
      rw [h12]
      calc 2 ^ 64 ≤ 16 * 32 ^ 12 := by decide
        _ ≤ _ := Nat.mul_le_mul_right _ (by omega)
    · rw [← C03_hash_case_insensitive, hj, hjz]

/-- Names of 14 or more bytes are never hashable (whatever they contain), provided they start with
a letter. -/
theorem C03_hash_long_empty (n : Bytes) (hn : StartsWithLetter n) (hlen : 14 ≤ n.length) :
    NameHash.ofBytes n = emptyHash := by
  match n, hn, hlen with
  | c₀ :: cs, hn, hlen =>
    have hc₀ : isAsciiAlpha c₀ = true := hn c₀ rfl
    by_cases hall : ∀ c ∈ cs, validCh c = true
    · exact (C03_hash_empty_iff c₀ cs hc₀ hall).2 (.inl hlen)
    · apply C03_hash_invalid_byte
      apply Classical.byContradiction
      intro hne
      apply hall
      intro c hc
      cases hv : validCh c
      · exact absurd ⟨c, List.mem_cons_of_mem _ hc, hv⟩ hne
      · rfl

/-- The sentinel collision is real: `jzzzzzzzzzzzz` is over the alphabet, nothing overflows while
hashing it (its 12-byte prefix hashes to a value `< 2^59`), and its hash is `EMPTY_HASH`; so
`is_empty` treats it as unhashable and it is compared as bytes — consistently. -/
theorem C03_hash_sentinel_collision :
    NameHash.ofBytes jz12 = emptyHash ∧ (∀ c ∈ jz12, validCh c = true) ∧
    NameHash.ofBytes (jz12.take 12) < 2 ^ 59 ∧ NameHash.ofBytes (jz12.take 12) ≠ emptyHash := by
  decide +kernel

/-- non-vacuity of `C03_hash_empty_iff`: `foreignobject` (13 bytes, first letter ≤ j) is hashable. -/
example : NameHash.ofBytes [102, 111, 114, 101, 105, 103, 110, 111, 98, 106, 101, 99, 116] ≠ emptyHash := by
  intro h
  have := (C03_hash_empty_iff 102 [111, 114, 101, 105, 103, 110, 111, 98, 106, 101, 99, 116]
    (by decide) (by decide +kernel)).1 h
  revert this; decide +kernel


/-- Minor defect (Debug output only): `impl Debug for LocalNameHash` decodes into a 12-byte buffer,
so the valid 13-character hash of `foreignobject` (`Tag::ForeignObject`) prints as `oreignobject`;
and the hash `0` of the empty name prints as `1`. (Checked against the real `Debug` by lane `hash`.) -/
theorem C03_hash_debug_truncates :
    NameHash.debugBytes (NameHash.ofBytes [102, 111, 114, 101, 105, 103, 110, 111, 98, 106, 101, 99, 116]) =
      some [111, 114, 101, 105, 103, 110, 111, 98, 106, 101, 99, 116] ∧
    NameHash.debugBytes (NameHash.ofBytes []) = some [49] := by
  decide +kernel

/-! ## 3. Ambiguity guard -/

open LolHtml.Spec.Guard (Ev)

/-- Side condition of the guard theorems, on the translated tables: `template` is not a
text-mode-switching tag. -/
theorem C03_guard_side_gen : Lemmas.Guard.Side Gen.Tags.cfg := by decide +kernel

/-- **When exactly `track_start_tag` refuses a tag** (any table with `template ∉ guardTextSwitch`,
any guard state, reachable or not): iff the tag is text-mode switching and the state is
`InSelect` (tag ≠ script, tag not one of the select-exit tags select/textarea/input/keygen), or
`InTemplateInSelect`, or `InOrAfterFrameset` (tag ≠ noframes). The error names the tag. -/
theorem C03_guard_err_iff (cfg : TagCfg) (hside : Lemmas.Guard.Side cfg) (g : GuardState) (tag : Nat) :
    ((∃ e, Guard.trackStartTag cfg g tag = .error e) ↔
      (tag ∈ cfg.guardTextSwitch ∧
        ((g = .inSelect ∧ tag ≠ cfg.gScript ∧ tag ∉ cfg.gSelectExit) ∨
         (∃ d, g = .inTemplateInSelect d) ∨
         (g = .inOrAfterFrameset ∧ tag ≠ cfg.gNoframes)))) ∧
    (∀ e, Guard.trackStartTag cfg g tag = .error e → e = .ambiguity tag) := by
  unfold Lemmas.Guard.Side at hside
  have hside' : cfg.gTemplate ∉ cfg.guardTextSwitch := by simpa using hside
  cases g with
  | default =>
    by_cases h1 : tag = cfg.gSelect
    · simp [Guard.trackStartTag, h1]
    · by_cases h2 : tag = cfg.gFrameset
      · subst h2; simp [Guard.trackStartTag, h1]
      · simp [Guard.trackStartTag, h1, h2]
  | inSelect =>
    by_cases h1 : tag ∈ cfg.gSelectExit
    · simp [Guard.trackStartTag, h1]
    by_cases h2 : tag = cfg.gTemplate
    · subst h2; simp [Guard.trackStartTag, h1, hside']
    by_cases h3 : tag = cfg.gScript
    · subst h3; simp [Guard.trackStartTag, h1, h2]
    by_cases h4 : tag ∈ cfg.guardTextSwitch <;>
      simp [Guard.trackStartTag, Lemmas.Guard.assert_eq, h1, h2, h3, h4]
  | inTemplateInSelect d =>
    by_cases h2 : tag = cfg.gTemplate
    · subst h2; simp [Guard.trackStartTag, hside']
    by_cases h4 : tag ∈ cfg.guardTextSwitch <;>
      simp [Guard.trackStartTag, Lemmas.Guard.assert_eq, h2, h4]
  | inOrAfterFrameset =>
    by_cases h3 : tag = cfg.gNoframes
    · simp [Guard.trackStartTag, h3]
    by_cases h4 : tag ∈ cfg.guardTextSwitch <;>
      simp [Guard.trackStartTag, Lemmas.Guard.assert_eq, h3, h4]

/-- **Guard = specification**, for every event sequence: folding `track_start_tag` /
`track_end_tag` from the initial state gives exactly the outcome of `Spec.Guard.run` — the same
error at the same event, or the enum encoding of the specified context (after-frameset sticky /
in select / number of open templates in select). -/
theorem C03_guard_spec (cfg : TagCfg) (hside : Lemmas.Guard.Side cfg) (es : List Ev) :
    Guard.run cfg .default es = (Spec.Guard.run cfg Spec.Guard.init es).map Spec.Guard.toGuard :=
  Lemmas.Guard.run_sim cfg hside es Spec.Guard.init Lemmas.Guard.wf_init

/-- … in particular for the tables translated from the sources. -/
theorem C03_guard_spec_gen (es : List Ev) :
    Guard.run Gen.Tags.cfg .default es =
      (Spec.Guard.run Gen.Tags.cfg Spec.Guard.init es).map Spec.Guard.toGuard :=
  C03_guard_spec _ C03_guard_side_gen es

/-- non-vacuity: `<select><template><template></template><xmp>` is refused at `xmp`, and
`<select><template></template></select><xmp>` is accepted, in model and specification alike. -/
example :
    let c := Gen.Tags.cfg
    Guard.run c .default [.start c.gSelect, .start c.gTemplate, .start c.gTemplate, .end c.gTemplate,
        .start 30293] = .error (.ambiguity 30293) ∧
    Guard.run c .default [.start c.gSelect, .start c.gTemplate, .end c.gTemplate, .end c.gSelect,
        .start 30293] = .ok .default := ⟨rfl, rfl⟩


/-- The template depth stored in `InTemplateInSelect` is never 0 in a reachable state, so the
`depth - 1` in `track_end_tag` (ambiguity_guard.rs:201, a `u64` subtraction) cannot underflow.
(Every intermediate state of a run is the final state of a prefix run, so this covers all calls.) -/
theorem C03_guard_depth_pos (cfg : TagCfg) (hside : Lemmas.Guard.Side cfg) (es : List Ev) (d : Nat)
    (h : Guard.run cfg .default es = .ok (.inTemplateInSelect d)) : 1 ≤ d := by
  rw [C03_guard_spec cfg hside es] at h
  cases hr : Spec.Guard.run cfg Spec.Guard.init es with
  | error e => rw [hr] at h; cases h
  | ok s =>
    rw [hr] at h
    have h' : Spec.Guard.toGuard s = .inTemplateInSelect d := by
      simpa [Except.map] using h
    obtain ⟨f, sel, t⟩ := s
    cases f <;> cases sel <;> simp [Spec.Guard.toGuard] at h'
    by_cases ht : t = 0
    · simp [ht] at h'
    · simp [ht] at h'; omega

/-- Frameset is sticky: once in `InOrAfterFrameset` the guard never leaves it. -/
theorem C03_guard_frameset_sticky (cfg : TagCfg) (es : List Ev) (g : GuardState)
    (h : Guard.run cfg .inOrAfterFrameset es = .ok g) : g = .inOrAfterFrameset := by
  induction es with
  | nil => simp [Guard.run] at h; exact h.symm
  | cons e es ih =>
    cases e with
    | start t =>
      simp only [Guard.run] at h
      cases ht : Guard.trackStartTag cfg .inOrAfterFrameset t with
      | error e => rw [ht] at h; cases h
      | ok g' =>
        rw [ht] at h
        have : g' = .inOrAfterFrameset := by
          unfold Guard.trackStartTag at ht
          simp only at ht
          repeat' split at ht
          all_goals first | cases ht; rfl | cases ht
        subst this
        exact ih h
    | «end» t =>
      simp only [Guard.run, Guard.trackEndTag] at h
      exact ih h

/-- Documents with no `<select>` and no `<frameset>` start tag are never refused (strict mode can
only fail after one of those two tags), and the guard stays in `Default`. -/
theorem C03_guard_inert (cfg : TagCfg) (es : List Ev)
    (h : ∀ e ∈ es, e ≠ .start cfg.gSelect ∧ e ≠ .start cfg.gFrameset) :
    Guard.run cfg .default es = .ok .default := by
  induction es with
  | nil => rfl
  | cons e es ih =>
    have he := h e (by simp)
    have ih' := ih (fun x hx => h x (by simp [hx]))
    cases e with
    | start t =>
      have h1 : t ≠ cfg.gSelect := fun hh => he.1 (by rw [hh])
      have h2 : t ≠ cfg.gFrameset := fun hh => he.2 (by rw [hh])
      simp [Guard.run, Guard.trackStartTag, h1, h2, ih']
    | «end» t => simp [Guard.run, Guard.trackEndTag, ih']


/-! ## 4. Simulator invariants

`Sim.stepTag` (Lemmas/Sim.lean) is one tag as the lexer drives the simulator: `feedbackForStartTag`
or `feedbackForEndTag`, and if that answers `RequestLexeme k`, `runCallback k` at once on the same
tag. `Sim.run` iterates it and records the state and feedback after every tag. The hash and the
lexeme view of an event are arbitrary and unrelated, so the statements cover every tag sequence
whatsoever. -/

open LolHtml.Lemmas.Sim (Inv FbOk erase eraseR)

/-- **Simulator invariants**, for any tables, any mode and any tag sequence: after every tag the
namespace stack is non-empty with `current_ns` on top and `Html` at the bottom; every
`SetAllowCdata b` carries `b = (current_ns ≠ Html)`; no request is left pending; and a run can only
be stopped by the guard's ambiguity error in strict mode — in particular the
`debug_assert!(false, "Namespace stack should always have at least one item")` of `leave_ns`
(mod.rs:192-195) and the `expect_tag!` assertions are unreachable. -/
theorem C03_sim_invariants (cfg : TagCfg) (strict : Bool) (evs : List TagEvent) :
    (∀ p ∈ (Sim.run cfg (Sim.new strict) evs).1,
        p.1.nsStack ≠ [] ∧ p.1.nsStack.head? = some p.1.currentNs ∧ p.1.nsStack.getLast? = some .html ∧
        (∀ b, p.2 = .setAllowCdata b → b = (p.1.currentNs != .html)) ∧
        (∀ k, p.2 ≠ .requestLexeme k) ∧ p.1.strict = strict) ∧
    (∀ e, (Sim.run cfg (Sim.new strict) evs).2 = some e → strict = true ∧ ∃ t, e = .ambiguity t) := by
  have := Lemmas.Sim.run_good cfg evs (Sim.new strict) (Lemmas.Sim.inv_new strict)
  refine ⟨?_, this.2⟩
  intro p hp
  obtain ⟨hi, hf, hs⟩ := this.1 p hp
  refine ⟨?_, hi.top, hi.bottom, hf.1, hf.2, hs⟩
  intro hnil
  have := hi.top
  rw [hnil] at this
  cases this

/-- non-vacuity: both outcomes occur — `<select><xmp>` is refused in strict mode and accepted
(switching to RAWTEXT) in non-strict mode. -/
example :
    let sel : TagEvent := ⟨Gen.Tags.cfg.gSelect, ⟨true, [], [], false⟩⟩
    let xmp : TagEvent := ⟨30293, ⟨true, [], [], false⟩⟩
    (Sim.run Gen.Tags.cfg (Sim.new true) [sel, xmp]).2 = some (.ambiguity 30293) ∧
    (Sim.run Gen.Tags.cfg (Sim.new false) [sel, xmp]).2 = none ∧
    (Sim.run Gen.Tags.cfg (Sim.new false) [sel, xmp]).1.map (·.2) = [.none, .switchTextType .rawText] := by
  decide +kernel

/-- The single-step form (usable as an inductive invariant by the parser proofs). -/
theorem C03_sim_step (cfg : TagCfg) (s : Sim) (h : Inv s) (ev : TagEvent) :
    (∃ s' fb, s.stepTag cfg ev = .ok (s', fb) ∧ Inv s' ∧ FbOk s' fb ∧ s'.strict = s.strict) ∨
    (s.strict = true ∧ ev.view.isStart = true ∧ s.stepTag cfg ev = .error (.ambiguity ev.hash)) :=
  Lemmas.Sim.step_good cfg s h ev

/-- Without `<svg>`/`<math>` start tags the namespace stays `Html` throughout: the stack stays
`[Html]`, and the feedback is exactly the table lookup (`get_text_type_adjustment`) for start tags
and `None` for end tags. -/
theorem C03_sim_html_only (cfg : TagCfg) (strict : Bool) (evs : List TagEvent)
    (h : ∀ ev ∈ evs, ev.view.isStart = true → ev.hash ≠ cfg.svg ∧ ev.hash ≠ cfg.math) :
    let r := Sim.run cfg (Sim.new strict) evs
    (∀ p ∈ r.1, p.1.nsStack = [.html] ∧ p.1.currentNs = .html) ∧
    (∀ i (hi : i < r.1.length), ∃ ev, evs[i]? = some ev ∧
        r.1[i].2 = if ev.view.isStart then textTypeAdjustment cfg ev.hash else .none) := by
  have gen : ∀ (evs : List TagEvent) (s : Sim), s.nsStack = [.html] → s.currentNs = .html →
      (∀ ev ∈ evs, ev.view.isStart = true → ev.hash ≠ cfg.svg ∧ ev.hash ≠ cfg.math) →
      (∀ p ∈ (Sim.run cfg s evs).1, p.1.nsStack = [.html] ∧ p.1.currentNs = .html) ∧
      (∀ i (hi : i < (Sim.run cfg s evs).1.length), ∃ ev, evs[i]? = some ev ∧
        (Sim.run cfg s evs).1[i].2 = if ev.view.isStart then textTypeAdjustment cfg ev.hash else .none) := by
    intro evs
    induction evs with
    | nil => intro s _ _ _; simp [Sim.run]
    | cons ev evs ih =>
      intro s hs hc hall
      rcases Lemmas.Sim.step_html cfg s hs hc ev (hall ev (by simp)) with ⟨g, he⟩ | ⟨-, -, he⟩
      · have ih' := ih { s with guard := g } hs hc (fun x hx => hall x (by simp [hx]))
        simp only [Sim.run, he]
        constructor
        · intro p hp
          rcases List.mem_cons.mp hp with rfl | hp
          · exact ⟨hs, hc⟩
          · exact ih'.1 p hp
        · intro i hi
          cases i with
          | zero => exact ⟨ev, rfl, rfl⟩
          | succ i =>
            simp only [List.length_cons] at hi
            obtain ⟨ev', h1, h2⟩ := ih'.2 i (by omega)
            exact ⟨ev', by simpa using h1, by simpa using h2⟩
      · simp [Sim.run, he]
  exact gen evs (Sim.new strict) rfl rfl h

/-- non-vacuity: `<div><textarea></textarea>` -/
example :
    let evs : List TagEvent := [⟨9691, ⟨true, [], [], false⟩⟩, ⟨870730390854, ⟨true, [], [], false⟩⟩,
      ⟨870730390854, ⟨false, [], [], false⟩⟩]
    (Sim.run Gen.Tags.cfg (Sim.new true) evs).1.map (·.2) = [.none, .switchTextType .rcData, .none] ∧
    (∀ ev ∈ evs, ev.view.isStart = true → ev.hash ≠ Gen.Tags.cfg.svg ∧ ev.hash ≠ Gen.Tags.cfg.math) := by
  decide +kernel

/-- **Strict = non-strict at the simulator**: if the strict run is not refused, the non-strict run
goes through the same namespace states and produces the same feedback, tag by tag (`erase` forgets
the guard state and the `strict` flag, which nothing else reads). -/
theorem C03_sim_strict_eq_nonstrict (cfg : TagCfg) (evs : List TagEvent)
    (h : (Sim.run cfg (Sim.new true) evs).2 = none) :
    Sim.run cfg (Sim.new false) evs = ((Sim.run cfg (Sim.new true) evs).1.map eraseR, none) :=
  Lemmas.Sim.run_erase cfg evs (Sim.new true) h


/-! ## 5. Well-nested foreign content

`Spec.Island` (Spec/Island.lean) is the grammar; `Island.flat` lists the tags of a derivation, each
with the namespace expected after it. -/

open LolHtml.Spec.Island (Island FSeq HSeq FNs startEv endEv)
open LolHtml.Lemmas.Island (lastState)

/-- namespaces after each tag of a run -/
def nsTrace (cfg : TagCfg) (s : Sim) (evs : List TagEvent) : List Ns :=
  (Sim.run cfg s evs).1.map (·.1.currentNs)

/-- **Foreign-content grammar theorem.** For any tables with `svg ≠ math`, any well-formed island
and any HTML-namespace state `s` of the non-strict simulator satisfying the invariant (e.g. the
initial state, or the state inside an integration point of an enclosing island): running the
simulator — `RequestLexeme` callbacks applied at once — over the island's tag sequence raises no
error, is in the expected namespace after **every** tag, and ends in exactly the state `s` it
started from (so: back in `Html`, stack restored). -/
theorem C03_foreign_grammar (cfg : TagCfg) (hsm : cfg.svg ≠ cfg.math) (i : Island) (hok : i.Ok cfg)
    (s : Sim) (hinv : Inv s) (hns : s.strict = false) (hhtml : s.currentNs = .html) :
    (Sim.run cfg s (i.flat.map (·.1))).2 = none ∧
    nsTrace cfg s (i.flat.map (·.1)) = i.flat.map (·.2) ∧
    lastState s (Sim.run cfg s (i.flat.map (·.1))).1 = s :=
  Lemmas.Island.steps_run (Lemmas.Island.island_steps cfg hsm i hok s hinv hns hhtml)

/-- The same for the strict simulator, as long as the guard does not refuse a tag: same namespaces
(the guard state is the only thing that differs). -/
theorem C03_foreign_grammar_strict (cfg : TagCfg) (hsm : cfg.svg ≠ cfg.math) (i : Island)
    (hok : i.Ok cfg) (s : Sim) (hinv : Inv s) (hhtml : s.currentNs = .html)
    (hacc : (Sim.run cfg s (i.flat.map (·.1))).2 = none) :
    nsTrace cfg s (i.flat.map (·.1)) = i.flat.map (·.2) := by
  have he := Lemmas.Sim.run_erase cfg (i.flat.map (·.1)) s hacc
  have := (C03_foreign_grammar cfg hsm i hok (erase s) ⟨hinv.top, hinv.bottom⟩ rfl hhtml).2.1
  unfold nsTrace at this ⊢
  rw [he] at this
  simpa [List.map_map, Function.comp_def, eraseR, erase] using this

/-- **Whole documents of the claimed domain**: arbitrary HTML-namespace tag soup (any tags but
`<svg>`/`<math>` start tags) interleaved with well-formed islands. From the initial state the
non-strict simulator accepts every tag, is in `Html` after every soup tag and in the expected
namespace after every island tag, and is back in its initial state at the end. -/
theorem C03_foreign_doc (cfg : TagCfg) (hsm : cfg.svg ≠ cfg.math) (d : List Spec.Island.DocItem)
    (hok : ∀ x ∈ d, x.Ok cfg) :
    let evs := (Spec.Island.docFlat d).map (·.1)
    (Sim.run cfg (Sim.new false) evs).2 = none ∧
    nsTrace cfg (Sim.new false) evs = (Spec.Island.docFlat d).map (·.2) ∧
    lastState (Sim.new false) (Sim.run cfg (Sim.new false) evs).1 = Sim.new false :=
  Lemmas.Island.steps_run (Lemmas.Island.doc_steps cfg hsm d hok)

/-- side condition on the translated tables -/
theorem C03_svg_ne_math_gen : Gen.Tags.cfg.svg ≠ Gen.Tags.cfg.math := by decide +kernel

/-- Non-vacuity: the island
`<svg><g><circle/></g><desc><b></b><math><mi><i></i></mi><annotation-xml encoding="text/html"><p></p></annotation-xml></math></desc><title></title></svg>`
is well-formed for the translated tables, and its expected namespaces are as listed. -/
def exampleIsland : Island :=
  { ns := .svg, name := [115, 118, 103], attrs := [],
    children :=
      .elem [103] [] (.selfClosing [99, 105, 114, 99, 108, 101] [] .nil) <|
      .ip [100, 101, 115, 99] []
        (.elem [98] [] .nil <|
         .island .mathml [109, 97, 116, 104] []
           (.ip [109, 105] [] (.elem [105] [] .nil .nil) <|
            .ip bAnnotationXml [(bEncoding, bTextHtml)] (.elem [112] [] .nil .nil) .nil)
           .nil) <|
      .ip [116, 105, 116, 108, 101] [] .nil .nil }

theorem exampleIsland_ok : exampleIsland.Ok Gen.Tags.cfg := by
  simp only [exampleIsland, Island.Ok, FSeq.Ok, HSeq.Ok, Spec.Island.PlainStart, Spec.Island.NotIP,
    Spec.Island.PlainEnd, Spec.Island.IsIP, Spec.Island.HtmlStart, Spec.Island.HtmlEnd]
  repeat' apply And.intro
  all_goals decide +kernel

example :
    nsTrace Gen.Tags.cfg (Sim.new false) (exampleIsland.flat.map (·.1)) =
      [.svg, .svg, .svg, .svg, .html, .html, .html, .mathml, .html, .html, .html, .mathml, .html,
        .html, .html, .mathml, .html, .svg, .html, .svg, .html] := by
  rw [(C03_foreign_grammar Gen.Tags.cfg C03_svg_ne_math_gen exampleIsland exampleIsland_ok
    (Sim.new false) (Lemmas.Sim.inv_new false) rfl rfl).2.1]
  decide +kernel

/-! ### Why the side conditions of the grammar are there: deviations of the simulator from WHATWG -/

/-- svg / math / desc / title / mi / textarea -/
def nSvg : Bytes := [115, 118, 103]
def nMath : Bytes := [109, 97, 116, 104]
def nDesc : Bytes := [100, 101, 115, 99]
def nTitle : Bytes := [116, 105, 116, 108, 101]
def nMi : Bytes := [109, 105]

/-- **F2 (known)**: a self-closing root `<svg/>` still enters the SVG namespace — WHATWG pops the
element at once, the namespace stays `Html`. Hence the grammar demands an explicitly closed root. -/
theorem C03_foreign_selfclosing_root_counterexample :
    nsTrace Gen.Tags.cfg (Sim.new false) [startEv nSvg [] true] = [.svg] := by
  decide +kernel

/-- **F10**: `<svg><math><mi>` — the simulator switches to MathML on *any* `math` start tag and then
takes `mi` for a MathML text integration point (namespaces svg, mathml, html). For WHATWG a `math`
start tag in SVG content is just an SVG-namespace element (§13.2.6.5 "any other start tag"), and so
is `mi`: svg, svg, svg. Hence foreign elements of the grammar are not named `svg`/`math`.
On the real code: `<svg><math><mi><textarea><b>x</b>` reports `<b>x</b>` as text, while
html5ever builds an element `b`. -/
theorem C03_foreign_cross_ns_counterexample :
    nsTrace Gen.Tags.cfg (Sim.new false) [startEv nSvg [] false, startEv nMath [] false, startEv nMi [] false]
      = [.svg, .mathml, .html] := by
  decide +kernel

/-- **F11**: `<svg><desc><title></title>` — inside the integration point `desc` the HTML element
`title` is closed by `</title>`; the simulator takes that end tag for the end of an SVG `title`
integration point and falls back to SVG (svg, html, html, **svg**), while the tree builder is still
inside `desc` (svg, html, html, html). Hence `HtmlEnd` in the grammar.
On the real code: `<svg><desc><title>a</title><textarea><b>x</b>` reports an element `b`, while
html5ever has the text `<b>x</b>` inside an HTML `textarea`. -/
theorem C03_foreign_ip_name_counterexample :
    nsTrace Gen.Tags.cfg (Sim.new false)
      [startEv nSvg [] false, startEv nDesc [] false, startEv nTitle [] false, endEv nTitle]
      = [.svg, .html, .html, .svg] := by
  decide +kernel

end LolHtml.Thm.C03
