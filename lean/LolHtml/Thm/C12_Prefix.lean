import LolHtml.Lemmas.Total
import LolHtml.Lemmas.SinkMono
import LolHtml.Thm.C01
/-!
# C12 — what a memory-limit failure leaves in the sink is a prefix of the unlimited run

Two transform streams fed the same writes, differing only in their memory accounting (limit,
preallocation). The controller is a parameter of the model and cannot observe the limiter, so the
parser / dispatcher runs are identical up to the failing allocation (`BufSim`: a simulation on `Buf`
only). Hence, without the graceful `bail_out_on_memory_limit` flag:

* while the limited stream succeeds, so does the other one, and they stay related;
* when the limited stream fails (at `Arena::append`, at `Arena::init_with`, or — identically in both —
  with an error coming from the parser or a handler), the sink log of the limited stream is a prefix
  of the sink log of the other stream after the same call (`C12_prefix_step`), hence of its log at any
  later point (`Grows`).

"Unlimited" = a limit that is at least the number of bytes the arena must hold (`BufOK` + bound, see
`Lemmas/Total.lean`), so that the second stream's arena never fails.
-/
namespace LolHtml.Thm.C12P
open LolHtml LolHtml.Model LolHtml.Thm.C01

variable {γ : Type}

/-- two streams that differ only in their buffer accounting -/
structure BufSim (s s' : Stream γ) : Prop where
  parser : s'.parser = s.parser
  hasBuffered : s'.hasBuffered = s.hasBuffered
  data : s.hasBuffered = true → s'.buf.data = s.buf.data
  onMem : s'.cfg.bailOnMem = s.cfg.bailOnMem
  onHandler : s'.cfg.bailOnHandler = s.cfg.bailOnHandler

section
variable {w : World γ}

theorem bail_disp_congr (s0 s0' : Stream γ) (e : Err) (sl : List Bytes) (hd : s0'.disp = s0.disp)
    (h1 : s0'.cfg.bailOnMem = s0.cfg.bailOnMem) (h2 : s0'.cfg.bailOnHandler = s0.cfg.bailOnHandler) :
    (s0'.bail w e sl).disp = (s0.bail w e sl).disp := by
  have hsb : s0'.shouldBailOutFor e = s0.shouldBailOutFor e := by
    cases e <;> simp [Stream.shouldBailOutFor, Settings.recovers, h1, h2]
  unfold Stream.bail
  rw [hsb]
  split
  · simp only [Stream.disp, Stream.setDisp] at hd ⊢
    rw [hd]
  · exact hd

theorem Buf.initWith_data (b : Buf) (s : Bytes) (h : (b.initWith s).2 = true) : (b.initWith s).1.data = s := by
  have := Buf.append_data { b with data := [] } s (by simpa [Buf.initWith] using h)
  simpa [Buf.initWith] using this

/-- the tail-keeping step under the simulation -/
theorem keepTail_sim (s s' : Stream γ) (data chunk : Bytes) (consumed : Nat) (hsim : BufSim s s')
    (hbok : BufOK s'.buf) (hm : data.length ≤ s'.buf.max) (hoff : s.cfg.bailOnMem = false) :
    ((s.keepTail w data chunk consumed).2 = .ok () →
      (s'.keepTail w data chunk consumed).2 = .ok () ∧
      BufSim (s.keepTail w data chunk consumed).1 (s'.keepTail w data chunk consumed).1) ∧
    (s'.keepTail w data chunk consumed).1.disp = (s.keepTail w data chunk consumed).1.disp := by
  obtain ⟨hp, hhb, hdat, hf1, hf2⟩ := hsim
  have hdisp : s'.disp = s.disp := by simp [Stream.disp, hp]
  unfold Stream.keepTail
  by_cases hlt : consumed < chunk.length
  · simp only [hlt, if_true]
    by_cases hb : s.hasBuffered = true
    · have hb' : s'.hasBuffered = true := by rw [hhb]; exact hb
      simp only [hb, hb', if_true]
      unfold Buf.shift
      rw [hdat hb]
      by_cases hle : consumed ≤ s.buf.data.length
      · simp only [hle, if_true]
        refine ⟨fun _ => ⟨by first | rfl | trivial, ?_⟩, hdisp⟩
        exact ⟨hp, by first | rfl | trivial, fun _ => by first | rfl | trivial, hf1, hf2⟩
      · simp only [hle, if_false]
        exact ⟨fun h => (by cases h), hdisp⟩
    · have hbf : s.hasBuffered = false := by simpa using hb
      have hbf' : s'.hasBuffered = false := by rw [hhb]; exact hbf
      simp only [hbf, hbf', Bool.false_eq_true, if_false]
      obtain ⟨i1, _, _⟩ := Buf.initWith_ok s'.buf (data.drop consumed) hbok (by simp only [List.length_drop]; omega)
      simp only [i1, if_true]
      by_cases hi : (s.buf.initWith (data.drop consumed)).2 = true
      · simp only [hi, if_true]
        refine ⟨fun _ => ⟨by first | rfl | trivial, ?_⟩, hdisp⟩
        refine ⟨hp, by first | rfl | trivial, fun _ => ?_, hf1, hf2⟩
        dsimp only
        rw [Buf.initWith_data _ _ i1, Buf.initWith_data _ _ hi]
      · simp only [hi, Bool.false_eq_true, if_false]
        refine ⟨fun h => (by cases h), ?_⟩
        rw [Stream.bail_off _ _ _ (by simp [Stream.shouldBailOutFor, Settings.recovers, hoff])]
        exact hdisp
  · simp only [hlt, if_false]
    refine ⟨fun _ => ⟨by first | rfl | trivial, ?_⟩, hdisp⟩
    exact ⟨hp, by first | rfl | trivial, fun h => (by cases h), hf1, hf2⟩

/-- **C12_prefix_step.** One `write` on a stream `s` and on a stream `s'` that differs from it only in
its memory accounting and whose arena cannot fail: if `s` succeeds so does `s'` and they stay related;
if `s` fails, its sink log is a prefix of the log of `s'` after the same call. -/
theorem C12_prefix_step (hce : CleanEnds w.ctl) (s s' : Stream γ) (data : Bytes) (hsim : BufSim s s')
    (hbok : BufOK s'.buf) (hbound : s'.pending.length + data.length ≤ s'.buf.max)
    (hoff : s.cfg.bailOnMem = false) :
    ((s.write w data).2 = .ok () →
      (s'.write w data).2 = .ok () ∧ BufSim (s.write w data).1 (s'.write w data).1) ∧
    (∀ e, (s.write w data).2 = .error e →
      ∃ l, (s'.write w data).1.disp.sink = (s.write w data).1.disp.sink ++ l) := by
  have hsim' := hsim
  obtain ⟨hp, hhb, hdat, hf1, hf2⟩ := hsim'
  have hdisp : s'.disp = s.disp := by simp [Stream.disp, hp]
  -- the second stream's `chunkFor` always succeeds
  have hcf' : ∃ s1', s'.chunkFor w data = .inr (s1', s'.pending ++ data) ∧ s1'.parser = s'.parser ∧
      s1'.hasBuffered = s'.hasBuffered ∧ s1'.cfg = s'.cfg ∧ BufOK s1'.buf ∧ s1'.buf.max = s'.buf.max ∧
      (s'.hasBuffered = true → s1'.buf.data = s'.pending ++ data) := by
    unfold Stream.chunkFor
    by_cases hb : s'.hasBuffered = true
    · obtain ⟨a1, a2, a3⟩ := Buf.append_ok s'.buf data hbok (by simpa [Stream.pending, hb] using hbound)
      have a4 := Buf.append_data _ _ a1
      refine ⟨{ s' with buf := (s'.buf.append data).1 }, ?_, rfl, rfl, rfl, a2, a3, fun _ => by simp [Stream.pending, hb, a4]⟩
      simp only [hb, if_true, a1, Stream.pending, a4]
    · refine ⟨s', ?_, rfl, rfl, rfl, hbok, rfl, fun h => absurd h hb⟩
      simp only [hb, Bool.false_eq_true, if_false, Stream.pending, List.nil_append]
  obtain ⟨s1', e1, e2, e3, e4, e5, e6, e7⟩ := hcf'
  have hpend : s'.pending = s.pending := by
    simp only [Stream.pending, hhb]
    split
    · rename_i hb; exact hdat hb
    · rfl
  cases hcf : s.chunkFor w data with
  | inl s0 =>
    -- `Arena::append` failed in the limited stream: nothing was emitted
    obtain ⟨hb, hs0⟩ := Stream.chunkFor_inl hcf
    subst hs0
    have hw' := Stream.write_grows hce s' data
    have hsw : s.write w data =
        (({ s with buf := (s.buf.append data).1 }).bail w .mem [s.buf.data, data], .error .mem) := by
      unfold Stream.write; rw [hcf]
    rw [hsw]
    refine ⟨fun h => (by cases h), fun e _ => ?_⟩
    dsimp only
    rw [Stream.bail_off _ _ _ (by simp [Stream.shouldBailOutFor, Settings.recovers, hoff])]
    obtain ⟨l, hl, _⟩ := hw'
    exact ⟨l, by rw [hl, hdisp]; rfl⟩
  | inr sc =>
    obtain ⟨s1, chunk⟩ := sc
    obtain ⟨c1, c2, c3, c4, c5⟩ := Stream.chunkFor_inr hcf
    have hchunk : s'.pending ++ data = chunk := by rw [c1, hpend]
    unfold Stream.write
    rw [hcf, e1, hchunk]
    dsimp only
    have hpar : s1'.parser = s1.parser := by rw [e2, hp, c2]
    rw [hpar]
    have hsim1 : BufSim { s1 with parser := (s1.parser.parse w.env chunk false).1 }
        { s1' with parser := (s1.parser.parse w.env chunk false).1 } :=
      ⟨rfl, by dsimp only; rw [e3, hhb, c3], fun hb => by
        dsimp only at hb ⊢
        rw [c3] at hb
        rw [c5 hb, e7 (by rw [hhb]; exact hb), hchunk], by dsimp only; rw [e4, c4]; exact hf1,
        by dsimp only; rw [e4, c4]; exact hf2⟩
    cases hpr : (s1.parser.parse w.env chunk false).2 with
    | error e =>
      dsimp only
      refine ⟨fun h => (by cases h), fun e' _ => ⟨[], ?_⟩⟩
      rw [List.append_nil]
      exact congrArg Disp.sink (bail_disp_congr _ _ e [chunk] rfl hsim1.onMem hsim1.onHandler)
    | ok consumed =>
      dsimp only
      have hdeq : Stream.disp { s1' with parser := (s1.parser.parse w.env chunk false).1 }
          = Stream.disp { s1 with parser := (s1.parser.parse w.env chunk false).1 } := rfl
      rw [hdeq]
      cases hfl : Disp.flushRemaining (Stream.disp { s1 with parser := (s1.parser.parse w.env chunk false).1 }) chunk consumed with
      | error e =>
        dsimp only
        exact ⟨fun h => (by cases h), fun e' _ => ⟨[], by simp [Stream.disp]⟩⟩
      | ok d =>
        dsimp only
        have hk := keepTail_sim (w := w)
          (Stream.setDisp { s1 with parser := (s1.parser.parse w.env chunk false).1 } d)
          (Stream.setDisp { s1' with parser := (s1.parser.parse w.env chunk false).1 } d) data chunk consumed
          ⟨rfl, hsim1.hasBuffered, hsim1.data, hsim1.onMem, hsim1.onHandler⟩ e5
          (by
            have : data.length ≤ s'.buf.max := by omega
            simpa [Stream.setDisp, e6] using this)
          (by simpa [Stream.setDisp, c4] using hoff)
        exact ⟨fun h => hk.1 h, fun e' _ => ⟨[], by rw [List.append_nil, hk.2]⟩⟩

end

/-- the prefix survives every later call of the unlimited stream (its log only grows) -/
theorem prefix_later {w : World γ} (hce : CleanEnds w.ctl) (s' : Stream γ) (data : Bytes) (pre : List SinkEv)
    (h : ∃ l, s'.disp.sink = pre ++ l) : ∃ l, (s'.write w data).1.disp.sink = pre ++ l := by
  obtain ⟨l, hl⟩ := h
  obtain ⟨l2, hl2, _⟩ := Stream.write_grows hce s' data
  exact ⟨l ++ l2, by rw [hl2, hl, List.append_assoc]⟩

/-- on bytes: the sink bytes of the limited stream at its failure are a prefix of the other's -/
theorem C12_prefix_bytes {w : World γ} (hce : CleanEnds w.ctl) (s s' : Stream γ) (data : Bytes)
    (hsim : BufSim s s') (hbok : BufOK s'.buf) (hbound : s'.pending.length + data.length ≤ s'.buf.max)
    (hoff : s.cfg.bailOnMem = false) (e : Err) (he : (s.write w data).2 = .error e) :
    ∃ rest, sinkBytes (s'.write w data).1.disp.sink = sinkBytes (s.write w data).1.disp.sink ++ rest := by
  obtain ⟨l, hl⟩ := (C12_prefix_step hce s s' data hsim hbok hbound hoff).2 e he
  exact ⟨sinkBytes l, by rw [hl, sinkBytes_append]⟩

/-- two fresh streams over the same world and settings except for the memory accounting are related -/
theorem new_sim (w : World γ) (g : γ) (cfg cfg' : Settings) (h1 : cfg'.strict = cfg.strict)
    (h2 : cfg'.encoding = cfg.encoding) (h3 : cfg'.bailOnMem = cfg.bailOnMem)
    (h4 : cfg'.bailOnHandler = cfg.bailOnHandler) :
    BufSim (Stream.new w g cfg) (Stream.new w g cfg') ∧ BufOK (Stream.new w g cfg').buf ∧
      (Stream.new w g cfg').buf.max = cfg'.maxMem := by
  refine ⟨⟨?_, rfl, fun h => (by cases h), h3, h4⟩, (Buf.new_ok _ _).1, (Buf.new_ok _ _).2⟩
  simp only [Stream.new, h1, h2]


/-! ### whole histories -/

theorem Stream.write_pending_le {w : World γ} (s : Stream γ) (data : Bytes) (h : (s.write w data).2 = .ok ()) :
    (s.write w data).1.pending.length ≤ s.pending.length + data.length := by
  unfold Stream.write at h ⊢
  cases hcf : s.chunkFor w data with
  | inl s' => rw [hcf] at h; cases h
  | inr sc =>
    obtain ⟨s1, chunk⟩ := sc
    obtain ⟨c1, c2, c3, c4, c5⟩ := Stream.chunkFor_inr hcf
    rw [hcf] at h
    dsimp only at h ⊢
    have hcl : chunk.length = s.pending.length + data.length := by rw [c1]; simp
    cases hpr : (s1.parser.parse w.env chunk false).2 with
    | error e => rw [hpr] at h; cases h
    | ok consumed =>
      rw [hpr] at h
      dsimp only at h ⊢
      cases hfl : Disp.flushRemaining (Stream.disp { s1 with parser := (s1.parser.parse w.env chunk false).1 }) chunk consumed with
      | error e => rw [hfl] at h; cases h
      | ok d =>
        rw [hfl] at h
        dsimp only at h ⊢
        unfold Stream.keepTail at h ⊢
        by_cases hlt : consumed < chunk.length
        · rw [if_pos hlt] at h ⊢
          by_cases hb : (Stream.setDisp { s1 with parser := (s1.parser.parse w.env chunk false).1 } d).hasBuffered = true
          · rw [if_pos hb] at h ⊢
            have hbs : s.hasBuffered = true := by simpa [Stream.setDisp, c3] using hb
            have hshift : (Stream.setDisp { s1 with parser := (s1.parser.parse w.env chunk false).1 } d).buf.shift consumed
                = if consumed ≤ s1.buf.data.length then some { s1.buf with data := s1.buf.data.drop consumed } else none := rfl
            rw [hshift] at h ⊢
            by_cases hle : consumed ≤ s1.buf.data.length
            · rw [if_pos hle]
              have hbt : (Stream.setDisp { s1 with parser := (s1.parser.parse w.env chunk false).1 } d).hasBuffered = true := hb
              have : s1.buf.data.length = chunk.length := by rw [c5 hbs]
              have hpl : ∀ (st : Stream γ), st.hasBuffered = true → st.pending = st.buf.data := by
                intro st hst; simp [Stream.pending, hst]
              dsimp only
              refine Nat.le_trans (Nat.le_of_eq (congrArg List.length (hpl _ ?_))) ?_
              · exact hbt
              · simp only [List.length_drop]
                omega
            · rw [if_neg hle] at h; cases h
          · rw [if_neg hb] at h ⊢
            dsimp only at h ⊢
            by_cases hi : ((Stream.setDisp { s1 with parser := (s1.parser.parse w.env chunk false).1 } d).buf.initWith (data.drop consumed)).2 = true
            · rw [if_pos hi]
              simp only [Stream.pending, if_true]
              rw [Buf.initWith_data _ _ hi]
              simp only [List.length_drop]
              omega
            · rw [if_neg hi] at h; cases h
        · rw [if_neg hlt]
          simp [Stream.pending]

theorem Stream.write_total_buf {w : World γ} (s : Stream γ) (data : Bytes) (hbok : BufOK s.buf)
    (hbound : s.pending.length + data.length ≤ s.buf.max) (h : (s.write w data).2 = .ok ()) :
    BufOK (s.write w data).1.buf ∧ (s.write w data).1.buf.max = s.buf.max := by
  unfold Stream.write at h ⊢
  cases hcf : s.chunkFor w data with
  | inl s' => rw [hcf] at h; cases h
  | inr sc =>
    obtain ⟨s1, chunk⟩ := sc
    have hbuf1 : BufOK s1.buf ∧ s1.buf.max = s.buf.max := by
      unfold Stream.chunkFor at hcf
      by_cases hb : s.hasBuffered = true
      · rw [if_pos hb] at hcf
        obtain ⟨a1, a2, a3⟩ := Buf.append_ok s.buf data hbok (by simpa [Stream.pending, hb] using hbound)
        dsimp only at hcf
        rw [if_pos a1] at hcf
        simp only [Sum.inr.injEq, Prod.mk.injEq] at hcf
        rw [← hcf.1]
        exact ⟨a2, a3⟩
      · rw [if_neg hb] at hcf
        simp only [Sum.inr.injEq, Prod.mk.injEq] at hcf
        rw [← hcf.1]
        exact ⟨hbok, rfl⟩
    rw [hcf] at h
    dsimp only at h ⊢
    cases hpr : (s1.parser.parse w.env chunk false).2 with
    | error e => rw [hpr] at h; cases h
    | ok consumed =>
      rw [hpr] at h
      dsimp only at h ⊢
      cases hfl : Disp.flushRemaining (Stream.disp { s1 with parser := (s1.parser.parse w.env chunk false).1 }) chunk consumed with
      | error e => rw [hfl] at h; cases h
      | ok d =>
        rw [hfl] at h
        dsimp only at h ⊢
        unfold Stream.keepTail at h ⊢
        by_cases hlt : consumed < chunk.length
        · rw [if_pos hlt] at h ⊢
          by_cases hb : (Stream.setDisp { s1 with parser := (s1.parser.parse w.env chunk false).1 } d).hasBuffered = true
          · rw [if_pos hb] at h ⊢
            have hshift : (Stream.setDisp { s1 with parser := (s1.parser.parse w.env chunk false).1 } d).buf.shift consumed
                = if consumed ≤ s1.buf.data.length then some { s1.buf with data := s1.buf.data.drop consumed } else none := rfl
            rw [hshift] at h ⊢
            by_cases hle : consumed ≤ s1.buf.data.length
            · rw [if_pos hle]
              refine ⟨⟨hbuf1.1.1, ?_⟩, hbuf1.2⟩
              have := hbuf1.1.2
              simp only [List.length_drop]
              omega
            · rw [if_neg hle] at h; cases h
          · rw [if_neg hb] at h ⊢
            dsimp only at h ⊢
            obtain ⟨i1, i2, i3⟩ := Buf.initWith_ok s1.buf (data.drop consumed) hbuf1.1
              (by simp only [List.length_drop]; rw [hbuf1.2]; omega)
            have i1' : ((Stream.setDisp { s1 with parser := (s1.parser.parse w.env chunk false).1 } d).buf.initWith (data.drop consumed)).2 = true := i1
            rw [if_pos i1']
            exact ⟨i2, by rw [← hbuf1.2]; exact i3⟩
        · rw [if_neg hlt]
          exact ⟨hbuf1.1, hbuf1.2⟩

/-- invariant relating the limited rewriter `r` and the unlimited one `r'` between successful calls -/
def RSim (M' : Nat) (r r' : Rewriter γ) (written : Bytes) : Prop :=
  r.poisoned = false ∧ r'.poisoned = false ∧ BufSim r.stream r'.stream ∧ BufOK r'.stream.buf ∧
  r'.stream.buf.max = M' ∧ r'.stream.pending.length ≤ written.length

theorem write_ok_iff {w : World γ} (r : Rewriter γ) (data : Bytes) (hp : r.poisoned = false) :
    ((r.write w data).2 = .ok ↔ (r.stream.write w data).2 = .ok ()) ∧
    (r.write w data).1.stream = (r.stream.write w data).1 ∧
    ((r.write w data).2 = .ok → (r.write w data).1.poisoned = false) ∧
    (∀ e, (r.write w data).2 = .err e ↔ (r.stream.write w data).2 = .error e) := by
  unfold Model.Rewriter.write
  rw [if_neg (by rw [hp]; simp)]
  dsimp only
  cases hres : (r.stream.write w data).2 with
  | ok u => simp [hp]
  | error e => simp

theorem writeAll_sim {w : World γ} (hce : CleanEnds w.ctl) {M' : Nat} (chunks : List Bytes) (r r' : Rewriter γ)
    (written : Bytes) (hs : RSim M' r r' written) (hoff : r.stream.cfg.bailOnMem = false)
    (hM : written.length + chunks.flatten.length ≤ M')
    (hok : ∀ x ∈ (writeAll w r chunks).2, x = CallRes.ok) :
    (∀ x ∈ (writeAll w r' chunks).2, x = CallRes.ok) ∧
    RSim M' (writeAll w r chunks).1 (writeAll w r' chunks).1 (written ++ chunks.flatten) ∧
    (writeAll w r chunks).1.stream.cfg.bailOnMem = false := by
  induction chunks generalizing r r' written with
  | nil => exact ⟨fun x hx => (by cases hx), by simpa [writeAll] using hs, hoff⟩
  | cons c cs ih =>
    simp only [writeAll, List.mem_cons, forall_eq_or_imp, List.flatten_cons, List.length_append] at hM hok ⊢
    obtain ⟨hp, hp', hsim, hbok, hmax, hpl⟩ := hs
    obtain ⟨a1, a2, a3, _⟩ := write_ok_iff (w := w) r c hp
    obtain ⟨b1, b2, b3, _⟩ := write_ok_iff (w := w) r' c hp'
    have hsok := a1.mp hok.1
    obtain ⟨st1, _⟩ := C12_prefix_step hce r.stream r'.stream c hsim hbok (by rw [hmax]; omega) hoff
    obtain ⟨t1, t2⟩ := st1 hsok
    have hbuf := Stream.write_total_buf (w := w) r'.stream c hbok (by rw [hmax]; omega) t1
    have hpl' := Stream.write_pending_le r'.stream c t1
    have hcfg : (r.write w c).1.stream.cfg.bailOnMem = false := by
      rw [a2, Stream.write_cfg]; exact hoff
    have := ih (r.write w c).1 (r'.write w c).1 (written ++ c)
      ⟨a3 hok.1, b3 (b1.mpr t1), by rw [a2, b2]; exact t2, by rw [b2]; exact hbuf.1, by rw [b2, hbuf.2]; exact hmax,
        by rw [b2]; simp only [List.length_append]; omega⟩
      hcfg (by simp only [List.length_append]; omega) hok.2
    exact ⟨⟨b1.mpr t1, this.1⟩, by simpa [List.append_assoc] using this.2.1, this.2.2⟩


/-- **C12_prefix.** The same history (`chunks`, then `data`) under two settings that differ only in the
memory accounting (`maxMem`, `prealloc`); `bail_out_on_memory_limit` off; the second limit is at least
the number of bytes written. If under the first settings all writes of `chunks` succeed and the write
of `data` fails with `e` (a memory-limit failure, or any failure), then under the second settings all
writes of `chunks` succeed too and the sink bytes of the first run at its failure are a prefix of the
sink bytes of the second run after the same call. -/
theorem C12_prefix (w : World γ) (hce : CleanEnds w.ctl) (g : γ) (cfg cfg' : Settings)
    (h1 : cfg'.strict = cfg.strict) (h2 : cfg'.encoding = cfg.encoding) (h3 : cfg'.bailOnMem = cfg.bailOnMem)
    (h4 : cfg'.bailOnHandler = cfg.bailOnHandler) (hoff : cfg.bailOnMem = false) (chunks : List Bytes)
    (data : Bytes) (hbig : chunks.flatten.length + data.length ≤ cfg'.maxMem)
    (hok : ∀ x ∈ (writeAll w (Rewriter.new w g cfg) chunks).2, x = CallRes.ok) (e : Err)
    (herr : ((writeAll w (Rewriter.new w g cfg) chunks).1.write w data).2 = .err e) :
    (∀ x ∈ (writeAll w (Rewriter.new w g cfg') chunks).2, x = CallRes.ok) ∧
    ∃ rest, sinkBytes ((writeAll w (Rewriter.new w g cfg') chunks).1.write w data).1.sink =
      sinkBytes ((writeAll w (Rewriter.new w g cfg) chunks).1.write w data).1.sink ++ rest := by
  obtain ⟨n1, n2, n3⟩ := new_sim w g cfg cfg' h1 h2 h3 h4
  have h0 : RSim cfg'.maxMem (Rewriter.new w g cfg) (Rewriter.new w g cfg') [] :=
    ⟨rfl, rfl, n1, n2, n3, by simp [Rewriter.new, Stream.new, Stream.pending]⟩
  obtain ⟨s1, ⟨p1, p2, p3, p4, p5, p6⟩, s3⟩ := writeAll_sim hce chunks _ _ [] h0 hoff
    (by simp only [List.length_nil, Nat.zero_add]; omega) hok
  refine ⟨s1, ?_⟩
  simp only [List.nil_append] at p6
  obtain ⟨_, a2, _, a4⟩ := write_ok_iff (w := w) (writeAll w (Rewriter.new w g cfg) chunks).1 data p1
  obtain ⟨_, b2, _, _⟩ := write_ok_iff (w := w) (writeAll w (Rewriter.new w g cfg') chunks).1 data p2
  have herr' := (a4 e).mp herr
  obtain ⟨rest, hrest⟩ := C12_prefix_bytes hce _ _ data p3 p4 (by rw [p5]; omega) s3 e herr'
  refine ⟨rest, ?_⟩
  simp only [Model.Rewriter.sink, a2, b2]
  exact hrest


/-! ### non-vacuity -/

theorem constCtl_cleanEnds (f : Nat) : CleanEnds (constCtl f) where
  handleEnd := by intro g ev h; simp [constCtl] at h
  bailOut := by intro g e ev h; simp [constCtl] at h

/-- limit 3: `<a` is retained (2 bytes), appending ` b` needs 4 bytes and fails with `mem` -/
example : (writeAll (genWorld 31) (Rewriter.new (genWorld 31) () { maxMem := 3 }) [[60, 97]]).2 = [.ok] ∧
    ((writeAll (genWorld 31) (Rewriter.new (genWorld 31) () { maxMem := 3 }) [[60, 97]]).1.write (genWorld 31) [32, 98]).2
      = .err .mem := by decide +kernel

/-- the instance of `C12_prefix` for that history -/
example : ∃ rest, sinkBytes ((writeAll (genWorld 31) (Rewriter.new (genWorld 31) () {}) [[60, 97]]).1.write (genWorld 31) [32, 98]).1.sink =
    sinkBytes ((writeAll (genWorld 31) (Rewriter.new (genWorld 31) () { maxMem := 3 }) [[60, 97]]).1.write (genWorld 31) [32, 98]).1.sink ++ rest :=
  (C12_prefix (genWorld 31) (constCtl_cleanEnds 31) () { maxMem := 3 } {} rfl rfl rfl rfl rfl [[60, 97]] [32, 98]
    (by decide) (by decide +kernel) .mem (by decide +kernel)).2

end LolHtml.Thm.C12P
