import LolHtml.Lemmas.InvStream
import LolHtml.Lemmas.TokParse
import LolHtml.Lemmas.InvLinear
import LolHtml.Thm.C01
import LolHtml.Gen.Syntax
import LolHtml.Gen.Tags
/-!
# C15 — robustness of the parser / dispatcher / stream core: no panic, no hang, linear work

The model (`LolHtml.Model.{SM,Dispatcher,Stream}`, tied to the Rust by lane `lex`) makes every partial
operation of the code explicit as an outcome `Err.panic site` / `Err.internal site`, and its loops take
fuel. The theorems below show that these outcomes are unreachable — for **every** tokenizer table
satisfying the decidable side-conditions `WfTable` (re-checked on the table regenerated from the Rust
on every run: `C15_gen`), every tag configuration, every settings record, every controller that does
not itself return a panic-class error, every sequence of `write`s followed by `end`.

Side-conditions on the table (`Lemmas/InvWf.lean`), each with a `…Witness` variant:
`TargetsOK`, `Exhaustive`, `EnterQuiet`, `ArmsOK`, `ReconsumeRanked … (computeRanks …)`.

* `C15_no_panic`           (needs in addition the token-part certificate `checkCert t (computeCert t)`) no call
                           returns a panic/internal-class error except possibly at one of the TWO sites of `U2`,
                           both of which need scanner / lexer agreement (C06).
* `C15_no_panic_partial`   (without the certificate) no call returns a panic/internal-class error except possibly at a site of `U1`
                           (token-part ranges, "token exists" assertions, `RequestLexeme` callbacks):
                           the cursor, raw-range, flush, buffer-shift, state-lookup, exhaustiveness and
                           fuel sites are unreachable.
* `C15_fuel`               neither `defaultFuel` nor the switch budget is ever exhausted.
* `C15_linear_run`         one run of the parsing loop over a slice of `n` bytes performs at most
                           `8·(n+1)` state-function invocations (8 = `maxRank + 1`).
* `C15_gen`                the side-conditions hold of the current table; instantiated corollaries.
-/
namespace LolHtml.Thm.C15
open LolHtml LolHtml.Model LolHtml.Thm.C01

variable {γ : Type}

/-! ### the table side-conditions hold of the code's current table -/

/-- **C15_gen.** All side-conditions, evaluated by the kernel on the regenerated table. -/
theorem C15_gen : WfTable Gen.Syntax.table = true := by decide +kernel

theorem C15_gen_witnesses :
    TargetsOKWitness Gen.Syntax.table = [] ∧ ExhaustiveWitness Gen.Syntax.table = [] ∧
    EnterQuietWitness Gen.Syntax.table = [] ∧ ArmsOKWitness Gen.Syntax.table = [] ∧
    ReconsumeRankedWitness Gen.Syntax.table (computeRanks Gen.Syntax.table) = [] := by decide +kernel

/-- the longest `reconsume` chain of the current table has length 2 -/
theorem C15_gen_maxrank : (computeRanks Gen.Syntax.table).foldl max 0 = 2 := by decide +kernel

/-! ### no panic -/

/-- a call result is acceptable w.r.t. the still-allowed sites `U` -/
abbrev CallOK := @Model.CallOK

/-- **Full statement** (kept as a `Prop`; `C15_no_panic_partial` proves it up to the sites `U1`). -/
def C15_no_panic_statement : Prop :=
  ∀ {γ : Type} (w : World γ), WfTable w.tbl = true → CtlClean w.ctl →
    ∀ (g : γ) (cfg : Settings) (chunks : List Bytes),
      ∀ x ∈ (run w (Rewriter.new w g cfg) chunks).2, Model.CallOK (fun _ => False) x

theorem writeAll_post {w : World γ} (hc : CtlClean w.ctl) (hw : Wf w.tbl) (chunks : List Bytes) (r : Rewriter γ)
    (hr : RInv w r) : (∀ x ∈ (writeAll w r chunks).2, Model.CallOK U1 x) ∧ RInv w (writeAll w r chunks).1 := by
  induction chunks generalizing r with
  | nil => exact ⟨fun x hx => (by cases hx), hr⟩
  | cons c cs ih =>
    simp only [writeAll]
    obtain ⟨h1, h2⟩ := Rewriter.write_post hc hw r c hr
    obtain ⟨h3, h4⟩ := ih _ h2
    refine ⟨fun x hx => ?_, h4⟩
    simp only [List.mem_cons] at hx
    rcases hx with rfl | hx
    · exact h1
    · exact h3 x hx

/-- **C15_no_panic_partial.** For every table satisfying `WfTable`, every tag configuration, every
controller that never returns a panic/internal-class error itself, every settings record and every
list of writes followed by `end`: no call returns `.err (.panic s)` or `.err (.internal s)` unless `s`
is one of the sites of `U1` (token-part ranges, "token exists" assertions, `RequestLexeme` callbacks).
Covered, i.e. proved unreachable: `unconsume_ch underflow`, `break_on_end_of_input … underflow`,
`non-exhaustive match in state body`, `unknown state`, `out of fuel`, `out of fuel (directive switches)`,
`flush_remaining_input: range out of bounds`, `emit_chunk_before_lexeme: range out of bounds`,
`Bytes::slice out of range (text raw)`, `Arena::shift underflow`, `nested RequestLexeme`. -/
theorem C15_no_panic_partial (w : World γ) (hwf : WfTable w.tbl = true) (hc : CtlClean w.ctl)
    (g : γ) (cfg : Settings) (chunks : List Bytes) :
    ∀ x ∈ (run w (Rewriter.new w g cfg) chunks).2, Model.CallOK U1 x := by
  have hw := WfTable.wf hwf
  have h0 : RInv w (Rewriter.new w g cfg) := Or.inr (Stream.new_SInv hw g cfg)
  obtain ⟨h1, h2⟩ := writeAll_post hc hw chunks _ h0
  intro x hx
  simp only [run, List.mem_append, List.mem_singleton] at hx
  rcases hx with hx | rfl
  · exact h1 x hx
  · exact Rewriter.end_post hc hw _ h2

/-- the sites proved unreachable are indeed excluded by `U1` -/
theorem C15_covered_sites :
    ¬ U1 "unconsume_ch underflow" ∧
    ¬ U1 "break_on_end_of_input: pos - consumed_byte_count underflow" ∧
    ¬ U1 "non-exhaustive match in state body" ∧ ¬ U1 "unknown state" ∧
    ¬ U1 "out of fuel" ∧ ¬ U1 "out of fuel (directive switches)" ∧
    ¬ U1 "flush_remaining_input: range out of bounds" ∧
    ¬ U1 "emit_chunk_before_lexeme: range out of bounds" ∧
    ¬ U1 "Bytes::slice out of range (text raw)" ∧ ¬ U1 "Arena::shift underflow" ∧
    ¬ U1 "nested RequestLexeme" := by
  simp [U1]

/-! ### fuel -/

/-- **C15_fuel.** From the parser invariant, a `parse` never reports an exhausted `defaultFuel` or
switch budget (both are panics of the model, at sites excluded by `U1`). -/
theorem C15_fuel (w : World γ) (hwf : WfTable w.tbl = true) (hc : CtlClean w.ctl) (inp : Bytes) (last : Bool)
    (p : Parser (Disp γ)) (hp : PInv w.tbl inp.length (fun d : Disp γ => d.rcs) p) :
    (Parser.parse w.env inp last p).2 ≠ .error (.panic "out of fuel") ∧
    (Parser.parse w.env inp last p).2 ≠ .error (.panic "out of fuel (directive switches)") := by
  have := parse_post (env := w.env) (inp := inp) (dispOps_safe hc) (WfTable.wf hwf) last p hp
  unfold ParsePost at this
  constructor <;> intro h <;> rw [h] at this <;> simp [ErrOK, U1] at this

/-! ### linear work -/

/-- **Full statement** of linear work for one `Parser.parse` call (all lexer ⇄ scanner runs together),
NOT proved: `C15_linear_run` proves the bound for each run of the parsing loop, and `C15_fuel` bounds
the number of runs by `2n+2`. What is missing for a linear bound on the sum is that the lexer,
restarted at a tag start by the tag scanner, consumes at least up to where the scanner stopped
(scanner / lexer agreement, the business of C06); with it, lexer runs and scanner runs each tile the
slice, giving `8n + 8n + 8·(2n+2) ≤ 32·(n+1)`. -/
def C15_linear_statement : Prop :=
  ∀ {γ : Type} (w : World γ), WfTable w.tbl = true → CtlClean w.ctl →
    ∀ (inp : Bytes) (last : Bool) (p : Parser (Disp γ)), PInv w.tbl inp.length (fun d : Disp γ => d.rcs) p →
      Parser.parseSteps w.env inp last p ≤ 32 * (inp.length + 1)

/-- **C15_linear_run.** One run of the parsing loop (`run_parsing_loop`) started from a machine
satisfying the invariant performs at most `(maxRank+1)·(bytes left) + rank + 1 ≤ 8·(n+1)`
state-function invocations, whatever fuel it is given. -/
theorem C15_linear_run (w : World γ) (hwf : WfTable w.tbl = true) (hc : CtlClean w.ctl) (inp : Bytes)
    (fuel lo : Nat) (m : M (Disp γ)) (hm : MInvB w.tbl inp.length m.x.sink.rcs lo m) :
    runLoopSteps w.env inp fuel m ≤ 8 * (inp.length - m.c.nextPos + 1) := by
  have hw := WfTable.wf hwf
  have h1 : runLoopSteps w.env inp fuel m ≤ mu w.tbl inp.length m + 1 :=
    runLoopSteps_le (env := w.env) (W := fun d : Disp γ => d.rcs) (dispOps_safe hc) hw fuel m hm
  have h2 := mu_le w.tbl hw m inp.length
  omega

/-! ### instantiation at the code's current table, non-vacuity -/

theorem constCtl_clean (f : Nat) : CtlClean (constCtl f) where
  token := by intro g t e h; simp [constCtl] at h
  startTag := by intro g n ns e h; simp [constCtl] at h
  auxInfo := by intro g i e h; simp [constCtl] at h
  handleEnd := by intro g e h; simp [constCtl] at h

/-- C15 (partial) for the generated table, any constant capture flags. -/
theorem C15_no_panic_partial_gen (f : Nat) (cfg : Settings) (chunks : List Bytes) :
    ∀ x ∈ (run (genWorld f) (Rewriter.new (genWorld f) () cfg) chunks).2, Model.CallOK U1 x :=
  C15_no_panic_partial (genWorld f) C15_gen (constCtl_clean f) () cfg chunks

/-- a malformed document cut at awkward places: `<!-- a --!-`, `-><a b='c` , `' d=e/><![CDATA[x]]`, `></a` -/
def nastyChunks : List Bytes :=
  [[60,33,45,45,32,97,32,45,45,33,45], [45,62,60,97,32,98,61,39,99], [39,32,100,61,101,47,62,60,33,91,67,68,65,84,65,91,120,93,93],
   [62,60,47,97]]

example : (run (genWorld 31) (Rewriter.new (genWorld 31) () {}) nastyChunks).2 = [.ok, .ok, .ok, .ok, .ok] := by
  decide +kernel

example : (run (genWorld 0) (Rewriter.new (genWorld 0) () {}) nastyChunks).2 = [.ok, .ok, .ok, .ok, .ok] := by
  decide +kernel

/-- the step counter on a concrete run: 9 invocations for the 8 bytes of `<a b=c>x` (well below 8·9) -/
example : runLoopSteps (genWorld 31).env [60,97,32,98,61,99,62,120] 1000
    ((Parser.new Gen.Syntax.table (Disp.new (constCtl 31) () 0) .lex false).machine false) = 9 := by
  decide +kernel


/-! ### token-part ranges: with the certificate, only the two sites of `U2` remain -/

set_option maxRecDepth 100000 in
/-- **C15_cert_gen.** The token-part certificate computed from the current table passes the checker. -/
theorem C15_cert_gen : checkCert Gen.Syntax.table (computeCert Gen.Syntax.table) = true := by decide +kernel

set_option maxRecDepth 100000 in
theorem C15_cert_gen_witness : checkCertWitness Gen.Syntax.table (computeCert Gen.Syntax.table) = [] := by
  decide +kernel

theorem writeAll_post2 {w : World γ} {cert : Cert} (hc : CtlClean w.ctl) (hw : Wf w.tbl)
    (hchk : checkCert w.tbl cert = true) (chunks : List Bytes) (r : Rewriter γ) (hr : RInv2 w cert r) :
    (∀ x ∈ (writeAll w r chunks).2, Model.CallOK U2 x) ∧ RInv2 w cert (writeAll w r chunks).1 := by
  induction chunks generalizing r with
  | nil => exact ⟨fun x hx => (by cases hx), hr⟩
  | cons c cs ih =>
    simp only [writeAll]
    obtain ⟨h1, h2⟩ := Rewriter.write_post2 hc hw hchk r c hr
    obtain ⟨h3, h4⟩ := ih _ h2
    refine ⟨fun x hx => ?_, h4⟩
    simp only [List.mem_cons] at hx
    rcases hx with rfl | hx
    · exact h1
    · exact h3 x hx

/-- **C15_no_panic.** For every table satisfying `WfTable` and whose computed token-part certificate
passes `checkCert`, every tag configuration, every controller that never returns a panic/internal-class
error itself, every settings record and every list of writes followed by `end`: no call returns
`.err (.panic s)` or `.err (.internal s)` unless `s` is one of the two sites of `U2`
(`"Tag should be a start tag at this point"`, `"RequestLexeme callback: unexpected tag type / empty ns
stack"`), which are reachable only if the lexer, restarted by the tag scanner at a tag start, produces
a first tag of another kind than the scanner saw (scanner / lexer agreement, C06). -/
theorem C15_no_panic (w : World γ) (hwf : WfTable w.tbl = true)
    (hcert : checkCert w.tbl (computeCert w.tbl) = true) (hc : CtlClean w.ctl)
    (g : γ) (cfg : Settings) (chunks : List Bytes) :
    ∀ x ∈ (run w (Rewriter.new w g cfg) chunks).2, Model.CallOK U2 x := by
  have hw := WfTable.wf hwf
  have h0 : RInv2 w (computeCert w.tbl) (Rewriter.new w g cfg) := Or.inr (Stream.new_SInv2 hw hcert g cfg)
  obtain ⟨h1, h2⟩ := writeAll_post2 hc hw hcert chunks _ h0
  intro x hx
  simp only [run, List.mem_append, List.mem_singleton] at hx
  rcases hx with hx | rfl
  · exact h1 x hx
  · exact Rewriter.end_post2 hc hw hcert _ h2

/-- **C15_signals.** The same at the level of the parsing loop (where `ActionError::Internal` is still
visible — `Parser.parseLoop` maps it to a handler error, as the release build does): from the
invariants, the signal a run of the parsing loop ends with is never a panic or an internal error
except at a `U2` site; in particular never "out of fuel". -/
theorem C15_signals (w : World γ) (hwf : WfTable w.tbl = true)
    (hcert : checkCert w.tbl (computeCert w.tbl) = true) (hc : CtlClean w.ctl) (inp : Bytes) (lo : Nat)
    (m : M (Disp γ)) (hm : MInvB w.tbl inp.length m.x.sink.rcs lo m) (htb : TokB w.tbl (computeCert w.tbl) m)
    (e : Err) (he : (runLoop w.env inp (defaultFuel inp) m).2 = .err e) : ErrOK U2 e := by
  have hw := WfTable.wf hwf
  have h1 := runLoop_post (env := w.env) (W := fun d : Disp γ => d.rcs) (dispOps_safe hc) hw (defaultFuel inp) m hm
    (mu_lt_defaultFuel _ hw _)
  have h2 := runLoop_tok (env := w.env) (W := fun d : Disp γ => d.rcs) hcert (dispOps_safe hc) (dispOps_safe2 hc) hw
    (defaultFuel inp) m hm htb (mu_lt_defaultFuel _ hw _)
  rw [he] at h1
  unfold LoopTok at h2
  rw [he] at h2
  exact ErrOK_U2 h1 h2.2

/-- C15 for the generated table, any constant capture flags. -/
theorem C15_no_panic_gen (f : Nat) (cfg : Settings) (chunks : List Bytes) :
    ∀ x ∈ (run (genWorld f) (Rewriter.new (genWorld f) () cfg) chunks).2, Model.CallOK U2 x :=
  C15_no_panic (genWorld f) C15_gen C15_cert_gen (constCtl_clean f) () cfg chunks

/-- the sites additionally proved unreachable are indeed excluded by `U2` -/
theorem C15_covered_sites2 :
    ¬ U2 "leave_ns: namespace stack empty" ∧ ¬ U2 "Tag token should exist at this point" ∧
    ¬ U2 "Tag should exist at this point" ∧ ¬ U2 "debug_assert: Tag should exist at this point" ∧
    ¬ U2 "debug_assert: End tag should exist at this point" ∧ ¬ U2 "Tag start should be set at this point" ∧
    ¬ U2 "Bytes::slice out of range in RequestLexeme callback" ∧ ¬ U2 "Bytes::slice out of range in emit_tag_hint" ∧
    ¬ U2 "Bytes::slice out of range in to_token" ∧ ¬ U2 "Bytes::slice out of range (tag name)" := by
  simp [U2]


/-! ### the side-conditions are not vacuous: mutated tables are rejected, with a witness -/

def mutate (i : Nat) (f : StateDef → StateDef) : Table :=
  { Gen.Syntax.table with states := Gen.Syntax.table.states.modify i f }

/-- `comment_end_state`: `shift_comment_text_end_by(3)` instead of `2` in the `_` arm (would slice past the cursor) -/
def mutShift : Table := mutate 45 fun sd => { sd with arms := sd.arms.map fun a =>
  match a.pat with
  | .any => ⟨.any, .seq ⟨[⟨.shiftCommentTextEndBy 3, false⟩], some (.reconsume 42)⟩⟩
  | _ => a }

set_option maxRecDepth 100000 in
example : WfTable mutShift = true ∧ checkCert mutShift (computeCert mutShift) = false := by decide +kernel

/-- `tag_name_state`: the `eof` arm emits the tag (raw range would end one past the input) -/
def mutEofEmit : Table := mutate 31 fun sd => { sd with arms := sd.arms.map fun a =>
  match a.pat with
  | .eof => ⟨.eof, .seq ⟨[⟨.emitTag, true⟩], none⟩⟩
  | _ => a }

example : ArmsOKWitness mutEofEmit = [("tag_name_state", 3)] := by decide +kernel

/-- `data_state`: the `eoc` arm reconsumes in `data_state` (an endless loop) -/
def mutLoop : Table := mutate 2 fun sd => { sd with arms := sd.arms.map fun a =>
  match a.pat with
  | .eoc => ⟨.eoc, .seq ⟨[⟨.emitText, true⟩], some (.reconsume 2)⟩⟩
  | _ => a }

example : ReconsumeRanked mutLoop (computeRanks mutLoop) = false := by decide +kernel

/-- `tag_open_state`: `create_start_tag` dropped (`finish_tag_name` would hit "Tag should exist") -/
def mutNoCreate : Table := mutate 28 fun sd => { sd with arms := sd.arms.map fun a =>
  match a.pat with
  | .alpha => ⟨.alpha, .seq ⟨[⟨.startTokenPart, false⟩], some (.goto 31)⟩⟩
  | _ => a }

set_option maxRecDepth 100000 in
example : checkCert mutNoCreate (computeCert mutNoCreate) = false := by decide +kernel

end LolHtml.Thm.C15
