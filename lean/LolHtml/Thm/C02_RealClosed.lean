import LolHtml.Thm.C02_RemovalFinal
import LolHtml.Thm.C02_Final
import LolHtml.Thm.Full15
/-!
# C02 for the real controller model, with only the memory limit left

`C02_real_final` (package chunk) assumes the runs involved return no panic-class and no memory-limit
error (`Clean`). `Full_no_panic` (`Thm/Full15.lean`) proves the panic half for the real controller
model in every configuration. What remains is the memory limit, which is chunk-dependent by nature.

For every configuration WITHOUT text handlers — any selectors; element / comment / doctype / end-tag /
document-end handlers with observing, mutating, removing or failing scripts — every settings record and
any two chunkings of the same document: if no call of the two runs and of the single-write run fails on
the memory limit, the outcomes are equal and on success the rewritten OUTPUT is byte-identical.
-/
namespace LolHtml.Thm.C02
open LolHtml LolHtml.Model LolHtml.Model.Chunk LolHtml.Model.Chunk.R
open LolHtml.Model.Full LolHtml.Thm.Full

theorem C02_real_closed (hc : Cfg) (hnt : noText hc = true) (settings : Settings) (cs₁ cs₂ : List Bytes)
    (h1 : cs₁ ≠ []) (h2 : cs₂ ≠ []) (hflat : cs₁.flatten = cs₂.flatten)
    (hm1 : NoMem (C01.run (genWorld hc) (C01.Rewriter.new (genWorld hc) (FullSt.init hc) settings) cs₁).2)
    (hm2 : NoMem (C01.run (genWorld hc) (C01.Rewriter.new (genWorld hc) (FullSt.init hc) settings) cs₂).2)
    (hmW : NoMem (C01.run (genWorld hc) (C01.Rewriter.new (genWorld hc) (FullSt.init hc) settings) [cs₁.flatten]).2) :
    outcome (C01.run (genWorld hc) (C01.Rewriter.new (genWorld hc) (FullSt.init hc) settings) cs₁).2 =
      outcome (C01.run (genWorld hc) (C01.Rewriter.new (genWorld hc) (FullSt.init hc) settings) cs₂).2 ∧
    (outcome (C01.run (genWorld hc) (C01.Rewriter.new (genWorld hc) (FullSt.init hc) settings) cs₁).2 = .ok →
      sinkBytes (C01.run (genWorld hc) (C01.Rewriter.new (genWorld hc) (FullSt.init hc) settings) cs₁).1.sink =
        sinkBytes (C01.run (genWorld hc) (C01.Rewriter.new (genWorld hc) (FullSt.init hc) settings) cs₂).1.sink) :=
  C02_real_final hc hnt settings cs₁ cs₂ h1 h2 hflat
    (clean_of_callOK (Full_no_panic hc settings cs₁) hm1)
    (clean_of_callOK (Full_no_panic hc settings cs₂) hm2)
    (clean_of_callOK (Full_no_panic hc settings [cs₁.flatten]) hmW)

end LolHtml.Thm.C02
