/-
Spec.Css — the specification C04 refines to: the element tree that explicit tags induce, and CSS
selector matching on it by structural recursion on the selector.

Tree induction (property C04): an element is a child of the innermost element still open; elements
are closed by a matching end tag, by an ancestor's end tag, immediately if void (HTML namespace), or
by self-closing syntax in foreign content. An element is presented to `matches` together with what
CSS matching of the supported grammar can look at: its start tag, the names of its preceding element
siblings (in document order) and its chain of ancestors (each with the same data).

Leaf predicates are given here as CSS Selectors 4 defines them, *not* as the code computes them:
`nthMatches a b i` decides `∃ n ≥ 0, a·n + b = i` over the integers (`Sel.hasIndex` wraps at 32 bits),
the attribute operators follow §6.1/§6.2 (`Sel.opMatchesCode` differs for empty operands of `^=`, `$=`,
`~=`).
-/
import LolHtml.Model.Sel

namespace LolHtml.Spec.Css
open LolHtml LolHtml.Sel

/-- An element as seen by selector matching. -/
structure Elem where
  tag : StartTag
  /-- names of the element siblings that precede it, in document order -/
  prevSiblings : List Bytes
  deriving DecidableEq, Repr

/-- `∃ n : ℕ, a·n + b = i`, decided exactly over `Int` (see `nthMatches_iff` in Lemmas.SelVM). -/
def nthMatches (a b : Int) (i : Nat) : Bool :=
  if a == 0 then (i : Int) == b
  else ((i : Int) - b) % a == 0 && decide (0 ≤ ((i : Int) - b) / a)

def Elem.childIndex (e : Elem) : Nat := e.prevSiblings.length + 1

def Elem.typeIndex (e : Elem) : Nat :=
  (e.prevSiblings.filter fun n => localNameEq n e.tag.name).length + 1

/-- First attribute with that name, names compared ASCII-case-insensitively. -/
def attrValue (t : StartTag) (name : Bytes) : Option Bytes :=
  (t.attrs.find? fun a => eqIgnoreAsciiCase a.name name).map (·.value)

def hasWhitespace (v : Bytes) : Bool := v.any isAttrWhitespace

/-- CSS attribute operators on a present value. -/
def opMatches (op : AttrOp) (ins : Bool) (actual operand : Bytes) : Bool :=
  match op with
  | .eq => caseEq ins actual operand
  | .includes => !operand.isEmpty && !hasWhitespace operand &&
      (splitOnWs actual).any fun part => caseEq ins part operand
  | .dashMatch => caseEq ins actual operand || isPrefixCase ins (operand ++ [45]) actual
  | .pfx => !operand.isEmpty && isPrefixCase ins operand actual
  | .sfx => !operand.isEmpty && isSuffixCase ins operand actual
  | .substring => !operand.isEmpty && isInfixCase ins operand actual

/-- The leaf predicates matching is parameterised by, so that the structural part of C04 (trie,
    compiler, VM, stack) can be stated against the leaves *as coded* and the leaves themselves against
    CSS separately. -/
structure Leaf where
  /-- `:nth-*(an+b)` on a 1-based index -/
  nth : Int → Int → Nat → Bool
  /-- attribute operator on a present value: operator, ASCII-case-insensitive?, actual, operand -/
  op : AttrOp → Bool → Bytes → Bytes → Bool

/-- CSS Selectors semantics of the leaves -/
def cssLeaf : Leaf := ⟨nthMatches, opMatches⟩

/-- the leaves as lol-html computes them -/
def codeLeaf : Leaf := ⟨fun a b i => hasIndex a b i, opMatchesCode⟩

mutual
def matchesSimple (L : Leaf) (e : Elem) : Simple → Bool
  | .type n => localNameEq e.tag.name n
  | .universal => true
  | .id v => attrValue e.tag idAttr == some v
  | .cls v =>
    match attrValue e.tag classAttr with
    | some c => (splitOnWs c).any (· == v)
    | none => false
  | .attrExists n => (attrValue e.tag n).isSome
  | .attr n op v cs =>
    match attrValue e.tag n with
    | some actual => L.op op (toUnconditional cs (e.tag.ns == .html)) actual v
    | none => false
  | .nthChild a b => L.nth a b e.childIndex
  | .nthOfType a b => L.nth a b e.typeIndex
  | .firstChild => L.nth 0 1 e.childIndex
  | .firstOfType => L.nth 0 1 e.typeIndex
  | .not args => !matchesAnyCompound L e args
def matchesCompound (L : Leaf) (e : Elem) : List Simple → Bool
  | [] => true
  | s :: ss => matchesSimple L e s && matchesCompound L e ss
def matchesAnyCompound (L : Leaf) (e : Elem) : List (List Simple) → Bool
  | [] => false
  | c :: cs => matchesCompound L e c || matchesAnyCompound L e cs
end

/-- `f` holds for some ancestor (given with *its* ancestors) -/
def anyAncestor (f : Elem → List Elem → Bool) : List Elem → Bool
  | [] => false
  | p :: anc => f p anc || anyAncestor f anc

/-- Right-to-left matching: `c` is the compound for `e`, `rest` the remaining
    `(combinator to the left of the previous compound, compound)` pairs, `anc` the ancestors of `e`,
    parent first. -/
def matchesRev (L : Leaf) : List (Comb × Compound) → Compound → Elem → List Elem → Bool
  | [], c, e, _ => matchesCompound L e c
  | (k, c') :: rest, c, e, anc =>
    matchesCompound L e c &&
      match k with
      | .child =>
        match anc with
        | [] => false
        | p :: anc' => matchesRev L rest c' p anc'
      | .descendant => anyAncestor (matchesRev L rest c') anc

def revTail (cur : Compound) (acc : List (Comb × Compound)) :
    List (Comb × Compound) → Compound × List (Comb × Compound)
  | [] => (cur, acc)
  | (k, c) :: rest => revTail c ((k, cur) :: acc) rest

def matchesComplex (L : Leaf) (cx : Complex) (e : Elem) (anc : List Elem) : Bool :=
  let r := revTail cx.head [] cx.tail
  matchesRev L r.2 r.1 e anc

/-- A selector list matches when one of its complex selectors does. -/
def «matches» (L : Leaf) (sel : SelList) (e : Elem) (anc : List Elem) : Bool :=
  sel.any fun cx => matchesComplex L cx e anc

/-! ## The tree induced by a tag-event sequence -/

/-- An element that is still open, and the names of the element children it has got so far. -/
structure OpenElem where
  elem : Elem
  children : List Bytes
  deriving DecidableEq, Repr

structure TreeState where
  /-- open elements, innermost first -/
  «open» : List OpenElem := []
  rootChildren : List Bytes := []
  deriving DecidableEq, Repr

/-- Does the element stay open after its start tag? -/
def staysOpen (t : StartTag) (enableEsiTags : Bool) : Bool :=
  if t.ns == .html then !isVoidElement t.name enableEsiTags else !t.selfClosing

def TreeState.siblingsSoFar (s : TreeState) : List Bytes :=
  match s.open with
  | [] => s.rootChildren
  | o :: _ => o.children

def TreeState.ancestors (s : TreeState) : List Elem := s.open.map (·.elem)

/-- the element a start tag creates in state `s` -/
def TreeState.elemFor (s : TreeState) (t : StartTag) : Elem := ⟨t, s.siblingsSoFar⟩

def TreeState.startTag (s : TreeState) (t : StartTag) (enableEsiTags : Bool) : TreeState :=
  let e := s.elemFor t
  let s' : TreeState :=
    match s.open with
    | [] => { s with rootChildren := s.rootChildren ++ [t.name] }
    | o :: rest => { s with «open» := { o with children := o.children ++ [t.name] } :: rest }
  if staysOpen t enableEsiTags then { s' with «open» := ⟨e, []⟩ :: s'.open } else s'

/-- drop up to and including the innermost open element with that name -/
def closeUpTo (name : Bytes) : List OpenElem → List OpenElem
  | [] => []
  | o :: rest => if localNameEq o.elem.tag.name name then rest else closeUpTo name rest

def TreeState.endTag (s : TreeState) (name : Bytes) : TreeState :=
  if s.open.any fun o => localNameEq o.elem.tag.name name then
    { s with «open» := closeUpTo name s.open }
  else s

def TreeState.step (s : TreeState) (enableEsiTags : Bool) : Event → TreeState
  | .start t => s.startTag t enableEsiTags
  | .end_ n => s.endTag n

/-- selectors (by index) that match the element a start tag creates -/
def matchingIds (L : Leaf) (sels : List SelList) (e : Elem) (anc : List Elem) : List Nat :=
  (List.range sels.length).filter fun i =>
    match sels[i]? with
    | some s => «matches» L s e anc
    | none => false

def runAux (L : Leaf) (sels : List SelList) (esi : Bool) :
    TreeState → List Event → Nat → List (Nat × Nat) → List (Nat × Nat)
  | _, [], _, acc => acc
  | s, .start t :: rest, ord, acc =>
    let ids := matchingIds L sels (s.elemFor t) s.ancestors
    runAux L sels esi (s.startTag t esi) rest (ord + 1) (acc ++ ids.map fun i => (i, ord))
  | s, .end_ n :: rest, ord, acc => runAux L sels esi (s.endTag n) rest ord acc

/-- Hits `(selector index, start-tag ordinal)` under CSS semantics on the induced tree. -/
def run (L : Leaf) (sels : List SelList) (enableEsiTags : Bool) (evs : List Event) : List (Nat × Nat) :=
  runAux L sels enableEsiTags {} evs 0 []

end LolHtml.Spec.Css
