import LolHtml.Model.TagCfg
import LolHtml.Model.Types
import LolHtml.Model.TreeSim
/-!
Specification of the strict-mode ambiguity guard, written independently of the implementation's
state enum: what the guard is *supposed* to know after a sequence of tag events is

* whether a `<frameset>` start tag has been seen outside `<select>` (sticky for the rest of the document),
* whether we are between a `<select>` start tag and the event that leaves "in select"
  (`</select>`, or a `select|textarea|input|keygen` start tag),
* how many `<template>` elements are currently open inside that select (while there is at least
  one, only `<template>`/`</template>` are looked at).

and a text-mode-switching start tag is *ambiguous* exactly in the contexts listed in `ambiguous`.
-/
namespace LolHtml.Spec.Guard
open LolHtml.Model

/-- A tag event as seen by the tree-builder simulator: the name hash of a start or end tag. -/
inductive Ev
  | start (tag : Nat)
  | «end» (tag : Nat)
  deriving DecidableEq, Repr, Inhabited

structure St where
  afterFrameset : Bool
  inSelect : Bool
  templates : Nat
  deriving DecidableEq, Repr, Inhabited

def init : St := ⟨false, false, 0⟩

/-- A start tag `t` is refused in context `s`. -/
def ambiguous (cfg : TagCfg) (s : St) (t : Nat) : Bool :=
  cfg.guardTextSwitch.contains t &&
    ((s.inSelect && s.templates == 0 && t != cfg.gScript && !cfg.gSelectExit.contains t) ||
     (s.inSelect && s.templates != 0) ||
     (s.afterFrameset && t != cfg.gNoframes))

/-- Context after an accepted event. -/
def step (cfg : TagCfg) (s : St) : Ev → St
  | .start t =>
    if s.afterFrameset then s
    else if s.inSelect then
      if s.templates == 0 then
        if cfg.gSelectExit.contains t then { s with inSelect := false }
        else if t == cfg.gTemplate then { s with templates := 1 }
        else s
      else if t == cfg.gTemplate then { s with templates := s.templates + 1 }
      else s
    else if t == cfg.gSelect then { s with inSelect := true, templates := 0 }
    else if t == cfg.gFrameset then { s with afterFrameset := true }
    else s
  | .end t =>
    if s.afterFrameset then s
    else if s.inSelect then
      if s.templates == 0 then (if t == cfg.gSelect then { s with inSelect := false } else s)
      else if t == cfg.gTemplate then { s with templates := s.templates - 1 }
      else s
    else s

/-- The specified run: stop with `ambiguity t` at the first ambiguous start tag. -/
def run (cfg : TagCfg) : St → List Ev → Except Err St
  | s, [] => .ok s
  | s, .start t :: es => if ambiguous cfg s t then .error (.ambiguity t) else run cfg (step cfg s (.start t)) es
  | s, .end t :: es => run cfg (step cfg s (.end t)) es

/-- How the implementation's enum represents a context. -/
def toGuard (s : St) : GuardState :=
  if s.afterFrameset then .inOrAfterFrameset
  else if s.inSelect then (if s.templates == 0 then .inSelect else .inTemplateInSelect s.templates)
  else .default

end LolHtml.Spec.Guard
