import LolHtml.Model.Types
/-!
# Spec.Attrs — an independent reading of a start tag's bytes

A recursive-descent reading of the bytes of one start tag, following the WHATWG HTML tokenizer
(§13.2.5 "Tokenization") states

  13.2.5.8  tag name                      13.2.5.35 before attribute value
  13.2.5.32 before attribute name         13.2.5.36 attribute value (double-quoted)
  13.2.5.33 attribute name                13.2.5.37 attribute value (single-quoted)
  13.2.5.34 after attribute name          13.2.5.38 attribute value (unquoted)
  13.2.5.39 after attribute value (quoted)  13.2.5.40 self-closing start tag

written from the standard, not from lol-html's state tables. It returns *ranges* into the input
(positions are absolute indices into the byte string being read), because that is what lol-html's
lexer produces and what its read API slices:

* the name range,
* for every syntactic attribute, in source order, duplicates kept: the name range, the value range
  (quotes excluded; a valueless attribute has the empty range located at the end of its name) and the
  "raw" range (from the first byte of the name to the last byte of the value, closing quote included;
  just the name for a valueless attribute),
* the self-closing flag, and the position just after the closing `>`;

or `unfinished` when the bytes end inside the tag.

Differences from the standard's *token* (deliberate, they are lol-html's documented behaviour): no
character references are decoded, names are not lower-cased, NUL is not replaced, duplicate attributes
are not dropped. The standard's input-stream preprocessing turns CR into LF before the tokenizer
sees it; there is no preprocessing here, so CR counts as whitespace alongside TAB, LF, FF, SPACE.
The parse errors of the standard (unexpected `=`, `"`, `'`, `<` in names / unquoted values, missing
whitespace between attributes, unexpected solidus) do not change the token and are ignored.
-/
namespace LolHtml.Spec.Attrs
open LolHtml LolHtml.Model

/-- whitespace of the tag states: TAB, LF, FF, CR (see above), SPACE -/
def isWs (b : UInt8) : Bool := b == 9 || b == 10 || b == 12 || b == 13 || b == 32

/-- What has been read when a start tag ends. -/
structure Tag where
  name : Range
  attrs : List AttrOutline
  selfClosing : Bool
  /-- position just after the closing `>` -/
  stop : Nat
  deriving DecidableEq, Repr, Inhabited

inductive Res
  | finished (t : Tag)
  | unfinished
  deriving DecidableEq, Repr, Inhabited

/-- an attribute without a value: empty value at the end of the name; raw = the name -/
def valueless (n : Range) : AttrOutline := ⟨n, ⟨n.end, n.end⟩, n⟩

/-- an attribute with a value `[vs, ve)` whose last raw byte is at `rawEnd - 1` -/
def valued (n : Range) (vs ve rawEnd : Nat) : AttrOutline := ⟨n, ⟨vs, ve⟩, ⟨n.start, rawEnd⟩⟩

/-- Tokenizer states after the tag name. The "self-closing start tag" state is the before-attribute-name
state remembering that the previous byte was a solidus (its "anything else" entry reconsumes in the
before-attribute-name state, so the only thing it adds is the flag when `>` follows immediately);
the "after attribute value (quoted)" state behaves as the before-attribute-name state on every byte. -/
inductive St
  | beforeAttrName (afterSolidus : Bool)
  | attrName (nameStart : Nat)
  | afterAttrName (name : Range)
  | beforeAttrValue (name : Range)
  | valueQuoted (quote : UInt8) (name : Range) (valueStart : Nat)
  | valueUnquoted (name : Range) (valueStart : Nat)
  deriving DecidableEq, Repr, Inhabited

/-- Read attributes. `nm` is the tag name's range, `acc` the attributes finished so far, the list is
what remains of the input and `p` the absolute position of its head. -/
def attrs (nm : Range) : List AttrOutline → St → List UInt8 → Nat → Res
  | _, _, [], _ => .unfinished
  | acc, .beforeAttrName sol, b :: rest, p =>
      if isWs b then attrs nm acc (.beforeAttrName false) rest (p + 1)
      else if b == 47 then attrs nm acc (.beforeAttrName true) rest (p + 1)
      else if b == 62 then .finished ⟨nm, acc, sol, p + 1⟩
      else attrs nm acc (.attrName p) rest (p + 1)            -- any other byte (`=` included) starts a name
  | acc, .attrName s, b :: rest, p =>
      if isWs b then attrs nm acc (.afterAttrName ⟨s, p⟩) rest (p + 1)
      else if b == 61 then attrs nm acc (.beforeAttrValue ⟨s, p⟩) rest (p + 1)
      else if b == 47 then attrs nm (acc ++ [valueless ⟨s, p⟩]) (.beforeAttrName true) rest (p + 1)
      else if b == 62 then .finished ⟨nm, acc ++ [valueless ⟨s, p⟩], false, p + 1⟩
      else attrs nm acc (.attrName s) rest (p + 1)
  | acc, .afterAttrName n, b :: rest, p =>
      if isWs b then attrs nm acc (.afterAttrName n) rest (p + 1)
      else if b == 47 then attrs nm (acc ++ [valueless n]) (.beforeAttrName true) rest (p + 1)
      else if b == 61 then attrs nm acc (.beforeAttrValue n) rest (p + 1)
      else if b == 62 then .finished ⟨nm, acc ++ [valueless n], false, p + 1⟩
      else attrs nm (acc ++ [valueless n]) (.attrName p) rest (p + 1)
  | acc, .beforeAttrValue n, b :: rest, p =>
      if isWs b then attrs nm acc (.beforeAttrValue n) rest (p + 1)
      else if b == 34 || b == 39 then attrs nm acc (.valueQuoted b n (p + 1)) rest (p + 1)
      else if b == 62 then .finished ⟨nm, acc ++ [valueless n], false, p + 1⟩   -- missing attribute value
      else attrs nm acc (.valueUnquoted n p) rest (p + 1)
  | acc, .valueQuoted q n vs, b :: rest, p =>
      if b == q then attrs nm (acc ++ [valued n vs p (p + 1)]) (.beforeAttrName false) rest (p + 1)
      else attrs nm acc (.valueQuoted q n vs) rest (p + 1)
  | acc, .valueUnquoted n vs, b :: rest, p =>
      if isWs b then attrs nm (acc ++ [valued n vs p p]) (.beforeAttrName false) rest (p + 1)
      else if b == 62 then .finished ⟨nm, acc ++ [valued n vs p p], false, p + 1⟩
      else attrs nm acc (.valueUnquoted n vs) rest (p + 1)

/-- Tag name state: the name started at `start`; the list is the rest of the input, `p` its position. -/
def tagName (start : Nat) : List UInt8 → Nat → Res
  | [], _ => .unfinished
  | b :: rest, p =>
      if isWs b then attrs ⟨start, p⟩ [] (.beforeAttrName false) rest (p + 1)
      else if b == 47 then attrs ⟨start, p⟩ [] (.beforeAttrName true) rest (p + 1)
      else if b == 62 then .finished ⟨⟨start, p⟩, [], false, p + 1⟩
      else tagName start rest (p + 1)

/-- Read the start tag beginning at position `i` of `bs`: `none` when `bs[i..]` does not begin with
`<` followed by an ASCII letter (tag open state: not a start tag). -/
def startTagAt (bs : Bytes) (i : Nat) : Option Res :=
  match bs.drop i with
  | 60 :: b :: rest => if isAsciiAlpha b then some (tagName (i + 1) rest (i + 2)) else none
  | _ => none

/-! ### sanity examples (bytes as numerals so that the kernel evaluates them) -/

-- `<a b=c d="e f" g>`
example : startTagAt [60,97,32,98,61,99,32,100,61,34,101,32,102,34,32,103,62] 0
    = some (.finished ⟨⟨1,2⟩, [⟨⟨3,4⟩,⟨5,6⟩,⟨3,6⟩⟩, ⟨⟨7,8⟩,⟨10,13⟩,⟨7,14⟩⟩, ⟨⟨15,16⟩,⟨16,16⟩,⟨15,16⟩⟩], false, 17⟩) := by
  decide +kernel
-- `<a/>` is self-closing, `<a/ >` is not, `<a b=c/>` has value `c/`
example : startTagAt [60,97,47,62] 0 = some (.finished ⟨⟨1,2⟩, [], true, 4⟩) := by decide +kernel
example : startTagAt [60,97,47,32,62] 0 = some (.finished ⟨⟨1,2⟩, [], false, 5⟩) := by decide +kernel
example : startTagAt [60,97,32,98,61,99,47,62] 0
    = some (.finished ⟨⟨1,2⟩, [⟨⟨3,4⟩,⟨5,7⟩,⟨3,7⟩⟩], false, 8⟩) := by decide +kernel
-- `<a =b>`: the attribute is named `=b`;  `<a b='c` is unfinished;  `<1>` is not a tag
example : startTagAt [60,97,32,61,98,62] 0
    = some (.finished ⟨⟨1,2⟩, [⟨⟨3,5⟩,⟨5,5⟩,⟨3,5⟩⟩], false, 6⟩) := by decide +kernel
example : startTagAt [60,97,32,98,61,39,99] 0 = some .unfinished := by decide +kernel
example : startTagAt [60,49,62] 0 = none := by decide +kernel

end LolHtml.Spec.Attrs
