/-
Specification vocabulary for property C13 (character-encoding fidelity): what the list of handler
calls of one text node has to look like.
-/
import LolHtml.Model.TextDecoder

namespace LolHtml.Enc

/-- concatenation of the strings the handlers read -/
def chunksText (cs : List Chunk) : List Char := cs.flatMap (·.text)

/-- Source ranges are well-formed (`start ≤ stop`), in order, pairwise non-overlapping and inside
`[lo, hi]`. -/
def rangesOrdered : Nat → List Chunk → Nat → Prop
  | lo, [], hi => lo ≤ hi
  | lo, c :: cs, hi => lo ≤ c.start ∧ c.start ≤ c.stop ∧ rangesOrdered c.stop cs hi

/-- Source ranges are contiguous and cover exactly `[lo, hi)` (what C13/C14 ask for). -/
def rangesContiguous : Nat → List Chunk → Nat → Prop
  | lo, [], hi => lo = hi
  | lo, c :: cs, hi => c.start = lo ∧ c.start ≤ c.stop ∧ rangesContiguous c.stop cs hi

/-- Exactly one chunk has `last_in_text_node`, it is the final one, and its range ends at `hi`. -/
def oneLastAtEnd (cs : List Chunk) (hi : Nat) : Prop :=
  ∃ init c, cs = init ++ [c] ∧ c.last = true ∧ c.stop = hi ∧ ∀ x ∈ init, x.last = false

def noneLast (cs : List Chunk) : Prop := ∀ x ∈ cs, x.last = false

/-- Laws of an encoding as `TextDecoder` uses it: a lawful codec, and — if it is the one the code
treats as `UTF_8` — well-formed UTF-8 (in the sense of `std::str::from_utf8`) decodes to its scalar
values and leaves the decoder neutral. -/
structure Encoding.Lawful (e : Encoding) : Prop where
  codec : e.codec.Lawful
  utf8_valid : e.utf8 = true → ∀ (p : Bytes) (cs : List Char),
    Utf8.decodeValid p = some cs → e.codec.run e.codec.init p = (e.codec.init, cs)

end LolHtml.Enc
