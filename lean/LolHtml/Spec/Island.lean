import LolHtml.Model.TreeSim
import LolHtml.Model.TreeSimRun
/-!
# Grammar of well-nested foreign content (`Spec.Island`)

Derivation trees of the claimed foreign-content domain, their flattening into the tag sequence the
tokenizer reports, and — by recursion on the derivation — the namespace `expected` that the WHATWG
tree builder has *after* each tag (more precisely: the namespace that governs tokenization of what
follows, i.e. `Html` when the adjusted current node is an HTML element **or an integration point**,
otherwise the namespace of the adjusted current node; this is what `cdata_allowed` and the
text-mode switches depend on).

* `HSeq` — HTML content: text, void/stand-alone start tags, explicitly closed HTML elements with
  HTML content, and islands.
* island — an `svg` / `math` root, **explicitly closed** (a self-closing root is excluded: the
  simulator enters the namespace for `<svg/>`, finding F2, see `C03_foreign_selfclosing_root_counterexample`).
* `FSeq` — content of a foreign element: text (text, CDATA sections, comments: no tag events),
  self-closing foreign elements, explicitly closed foreign elements with foreign content, and
  integration points (`desc`/`title`/`foreignObject` in SVG; `mi mo mn ms mtext` and
  `annotation-xml` with an HTML `encoding` in MathML), explicitly closed, with `HSeq` inside.

Side conditions (`FSeq.Ok`, `HSeq.Ok`) — each is needed, see the counter-examples in
`Thm/C03_Sim.lean` and docs/pkg-simthm.md:

* foreign elements are not named `svg`/`math` (the simulator switches namespace on every such tag,
  WHATWG only does so for HTML content), are not breakout tags (`b`, `p`, … `font` with
  `color|size|face`), and their end tags are not `</p>`, `</br>`;
* HTML elements inside an integration point are not named like an integration point of the
  enclosing foreign namespace (the simulator would take `</title>` inside `<svg><desc>` for the end
  of the integration point), nor `annotation-xml` inside MathML;
* HTML start tags are not `svg`/`math` (those are islands).
-/
namespace LolHtml.Spec.Island
open LolHtml LolHtml.Model

/-- foreign namespaces -/
inductive FNs | svg | mathml
  deriving DecidableEq, Repr

def FNs.toNs : FNs → Ns
  | .svg => .svg
  | .mathml => .mathml

def rootHash (cfg : TagCfg) : FNs → Nat
  | .svg => cfg.svg
  | .mathml => cfg.math

/-- hashable integration-point names of a foreign namespace -/
def ipList (cfg : TagCfg) : FNs → List Nat
  | .svg => cfg.svgHtmlIP
  | .mathml => cfg.mathmlTextIP

abbrev Attrs := List (Bytes × Bytes)

mutual
  inductive FSeq
    | nil
    | text (rest : FSeq)
    | selfClosing (name : Bytes) (attrs : Attrs) (rest : FSeq)
    | elem (name : Bytes) (attrs : Attrs) (children : FSeq) (rest : FSeq)
    | ip (name : Bytes) (attrs : Attrs) (body : HSeq) (rest : FSeq)
  inductive HSeq
    | nil
    | text (rest : HSeq)
    | void (name : Bytes) (attrs : Attrs) (selfClosing : Bool) (rest : HSeq)
    | elem (name : Bytes) (attrs : Attrs) (children : HSeq) (rest : HSeq)
    | island (ns : FNs) (name : Bytes) (attrs : Attrs) (children : FSeq) (rest : HSeq)
end

def startEv (name : Bytes) (attrs : Attrs) (sc : Bool) : TagEvent :=
  ⟨NameHash.ofBytes name, ⟨true, name, attrs, sc⟩⟩

def endEv (name : Bytes) : TagEvent :=
  ⟨NameHash.ofBytes name, ⟨false, name, [], false⟩⟩

/-- the `<font>` breakout test of mod.rs:262-270 -/
def hasFontAttr (attrs : Attrs) : Bool :=
  attrs.any (fun a => eqCaseInsensitive a.1 bColor || eqCaseInsensitive a.1 bSize || eqCaseInsensitive a.1 bFace)

/-- `annotation-xml` with `encoding` = `text/html` | `application/xhtml+xml` (mod.rs:290-303) -/
def isAnnXmlHtml (name : Bytes) (attrs : Attrs) : Bool :=
  eqCaseInsensitive name bAnnotationXml &&
    attrs.any (fun a => eqCaseInsensitive a.1 bEncoding && (eqCaseInsensitive a.2 bTextHtml || eqCaseInsensitive a.2 bAppXhtml))

/-- start tag of a foreign element that keeps the parser in foreign content -/
def PlainStart (cfg : TagCfg) (name : Bytes) (attrs : Attrs) : Prop :=
  let h := NameHash.ofBytes name
  h ≠ cfg.svg ∧ h ≠ cfg.math ∧ h ∉ cfg.foreignExit ∧ (h = cfg.font → hasFontAttr attrs = false)

/-- … which is not an integration point of `ns` -/
def NotIP (cfg : TagCfg) (ns : FNs) (name : Bytes) (attrs : Attrs) : Prop :=
  let h := NameHash.ofBytes name
  h ∉ ipList cfg ns ∧ (ns = .mathml → NameHash.isEmpty h = true → isAnnXmlHtml name attrs = false)

/-- end tag of a foreign element that keeps the parser in foreign content -/
def PlainEnd (cfg : TagCfg) (ns : FNs) (name : Bytes) : Prop :=
  let h := NameHash.ofBytes name
  h ≠ rootHash cfg ns ∧ h ∉ cfg.nsLeaveEnd

/-- an integration point of `ns`: by hash, or `annotation-xml[encoding=html]` in MathML -/
def IsIP (cfg : TagCfg) (ns : FNs) (name : Bytes) (attrs : Attrs) : Prop :=
  let h := NameHash.ofBytes name
  h ≠ cfg.svg ∧ h ≠ cfg.math ∧ h ∉ cfg.foreignExit ∧
  (h ∈ ipList cfg ns ∨
   (ns = .mathml ∧ NameHash.isEmpty h = true ∧ h ∉ ipList cfg ns ∧ h ≠ cfg.font ∧ isAnnXmlHtml name attrs = true))

def HtmlStart (cfg : TagCfg) (name : Bytes) : Prop :=
  NameHash.ofBytes name ≠ cfg.svg ∧ NameHash.ofBytes name ≠ cfg.math

/-- end tag of an HTML element inside an integration point of `prev` that is not mistaken for the
end of the integration point -/
def HtmlEnd (cfg : TagCfg) (prev : FNs) (name : Bytes) : Prop :=
  let h := NameHash.ofBytes name
  h ∉ ipList cfg prev ∧
  ¬ (prev = .mathml ∧ NameHash.isEmpty h = true ∧ eqCaseInsensitive name bAnnotationXml = true)

mutual
  /-- well-formedness of foreign content inside an element of namespace `ns` -/
  def FSeq.Ok (cfg : TagCfg) (ns : FNs) : FSeq → Prop
    | .nil => True
    | .text r => r.Ok cfg ns
    | .selfClosing n a r => PlainStart cfg n a ∧ r.Ok cfg ns
    | .elem n a c r => PlainStart cfg n a ∧ NotIP cfg ns n a ∧ PlainEnd cfg ns n ∧ c.Ok cfg ns ∧ r.Ok cfg ns
    | .ip n a b r => IsIP cfg ns n a ∧ b.Ok cfg ns ∧ r.Ok cfg ns
  /-- well-formedness of HTML content inside an integration point of namespace `prev` -/
  def HSeq.Ok (cfg : TagCfg) (prev : FNs) : HSeq → Prop
    | .nil => True
    | .text r => r.Ok cfg prev
    | .void n _ _ r => HtmlStart cfg n ∧ r.Ok cfg prev
    | .elem n _ c r => HtmlStart cfg n ∧ HtmlEnd cfg prev n ∧ c.Ok cfg prev ∧ r.Ok cfg prev
    | .island ns n _ c r => NameHash.ofBytes n = rootHash cfg ns ∧ c.Ok cfg ns ∧ r.Ok cfg prev
end

mutual
  /-- tag sequence of foreign content, each tag with the expected namespace after it -/
  def FSeq.flat (ns : FNs) : FSeq → List (TagEvent × Ns)
    | .nil => []
    | .text r => r.flat ns
    | .selfClosing n a r => (startEv n a true, ns.toNs) :: r.flat ns
    | .elem n a c r => (startEv n a false, ns.toNs) :: (c.flat ns ++ (endEv n, ns.toNs) :: r.flat ns)
    | .ip n a b r => (startEv n a false, .html) :: (b.flat ++ (endEv n, ns.toNs) :: r.flat ns)
  /-- tag sequence of HTML content, each tag with the expected namespace after it -/
  def HSeq.flat : HSeq → List (TagEvent × Ns)
    | .nil => []
    | .text r => r.flat
    | .void n a sc r => (startEv n a sc, .html) :: r.flat
    | .elem n a c r => (startEv n a false, .html) :: (c.flat ++ (endEv n, .html) :: r.flat)
    | .island ns n a c r => (startEv n a false, ns.toNs) :: (c.flat ns ++ (endEv n, .html) :: r.flat)
end

/-- A top-level island: `<svg …> children </svg>` or `<math …> children </math>`. -/
structure Island where
  ns : FNs
  name : Bytes
  attrs : Attrs
  children : FSeq

def Island.Ok (cfg : TagCfg) (i : Island) : Prop :=
  NameHash.ofBytes i.name = rootHash cfg i.ns ∧ i.children.Ok cfg i.ns

def Island.flat (i : Island) : List (TagEvent × Ns) :=
  (startEv i.name i.attrs false, i.ns.toNs) :: (i.children.flat i.ns ++ [(endEv i.name, .html)])


/-- A document of the C03 domain as the simulator sees it: arbitrary tags in the HTML namespace
(tag soup: any hash, any lexeme view, start or end) that are not `svg`/`math` start tags, and
well-nested islands. -/
inductive DocItem
  | tag (ev : TagEvent)
  | island (i : Island)

def DocItem.Ok (cfg : TagCfg) : DocItem → Prop
  | .tag ev => ev.view.isStart = true → ev.hash ≠ cfg.svg ∧ ev.hash ≠ cfg.math
  | .island i => i.Ok cfg

def DocItem.flat : DocItem → List (TagEvent × Ns)
  | .tag ev => [(ev, .html)]
  | .island i => i.flat

def docFlat (d : List DocItem) : List (TagEvent × Ns) := d.flatMap DocItem.flat

end LolHtml.Spec.Island
