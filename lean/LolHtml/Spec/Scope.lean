/-
Reference semantics of scoped dispatch (property C05), independent of reference counts, locators,
capture flags and one-shot handler vectors: a plain stack of open elements and, per event, the list
of handler invocations the documentation promises.

Handler ids: selector entries `0 … n-1`, document-level entries `n … n+m-1` (registration order).
-/
import LolHtml.Model.Controller

namespace LolHtml.Spec.Scope
open LolHtml.Model.Handlers LolHtml.Model.Controller

/-- Registration indices (starting at `k`) of the entries that carry a handler of the kind `f`. -/
def idsFrom {ρ : Type} (f : ρ → Bool) : Nat → List ρ → List Nat
  | _, [] => []
  | k, r :: rs => if f r then k :: idsFrom f (k + 1) rs else idsFrom f (k + 1) rs

/-- All text handlers in registration order: selector-scoped first, then document-level. -/
def textIds (sels : List SelReg) (docs : List DocReg) : List HId :=
  idsFrom (·.text) 0 sels ++ idsFrom (·.text) sels.length docs
def commentIds (sels : List SelReg) (docs : List DocReg) : List HId :=
  idsFrom (·.comments) 0 sels ++ idsFrom (·.comments) sels.length docs
def doctypeIds (sels : List SelReg) (docs : List DocReg) : List HId :=
  idsFrom (·.doctype) sels.length docs
def endIds (sels : List SelReg) (docs : List DocReg) : List HId :=
  idsFrom (·.end_) sels.length docs
def elementIds (sels : List SelReg) : List HId := idsFrom (·.element) 0 sels

/-- An open element: a start tag that can have content and has not been closed yet. -/
structure OpenElem where
  name : Name
  /-- match ids the matcher reported for its start tag -/
  matched : List Nat
  /-- ordinal of its start-tag event -/
  ord : Nat
  /-- end-tag closures its element handlers registered, in call order -/
  subs : List (HId × Nat)
  /-- one of its element handlers asked for its content to be removed -/
  removed : Bool
  deriving DecidableEq, Repr

/-- Element handlers that run on a start tag with match set `matched`: registration order. -/
def invokedOn (sels : List SelReg) (matched : List Nat) : List HId :=
  (elementIds sels).filter fun h => matched.contains h

def mkOpen (script : ElemScript) (sels : List SelReg) (name : Name) (matched : List Nat) (ord : Nat) :
    OpenElem :=
  let invoked := invokedOn sels matched
  { name := name, matched := matched, ord := ord,
    subs := Dispatcher.endTagSubs script ord invoked,
    removed := invoked.any fun h => (script h ord).removeContent }

/-- The stack of open elements (outermost first) after one event. An end tag closes the innermost
open element of that name together with everything opened inside it; it is ignored if no such
element is open. Void elements and self-closed foreign elements are never open. -/
def openStep (script : ElemScript) (sels : List SelReg) (st : List OpenElem) (ord : Nat) :
    Event → List OpenElem
  | .startTag name dir selfClosing matched =>
    if withContentOf dir selfClosing then st ++ [mkOpen script sels name matched ord] else st
  | .endTag name =>
    match splitLast (fun e => decide (e.name = name)) st with
    | some (kept, _) => kept
    | none => st
  | _ => st

/-- How many open elements keep the handlers of selector `h` active (with multiplicity, should a
matcher report an id twice). -/
def openCount (sp : List OpenElem) (h : Nat) : Nat := (sp.map fun e => e.matched.count h).sum

/-- Is handler `h` in scope: document-level (`n ≤ h`), or some open element matched selector `h`. -/
def inScope (n : Nat) (st : List OpenElem) (h : Nat) : Bool :=
  decide (n ≤ h) || st.any fun e => e.matched.contains h

/-- The invocations promised for one event, given the open elements before it. -/
def expected (sels : List SelReg) (docs : List DocReg) (st : List OpenElem)
    (ord : Nat) : Event → List Invocation
  | .startTag _ _ _ matched => (invokedOn sels matched).map fun h => .token .element h ord
  | .endTag name =>
    match splitLast (fun e => decide (e.name = name)) st with
    | some (_, closed) =>
      closed.reverse.flatMap fun e => e.subs.map fun (p : HId × Nat) => .endTag p.1 p.2 e.ord ord
    | none => []
  | .text => ((textIds sels docs).filter (inScope sels.length st)).map fun h => .token .text h ord
  | .comment =>
    ((commentIds sels docs).filter (inScope sels.length st)).map fun h => .token .comment h ord
  | .doctype => (doctypeIds sels docs).map fun h => .token .doctype h ord

/-- Open elements after a sequence of events numbered from `ord`. -/
def openStack (script : ElemScript) (sels : List SelReg) :
    List OpenElem → Nat → List Event → List OpenElem
  | st, _, [] => st
  | st, ord, e :: es => openStack script sels (openStep script sels st ord e) (ord + 1) es

/-- The promised log for a sequence of events numbered from `ord`. -/
def log (script : ElemScript) (sels : List SelReg) (docs : List DocReg) :
    List OpenElem → Nat → List Event → List Invocation
  | _, _, [] => []
  | st, ord, e :: es =>
    expected sels docs st ord e ++
      log script sels docs (openStep script sels st ord e) (ord + 1) es

/-- The promised invocations at the end of the document: every `end` handler, last registered
first (`handlers_dispatcher.rs:120`: "rev() is for backwards-compat"). -/
def expectedEnd (sels : List SelReg) (docs : List DocReg) (ord : Nat) : List Invocation :=
  (endIds sels docs).reverse.map fun h => .token .end_ h ord

/-- Matchers only report ids of registered selectors. -/
def WfEvent (n : Nat) : Event → Prop
  | .startTag _ _ _ matched => ∀ m ∈ matched, m < n
  | _ => True

def WfEvents (n : Nat) (evs : List Event) : Prop := ∀ e ∈ evs, WfEvent n e

end LolHtml.Spec.Scope
