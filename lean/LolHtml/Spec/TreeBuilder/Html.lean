import LolHtml.Spec.TreeBuilder.Afe
/-!
# §13.2.6.4 "The rules for parsing tokens in HTML content": the insertion modes

One function per insertion mode. "Process the token using the rules for the X insertion mode" is a call
of `X`; "reprocess the token" is the result `.reprocess` (the driver dispatches again on the new state).
-/
namespace LolHtml.Spec.TreeBuilder
open LolHtml.Model (Ns)

/-- result of applying one rule to a token -/
inductive Res
  /-- the token has been consumed; `sw` = the tokenizer state switch the rule asked for -/
  | done (s : State) (sw : Switch)
  /-- "reprocess the token"; `html` = directly by the rules of the current insertion mode in HTML
  content (§13.2.6.5, the two places that say so), otherwise through the tree construction dispatcher -/
  | reprocess (s : State) (html : Bool)
  /-- a token the standard gives no rule for (a non-character, non-EOF, non-end-tag token in the
  "text" insertion mode: the tokenizer cannot emit one there) -/
  | impossible (s : State)
  deriving Repr, Inhabited

def Res.ignore (s : State) : Res := .done s .none
def Res.ok (s : State) : Res := .done s .none
def Res.again (s : State) : Res := .reprocess s false

/-- apply `f` to the state of a result -/
def Res.mapState (f : State → State) : Res → Res
  | .done s sw => .done (f s) sw
  | .reprocess s h => .reprocess (f s) h
  | .impossible s => .impossible (f s)

/-- §13.2.6.2 generic raw text / RCDATA element parsing algorithm (also `textarea`, `script`,
`plaintext`'s common part): insert the element, switch the tokenizer, remember the insertion mode,
switch to "text" -/
def rawText (s : State) (n : Name) (a : Attrs) (sw : Switch) : Res :=
  let s1 := s.insertHtml n a
  .done { s1 with origMode := s1.mode, mode := .text } sw

def headStartNames : List Name := [.base, .basefont, .bgsound, .link, .«meta», .noframes, .script, .style, .template, .title]

/-- §13.2.6.4.7 "in body", a start tag whose tag name is "html" (every mode refers to it) -/
def htmlStartInBody (s : State) : Res := .ok s

/-- §13.2.6.4.18 "in template", end-of-file (used by "in body" EOF) -/
def inTemplateEof (c : Cfg) (s : State) : Res :=
  if !s.hasOnStack .template then .ok s            -- stop parsing
  else
    let s := (s.popUntilNamed .template).clearAfeToMarker
    let s := { s with tmodes := s.tmodes.tail }
    .again (s.resetMode c)

/-- §13.2.6.4.4 "in head" -/
def inHead (c : Cfg) (s : State) : Token → Res
  | .char .ws => .ok s
  | .comment => .ok s
  | .doctype _ => .ignore s
  | .start n _ a =>
    if n == .html then htmlStartInBody s
    else if n.isIn [.base, .basefont, .bgsound, .link] then .ok (s.insertAndPop n a)
    else if n == .«meta» then .ok (s.insertAndPop n a)
    else if n == .title then rawText s n a .rcdata
    else if (n == .noscript && c.scripting) || n.isIn [.noframes, .style] then rawText s n a .rawtext
    else if n == .noscript then .ok { s.insertHtml n a with mode := .inHeadNoscript }
    else if n == .script then rawText s n a .scriptData
    else if n == .template then
      let s := (s.insertHtml n a).pushMarker
      .ok { s with framesetOk := false, mode := .inTemplate, tmodes := .inTemplate :: s.tmodes }
    else if n == .head then .ignore s
    else .again { s.pop with mode := .afterHead }
  | .end n =>
    if n == .head then .ok { s.pop with mode := .afterHead }
    else if n.isIn [.body, .html, .br] then .again { s.pop with mode := .afterHead }
    else if n == .template then
      if !s.hasOnStack .template then .ignore s
      else
        let s := ((s.genImpliedThoroughly).popUntilNamed .template).clearAfeToMarker
        let s := { s with tmodes := s.tmodes.tail }
        .ok (s.resetMode c)
    else .ignore s
  | _ => .again { s.pop with mode := .afterHead }

/-! ### §13.2.6.4.7 "in body" -/

/-- a character token -/
def inBodyChar (s : State) : CharClass → State
  | .nul => s
  | .ws => s.reconstructAfe
  | .other => { s.reconstructAfe with framesetOk := false }

def blockStartNames : List Name :=
  [.address, .article, .aside, .blockquote, .center, .details, .dialog, .dir, .div, .dl, .fieldset,
   .figcaption, .figure, .footer, .header, .hgroup, .main, .menu, .nav, .ol, .p, .search, .«section»,
   .summary, .ul]

def blockEndNames : List Name :=
  [.address, .article, .aside, .blockquote, .button, .center, .details, .dialog, .dir, .div, .dl,
   .fieldset, .figcaption, .figure, .footer, .header, .hgroup, .listing, .main, .menu, .nav, .ol, .pre,
   .search, .«section», .summary, .ul]

def headingNames : List Name := [.h1, .h2, .h3, .h4, .h5, .h6]

/-- the loop of the `li` / `dd`,`dt` start tag rules: walk down the stack; at an element named in
`close` generate implied end tags except for it and pop up to it; stop at a special element other than
address, div, p -/
def closeListItemTarget (d : Dev) (close : List Name) : List El → Option Name
  | [] => none
  | e :: es =>
    if e.isHtmlIn close then some e.name
    else if e.isSpecial d && !e.isHtmlIn [.address, .div, .p] then none
    else closeListItemTarget d close es

def Tree.closeListItem (c : Cfg) (close : List Name) (t : Tree) : Tree :=
  match closeListItemTarget c.dev close t.stack with
  | some n => (t.genImplied (some n)).popUntilNamed n
  | none => t

abbrev closeListItem (c : Cfg) (close : List Name) (s : State) : State := s.onTree (·.closeListItem c close)

/-- the formatting element named `a` after the last marker, if any -/
def findAfeA : List AfeEntry → Option El := findFormatting .a

/-- start tags of "in body" -/
def inBodyStart (c : Cfg) (s : State) (n0 : Name) (a : Attrs) (selfClosing : Bool) : Res :=
  -- A start tag whose tag name is "image": change the token's tag name to "img" and reprocess it
  let n := if n0 == .image then .img else n0
  if n == .html then htmlStartInBody s
  else if n.isIn headStartNames then inHead c s (.start n selfClosing a)
  else if n == .body then
    if s.stack.length ≤ 1 || !((s.stack.reverse.getD 1 default).isHtml .body) || s.hasOnStack .template then .ignore s
    else .ok { s with framesetOk := false }
  else if n == .frameset then
    if s.stack.length ≤ 1 || !((s.stack.reverse.getD 1 default).isHtml .body) then .ignore s
    else if !s.framesetOk then .ignore s
    else
      -- pop all the nodes from the current node up to, but not including, the root html element
      let s := s.onTree (·.popToRoot)
      .ok { s.insertHtml n a with mode := .inFrameset }
  else if n.isIn blockStartNames then .ok ((s.closePInButtonScope c).insertHtml n a)
  else if n.isIn headingNames then
    let s := s.closePInButtonScope c
    let s := if s.currentIsIn headingNames then s.pop else s
    .ok (s.insertHtml n a)
  else if n.isIn [.pre, .listing] then
    .ok { (s.closePInButtonScope c).insertHtml n a with framesetOk := false }
  else if n == .form then
    if s.formPtr.isSome && !s.hasOnStack .template then .ignore s
    else
      let s := (s.closePInButtonScope c).insertHtml n a
      if !s.hasOnStack .template then .ok { s with formPtr := s.current } else .ok s
  else if n == .li then
    let s := { s with framesetOk := false }
    .ok (((closeListItem c [.li] s).closePInButtonScope c).insertHtml n a)
  else if n.isIn [.dd, .dt] then
    let s := { s with framesetOk := false }
    .ok (((closeListItem c [.dd, .dt] s).closePInButtonScope c).insertHtml n a)
  else if n == .plaintext then
    .done ((s.closePInButtonScope c).insertHtml n a) .plaintext
  else if n == .button then
    let s := if s.inScope c .button then (s.genImplied).popUntilNamed .button else s
    .ok { (s.reconstructAfe).insertHtml n a with framesetOk := false }
  else if n == .a then
    let s :=
      match findAfeA s.afe with
      | some e => ((s.adoptionAgency c .a).removeFromAfe e).removeFromStack e
      | none => s
    .ok ((s.reconstructAfe).insertFormatting n a)
  else if n.isIn [.b, .big, .code, .em, .font, .i, .s, .small, .strike, .strong, .tt, .u] then
    .ok ((s.reconstructAfe).insertFormatting n a)
  else if n == .nobr then
    let s := s.reconstructAfe
    let s := if s.inScope c .nobr then ((s.adoptionAgency c .nobr).reconstructAfe) else s
    .ok (s.insertFormatting n a)
  else if n.isIn [.applet, .marquee, .object] then
    .ok { ((s.reconstructAfe).insertHtml n a).pushMarker with framesetOk := false }
  else if n == .table then
    let s := if !s.quirks then s.closePInButtonScope c else s
    .ok { s.insertHtml n a with framesetOk := false, mode := .inTable }
  else if n.isIn [.area, .br, .embed, .img, .keygen, .wbr] then
    .ok { (s.reconstructAfe).insertAndPop n a with framesetOk := false }
  else if n == .input then
    -- (current text) "If the stack of open elements has a select element in scope: pop elements until
    -- a select element has been popped"
    let s := if !c.legacySelect && s.inScope c .select then s.popUntilNamed .select else s
    let s := (s.reconstructAfe).insertAndPop n a
    .ok (if a.typ != .hidden then { s with framesetOk := false } else s)
  else if n.isIn [.param, .source, .track] then .ok (s.insertAndPop n a)
  else if n == .hr then
    let s := s.closePInButtonScope c
    -- (current text) "If the stack of open elements has a select element in scope, generate implied end tags"
    let s := if !c.legacySelect && s.inScope c .select then s.genImplied else s
    .ok { s.insertAndPop n a with framesetOk := false }
  else if n == .textarea then
    let s1 := s.insertHtml n a
    .done { s1 with origMode := s1.mode, framesetOk := false, mode := .text } .rcdata
  else if n == .xmp then
    let s := (s.closePInButtonScope c).reconstructAfe
    rawText { s with framesetOk := false } n a .rawtext
  else if n == .iframe then rawText { s with framesetOk := false } n a .rawtext
  else if n == .noembed then rawText s n a .rawtext
  else if n == .noscript && c.scripting then rawText s n a .rawtext
  else if n == .select then
    if c.legacySelect then
      let s := (s.reconstructAfe).insertHtml n a
      let m := if s.mode matches .inTable | .inCaption | .inTableBody | .inRow | .inCell then Mode.inSelectInTable else Mode.inSelect
      .ok { s with framesetOk := false, mode := m }
    else if s.inScope c .select then .ok (s.popUntilNamed .select)   -- parse error; the token is ignored
    else .ok { (s.reconstructAfe).insertHtml n a with framesetOk := false }
  else if n == .option then
    if c.legacySelect then
      let s := if s.currentIs .option then s.pop else s
      .ok ((s.reconstructAfe).insertHtml n a)
    else
      let s :=
        if s.inScope c .select then s.genImplied (some .optgroup)
        else if s.currentIs .option then s.pop else s
      .ok ((s.reconstructAfe).insertHtml n a)
  else if n == .optgroup then
    if c.legacySelect then
      let s := if s.currentIs .option then s.pop else s
      .ok ((s.reconstructAfe).insertHtml n a)
    else
      let s :=
        if s.inScope c .select then s.genImplied
        else if s.currentIs .option then s.pop else s
      .ok ((s.reconstructAfe).insertHtml n a)
  else if n.isIn [.rb, .rtc] then
    let s := if s.inScope c .ruby then s.genImplied else s
    .ok (s.insertHtml n a)
  else if n.isIn [.rp, .rt] then
    let s := if s.inScope c .ruby then s.genImplied (some .rtc) else s
    .ok (s.insertHtml n a)
  else if n == .math then
    let s := (s.reconstructAfe).pushNew .mathml n a
    .ok (if selfClosing then s.pop else s)
  else if n == .svg then
    let s := (s.reconstructAfe).pushNew .svg n a
    .ok (if selfClosing then s.pop else s)
  else if n.isIn [.caption, .col, .colgroup, .frame, .head, .tbody, .td, .tfoot, .th, .thead, .tr] then .ignore s
  else .ok ((s.reconstructAfe).insertHtml n a)

/-- end tags of "in body" -/
def inBodyEnd (c : Cfg) (s : State) (n : Name) : Res :=
  if n == .template then inHead c s (.end n)
  else if n == .body then
    if !s.inScope c .body then .ignore s else .ok { s with mode := .afterBody }
  else if n == .html then
    if !s.inScope c .body then .ignore s else .again { s with mode := .afterBody }
  else if n.isIn blockEndNames || (!c.legacySelect && n == .select) then
    if !s.inScope c n then .ignore s else .ok ((s.genImplied).popUntilNamed n)
  else if n == .form then
    if !s.hasOnStack .template then
      match s.formPtr with
      | none => .ignore s
      | some node =>
        let s := { s with formPtr := none }
        if !s.inScopeId c node then .ignore s
        else .ok ((s.genImplied).removeFromStack node)
    else
      if !s.inScope c .form then .ignore s
      else .ok ((s.genImplied).popUntilNamed .form)
  else if n == .p then
    let s := if !s.inButtonScope c .p then s.insertHtml .p else s
    .ok s.closeP
  else if n == .li then
    if !s.inListItemScope c .li then .ignore s else .ok ((s.genImplied (some .li)).popUntilNamed .li)
  else if n.isIn [.dd, .dt] then
    if !s.inScope c n then .ignore s else .ok ((s.genImplied (some n)).popUntilNamed n)
  else if n.isIn headingNames then
    if !s.inScopeIn c headingNames then .ignore s else .ok ((s.genImplied).popUntilIn headingNames)
  else if n.isIn formattingNames then .ok (s.adoptionAgency c n)
  else if n.isIn [.applet, .marquee, .object] then
    if !s.inScope c n then .ignore s
    else .ok (((s.genImplied).popUntilNamed n).clearAfeToMarker)
  else if n == .br then
    -- "parse error. Drop the attributes from the token, and act as described in the next entry"
    .ok { (s.reconstructAfe).insertAndPop .br with framesetOk := false }
  else .ok (s.anyOtherEndTag c n)

/-- §13.2.6.4.7 "in body" -/
def inBody (c : Cfg) (s : State) : Token → Res
  | .char cc => .ok (inBodyChar s cc)
  | .comment => .ok s
  | .doctype _ => .ignore s
  | .start n sc a => inBodyStart c s n a sc
  | .end n => inBodyEnd c s n
  | .eof => if !s.tmodes.isEmpty then inTemplateEof c s else .ok s   -- stop parsing

/-- §13.2.6.4.8 "text" -/
def text (_c : Cfg) (s : State) : Token → Res
  | .char _ => .ok s
  | .eof => .again { s.pop with mode := s.origMode }
  | .end _ => .ok { s.pop with mode := s.origMode }
  | _ => .impossible s

/-! ### tables -/

/-- "anything else" of "in table": process the token using the rules for "in body" with foster
parenting enabled (foster parenting only changes where nodes go in the DOM) -/
def inTableAnythingElse (c : Cfg) (s : State) (t : Token) : Res := inBody c s t

/-- §13.2.6.4.9 "in table" -/
def inTable (c : Cfg) (s : State) (t : Token) : Res :=
  match t with
  | .char _ =>
    if s.currentIsIn [.table, .tbody, .tfoot, .thead, .tr] || (!c.dev.tableTextNoTemplate && s.currentIs .template) then
      .again { s with pending := [], origMode := s.mode, mode := .inTableText }
    else inTableAnythingElse c s t
  | .comment => .ok s
  | .doctype _ => .ignore s
  | .start n _ a =>
    if n == .caption then
      .ok { ((s.clearToTableContext).pushMarker).insertHtml n a with mode := .inCaption }
    else if n == .colgroup then
      .ok { (s.clearToTableContext).insertHtml n a with mode := .inColumnGroup }
    else if n == .col then
      .again { (s.clearToTableContext).insertHtml .colgroup with mode := .inColumnGroup }
    else if n.isIn [.tbody, .tfoot, .thead] then
      .ok { (s.clearToTableContext).insertHtml n a with mode := .inTableBody }
    else if n.isIn [.td, .th, .tr] then
      .again { (s.clearToTableContext).insertHtml .tbody with mode := .inTableBody }
    else if n == .table then
      if !s.inTableScope .table then .ignore s
      else .again ((s.popUntilNamed .table).resetMode c)
    else if n.isIn [.style, .script, .template] then inHead c s t
    else if n == .input then
      if a.typ != .hidden then inTableAnythingElse c s t else .ok (s.insertAndPop n a)
    else if n == .form then
      if s.hasOnStack .template || s.formPtr.isSome then .ignore s
      else
        let s1 := s.insertHtml n a
        .ok { s1.pop with formPtr := s1.current }
    else inTableAnythingElse c s t
  | .end n =>
    if n == .table then
      if !s.inTableScope .table then .ignore s
      else .ok ((s.popUntilNamed .table).resetMode c)
    else if n.isIn [.body, .caption, .col, .colgroup, .html, .tbody, .td, .tfoot, .th, .thead, .tr] then .ignore s
    else if n == .template then inHead c s t
    else inTableAnythingElse c s t
  | .eof => inBody c s t

/-- flush of §13.2.6.4.10: the pending characters, earliest first -/
def flushPending (s : State) : State :=
  let chars := s.pending.reverse
  let s := { s with pending := [] }
  if chars.any (· == .other) then chars.foldl inBodyChar s else s

/-- §13.2.6.4.10 "in table text" -/
def inTableText (_c : Cfg) (s : State) : Token → Res
  | .char .nul => .ignore s
  | .char cc => .ok { s with pending := cc :: s.pending }
  | _ =>
    let s := flushPending s
    .again { s with mode := s.origMode }

def tableSectionStartNames : List Name := [.caption, .col, .colgroup, .tbody, .td, .tfoot, .th, .thead, .tr]

/-- §13.2.6.4.11 "in caption" -/
def inCaption (c : Cfg) (s : State) (t : Token) : Res :=
  let closeCaption (s : State) : State :=
    { (((s.genImplied).popUntilNamed .caption).clearAfeToMarker) with mode := .inTable }
  match t with
  | .end n =>
    if n == .caption then
      if !s.inTableScope .caption then .ignore s else .ok (closeCaption s)
    else if n == .table then
      if !s.inTableScope .caption then .ignore s else .again (closeCaption s)
    else if n.isIn [.body, .col, .colgroup, .html, .tbody, .td, .tfoot, .th, .thead, .tr] then .ignore s
    else inBody c s t
  | .start n _ _ =>
    if n.isIn tableSectionStartNames then
      if !s.inTableScope .caption then .ignore s else .again (closeCaption s)
    else inBody c s t
  | _ => inBody c s t

/-- §13.2.6.4.12 "in column group" -/
def inColumnGroup (c : Cfg) (s : State) (t : Token) : Res :=
  let anythingElse (s : State) : Res :=
    if !s.currentIs .colgroup then .ignore s
    else .again { s.pop with mode := .inTable }
  match t with
  | .char .ws => .ok s
  | .comment => .ok s
  | .doctype _ => .ignore s
  | .start n _ a =>
    if n == .html then htmlStartInBody s
    else if n == .col then .ok (s.insertAndPop n a)
    else if n == .template then inHead c s t
    else anythingElse s
  | .end n =>
    if n == .colgroup then
      if !s.currentIs .colgroup then .ignore s else .ok { s.pop with mode := .inTable }
    else if n == .col then .ignore s
    else if n == .template then inHead c s t
    else anythingElse s
  | .eof => inBody c s t
  | _ => anythingElse s

/-- §13.2.6.4.13 "in table body" -/
def inTableBody (c : Cfg) (s : State) (t : Token) : Res :=
  let sectionInScope : Bool :=
    if c.dev.tableBodyScopeH5 then s.inTableScopeIn [.table, .tbody, .tfoot] else s.inTableScopeIn [.tbody, .thead, .tfoot]
  match t with
  | .start n _ a =>
    if n == .tr then .ok { (s.clearToTableBodyContext).insertHtml n a with mode := .inRow }
    else if n.isIn [.th, .td] then
      .again { (s.clearToTableBodyContext).insertHtml .tr with mode := .inRow }
    else if n.isIn [.caption, .col, .colgroup, .tbody, .tfoot, .thead] then
      if !sectionInScope then .ignore s
      else .again { (s.clearToTableBodyContext).pop with mode := .inTable }
    else inTable c s t
  | .end n =>
    if n.isIn [.tbody, .tfoot, .thead] then
      if !s.inTableScope n then .ignore s
      else .ok { (s.clearToTableBodyContext).pop with mode := .inTable }
    else if n == .table then
      if !sectionInScope then .ignore s
      else .again { (s.clearToTableBodyContext).pop with mode := .inTable }
    else if n.isIn [.body, .caption, .col, .colgroup, .html, .td, .th, .tr] then .ignore s
    else inTable c s t
  | _ => inTable c s t

/-- §13.2.6.4.14 "in row" -/
def inRow (c : Cfg) (s : State) (t : Token) : Res :=
  let closeRow (s : State) : State := { (s.clearToTableRowContext).pop with mode := .inTableBody }
  match t with
  | .start n _ a =>
    if n.isIn [.th, .td] then
      .ok { ((s.clearToTableRowContext).insertHtml n a).pushMarker with mode := .inCell }
    else if n.isIn [.caption, .col, .colgroup, .tbody, .tfoot, .thead, .tr] then
      if !s.inTableScope .tr then .ignore s else .again (closeRow s)
    else inTable c s t
  | .end n =>
    if n == .tr then
      if !s.inTableScope .tr then .ignore s else .ok (closeRow s)
    else if n == .table then
      if !s.inTableScope .tr then .ignore s else .again (closeRow s)
    else if n.isIn [.tbody, .tfoot, .thead] then
      if !s.inTableScope n then .ignore s
      else if !s.inTableScope .tr then .ignore s
      else .again (closeRow s)
    else if n.isIn [.body, .caption, .col, .colgroup, .html, .td, .th] then .ignore s
    else inTable c s t
  | _ => inTable c s t

/-- §13.2.6.4.15 "close the cell" -/
def State.closeCell (s : State) : State :=
  { (((s.genImplied).popUntilIn [.td, .th]).clearAfeToMarker) with mode := .inRow }

/-- §13.2.6.4.15 "in cell" -/
def inCell (c : Cfg) (s : State) (t : Token) : Res :=
  match t with
  | .end n =>
    if n.isIn [.td, .th] then
      if !s.inTableScope n then .ignore s
      else .ok { (((s.genImplied).popUntilNamed n).clearAfeToMarker) with mode := .inRow }
    else if n.isIn [.body, .caption, .col, .colgroup, .html] then .ignore s
    else if n.isIn [.table, .tbody, .tfoot, .thead, .tr] then
      if !s.inTableScope n then .ignore s else .again s.closeCell
    else inBody c s t
  | .start n _ _ =>
    if n.isIn tableSectionStartNames then
      -- "Assert: the stack of open elements has a td or th element in table scope"
      if !s.inTableScopeIn [.td, .th] then .ignore s else .again s.closeCell
    else inBody c s t
  | _ => inBody c s t

/-! ### select (pre-2025 text; entered only with `Cfg.legacySelect`) -/

/-- §13.2.6.4.16 "in select" -/
def inSelect (c : Cfg) (s : State) (t : Token) : Res :=
  match t with
  | .char _ => .ok s
  | .comment => .ok s
  | .doctype _ => .ignore s
  | .start n _ a =>
    if n == .html then htmlStartInBody s
    else if n == .option then
      let s := if s.currentIs .option then s.pop else s
      .ok (s.insertHtml n a)
    else if n == .optgroup then
      let s := if s.currentIs .option then s.pop else s
      let s := if s.currentIs .optgroup then s.pop else s
      .ok (s.insertHtml n a)
    else if n == .hr then
      let s := if s.currentIs .option then s.pop else s
      let s := if s.currentIs .optgroup then s.pop else s
      .ok (s.insertAndPop n a)
    else if n == .select then
      if !s.inSelectScope .select then .ignore s
      else .ok ((s.popUntilNamed .select).resetMode c)
    else if n.isIn [.input, .keygen, .textarea] then
      if !s.inSelectScope .select then .ignore s
      else .again ((s.popUntilNamed .select).resetMode c)
    else if n.isIn [.script, .template] then inHead c s t
    else .ignore s
  | .end n =>
    if n == .optgroup then
      let s :=
        match s.stack with
        | e0 :: e1 :: _ => if e0.isHtml .option && e1.isHtml .optgroup then s.pop else s
        | _ => s
      if s.currentIs .optgroup then .ok s.pop else .ignore s
    else if n == .option then
      if s.currentIs .option then .ok s.pop else .ignore s
    else if n == .select then
      if !s.inSelectScope .select then .ignore s
      else .ok ((s.popUntilNamed .select).resetMode c)
    else if n == .template then inHead c s t
    else .ignore s
  | .eof => inBody c s t

def selectInTableNames : List Name := [.caption, .table, .tbody, .tfoot, .thead, .tr, .td, .th]

/-- §13.2.6.4.17 "in select in table" -/
def inSelectInTable (c : Cfg) (s : State) (t : Token) : Res :=
  match t with
  | .start n _ _ =>
    if n.isIn selectInTableNames then .again ((s.popUntilNamed .select).resetMode c)
    else inSelect c s t
  | .end n =>
    if n.isIn selectInTableNames then
      if !s.inTableScope n then .ignore s
      else .again ((s.popUntilNamed .select).resetMode c)
    else inSelect c s t
  | _ => inSelect c s t

/-- §13.2.6.4.18 "in template" -/
def inTemplate (c : Cfg) (s : State) (t : Token) : Res :=
  let switchTo (m : Mode) : Res := .again { s with tmodes := m :: s.tmodes.tail, mode := m }
  match t with
  | .char _ => inBody c s t
  | .comment => inBody c s t
  | .doctype _ => inBody c s t
  | .start n _ _ =>
    if n.isIn headStartNames then inHead c s t
    else if n.isIn [.caption, .colgroup, .tbody, .tfoot, .thead] then switchTo .inTable
    else if n == .col then switchTo .inColumnGroup
    else if n == .tr then switchTo .inTableBody
    else if n.isIn [.td, .th] then switchTo .inRow
    else switchTo .inBody
  | .end n => if n == .template then inHead c s t else .ignore s
  | .eof => inTemplateEof c s

/-! ### the remaining modes -/

/-- §13.2.6.4.19 "after body" -/
def afterBody (c : Cfg) (s : State) (t : Token) : Res :=
  match t with
  | .char .ws => inBody c s t
  | .comment => .ok s
  | .doctype _ => .ignore s
  | .start .html _ _ => htmlStartInBody s
  | .end .html => .ok { s with mode := .afterAfterBody }
  | .eof => .ok s
  | _ => .again { s with mode := .inBody }

/-- §13.2.6.4.20 "in frameset" -/
def inFrameset (c : Cfg) (s : State) (t : Token) : Res :=
  match t with
  | .char .ws => .ok s
  | .comment => .ok s
  | .doctype _ => .ignore s
  | .start n _ a =>
    if n == .html then htmlStartInBody s
    else if n == .frameset then .ok (s.insertHtml n a)
    else if n == .frame then .ok (s.insertAndPop n a)
    else if n == .noframes then inHead c s t
    else .ignore s
  | .end n =>
    if n == .frameset then
      if s.stack.length ≤ 1 then .ignore s      -- the current node is the root html element
      else
        let s := s.pop
        .ok (if !s.currentIs .frameset then { s with mode := .afterFrameset } else s)
    else .ignore s
  | .eof => .ok s
  | _ => .ignore s

/-- §13.2.6.4.21 "after frameset" -/
def afterFrameset (c : Cfg) (s : State) (t : Token) : Res :=
  match t with
  | .char .ws => .ok s
  | .comment => .ok s
  | .doctype _ => .ignore s
  | .start n _ _ =>
    if n == .html then htmlStartInBody s
    else if n == .noframes then inHead c s t
    else .ignore s
  | .end n => if n == .html then .ok { s with mode := .afterAfterFrameset } else .ignore s
  | .eof => .ok s
  | _ => .ignore s

/-- §13.2.6.4.22 "after after body" -/
def afterAfterBody (c : Cfg) (s : State) (t : Token) : Res :=
  match t with
  | .comment => .ok s
  | .doctype _ => inBody c s t
  | .char .ws => inBody c s t
  | .start .html _ _ => htmlStartInBody s
  | .eof => .ok s
  | _ => .again { s with mode := .inBody }

/-- §13.2.6.4.23 "after after frameset" -/
def afterAfterFrameset (c : Cfg) (s : State) (t : Token) : Res :=
  match t with
  | .comment => .ok s
  | .doctype _ => inBody c s t
  | .char .ws => inBody c s t
  | .start n _ _ =>
    if n == .html then htmlStartInBody s
    else if n == .noframes then inHead c s t
    else .ignore s
  | .eof => .ok s
  | _ => .ignore s

/-- §13.2.6.4.1 "initial" -/
def initial (_c : Cfg) (s : State) : Token → Res
  | .char .ws => .ignore s
  | .comment => .ok s
  | .doctype d => .ok { s with quirks := d == .quirks, mode := .beforeHtml }
  | _ => .again { s with quirks := true, mode := .beforeHtml }   -- not an iframe srcdoc document

/-- §13.2.6.4.2 "before html" -/
def beforeHtml (_c : Cfg) (s : State) : Token → Res
  | .doctype _ => .ignore s
  | .comment => .ok s
  | .char .ws => .ignore s
  | .start .html _ a => .ok { s.insertHtml .html a with mode := .beforeHead }
  | .end n =>
    if n.isIn [.head, .body, .html, .br] then .again { s.insertHtml .html with mode := .beforeHead }
    else .ignore s
  | _ => .again { s.insertHtml .html with mode := .beforeHead }

/-- §13.2.6.4.3 "before head" -/
def beforeHead (_c : Cfg) (s : State) : Token → Res
  | .char .ws => .ignore s
  | .comment => .ok s
  | .doctype _ => .ignore s
  | .start .html _ _ => htmlStartInBody s
  | .start .head _ a =>
    let s := s.insertHtml .head a
    .ok { s with headPtr := s.current, mode := .inHead }
  | .end n =>
    if n.isIn [.head, .body, .html, .br] then
      let s := s.insertHtml .head
      .again { s with headPtr := s.current, mode := .inHead }
    else .ignore s
  | _ =>
    let s := s.insertHtml .head
    .again { s with headPtr := s.current, mode := .inHead }

/-- §13.2.6.4.5 "in head noscript" (reached only with the scripting flag disabled) -/
def inHeadNoscript (c : Cfg) (s : State) (t : Token) : Res :=
  let anythingElse : Res := .again { s.pop with mode := .inHead }
  match t with
  | .doctype _ => .ignore s
  | .start n _ _ =>
    if n == .html then htmlStartInBody s
    else if n.isIn [.basefont, .bgsound, .link, .«meta», .noframes, .style] then inHead c s t
    else if n.isIn [.head, .noscript] then .ignore s
    else anythingElse
  | .end n =>
    if n == .noscript then .ok { s.pop with mode := .inHead }
    else if n == .br then anythingElse
    else .ignore s
  | .char .ws => inHead c s t
  | .comment => inHead c s t
  | _ => anythingElse

/-- §13.2.6.4.6 "after head" -/
def afterHead (c : Cfg) (s : State) (t : Token) : Res :=
  let anythingElse : Res := .again { s.insertHtml .body with mode := .inBody }
  match t with
  | .char .ws => .ok s
  | .comment => .ok s
  | .doctype _ => .ignore s
  | .start n _ a =>
    if n == .html then htmlStartInBody s
    else if n == .body then .ok { s.insertHtml n a with framesetOk := false, mode := .inBody }
    else if n == .frameset then .ok { s.insertHtml n a with mode := .inFrameset }
    else if n.isIn headStartNames then
      -- push the node pointed to by the head element pointer, process using "in head", remove it
      match s.headPtr with
      | some h => (inHead c (s.onTree (·.pushEl h)) t).mapState (·.removeFromStack h)
      | none => inHead c s t     -- not reachable: the pointer is set before this mode is entered
    else if n == .head then .ignore s
    else anythingElse
  | .end n =>
    if n == .template then inHead c s t
    else if n.isIn [.body, .html, .br] then anythingElse
    else .ignore s
  | _ => anythingElse

/-- the rules of the current insertion mode -/
def stepMode (c : Cfg) (s : State) (t : Token) : Res :=
  match s.mode with
  | .initial => initial c s t
  | .beforeHtml => beforeHtml c s t
  | .beforeHead => beforeHead c s t
  | .inHead => inHead c s t
  | .inHeadNoscript => inHeadNoscript c s t
  | .afterHead => afterHead c s t
  | .inBody => inBody c s t
  | .text => text c s t
  | .inTable => inTable c s t
  | .inTableText => inTableText c s t
  | .inCaption => inCaption c s t
  | .inColumnGroup => inColumnGroup c s t
  | .inTableBody => inTableBody c s t
  | .inRow => inRow c s t
  | .inCell => inCell c s t
  | .inSelect => inSelect c s t
  | .inSelectInTable => inSelectInTable c s t
  | .inTemplate => inTemplate c s t
  | .afterBody => afterBody c s t
  | .inFrameset => inFrameset c s t
  | .afterFrameset => afterFrameset c s t
  | .afterAfterBody => afterAfterBody c s t
  | .afterAfterFrameset => afterAfterFrameset c s t

end LolHtml.Spec.TreeBuilder
