import LolHtml.Model.Types
/-!
# WHATWG HTML §13.2.6 "Tree construction", reduced to the state that determines tokenizer feedback

Part 1: data types, the stack of open elements (§13.2.4.3), scopes, implied end tags, "reset the
insertion mode appropriately" (§13.2.4.1).

What is kept of the parser state (§13.2.4): insertion mode, original insertion mode, stack of template
insertion modes, stack of open elements, list of active formatting elements, head and form element
pointers, frameset-ok flag, the document's quirks-mode bit (read by "in body" `<table>`), the pending
table character tokens (as whitespace / non-whitespace classes), the scripting flag (configuration).

What is dropped: the DOM (every "insert …" only pushes onto the stack of open elements; "insert a
comment", "insert a character", attribute merging, foster-parent *placement*, form association, script
execution, template contents, character encoding changes have no effect on the kept state), parse
errors, "ignore the next line feed", fragment parsing (no context element: the adjusted current node is
the current node).

Elements are `(id, namespace, local name, attrs)`: `id` is the identity used by the list of active
formatting elements, the adoption agency algorithm and the element pointers; `attrs` is the modelled
part of the token's attributes (see `Attrs`).

Element and tag names are an enumeration of every name the tree-construction rules mention, plus
`other n` for all other names. SVG names are kept lower-cased (`foreignobject`): every comparison the
standard makes on SVG element names after "adjust SVG tag names" is either with the three integration
point names or ASCII-case-insensitive with a (lower-case) token name.

The text follows the multipage standard's section numbers (13.2.6.4.x = the insertion modes). The
standard changed its `select` parsing in 2025 ("customizable select": the insertion modes "in select"
and "in select in table" were removed and "in body" got new `select`/`option`/`optgroup`/`hr`/`input`
rules); lol-html's ambiguity guard was written against the older text. `Cfg.legacySelect` selects the
older text (23 insertion modes); with `legacySelect = false` the two select modes are never entered
(21 modes in use), which is what html5ever 0.39 implements and what lane `tb` validates.
-/
namespace LolHtml.Spec.TreeBuilder
open LolHtml.Model (Ns)

/-- Every tag name the tree construction stage distinguishes; `other n` = any other name. -/
inductive Name
  | html | head | body | title | base | basefont | bgsound | link | «meta» | style | script | noscript
  | template | frameset | frame | noframes
  | table | caption | colgroup | col | tbody | thead | tfoot | tr | td | th
  | select | option | optgroup | input | keygen | textarea | hr
  | xmp | iframe | noembed | plaintext
  | p | li | dd | dt | h1 | h2 | h3 | h4 | h5 | h6
  | address | article | aside | blockquote | center | details | dialog | dir | div | dl | fieldset
  | figcaption | figure | footer | header | hgroup | main | menu | nav | ol | pre | listing | search
  | «section» | summary | ul
  | form | button
  | a | b | big | code | em | font | i | s | small | strike | strong | tt | u | nobr
  | applet | marquee | object
  | area | br | embed | img | wbr | param | source | track | image
  | rb | rtc | rp | rt | ruby
  | math | svg
  | mi | mo | mn | ms | mtext | annotationXml | mglyph | malignmark
  | foreignobject | desc
  | span | sub | sup | var
  | other (n : Nat)
  deriving DecidableEq, Repr, Inhabited

/-- membership test used for the standard's "a start tag whose tag name is one of: …" lists -/
@[inline] def Name.isIn (n : Name) (l : List Name) : Bool := l.contains n

/-- `encoding` attribute of a start tag (read only on MathML `annotation-xml`, §13.2.6.1 "HTML
integration point"): absent / ASCII-case-insensitively "text/html" / "application/xhtml+xml" / other. -/
inductive Enc | absent | textHtml | appXhtml | otherValue
  deriving DecidableEq, Repr, Inhabited

/-- which of the attributes `color`, `face`, `size` (§13.2.6.5, start tag `font`) a start tag has:
none / one of them / only some other attribute -/
inductive FontAttr | absent | color | face | size | otherAttr
  deriving DecidableEq, Repr, Inhabited

/-- `type` attribute (read on `input`: §13.2.6.4.7 and §13.2.6.4.9 test for ASCII-case-insensitive
"hidden") -/
inductive TypeAttr | absent | hidden | otherValue
  deriving DecidableEq, Repr, Inhabited

/-- The modelled part of a start tag's attribute list. A token of the model stands for a tag carrying
exactly the attributes described here (so "same attributes" in the Noah's Ark clause of §13.2.4.3 is
equality of this record). -/
structure Attrs where
  enc : Enc := .absent
  font : FontAttr := .absent
  typ : TypeAttr := .absent
  deriving DecidableEq, Repr, Inhabited

def Attrs.none : Attrs := {}

/-- character tokens, abstracted: U+0000 / ASCII whitespace (TAB LF FF CR SPACE) / anything else -/
inductive CharClass | nul | ws | other
  deriving DecidableEq, Repr, Inhabited

/-- what a DOCTYPE token does to the document in the "initial" insertion mode (§13.2.6.4.1):
no-quirks / limited-quirks / quirks -/
inductive DoctypeClass | noQuirks | limitedQuirks | quirks
  deriving DecidableEq, Repr, Inhabited

/-- tokens (§13.2.5 output) -/
inductive Token
  | start (name : Name) (selfClosing : Bool) (attrs : Attrs)
  | «end» (name : Name)
  | char (c : CharClass)
  | comment
  | doctype (d : DoctypeClass)
  | eof
  deriving DecidableEq, Repr, Inhabited

/-- §13.2.4.1 the insertion modes -/
inductive Mode
  | initial | beforeHtml | beforeHead | inHead | inHeadNoscript | afterHead | inBody | text
  | inTable | inTableText | inCaption | inColumnGroup | inTableBody | inRow | inCell
  | inSelect | inSelectInTable | inTemplate | afterBody | inFrameset | afterFrameset
  | afterAfterBody | afterAfterFrameset
  deriving DecidableEq, Repr, Inhabited

/-- an element on the stack of open elements -/
structure El where
  id : Nat
  ns : Ns
  name : Name
  attrs : Attrs
  deriving DecidableEq, Repr, Inhabited

/-- tokenizer feedback of one token (§13.2.6.2 "generic raw text / RCDATA element parsing algorithm",
§13.2.6.4.4 `script`, §13.2.6.4.7 `plaintext`, `textarea`) -/
inductive Switch | none | rcdata | rawtext | scriptData | plaintext
  deriving DecidableEq, Repr, Inhabited

/-- Known differences of html5ever 0.39 from the standard's text, each switchable so that lane `tb`
can compare like with like. The standard is `Dev.std` (all `false`); theorems are about `Dev.std`. -/
structure Dev where
  /-- html5ever's "special" set has only HTML elements (and `isindex`, not `keygen`/`search`); the
  standard's also has MathML mi mo mn ms mtext annotation-xml and SVG foreignObject desc title -/
  specialHtmlOnly : Bool := false
  /-- html5ever's "has an element in scope" list lacks MathML `annotation-xml` -/
  scopeNoAnnotationXml : Bool := false
  /-- §13.2.6.5 breakout: html5ever pops until HTML / MathML text integration point / SVG
  foreignObject|desc|title; the standard also stops at `annotation-xml` with an HTML `encoding` -/
  breakoutNoAnnotationXml : Bool := false
  /-- §13.2.6.4.9 character token: html5ever's current-node list lacks `template` -/
  tableTextNoTemplate : Bool := false
  /-- html5ever drops DOCTYPE tokens before the insertion-mode dispatch, so "in table text" does not
  flush its pending characters on a DOCTYPE -/
  doctypeEarly : Bool := false
  /-- §13.2.6.4.13 "in table body", `caption col colgroup tbody tfoot thead` start tags and `</table>`:
  html5ever tests for `table | tbody | tfoot` in table scope, the standard for `tbody | thead | tfoot`
  (differs when a `thead` is open directly inside a `template`) -/
  tableBodyScopeH5 : Bool := false
  deriving DecidableEq, Repr, Inhabited

def Dev.std : Dev := {}
def Dev.h5 : Dev := ⟨true, true, true, true, true, true⟩

/-- configuration -/
structure Cfg where
  /-- scripting flag (§13.2.4.5); lol-html assumes `true` (`noscript` is a raw text element) -/
  scripting : Bool := true
  /-- the pre-2025 `select` parsing ("in select", "in select in table") -/
  legacySelect : Bool := false
  dev : Dev := {}
  deriving DecidableEq, Repr, Inhabited

/-- entry of the list of active formatting elements (§13.2.4.3): a marker, or an element -/
inductive AfeEntry
  | marker
  | el (e : El)
  deriving DecidableEq, Repr, Inhabited

/-- the part of the parser state that the stack / list algorithms work on -/
structure Tree where
  /-- stack of open elements, current node first -/
  stack : List El := []
  /-- list of active formatting elements, most recently added first -/
  afe : List AfeEntry := []
  /-- next fresh element identity -/
  nextId : Nat := 0
  deriving DecidableEq, Repr, Inhabited

/-- parser state (§13.2.4) -/
structure State where
  mode : Mode := .initial
  origMode : Mode := .initial
  /-- stack of template insertion modes, current one first -/
  tmodes : List Mode := []
  headPtr : Option El := none
  formPtr : Option El := none
  framesetOk : Bool := true
  /-- the Document is in quirks mode -/
  quirks : Bool := false
  /-- pending table character tokens, most recent first -/
  pending : List CharClass := []
  /-- stack of open elements and list of active formatting elements -/
  tree : Tree := {}
  deriving DecidableEq, Repr, Inhabited

def State.init : State := {}

/-- apply a stack / list operation; everything else is untouched -/
@[inline] def State.onTree (s : State) (f : Tree → Tree) : State := { s with tree := f s.tree }

abbrev State.stack (s : State) : List El := s.tree.stack
abbrev State.afe (s : State) : List AfeEntry := s.tree.afe

/-! ## Element classes -/

def El.isHtml (e : El) (n : Name) : Bool := e.ns == .html && e.name == n

def El.isHtmlIn (e : El) (l : List Name) : Bool := e.ns == .html && e.name.isIn l

/-- §13.2.6.1 "MathML text integration point" -/
def El.isMathmlTextIP (e : El) : Bool := e.ns == .mathml && e.name.isIn [.mi, .mo, .mn, .ms, .mtext]

/-- the SVG part of §13.2.6.1 "HTML integration point": `foreignObject`, `desc`, `title` -/
def El.isSvgHtmlIP (e : El) : Bool := e.ns == .svg && e.name.isIn [.foreignobject, .desc, .title]

/-- §13.2.6.1 "HTML integration point": MathML `annotation-xml` whose start tag had an `encoding`
attribute that is ASCII-case-insensitively "text/html" or "application/xhtml+xml", or SVG
`foreignObject` / `desc` / `title` -/
def El.isHtmlIP (e : El) : Bool :=
  (e.ns == .mathml && e.name == .annotationXml && (e.attrs.enc == .textHtml || e.attrs.enc == .appXhtml)) ||
  e.isSvgHtmlIP

def specialHtmlNames : List Name :=
  [.address, .applet, .area, .article, .aside, .base, .basefont, .bgsound, .blockquote, .body, .br,
   .button, .caption, .center, .col, .colgroup, .dd, .details, .dir, .div, .dl, .dt, .embed, .fieldset,
   .figcaption, .figure, .footer, .form, .frame, .frameset, .h1, .h2, .h3, .h4, .h5, .h6, .head, .header,
   .hgroup, .hr, .html, .iframe, .img, .input, .keygen, .li, .link, .listing, .main, .marquee, .menu,
   .«meta», .nav, .noembed, .noframes, .noscript, .object, .ol, .p, .param, .plaintext, .pre, .script,
   .search, .«section», .select, .source, .style, .summary, .table, .tbody, .td, .template, .textarea,
   .tfoot, .th, .thead, .title, .tr, .track, .ul, .wbr, .xmp]

/-- §13.2.4.3 the "special" category -/
def El.isSpecial (d : Dev) (e : El) : Bool :=
  if d.specialHtmlOnly then
    e.ns == .html && e.name.isIn specialHtmlNames && e.name != .keygen && e.name != .search
  else
    (e.ns == .html && e.name.isIn specialHtmlNames) ||
    (e.ns == .mathml && e.name.isIn [.mi, .mo, .mn, .ms, .mtext, .annotationXml]) ||
    (e.ns == .svg && e.name.isIn [.foreignobject, .desc, .title])

/-- names of the list of active formatting elements' "formatting" category (§13.2.4.3) -/
def formattingNames : List Name :=
  [.a, .b, .big, .code, .em, .font, .i, .nobr, .s, .small, .strike, .strong, .tt, .u]

/-! ## Stack of open elements (§13.2.4.3) -/

def Tree.current (s : Tree) : Option El := s.stack.head?

def Tree.currentIs (s : Tree) (n : Name) : Bool :=
  match s.stack with
  | e :: _ => e.isHtml n
  | [] => false

def Tree.currentIsIn (s : Tree) (l : List Name) : Bool :=
  match s.stack with
  | e :: _ => e.isHtmlIn l
  | [] => false

/-- create an element with a fresh identity and push it ("insert an HTML element" / "insert a foreign
element", §13.2.6.1, without the DOM part) -/
def Tree.pushNew (s : Tree) (ns : Ns) (n : Name) (a : Attrs) : Tree :=
  { s with stack := ⟨s.nextId, ns, n, a⟩ :: s.stack, nextId := s.nextId + 1 }

/-- "insert an HTML element for the token" -/
def Tree.insertHtml (s : Tree) (n : Name) (a : Attrs := {}) : Tree := s.pushNew .html n a

/-- "pop the current node off the stack of open elements" -/
def Tree.pop (s : Tree) : Tree := { s with stack := s.stack.tail }

/-- "insert an HTML element for the token. Immediately pop the current node off the stack" -/
def Tree.insertAndPop (s : Tree) (n : Name) (a : Attrs := {}) : Tree := (s.insertHtml n a).pop

/-- is this element (this node: identities are fresh, so the record identifies the node) on the stack -/
def Tree.onStack (s : Tree) (x : El) : Bool := s.stack.any (· == x)

def Tree.hasOnStack (s : Tree) (n : Name) : Bool := s.stack.any (·.isHtml n)

/-- remove an element (this node) from the stack -/
def Tree.removeFromStack (s : Tree) (x : El) : Tree :=
  { s with stack := s.stack.filter (· != x) }

/-- "pop all the nodes from the bottom of the stack of open elements, from the current node up to, but
not including, the root html element" (§13.2.6.4.7, `frameset`) -/
def Tree.popToRoot (s : Tree) : Tree := { s with stack := s.stack.drop (s.stack.length - 1) }

/-- push an existing element (§13.2.6.4.6: "push the node pointed to by the head element pointer") -/
def Tree.pushEl (s : Tree) (e : El) : Tree := { s with stack := e :: s.stack }

/-- replace the stack by `st` (a suffix of it: the foreign-content end tag walk of §13.2.6.5) -/
def Tree.setStack (s : Tree) (st : List El) : Tree := { s with stack := st }

/-- pop elements until one satisfying `p` has been popped (everything, if there is none) -/
def popUntil (p : El → Bool) : List El → List El
  | [] => []
  | e :: es => if p e then es else popUntil p es

/-- pop elements while the current node does not satisfy `p` ("clear the stack back to …") -/
def popWhileNot (p : El → Bool) : List El → List El
  | [] => []
  | e :: es => if p e then e :: es else popWhileNot p es

def Tree.popUntilNamed (s : Tree) (n : Name) : Tree :=
  { s with stack := popUntil (·.isHtml n) s.stack }

def Tree.popUntilIn (s : Tree) (l : List Name) : Tree :=
  { s with stack := popUntil (·.isHtmlIn l) s.stack }

/-- §13.2.6.4.9 "clear the stack back to a table context" -/
def Tree.clearToTableContext (s : Tree) : Tree :=
  { s with stack := popWhileNot (·.isHtmlIn [.table, .template, .html]) s.stack }

/-- §13.2.6.4.13 "clear the stack back to a table body context" -/
def Tree.clearToTableBodyContext (s : Tree) : Tree :=
  { s with stack := popWhileNot (·.isHtmlIn [.tbody, .tfoot, .thead, .template, .html]) s.stack }

/-- §13.2.6.4.14 "clear the stack back to a table row context" -/
def Tree.clearToTableRowContext (s : Tree) : Tree :=
  { s with stack := popWhileNot (·.isHtmlIn [.tr, .template, .html]) s.stack }

/-! ## Scopes (§13.2.4.3 "has an element in a specific scope") -/

/-- the algorithm: walk from the current node; succeed at a target, fail at a scope boundary -/
def hasInScopeBy (target boundary : El → Bool) : List El → Bool
  | [] => false
  | e :: es => if target e then true else if boundary e then false else hasInScopeBy target boundary es

/-- "has a particular element in scope" list -/
def El.isDefaultScopeBoundary (c : Cfg) (e : El) : Bool :=
  e.isHtmlIn [.applet, .caption, .html, .table, .td, .th, .marquee, .object, .template] ||
  (!c.legacySelect && e.isHtml .select) ||
  (e.ns == .mathml && e.name.isIn [.mi, .mo, .mn, .ms, .mtext]) ||
  (!c.dev.scopeNoAnnotationXml && e.ns == .mathml && e.name == .annotationXml) ||
  (e.ns == .svg && e.name.isIn [.foreignobject, .desc, .title])

def El.isListItemScopeBoundary (c : Cfg) (e : El) : Bool := e.isDefaultScopeBoundary c || e.isHtmlIn [.ol, .ul]
def El.isButtonScopeBoundary (c : Cfg) (e : El) : Bool := e.isDefaultScopeBoundary c || e.isHtml .button
def El.isTableScopeBoundary (e : El) : Bool := e.isHtmlIn [.html, .table, .template]
/-- "has an element in select scope": everything except `optgroup` and `option` is a boundary -/
def El.isSelectScopeBoundary (e : El) : Bool := !e.isHtmlIn [.optgroup, .option]

def Tree.inScope (c : Cfg) (s : Tree) (n : Name) : Bool :=
  hasInScopeBy (·.isHtml n) (·.isDefaultScopeBoundary c) s.stack
def Tree.inScopeIn (c : Cfg) (s : Tree) (l : List Name) : Bool :=
  hasInScopeBy (·.isHtmlIn l) (·.isDefaultScopeBoundary c) s.stack
def Tree.inScopeId (c : Cfg) (s : Tree) (x : El) : Bool :=
  hasInScopeBy (· == x) (·.isDefaultScopeBoundary c) s.stack
def Tree.inListItemScope (c : Cfg) (s : Tree) (n : Name) : Bool :=
  hasInScopeBy (·.isHtml n) (·.isListItemScopeBoundary c) s.stack
def Tree.inButtonScope (c : Cfg) (s : Tree) (n : Name) : Bool :=
  hasInScopeBy (·.isHtml n) (·.isButtonScopeBoundary c) s.stack
def Tree.inTableScope (s : Tree) (n : Name) : Bool :=
  hasInScopeBy (·.isHtml n) (·.isTableScopeBoundary) s.stack
def Tree.inTableScopeIn (s : Tree) (l : List Name) : Bool :=
  hasInScopeBy (·.isHtmlIn l) (·.isTableScopeBoundary) s.stack
def Tree.inSelectScope (s : Tree) (n : Name) : Bool :=
  hasInScopeBy (·.isHtml n) (·.isSelectScopeBoundary) s.stack

/-! ## Implied end tags (§13.2.6.3) -/

def impliedNames : List Name := [.dd, .dt, .li, .optgroup, .option, .p, .rb, .rp, .rt, .rtc]
def impliedThoroughNames : List Name :=
  impliedNames ++ [.caption, .colgroup, .tbody, .td, .tfoot, .th, .thead, .tr]

/-- pop while the current node is an HTML element whose name is in `l` and is not `except` -/
def popImplied (l : List Name) (except : Option Name) : List El → List El
  | [] => []
  | e :: es =>
    if e.isHtmlIn l && !(except == some e.name) then popImplied l except es else e :: es

/-- "generate implied end tags", optionally "except for `n` elements" -/
def Tree.genImplied (s : Tree) (except : Option Name := none) : Tree :=
  { s with stack := popImplied impliedNames except s.stack }

/-- "generate all implied end tags thoroughly" -/
def Tree.genImpliedThoroughly (s : Tree) : Tree :=
  { s with stack := popImplied impliedThoroughNames none s.stack }

/-- §13.2.6.4.7 "close a p element" -/
def Tree.closeP (s : Tree) : Tree := (s.genImplied (some .p)).popUntilNamed .p

/-- "if the stack of open elements has a p element in button scope, then close a p element" -/
def Tree.closePInButtonScope (c : Cfg) (s : Tree) : Tree :=
  if s.inButtonScope c .p then s.closeP else s

/-! ## Reset the insertion mode appropriately (§13.2.4.1) -/

/-- step 4 (legacy text only): the `select` case; `below` = the stack entries below the select,
nearest first -/
def resetSelect : List El → Mode
  | [] => .inSelect
  | a :: below =>
    if a.isHtml .template then .inSelect
    else if a.isHtml .table then .inSelectInTable
    else resetSelect below

/-- the loop of §13.2.4.1 over the stack, current node first. `last` holds for the bottom entry.
(No fragment case: no context element.) -/
def resetLoop (c : Cfg) (tmodes : List Mode) (headNull : Bool) : List El → Mode
  | [] => .inBody
  | e :: below =>
    let last := below.isEmpty
    if c.legacySelect && e.isHtml .select then
      (if last then .inSelect else resetSelect below)
    else if e.isHtmlIn [.td, .th] && !last then .inCell
    else if e.isHtml .tr then .inRow
    else if e.isHtmlIn [.tbody, .thead, .tfoot] then .inTableBody
    else if e.isHtml .caption then .inCaption
    else if e.isHtml .colgroup then .inColumnGroup
    else if e.isHtml .table then .inTable
    else if e.isHtml .template then tmodes.headD .inBody
    else if e.isHtml .head && !last then .inHead
    else if e.isHtml .body then .inBody
    else if e.isHtml .frameset then .inFrameset
    else if e.isHtml .html then (if headNull then .beforeHead else .afterHead)
    else if last then .inBody
    else resetLoop c tmodes headNull below

/-- "reset the insertion mode appropriately" -/
def State.resetMode (c : Cfg) (s : State) : State :=
  { s with mode := resetLoop c s.tmodes s.headPtr.isNone s.tree.stack }

end LolHtml.Spec.TreeBuilder
