import LolHtml.Spec.TreeBuilder.Basic
/-!
# §13.2.4.3 list of active formatting elements, §13.2.6.4.7 adoption agency algorithm, "any other end tag"

Only the effect on the stack of open elements and on the list itself is kept (no DOM moves).
The list is kept most-recent-first: "after X in the list" (later) = just before X here.
-/
namespace LolHtml.Spec.TreeBuilder
open LolHtml.Model (Ns)

def AfeEntry.isMarker : AfeEntry → Bool
  | .marker => true
  | .el _ => false

/-- the entry for element `x` (this node) -/
def AfeEntry.hasId (x : El) : AfeEntry → Bool
  | .marker => false
  | .el e => e == x

/-- "insert a marker at the end of the list of active formatting elements" -/
def Tree.pushMarker (s : Tree) : Tree := { s with afe := .marker :: s.afe }

/-- "clear the list of active formatting elements up to the last marker" -/
def clearToMarker : List AfeEntry → List AfeEntry
  | [] => []
  | .marker :: es => es
  | .el _ :: es => clearToMarker es

def Tree.clearAfeToMarker (s : Tree) : Tree := { s with afe := clearToMarker s.afe }

def Tree.inAfe (s : Tree) (x : El) : Bool := s.afe.any (AfeEntry.hasId x)

def Tree.removeFromAfe (s : Tree) (x : El) : Tree :=
  { s with afe := s.afe.filter (fun e => !AfeEntry.hasId x e) }

/-- the entries after the last marker (most recent first) -/
def afterLastMarker : List AfeEntry → List El
  | [] => []
  | .marker :: _ => []
  | .el e :: es => e :: afterLastMarker es

/-- Noah's Ark clause: among the entries after the last marker, those with the same tag name,
namespace and attributes as `e`; if there are at least three, the earliest is removed. -/
def noahRemove (e : El) (afe : List AfeEntry) : List AfeEntry :=
  let same := (afterLastMarker afe).filter (fun x => x.name == e.name && x.ns == e.ns && x.attrs == e.attrs)
  if same.length ≥ 3 then
    match same.getLast? with
    | some old => afe.filter (fun x => !AfeEntry.hasId old x)
    | none => afe
  else afe

/-- "push onto the list of active formatting elements" the current node -/
def Tree.pushFormatting (s : Tree) : Tree :=
  match s.stack with
  | e :: _ => { s with afe := .el e :: noahRemove e s.afe }
  | [] => s

/-- "insert an HTML element for the token. Push onto the list of active formatting elements that element." -/
def Tree.insertFormatting (s : Tree) (n : Name) (a : Attrs) : Tree := (s.insertHtml n a).pushFormatting

/-- entry that needs no reconstruction: a marker or an element that is on the stack -/
def Tree.markerOrOpen (s : Tree) : AfeEntry → Bool
  | .marker => true
  | .el e => s.onStack e

/-- steps 8–10 ("create") for the entries to re-open, earliest first; returns the new entries
(most recent first) -/
def reconstructCreate (s : Tree) : List AfeEntry → Tree × List AfeEntry
  | [] => (s, [])
  | .marker :: es => reconstructCreate s es   -- not reachable: the span holds no marker
  | .el e :: es =>
    let s1 := s.insertHtml e.name e.attrs
    let ne : El := ⟨s.nextId, .html, e.name, e.attrs⟩
    let r := reconstructCreate s1 es
    (r.1, r.2 ++ [.el ne])

/-- §13.2.4.3 "reconstruct the active formatting elements" -/
def Tree.reconstructAfe (s : Tree) : Tree :=
  -- steps 1–7: the entries to re-open are the maximal run of most recent entries that are
  -- neither markers nor open
  let todo := s.afe.takeWhile (fun e => !s.markerOrOpen e)
  let rest := s.afe.dropWhile (fun e => !s.markerOrOpen e)
  let r := reconstructCreate s todo.reverse
  { r.1 with afe := r.2 ++ rest }

/-- the formatting element of adoption agency step 4.3: the last element in the list, after the last
marker, with tag name `subject` -/
def findFormatting (subject : Name) : List AfeEntry → Option El
  | [] => none
  | .marker :: _ => none
  | .el e :: es => if e.isHtml subject then some e else findFormatting subject es

/-- "any other end tag" of "in body" (§13.2.6.4.7): index (from the current node) of the first HTML
element named `n`, unless a special element comes first -/
def findEndTarget (d : Dev) (n : Name) : List El → Option Nat
  | [] => none
  | e :: es =>
    if e.isHtml n then some 0
    else if e.isSpecial d then none
    else (findEndTarget d n es).map (· + 1)

/-- "any other end tag": generate implied end tags except for `n` elements, then pop up to and
including the matching node (the implied pops are a prefix of that range, so the result is the
stack below the node); a special element first: ignore -/
def Tree.anyOtherEndTag (c : Cfg) (s : Tree) (n : Name) : Tree :=
  match findEndTarget c.dev n s.stack with
  | some i => { s with stack := s.stack.drop (i + 1) }
  | none => s

/-- split the stack (current node first) at the element with identity `id`:
`(above, below)` with the element itself dropped -/
def splitAtId (x : El) : List El → Option (List El × List El)
  | [] => none
  | e :: es =>
    if e == x then some ([], es)
    else (splitAtId x es).map (fun r => (e :: r.1, r.2))

/-- the furthest block: among the elements above the formatting element (`above`, current node first)
the special one nearest to the formatting element; returns (elements above it, it, elements between it
and the formatting element, nearest to the furthest block first) -/
def splitFurthest (d : Dev) (above : List El) : Option (List El × El × List El) :=
  -- scan from the formatting element upwards = `above` reversed
  let rec go : List El → List El → Option (List El × El × List El)
    | [], _ => none
    | e :: es, acc => if e.isSpecial d then some (es.reverse, e, acc) else go es (e :: acc)
  go above.reverse []

/-- result of the inner loop (step 4.13) -/
structure InnerRes where
  st : Tree
  /-- what remains between furthest block and formatting element, nearest the furthest block first -/
  between : List El
  /-- identity of the element the bookmark follows, if it was moved (step 4.13.8) -/
  bookmark : Option El

/-- inner loop, over the nodes between furthest block and formatting element, nearest the furthest
block first; `k` = inner loop counter after the increment of step 4.13.1; `lastIsFb` = "last node is
the furthest block" -/
def aaaInner (s : Tree) : Nat → Bool → List El → InnerRes
  | _, _, [] => ⟨s, [], none⟩
  | k, lastIsFb, node :: rest =>
    if k > 3 || !s.inAfe node then
      -- 4.13.4 / 4.13.5: remove node from the list (if there) and from the stack
      aaaInner (s.removeFromAfe node) (k + 1) lastIsFb rest
    else
      -- 4.13.6: create an element for the token for which node was created; replace node by it, in
      -- the list and in the stack
      let ne : El := ⟨s.nextId, .html, node.name, node.attrs⟩
      let s1 : Tree :=
        { s with nextId := s.nextId + 1,
                 afe := s.afe.map (fun y => if AfeEntry.hasId node y then .el ne else y) }
      let r := aaaInner s1 (k + 1) false rest
      ⟨r.st, ne :: r.between, if lastIsFb then some ne else r.bookmark⟩

/-- insert `x` immediately after (later than) the entry with identity `id`; the list is most recent
first, so that is just before it -/
def insertAfterId (x : AfeEntry) (b : El) : List AfeEntry → List AfeEntry
  | [] => [x]
  | e :: es => if AfeEntry.hasId b e then x :: e :: es else e :: insertAfterId x b es

/-- one iteration of the outer loop; `none` = "return" -/
def aaaIter (c : Cfg) (s : Tree) (subject : Name) : Tree × Bool :=
  match findFormatting subject s.afe with
  | none => (s.anyOtherEndTag c subject, false)                     -- 4.3
  | some fe =>
    if !s.onStack fe then (s.removeFromAfe fe, false)         -- 4.4
    else if !s.inScopeId c fe then (s, false)                    -- 4.5
    else
      match splitAtId fe s.stack with
      | none => (s, false)
      | some (above, below) =>
        match splitFurthest c.dev above with
        | none =>                                                    -- 4.8
          (({ s with stack := below }).removeFromAfe fe, false)
        | some (top, fb, between) =>
          let r := aaaInner s 1 true between                          -- 4.13
          -- 4.15 create an element for the formatting element's token
          let nf : El := ⟨r.st.nextId, .html, fe.name, fe.attrs⟩
          let s2 : Tree := { r.st with nextId := r.st.nextId + 1 }
          -- 4.18 remove the formatting element from the list, insert the new one at the bookmark
          let afe' :=
            match r.bookmark with
            | none => s2.afe.map (fun x => if AfeEntry.hasId fe x then .el nf else x)
            | some b => (insertAfterId (.el nf) b s2.afe).filter (fun x => !AfeEntry.hasId fe x)
          -- 4.19 remove it from the stack, insert the new element immediately below the furthest block
          ({ s2 with afe := afe', stack := top ++ nf :: fb :: (r.between ++ below) }, true)

/-- outer loop, at most `n` iterations -/
def aaaLoop (c : Cfg) (subject : Name) : Nat → Tree → Tree
  | 0, s => s
  | n + 1, s =>
    let r := aaaIter c s subject
    if r.2 then aaaLoop c subject n r.1 else r.1

/-- §13.2.6.4.7 "adoption agency algorithm" for a token named `subject` -/
def Tree.adoptionAgency (c : Cfg) (s : Tree) (subject : Name) : Tree :=
  match s.stack with
  | cur :: _ =>
    -- step 2
    if cur.isHtml subject && !s.inAfe cur then s.pop
    else aaaLoop c subject 8 s
  | [] => aaaLoop c subject 8 s

/-! ## The same operations on the parser state

Every stack / list operation acts on `State.tree` only (`State.onTree`), so the insertion mode, the
flags and the pointers are untouched *by construction*. -/

abbrev State.current (s : State) : Option El := s.tree.current
abbrev State.currentIs (s : State) (n : Name) : Bool := s.tree.currentIs n
abbrev State.currentIsIn (s : State) (l : List Name) : Bool := s.tree.currentIsIn l
abbrev State.onStack (s : State) (x : El) : Bool := s.tree.onStack x
abbrev State.hasOnStack (s : State) (n : Name) : Bool := s.tree.hasOnStack n
abbrev State.inAfe (s : State) (x : El) : Bool := s.tree.inAfe x
abbrev State.inScope (c : Cfg) (s : State) (n : Name) : Bool := s.tree.inScope c n
abbrev State.inScopeIn (c : Cfg) (s : State) (l : List Name) : Bool := s.tree.inScopeIn c l
abbrev State.inScopeId (c : Cfg) (s : State) (x : El) : Bool := s.tree.inScopeId c x
abbrev State.inListItemScope (c : Cfg) (s : State) (n : Name) : Bool := s.tree.inListItemScope c n
abbrev State.inButtonScope (c : Cfg) (s : State) (n : Name) : Bool := s.tree.inButtonScope c n
abbrev State.inTableScope (s : State) (n : Name) : Bool := s.tree.inTableScope n
abbrev State.inTableScopeIn (s : State) (l : List Name) : Bool := s.tree.inTableScopeIn l
abbrev State.inSelectScope (s : State) (n : Name) : Bool := s.tree.inSelectScope n

abbrev State.pushNew (s : State) (ns : Ns) (n : Name) (a : Attrs) : State := s.onTree (·.pushNew ns n a)
abbrev State.insertHtml (s : State) (n : Name) (a : Attrs := {}) : State := s.onTree (·.insertHtml n a)
abbrev State.pop (s : State) : State := s.onTree (·.pop)
abbrev State.insertAndPop (s : State) (n : Name) (a : Attrs := {}) : State := s.onTree (·.insertAndPop n a)
abbrev State.removeFromStack (s : State) (x : El) : State := s.onTree (·.removeFromStack x)
abbrev State.popUntilNamed (s : State) (n : Name) : State := s.onTree (·.popUntilNamed n)
abbrev State.popUntilIn (s : State) (l : List Name) : State := s.onTree (·.popUntilIn l)
abbrev State.clearToTableContext (s : State) : State := s.onTree (·.clearToTableContext)
abbrev State.clearToTableBodyContext (s : State) : State := s.onTree (·.clearToTableBodyContext)
abbrev State.clearToTableRowContext (s : State) : State := s.onTree (·.clearToTableRowContext)
abbrev State.genImplied (s : State) (except : Option Name := none) : State := s.onTree (·.genImplied except)
abbrev State.genImpliedThoroughly (s : State) : State := s.onTree (·.genImpliedThoroughly)
abbrev State.closeP (s : State) : State := s.onTree (·.closeP)
abbrev State.closePInButtonScope (c : Cfg) (s : State) : State := s.onTree (·.closePInButtonScope c)
abbrev State.pushMarker (s : State) : State := s.onTree (·.pushMarker)
abbrev State.clearAfeToMarker (s : State) : State := s.onTree (·.clearAfeToMarker)
abbrev State.removeFromAfe (s : State) (x : El) : State := s.onTree (·.removeFromAfe x)
abbrev State.insertFormatting (s : State) (n : Name) (a : Attrs) : State := s.onTree (·.insertFormatting n a)
abbrev State.reconstructAfe (s : State) : State := s.onTree (·.reconstructAfe)
abbrev State.anyOtherEndTag (c : Cfg) (s : State) (n : Name) : State := s.onTree (·.anyOtherEndTag c n)
abbrev State.adoptionAgency (c : Cfg) (s : State) (subject : Name) : State := s.onTree (·.adoptionAgency c subject)

end LolHtml.Spec.TreeBuilder
