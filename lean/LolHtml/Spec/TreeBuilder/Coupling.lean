import LolHtml.Spec.TreeBuilder
/-!
# The tokenizer side of the feedback loop (§13.2.5, only what the tree builder's switches do)

After a switch to RCDATA / RAWTEXT / script data the tokenizer emits character tokens only, until the
"appropriate end tag" (the end tag with the name of the last start tag) or end-of-file; after a switch to
PLAINTEXT it emits character tokens until end-of-file. Over token *sequences* that means: the tokens
between a switching start tag and its end tag are not tag / comment / doctype tokens at all. `passes`
says which tokens of a sequence can occur in a tokenizer state, `nextTk` how a token and the switch
answered to it change the state. (Character tokens inside such an element have no effect on the kept
tree-builder state; sequences are taken not to list them.)
-/
namespace LolHtml.Spec.TreeBuilder

/-- what the tokenizer is doing because of the tree builder's feedback -/
inductive TkState
  | data
  /-- RCDATA / RAWTEXT / script data: only the end tag named `n` (or end-of-file) gets through -/
  | until (n : Name)
  | plaintext
  deriving DecidableEq, Repr, Inhabited

def passes (tk : TkState) (t : Token) : Bool :=
  match tk, t with
  | .data, _ => true
  | _, .eof => true
  | .until n, .end m => n == m
  | _, _ => false

def nextTk (tk : TkState) (t : Token) (sw : Switch) : TkState :=
  let tk := match tk, t with
    | .until _, .end _ => TkState.data
    | _, .eof => TkState.data
    | tk, _ => tk
  match sw, t with
  | .plaintext, _ => .plaintext
  | .none, _ => tk
  | _, .start n _ _ => .until n
  | _, _ => tk

end LolHtml.Spec.TreeBuilder
