/-
Specification of the CSS `An+B` micro-syntax (Selectors L4 §":nth-child()"): the index `i` is
selected iff `i = a·n + b` for some non-negative integer `n` — over the mathematical integers.
-/
namespace LolHtml.Spec.Nth

/-- `i` is of the form `a·n + b` with `n ∈ ℕ` (mathematical integers, no wrap-around). -/
def Matches (a b i : Int) : Prop := ∃ n : Nat, a * (n : Int) + b = i

end LolHtml.Spec.Nth
