/-
Specification of the documented edit semantics (property C07), written from the API documentation in
the Rust doc comments, independently of the mutation bookkeeping of the model:

* token level (`edit`): for a token whose own bytes are `own` and a script of content operations,
    output = before₁ … beforeₙ ++ (own | last replacement | ε) ++ afterₘ … after₁
  ("before: consequent calls append", "after: consequent calls prepend", "replace: consequent calls
  overwrite previous replacement content", "remove: removes the token");
* element level (`ElemEdit`): an element is (start tag, inner content, end tag); every `Element`
  method is an edit of the seven regions
    before · start tag · prepended · inner content · appended · end tag · after.
-/
import LolHtml.Model.ElementOps

namespace LolHtml.Spec.Edit
open LolHtml LolHtml.EditModel

/-! ### Token level -/

/-- `before` contents in call order (FIFO). -/
def befores (ops : List MutOp) : List StringChunk :=
  ops.filterMap fun | .before c => some c | _ => none

/-- `after` contents, the latest call first (LIFO). -/
def afters (ops : List MutOp) : List StringChunk :=
  (ops.filterMap fun | .after c => some c | _ => none).reverse

/-- The content of the last `replace` call, if any. -/
def lastReplacement (ops : List MutOp) : Option StringChunk :=
  (ops.filterMap fun | .replace c => some c | _ => none).getLast?

/-- The token itself is dropped as soon as it was replaced or removed once. -/
def dropped (ops : List MutOp) : Bool :=
  ops.any fun | .replace _ => true | .remove => true | _ => false

/-- The documented edit of one token. -/
def edit (enc : Enc) (own : Bytes) (ops : List MutOp) : Bytes :=
  encodeDyn enc (befores ops)
    ++ (if dropped ops then
          (match lastReplacement ops with
           | some c => c.encode enc
           | none => [])
        else own)
    ++ encodeDyn enc (afters ops)

/-- The content operations of a script, per token kind. -/
def startMutOps (ops : List StartTagOp) : List MutOp := ops.filterMap fun | .mut o => some o | _ => none
def endMutOps (ops : List EndTagOp) : List MutOp := ops.filterMap fun | .mut o => some o | _ => none
def commentMutOps (ops : List CommentOp) : List MutOp := ops.filterMap fun | .mut o => some o | _ => none
def textMutOps (ops : List TextOp) : List MutOp := ops.filterMap fun | .mut o => some o | _ => none

/-- Content operations in a script for a token of the given kind (`Doctype::remove` counts as
`remove`; operations for another kind of token cannot be expressed and are ignored). -/
def contentOps : Token → List TokenOp → List MutOp
  | .textChunk _, ops => ops.filterMap fun | .textChunk (.mut o) => some o | _ => none
  | .startTag _, ops => ops.filterMap fun | .startTag (.mut o) => some o | _ => none
  | .endTag _, ops => ops.filterMap fun | .endTag (.mut o) => some o | _ => none
  | .comment _, ops => ops.filterMap fun | .comment (.mut o) => some o | _ => none
  | .doctype _, ops => ops.filterMap fun | .doctype .remove => some MutOp.remove | _ => none

/-- Last element of a list of candidate values, or the default. -/
def lastOr {α : Type} (d : α) (l : List α) : α := (l.getLast?).getD d

/-- Own bytes of an end tag: the source bytes unless renamed; then `</` last name `>`. -/
def endTagOwn (raw : Bytes) (ops : List EndTagOp) : Bytes :=
  match (ops.filterMap fun | .setName n => some n | _ => none).getLast? with
  | some n => [60, 47] ++ n ++ [62]
  | none => raw

/-- Own bytes of a comment: the source bytes unless the text was set (to an accepted text); then
`<!--` last accepted text `-->`. -/
def commentOwn (raw : Bytes) (ops : List CommentOp) : Bytes :=
  match (ops.filterMap fun
      | .setText t => if containsCommentClosingSequence t then none else some t
      | _ => none).getLast? with
  | some t => [60, 33, 45, 45] ++ t ++ [45, 45, 62]
  | none => raw

/-- Own bytes of a text chunk: the (last set) text as HTML; nothing for an empty text. -/
def textOwn (enc : Enc) (text : Bytes) (ops : List TextOp) : Bytes :=
  let t := lastOr text (ops.filterMap fun | .setStr t => some t | _ => none)
  if t.isEmpty then [] else enc .html t

/-- The operations of a script that apply to a token of the given kind. -/
def opsText (ops : List TokenOp) : List TextOp := ops.filterMap fun | .textChunk o => some o | _ => none
def opsStart (ops : List TokenOp) : List StartTagOp := ops.filterMap fun | .startTag o => some o | _ => none
def opsEnd (ops : List TokenOp) : List EndTagOp := ops.filterMap fun | .endTag o => some o | _ => none
def opsComment (ops : List TokenOp) : List CommentOp := ops.filterMap fun | .comment o => some o | _ => none
def opsDoctype (ops : List TokenOp) : List DoctypeOp := ops.filterMap fun | .doctype o => some o | _ => none

/-- Own bytes of any token after a script (start tag: see `C07_startTag_own_*`, `C07_attrs_*`). -/
def ownBytes (enc : Enc) : Token → List TokenOp → Bytes
  | .textChunk t, ops => textOwn enc t.text (opsText ops)
  | .startTag t, ops => (t.applyOps (opsStart ops)).serializeSelf
  | .endTag t, ops => endTagOwn t.raw (opsEnd ops)
  | .comment t, ops => commentOwn t.raw (opsComment ops)
  | .doctype t, _ => t.raw

/-- Content operations of a script on any token. -/
def contentOpsOf : Token → List TokenOp → List MutOp
  | .textChunk _, ops => textMutOps (opsText ops)
  | .startTag _, ops => startMutOps (opsStart ops)
  | .endTag _, ops => endMutOps (opsEnd ops)
  | .comment _, ops => commentMutOps (opsComment ops)
  | .doctype _, ops => (opsDoctype ops).map fun _ => MutOp.remove

/-- A token as the parser hands it to the handlers. -/
def Token.fresh : Token → Prop
  | .textChunk t => t.mutations = {}
  | .startTag t => t.mutations = {}
  | .endTag t => t.mutations = {} ∧ t.modified = false
  | .comment t => t.mutations = {} ∧ t.modified = false
  | .doctype t => t.removed = false

/-! ### Attributes: what the documentation promises -/

/-- Attribute operations of a start-tag script. -/
inductive AttrOp
  | set (name value : Bytes)
  | remove (name : Bytes)
deriving DecidableEq, Repr

/-- The (lower-case) name an operation is about: `set_attribute` only accepts names that can be serialised
(`name_from_string`); `remove_attribute` is a lookup and accepts every name (`lookup_name`). -/
def AttrOp.key : AttrOp → Option Bytes
  | .set n _ => attrNameFromString (asciiLowerBytes n)
  | .remove n => some (asciiLowerBytes n)

/-- An attribute is *touched* by a script if some operation with an acceptable name names it
(ASCII case-insensitively). -/
def touched (ops : List AttrOp) (a : Attribute) : Bool :=
  ops.any fun op => op.key == some (asciiLowerBytes a.name)

/-! ### Element level -/

/-- The edit of an element, region by region (all lists in output order). -/
structure ElemEdit where
  before : List StringChunk := []
  startDropped : Bool := false
  startRepl : List StringChunk := []        -- the replacement content (the last `replace`)
  prepend : List StringChunk := []
  innerRemoved : Bool := false
  append : List StringChunk := []
  endDropped : Bool := false
  after : List StringChunk := []
  endName : Option Bytes := none
  endHandlers : List (List EndTagOp) := []
deriving DecidableEq, Repr

/-- "Removes the inner content": everything between the tags goes, including what was inserted there. -/
def ElemEdit.clearInner (e : ElemEdit) : ElemEdit :=
  { e with prepend := [], append := [], innerRemoved := true }

/-- The documented effect of every `Element` method on the regions; `chc` = `can_have_content()`.
Methods that need content are no-ops on elements that cannot have any; for those, "after the
element" is right after the start tag. Operations on `el.start_tag()` concern the start tag only;
content "after the start tag" is the front of the inner content. -/
def ElemEdit.apply (chc : Bool) (e : ElemEdit) : ElementOp → ElemEdit
  | .before c => { e with before := e.before ++ [c] }
  | .after c => { e with after := c :: e.after }
  | .prepend c => if chc then { e with prepend := c :: e.prepend } else e
  | .append c => if chc then { e with append := e.append ++ [c] } else e
  | .setInnerContent c => if chc then { e.clearInner with prepend := [c] } else e
  | .replace c =>
    let e := { e with startDropped := true, startRepl := [c] }
    if chc then { e.clearInner with endDropped := true } else e
  | .remove =>
    let e := { e with startDropped := true }
    if chc then { e.clearInner with endDropped := true } else e
  | .removeAndKeepContent =>
    let e := { e with startDropped := true }
    if chc then { e with endDropped := true } else e
  | .setTagName n =>
    match tagNameBytesFromStr n with
    | some n => if chc then { e with endName := some n } else e
    | none => e
  | .setAttribute _ _ => e
  | .removeAttribute _ => e
  | .startTag (.mut (.before c)) => { e with before := e.before ++ [c] }
  | .startTag (.mut (.after c)) =>
    if chc then { e with prepend := c :: e.prepend } else { e with after := c :: e.after }
  | .startTag (.mut (.replace c)) => { e with startDropped := true, startRepl := [c] }
  | .startTag (.mut .remove) => { e with startDropped := true }
  | .startTag _ => e
  | .onEndTag ops => if chc then { e with endHandlers := e.endHandlers ++ [ops] } else e

def ElemEdit.applyOps (chc : Bool) (e : ElemEdit) (ops : List ElementOp) : ElemEdit :=
  ops.foldl (ElemEdit.apply chc) e

/-- What an element script does to the start tag's own bytes: the start-tag operations it implies
(`set_tag_name` = `set_name` with a checked name; attribute calls; `start_tag()` calls;
content-inserting methods clear the self-closing flag, which is not an API call and is handled by
`selfClosingCleared`). -/
def startTagOwnOps (ops : List ElementOp) : List StartTagOp :=
  ops.filterMap fun
    | .setTagName n => (tagNameBytesFromStr n).map .setName
    | .setAttribute n v => some (.setAttribute n v)
    | .removeAttribute n => some (.removeAttribute n)
    | .startTag (.mut _) => none
    | .startTag op => some op
    | _ => none

/-- `prepend` / `append` / `set_inner_content` on an element with content drop the `/` of `<x/>`. -/
def selfClosingCleared (chc : Bool) (ops : List ElementOp) : Bool :=
  chc && ops.any fun
    | .prepend _ => true
    | .append _ => true
    | .setInnerContent _ => true
    | _ => false

/-- Bytes of the start region: `before` · (start tag | replacement | ε) · `prepend`;
for an element without content, `after` comes right here. -/
def ElemEdit.startRegion (enc : Enc) (chc : Bool) (e : ElemEdit) (startOwn : Bytes) : Bytes :=
  encodeDyn enc e.before
    ++ (if e.startDropped then encodeDyn enc e.startRepl else startOwn)
    ++ encodeDyn enc (if chc then e.prepend else e.after)

/-- `set_tag_name` renames the end tag too. -/
def renameOps : Option Bytes → List EndTagOp
  | some n => [.setName n]
  | none => []

/-- `remove` / `replace` / `remove_and_keep_content` remove the end tag. -/
def removeOps (b : Bool) : List EndTagOp := if b then [.mut .remove] else []

/-- The end region expressed as a script of public end-tag calls on the element's end tag:
rename, the appended content before, the `after` content after, removal, then the user's
`on_end_tag` handlers. -/
def ElemEdit.endTagScript (e : ElemEdit) : List EndTagOp :=
  renameOps e.endName
    ++ e.append.map (fun c => EndTagOp.mut (.before c))
    ++ e.after.reverse.map (fun c => EndTagOp.mut (.after c))
    ++ removeOps e.endDropped
    ++ e.endHandlers.flatten

end LolHtml.Spec.Edit
