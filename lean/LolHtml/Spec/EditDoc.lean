/-
Document-level specification of C07: the *documented* edit of a whole token stream, written over
element extents (not over the dispatcher's emission switch and deferred end-tag handlers).

An element is its start tag, everything up to the end tag that closes it — the innermost open
element with that name; the elements above it are closed *implicitly* right before that end tag;
elements still open at the end of the input end there — and that end tag. Every `Element` method
edits one of the regions (`Spec.Edit.ElemEdit`); the content of an element whose inner content is
removed is dropped together with whatever handlers insert inside it. Handlers are invoked as the
model invokes them (so that the invocation numbers select the same scripts); `on_end_tag` handlers
run only for explicitly closed elements (element.rs:661 "end tag handlers are not invoked for
implicitly-closed elements").
-/
import LolHtml.Spec.Edit
import LolHtml.Model.EditDoc

namespace LolHtml.Spec.EditDoc
open LolHtml LolHtml.EditModel LolHtml.Spec.Edit

/-- An open element: its lower-case name, the selector handlers it matched, and — if an element
handler ran on it — its region edits. -/
structure OpenEl where
  lname : Bytes
  matched : List Nat
  edit : Option ElemEdit
deriving Repr

structure SpecSt where
  openEls : List OpenEl := []            -- innermost first
  inv : Nat → Nat := fun _ => 0
  textPending : Bool := false

/-- Output is suppressed while some open element has its inner content removed. -/
def elRemoved (o : OpenEl) : Bool :=
  match o.edit with
  | some e => e.innerRemoved
  | none => false

def suppressed (s : SpecSt) : Bool := s.openEls.any elRemoved

def emit (s : SpecSt) (b : Bytes) : Bytes := if suppressed s then [] else b

/-- A handler is active if it is a document handler, or a text / comment handler whose selector
matched some open element. -/
def isActive (H : List Handler) (s : SpecSt) (i : Nat) : Bool :=
  match H[i]? with
  | some h => h.sel.isNone || (isContentHandler H i && s.openEls.any fun o => o.matched.contains i)
  | none => false

/-- The API calls made by all active handlers of one kind, in registration order. -/
def collectAux {α : Type} (pick : Script → Option (Nat → List α)) (act : Nat → Bool) :
    List Handler → Nat → (Nat → Nat) → (Nat → Nat) × List α
  | [], _, inv => (inv, [])
  | h :: hs, i, inv =>
    match pick h.script with
    | some f =>
      if act i then
        let r := collectAux pick act hs (i + 1) (upd inv i (inv i + 1))
        (r.1, f (inv i) ++ r.2)
      else collectAux pick act hs (i + 1) inv
    | none => collectAux pick act hs (i + 1) inv

def scriptComment : Script → Option (Nat → List CommentOp) | .comment f => some f | _ => none
def scriptText : Script → Option (Nat → List TextOp) | .text f => some f | _ => none
def scriptDoctype : Script → Option (Nat → List DoctypeOp) | .doctype f => some f | _ => none
def scriptElement : Script → Option (Nat → List ElementOp) | .element f => some f | _ => none

def anyOfKind (H : List Handler) (s : SpecSt) (kind : Script → Bool) : Bool :=
  (List.range H.length).any fun i =>
    match H[i]? with
    | some h => kind h.script && isActive H s i
    | none => false


/-- A text chunk through the active text handlers. -/
def textChunk (H : List Handler) (enc : Enc) (s : SpecSt) (text : Bytes) : SpecSt × Bytes :=
  let r := collectAux scriptText (isActive H s) H 0 s.inv
  ({ s with inv := r.1 }, emit s (edit enc (textOwn enc text r.2) (textMutOps r.2)))

def flushText (H : List Handler) (enc : Enc) (s : SpecSt) : SpecSt × Bytes :=
  if s.textPending then textChunk H enc { s with textPending := false } [] else (s, [])

/-- An element that ends without an end tag of its own: what was appended and what was put after it
comes right there. -/
def closeImplicit (enc : Enc) (rest : List OpenEl) (s : SpecSt) (o : OpenEl) : Bytes :=
  match o.edit with
  | some e => emit { s with openEls := rest } (encodeDyn enc e.append ++ encodeDyn enc e.after)
  | none => []

/-- Close `els` (innermost first) implicitly; `below` stays open. -/
def closeAllImplicit (enc : Enc) (s : SpecSt) : List OpenEl → List OpenEl → Bytes
  | [], _ => []
  | o :: os, below => closeImplicit enc (os ++ below) s o ++ closeAllImplicit enc s os below

def step (H : List Handler) (enc : Enc) (s : SpecSt) : SrcToken → SpecSt × Bytes
  | .text raw =>
    if anyOfKind H s Script.isText then textChunk H enc { s with textPending := true } raw
    else (s, emit s raw)
  | .comment _ raw =>
    let f := flushText H enc s
    let s := f.1
    if anyOfKind H s Script.isComment then
      let r := collectAux scriptComment (isActive H s) H 0 s.inv
      ({ s with inv := r.1 }, f.2 ++ emit s (edit enc (commentOwn raw r.2) (commentMutOps r.2)))
    else (s, f.2 ++ emit s raw)
  | .doctype raw =>
    let f := flushText H enc s
    let s := f.1
    if anyOfKind H s Script.isDoctype then
      let r := collectAux scriptDoctype (isActive H s) H 0 s.inv
      ({ s with inv := r.1 }, f.2 ++ emit s (if r.2.isEmpty then raw else []))
    else (s, f.2 ++ emit s raw)
  | .startTag name attrs sc ns raw =>
    let f := flushText H enc s
    let s := f.1
    let lname := asciiLowerBytes name
    let chc := withContent ns lname sc
    let ids := matchedIds H lname
    let elIds := ids.filter (isKind H Script.isElement)
    if elIds.isEmpty then
      let out := emit s raw
      (if chc then { s with openEls := { lname := lname, matched := ids, edit := none } :: s.openEls } else s,
       f.2 ++ out)
    else
      let r := collectAux scriptElement (fun i => elIds.contains i) H 0 s.inv
      let E := ElemEdit.applyOps chc {} r.2
      let st : StartTag := { name := name, attributes := attrs, ns := ns, selfClosing := sc, raw := raw }
      let own := ({ st.applyOps (startTagOwnOps r.2) with
                    selfClosing := sc && !selfClosingCleared chc r.2 } : StartTag).serializeSelf
      let out := emit s (E.startRegion enc chc own)
      let s := { s with inv := r.1 }
      (if chc then { s with openEls := { lname := lname, matched := ids, edit := some E } :: s.openEls } else s,
       f.2 ++ out)
  | .endTag name raw =>
    let f := flushText H enc s
    let s := f.1
    let lname := asciiLowerBytes name
    match s.openEls.findIdx? (fun o => o.lname == lname) with
    | none => (s, f.2 ++ emit s raw)
    | some idx =>
      let implicit := s.openEls.take idx
      let below := s.openEls.drop (idx + 1)
      let o1 := match s.openEls[idx]? with
        | some target => closeAllImplicit enc s implicit (target :: below)
        | none => []
      let s' := { s with openEls := below }
      let o2 := match s.openEls[idx]? with
        | some target =>
          (match target.edit with
           | some e => emit s' (edit enc (endTagOwn raw e.endTagScript) (endMutOps e.endTagScript))
           | none => emit s' raw)
        | none => []
      (s', f.2 ++ o1 ++ o2)

def steps (H : List Handler) (enc : Enc) : SpecSt → List SrcToken → SpecSt × Bytes
  | s, [] => (s, [])
  | s, t :: ts =>
    let r := step H enc s t
    let rs := steps H enc r.1 ts
    (rs.1, r.2 ++ rs.2)

/-- The documented rewrite of a token stream. -/
def rewrite (H : List Handler) (enc : Enc) (toks : List SrcToken) : Bytes :=
  let r := steps H enc {} toks
  let f := flushText H enc r.1
  let closing := closeAllImplicit enc f.1 f.1.openEls []
  let ends := runEndHandlersAux H 0 f.1.inv
  r.2 ++ f.2 ++ closing ++ ends.2.flatMap fun c => enc c.2 c.1

/-! ### Where the documented edit is well defined *and* implementable with deferred end-tag handlers:
no element that carries edits of its end region ends without an end tag of its own. -/

/-- The element has something to do at its end: appended / after content, removal or renaming of the
end tag, or an `on_end_tag` handler that makes a call. -/
def hasEndEdits (enc : Enc) (e : ElemEdit) : Bool :=
  !(encodeDyn enc e.append).isEmpty || !(encodeDyn enc e.after).isEmpty || e.endDropped
    || e.endName.isSome || e.endHandlers.any fun h => !h.isEmpty

def elHasEndEdits (enc : Enc) (o : OpenEl) : Bool :=
  match o.edit with
  | some e => hasEndEdits enc e
  | none => false

/-- This token closes, implicitly, an element with end-region edits. -/
def implicitHere (enc : Enc) (s : SpecSt) : SrcToken → Bool
  | .endTag name _ =>
    match s.openEls.findIdx? (fun o => o.lname == asciiLowerBytes name) with
    | some idx => (s.openEls.take idx).any (elHasEndEdits enc)
    | none => false
  | _ => false

/-- No element with end-region edits is closed implicitly or left open at the end of the input. -/
def cleanRun (H : List Handler) (enc : Enc) : SpecSt → List SrcToken → Bool
  | s, [] => !s.openEls.any (elHasEndEdits enc)
  | s, t :: ts => !implicitHere enc s t && cleanRun H enc (step H enc s t).1 ts

/-- This end tag is stray, or every element it closes *implicitly* (the open elements above the one
it names) is one no element handler ran on. In particular: it closes the innermost open element. -/
def closesUntouched (s : SpecSt) : SrcToken → Bool
  | .endTag name _ =>
    match s.openEls.findIdx? (fun o => o.lname == asciiLowerBytes name) with
    | some idx => (s.openEls.take idx).all fun o => o.edit.isNone
    | none => true
  | _ => true

/-- Tidy run: elements that are closed implicitly by an ancestor's end tag were not touched by element
handlers (text / comment handlers may have run inside them), and no element with end-region edits is
left open at the end of the input. -/
def tidyRun (H : List Handler) (enc : Enc) : SpecSt → List SrcToken → Bool
  | s, [] => !s.openEls.any (elHasEndEdits enc)
  | s, t :: ts => closesUntouched s t && tidyRun H enc (step H enc s t).1 ts

end LolHtml.Spec.EditDoc
