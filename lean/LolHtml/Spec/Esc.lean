/-
Specifications for property C08 (what "cannot change the markup structure" means, byte level).

* `escapeSpec`     : the intended meaning of an escaping loop — every trigger byte is replaced.
* `unescapeWith`   : entity decoding restricted to a given entity table (left to right, first match).
* `CommentEnd`     : the WHATWG comment states (§13.2.5.43–52), from "comment start state" on, as an
                     executable machine returning the comment data and the number of bytes consumed.
* `tagNameSpan`    : WHATWG tag open state + tag name state: where a tag name ends.
* `attrNameSpan`   : WHATWG before attribute name + attribute name states: where an attribute name ends.
* `attrScan`       : one double-quoted attribute `name="value"` through the states before attribute
                     name → attribute name → before attribute value → attribute value (double-quoted)
                     → after attribute value (quoted).
* `dataRun`        : WHATWG data state: a run of character tokens ends at the first `<`.
-/
import LolHtml.Model.Esc

namespace LolHtml.Spec.Esc
open LolHtml LolHtml.Model.Esc

/-- Every trigger byte is replaced by its entity, everything else is copied. -/
def escapeSpec (t : EscTable) (s : Bytes) : Bytes :=
  s.flatMap fun b => if t.triggers.contains b then t.repl b else [b]

/-- The entities of a table, paired with the byte they stand for. -/
def EscTable.entities (t : EscTable) : List (Bytes × UInt8) :=
  t.triggers.map fun b => (t.repl b, b)

/-- Entity decoding for the entities of `ents` only: at each position the first entity of the table
that is a prefix of the remaining input is replaced by its byte; otherwise the byte is copied.
(`skip` = number of bytes of an already decoded entity still to drop; structural recursion.) -/
def unescapeAux (ents : List (Bytes × UInt8)) : Nat → Bytes → Bytes
  | _, [] => []
  | skip + 1, _ :: rest => unescapeAux ents skip rest
  | 0, b :: rest =>
    match ents.find? (fun e => e.1.isPrefixOf (b :: rest)) with
    | some e => e.2 :: unescapeAux ents (e.1.length - 1) rest
    | none => b :: unescapeAux ents 0 rest

def unescapeWith (ents : List (Bytes × UInt8)) (s : Bytes) : Bytes := unescapeAux ents 0 s

/-! ## WHATWG comment states -/

namespace CommentEnd

inductive State
  | commentStart | commentStartDash | comment | lessThanSign | lessThanSignBang
  | lessThanSignBangDash | lessThanSignBangDashDash | commentEndDash | commentEnd | commentEndBang
  deriving Repr, DecidableEq

inductive Action
  | goto (s : State) (append : Bytes)        -- consume the byte, append to the comment data
  | reconsume (s : State) (append : Bytes)   -- do not consume
  | emit                                     -- consume the byte, emit the comment token
  deriving Repr, DecidableEq

open State Action in
/-- One row of the standard per state (`EOF` is handled by `run`: every state emits at EOF).
U+0000 is appended as U+FFFD (EF BF BD) in the comment state. -/
def step : State → UInt8 → Action
  | commentStart, 45 => goto commentStartDash []
  | commentStart, 62 => emit                                  -- abrupt-closing-of-empty-comment
  | commentStart, _ => reconsume comment []
  | commentStartDash, 45 => goto commentEnd []
  | commentStartDash, 62 => emit                              -- abrupt-closing-of-empty-comment
  | commentStartDash, _ => reconsume comment [45]
  | comment, 60 => goto lessThanSign [60]
  | comment, 45 => goto commentEndDash []
  | comment, 0 => goto comment [0xEF, 0xBF, 0xBD]
  | comment, b => goto comment [b]
  | lessThanSign, 33 => goto lessThanSignBang [33]
  | lessThanSign, 60 => goto lessThanSign [60]
  | lessThanSign, _ => reconsume comment []
  | lessThanSignBang, 45 => goto lessThanSignBangDash []
  | lessThanSignBang, _ => reconsume comment []
  | lessThanSignBangDash, 45 => goto lessThanSignBangDashDash []
  | lessThanSignBangDash, _ => reconsume commentEndDash []
  | lessThanSignBangDashDash, _ => reconsume commentEnd []    -- `>`/EOF, or nested-comment error
  | commentEndDash, 45 => goto commentEnd []
  | commentEndDash, _ => reconsume comment [45]
  | commentEnd, 62 => emit
  | commentEnd, 33 => goto commentEndBang []
  | commentEnd, 45 => goto commentEnd [45]
  | commentEnd, _ => reconsume comment [45, 45]
  | commentEndBang, 45 => goto commentEndDash [45, 45, 33]
  | commentEndBang, 62 => emit                                -- incorrectly-closed-comment
  | commentEndBang, _ => reconsume comment [45, 45, 33]

/-- Consume one byte: follow `reconsume` edges (at most three in a row: the fuel 4 always suffices,
`consume_ne_none`) until the byte is consumed. `some (none, d)` = the token was emitted. -/
def consumeFuel : Nat → State → Bytes → UInt8 → Option (Option State × Bytes)
  | 0, _, _, _ => none
  | fuel + 1, st, data, b =>
    match step st b with
    | .goto s app => some (some s, data ++ app)
    | .reconsume s app => consumeFuel fuel s (data ++ app) b
    | .emit => some (none, data)

def consume (st : State) (data : Bytes) (b : UInt8) : Option (Option State × Bytes) :=
  consumeFuel 4 st data b

/-- Run from state `st` with comment data `data` over the input: `some (data, n)` = the comment token
with that data is emitted after consuming exactly `n` bytes (the last one being the closing `>`);
`none` = the input ends inside the comment (the token is then emitted at EOF). -/
def run : State → Bytes → Bytes → Option (Bytes × Nat)
  | _, _, [] => none
  | st, data, b :: rest =>
    match consume st data b with
    | none => none
    | some (none, d) => some (d, 1)
    | some (some st', d) => (run st' d rest).map fun (d', n) => (d', n + 1)

/-- The comment that starts right after `<!--`: data and number of bytes up to and including the `>`
that ends it. -/
def afterOpen (input : Bytes) : Option (Bytes × Nat) := run .commentStart [] input

/-- Markup declaration open state: `<!` followed by `--` switches to the comment start state.
`some (data, n)`: the input starts with a comment whose token has that data and which spans exactly
the first `n` bytes of the input. -/
def commentAt (input : Bytes) : Option (Bytes × Nat) :=
  match input with
  | 60 :: 33 :: 45 :: 45 :: rest => (afterOpen rest).map fun (d, n) => (d, n + 4)
  | _ => none

end CommentEnd

/-! ## WHATWG tag-name / attribute states -/

/-- Bytes that end a tag name (tag name state: tab, LF, FF, space → before attribute name; `/` →
self-closing start tag; `>` → emit). CR never reaches the tokenizer (input stream preprocessing
turns it into LF), so it delimits as well. -/
def tagNameDelims : List UInt8 := [9, 10, 12, 13, 32, 47, 62]

/-- Tag open state (after `<`, or `</`): an ASCII letter starts a tag name, which then extends up to
the first delimiter. `some (span, rest)`; `none` = this is not a tag. -/
def tagNameSpan (input : Bytes) : Option (Bytes × Bytes) :=
  match input with
  | [] => none
  | b :: _ =>
    if isAsciiAlpha b then
      some (input.takeWhile (fun x => !tagNameDelims.contains x), input.dropWhile (fun x => !tagNameDelims.contains x))
    else none

def htmlWhitespace : List UInt8 := [9, 10, 12, 13, 32]

/-- Bytes that end an attribute name (attribute name state). -/
def attrNameDelims : List UInt8 := [9, 10, 12, 13, 32, 47, 62, 61]

/-- Before attribute name state: skip whitespace; `/`, `>` (or EOF) → no attribute here; `=` → it
becomes the first character of the name (unexpected-equals-sign-before-attribute-name); then the
attribute name state takes bytes up to the first delimiter. -/
def attrNameSpan (input : Bytes) : Option (Bytes × Bytes) :=
  match input.dropWhile (fun x => htmlWhitespace.contains x) with
  | [] => none
  | b :: rest =>
    if b == 47 || b == 62 then none
    else some (b :: rest.takeWhile (fun x => !attrNameDelims.contains x),
               rest.dropWhile (fun x => !attrNameDelims.contains x))

/-- `name="value"` from the before-attribute-name state: attribute name state up to `=`, before
attribute value state (no whitespace here), `"` → attribute value (double-quoted) state up to the
next `"`, after attribute value (quoted) state. Returns name span, raw value, rest. `none` = the
input is not of this shape. -/
def attrScanDq (input : Bytes) : Option (Bytes × Bytes × Bytes) :=
  match attrNameSpan input with
  | some (name, 61 :: 34 :: rest) =>
    match rest.dropWhile (fun x => x != 34) with
    | 34 :: after => some (name, rest.takeWhile (fun x => x != 34), after)
    | _ => none
  | _ => none

/-- Data state: character tokens up to the first `<` (`&` starts a character reference, which
yields characters again, never a tag). -/
def dataRun (input : Bytes) : Bytes × Bytes :=
  (input.takeWhile (fun x => x != 60), input.dropWhile (fun x => x != 60))

end LolHtml.Spec.Esc
