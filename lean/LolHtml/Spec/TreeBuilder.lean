import LolHtml.Spec.TreeBuilder.Html
/-!
# §13.2.6 tree construction dispatcher, §13.2.6.5 rules for parsing tokens in foreign content, and the
token loop

`step c s t` processes one token completely ("reprocess" iterations included) and returns the new state
with the observables of this package:

* `sw` — the tokenizer state switch requested by the tree builder while processing the token
  (RCDATA / RAWTEXT / script data / PLAINTEXT, or none);
* `foreignRules` — the token was first dispatched to the rules for foreign content;
* the adjusted current node after the token is read off the state (`State.adjustedNs`,
  `State.cdataAllowed`).

Assumptions stated once: scripting flag as configured (lol-html: enabled); the parser is not a
fragment parser; the document is not an iframe srcdoc document.
-/
namespace LolHtml.Spec.TreeBuilder
open LolHtml.Model (Ns)

/-- §13.2.6 "tree construction dispatcher": `true` = process by the rules of the current insertion
mode in HTML content, `false` = by the rules for parsing tokens in foreign content. (No fragment case:
the adjusted current node is the current node.) -/
def useHtmlRules (s : State) (t : Token) : Bool :=
  match s.stack with
  | [] => true
  | e :: _ =>
    e.ns == .html ||
    (e.isMathmlTextIP && (match t with
      | .start n _ _ => n != .mglyph && n != .malignmark
      | .char _ => true
      | _ => false)) ||
    (e.ns == .mathml && e.name == .annotationXml && (match t with
      | .start n _ _ => n == .svg
      | _ => false)) ||
    (e.isHtmlIP && (match t with
      | .start .. => true
      | .char _ => true
      | _ => false)) ||
    t == .eof

/-- start tags that break out of foreign content (§13.2.6.5) -/
def breakoutNames : List Name :=
  [.b, .big, .blockquote, .body, .br, .center, .code, .dd, .div, .dl, .dt, .em, .embed, .h1, .h2, .h3,
   .h4, .h5, .h6, .head, .hr, .i, .img, .li, .listing, .menu, .«meta», .nobr, .ol, .p, .pre, .ruby, .s,
   .small, .span, .strong, .strike, .sub, .sup, .table, .tt, .u, .ul, .var]

/-- "while the current node is not a MathML text integration point, an HTML integration point, or an
element in the HTML namespace, pop elements from the stack of open elements" -/
def Tree.popForeign (c : Cfg) (t : Tree) : Tree :=
  { t with stack := popWhileNot (fun e =>
      e.ns == .html || e.isMathmlTextIP || (if c.dev.breakoutNoAnnotationXml then e.isSvgHtmlIP else e.isHtmlIP)) t.stack }

abbrev State.popForeign (c : Cfg) (s : State) : State := s.onTree (·.popForeign c)

/-- outcome of the "any other end tag" walk of §13.2.6.5 -/
inductive ForeignEnd
  /-- step 7: process the token by the rules of the current insertion mode -/
  | handOver
  /-- step 3: the topmost element was reached: return -/
  | unchanged
  /-- step 4: a node with the token's name: pop up to and including it; what remains -/
  | popTo (rest : List El)
  deriving Repr

/-- steps 5–6, 3–4 of "any other end tag" (§13.2.6.5) over the entries below the current node,
nearest first: an HTML element hands over to the insertion mode; the topmost element returns; a node
whose (lower-cased) name is the token's is popped together with everything above it -/
def foreignEndLoop (n : Name) : List El → ForeignEnd
  | [] => .unchanged
  | e :: es =>
    if e.ns == .html then .handOver
    else if es.isEmpty then .unchanged
    else if e.name == n then .popTo es
    else foreignEndLoop n es

/-- §13.2.6.5 "the rules for parsing tokens in foreign content" -/
def foreignRules (c : Cfg) (s : State) : Token → Res
  | .char .nul => .ok s
  | .char .ws => .ok s
  | .char .other => .ok { s with framesetOk := false }
  | .comment => .ok s
  | .doctype _ => .ignore s
  | .start n selfClosing a =>
    if n.isIn breakoutNames || (n == .font && (a.font == .color || a.font == .face || a.font == .size)) then
      .reprocess (s.popForeign c) true
    else
      -- any other start tag: insert a foreign element in the adjusted current node's namespace
      let ns := (s.current.map (·.ns)).getD .html
      let s1 := s.pushNew ns n a
      .ok (if selfClosing then s1.pop else s1)
  | .end n =>
    if n.isIn [.br, .p] then .reprocess (s.popForeign c) true
    else
      match s.stack with
      | [] => .ok s
      | [_] => .ok s
      | e :: es =>
        -- the current node (not an HTML element here): compare, then walk down
        if e.name == n then .ok (s.onTree (·.setStack es))
        else
          match foreignEndLoop n es with
          | .popTo st => .ok (s.onTree (·.setStack st))
          | .unchanged => .ok s
          | .handOver => .reprocess s true
  | .eof => .ok s       -- not reachable: EOF is dispatched to the HTML rules

/-- one dispatch: foreign rules or the current insertion mode -/
def stepOnce (c : Cfg) (s : State) (t : Token) (html : Bool) : Res :=
  if html || useHtmlRules s t then stepMode c s t else foreignRules c s t

/-- observables of one token -/
structure Out where
  st : State
  sw : Switch
  /-- first dispatched to the foreign-content rules -/
  foreignRules : Bool
  /-- the standard has no rule (text mode, see `Res.impossible`) -/
  impossible : Bool := false
  /-- the reprocess budget ran out (never observed; see `fuelFor`) -/
  outOfFuel : Bool := false
  deriving Repr, Inhabited

/-- the token loop: dispatch, follow "reprocess" -/
def loop (c : Cfg) (t : Token) (foreign : Bool) : Nat → State → Bool → Out
  | 0, s, _ => { st := s, sw := .none, foreignRules := foreign, outOfFuel := true }
  | fuel + 1, s, html =>
    match stepOnce c s t html with
    | .done s' sw => { st := s', sw := sw, foreignRules := foreign }
    | .reprocess s' h => loop c t foreign fuel s' h
    | .impossible s' => { st := s', sw := .none, foreignRules := foreign, impossible := true }

/-- reprocess budget: every chain of "reprocess" steps is bounded by a constant, except end-of-file
inside nested templates (one per open template) -/
def fuelFor (s : State) : Nat := s.tmodes.length + 16

/-- process one token -/
def step (c : Cfg) (s : State) (t : Token) : Out :=
  if c.dev.doctypeEarly && (match t with | .doctype _ => true | _ => false) && s.mode != .initial then
    { st := s, sw := .none, foreignRules := false }
  else
    loop c t (!useHtmlRules s t) (fuelFor s) s false

/-- namespace of the adjusted current node (`html` when the stack is empty) -/
def State.adjustedNs (s : State) : Ns := (s.current.map (·.ns)).getD .html

/-- §13.2.5.42 markup declaration open state: `<![CDATA[` starts a CDATA section iff "there is an
adjusted current node and it is not an element in the HTML namespace" -/
def State.cdataAllowed (s : State) : Bool := s.adjustedNs != .html

/-- the namespace that governs how the *next start tag* is treated: HTML when the adjusted current
node is an HTML element or an integration point for start tags, else its namespace -/
def State.startTagNs (s : State) : Ns :=
  match s.stack with
  | [] => .html
  | e :: _ => if e.isMathmlTextIP || e.isHtmlIP then .html else e.ns

/-- run over a token sequence from a state: the observables of every token -/
def run (c : Cfg) : State → List Token → List Out
  | _, [] => []
  | s, t :: ts =>
    let o := step c s t
    o :: run c o.st ts

end LolHtml.Spec.TreeBuilder
