/-
Specification of the CSS attribute selectors (Selectors Level 4 §6.1 "Attribute presence and value
selectors", §6.2 "Substring matching attribute selectors", §6.3 "Case-sensitivity"), on byte strings,
stated declaratively (decompositions `v = p ++ m ++ s`), independent of how the code computes them.

  [att=val]   the value is exactly `val`
  [att~=val]  the value is a whitespace-separated list of words, one of which is exactly `val`;
              if `val` contains whitespace or is empty, it never represents anything
  [att|=val]  the value is exactly `val` or begins with `val` immediately followed by `-` (U+002D)
  [att^=val]  the value begins with the prefix `val`; if `val` is empty: nothing
  [att$=val]  the value ends with the suffix `val`;   if `val` is empty: nothing
  [att*=val]  the value contains the substring `val`; if `val` is empty: nothing
  `i` flag    "exactly" is ASCII-case-insensitive (A–Z ≡ a–z), `s` flag: byte identity.
-/
import LolHtml.Basic

namespace LolHtml.Spec.AttrOps

/-- Whitespace of Selectors L4 §"whitespace": space, tab, line feed, carriage return, form feed. -/
def IsWhitespace (b : UInt8) : Prop := b = 32 ∨ b = 9 ∨ b = 10 ∨ b = 13 ∨ b = 12

/-- ASCII lower-casing of one byte (`A`–`Z` ↦ `a`–`z`, everything else fixed). -/
def lower (b : UInt8) : UInt8 := if 65 ≤ b ∧ b ≤ 90 then b + 32 else b

inductive Case where
  | sensitive
  | asciiInsensitive
  deriving DecidableEq, Repr

/-- "`x` is exactly `y`" in the given case mode. -/
def CEq : Case → Bytes → Bytes → Prop
  | .sensitive, x, y => x = y
  | .asciiInsensitive, x, y => x.map lower = y.map lower

/-- `w` is one of the whitespace-separated words of `v`: a non-empty whitespace-free block of `v`
that is delimited on each side by whitespace or by the end of `v`. -/
def IsWord (v w : Bytes) : Prop :=
  w ≠ [] ∧ (∀ b ∈ w, ¬ IsWhitespace b) ∧
  ∃ p s, v = p ++ w ++ s ∧
    (p = [] ∨ ∃ p' c, p = p' ++ [c] ∧ IsWhitespace c) ∧
    (s = [] ∨ ∃ c s', s = c :: s' ∧ IsWhitespace c)

def OpEqual (c : Case) (v n : Bytes) : Prop := CEq c v n

def OpIncludes (c : Case) (v n : Bytes) : Prop := n ≠ [] ∧ ∃ w, IsWord v w ∧ CEq c w n

def OpDashMatch (c : Case) (v n : Bytes) : Prop :=
  CEq c v n ∨ ∃ p s, v = p ++ 45 :: s ∧ CEq c p n

def OpPrefix (c : Case) (v n : Bytes) : Prop := n ≠ [] ∧ ∃ p s, v = p ++ s ∧ CEq c p n

def OpSuffix (c : Case) (v n : Bytes) : Prop := n ≠ [] ∧ ∃ p s, v = p ++ s ∧ CEq c s n

def OpSubstring (c : Case) (v n : Bytes) : Prop := n ≠ [] ∧ ∃ p m s, v = p ++ m ++ s ∧ CEq c m n

/-- The attribute a selector `[name …]` looks at: the first attribute of the start tag whose name
equals `name` ASCII-case-insensitively (HTML: later duplicates are dropped by the parser). -/
def firstAttr (attrs : List (Bytes × Bytes)) (name : Bytes) : Option Bytes :=
  (attrs.find? fun a => a.1.map lower == name.map lower).map (·.2)

end LolHtml.Spec.AttrOps
