/-
Abstract streaming character codec (the interface the text decoder / text encoder of lol-html use from
`encoding_rs`), its laws, and the *bounded* decoder call `decode_to_str` (a decoder writing into a
fixed-size output buffer which may report `OutputFull` before the input is exhausted).

The codec is the assumed interface of property C13: everything in `Model.TextDecoder` /
`Model.TextEncoder` is generic in it; `Model.Codecs` gives executable instances.
-/
import LolHtml.Basic

namespace LolHtml.Enc

/-- Length in bytes of the UTF-8 form of a list of scalar values (what `written` counts in
`Decoder::decode_to_str`). -/
def utf8Len : List Char → Nat
  | [] => 0
  | c :: cs => c.utf8Size + utf8Len cs

/-- Result of one micro-step of a streaming decoder looking at the byte at the head of its input.
`consumed = false` is encoding_rs's "unread": the step only terminated a pending malformed sequence
(emitting U+FFFD) and the same byte has to be looked at again in the new state. -/
structure Step (σ : Type) where
  st : σ
  out : List Char
  consumed : Bool

/-- A streaming decoder state machine plus a per-scalar encoder. -/
structure Codec where
  σ : Type
  init : σ
  /-- one micro-step on the next input byte -/
  decStep : σ → UInt8 → Step σ
  /-- end of stream: what a pending (incomplete) sequence turns into (U+FFFD or nothing) -/
  decFlush : σ → List Char
  /-- bytes of a scalar value in this encoding, `none` if unmappable -/
  encChar : Char → Option Bytes

namespace Codec

/-- A full step on one byte: micro-step, and if the byte was unread, a second micro-step on the same
byte in the new state (which is then taken to consume the byte). -/
def step2 (c : Codec) (s : c.σ) (b : UInt8) : c.σ × List Char :=
  let r := c.decStep s b
  if r.consumed then (r.st, r.out)
  else
    let r2 := c.decStep r.st b
    (r2.st, r.out ++ r2.out)

/-- Unbounded streaming decode of `bs` from state `s` (fold of `step2`). -/
def run (c : Codec) : c.σ → Bytes → c.σ × List Char
  | s, [] => (s, [])
  | s, b :: bs =>
    let (s1, o1) := c.step2 s b
    let (s2, o2) := c.run s1 bs
    (s2, o1 ++ o2)

/-- Everything the decoder will still produce from state `s` on the remaining bytes `bs` followed by
end of stream. -/
def tail (c : Codec) (s : c.σ) (bs : Bytes) : List Char :=
  (c.run s bs).2 ++ c.decFlush (c.run s bs).1

/-- THE SPECIFICATION: whole-buffer decode (with replacement) of a byte string. -/
def decodeAll (c : Codec) (bs : Bytes) : List Char := c.tail c.init bs

/-- The laws the theorems assume of a codec (C13 "assumed interface", DESIGN §3.9). -/
structure Lawful (c : Codec) : Prop where
  /-- ASCII bytes decode to themselves and leave no pending state -/
  ascii : ∀ b : UInt8, b < 128 → c.decStep c.init b = ⟨c.init, [Char.ofNat b.toNat], true⟩
  /-- a byte is unread at most once: in the state the decoder falls back to, it is consumed
  (in all decoders but gb18030 that state is the neutral one) -/
  unread_once : ∀ s b, (c.decStep s b).consumed = false →
    (c.decStep (c.decStep s b).st b).consumed = true
  /-- nothing is pending in the neutral state -/
  flush_init : c.decFlush c.init = []
  /-- one micro-step writes at most one scalar value's worth of UTF-8 (4 bytes) -/
  step_small : ∀ s b, utf8Len (c.decStep s b).out ≤ 4
  flush_small : ∀ s, utf8Len (c.decFlush s) ≤ 4
  /-- ASCII scalar values encode to themselves -/
  enc_ascii : ∀ ch : Char, ch.toNat < 128 → c.encChar ch = some [UInt8.ofNat ch.toNat]
  /-- an encoded scalar value is 1 to 4 bytes long -/
  enc_size : ∀ (ch : Char) (bs : Bytes), c.encChar ch = some bs → 1 ≤ bs.length ∧ bs.length ≤ 4

end Codec

/-! ## Bounded decoder call: `Decoder::decode_to_str(src, dst, last)` -/

inductive CoderResult
  | inputEmpty
  | outputFull
  deriving DecidableEq, Repr

/-- Where a decoder decides to report `OutputFull` although the next step would still fit is an
implementation detail of `encoding_rs` (SIMD strides, per-variant space checks).  It is modelled as an
arbitrary *policy* with private state; the theorems hold for every policy.  The policy is only
consulted when fewer than 4 bytes are free: with ≥ 4 bytes free a decoder must make progress
(the documented `encoding_rs` contract). -/
structure Policy (c : Codec) where
  P : Type
  start : P
  /-- `stop p s free rest` : stop before looking at `rest` (head = next byte; `[]` = flush at EOF) -/
  stop : P → c.σ → Nat → Bytes → Bool
  /-- `next p s free rest r` : policy state after micro-step `r` was taken on the head of `rest` -/
  next : P → c.σ → Nat → Bytes → Step c.σ → P

/-- The policy that never stops early (stops only when the next output does not fit). -/
def Policy.greedy (c : Codec) : Policy c := ⟨Unit, (), fun _ _ _ _ => false, fun _ _ _ _ _ => ()⟩

/-- The policy that stops as early as it may. -/
def Policy.lazy (c : Codec) : Policy c := ⟨Unit, (), fun _ _ _ _ => true, fun _ _ _ _ _ => ()⟩

structure DecodeRes (σ : Type) where
  status : CoderResult
  /-- number of input bytes consumed -/
  read : Nat
  /-- scalar values written to the buffer (`written = utf8Len out`) -/
  out : List Char
  /-- decoder state after the call -/
  st : σ

def DecodeRes.push {σ : Type} (n : Nat) (o : List Char) (r : DecodeRes σ) : DecodeRes σ :=
  { r with read := n + r.read, out := o ++ r.out }

/-- Must/may the decoder stop before writing `o` with `free` bytes left? -/
def mustStop {c : Codec} (pol : Policy c) (p : pol.P) (s : c.σ) (free : Nat) (o : List Char)
    (rest : Bytes) : Bool :=
  free < utf8Len o || (free < 4 && pol.stop p s free rest)

/-- `decode_to_str` with `free` bytes of room left in the buffer, policy state `p`, decoder state `s`.
With `last`, end of input flushes the pending state and resets the decoder. -/
def decodeAux (c : Codec) (pol : Policy c) (last : Bool) :
    pol.P → c.σ → Bytes → Nat → DecodeRes c.σ
  | p, s, [], free =>
    if last then
      if mustStop pol p s free (c.decFlush s) [] then ⟨.outputFull, 0, [], s⟩
      else ⟨.inputEmpty, 0, c.decFlush s, c.init⟩
    else ⟨.inputEmpty, 0, [], s⟩
  | p, s, b :: rest, free =>
    let r := c.decStep s b
    if mustStop pol p s free r.out (b :: rest) then ⟨.outputFull, 0, [], s⟩
    else
      let p1 := pol.next p s free (b :: rest) r
      let free1 := free - utf8Len r.out
      if r.consumed then (decodeAux c pol last p1 r.st rest free1).push 1 r.out
      else
        let r2 := c.decStep r.st b
        if mustStop pol p1 r.st free1 r2.out (b :: rest) then ⟨.outputFull, 0, r.out, r.st⟩
        else
          (decodeAux c pol last (pol.next p1 r.st free1 (b :: rest) r2) r2.st rest (free1 - utf8Len r2.out)).push 1
            (r.out ++ r2.out)

/-- `decoder.decode_to_str(src, buffer, last)` on a buffer of `cap` bytes. -/
def decodeToStr (c : Codec) (pol : Policy c) (s : c.σ) (src : Bytes) (cap : Nat) (last : Bool) :
    DecodeRes c.σ :=
  decodeAux c pol last pol.start s src cap

end LolHtml.Enc
