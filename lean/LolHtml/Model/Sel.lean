/-
Model.Sel — the supported selector grammar as an own AST (`Sel`), the tag events the matcher sees,
the CSS printer (used by the `sel` lane to show the text the harness feeds to the `selectors` crate)
and the leaf predicates (`:nth-*` index test, attribute operators) as the code computes them.

Rust anchors:
  src/selectors_vm/parser.rs:118-188   validate_component — the accepted component forms are exactly
                                        the constructors of `Simple` / `Comb` below
  src/selectors_vm/ast.rs:8-36          NthChild::has_index
  src/selectors_vm/attribute_matcher.rs AttributeMatcher (find / has_id / has_class / six operators)
The CSS *text* parser (cssparser + selectors crate) is outside the model: the model starts from
the component list.
-/
import LolHtml.Basic

namespace LolHtml.Sel

/-! ## Grammar -/

/-- selectors::attr::AttrSelectorOperator -/
inductive AttrOp where
  | eq | includes | dashMatch | pfx | substring | sfx
  deriving DecidableEq, Repr, Inhabited

/-- selectors::attr::ParsedCaseSensitivity. `insensitiveIfHtml` is what the parser produces for the
    legacy HTML attribute names (`type`, `lang`, …) without a flag; ` i` gives `asciiCaseInsensitive`,
    ` s` gives `explicitCaseSensitive`. -/
inductive ParsedCase where
  | explicitCaseSensitive | asciiCaseInsensitive | caseSensitive | insensitiveIfHtml
  deriving DecidableEq, Repr, Inhabited

/-- One simple selector = one `Component` accepted by `validate_component` (parser.rs:118). -/
inductive Simple where
  | type (name : Bytes)                                      -- Component::LocalName
  | universal                                                -- Component::ExplicitUniversalType
  | id (v : Bytes)                                           -- Component::ID
  | cls (v : Bytes)                                          -- Component::Class
  | attrExists (name : Bytes)                                -- AttributeInNoNamespaceExists / AttributeOther(Exists)
  | attr (name : Bytes) (op : AttrOp) (value : Bytes) (cs : ParsedCase)
  | nthChild (a b : Int)                                     -- Component::Nth, NthType::Child
  | nthOfType (a b : Int)                                    -- Component::Nth, NthType::OfType
  | firstChild                                               -- parsed as Nth(Child, 0n+1)
  | firstOfType                                              -- parsed as Nth(OfType, 0n+1)
  | not (args : List (List Simple))                          -- Component::Negation(list of compounds)

abbrev Compound := List Simple

inductive Comb where
  | child | descendant
  deriving DecidableEq, Repr, Inhabited

/-- A complex selector in source order: leftmost compound, then (combinator, compound)*. -/
structure Complex where
  head : Compound
  tail : List (Comb × Compound)

/-- One registered selector = a selector list. -/
abbrev SelList := List Complex

/-! ## Tag events -/

inductive Ns where
  | html | svg | mathml
  deriving DecidableEq, Repr, Inhabited

structure Attr where
  name : Bytes
  value : Bytes
  deriving DecidableEq, Repr

structure StartTag where
  name : Bytes
  ns : Ns
  attrs : List Attr
  selfClosing : Bool
  deriving DecidableEq, Repr

inductive Event where
  | start (t : StartTag)
  | end_ (name : Bytes)
  deriving DecidableEq, Repr

/-- `LocalName == LocalName` (html/local_name.rs:198): hash equality for hashable names, otherwise
    `eq_ignore_ascii_case`; the hash drops the case bit, and is injective on hashable names
    (proved in the C03 package), so both are ASCII-case-insensitive equality of the name bytes. -/
def localNameEq (a b : Bytes) : Bool := eqIgnoreAsciiCase a b

/-! ## Void elements (stack.rs:13-38) -/

/-- The `tag_is_one_of!` list of `is_void_element` (stack.rs:19-26), lower-case names:
    area base basefont bgsound br col embed hr img input keygen link meta param source track wbr -/
def voidElements : List Bytes :=
  [ [97,114,101,97], [98,97,115,101], [98,97,115,101,102,111,110,116], [98,103,115,111,117,110,100],
    [98,114], [99,111,108], [101,109,98,101,100], [104,114], [105,109,103], [105,110,112,117,116],
    [107,101,121,103,101,110], [108,105,110,107], [109,101,116,97], [112,97,114,97,109],
    [115,111,117,114,99,101], [116,114,97,99,107], [119,98,114] ]

/-- `b"esi:include"`, `b"esi:comment"` -/
def esiVoid : List Bytes :=
  [ [101,115,105,58,105,110,99,108,117,100,101], [101,115,105,58,99,111,109,109,101,110,116] ]

/-- `is_void_element` (stack.rs:13): tag hashes ignore case; the ESI names are compared exactly. -/
def isVoidElement (localName : Bytes) (enableEsiTags : Bool) : Bool :=
  voidElements.contains (asciiLowerBytes localName) || (enableEsiTags && esiVoid.contains localName)

/-! ## `:nth-*` index test (ast.rs:20-35): the difference and the remainder are computed in `i64`,
where neither can overflow for `i32` operands, so they are exact integer operations. -/

/-- `NthChild::has_index`: `step`/`offset` are the selector's `a`/`b`, `index` the 1-based counter. -/
def hasIndex (step offset index : Int) : Bool :=
  let offsetted := index - offset
  if step == 0 then offsetted == 0
  else if (decide (offsetted < 0) && decide (step > 0)) || (decide (offsetted > 0) && decide (step < 0)) then false
  else offsetted.tmod step == 0

/-! ## Attribute matcher (attribute_matcher.rs) -/

/-- `is_attr_whitespace` (attribute_matcher.rs:13) -/
def isAttrWhitespace (b : UInt8) : Bool := b == 32 || b == 10 || b == 13 || b == 9 || b == 12

/-- Rust `slice.split(pred)`: always yields at least one (possibly empty) part. -/
def splitOnWs : Bytes → List Bytes
  | [] => [[]]
  | b :: rest =>
    if isAttrWhitespace b then [] :: splitOnWs rest
    else match splitOnWs rest with
      | [] => [[b]]
      | p :: ps => (b :: p) :: ps

/-- `to_unconditional` (attribute_matcher.rs:18): `true` = ASCII-case-insensitive. -/
def toUnconditional (cs : ParsedCase) (isHtmlElement : Bool) : Bool :=
  match cs with
  | .insensitiveIfHtml => isHtmlElement
  | .caseSensitive | .explicitCaseSensitive => false
  | .asciiCaseInsensitive => true

/-- `CaseSensitivity::eq` -/
def caseEq (insensitive : Bool) (a b : Bytes) : Bool :=
  if insensitive then eqIgnoreAsciiCase a b else a == b

structure AttributeMatcher where
  attrs : List Attr
  isHtmlElement : Bool

/-- `find` (attribute_matcher.rs:62): first attribute whose name, lower-cased, equals the
    (already lower-cased) selector name. -/
def AttributeMatcher.getValue (m : AttributeMatcher) (lowercasedName : Bytes) : Option Bytes :=
  (m.attrs.find? fun a => asciiLowerBytes a.name == lowercasedName).map (·.value)

def AttributeMatcher.hasAttribute (m : AttributeMatcher) (lowercasedName : Bytes) : Bool :=
  (m.getValue lowercasedName).isSome

/-- `b"id"` -/
def idAttr : Bytes := [105, 100]
/-- `b"class"` -/
def classAttr : Bytes := [99, 108, 97, 115, 115]

def AttributeMatcher.hasId (m : AttributeMatcher) (id : Bytes) : Bool :=
  match m.getValue idAttr with
  | some actual => actual == id
  | none => false

def AttributeMatcher.hasClass (m : AttributeMatcher) (cls : Bytes) : Bool :=
  match m.getValue classAttr with
  | some v => (splitOnWs v).any (· == cls)
  | none => false

def isPrefixCase (ins : Bool) (p v : Bytes) : Bool :=
  decide (p.length ≤ v.length) && caseEq ins (v.take p.length) p

def isSuffixCase (ins : Bool) (s v : Bytes) : Bool :=
  decide (s.length ≤ v.length) && caseEq ins (v.drop (v.length - s.length)) s

/-- some position of `v` carries `s` as a prefix -/
def isInfixCase (ins : Bool) (s : Bytes) : Bytes → Bool
  | [] => s.isEmpty
  | b :: rest => isPrefixCase ins s (b :: rest) || isInfixCase ins s rest

/-- The six operator functions of `AttributeMatcher` on an attribute value that is present, exactly
    as coded. -/
def opMatchesCode (op : AttrOp) (ins : Bool) (actual operand : Bytes) : Bool :=
  match op with
  | .eq => caseEq ins actual operand                                        -- attr_eq
  | .includes => !operand.isEmpty && (splitOnWs actual).any fun part => caseEq ins part operand  -- matches_splitted_by_whitespace
  | .pfx => decide (operand.length ≠ 0) && isPrefixCase ins operand actual  -- has_attr_with_prefix
  | .dashMatch =>                                                           -- has_dash_matching_attr
    caseEq ins actual operand ||
      (actual[operand.length]? == some 45 && isPrefixCase ins operand actual)
  | .sfx => decide (operand.length ≠ 0) && isSuffixCase ins operand actual  -- has_attr_with_suffix
  | .substring => !operand.isEmpty && isInfixCase ins operand actual        -- has_attr_with_substring

/-- `value_matches` + operator, the name is lower-cased at compile time (compiler.rs:124). -/
def AttributeMatcher.attrCmp (m : AttributeMatcher) (name value : Bytes) (cs : ParsedCase)
    (op : AttrOp) : Bool :=
  match m.getValue (asciiLowerBytes name) with
  | some actual => opMatchesCode op (toUnconditional cs m.isHtmlElement) actual value
  | none => false

/-! ## Printer to CSS text (mirrored by gen/sel.py; the lane prints it so that the text given to the
real parser is checked against the AST the model runs on). Names and values are restricted by the
generator to bytes that need no escaping. -/

def bytesToString (b : Bytes) : String := String.ofList (b.map fun c => Char.ofNat c.toNat)

def AttrOp.css : AttrOp → String
  | .eq => "=" | .includes => "~=" | .dashMatch => "|=" | .pfx => "^=" | .substring => "*=" | .sfx => "$="

def ParsedCase.css : ParsedCase → String
  | .explicitCaseSensitive => " s" | .asciiCaseInsensitive => " i" | _ => ""

def anPlusB (a b : Int) : String :=
  toString a ++ "n" ++ (if b < 0 then "-" ++ toString (-b) else "+" ++ toString b)

mutual
def Simple.css : Simple → String
  | .type n => bytesToString n
  | .universal => "*"
  | .id v => "#" ++ bytesToString v
  | .cls v => "." ++ bytesToString v
  | .attrExists n => "[" ++ bytesToString n ++ "]"
  | .attr n op v cs => "[" ++ bytesToString n ++ op.css ++ "\"" ++ bytesToString v ++ "\"" ++ cs.css ++ "]"
  | .nthChild a b => ":nth-child(" ++ anPlusB a b ++ ")"
  | .nthOfType a b => ":nth-of-type(" ++ anPlusB a b ++ ")"
  | .firstChild => ":first-child"
  | .firstOfType => ":first-of-type"
  | .not args => ":not(" ++ argsCss args ++ ")"
def compoundCss : List Simple → String
  | [] => ""
  | s :: ss => s.css ++ compoundCss ss
def argsCss : List (List Simple) → String
  | [] => ""
  | [c] => compoundCss c
  | c :: cs => compoundCss c ++ ", " ++ argsCss cs
end

def Comb.css : Comb → String
  | .child => " > " | .descendant => " "

def Complex.css (c : Complex) : String :=
  compoundCss c.head ++ String.join (c.tail.map fun (k, cp) => k.css ++ compoundCss cp)

def selListCss (l : SelList) : String := ", ".intercalate (l.map Complex.css)

end LolHtml.Sel
