/-
Model.Full — the whole rewriter as ONE model: the REAL transform controller
(`HtmlRewriteController`, src/rewriter/rewrite_controller.rs) as a concrete instance of
`Controller γ` (Model/Dispatcher.lean), glued from the existing package models:

  * selector engine      `SelVM.Vm`                  (Model/SelVM.lean, package selvm)
  * handler dispatcher   `Handlers.Dispatcher`       (Model/Handlers.lean, package scope)
  * tokens / element ops `EditModel.*`               (Model/{Mutations,TokenEdit,ElementOps}.lean, package edit)

Nothing is re-modelled here: this file only contains ADAPTERS between the interfaces
(`LocalName` ↦ name bytes, `AuxInfo` ↦ `AuxStartTagInfo`, `Model.Token` ↦ `EditModel.Token`,
script ops ↦ `Handlers.ElemAct`) and the glue that rewrite_controller.rs itself is.

User handlers are SCRIPTS: per handler closure, per invocation `k`, the list of API calls it makes
(`k` runs script `k mod n`), optionally followed by returning `Err` (`fail`). Every invocation is
logged together with what the handler could read from the unit it was given *before* its own calls.

Rust anchors:
  rewrite_controller.rs:45-87    from_settings                       `St.init`
  rewrite_controller.rs:106-125  respond_to_aux_info_request         `auxInfo`
  rewrite_controller.rs:132-136  initial_capture_flags               `St.flags`
  rewrite_controller.rs:137-158  handle_start_tag                    `startTag`
  rewrite_controller.rs:160-168  handle_end_tag                      `endTag`
  rewrite_controller.rs:171-180  handle_token                        `token`
  rewrite_controller.rs:182-186  handle_end                          `handleEnd`
  rewrite_controller.rs:189-193  should_emit_content                 `shouldEmit`
  handlers_dispatcher.rs:257-302 handle_start_tag / handle_token     `tokStartTag`, `tokEndTag`, …
  rewriter/mod.rs (HtmlRewriter::new)                                `Stream.new (world cfg) (St.init cfg)`

Restrictions (docs/pkg-full.md): UTF-8 document encoding, `adjust_charset_on_meta_tag = false`, no
bail-out handlers, the open-element stack of the VM is not charged to the memory limiter.
-/
import LolHtml.Model.Stream
import LolHtml.Model.SelVM
import LolHtml.Model.Handlers
import LolHtml.Model.ElementOps

namespace LolHtml.Model.Full
open LolHtml LolHtml.Model LolHtml.Model.Handlers LolHtml.EditModel

/-! ## Configuration: what `Settings` registers -/

/-- One handler closure: invocation `k` performs `(ops[k mod n]).1` and then returns
`Err` iff `(ops[k mod n]).2`. -/
abbrev Scripts (α : Type) := List (List α × Bool)

/-- `ElementContentHandlers` (settings.rs:304) -/
structure SelHandlers where
  element : Option (Scripts ElementOp) := none
  comments : Option (Scripts CommentOp) := none
  text : Option (Scripts TextOp) := none

/-- `DocumentContentHandlers` (settings.rs:367) -/
structure DocHandlers where
  doctype : Option (Scripts DoctypeOp) := none
  comments : Option (Scripts CommentOp) := none
  text : Option (Scripts TextOp) := none
  end_ : Option (Scripts (Bytes × ContentType)) := none

/-- `Settings` as far as the controller is concerned. -/
structure Cfg where
  sels : List (Sel.SelList × SelHandlers) := []
  docs : List DocHandlers := []
  esi : Bool := false

def SelHandlers.reg (h : SelHandlers) : SelReg :=
  { element := h.element.isSome, comments := h.comments.isSome, text := h.text.isSome }

def DocHandlers.reg (h : DocHandlers) : DocReg :=
  { doctype := h.doctype.isSome, comments := h.comments.isSome, text := h.text.isSome,
    end_ := h.end_.isSome }

def Cfg.selRegs (cfg : Cfg) : List SelReg := cfg.sels.map fun e => e.2.reg
def Cfg.docRegs (cfg : Cfg) : List DocReg := cfg.docs.map DocHandlers.reg

/-- invocation `k` runs script `k mod n` -/
def cyc {α : Type} (l : Scripts α) (k : Nat) : List α × Bool :=
  match l[k % l.length]? with
  | some x => x
  | none => ([], false)

def orEmpty {α : Type} : Option (Scripts α) → Scripts α
  | some s => s
  | none => []

/-- the scripts of the closure `(kind, h)`; `h < sels.length`: selector entry, otherwise document
entry `h - sels.length` (the `HId` numbering of Model/Handlers.lean) -/
def Cfg.elementScripts (cfg : Cfg) (h : HId) : Scripts ElementOp :=
  match cfg.sels[h]? with
  | some e => orEmpty e.2.element
  | none => []

def Cfg.commentScripts (cfg : Cfg) (h : HId) : Scripts CommentOp :=
  match cfg.sels[h]? with
  | some e => orEmpty e.2.comments
  | none =>
    match cfg.docs[h - cfg.sels.length]? with
    | some d => orEmpty d.comments
    | none => []

def Cfg.textScripts (cfg : Cfg) (h : HId) : Scripts TextOp :=
  match cfg.sels[h]? with
  | some e => orEmpty e.2.text
  | none =>
    match cfg.docs[h - cfg.sels.length]? with
    | some d => orEmpty d.text
    | none => []

def Cfg.doctypeScripts (cfg : Cfg) (h : HId) : Scripts DoctypeOp :=
  match cfg.docs[h - cfg.sels.length]? with
  | some d => orEmpty d.doctype
  | none => []

def Cfg.endScripts (cfg : Cfg) (h : HId) : Scripts (Bytes × ContentType) :=
  match cfg.docs[h - cfg.sels.length]? with
  | some d => orEmpty d.end_
  | none => []

/-! ## State -/

/-- the part of `ElementDescriptor` (rewrite_controller.rs:13) that the controller owns; the match
set lives in the VM's stack item. `descs` of the state is parallel to `vm.stack.items`. -/
structure Desc where
  endTagHandlerIdx : Option Locator := none
  removeContent : Bool := false
  /-- ghost: ordinal of the start-tag event that opened the element -/
  ord : Nat := 0
  deriving DecidableEq, Repr

/-- the boxed end-tag handler of one element (`Element::into_end_tag_handler`), keyed by the ghost
ordinal stored in the dispatcher's `EndTagH` -/
structure EndPayload where
  ord : Nat
  handler : EndTagHandler
  deriving DecidableEq, Repr

/-- which closure ran -/
inductive Who
  | doctype (h : HId)
  | comment (h : HId)
  | text (h : HId)
  | element (h : HId)
  | endTag (h : HId) (k : Nat)     -- k-th `on_end_tag` closure registered by element handler `h`
  | end_ (h : HId)
  deriving DecidableEq, Repr

/-- what the closure could read from its unit when it was called -/
inductive Seen
  | element (name : Bytes) (ns : Model.Ns) (attrs : List (Bytes × Bytes)) (selfClosing canHaveContent removed : Bool)
  | endTag (name : Bytes) (removed : Bool)
  | text (text : Bytes) (last removed : Bool)
  | comment (text : Bytes) (removed : Bool)
  | doctype (name publicId systemId : Option Bytes)
  | docEnd
  deriving DecidableEq, Repr

structure LogEntry where
  who : Who
  src : Range
  seen : Seen
  deriving DecidableEq, Repr

/-- `HtmlRewriteController` + the scripted closures' memory (invocation counters, log). -/
structure St where
  disp : Dispatcher
  vm : Option SelVM.Vm
  descs : List Desc := []
  /-- the boxed `AuxStartTagInfoRequest` between `handle_start_tag` and its answer -/
  pending : Option SelVM.Pending := none
  payloads : List EndPayload := []
  /-- (kind code, handler id) ↦ number of invocations so far -/
  inv : List ((Nat × HId) × Nat) := []
  /-- ordinal of the current start-tag event = number of `handle_start_tag` calls so far (ghost; keys
  `payloads`, stored in `Desc.ord` and in the dispatcher model's `EndTagH.ord`) -/
  ord : Nat := 0
  /-- newest first -/
  log : List LogEntry := []
  /-- a panic site of the Rust reached inside a callback that cannot return an error
  (`handle_end_tag`); reported as `Err.panic site` by the next fallible callback -/
  fault : Option String := none

def kDoctype : Nat := 0
def kComment : Nat := 1
def kText : Nat := 2
def kElement : Nat := 3
def kEnd : Nat := 4

def invGet (inv : List ((Nat × HId) × Nat)) (key : Nat × HId) : Nat :=
  match inv.find? (fun e => e.1 == key) with
  | some e => e.2
  | none => 0

def invBump : List ((Nat × HId) × Nat) → (Nat × HId) → List ((Nat × HId) × Nat)
  | [], key => [(key, 1)]
  | e :: rest, key => if e.1 == key then (e.1, e.2 + 1) :: rest else e :: invBump rest key

/-- `HtmlRewriteController::from_settings` (rewrite_controller.rs:45): the VM exists iff there is at
least one selector (`adjust_charset_on_meta_tag` is off). -/
def St.init (cfg : Cfg) : St :=
  { disp := Dispatcher.fromSettings cfg.selRegs cfg.docRegs
    vm := if cfg.sels.isEmpty then none
          else some (SelVM.Vm.new (SelVM.Ast.ofSelectors (cfg.sels.map (·.1))) cfg.esi) }

/-! ## Adapters -/

/-- `Handlers.Flags` ↦ `Model.Flags` (the same five bits) -/
def convFlags (f : Handlers.Flags) : Model.Flags :=
  { text := f.text, comments := f.comments, nextStartTag := f.nextStartTag,
    nextEndTag := f.nextEndTag, doctypes := f.doctypes }

/-- `get_capture_flags` (rewrite_controller.rs:127) -/
def St.flags (s : St) : Model.Flags := convFlags s.disp.getTokenCaptureFlags

/-- one base-32 digit of a `LocalNameHash` back to its (lower-case) character
(inverse of `NameHash.update`) -/
def unhashDigit (v : Nat) : UInt8 :=
  if v ≥ 6 then UInt8.ofNat (v - 5 + 96) else UInt8.ofNat (v + 49)

def unhashAux : Nat → Nat → Bytes → Bytes
  | 0, _, acc => acc
  | fuel + 1, h, acc => if h == 0 then acc else unhashAux fuel (h / 32) (unhashDigit (h % 32) :: acc)

/-- the lower-case name a valid hash stands for (at most 12 digits) -/
def unhash (h : Nat) : Bytes := unhashAux 13 h []

/-- `LocalName` ↦ the name bytes the `SelVM` model works on (it compares names ASCII-case-
insensitively, so the lower-cased name recovered from the hash is as good as the original). -/
def nameBytes : LocalName → Bytes
  | .hash h => unhash h
  | .bytes b => b

def nsConv : Model.Ns → Sel.Ns
  | .html => .html
  | .svg => .svg
  | .mathml => .mathml

def vmMsg : String := "selectors_vm"
def dispMsg : String := "handlers_dispatcher"
def syncMsg : String := "descs out of sync with the VM stack"
def vmErr (_p : SelVM.Panic) : Err := .panic vmMsg
def dispErr (_p : Handlers.Panic) : Err := .panic dispMsg

/-- `AuxStartTagInfo` (dispatcher model) ↦ `AuxStartTagInfo` (VM model): the attribute matcher slices
names and values out of the input (attribute_matcher.rs:62-86). -/
def auxConv (info : AuxInfo) : Option SelVM.AuxStartTagInfo :=
  (attrsOf info.input info.attrs).map fun as =>
    { attrs := as.map fun a => ⟨a.1, a.2.1⟩, selfClosing := info.selfClosing }

/-- `ExecutionCtx::handle_matched_ids` (selectors_vm/mod.rs:108) with the controller's
`match_handler = |m| handlers_dispatcher.start_matching(&m)` (rewrite_controller.rs:144,114) -/
def startMatchingInfos (d : Dispatcher) : List SelVM.MatchInfo → Except Handlers.Panic Dispatcher
  | [] => .ok d
  | m :: ms =>
    match d.startMatching m.matchId m.withContent with
    | .error e => .error e
    | .ok d' => startMatchingInfos d' ms

/-- common tail of `handle_start_tag` and of the aux-info continuation: the VM has called the match
handler for every matched id and pushed the element iff it has content; `Ok(get_capture_flags())`. -/
def St.afterVm (s : St) (oldDepth : Nat) (vm' : SelVM.Vm) (infos : List SelVM.MatchInfo) :
    St × Except Err Model.Flags :=
  match startMatchingInfos s.disp infos with
  | .error p => (s, .error (dispErr p))
  | .ok d =>
    let descs := if vm'.stack.items.length > oldDepth then s.descs ++ [{ ord := s.ord }] else s.descs
    let s := { s with disp := d, vm := some vm', descs := descs, pending := none }
    (s, .ok s.flags)

/-! ## The controller callbacks -/

/-- `handle_start_tag` (rewrite_controller.rs:137), the body -/
def startTagCore (s : St) (name : LocalName) (ns : Model.Ns) : St × StartTagRes :=
  match s.vm with
  | none => (s, .flags s.flags)
  | some vm =>
    match vm.execForStartTag (nameBytes name) (nsConv ns) with
    | .error p => (s, .err (vmErr p))
    | .ok (.done vm' infos) =>
      let r := s.afterVm vm.stack.items.length vm' infos
      match r.2 with
      | .ok f => (r.1, .flags f)
      | .error e => (r.1, .err e)
    | .ok (.infoRequest vm' req) => ({ s with vm := some vm', pending := some req }, .infoRequest)

/-- `handle_start_tag`: a new start-tag event (ghost ordinal), unless a fault is pending -/
def startTag (s : St) (name : LocalName) (ns : Model.Ns) : St × StartTagRes :=
  match s.fault with
  | some m => (s, .err (.panic m))
  | none => startTagCore { s with ord := s.ord + 1 } name ns

/-- the closure built by `respond_to_aux_info_request` (rewrite_controller.rs:106) -/
def auxInfo (s : St) (info : AuxInfo) : St × Except Err Model.Flags :=
  match s.vm, s.pending with
  | some vm, some req =>
    match auxConv info with
    | none => (s, .error (.panic "Bytes::slice out of range (attribute matcher)"))
    | some aux =>
      match req.resume vm aux with
      | .error p => (s, .error (vmErr p))
      | .ok (vm', infos) => s.afterVm vm.stack.items.length vm' infos
  | _, _ => (s, .error (.internal "vm req without vm"))

/-- the closure calls of `pop_up_to` (stack.rs:301-313): `stop_matching` for every drained item, in
drain order, each with the descriptor the controller attached to it -/
def stopMatchingPopped (d : Dispatcher) :
    List SelVM.StackItem → List Desc → Except Handlers.Panic Dispatcher
  | it :: its, de :: des =>
    match d.stopMatching { matched := it.matchedIds, endTagHandlerIdx := de.endTagHandlerIdx,
                           removeContent := de.removeContent } with
    | .error e => .error e
    | .ok d' => stopMatchingPopped d' its des
  | _, _ => .ok d

/-- `handle_end_tag` (rewrite_controller.rs:160) -/
def endTag (s : St) (name : LocalName) : St × Model.Flags :=
  match s.vm with
  | none => (s, s.flags)
  | some vm =>
    match vm.execForEndTag (nameBytes name) with
    | .error _ => let s := { s with fault := some vmMsg }; (s, s.flags)
    | .ok (vm', popped) =>
      if popped.length ≤ s.descs.length then
        let keep := s.descs.length - popped.length
        match stopMatchingPopped s.disp popped (s.descs.drop keep) with
        | .error _ => let s := { s with fault := some dispMsg }; (s, s.flags)
        | .ok d =>
          let s := { s with disp := d, vm := some vm', descs := s.descs.take keep }
          (s, s.flags)
      else
        let s := { s with fault := some syncMsg }
        (s, s.flags)

/-- `should_emit_content` (rewrite_controller.rs:189) -/
def shouldEmit (s : St) : Bool := !decide (0 < s.disp.removedContent)

/-! ### `handle_token` -/

/-- run the active closures of one kind, in the order the `HandlerVec` yields them, on a unit of
type `τ`: look up the script of this invocation, log what the closure sees, apply its calls, count
the invocation; stop at the first closure that returns `Err`. Returns the unit, the state and
whether a closure failed. -/
def runClosures {τ ω : Type} (scripts : HId → Scripts ω) (kind : Nat) (who : HId → Who)
    (see : τ → Seen) (apply : τ → List ω → τ) (src : Range) :
    List HId → St → τ → St × τ × Bool
  | [], s, u => (s, u, false)
  | h :: hs, s, u =>
    let sc := cyc (scripts h) (invGet s.inv (kind, h))
    let s := { s with inv := invBump s.inv (kind, h), log := ⟨who h, src, see u⟩ :: s.log }
    let u := apply u sc.1
    if sc.2 then (s, u, true) else runClosures scripts kind who see apply src hs s u

def seeComment (c : Comment) : Seen := .comment c.text c.mutations.removed
def seeText (c : TextChunk) : Seen := .text c.text c.lastInTextNode c.mutations.removed
def seeEndTag (t : EndTag) : Seen := .endTag t.name t.mutations.removed
def seeElement (ns : Model.Ns) (e : Element) : Seen :=
  .element e.startTag.name ns (e.startTag.attributes.map fun a => (a.name, a.value))
    e.startTag.selfClosing e.canHaveContent e.startTag.mutations.removed

/-- the result of `handle_token` + `into_bytes`: one chunk (the dispatcher drops it when empty) -/
def outOf (failed : Bool) (bytes : Bytes) : TokenOut :=
  if failed then { chunks := [], err := some .handler } else { chunks := [bytes] }

/-- `Token::Doctype` arm (handlers_dispatcher.rs:294) -/
def tokDoctype (cfg : Cfg) (s : St) (name publicId systemId : Option Bytes) (raw : Bytes) (src : Range) :
    St × TokenOut :=
  let r := runClosures cfg.doctypeScripts kDoctype Who.doctype
    (fun _ => Seen.doctype (name.map asciiLowerBytes) publicId systemId) Doctype.applyOps src
    s.disp.doctype.forEachActive s ({ raw := raw } : Doctype)
  (r.1, outOf r.2.2 r.2.1.intoBytes)

/-- `Token::Comment` arm (handlers_dispatcher.rs:300) -/
def tokComment (cfg : Cfg) (s : St) (text raw : Bytes) (src : Range) : St × TokenOut :=
  let r := runClosures cfg.commentScripts kComment Who.comment seeComment Comment.applyOps src
    s.disp.comment.forEachActive s ({ text := text, raw := raw } : Comment)
  (r.1, outOf r.2.2 (r.2.1.intoBytes encUtf8))

/-- `Token::TextChunk` arm (handlers_dispatcher.rs:299) -/
def tokText (cfg : Cfg) (s : St) (bytes : Bytes) (last : Bool) (src : Range) : St × TokenOut :=
  let r := runClosures cfg.textScripts kText Who.text seeText TextChunk.applyOps src
    s.disp.text.forEachActive s ({ text := bytes, lastInTextNode := last } : TextChunk)
  (r.1, outOf r.2.2 (r.2.1.intoBytes encUtf8))

/-- the user closures of one combined end-tag handler, each logged with what it sees -/
def runEndTagUser (src : Range) : List (HId × Nat) → List (List EndTagOp) → St → EndTag → St × EndTag
  | sub :: subs, ops :: user, s, t =>
    let s := { s with log := ⟨.endTag sub.1 sub.2, src, seeEndTag t⟩ :: s.log }
    runEndTagUser src subs user s (t.applyOps ops)
  | [], ops :: user, s, t => runEndTagUser src [] user s (t.applyOps ops)
  | _, [], s, t => (s, t)

/-- `EndTagHandler.run` (element.rs:708-720) with the log of the user closures -/
def runEndTagHandler (src : Range) (subs : List (HId × Nat)) (h : EndTagHandler) (s : St) (t : EndTag) :
    St × EndTag :=
  let t := match h.modifiedName with
    | some n => t.setNameRaw n
    | none => t
  let t := match h.mutations with
    | some m => { t with mutations := m }
    | none => t
  runEndTagUser src subs h.user s t

/-- the handlers `do_for_each_active_and_remove_tail` calls, in its order; a handler whose payload is
missing would be a bug of this glue (`none`) -/
def runEndTagHandlers (src : Range) : List EndTagH → St → EndTag → Option (St × EndTag)
  | [], s, t => some (s, t)
  | h :: hs, s, t =>
    match s.payloads.find? (fun p => p.ord == h.ord) with
    | none => none
    | some p =>
      let r := runEndTagHandler src h.subs p.handler s t
      runEndTagHandlers src hs r.1 r.2

/-- `Token::EndTag` arm (handlers_dispatcher.rs:296-298) -/
def tokEndTag (s : St) (name raw : Bytes) (src : Range) : St × TokenOut :=
  match s.disp.endTag.doForEachActiveAndRemoveTail with
  | .error p => (s, { chunks := [], err := some (dispErr p) })
  | .ok (et, hs) =>
    let s := { s with disp := { s.disp with endTag := et } }
    match runEndTagHandlers src hs s ({ name := name, raw := raw } : EndTag) with
    | none => (s, { chunks := [], err := some (.panic "end-tag handler payload missing") })
    | some (s, t) =>
      let s := { s with payloads := s.payloads.filter fun p => !hs.any fun h => h.ord == p.ord }
      (s, { chunks := [t.intoBytes encUtf8] })

/-- what one element-handler invocation with these API calls does to the dispatch state
(`Handlers.ElemAct`), for an element that can / cannot have content -/
def opAct (chc : Bool) : ElementOp → ElemAct
  | .after _ => ⟨0, false, chc⟩
  | .append _ => ⟨0, false, chc⟩
  | .setInnerContent _ => ⟨0, chc, false⟩
  | .replace _ => ⟨0, chc, chc⟩
  | .remove => ⟨0, chc, chc⟩
  | .removeAndKeepContent => ⟨0, false, chc⟩
  | .setTagName n => ⟨0, false, chc && (tagNameBytesFromStr n).isSome⟩
  | .onEndTag _ => ⟨if chc then 1 else 0, false, false⟩
  | _ => ⟨0, false, false⟩

def elemActOf (chc : Bool) (ops : List ElementOp) : ElemAct :=
  ops.foldl (fun a op =>
    let b := opAct chc op
    ⟨a.onEndTag + b.onEndTag, a.removeContent || b.removeContent, a.endTagMutation || b.endTagMutation⟩)
    ⟨0, false, false⟩

/-- materialised attribute ↦ `EditModel.Attribute`: the raw text is the slice `raw_range` of the
input (attributes.rs:287-300); `off` is the offset of the token's raw bytes in the input slice -/
def attrConv (raw : Bytes) (off : Nat) (a : Bytes × Bytes × AttrOutline) : Option Attribute :=
  let r := a.2.2.raw
  if off ≤ r.start ∧ r.start ≤ r.end ∧ r.end - off ≤ raw.length then
    some { name := a.1, value := a.2.1, raw := some (slice raw (r.start - off) (r.end - off)) }
  else none

def nsEdit : Model.Ns → EditModel.Ns
  | .html => .html
  | _ => .foreign

/-- `current_element_data_mut` (stack.rs:330) seen as an `ElementDescriptor` -/
def St.currentElementData (s : St) : Option ElementDescriptor :=
  match s.vm with
  | none => none
  | some vm =>
    match vm.stack.items.getLast?, s.descs.getLast? with
    | some it, some de =>
      some { matched := it.matchedIds, endTagHandlerIdx := de.endTagHandlerIdx,
             removeContent := de.removeContent }
    | _, _ => none

/-- write back through the `&mut ElementDescriptor` -/
def writeBack (descs : List Desc) : Option ElementDescriptor → List Desc
  | some d =>
    match descs.getLast? with
    | some top => descs.dropLast ++ [{ top with endTagHandlerIdx := d.endTagHandlerIdx, removeContent := d.removeContent }]
    | none => descs
  | none => descs

/-- `Token::StartTag` arm = `ContentHandlersDispatcher::handle_start_tag` (handlers_dispatcher.rs:257).
The element handlers run first (scripts on `EditModel.Element`); the dispatcher bookkeeping is
`Handlers.Dispatcher.handleStartTag` fed with the `ElemAct`s of exactly these invocations. -/
def tokStartTag (cfg : Cfg) (s : St) (name : Bytes) (attrs : List (Bytes × Bytes × AttrOutline))
    (ns : Model.Ns) (sc : Bool) (raw : Bytes) (src : Range) (base : Nat) : St × TokenOut :=
  if base ≤ src.start then
    match attrs.mapM (attrConv raw (src.start - base)) with
    | none => (s, { chunks := [], err := some (.panic "Bytes::slice out of range (attribute raw)") })
    | some as =>
      let st : StartTag := { name := name, attributes := as, ns := nsEdit ns, selfClosing := sc, raw := raw }
      -- handlers_dispatcher.rs:262
      let st := if 0 < s.disp.removedContent then st.apply (.mut .remove) else st
      let chc := s.disp.nextElementCanHaveContent
      let active := s.disp.element.forEachActive
      let inv0 := s.inv
      let r := runClosures cfg.elementScripts kElement Who.element (seeElement ns) Element.applyOps src
        active s (Element.new st chc)
      let s1 := r.1
      let el := r.2.1
      if r.2.2 then (s1, { chunks := [], err := some .handler }) else
      let script : ElemScript := fun h _ => elemActOf chc (cyc (cfg.elementScripts h) (invGet inv0 (kElement, h))).1
      match s1.disp.handleStartTag script s1.ord s1.currentElementData with
      | .error p => (s1, { chunks := [], err := some (dispErr p) })
      | .ok (d, desc, _) =>
        let payloads :=
          if d.endTag.items.length > s1.disp.endTag.items.length then
            match el.intoEndTagHandler with
            | some h => s1.payloads ++ [⟨s1.ord, h⟩]
            | none => s1.payloads
          else s1.payloads
        let s2 := { s1 with disp := d, descs := writeBack s1.descs desc, payloads := payloads }
        (s2, { chunks := [el.startTag.intoBytes encUtf8] })
  else (s, { chunks := [], err := some (.panic "token source range before the slice base") })

/-- `handle_token` (rewrite_controller.rs:171) followed by `Token::into_bytes` -/
def token (cfg : Cfg) (s : St) (t : Model.Token) : St × TokenOut :=
  match s.fault with
  | some m => (s, { chunks := [], err := some (.panic m) })
  | none =>
  match t with
  | .startTag name attrs ns sc raw src base => tokStartTag cfg s name attrs ns sc raw src base
  | .endTag name raw src => tokEndTag s name raw src
  | .comment text raw src => tokComment cfg s text raw src
  | .doctype name publicId systemId _ raw src => tokDoctype cfg s name publicId systemId raw src
  | .text bytes _ last src => tokText cfg s bytes last src

/-- the `end` closures: every `DocumentEnd::append` goes straight to the sink through
`StreamingHandlerSink::write_str` (document_end.rs:48), which writes nothing for an empty string -/
def runEndClosures (cfg : Cfg) : List HId → St → List Bytes → St × List Bytes × Bool
  | [], s, out => (s, out, false)
  | h :: hs, s, out =>
    let sc := cyc (cfg.endScripts h) (invGet s.inv (kEnd, h))
    let s := { s with inv := invBump s.inv (kEnd, h), log := ⟨.end_ h, ⟨0, 0⟩, .docEnd⟩ :: s.log }
    let out := out ++ (sc.1.map fun c => encUtf8 c.2 c.1).filter fun b => !b.isEmpty
    if sc.2 then (s, out, true) else runEndClosures cfg hs s out

/-- `handle_end` (rewrite_controller.rs:182) -/
def handleEnd (cfg : Cfg) (s : St) : St × List Bytes × Option Err :=
  match s.fault with
  | some m => (s, [], some (.panic m))
  | none =>
  match s.disp.end_.doForEachActiveAndRemoveTail with
  | .error p => (s, [], some (dispErr p))
  | .ok (en, hs) =>
    let r := runEndClosures cfg hs { s with disp := { s.disp with end_ := en } } []
    (r.1, r.2.1, if r.2.2 then some .handler else none)

/-- **The real controller** as an instance of the dispatcher model's `Controller`. -/
def rawCtl (cfg : Cfg) : Controller St :=
  { initialFlags := St.flags
    startTag := startTag
    auxInfo := auxInfo
    endTag := endTag
    token := token cfg
    shouldEmit := shouldEmit
    handleEnd := handleEnd cfg
    -- no bail-out handlers are registered (rewrite_controller.rs:195: the loop is empty)
    bailOut := fun s _ => (s, []) }

end LolHtml.Model.Full
