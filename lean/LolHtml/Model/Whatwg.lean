/-
The decoder state machines of the WHATWG Encoding Standard for the legacy multi-byte encodings lol-html
accepts (EUC-KR §11.1, Big5 §12.1, Shift_JIS §13.3, EUC-JP §13.1, gb18030/GBK §10.2/§10.1), as `Codec`s
that are PARAMETRIC in the index data (`idx : pointer → Option scalar`) and in the encoder direction
(`enc`).  `Thm/C13_Whatwg.lean` proves `Codec.Lawful` for every `idx` / `enc`, so the streaming behaviour
of these decoders is proved, and only the index data is assumed of encoding_rs.

Error handling follows the standard: an error emits U+FFFD; "restore byte" of an ASCII byte is the
`consumed = false` micro-step of `Model/Codec.lean` (the byte is looked at again in the neutral state);
gb18030's "restore « second, third, byte »" re-plays the two bytes it had already taken (an ASCII digit,
which is emitted, and a new first byte) inside the same micro-step and leaves `byte` unread.
-/
import LolHtml.Model.Codec
import LolHtml.Model.Codecs

namespace LolHtml.Enc.Whatwg

def inR (lo hi b : UInt8) : Bool := lo ≤ b && b ≤ hi
def asciiChar (b : UInt8) : Char := Char.ofNat b.toNat

/-- encoder direction: ASCII is itself; otherwise what `enc` says if it is 1 to 4 bytes long -/
def sanEnc (enc : Char → Option Bytes) (ch : Char) : Option Bytes :=
  if ch.toNat < 128 then some [UInt8.ofNat ch.toNat]
  else match enc ch with
    | some bs => if 1 ≤ bs.length ∧ bs.length ≤ 4 then some bs else none
    | none => none

/-- "if code point is non-null return it; if byte is an ASCII byte restore it; return error" -/
def finish {σ : Type} (neutral : σ) (cp : Option (List Char)) (b : UInt8) : Step σ :=
  match cp with
  | some cs => ⟨neutral, cs, true⟩
  | none => if b < 128 then ⟨neutral, [replacement], false⟩ else ⟨neutral, [replacement], true⟩

/-! ### EUC-KR (§11.1.1) -/

def eucKrStep (idx : Nat → Option Char) : Option UInt8 → UInt8 → Step (Option UInt8)
  | none, b =>
    if b < 128 then ⟨none, [asciiChar b], true⟩
    else if inR 0x81 0xFE b then ⟨some b, [], true⟩
    else ⟨none, [replacement], true⟩
  | some lead, b =>
    let cp : Option Char :=
      if inR 0x41 0xFE b then idx ((lead.toNat - 0x81) * 190 + (b.toNat - 0x41)) else none
    finish none (cp.map fun c => [c]) b

def eucKr (idx : Nat → Option Char) (enc : Char → Option Bytes) : Codec where
  σ := Option UInt8
  init := none
  decStep := eucKrStep idx
  decFlush := fun s => match s with | none => [] | some _ => [replacement]
  encChar := sanEnc enc

/-! ### Big5 (§12.1.1) -/

/-- the four pointers that decode to two scalar values -/
def big5Pair (ptr : Nat) : Option (List Char) :=
  if ptr = 1133 then some [Char.ofNat 0xCA, Char.ofNat 0x304]
  else if ptr = 1135 then some [Char.ofNat 0xCA, Char.ofNat 0x30C]
  else if ptr = 1164 then some [Char.ofNat 0xEA, Char.ofNat 0x304]
  else if ptr = 1166 then some [Char.ofNat 0xEA, Char.ofNat 0x30C]
  else none

/-- pointer of a lead/trail pair -/
def big5Ptr (lead b : UInt8) : Nat :=
  (lead.toNat - 0x81) * 157 + (b.toNat - (if b < 0x7F then 0x40 else 0x62))

def big5Lookup (idx : Nat → Option Char) (ptr : Nat) : Option (List Char) :=
  match big5Pair ptr with
  | some two => some two
  | none => (idx ptr).map fun c => [c]

def big5Step (idx : Nat → Option Char) : Option UInt8 → UInt8 → Step (Option UInt8)
  | none, b =>
    if b < 128 then ⟨none, [asciiChar b], true⟩
    else if inR 0x81 0xFE b then ⟨some b, [], true⟩
    else ⟨none, [replacement], true⟩
  | some lead, b =>
    let cp : Option (List Char) :=
      if inR 0x40 0x7E b || inR 0xA1 0xFE b then big5Lookup idx (big5Ptr lead b) else none
    finish none cp b

def big5 (idx : Nat → Option Char) (enc : Char → Option Bytes) : Codec where
  σ := Option UInt8
  init := none
  decStep := big5Step idx
  decFlush := fun s => match s with | none => [] | some _ => [replacement]
  encChar := sanEnc enc

/-! ### Shift_JIS (§13.3.1) -/

def shiftJisStep (idx : Nat → Option Char) : Option UInt8 → UInt8 → Step (Option UInt8)
  | none, b =>
    if b < 128 || b == 0x80 then ⟨none, [asciiChar b], true⟩
    else if inR 0xA1 0xDF b then ⟨none, [Char.ofNat (0xFF61 - 0xA1 + b.toNat)], true⟩
    else if inR 0x81 0x9F b || inR 0xE0 0xFC b then ⟨some b, [], true⟩
    else ⟨none, [replacement], true⟩
  | some lead, b =>
    let cp : Option Char :=
      if inR 0x40 0x7E b || inR 0x80 0xFC b then
        let ptr := (lead.toNat - (if lead < 0xA0 then 0x81 else 0xC1)) * 188
                    + (b.toNat - (if b < 0x7F then 0x40 else 0x41))
        if 8836 ≤ ptr ∧ ptr ≤ 10715 then some (Char.ofNat (0xE000 - 8836 + ptr)) else idx ptr
      else none
    finish none (cp.map fun c => [c]) b

def shiftJis (idx : Nat → Option Char) (enc : Char → Option Bytes) : Codec where
  σ := Option UInt8
  init := none
  decStep := shiftJisStep idx
  decFlush := fun s => match s with | none => [] | some _ => [replacement]
  encChar := sanEnc enc

/-! ### EUC-JP (§13.1.1) -/

inductive EucJpSt
  | neutral
  /-- EUC-JP lead is set, jis0212 flag unset -/
  | lead (l : UInt8)
  /-- after 0x8F and a byte in A1..FE: jis0212 flag set, lead = that byte -/
  | lead0212 (l : UInt8)
  deriving DecidableEq, Repr

def eucJpStep (idx0208 idx0212 : Nat → Option Char) : EucJpSt → UInt8 → Step EucJpSt
  | .neutral, b =>
    if b < 128 then ⟨.neutral, [asciiChar b], true⟩
    else if b == 0x8E || b == 0x8F || inR 0xA1 0xFE b then ⟨.lead b, [], true⟩
    else ⟨.neutral, [replacement], true⟩
  | .lead l, b =>
    if l == 0x8E && inR 0xA1 0xDF b then ⟨.neutral, [Char.ofNat (0xFF61 - 0xA1 + b.toNat)], true⟩
    else if l == 0x8F && inR 0xA1 0xFE b then ⟨.lead0212 b, [], true⟩
    else
      let cp : Option Char :=
        if inR 0xA1 0xFE l && inR 0xA1 0xFE b then idx0208 ((l.toNat - 0xA1) * 94 + (b.toNat - 0xA1))
        else none
      finish .neutral (cp.map fun c => [c]) b
  | .lead0212 l, b =>
    let cp : Option Char :=
      if inR 0xA1 0xFE l && inR 0xA1 0xFE b then idx0212 ((l.toNat - 0xA1) * 94 + (b.toNat - 0xA1))
      else none
    finish .neutral (cp.map fun c => [c]) b

def eucJp (idx0208 idx0212 : Nat → Option Char) (enc : Char → Option Bytes) : Codec where
  σ := EucJpSt
  init := .neutral
  decStep := eucJpStep idx0208 idx0212
  decFlush := fun s => match s with | .neutral => [] | _ => [replacement]
  encChar := sanEnc enc

/-! ### gb18030 / GBK (§10.2.1; GBK's decoder is gb18030's) -/

inductive GbSt
  | neutral
  | first (f : UInt8)
  /-- `second` is an ASCII digit 0x30 + d -/
  | second (f : UInt8) (d : Fin 10)
  | third (f : UInt8) (d : Fin 10) (t : UInt8)
  deriving DecidableEq, Repr

def digitChar (d : Fin 10) : Char := Char.ofNat (0x30 + d.val)

/-- `b` as a digit 0x30..0x39 -/
def asDigit (b : UInt8) : Option (Fin 10) :=
  if h : 0x30 ≤ b.toNat ∧ b.toNat ≤ 0x39 then some ⟨b.toNat - 0x30, by omega⟩ else none

def gbStep (idx2 idx4 : Nat → Option Char) : GbSt → UInt8 → Step GbSt
  | .neutral, b =>
    if b < 128 then ⟨.neutral, [asciiChar b], true⟩
    else if b == 0x80 then ⟨.neutral, [Char.ofNat 0x20AC], true⟩
    else if inR 0x81 0xFE b then ⟨.first b, [], true⟩
    else ⟨.neutral, [replacement], true⟩
  | .first f, b =>
    match asDigit b with
    | some d => ⟨.second f d, [], true⟩
    | none =>
      let cp : Option Char :=
        if inR 0x40 0x7E b || inR 0x80 0xFE b then
          idx2 ((f.toNat - 0x81) * 190 + (b.toNat - (if b < 0x7F then 0x40 else 0x41)))
        else none
      -- a failed lookup with an ASCII trail: U+FFFD, then the trail byte as itself (restored and
      -- re-read in the neutral state; merged into this step so that `first` never unreads)
      match cp with
      | some c => ⟨.neutral, [c], true⟩
      | none =>
        if b < 128 then ⟨.neutral, [replacement, asciiChar b], true⟩
        else ⟨.neutral, [replacement], true⟩
  | .second f d, b =>
    if inR 0x81 0xFE b then ⟨.third f d b, [], true⟩
    -- restore « second, byte »: the digit is emitted, the byte is looked at again in the neutral state
    else ⟨.neutral, [replacement, digitChar d], false⟩
  | .third f d t, b =>
    match asDigit b with
    | some d2 =>
      match idx4 ((f.toNat - 0x81) * 12600 + d.val * 1260 + (t.toNat - 0x81) * 10 + d2.val) with
      | some c => ⟨.neutral, [c], true⟩
      | none => ⟨.neutral, [replacement], true⟩
    -- restore « second, third, byte »: the digit is emitted, `third` becomes the new first byte, the
    -- byte is looked at again
    | none => ⟨.first t, [replacement, digitChar d], false⟩

def gb18030 (idx2 idx4 : Nat → Option Char) (enc : Char → Option Bytes) : Codec where
  σ := GbSt
  init := .neutral
  decStep := gbStep idx2 idx4
  decFlush := fun s => match s with | .neutral => [] | _ => [replacement]
  encChar := sanEnc enc

/-! ### number of input bytes a state holds back -/

def pendingOpt : Option UInt8 → Nat
  | none => 0
  | some _ => 1

def EucJpSt.pending : EucJpSt → Nat
  | .neutral => 0
  | .lead _ => 1
  | .lead0212 _ => 2

def GbSt.pending : GbSt → Nat
  | .neutral => 0
  | .first _ => 1
  | .second _ _ => 2
  | .third _ _ _ => 3

end LolHtml.Enc.Whatwg
