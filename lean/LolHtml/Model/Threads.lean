/-
Thread interleavings for property C18 (determinism / isolation "also across threads").

A *world* is what a process using lol-html consists of, as far as isolation is concerned:
  * one value per *global item* of the two crates — the items are the REGENERATED list `Gen.Globals`
    (`translate/globals2lean.py` scans every `static`, `static mut`, `thread_local!`, `lazy_static!` of
    `/repo/src` and `/repo/c-api/src` on every check);
  * the rewriter instances (`HtmlRewriter` values / `lol_html_rewriter_t` boxes), each with an owner thread;
  * one `LAST_ERROR` slot per thread (`c-api/src/errors.rs:4`, same representation as `CApi.Env.lastErr`).
A *schedule* is an arbitrary list of events `(thread, op, adv)`: the interleaving, at the granularity of API
calls, of everything all threads do.  `adv` is the adversary: after the call, every global item whose kind is
*mutable and shared* (`interior`, `static_mut`, `lazy`, anything unknown) is overwritten by an arbitrary function
of the store, and so is the executing thread's copy of every `thread_local!` item other than `LAST_ERROR`.
Immutable items never change.  The code of one call is a parameter `Sys.step` that may READ the calling thread's
view of all global items; it cannot name another instance or another thread's slot (that is what "instance" and
"thread-local" mean in Rust; a `static` is the only way around it, and those are all in the list).

`LAST_ERROR` is the one item treated specially: it is represented by `World.lastErr`, which a rewriter call can only
*record* into (`save_last_error`, errors.rs:19 — the C-API model `CApi.topStep` never reads `lastErr` outside
`takeLastError`) and which `lol_html_take_last_error` reads and clears for the calling thread.

Nothing here is specific to the side-condition "no mutable shared item": the model runs for any item list
(`Thm/C18_Threads.lean` shows the projection theorem FAILS for a list with one `interior` counter).
-/
import LolHtml.Gen.Globals
import LolHtml.Model.CApi

namespace LolHtml.Model.Threads
open LolHtml.Model.CApi (Tid ErrMsg)

/-! ## Global items -/

/-- One entry of the regenerated list: kind, name, and whether it lives in the C-API crate. -/
structure Item where
  kind : String
  name : String
  capi : Bool
  deriving DecidableEq, Repr

/-- How an item behaves under concurrency. -/
inductive Class
  | immutable     -- plain `static X: T` without interior mutability: never changes
  | lastError     -- `thread_local! LAST_ERROR` of the C API: `World.lastErr`
  | threadLocal   -- any other `thread_local!`: one adversarially mutable copy per thread
  | shared        -- `static mut`, `Mutex`/`Atomic*`/`OnceLock`/`Lazy` statics, `lazy_static!`, unknown kinds
  deriving DecidableEq, Repr

def classify (x : Item) : Class :=
  if x.kind == "immutable" then .immutable
  else if x.kind == "thread_local" then
    (if x.capi && x.name == "LAST_ERROR" then .lastError else .threadLocal)
  else .shared

/-- The regenerated list of both crates. -/
def sourceItems : List Item :=
  (Gen.Globals.core.map fun x => ⟨x.1, x.2.1, false⟩) ++ (Gen.Globals.capi.map fun x => ⟨x.1, x.2.1, true⟩)

/-- Class of item number `j` (indices past the end name nothing: constant). -/
def classAt (items : List Item) (j : Nat) : Class :=
  match items[j]? with
  | some x => classify x
  | none => .immutable

/-- THE side-condition: every item is immutable or is the C API's thread-local `LAST_ERROR`. -/
def noSharedMutable (items : List Item) : Bool :=
  items.all fun x => classify x == .immutable || classify x == .lastError

/-! ## The system run by the threads -/

/-- Calls on one rewriter instance. -/
inductive IOp (κ χ : Type)
  | create (cfg : κ)     -- `HtmlRewriter::new` / `lol_html_rewriter_build`
  | write (chunk : χ)    -- `write` / `lol_html_rewriter_write`
  | end_                 -- `end` / `lol_html_rewriter_end`
  | free                 -- drop / `lol_html_rewriter_free`
  deriving DecidableEq, Repr

def IOp.isCreate {κ χ : Type} : IOp κ χ → Bool
  | .create _ => true
  | _ => false

/-- The sequential semantics of the library, as a parameter. `Call` is the type of calls on one instance
    (`IOp` for the Rust API; the entry points of `lol_html.h` for the C API). `step` is one call on one instance slot
    (`none` = no such instance / freed); it reads the caller's view `g` of the global items and yields the new
    slot, what the caller observes (output chunks, handler events, result or error) and the error it records in
    `LAST_ERROR`, if any. -/
structure Sys where
  V : Type
  St : Type
  Call : Type
  Obs : Type
  /-- calls that make a new instance (the calling thread becomes its owner) -/
  isCreate : Call → Bool
  /-- initial (and, for immutable items, permanent) value of item `j` -/
  g0 : Nat → V
  step : (Nat → V) → Option St → Call → Option St × Obs × Option ErrMsg
  /-- `str::parse::<Selector>` / `lol_html_selector_parse`: instance-free call -/
  parseSel : (Nat → V) → Bytes → Obs × Option ErrMsg

inductive Op (κ : Type)
  | inst (i : Nat) (o : κ)           -- a call on instance `i`
  | migrate (i : Nat) (to : Tid)     -- `Send`: instance `i` is moved to thread `to`
  | takeLastError                    -- `lol_html_take_last_error`
  | parseSelector (s : Bytes)
  deriving DecidableEq, Repr

/-- One step of a schedule. `adv` = what this call, or anything else in the process, does to the mutable
    global items before the next call. -/
structure Event (S : Sys) where
  tid : Tid
  op : Op S.Call
  adv : (Nat → S.V) → (Nat → S.V)

/-- Results of the instance-free calls of a thread. -/
inductive TObs (ω : Type)
  | taken (m : Option ErrMsg)
  | parsed (o : ω)
  deriving DecidableEq, Repr

structure World (S : Sys) where
  shared : Nat → S.V                 -- process-wide copy of every item
  tlsG : Tid → Nat → S.V             -- per-thread copy of every item (used for `thread_local!` items)
  inst : Nat → Option S.St
  owner : Nat → Option Tid
  obs : Nat → List S.Obs             -- per instance, newest first
  lastErr : Tid → Option ErrMsg      -- `thread_local! LAST_ERROR`
  tobs : Tid → List (TObs S.Obs)     -- per thread, newest first

def World.fresh (S : Sys) : World S :=
  { shared := S.g0, tlsG := fun _ => S.g0, inst := fun _ => none, owner := fun _ => none,
    obs := fun _ => [], lastErr := fun _ => none, tobs := fun _ => [] }

def upd {α : Type} (f : Nat → α) (k : Nat) (v : α) : Nat → α := fun x => if x = k then v else f x

/-- What thread `t` reads when it reads global item `j`. -/
def view {S : Sys} (items : List Item) (w : World S) (t : Tid) : Nat → S.V := fun j =>
  match classAt items j with
  | .immutable => S.g0 j
  | .lastError => S.g0 j          -- not readable by library code other than `take_last_error`
  | .threadLocal => w.tlsG t j
  | .shared => w.shared j

/-- `save_last_error` if the call failed. -/
def record (le : Tid → Option ErrMsg) (t : Tid) : Option ErrMsg → Tid → Option ErrMsg
  | none => le
  | some m => upd le t (some m)

/-- The adversary rewrites the mutable items: shared ones for everybody, thread-local ones for thread `t`. -/
def disturb {S : Sys} (items : List Item) (w : World S) (t : Tid) (adv : (Nat → S.V) → (Nat → S.V)) : World S :=
  { w with
    shared := fun j => if classAt items j = .shared then adv w.shared j else w.shared j
    tlsG := fun t' j => if t' = t ∧ classAt items j = .threadLocal then adv (w.tlsG t) j else w.tlsG t' j }

def newOwner (t : Tid) (old : Option Tid) (isCreate : Bool) : Option Tid :=
  if isCreate then some t else old

/-- The call itself (before the adversary moves). -/
def call {S : Sys} (items : List Item) (w : World S) (t : Tid) : Op S.Call → World S
  | .inst i o =>
    let r := S.step (view items w t) (w.inst i) o
    { w with inst := upd w.inst i r.1, obs := upd w.obs i (r.2.1 :: w.obs i),
             owner := upd w.owner i (newOwner t (w.owner i) (S.isCreate o)), lastErr := record w.lastErr t r.2.2 }
  | .migrate i to => { w with owner := upd w.owner i (some to) }
  | .takeLastError =>
    { w with lastErr := upd w.lastErr t none, tobs := upd w.tobs t (.taken (w.lastErr t) :: w.tobs t) }
  | .parseSelector s =>
    let r := S.parseSel (view items w t) s
    { w with tobs := upd w.tobs t (.parsed r.1 :: w.tobs t), lastErr := record w.lastErr t r.2 }

def exec {S : Sys} (items : List Item) (w : World S) (e : Event S) : World S :=
  disturb items (call items w e.tid e.op) e.tid e.adv

/-- Run a schedule. -/
def run {S : Sys} (items : List Item) (w : World S) (σ : List (Event S)) : World S := σ.foldl (exec items) w

/-! ## Projections of a schedule -/

def Event.instOf {S : Sys} (e : Event S) : Option Nat :=
  match e.op with
  | .inst i _ => some i
  | .migrate i _ => some i
  | _ => none

/-- Does the event concern instance `i`? -/
def Event.touches {S : Sys} (i : Nat) (e : Event S) : Bool := e.instOf == some i

/-- The calls made on instance `i`, without threads, adversary, migrations. -/
def instOps {S : Sys} (i : Nat) : List (Event S) → List S.Call
  | [] => []
  | e :: rest =>
    match e.op with
    | .inst i' o => if i' = i then o :: instOps i rest else instOps i rest
    | _ => instOps i rest

/-- Does thread `t` ever touch instance `i` in `σ`? -/
def usedBy {S : Sys} (t : Tid) (σ : List (Event S)) (i : Nat) : Bool :=
  σ.any fun e => e.tid == t && e.touches i

/-- The sequential prediction: one instance alone, no threads, no globals other than their initial values. -/
def seqStep (S : Sys) (acc : Option S.St × List S.Obs) (o : S.Call) : Option S.St × List S.Obs :=
  let r := S.step S.g0 acc.1 o
  (r.1, r.2.1 :: acc.2)

def seqRun (S : Sys) (ops : List S.Call) : Option S.St × List S.Obs :=
  ops.foldl (seqStep S) (none, [])

/-- Schedules the Rust type system allows (`HtmlRewriter: !Sync`; the `send` flavour is `Send`): every call on
    an instance other than its creation, and every migration, is made by the current owner. The theorems do not
    need this (the C API has no such check); it delimits where call-granularity interleaving is the right
    abstraction of real executions. -/
def wellOwned {S : Sys} (owner : Nat → Option Tid) : List (Event S) → Bool
  | [] => true
  | e :: rest =>
    match e.op with
    | .inst i c =>
      if S.isCreate c then wellOwned (upd owner i (some e.tid)) rest
      else owner i == some e.tid && wellOwned owner rest
    | .migrate i to => owner i == some e.tid && wellOwned (upd owner i (some to)) rest
    | _ => wellOwned owner rest

end LolHtml.Model.Threads
