/-
Model of `src/rewriter/handlers_dispatcher.rs`: `HandlerVec` (per-item and total `user_count`),
`ContentHandlersDispatcher` (`start_matching`, `stop_matching`, `handle_start_tag`, `handle_token`,
`handle_end`, `get_token_capture_flags`).

User handlers are identified by their registration index (`HId`): selector entries are numbered
`0 … n-1` (this is also their `MatchId`), document-level entries `n … n+m-1`. Because there is one
`HandlerVec` per handler kind, `(kind, HId)` identifies a closure. What a handler *does* is
irrelevant for dispatch, except for element handlers, whose effect on the dispatcher state
(`on_end_tag`, `remove`/`set_inner_content`, end-tag mutations) is given by an arbitrary *script*
`ElemScript` (theorems quantify over it).

Every partial operation of the Rust (`debug_assert!`, `-=` on `u32`/`usize`, `Vec::get`) has an explicit
`Panic` branch. Counters are unbounded `Nat` (`u32` overflow of `+= 1` is out of scope).
-/
import LolHtml.Basic

namespace LolHtml.Model.Handlers

/-- Failure sites. -/
inductive Panic
  /-- `handlers_dispatcher.rs:58-61,68-71`: `items.get_mut(locator_to_idx(idx))` is `None`. -/
  | badLocator
  /-- `:72,74`: `item.user_count -= 1` at 0. -/
  | itemUnderflow
  /-- `:73,75,105,123`: `self.user_count -= …` below 0. -/
  | totalUnderflow
  /-- `:128`: `debug_assert_eq!(self.user_count, 0)` after `do_for_each_active_and_remove_tail`. -/
  | tailNotDrained
  /-- `:209-212,234-237`: `locators.get(match_id)` is `None`. -/
  | badMatchId
  /-- `:253`: `matched_elements_with_removed_content -= 1` at 0. -/
  | removedUnderflow
  deriving DecidableEq, Repr

def Panic.tag : Panic → String
  | .badLocator => "badLocator"
  | .itemUnderflow => "itemUnderflow"
  | .totalUnderflow => "totalUnderflow"
  | .tailNotDrained => "tailNotDrained"
  | .badMatchId => "badMatchId"
  | .removedUnderflow => "removedUnderflow"

/-- Checked subtraction (`a -= b` on an unsigned integer). -/
def checkedSub (a b : Nat) (site : Panic) : Except Panic Nat :=
  if b ≤ a then .ok (a - b) else .error site

/-- `Locator = NonZero<u32>` holding index+1 (`:15`); we store the index. `locator_to_idx` (`:17`)
is then the projection. -/
structure Locator where
  idx : Nat
  deriving DecidableEq, Repr

/-- `HandlerVecItem` (`:21`). -/
structure Item (α : Type) where
  handler : α
  userCount : Nat
  deriving DecidableEq, Repr

/-- `HandlerVec` (`:26`). -/
structure HandlerVec (α : Type) where
  items : List (Item α)
  userCount : Nat
  deriving DecidableEq, Repr

namespace HandlerVec
variable {α : Type}

/-- `Default for HandlerVec` (`:31`). -/
def empty : HandlerVec α := { items := [], userCount := 0 }

/-- `HandlerVec::push` (`:42`). The locator is `items.len()` after the push, i.e. index = old length.
(`try_into::<u32>` cannot fail for an unbounded `Nat`.) -/
def push (v : HandlerVec α) (h : α) (alwaysActive : Bool) : HandlerVec α × Option Locator :=
  let c := if alwaysActive then 1 else 0
  ({ items := v.items ++ [{ handler := h, userCount := c }], userCount := v.userCount + c },
   some ⟨v.items.length⟩)

/-- `HandlerVec::inc_user_count` (`:57`). -/
def incUserCount (v : HandlerVec α) (l : Locator) : Except Panic (HandlerVec α) :=
  match v.items[l.idx]? with
  | none => .error .badLocator
  | some it =>
    .ok { items := v.items.set l.idx { it with userCount := it.userCount + 1 },
          userCount := v.userCount + 1 }

/-- `HandlerVec::dec_user_count` (`:67`). -/
def decUserCount (v : HandlerVec α) (l : Locator) : Except Panic (HandlerVec α) :=
  match v.items[l.idx]? with
  | none => .error .badLocator
  | some it =>
    match checkedSub it.userCount 1 .itemUnderflow with
    | .error e => .error e
    | .ok c =>
      match checkedSub v.userCount 1 .totalUnderflow with
      | .error e => .error e
      | .ok t => .ok { items := v.items.set l.idx { it with userCount := c }, userCount := t }

/-- `if let Some(idx) = locator { vec.inc_user_count(idx) }` (`:215-226,248-250`). -/
def incOptional (v : HandlerVec α) : Option Locator → Except Panic (HandlerVec α)
  | some idx => v.incUserCount idx
  | none => .ok v

/-- `if let Some(idx) = locator { vec.dec_user_count(idx) }` (`:239-245`). -/
def decOptional (v : HandlerVec α) : Option Locator → Except Panic (HandlerVec α)
  | some idx => v.decUserCount idx
  | none => .ok v

/-- `HandlerVec::has_active` (`:79`). -/
def hasActive (v : HandlerVec α) : Bool := decide (0 < v.userCount)

/-- `HandlerVec::for_each_active` (`:84`): the handlers invoked, in order. (Handlers never fail here;
handler errors are outside this model.) -/
def forEachActive (v : HandlerVec α) : List α :=
  (v.items.filter fun it => decide (0 < it.userCount)).map (·.handler)

/-- Loop of `do_for_each_active_and_deactivate` (`:102-108`): returns the new items, the new total and
the handlers invoked in order. -/
def deactivateLoop : List (Item α) → Nat → Except Panic (List (Item α) × Nat × List α)
  | [], t => .ok ([], t, [])
  | it :: rest, t =>
    if 0 < it.userCount then
      match checkedSub t it.userCount .totalUnderflow with
      | .error e => .error e
      | .ok t' =>
        match deactivateLoop rest t' with
        | .error e => .error e
        | .ok (rest', t'', inv) => .ok ({ it with userCount := 0 } :: rest', t'', it.handler :: inv)
    else
      match deactivateLoop rest t with
      | .error e => .error e
      | .ok (rest', t'', inv) => .ok (it :: rest', t'', inv)

/-- `HandlerVec::do_for_each_active_and_deactivate` (`:98`). -/
def doForEachActiveAndDeactivate (v : HandlerVec α) : Except Panic (HandlerVec α × List α) :=
  match deactivateLoop v.items v.userCount with
  | .error e => .error e
  | .ok (items, t, inv) => .ok ({ items := items, userCount := t }, inv)

/-- Loop over `self.items.drain(first..).rev()` (`:121-126`): new total and handlers invoked. -/
def drainLoop : List (Item α) → Nat → Except Panic (Nat × List α)
  | [], t => .ok (t, [])
  | it :: rest, t =>
    if 0 < it.userCount then
      match checkedSub t it.userCount .totalUnderflow with
      | .error e => .error e
      | .ok t' =>
        match drainLoop rest t' with
        | .error e => .error e
        | .ok (t'', inv) => .ok (t'', it.handler :: inv)
    else drainLoop rest t

/-- `HandlerVec::do_for_each_active_and_remove_tail` (`:113`). -/
def doForEachActiveAndRemoveTail (v : HandlerVec α) : Except Panic (HandlerVec α × List α) :=
  match v.items.findIdx? (fun it => decide (0 < it.userCount)) with
  | none => if v.userCount = 0 then .ok (v, []) else .error .tailNotDrained
  | some first =>
    match drainLoop (v.items.drop first).reverse v.userCount with
    | .error e => .error e
    | .ok (t, inv) =>
      if t = 0 then .ok ({ items := v.items.take first, userCount := t }, inv)
      else .error .tailNotDrained

end HandlerVec

/-- Registration index of a user handler (see the file header). -/
abbrev HId := Nat

/-- The boxed end-tag handler stored for one element (`Element::into_end_tag_handler`,
`element.rs:697`): the user closures added with `on_end_tag`/`end_tag_handlers()`, in call order, each
identified by (registering element handler, k-th closure of that invocation). The implicit first
closure that applies end-tag mutations is not observable as an invocation and is left out.
`ord` is a ghost field: ordinal of the start-tag event of the element. -/
structure EndTagH where
  ord : Nat
  subs : List (HId × Nat)
  deriving DecidableEq, Repr

/-- `SelectorHandlersLocator` (`:8`). -/
structure SelectorHandlersLocator where
  element : Option Locator
  comment : Option Locator
  text : Option Locator
  deriving DecidableEq, Repr

/-- `ElementDescriptor` (`rewrite_controller.rs:13`). `matched` is the `DenseHashSet`, listed in its
iteration order. -/
structure ElementDescriptor where
  matched : List Nat
  endTagHandlerIdx : Option Locator
  removeContent : Bool
  deriving DecidableEq, Repr

/-- `ElementData::new` (`rewrite_controller.rs:26`), with the match set already filled in by the VM. -/
def ElementDescriptor.new (matched : List Nat) : ElementDescriptor :=
  { matched := matched, endTagHandlerIdx := none, removeContent := false }

/-- `ContentHandlersDispatcher` (`:133`). -/
structure Dispatcher where
  doctype : HandlerVec HId
  comment : HandlerVec HId
  text : HandlerVec HId
  endTag : HandlerVec EndTagH
  element : HandlerVec HId
  end_ : HandlerVec HId
  nextElementCanHaveContent : Bool
  removedContent : Nat
  locators : List SelectorHandlersLocator
  deriving DecidableEq, Repr

/-- Which handlers a selector entry carries (`ElementContentHandlers`, `settings.rs:304`). -/
structure SelReg where
  element : Bool
  comments : Bool
  text : Bool
  deriving DecidableEq, Repr

/-- Which handlers a document-level entry carries (`DocumentContentHandlers`, `settings.rs:367`). -/
structure DocReg where
  doctype : Bool
  comments : Bool
  text : Bool
  end_ : Bool
  deriving DecidableEq, Repr

/-- Kinds of token handlers. -/
inductive Kind | doctype | comment | text | element | end_
  deriving DecidableEq, Repr

/-- One handler invocation: which closure, at which event ordinal. -/
inductive Invocation
  | token (kind : Kind) (h : HId) (ord : Nat)
  /-- end-tag closure `(h, k)` registered at start-tag event `startOrd`, run at event `ord`. -/
  | endTag (h : HId) (k : Nat) (startOrd : Nat) (ord : Nat)
  deriving DecidableEq, Repr

/-- What one element-handler invocation does to the dispatch state. -/
structure ElemAct where
  /-- number of closures pushed with `on_end_tag` / `end_tag_handlers().push` -/
  onEndTag : Nat
  /-- `remove`, `replace`, `set_inner_content` (`should_remove_content`) -/
  removeContent : Bool
  /-- `end_tag_mutations.is_some() || modified_end_tag_name.is_some()` (`after`, `append`, `remove`,
  `set_tag_name`, …) -/
  endTagMutation : Bool
  deriving DecidableEq, Repr

/-- Arbitrary element-handler behaviour: (handler, event ordinal) ↦ action. -/
abbrev ElemScript := HId → Nat → ElemAct

namespace Dispatcher

/-- `Default for ContentHandlersDispatcher` (`:146`). -/
def default : Dispatcher :=
  { doctype := .empty, comment := .empty, text := .empty, endTag := .empty, element := .empty,
    end_ := .empty, nextElementCanHaveContent := false, removedContent := 0, locators := [] }

/-- `add_selector_associated_handlers` (`:183`); the handler id is the match id. -/
def addSelectorAssociatedHandlers (d : Dispatcher) (r : SelReg) : Dispatcher :=
  let id := d.locators.length
  let (el, elLoc) := if r.element then d.element.push id false else (d.element, none)
  let (co, coLoc) := if r.comments then d.comment.push id false else (d.comment, none)
  let (tx, txLoc) := if r.text then d.text.push id false else (d.text, none)
  { d with element := el, comment := co, text := tx,
           locators := d.locators ++ [{ element := elLoc, comment := coLoc, text := txLoc }] }

/-- `add_document_content_handlers` (`:164`); `id` is the registration index of the entry. -/
def addDocumentContentHandlers (d : Dispatcher) (id : HId) (r : DocReg) : Dispatcher :=
  let d := if r.doctype then { d with doctype := (d.doctype.push id true).1 } else d
  let d := if r.comments then { d with comment := (d.comment.push id true).1 } else d
  let d := if r.text then { d with text := (d.text.push id true).1 } else d
  if r.end_ then { d with end_ := (d.end_.push id true).1 } else d

def addDocs (d : Dispatcher) (base : Nat) : List DocReg → Dispatcher
  | [] => d
  | r :: rs => addDocs (d.addDocumentContentHandlers base r) (base + 1) rs

/-- The two loops of `HtmlRewriteController::from_settings` (`rewrite_controller.rs:66-74`),
without `adjust_charset_on_meta_tag`. -/
def fromSettings (sels : List SelReg) (docs : List DocReg) : Dispatcher :=
  (sels.foldl addSelectorAssociatedHandlers default).addDocs sels.length docs

/-- `start_matching` (`:208`). -/
def startMatching (d : Dispatcher) (matchId : Nat) (withContent : Bool) : Except Panic Dispatcher :=
  match d.locators[matchId]? with
  | none => .error .badMatchId
  | some loc =>
    match (if withContent then d.comment.incOptional loc.comment else .ok d.comment) with
    | .error e => .error e
    | .ok co =>
      match (if withContent then d.text.incOptional loc.text else .ok d.text) with
      | .error e => .error e
      | .ok tx =>
        match d.element.incOptional loc.element with
        | .error e => .error e
        | .ok el =>
          .ok { d with comment := co, text := tx, element := el,
                       nextElementCanHaveContent := withContent }

/-- Body of the `for match_id in …` loop of `stop_matching` (`:233-246`). -/
def stopMatchingId (d : Dispatcher) (matchId : Nat) : Except Panic Dispatcher :=
  match d.locators[matchId]? with
  | none => .error .badMatchId
  | some loc =>
    match d.comment.decOptional loc.comment with
    | .error e => .error e
    | .ok co =>
      match d.text.decOptional loc.text with
      | .error e => .error e
      | .ok tx => .ok { d with comment := co, text := tx }

def stopMatchingIds (d : Dispatcher) : List Nat → Except Panic Dispatcher
  | [] => .ok d
  | m :: ms =>
    match d.stopMatchingId m with
    | .error e => .error e
    | .ok d' => stopMatchingIds d' ms

/-- `stop_matching` (`:232`). -/
def stopMatching (d : Dispatcher) (desc : ElementDescriptor) : Except Panic Dispatcher :=
  match d.stopMatchingIds desc.matched with
  | .error e => .error e
  | .ok d1 =>
    match d1.endTag.incOptional desc.endTagHandlerIdx with
    | .error e => .error e
    | .ok et =>
      if desc.removeContent then
        match checkedSub d1.removedContent 1 .removedUnderflow with
        | .error e => .error e
        | .ok r => .ok { d1 with endTag := et, removedContent := r }
      else .ok { d1 with endTag := et }

/-- The user closures registered by the element handlers that ran on one start tag, in call order. -/
def endTagSubs (script : ElemScript) (ord : Nat) (invoked : List HId) : List (HId × Nat) :=
  invoked.flatMap fun h => (List.range (script h ord).onEndTag).map fun k => (h, k)

/-- `handle_start_tag` (`:257`). `cur` is `current_element_data` (top of the VM stack). Returns the
new dispatcher, the updated descriptor and the invocations. -/
def handleStartTag (d : Dispatcher) (script : ElemScript) (ord : Nat)
    (cur : Option ElementDescriptor) :
    Except Panic (Dispatcher × Option ElementDescriptor × List Invocation) :=
  match d.element.doForEachActiveAndDeactivate with
  | .error e => .error e
  | .ok (el, invoked) =>
    let d := { d with element := el }
    let inv := invoked.map fun h => Invocation.token .element h ord
    if d.nextElementCanHaveContent then
      match cur with
      | some desc =>
        -- `element.should_remove_content()` (`:273`)
        let shouldRemove := invoked.any fun h => (script h ord).removeContent
        let desc := if shouldRemove then { desc with removeContent := true } else desc
        let removed := if shouldRemove then d.removedContent + 1 else d.removedContent
        -- `element.into_end_tag_handler()` (`:279`, `element.rs:697`)
        let subs := endTagSubs script ord invoked
        let hasHandler := (invoked.any fun h => (script h ord).endTagMutation) || !subs.isEmpty
        if hasHandler then
          let (et, loc) := d.endTag.push { ord := ord, subs := subs } false
          .ok ({ d with endTag := et, removedContent := removed },
               some { desc with endTagHandlerIdx := loc }, inv)
        else
          .ok ({ d with removedContent := removed }, some desc, inv)
      | none => .ok (d, none, inv)
    else .ok (d, cur, inv)

/-- `handle_token`, `Token::EndTag` arm (`:296-298`). -/
def handleEndTagToken (d : Dispatcher) (ord : Nat) : Except Panic (Dispatcher × List Invocation) :=
  match d.endTag.doForEachActiveAndRemoveTail with
  | .error e => .error e
  | .ok (et, hs) =>
    .ok ({ d with endTag := et },
         hs.flatMap fun h => h.subs.map fun (p : HId × Nat) => Invocation.endTag p.1 p.2 h.ord ord)

/-- `handle_token`, `Doctype` / `TextChunk` / `Comment` arms (`:294,299,300`). -/
def handleDoctype (d : Dispatcher) (ord : Nat) : List Invocation :=
  d.doctype.forEachActive.map fun h => .token .doctype h ord
def handleText (d : Dispatcher) (ord : Nat) : List Invocation :=
  d.text.forEachActive.map fun h => .token .text h ord
def handleComment (d : Dispatcher) (ord : Nat) : List Invocation :=
  d.comment.forEachActive.map fun h => .token .comment h ord

/-- `handle_end` (`:304`). -/
def handleEnd (d : Dispatcher) (ord : Nat) : Except Panic (Dispatcher × List Invocation) :=
  match d.end_.doForEachActiveAndRemoveTail with
  | .error e => .error e
  | .ok (en, hs) => .ok ({ d with end_ := en }, hs.map fun h => .token .end_ h ord)

end Dispatcher

/-- `TokenCaptureFlags` (`rewritable_units/tokens/capturer/mod.rs`). -/
structure Flags where
  text : Bool
  comments : Bool
  nextStartTag : Bool
  nextEndTag : Bool
  doctypes : Bool
  deriving DecidableEq, Repr

/-- `get_token_capture_flags` (`:310`). -/
def Dispatcher.getTokenCaptureFlags (d : Dispatcher) : Flags :=
  { doctypes := d.doctype.hasActive, comments := d.comment.hasActive, text := d.text.hasActive,
    nextEndTag := d.endTag.hasActive, nextStartTag := d.element.hasActive }

end LolHtml.Model.Handlers
