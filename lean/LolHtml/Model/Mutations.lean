/-
Model of `src/rewritable_units/mutations.rs` (pending edits of one token) and of the
`impl_serialize!` macro of `src/rewritable_units/tokens/mod.rs`.

Content strings are byte strings (`Bytes`, the UTF-8 bytes of the Rust `&str`); how a string of a
given `ContentType` becomes output bytes (escaping of text + conversion to the document encoding,
`StreamingHandlerSink::write_str`) is the abstract parameter `enc : Enc`.
-/
import LolHtml.Basic

namespace LolHtml.EditModel

/-- mutations.rs:10 `ContentType`. -/
inductive ContentType
  | html
  | text
deriving DecidableEq, Repr, Inhabited

/-- `StreamingHandlerSink::write_str(content, content_type)` as a function to output bytes. -/
abbrev Enc := ContentType → Bytes → Bytes

/-- mutations.rs:89 `StringChunk`: a buffered string, or a streaming handler, modelled as the
sequence of `sink.write_str` calls it performs. -/
inductive StringChunk
  | buffer (content : Bytes) (ct : ContentType)
  | stream (writes : List (Bytes × ContentType))
deriving DecidableEq, Repr, Inhabited

/-- One chunk through the sink (mutations.rs:134-148, body of the `for`). -/
def StringChunk.encode (enc : Enc) : StringChunk → Bytes
  | .buffer c t => enc t c
  | .stream ws => ws.flatMap fun w => enc w.2 w.1

/-- mutations.rs:108 `DynamicString` = `Vec<StringChunk>`. -/
abbrev DynamicString := List StringChunk

/-- mutations.rs:124 `push_front` = `insert(0, chunk)`. -/
def dsPushFront (d : DynamicString) (c : StringChunk) : DynamicString := c :: d

/-- mutations.rs:129 `push_back` = `push(chunk)`. -/
def dsPushBack (d : DynamicString) (c : StringChunk) : DynamicString := d ++ [c]

/-- mutations.rs:133 `DynamicString::encode`. -/
def encodeDyn (enc : Enc) (d : DynamicString) : Bytes := d.flatMap (StringChunk.encode enc)

/-- mutations.rs:20 `MutationsInner`. -/
structure MutationsInner where
  contentBefore : DynamicString := []
  replacement : DynamicString := []
  contentAfter : DynamicString := []
  removed : Bool := false
deriving DecidableEq, Repr, Inhabited

/-- mutations.rs:36 `remove`. -/
def MutationsInner.remove (m : MutationsInner) : MutationsInner := { m with removed := true }

/-- mutations.rs:29 `replace`: `remove(); replacement.clear(); replacement.push_back(chunk)`. -/
def MutationsInner.replace (m : MutationsInner) (c : StringChunk) : MutationsInner :=
  { m.remove with replacement := dsPushBack [] c }

/-- mutations.rs:41 `Mutations { inner: Option<Box<MutationsInner>> }`. -/
structure Mutations where
  inner : Option MutationsInner := none
deriving DecidableEq, Repr, Inhabited

/-- mutations.rs:63 `mutate()`: the inner record, allocated empty on first use. The caller writes the
updated record back with `Mutations.set`. -/
def Mutations.mutate (m : Mutations) : MutationsInner :=
  match m.inner with
  | some i => i
  | none => {}

def Mutations.set (_m : Mutations) (i : MutationsInner) : Mutations := ⟨some i⟩

/-- mutations.rs:83 `removed()`. -/
def Mutations.removed (m : Mutations) : Bool :=
  match m.inner with
  | some i => i.removed
  | none => false

/-- The four content operations every mutable token offers (`before`, `after`, `replace`, `remove`,
and their `streaming_*` variants, which differ only in the kind of chunk). -/
inductive MutOp
  | before (c : StringChunk)
  | after (c : StringChunk)
  | replace (c : StringChunk)
  | remove
deriving DecidableEq, Repr, Inhabited

/-- start_tag.rs:163-230 / end_tag.rs:88-158 / comment.rs / text_chunk.rs: the bodies are identical:
`before` = `content_before.push_back`, `after` = `content_after.push_front`,
`replace` = `mutate().replace`, `remove` = `mutate().remove`. -/
def Mutations.apply (m : Mutations) : MutOp → Mutations
  | .before c => let i := m.mutate; m.set { i with contentBefore := dsPushBack i.contentBefore c }
  | .after c => let i := m.mutate; m.set { i with contentAfter := dsPushFront i.contentAfter c }
  | .replace c => m.set (m.mutate.replace c)
  | .remove => m.set m.mutate.remove

/-- tokens/mod.rs:16-52 `impl_serialize!`: `self_` is what `serialize_self` writes. -/
def Mutations.serialize (enc : Enc) (m : Mutations) (self_ : Bytes) : Bytes :=
  match m.inner with
  | none => self_
  | some mu =>
    encodeDyn enc mu.contentBefore
      ++ (if !mu.removed then self_ else encodeDyn enc mu.replacement)
      ++ encodeDyn enc mu.contentAfter

/-! ### The concrete sink for UTF-8 documents (used by the lane) -/

/-- html/mod.rs:18 `escape_body_text`: `<`→`&lt;`, `>`→`&gt;`, `&`→`&amp;`. -/
def escapeBodyText : Bytes → Bytes
  | [] => []
  | b :: rest =>
    (if b == 60 then [38, 108, 116, 59]
     else if b == 62 then [38, 103, 116, 59]
     else if b == 38 then [38, 97, 109, 112, 59]
     else [b]) ++ escapeBodyText rest

/-- streaming_sink.rs:49-113 for a UTF-8 document: HTML as is, text escaped. -/
def encUtf8 : Enc
  | .html, s => s
  | .text, s => escapeBodyText s

end LolHtml.EditModel
