import LolHtml.Model.NameHash
/-!
`impl fmt::Debug for LocalNameHash` (src/html/local_name.rs:94-119): decodes the base-32 digits of a
valid hash back into the (lower-case) name. The buffer has 12 slots, so a 13-character name such as
`foreignobject` is printed without its first character.
-/
namespace LolHtml.Model

/-- local_name.rs:105-108 -/
def NameHash.digitChar (d : Nat) : UInt8 := if 6 ≤ d then UInt8.ofNat (d + 91) else UInt8.ofNat (d + 49)

/-- The `loop` of local_name.rs:104-114; `pos` counts down from 11. -/
def NameHash.debugLoop : Nat → Nat → Bytes → Bytes
  | 0, h, acc => NameHash.digitChar (h % 32) :: acc
  | pos + 1, h, acc =>
    let acc' := NameHash.digitChar (h % 32) :: acc
    if h / 32 == 0 then acc' else NameHash.debugLoop pos (h / 32) acc'

/-- Bytes written by `Debug` (`none` = the literal `N/A`). -/
def NameHash.debugBytes (h : Nat) : Option Bytes :=
  if NameHash.isEmpty h then none else some (NameHash.debugLoop 11 h [])

end LolHtml.Model
