/-
Model of `TextDecoder` (/repo/src/rewritable_units/text_decoder.rs): `feed_text` (fast path
`split_utf8_start`, slow path loop around `decode_to_str` into a fixed-size buffer, `really_last`
logic, source-location arithmetic) and `flush_pending`.

The buffer length `DEFAULT_BUFFER_LEN` (text_decoder.rs:6; 1024, 13 under cfg(test)) is the parameter
`cap`; the decoder's choice of where to report `OutputFull` is the parameter `pol`.
-/
import LolHtml.Model.Codec
import LolHtml.Model.Utf8

namespace LolHtml.Enc

/-- An encoding as `TextDecoder` sees it: a codec and whether it `== UTF_8` (text_decoder.rs:163). -/
structure Encoding where
  codec : Codec
  utf8 : Bool

/-- One call of the output handler: `(text, last_in_text_node, source_location)`. -/
structure Chunk where
  text : List Char
  last : Bool
  start : Nat
  stop : Nat
  deriving DecidableEq, Repr

/-- `TextDecoder` state (text_decoder.rs:8-17): `pending_text_streaming_decoder`,
`pending_source_location_bytes_start` (start of the bytes fed but not yet reported in any chunk),
`pending_source_location_bytes_end` (end of the bytes fed so far).
(`text_buffer` has no observable content, `encoding` is fixed per text node.) -/
structure TD (c : Codec) where
  pending : Option c.σ
  pendingStart : Nat
  pendingEnd : Nat

def TD.new (c : Codec) : TD c := ⟨none, 0, 0⟩

/-- the decoder `feed_text` continues with: the pending one, or a new one
(`get_or_insert_with(|| encoding.new_decoder_without_bom_handling())`, text_decoder.rs:84-87) -/
def TD.cur {c : Codec} (td : TD c) : c.σ :=
  match td.pending with
  | some s => s
  | none => c.init

/-- `Encoding::ascii_valid_up_to` -/
def asciiValidUpTo : Bytes → Nat
  | [] => 0
  | b :: bs => if b < 128 then 1 + asciiValidUpTo bs else 0

/-- `split_utf8_start` (text_decoder.rs:153-184): `(utf8_text, utf8_text.len(), rest)` or `none` when
the fast path is not available. -/
def splitUtf8Start (utf8 : Bool) (cap : Nat) (pending : Bool) (raw : Bytes) :
    Option (List Char × Nat × Bytes) :=
  -- :159 Can't use the fast path if the decoder may have buffered some bytes
  if pending then none
  else
    -- :163-168 text_or_len
    let sc := Utf8.scan raw
    if utf8 && sc.fin = .done then some (sc.chars, raw.length, [])      -- :171 Ok(utf8_text)
    else
      let validUpTo := if utf8 then sc.validUpTo else asciiValidUpTo raw
      -- :176
      if validUpTo != raw.length && validUpTo < cap then none
      -- :180 split_at_checked(valid_up_to)?
      else if validUpTo > raw.length then none
      else
        -- :181 from_utf8(text).ok()?
        match Utf8.decodeValid (raw.take validUpTo) with
        | none => none
        | some text => some (text, validUpTo, raw.drop validUpTo)

/-- The slow-path `loop` of `feed_text` (text_decoder.rs:102-140). `pos` =
`next_source_location_bytes_start`, `unrep` = `unreported_bytes_start`. Returns the decoder state, the
final `next_source_location_bytes_start`, the final `unreported_bytes_start` and the handler calls;
`none` = fuel exhausted (`feedLoop_total`: never, for a lawful codec and `cap ≥ 4`). -/
def feedLoop (c : Codec) (pol : Policy c) (cap : Nat) (last : Bool) :
    Nat → c.σ → Bytes → Nat → Nat → Option (c.σ × Nat × Nat × List Chunk)
  | 0, _, _, _, _ => none
  | fuel + 1, s, raw, pos, unrep =>
    -- :103-105
    let r := decodeToStr c pol s raw cap last
    -- :107-108
    let finished := r.status = .inputEmpty
    let next := pos + r.read
    -- :110-128  `written > 0 || last_in_text_node`; location = from_start_len(unreported,
    -- next.saturating_sub(unreported)) (`-` on Nat is saturating); really_last = last && finished
    let emits : Bool := !r.out.isEmpty || last
    let emit : List Chunk :=
      if emits then [⟨r.out, last && decide finished, unrep, unrep + (next - unrep)⟩] else []
    -- :115 unreported_bytes_start = next_source_location_bytes_start
    let unrep' := if emits then next else unrep
    -- :130-138
    if finished then some (r.st, next, unrep', emit)
    else
      -- :139 raw_input.get(read..).unwrap_or_default()
      match feedLoop c pol cap last fuel r.st (raw.drop r.read) next unrep' with
      | none => none
      | some (s', e, u, cs) => some (s', e, u, emit ++ cs)

def feedFuel (raw : Bytes) : Nat := 2 * raw.length + 3

/-- The slow path of `feed_text` (text_decoder.rs:93-140) on what the fast path left (`rest`, at source
offset `pos`, unreported bytes starting at `unrep`), `pre` = the fast-path chunk if any. -/
def feedSlow (e : Encoding) (pol : Policy e.codec) (cap : Nat) (td : TD e.codec) (last : Bool)
    (pre : List Chunk) (pos unrep : Nat) (rest : Bytes) : Option (TD e.codec × List Chunk) :=
  -- :97-99 get_or_insert_with(new_decoder_without_bom_handling) = `td.cur`
  match feedLoop e.codec pol cap last (feedFuel rest) td.cur rest pos unrep with
  | none => none
  | some (s', next, unrep', cs) =>
    -- :130-136
    some (if last then ⟨none, td.pendingStart, td.pendingEnd⟩ else ⟨some s', unrep', next⟩, pre ++ cs)

/-- `feed_text` (text_decoder.rs:58-141). `fast = false` is the same code with the fast path
(`split_utf8_start`, :76-91) switched off, used only to state `C13_fastpath`. -/
def feedTextWith (fast : Bool) (e : Encoding) (pol : Policy e.codec) (cap : Nat) (td : TD e.codec)
    (start : Nat) (raw : Bytes) (last : Bool) : Option (TD e.codec × List Chunk) :=
  -- :66-72 unreported_bytes_start
  let unrep := if td.pending.isSome then td.pendingStart else start
  -- :76
  match (if fast then splitUtf8Start e.utf8 cap td.pending.isSome raw else none) with
  | some (text, n, rest) =>
    -- :77-83 (next = start + n; unreported = next)
    let reallyLast := last && rest.isEmpty
    let c0 : Chunk := ⟨text, reallyLast, start, start + n⟩
    -- :87-90
    if reallyLast then some (td, [c0])
    else feedSlow e pol cap td last [c0] (start + n) (start + n) rest
  | none => feedSlow e pol cap td last [] start unrep raw

abbrev feedText := feedTextWith true

/-- `flush_pending` (text_decoder.rs:43-55): an empty span located at
`pending_source_location_bytes_end`. -/
def flushPendingWith (fast : Bool) (e : Encoding) (pol : Policy e.codec) (cap : Nat) (td : TD e.codec) :
    Option (TD e.codec × List Chunk) :=
  if td.pending.isSome then feedTextWith fast e pol cap td td.pendingEnd [] true
  else some (td, [])

abbrev flushPending := flushPendingWith true

/-- A sequence of non-final `feed_text` calls on consecutive pieces of one text node starting at source
offset `start` (what `Dispatcher::try_produce_token_from_lexeme` does, dispatcher.rs:274-286). -/
def feedsWith (fast : Bool) (e : Encoding) (pol : Policy e.codec) (cap : Nat) :
    TD e.codec → Nat → List Bytes → Option (TD e.codec × List Chunk)
  | td, _, [] => some (td, [])
  | td, start, p :: ps =>
    match feedTextWith fast e pol cap td start p false with
    | none => none
    | some (td1, cs1) =>
      match feedsWith fast e pol cap td1 (start + p.length) ps with
      | none => none
      | some (td2, cs2) => some (td2, cs1 ++ cs2)

abbrev feeds := feedsWith true

/-- A whole text node: the pieces, then `flush_pending` (dispatcher.rs:367-378, called before the next
tag / comment / end). -/
def textNodeWith (fast : Bool) (e : Encoding) (pol : Policy e.codec) (cap : Nat) (start : Nat)
    (parts : List Bytes) : Option (List Chunk) :=
  match feedsWith fast e pol cap (TD.new e.codec) start parts with
  | none => none
  | some (td, cs) =>
    match flushPendingWith fast e pol cap td with
    | none => none
    | some (_, cs') => some (cs ++ cs')

abbrev textNode := textNodeWith true

end LolHtml.Enc
