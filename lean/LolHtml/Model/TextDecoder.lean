/-
Model of `TextDecoder` (/repo/src/rewritable_units/text_decoder.rs): `feed_text` (fast path
`split_utf8_start`, slow path loop around `decode_to_str` into a fixed-size buffer, `really_last`
logic, source-location arithmetic) and `flush_pending`.

The buffer length `DEFAULT_BUFFER_LEN` (text_decoder.rs:6; 1024, 13 under cfg(test)) is the parameter
`cap`; the decoder's choice of where to report `OutputFull` is the parameter `pol`.
-/
import LolHtml.Model.Codec
import LolHtml.Model.Utf8

namespace LolHtml.Enc

/-- An encoding as `TextDecoder` sees it: a codec and whether it `== UTF_8` (text_decoder.rs:145). -/
structure Encoding where
  codec : Codec
  utf8 : Bool

/-- One call of the output handler: `(text, last_in_text_node, source_location)`. -/
structure Chunk where
  text : List Char
  last : Bool
  start : Nat
  stop : Nat
  deriving DecidableEq, Repr

/-- `TextDecoder` state: `pending_text_streaming_decoder`, `pending_source_location_bytes_start`
(text_decoder.rs:8-13; `text_buffer` has no observable content, `encoding` is fixed per text node). -/
structure TD (c : Codec) where
  pending : Option c.σ
  pendingStart : Nat

def TD.new (c : Codec) : TD c := ⟨none, 0⟩

/-- the decoder `feed_text` continues with: the pending one, or a new one
(`get_or_insert_with(|| encoding.new_decoder_without_bom_handling())`, text_decoder.rs:84-87) -/
def TD.cur {c : Codec} (td : TD c) : c.σ :=
  match td.pending with
  | some s => s
  | none => c.init

/-- `Encoding::ascii_valid_up_to` -/
def asciiValidUpTo : Bytes → Nat
  | [] => 0
  | b :: bs => if b < 128 then 1 + asciiValidUpTo bs else 0

/-- `split_utf8_start` (text_decoder.rs:132-165): `(utf8_text, utf8_text.len(), rest)` or `none` when
the fast path is not available. -/
def splitUtf8Start (utf8 : Bool) (cap : Nat) (pending : Bool) (raw : Bytes) :
    Option (List Char × Nat × Bytes) :=
  -- :138 Can't use the fast path if the decoder may have buffered some bytes
  if pending then none
  else
    -- :142-148 text_or_len
    let sc := Utf8.scan raw
    if utf8 && sc.fin = .done then some (sc.chars, raw.length, [])      -- :151 Ok(utf8_text)
    else
      let validUpTo := if utf8 then sc.validUpTo else asciiValidUpTo raw
      -- :156
      if validUpTo != raw.length && validUpTo < cap then none
      -- :160 split_at_checked(valid_up_to)?
      else if validUpTo > raw.length then none
      else
        -- :161 from_utf8(text).ok()?
        match Utf8.decodeValid (raw.take validUpTo) with
        | none => none
        | some text => some (text, validUpTo, raw.drop validUpTo)

/-- The slow-path `loop` of `feed_text` (text_decoder.rs:91-128). Returns the decoder state, the final
`next_source_location_bytes_start` and the handler calls; `none` = fuel exhausted
(`feedLoop_fuel`: never, for a lawful codec and `cap ≥ 4`). -/
def feedLoop (c : Codec) (pol : Policy c) (cap : Nat) (last : Bool) :
    Nat → c.σ → Bytes → Nat → Option (c.σ × Nat × List Chunk)
  | 0, _, _, _ => none
  | fuel + 1, s, raw, pos =>
    -- :93-94
    let r := decodeToStr c pol s raw cap last
    -- :96-99
    let finished := r.status = .inputEmpty
    let stop := pos + r.read
    -- :101-113  `written > 0 || last_in_text_node`; really_last = last && finished
    let emit : List Chunk :=
      if !r.out.isEmpty || last then [⟨r.out, last && decide finished, pos, stop⟩] else []
    -- :115-122
    if finished then some (r.st, stop, emit)
    else
      -- :123 raw_input.get(read..).unwrap_or_default()
      match feedLoop c pol cap last fuel r.st (raw.drop r.read) stop with
      | none => none
      | some (s', e, cs) => some (s', e, emit ++ cs)

def feedFuel (raw : Bytes) : Nat := 2 * raw.length + 3

/-- The slow path of `feed_text` (text_decoder.rs:80-128) on what the fast path left (`rest`, at source
offset `pos`), `pre` = the fast-path chunk if any. -/
def feedSlow (e : Encoding) (pol : Policy e.codec) (cap : Nat) (td : TD e.codec) (last : Bool)
    (pre : List Chunk) (pos : Nat) (rest : Bytes) : Option (TD e.codec × List Chunk) :=
  -- :84-87 get_or_insert_with(new_decoder_without_bom_handling) = `td.cur`
  match feedLoop e.codec pol cap last (feedFuel rest) td.cur rest pos with
  | none => none
  | some (s', stop, cs) =>
    -- :116-120
    some (if last then ⟨none, td.pendingStart⟩ else ⟨some s', stop⟩, pre ++ cs)

/-- `feed_text` (text_decoder.rs:53-129). `fast = false` is the same code with the fast path
(`split_utf8_start`, :64-78) switched off, used only to state `C13_fastpath`. -/
def feedTextWith (fast : Bool) (e : Encoding) (pol : Policy e.codec) (cap : Nat) (td : TD e.codec)
    (start : Nat) (raw : Bytes) (last : Bool) : Option (TD e.codec × List Chunk) :=
  -- :64
  match (if fast then splitUtf8Start e.utf8 cap td.pending.isSome raw else none) with
  | some (text, n, rest) =>
    -- :66-72
    let reallyLast := last && rest.isEmpty
    let c0 : Chunk := ⟨text, reallyLast, start, start + n⟩
    -- :74-77
    if reallyLast then some (td, [c0])
    else feedSlow e pol cap td last [c0] (start + n) rest
  | none => feedSlow e pol cap td last [] start raw

abbrev feedText := feedTextWith true

/-- `flush_pending` (text_decoder.rs:38-50). -/
def flushPendingWith (fast : Bool) (e : Encoding) (pol : Policy e.codec) (cap : Nat) (td : TD e.codec) :
    Option (TD e.codec × List Chunk) :=
  if td.pending.isSome then feedTextWith fast e pol cap td td.pendingStart [] true
  else some (td, [])

abbrev flushPending := flushPendingWith true

/-- A sequence of non-final `feed_text` calls on consecutive pieces of one text node starting at source
offset `start` (what `Dispatcher::try_produce_token_from_lexeme` does, dispatcher.rs:274-286). -/
def feedsWith (fast : Bool) (e : Encoding) (pol : Policy e.codec) (cap : Nat) :
    TD e.codec → Nat → List Bytes → Option (TD e.codec × List Chunk)
  | td, _, [] => some (td, [])
  | td, start, p :: ps =>
    match feedTextWith fast e pol cap td start p false with
    | none => none
    | some (td1, cs1) =>
      match feedsWith fast e pol cap td1 (start + p.length) ps with
      | none => none
      | some (td2, cs2) => some (td2, cs1 ++ cs2)

abbrev feeds := feedsWith true

/-- A whole text node: the pieces, then `flush_pending` (dispatcher.rs:367-378, called before the next
tag / comment / end). -/
def textNodeWith (fast : Bool) (e : Encoding) (pol : Policy e.codec) (cap : Nat) (start : Nat)
    (parts : List Bytes) : Option (List Chunk) :=
  match feedsWith fast e pol cap (TD.new e.codec) start parts with
  | none => none
  | some (td, cs) =>
    match flushPendingWith fast e pol cap td with
    | none => none
    | some (_, cs') => some (cs ++ cs')

abbrev textNode := textNodeWith true

end LolHtml.Enc
