import LolHtml.Basic
/-!
Abstract syntax of lol-html's tokenizer DSL (`src/parser/state_machine/syntax/**`, macros in
`src/parser/state_machine/syntax_dsl/**`). The concrete table `LolHtml.Gen.Syntax.states` is
regenerated from the Rust sources by `/verif/translate/dsl2lean.py` on every check.
-/
namespace LolHtml.Model

/-- Methods of `StateMachineActions` (src/parser/state_machine/mod.rs:94-161). -/
inductive ActName
  | emitTextAndEof | emitText | emitCurrentToken | emitTag | emitCurrentTokenAndEof
  | emitRawWithoutToken | emitRawWithoutTokenAndEof
  | createStartTag | createEndTag | createDoctype | createComment
  | startTokenPart | markCommentTextEnd | shiftCommentTextEndBy (n : Nat)
  | setForceQuirks | finishDoctypeName | finishDoctypePublicId | finishDoctypeSystemId
  | finishTagName | updateTagNameHash | markAsSelfClosing
  | startAttr | finishAttrName | finishAttrValue | finishAttr
  | setClosingQuoteToDouble | setClosingQuoteToSingle
  | markTagStart | unmarkTagStart
  | enterCdata | leaveCdata
  deriving DecidableEq, Repr, Inhabited

/-- Methods of `StateMachineConditions`. -/
inductive Cond
  | isAppropriateEndTag | cdataAllowed
  deriving DecidableEq, Repr, Inhabited

abbrev StateId := Nat

/-- State transitions (`action!(@state_transition …)`, syntax_dsl/action.rs). The `#[inline]` form of
`-->` is semantically a `goto` (the state function is called directly instead of through the loop). -/
inductive Trans
  | goto (s : StateId)
  | gotoDyn                 -- `--> dyn next_text_parsing_state`
  | reconsume (s : StateId) -- `reconsume in s`
  deriving DecidableEq, Repr, Inhabited

/-- One action invocation; `q = true` iff written with `?` (error / directive change propagates). -/
structure Call where
  act : ActName
  q : Bool
  deriving DecidableEq, Repr, Inhabited

/-- A straight-line action list ending in an optional transition (syntax_dsl/action_list.rs). -/
structure ActSeq where
  calls : List Call
  trans : Option Trans
  deriving DecidableEq, Repr, Inhabited

/-- Arm body: a plain list or the `if cond (..) else (..)` form. -/
inductive Body
  | seq (s : ActSeq)
  | ite (c : Cond) (t e : ActSeq)
  deriving DecidableEq, Repr, Inhabited

/-- Arm patterns (syntax_dsl/arm_pattern/mod.rs). -/
inductive Pat
  | byte (b : UInt8)
  | alpha | whitespace | closingQuote
  | eoc | eof
  | any                                             -- `_`
  | chSeq (bytes : List UInt8) (ignoreCase : Bool)  -- `[ "DOCTYPE"; ignore_case ]`
  deriving DecidableEq, Repr, Inhabited

structure Arm where
  pat : Pat
  body : Body
  deriving DecidableEq, Repr, Inhabited

/-- One `state!` definition. `memchr = some b` for the `memchr(b) => …` body form, in which case the
first arm (pattern `any`) is the needle-found arm. -/
structure StateDef where
  name : String
  enter : List Call
  memchr : Option UInt8
  arms : List Arm
  deriving Repr, Inhabited

/-- The whole table plus the character classes and the distinguished text-state indices. -/
structure Table where
  states : List StateDef
  whitespace : List UInt8
  alpha : List (UInt8 × UInt8)
  /-- indices of data, plaintext, rcdata, rawtext, script_data, cdata_section states
      (`next_text_parsing_state`, state_machine/mod.rs:282) -/
  dataState : StateId
  plaintextState : StateId
  rcdataState : StateId
  rawtextState : StateId
  scriptDataState : StateId
  cdataSectionState : StateId
  deriving Repr, Inhabited

def Table.state? (t : Table) (s : StateId) : Option StateDef := t.states[s]?

def Body.seqs : Body → List ActSeq
  | .seq s => [s]
  | .ite _ t e => [t, e]

end LolHtml.Model
