/-
The ENCODER algorithms of the WHATWG Encoding Standard for the legacy multi-byte encodings lol-html
accepts (EUC-KR §11.1.2, Big5 §12.1.2, Shift_JIS §13.3.2, EUC-JP §13.1.2, gb18030 / GBK §10.2.2), as
functions of the *index pointer* lookup (`ptr : scalar → Option pointer`, the index data, which stays a
parameter): how a pointer is turned into bytes. Only non-ASCII scalars matter (`Whatwg.sanEnc` handles
ASCII). A pointer outside the index' range (`lead` would not fit the lead-byte range) is not encodable.

They are meant to be plugged into `Whatwg.eucKr idx (eucKrEnc ptr)` etc. (`Model/Whatwg.lean`, whose
decoders are lawful for every encoder argument).
-/
import LolHtml.Model.Whatwg

namespace LolHtml.Enc.Whatwg

def byte (n : Nat) : UInt8 := UInt8.ofNat n

/-- EUC-KR: `lead = pointer / 190 + 0x81`, `trail = pointer % 190 + 0x41` -/
def eucKrEnc (ptr : Char → Option Nat) (ch : Char) : Option Bytes :=
  match ptr ch with
  | some p => if p < 190 * 126 then some [byte (p / 190 + 0x81), byte (p % 190 + 0x41)] else none
  | none => none

/-- Big5: `lead = pointer / 157 + 0x81`, `trail = pointer % 157`, offset `0x40` if `trail < 0x3F` else `0x62` -/
def big5Enc (ptr : Char → Option Nat) (ch : Char) : Option Bytes :=
  match ptr ch with
  | some p =>
    if p < 157 * 126 then
      let t := p % 157
      some [byte (p / 157 + 0x81), byte (t + (if t < 0x3F then 0x40 else 0x62))]
    else none
  | none => none

/-- the two-byte form shared by Shift_JIS: lead offset `0x81` / `0xC1`, trail offset `0x40` / `0x41` -/
def sjisPair (p : Nat) : Bytes :=
  let l := p / 188
  let t := p % 188
  [byte (l + (if l < 0x1F then 0x81 else 0xC1)), byte (t + (if t < 0x3F then 0x40 else 0x41))]

/-- Shift_JIS: U+0080 → 0x80, U+00A5 → 0x5C, U+203E → 0x7E, half-width katakana → one byte 0xA1..0xDF,
(U+2212 is looked up as U+FF0D by `ptr`), otherwise the pointer's two bytes -/
def shiftJisEnc (ptr : Char → Option Nat) (ch : Char) : Option Bytes :=
  let n := ch.toNat
  if n = 0x80 then some [0x80]
  else if n = 0xA5 then some [0x5C]
  else if n = 0x203E then some [0x7E]
  else if 0xFF61 ≤ n ∧ n ≤ 0xFF9F then some [byte (n - 0xFF61 + 0xA1)]
  else match ptr ch with
    | some p => if p < 188 * 60 then some (sjisPair p) else none
    | none => none

/-- EUC-JP: U+00A5 → 0x5C, U+203E → 0x7E, half-width katakana → 0x8E + byte, otherwise
`pointer / 94 + 0xA1`, `pointer % 94 + 0xA1` -/
def eucJpEnc (ptr : Char → Option Nat) (ch : Char) : Option Bytes :=
  let n := ch.toNat
  if n = 0xA5 then some [0x5C]
  else if n = 0x203E then some [0x7E]
  else if 0xFF61 ≤ n ∧ n ≤ 0xFF9F then some [0x8E, byte (n - 0xFF61 + 0xA1)]
  else match ptr ch with
    | some p => if p < 94 * 94 then some [byte (p / 94 + 0xA1), byte (p % 94 + 0xA1)] else none
    | none => none

/-- the two-byte form of gb18030 / GBK: `lead = pointer / 190 + 0x81`, trail offset `0x40` / `0x41` -/
def gbPair (p : Nat) : Bytes :=
  let t := p % 190
  [byte (p / 190 + 0x81), byte (t + (if t < 0x3F then 0x40 else 0x41))]

/-- the four-byte form of gb18030 from the ranges pointer: `b1 + 0x81, b2 + 0x30, b3 + 0x81, b4 + 0x30` -/
def gbQuad (p : Nat) : Bytes :=
  [byte (p / 12600 + 0x81), byte (p % 12600 / 1260 + 0x30), byte (p % 1260 / 10 + 0x81), byte (p % 10 + 0x30)]

/-- gb18030 (`isGbk = false`) and GBK (`isGbk = true`): U+E5E5 is an error; GBK writes U+20AC as 0x80;
two bytes from the index pointer; GBK has no four-byte form; gb18030 uses the ranges pointer -/
def gbEnc (isGbk : Bool) (ptr2 ptr4 : Char → Option Nat) (ch : Char) : Option Bytes :=
  let n := ch.toNat
  if n = 0xE5E5 then none
  else if isGbk && n = 0x20AC then some [0x80]
  else match ptr2 ch with
    | some p => if p < 190 * 126 then some (gbPair p) else none
    | none =>
      if isGbk then none
      else match ptr4 ch with
        | some p => if p < 126 * 12600 then some (gbQuad p) else none
        | none => none

end LolHtml.Enc.Whatwg
