/-
Document-level model of the rewrite pipeline as far as edits are concerned: the content-handler
dispatcher (`src/rewriter/handlers_dispatcher.rs`), the part of the rewrite controller that feeds it
(`src/rewriter/rewrite_controller.rs`), the open-element stack discipline
(`src/selectors_vm/{mod,stack}.rs`: void / push / push-if-not-self-closing, `pop_up_to`) and the
emission switch of `src/transform_stream/dispatcher.rs` (`emission_enabled`,
`should_stop_removing_element_content`, `matched_elements_with_removed_content`).

The parser is *not* modelled here: the input is the token stream (text lexemes already split at the
chunk boundaries), selectors are restricted to `*` and type selectors, whose matching is a predicate
on the lower-cased local name. Raw bytes of tokens that are not captured are emitted eagerly (the
real dispatcher emits them lazily through `remaining_content_start`; the tiling is C01/C02's).
-/
import LolHtml.Model.ElementOps

namespace LolHtml.EditModel

/-- A token of the source document as the lexer reports it. -/
inductive SrcToken
  | text (raw : Bytes)
  | startTag (name : Bytes) (attrs : List Attribute) (selfClosing : Bool) (ns : Ns) (raw : Bytes)
  | endTag (name : Bytes) (raw : Bytes)
  | comment (text : Bytes) (raw : Bytes)
  | doctype (raw : Bytes)
deriving DecidableEq, Repr, Inhabited

def SrcToken.raw : SrcToken → Bytes
  | .text r => r
  | .startTag _ _ _ _ r => r
  | .endTag _ r => r
  | .comment _ r => r
  | .doctype r => r

/-- Supported selectors: `*` and a type selector (lower-case local name). -/
inductive Sel
  | any
  | type (lname : Bytes)
deriving DecidableEq, Repr, Inhabited

def Sel.matches : Sel → Bytes → Bool
  | .any, _ => true
  | .type n, lname => n == lname

/-- A user handler is a *script*: invocation number ↦ the API calls it makes on the unit it is
given (this covers stateful closures). -/
inductive Script
  | element (f : Nat → List ElementOp)
  | comment (f : Nat → List CommentOp)
  | text (f : Nat → List TextOp)
  | doctype (f : Nat → List DoctypeOp)
  | docEnd (f : Nat → List (Bytes × ContentType))     -- `DocumentEnd::append`

/-- `sel = none`: document content handler; `some s`: element content handler for selector `s`.
The list of handlers is in *registration order of the dispatcher*: rewrite_controller.rs:66-74
registers all selector-associated handlers first, then the document content handlers. -/
structure Handler where
  sel : Option Sel
  script : Script

def Script.isComment : Script → Bool | .comment _ => true | _ => false
def Script.isText : Script → Bool | .text _ => true | _ => false
def Script.isElement : Script → Bool | .element _ => true | _ => false
def Script.isDoctype : Script → Bool | .doctype _ => true | _ => false

/-- rewrite_controller.rs:11 `ElementDescriptor`. -/
structure ElementDescriptor where
  matched : List Nat                 -- matched_content_handlers (handler ids)
  endTagHandlerIdx : Option Nat := none
  removeContent : Bool := false
deriving DecidableEq, Repr, Inhabited

/-- stack.rs:174 `StackItem` (the parts that matter here). -/
structure StackItem where
  localName : Bytes
  data : ElementDescriptor
deriving DecidableEq, Repr, Inhabited

/-- handlers_dispatcher.rs:20 `HandlerVecItem` of `end_tag_handlers`. -/
structure EndTagHandlerItem where
  handler : EndTagHandler
  userCount : Nat
deriving DecidableEq, Repr, Inhabited

/-- Dispatcher + controller state. `stack` has the innermost open element first. -/
structure St where
  stack : List StackItem := []
  counts : Nat → Nat                    -- `user_count` of each comment / text handler
  inv : Nat → Nat                       -- how often each handler ran so far
  endTagHandlers : List EndTagHandlerItem := []
  removedCount : Nat := 0               -- `matched_elements_with_removed_content`
  emission : Bool := true               -- `emission_enabled`
  textPending : Bool := false           -- `text_decoder.pending_text_streaming_decoder.is_some()`
  fault : Bool := false                 -- a `user_count` would underflow / a locator is stale
  faultRemoved : Bool := false          -- `matched_elements_with_removed_content` would underflow

def upd (f : Nat → Nat) (i v : Nat) : Nat → Nat := fun j => if j = i then v else f j

/-- handlers_dispatcher.rs:164-180: document content handlers are pushed with `always_active`. -/
def St.init (H : List Handler) : St :=
  { counts := fun i => match H[i]? with
      | some h => if h.sel.isNone then 1 else 0
      | none => 0
    inv := fun _ => 0 }

/-- stack.rs:13 `is_void_element` (ESI tags disabled). -/
def voidElements : List Bytes :=
  [[97, 114, 101, 97],
   [98, 97, 115, 101],
   [98, 97, 115, 101, 102, 111, 110, 116],
   [98, 103, 115, 111, 117, 110, 100],
   [98, 114],
   [99, 111, 108],
   [101, 109, 98, 101, 100],
   [104, 114],
   [105, 109, 103],
   [105, 110, 112, 117, 116],
   [107, 101, 121, 103, 101, 110],
   [108, 105, 110, 107],
   [109, 101, 116, 97],
   [112, 97, 114, 97, 109],
   [115, 111, 117, 114, 99, 101],
   [116, 114, 97, 99, 107],
   [119, 98, 114]]

def isVoidElement (lname : Bytes) : Bool := voidElements.contains lname

/-- stack.rs:268 `get_stack_directive` + selectors_vm/mod.rs:157-185/210: does the element get content
(`with_content`, = it is pushed on the open-element stack)? -/
def withContent (ns : Ns) (lname : Bytes) (selfClosing : Bool) : Bool :=
  match ns with
  | .html => !isVoidElement lname
  | .foreign => !selfClosing

/-- `HandlerVec::for_each_active` (handlers_dispatcher.rs:84): run every active handler of one kind
in registration order. `pick` selects the handlers of the kind and turns a script into its effect on
the unit; only the invocation counters change in the state. -/
def forEachActiveAux {τ : Type} (pick : Script → Option (Nat → τ → τ)) (act : Nat → Bool) :
    List Handler → Nat → (Nat → Nat) → τ → (Nat → Nat) × τ
  | [], _, inv, t => (inv, t)
  | h :: hs, i, inv, t =>
    match pick h.script with
    | some f =>
      if act i then forEachActiveAux pick act hs (i + 1) (upd inv i (inv i + 1)) (f (inv i) t)
      else forEachActiveAux pick act hs (i + 1) inv t
    | none => forEachActiveAux pick act hs (i + 1) inv t

def forEachActive {τ : Type} (H : List Handler) (pick : Script → Option (Nat → τ → τ))
    (act : Nat → Bool) (s : St) (t : τ) : St × τ :=
  let r := forEachActiveAux pick act H 0 s.inv t
  ({ s with inv := r.1 }, r.2)

def pickComment : Script → Option (Nat → Comment → Comment)
  | .comment f => some fun n c => c.applyOps (f n)
  | _ => none
def pickText : Script → Option (Nat → TextChunk → TextChunk)
  | .text f => some fun n c => c.applyOps (f n)
  | _ => none
def pickDoctype : Script → Option (Nat → Doctype → Doctype)
  | .doctype f => some fun n c => c.applyOps (f n)
  | _ => none
def pickElement : Script → Option (Nat → Element → Element)
  | .element f => some fun n e => e.applyOps (f n)
  | _ => none

/-- `HandlerVec::has_active` for the handlers of one kind. -/
def anyActive (H : List Handler) (kind : Script → Bool) (counts : Nat → Nat) : Bool :=
  (List.range H.length).any fun i =>
    match H[i]? with
    | some h => kind h.script && counts i > 0
    | none => false

/-- dispatcher.rs:181 `text_token_produced`: handlers, then serialisation if emission is enabled. -/
def textTokenProduced (H : List Handler) (enc : Enc) (s : St) (c : TextChunk) : St × Bytes :=
  let r := forEachActive H pickText (fun i => s.counts i > 0) s c
  (r.1, if r.1.emission then r.2.intoBytes enc else [])

/-- dispatcher.rs:393 `flush_pending_captured_text` / text_decoder.rs:38 `flush_pending`: if a text
chunk was captured since the last flush, the text handlers get an empty chunk with
`last_in_text_node = true`. -/
def flushPendingText (H : List Handler) (enc : Enc) (s : St) : St × Bytes :=
  if s.textPending then
    textTokenProduced H enc { s with textPending := false } { text := [], lastInTextNode := true }
  else (s, [])

/-- Ids of the selector handlers whose selector matches the element. -/
def matchedIdsAux (lname : Bytes) : List Handler → Nat → List Nat
  | [], _ => []
  | h :: hs, i =>
    match h.sel with
    | some sel => if sel.matches lname then i :: matchedIdsAux lname hs (i + 1)
                  else matchedIdsAux lname hs (i + 1)
    | none => matchedIdsAux lname hs (i + 1)

def matchedIds (H : List Handler) (lname : Bytes) : List Nat := matchedIdsAux lname H 0

def isKind (H : List Handler) (kind : Script → Bool) (i : Nat) : Bool :=
  match H[i]? with
  | some h => kind h.script
  | none => false

def isContentHandler (H : List Handler) (i : Nat) : Bool :=
  isKind H Script.isComment i || isKind H Script.isText i

/-- handlers_dispatcher.rs:208 `start_matching` for all matched ids: comment / text handlers of an
element with content get one more user. -/
def startMatching (H : List Handler) (ids : List Nat) (wc : Bool) (counts : Nat → Nat) : Nat → Nat :=
  if wc then
    ids.foldl (fun c i => if isContentHandler H i then upd c i (c i + 1) else c) counts
  else counts

/-- handlers_dispatcher.rs:233-246: comment / text handlers of the popped element lose a user
(`dec_user_count`; an underflow is a fault). -/
def decCounts (H : List Handler) (s : St) (ids : List Nat) : St :=
  ids.foldl (fun (s : St) i =>
    if isContentHandler H i then
      if s.counts i = 0 then { s with fault := true }
      else { s with counts := upd s.counts i (s.counts i - 1) }
    else s) s

/-- handlers_dispatcher.rs:248-250: the element's deferred end-tag handler becomes active
(`inc_user_count`; a stale locator is a fault). -/
def activateEndTagHandler (s : St) : Option Nat → St
  | some idx =>
    if idx < s.endTagHandlers.length then
      { s with endTagHandlers :=
          s.endTagHandlers.modify idx fun it => { it with userCount := it.userCount + 1 } }
    else { s with fault := true }
  | none => s

/-- handlers_dispatcher.rs:252-254: `matched_elements_with_removed_content -= 1` (usize: an
underflow is a fault). -/
def decRemoved (s : St) (removeContent : Bool) : St :=
  if removeContent then
    if s.removedCount = 0 then { s with faultRemoved := true }
    else { s with removedCount := s.removedCount - 1 }
  else s

/-- handlers_dispatcher.rs:232 `stop_matching` for one popped element. -/
def stopMatching (H : List Handler) (s : St) (d : ElementDescriptor) : St :=
  decRemoved (activateEndTagHandler (decCounts H s d.matched) d.endTagHandlerIdx) d.removeContent

/-- stack.rs:284 `pop_up_to`: the innermost open element with that name and everything above it;
`none` if no open element has the name. Result: (popped items, innermost first; remaining stack). -/
def popUpTo (stack : List StackItem) (lname : Bytes) : Option (List StackItem × List StackItem) :=
  match stack.findIdx? (fun it => it.localName == lname) with
  | some idx => some (stack.take (idx + 1), stack.drop (idx + 1))
  | none => none

/-- `current_element_data_mut()` update. -/
def modifyTop (stack : List StackItem) (f : ElementDescriptor → ElementDescriptor) : List StackItem :=
  match stack with
  | [] => []
  | it :: rest => { it with data := f it.data } :: rest

/-- handlers_dispatcher.rs:271-283: after the element handlers ran on an element with content,
`current_element_data` (the item just pushed) records whether the content is to be removed and the
locator of the deferred end-tag handler. -/
def registerElement (s : St) (el : Element) : St :=
  let s := if el.shouldRemoveContent then
      { s with stack := modifyTop s.stack (fun d => { d with removeContent := true }),
               removedCount := s.removedCount + 1 }
    else s
  match el.intoEndTagHandler with
  | some h =>
    { s with stack := modifyTop s.stack (fun d => { d with endTagHandlerIdx := some s.endTagHandlers.length }),
             endTagHandlers := s.endTagHandlers ++ [{ handler := h, userCount := 0 }] }
  | none => s

/-- `LexemeSink::handle_tag` for a start tag (dispatcher.rs:455) with
`HtmlRewriteController::handle_start_tag` (rewrite_controller.rs:137), the VM's stack directive and
`ContentHandlersDispatcher::handle_start_tag` (handlers_dispatcher.rs:257). -/
def stepStartTag (H : List Handler) (enc : Enc) (s : St) (name : Bytes) (attrs : List Attribute)
    (selfClosing : Bool) (ns : Ns) (raw : Bytes) : St × Bytes :=
  let f := flushPendingText H enc s
  let s := f.1
  let lname := asciiLowerBytes name
  let wc := withContent ns lname selfClosing
  let ids := matchedIds H lname
  let s := { s with counts := startMatching H ids wc s.counts }
  let s := if wc then { s with stack := { localName := lname, data := { matched := ids } } :: s.stack }
           else s
  let elIds := ids.filter (isKind H Script.isElement)
  if elIds.isEmpty then
    -- no element handler is active: the start tag is not captured, its bytes pass as they are
    let out := if s.emission then raw else []
    ({ s with emission := s.removedCount == 0 }, f.2 ++ out)
  else
    let st : StartTag := { name := name, attributes := attrs, ns := ns, selfClosing := selfClosing, raw := raw }
    -- handlers_dispatcher.rs:262-264
    let st := if s.removedCount > 0 then st.apply (.mut .remove) else st
    let r := forEachActive H pickElement (fun i => elIds.contains i) s (Element.new st wc)
    let s := r.1
    let el := r.2
    let s := if wc then registerElement s el else s
    let out := if s.emission then el.startTag.intoBytes enc else []
    ({ s with emission := s.removedCount == 0 }, f.2 ++ out)

/-- handlers_dispatcher.rs:113 `do_for_each_active_and_remove_tail` on the end-tag handlers: from the
first active item on, everything is drained and the active ones run in *reverse* order. -/
def runEndTagHandlers (items : List EndTagHandlerItem) (t : EndTag) : List EndTagHandlerItem × EndTag :=
  match items.findIdx? (fun it => it.userCount > 0) with
  | some first =>
    (items.take first,
     (items.drop first).reverse.foldl (fun t it => if it.userCount > 0 then it.handler.run t else t) t)
  | none => (items, t)

/-- rewrite_controller.rs:160 `handle_end_tag` → `exec_for_end_tag` → `pop_up_to` with `stop_matching`
for every popped element, outermost first (`items.drain(index..)`). -/
def popForEndTag (H : List Handler) (s : St) (lname : Bytes) : St :=
  match popUpTo s.stack lname with
  | some (popped, rest) =>
    (popped.reverse.map StackItem.data).foldl (stopMatching H) { s with stack := rest }
  | none => s

/-- The part of `handle_tag` for an end tag after the controller popped the open-element stack
(dispatcher.rs:466-478): decide whether emission resumes, produce the token if it is captured (run
the activated end-tag handlers), serialise, re-evaluate `emission_enabled`. -/
def emitEndTag (enc : Enc) (s : St) (name raw : Bytes) : St × Bytes :=
  -- dispatcher.rs:208 `should_stop_removing_element_content`
  let stopRemoving := !s.emission && s.removedCount == 0
  let captured := s.endTagHandlers.any (fun it => it.userCount > 0) || stopRemoving
  let s := if stopRemoving then { s with emission := true } else s
  if captured then
    let r := runEndTagHandlers s.endTagHandlers { name := name, raw := raw }
    let s := { s with endTagHandlers := r.1 }
    let out := if s.emission then r.2.intoBytes enc else []
    ({ s with emission := s.removedCount == 0 }, out)
  else
    let out := if s.emission then raw else []
    ({ s with emission := s.removedCount == 0 }, out)

/-- `handle_tag` for an end tag (dispatcher.rs:455-480) with `handle_end_tag`
(rewrite_controller.rs:160), `pop_up_to` and `stop_matching`; when scanning, `handle_end_tag_hint`
(dispatcher.rs:521) forces the lexeme if emission must resume. -/
def stepEndTag (H : List Handler) (enc : Enc) (s : St) (name raw : Bytes) : St × Bytes :=
  let f := flushPendingText H enc s
  let r := emitEndTag enc (popForEndTag H f.1 (asciiLowerBytes name)) name raw
  (r.1, f.2 ++ r.2)

/-- One source token through the dispatcher: the new state and the bytes that reach the sink. -/
def step (H : List Handler) (enc : Enc) (s : St) : SrcToken → St × Bytes
  | .text raw =>
    -- dispatcher.rs:268 `ToTokenResult::Text`: captured iff a text handler is active
    if anyActive H Script.isText s.counts then
      textTokenProduced H enc { s with textPending := true } { text := raw, lastInTextNode := false }
    else (s, if s.emission then raw else [])
  | .startTag name attrs sc ns raw => stepStartTag H enc s name attrs sc ns raw
  | .endTag name raw => stepEndTag H enc s name raw
  | .comment text raw =>
    let f := flushPendingText H enc s
    let s := f.1
    if anyActive H Script.isComment s.counts then
      let r := forEachActive H pickComment (fun i => s.counts i > 0) s { text := text, raw := raw }
      (r.1, f.2 ++ (if r.1.emission then r.2.intoBytes enc else []))
    else (s, f.2 ++ (if s.emission then raw else []))
  | .doctype raw =>
    let f := flushPendingText H enc s
    let s := f.1
    if anyActive H Script.isDoctype s.counts then
      let r := forEachActive H pickDoctype (fun i => s.counts i > 0) s { raw := raw }
      (r.1, f.2 ++ (if r.1.emission then r.2.intoBytes else []))
    else (s, f.2 ++ (if s.emission then raw else []))

/-- All tokens; the outputs are kept per token. -/
def steps (H : List Handler) (enc : Enc) : St → List SrcToken → St × List Bytes
  | s, [] => (s, [])
  | s, t :: ts =>
    let r := step H enc s t
    let rs := steps H enc r.1 ts
    (rs.1, r.2 :: rs.2)

/-- The `end` handlers (handlers_dispatcher.rs:304 `handle_end` = `do_for_each_active_and_remove_tail`):
they run in *reverse* registration order; `DocumentEnd::append` writes straight to the sink,
whatever the emission switch says (document_end.rs:48). -/
def runEndHandlersAux : List Handler → Nat → (Nat → Nat) → (Nat → Nat) × List (Bytes × ContentType)
  | [], _, inv => (inv, [])
  | h :: hs, i, inv =>
    -- the tail runs first
    let r := runEndHandlersAux hs (i + 1) inv
    match h.script with
    | .docEnd f => (upd r.1 i (r.1 i + 1), r.2 ++ f (r.1 i))
    | _ => r

/-- End of input: the lexer's EOF lexeme flushes the pending text (dispatcher.rs:483-490), then
`finish` runs the end handlers. -/
def finish (H : List Handler) (enc : Enc) (s : St) : St × Bytes :=
  let f := flushPendingText H enc s
  let r := runEndHandlersAux H 0 f.1.inv
  ({ f.1 with inv := r.1 }, f.2 ++ r.2.flatMap fun c => enc c.2 c.1)

/-- The whole rewrite: sink bytes, final state. -/
def rewrite (H : List Handler) (enc : Enc) (toks : List SrcToken) : St × Bytes :=
  let r := steps H enc (St.init H) toks
  let e := finish H enc r.1
  (e.1, r.2.flatten ++ e.2)

end LolHtml.EditModel
