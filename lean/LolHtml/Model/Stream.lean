import LolHtml.Model.Dispatcher
/-!
`TransformStream` (src/transform_stream/mod.rs) and the poisoning wrapper `HtmlRewriter`
(src/rewriter/mod.rs:133-228), over the parser + dispatcher model. The parsing buffer is the arena
of src/memory/arena.rs with its limiter accounting (usage is charged before the comparison and never
rolled back, as coded).
-/
namespace LolHtml.Model

/-- `Arena` + `SharedMemoryLimiter` as seen from the transform stream. -/
structure Buf where
  data : Bytes := []
  cap : Nat := 0
  usage : Nat := 0
  max : Nat
  deriving Repr, Inhabited

/-- `SharedMemoryLimiter::increase_usage` (limiter.rs:31): charge first, compare afterwards. -/
def Buf.increase (b : Buf) (n : Nat) : Buf × Bool :=
  ({ b with usage := b.usage + n }, b.usage + n ≤ b.max)

/-- `Arena::new` (arena.rs:12): the preallocation is clamped to the limit, so the charge succeeds
(the reservation itself is assumed not to fail). -/
def Buf.new (max prealloc : Nat) : Buf :=
  let p := min prealloc max
  { max := max, cap := p, usage := p }

/-- `Arena::append` (arena.rs:26) -/
def Buf.append (b : Buf) (s : Bytes) : Buf × Bool :=
  if b.cap - b.data.length < s.length then
    let r := b.increase (s.length + b.data.length - b.cap)
    if r.2 then ({ r.1 with cap := b.data.length + s.length, data := b.data ++ s }, true) else (r.1, false)
  else ({ b with data := b.data ++ s }, true)

/-- `Arena::init_with` -/
def Buf.initWith (b : Buf) (s : Bytes) : Buf × Bool := ({ b with data := [] }).append s

/-- `Arena::shift`; `len - byte_count` is checked. -/
def Buf.shift (b : Buf) (n : Nat) : Option Buf :=
  if n ≤ b.data.length then some { b with data := b.data.drop n } else none

structure Settings where
  strict : Bool := false
  prealloc : Nat := 0
  maxMem : Nat := 1000000000
  bailOnMem : Bool := false
  bailOnHandler : Bool := false
  encoding : Nat := 0
  deriving Repr, Inhabited

/-- `TransformStream` -/
structure Stream (γ : Type) where
  parser : Parser (Disp γ)
  buf : Buf
  hasBuffered : Bool := false
  cfg : Settings
  /-- ghost: how many times the bail-out handlers were run -/
  bailOutRuns : Nat := 0
  deriving Repr, Inhabited

variable {γ : Type}

structure World (γ : Type) where
  tbl : Table
  tags : TagCfg
  ctl : Controller γ

def World.env (w : World γ) : Env (Disp γ) := ⟨w.tbl, w.tags, dispOps w.ctl⟩

def Stream.new (w : World γ) (g : γ) (cfg : Settings) : Stream γ :=
  let d := Disp.new w.ctl g cfg.encoding
  let initial : Directive := if (w.ctl.initialFlags g).isEmpty then .scan else .lex
  { parser := Parser.new w.tbl d initial cfg.strict, buf := Buf.new cfg.maxMem cfg.prealloc, cfg := cfg }

def Stream.disp (s : Stream γ) : Disp γ := s.parser.x.sink
def Stream.setDisp (s : Stream γ) (d : Disp γ) : Stream γ :=
  { s with parser := { s.parser with x := { s.parser.x with sink := d } } }

/-- `should_bail_out_for` (mod.rs:82): each flag recovers only its own error kind -/
def Settings.recovers (cfg : Settings) : Err → Bool
  | .mem => cfg.bailOnMem
  | .handler => cfg.bailOnHandler
  | _ => false

def Stream.shouldBailOutFor (s : Stream γ) (e : Err) : Bool := s.cfg.recovers e

/-- bail out: handlers, then flush the given slices in order -/
def Stream.bail (w : World γ) (s : Stream γ) (e : Err) (slices : List Bytes) : Stream γ :=
  if s.shouldBailOutFor e then
    let d := s.disp.runBailOut w.ctl e
    let d := slices.foldl (fun d sl => match d.flushForBailOut sl with | .ok d => d | .error _ => d) d
    { s.setDisp d with bailOutRuns := s.bailOutRuns + 1 }
  else s

/-- the bytes the next parse will see: buffered tail ++ new data (`Arena::append`), or the data itself.
`.inl` = the append hit the memory limit (the stream is returned after the bail-out flush). -/
def Stream.chunkFor (w : World γ) (s : Stream γ) (data : Bytes) : Stream γ ⊕ (Stream γ × Bytes) :=
  if s.hasBuffered then
    let r := s.buf.append data
    if r.2 then .inr ({ s with buf := r.1 }, r.1.data)
    else .inl (({ s with buf := r.1 }).bail w .mem [s.buf.data, data])
  else .inr (s, data)

/-- after a successful parse: keep the unconsumed tail (`shift` / `init_with`, mod.rs:136-158) -/
def Stream.keepTail (w : World γ) (s : Stream γ) (data chunk : Bytes) (consumed : Nat) : Stream γ × Except Err Unit :=
  if consumed < chunk.length then
    if s.hasBuffered then
      match s.buf.shift consumed with
      | some b => ({ s with buf := b }, .ok ())
      | none => (s, .error (.panic "Arena::shift underflow"))
    else
      -- data.get(consumed..) is Some because consumed < chunk.len() = data.len()
      let unconsumed := data.drop consumed
      let r := s.buf.initWith unconsumed
      let s := { s with buf := r.1 }
      if r.2 then ({ s with hasBuffered := true }, .ok ())
      else (s.bail w .mem [unconsumed], .error .mem)
  else ({ s with hasBuffered := false }, .ok ())

/-- `TransformStream::write` (mod.rs:94) -/
def Stream.write (w : World γ) (s : Stream γ) (data : Bytes) : Stream γ × Except Err Unit :=
  match s.chunkFor w data with
  | .inl s => (s, .error .mem)
  | .inr sc =>
    let s := sc.1
    let chunk := sc.2
    let pr := s.parser.parse w.env chunk false
    let s := { s with parser := pr.1 }
    match pr.2 with
    | .error e => (s.bail w e [chunk], .error e)
    | .ok consumed =>
      match s.disp.flushRemaining chunk consumed with
      | .error e => (s, .error e)
      | .ok d => (s.setDisp d).keepTail w data chunk consumed

/-- `TransformStream::end` (mod.rs:163) -/
def Stream.end (w : World γ) (s : Stream γ) : Stream γ × Except Err Unit :=
  let chunk : Bytes := if s.hasBuffered then s.buf.data else []
  let pr := s.parser.parse w.env chunk true
  let s := { s with parser := pr.1 }
  match pr.2 with
  | .error e => (s.bail w e [chunk], .error e)
  | .ok _ =>
    let r := s.disp.finish w.ctl chunk
    (s.setDisp r.1, r.2)

/-- `HtmlRewriter` with `guarded!`: state of the public object. -/
structure Rewriter (γ : Type) where
  stream : Stream γ
  poisoned : Bool := false
  ended : Bool := false
  deriving Repr, Inhabited

inductive CallRes
  | ok
  | err (e : Err)
  | panicUseAfterError     -- the documented panic of `guarded!`
  deriving DecidableEq, Repr, Inhabited

def Rewriter.write (w : World γ) (r : Rewriter γ) (data : Bytes) : Rewriter γ × CallRes :=
  if r.poisoned then (r, .panicUseAfterError)
  else
    let res := r.stream.write w data
    match res.2 with
    | .ok () => ({ r with stream := res.1 }, .ok)
    | .error e => ({ r with stream := res.1, poisoned := true }, .err e)

def Rewriter.end (w : World γ) (r : Rewriter γ) : Rewriter γ × CallRes :=
  if r.poisoned then (r, .panicUseAfterError)
  else
    let res := r.stream.end w
    match res.2 with
    | .ok () => ({ r with stream := res.1, ended := true }, .ok)
    | .error e => ({ r with stream := res.1, poisoned := true, ended := true }, .err e)

/-- sink log of the rewriter -/
def Rewriter.sink (r : Rewriter γ) : List SinkEv := r.stream.disp.sink

/-- all bytes the sink received -/
def sinkBytes (l : List SinkEv) : Bytes :=
  l.flatMap fun | .chunk b => b | .enc _ => []

end LolHtml.Model
