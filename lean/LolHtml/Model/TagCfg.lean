import LolHtml.Basic
/-!
Tag-hash lists used by the tree-builder simulator, the ambiguity guard and the selector stack.
The concrete instance `LolHtml.Gen.Tags.cfg` is regenerated from the Rust sources by
`/verif/translate/tags2lean.py` on every check.
-/
namespace LolHtml.Model

structure TagCfg where
  /-- `get_text_type_adjustment` (tree_builder_simulator/mod.rs:64) -/
  rcdata : List Nat
  plaintext : Nat
  script : Nat
  rawtext : List Nat
  /-- `causes_foreign_content_exit` -/
  foreignExit : List Nat
  /-- `is_text_integration_point_in_math_ml` -/
  mathmlTextIP : List Nat
  /-- `is_html_integration_point_in_svg` -/
  svgHtmlIP : List Nat
  svg : Nat
  math : Nat
  /-- end tags that leave a foreign namespace (`should_leave_ns`: P, Br) -/
  nsLeaveEnd : List Nat
  font : Nat
  /-- `create_assert_for_tags!` list (ambiguity_guard.rs) -/
  guardTextSwitch : List Nat
  gSelect : Nat
  gFrameset : Nat
  gSelectExit : List Nat
  gTemplate : Nat
  gScript : Nat
  gNoframes : Nat
  /-- `is_void_element` (selectors_vm/stack.rs:13) -/
  nonVoidFast : List Nat
  void : List Nat
  deriving Repr, Inhabited

end LolHtml.Model
