import LolHtml.Basic
import LolHtml.Model.NameHash
/-!
Shared data types of the parser model (transcribed from src/html/*, src/parser/lexer/lexeme/*,
src/parser/state_machine/mod.rs, src/parser/mod.rs).
-/
namespace LolHtml.Model

/-- src/html/namespace.rs -/
inductive Ns | html | svg | mathml
  deriving DecidableEq, Repr, Inhabited

/-- src/html/text_type.rs -/
inductive TextType | plainText | rcData | rawText | scriptData | data | cdataSection
  deriving DecidableEq, Repr, Inhabited

/-- src/parser/mod.rs:28 -/
inductive Directive | scan | lex
  deriving DecidableEq, Repr, Inhabited

/-- Error outcomes. `internal` is `ActionError::Internal` (a `debug_assert!` in debug builds, a
`ContentHandlerError` in release builds); `panic` is any other panic site the model makes explicit
(checked arithmetic, checked slicing, debug assertions). -/
inductive Err
  | ambiguity (tagHash : Nat)
  | handler
  | mem
  | internal (site : String)
  | panic (site : String)
  deriving DecidableEq, Repr, Inhabited

/-- src/base/range.rs -/
structure Range where
  start : Nat
  «end» : Nat
  deriving DecidableEq, Repr, Inhabited

/-- `impl Align for usize` (src/base/align.rs:23) -/
def alignNat (x offset : Nat) : Nat := if x ≥ offset then x - offset else x

def Range.align (r : Range) (offset : Nat) : Range :=
  ⟨alignNat r.start offset, alignNat r.end offset⟩

def Range.default : Range := ⟨0, 0⟩

/-- src/parser/lexer/lexeme/token_outline.rs:5 -/
structure AttrOutline where
  name : Range
  value : Range
  raw : Range
  deriving DecidableEq, Repr, Inhabited

def AttrOutline.align (a : AttrOutline) (o : Nat) : AttrOutline :=
  ⟨a.name.align o, a.value.align o, a.raw.align o⟩

def AttrOutline.default : AttrOutline := ⟨.default, .default, .default⟩

/-- `TagTokenOutline` -/
inductive TagOutline
  | startTag (name : Range) (nameHash : Nat) (ns : Ns) (attrs : List AttrOutline) (selfClosing : Bool)
  | endTag (name : Range) (nameHash : Nat)
  deriving DecidableEq, Repr, Inhabited

def TagOutline.align : TagOutline → Nat → TagOutline
  | .startTag n h ns as sc, o => .startTag (n.align o) h ns (as.map (·.align o)) sc
  | .endTag n h, o => .endTag (n.align o) h

def TagOutline.isStart : TagOutline → Bool
  | .startTag .. => true
  | .endTag .. => false

def TagOutline.nameHash : TagOutline → Nat
  | .startTag _ h .. => h
  | .endTag _ h => h

def TagOutline.name : TagOutline → Range
  | .startTag n .. => n
  | .endTag n _ => n

structure DoctypeOutline where
  name : Option Range
  publicId : Option Range
  systemId : Option Range
  forceQuirks : Bool
  deriving DecidableEq, Repr, Inhabited

/-- `NonTagContentTokenOutline` -/
inductive NonTagOutline
  | text (t : TextType)
  | comment (text : Range)
  | doctype (d : DoctypeOutline)
  | eof
  deriving DecidableEq, Repr, Inhabited

def NonTagOutline.align : NonTagOutline → Nat → NonTagOutline
  | .comment r, o => .comment (r.align o)
  | .doctype d, o =>
      .doctype ⟨d.name.map (·.align o), d.publicId.map (·.align o), d.systemId.map (·.align o), d.forceQuirks⟩
  | t, _ => t

/-- A lexeme handed to the sink: raw range inside the current input slice, plus the document offset
of that slice (`Lexeme`, src/parser/lexer/lexeme/mod.rs:9). -/
structure TagLexeme where
  prevConsumed : Nat
  raw : Range
  outline : TagOutline
  deriving DecidableEq, Repr, Inhabited

structure NonTagLexeme where
  prevConsumed : Nat
  raw : Range
  outline : Option NonTagOutline
  deriving DecidableEq, Repr, Inhabited

/-- `LocalName` (src/html/local_name.rs:107): a valid hash, or the raw name bytes. -/
inductive LocalName
  | hash (h : Nat)
  | bytes (b : Bytes)
  deriving DecidableEq, Repr, Inhabited

/-- `Bytes::slice` (src/base/bytes.rs:128): the `debug_assert!` is modelled as a failure
(the harness runs with debug assertions), never as clamping. -/
def checkedSlice (xs : Bytes) (r : Range) : Option Bytes :=
  if r.start ≤ r.end ∧ r.end ≤ xs.length then some (slice xs r.start r.end) else none

/-- `LocalName::new` -/
def LocalName.new (input : Bytes) (r : Range) (h : Nat) : Option LocalName :=
  if NameHash.isEmpty h then (checkedSlice input r).map .bytes else some (.hash h)

/-- Tree-builder feedback (`TreeBuilderFeedback`, tree_builder_simulator/mod.rs:28); the boxed
`RequestLexeme` callbacks are represented by the site that created them. -/
inductive RLKind
  | integrationPointEnter   -- mod.rs:244
  | fontCheck               -- mod.rs:258
  | annotationXmlStart      -- mod.rs:278
  | annotationXmlEnd        -- mod.rs:222
  deriving DecidableEq, Repr, Inhabited

inductive Feedback
  | switchTextType (t : TextType)
  | setAllowCdata (b : Bool)
  | requestLexeme (k : RLKind)
  | none
  deriving DecidableEq, Repr, Inhabited

/-- `FeedbackDirective` (state_machine/mod.rs:13) -/
inductive FeedbackDirective
  | applyUnhandled (f : Feedback)
  | skip
  | none
  deriving DecidableEq, Repr, Inhabited

/-- `StateMachineBookmark` -/
structure Bookmark where
  cdataAllowed : Bool
  textType : TextType
  lastStartTagNameHash : Nat
  pos : Nat
  fd : FeedbackDirective
  deriving DecidableEq, Repr, Inhabited

/-- What an action / a state function can signal to the parsing loop (`ActionError`). -/
inductive Signal
  | err (e : Err)
  | directive (d : Directive) (bm : Bookmark)
  | endOfInput (consumed : Nat)
  deriving DecidableEq, Repr, Inhabited

end LolHtml.Model
