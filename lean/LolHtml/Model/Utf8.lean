/-
Model of `std::str::from_utf8` (well-formed UTF-8 per Unicode Table 3-7), as used by
`TextDecoder::split_utf8_start` (text_decoder.rs:146) and `IncompleteUtf8Resync`
(text_encoder.rs:183,190): the valid prefix, its scalar values, and whether the error is an
incomplete-but-so-far-valid tail (`Utf8Error::error_len() == None`) or an invalid byte.
-/
import LolHtml.Basic

namespace LolHtml.Enc.Utf8

def inR (lo hi b : UInt8) : Bool := lo ≤ b && b ≤ hi
def isCont (b : UInt8) : Bool := inR 0x80 0xBF b

/-- how `from_utf8` ended -/
inductive End
  | done        -- Ok(_)
  | incomplete  -- Err(e), e.error_len() == None
  | invalid     -- Err(e), e.error_len() == Some(_)
  deriving DecidableEq, Repr

structure Scan where
  chars : List Char
  validUpTo : Nat
  fin : End

def Scan.cons (c : Char) (w : Nat) (s : Scan) : Scan := ⟨c :: s.chars, w + s.validUpTo, s.fin⟩
def Scan.stop (e : End) : Scan := ⟨[], 0, e⟩

def cp2 (b0 b1 : UInt8) : Nat := (b0.toNat % 32) * 64 + b1.toNat % 64
def cp3 (b0 b1 b2 : UInt8) : Nat := ((b0.toNat % 16) * 64 + b1.toNat % 64) * 64 + b2.toNat % 64
def cp4 (b0 b1 b2 b3 : UInt8) : Nat :=
  (((b0.toNat % 8) * 64 + b1.toNat % 64) * 64 + b2.toNat % 64) * 64 + b3.toNat % 64

/-- allowed range of the second byte after a 3-byte lead / 4-byte lead -/
def lo3 (b0 : UInt8) : UInt8 := if b0 == 0xE0 then 0xA0 else 0x80
def hi3 (b0 : UInt8) : UInt8 := if b0 == 0xED then 0x9F else 0xBF
def lo4 (b0 : UInt8) : UInt8 := if b0 == 0xF0 then 0x90 else 0x80
def hi4 (b0 : UInt8) : UInt8 := if b0 == 0xF4 then 0x8F else 0xBF

/-- `std::str::from_utf8` as a scanner. -/
def scan : Bytes → Scan
  | [] => .stop .done
  | b0 :: r0 =>
    if b0 < 0x80 then (scan r0).cons (Char.ofNat b0.toNat) 1
    else if inR 0xC2 0xDF b0 then
      match r0 with
      | [] => .stop .incomplete
      | b1 :: r1 =>
        if isCont b1 then (scan r1).cons (Char.ofNat (cp2 b0 b1)) 2 else .stop .invalid
    else if inR 0xE0 0xEF b0 then
      match r0 with
      | [] => .stop .incomplete
      | b1 :: r1 =>
        if !inR (lo3 b0) (hi3 b0) b1 then .stop .invalid
        else match r1 with
          | [] => .stop .incomplete
          | b2 :: r2 =>
            if isCont b2 then (scan r2).cons (Char.ofNat (cp3 b0 b1 b2)) 3 else .stop .invalid
    else if inR 0xF0 0xF4 b0 then
      match r0 with
      | [] => .stop .incomplete
      | b1 :: r1 =>
        if !inR (lo4 b0) (hi4 b0) b1 then .stop .invalid
        else match r1 with
          | [] => .stop .incomplete
          | b2 :: r2 =>
            if !isCont b2 then .stop .invalid
            else match r2 with
              | [] => .stop .incomplete
              | b3 :: r3 =>
                if isCont b3 then (scan r3).cons (Char.ofNat (cp4 b0 b1 b2 b3)) 4
                else .stop .invalid
    else .stop .invalid

/-- `std::str::from_utf8(bs).ok()` as scalar values -/
def decodeValid (bs : Bytes) : Option (List Char) :=
  let s := scan bs
  if s.fin = .done then some s.chars else none

/-- UTF-8 bytes of a scalar value (`char::encode_utf8`). -/
def encodeChar (c : Char) : Bytes :=
  let n := c.toNat
  if n < 0x80 then [UInt8.ofNat n]
  else if n < 0x800 then [UInt8.ofNat (0xC0 + n / 64), UInt8.ofNat (0x80 + n % 64)]
  else if n < 0x10000 then
    [UInt8.ofNat (0xE0 + n / 4096), UInt8.ofNat (0x80 + n / 64 % 64), UInt8.ofNat (0x80 + n % 64)]
  else
    [UInt8.ofNat (0xF0 + n / 262144), UInt8.ofNat (0x80 + n / 4096 % 64),
     UInt8.ofNat (0x80 + n / 64 % 64), UInt8.ofNat (0x80 + n % 64)]

def encode (cs : List Char) : Bytes := cs.flatMap encodeChar

end LolHtml.Enc.Utf8
