/-
Model.FullCtl — `fullCtl cfg : Controller (FullSt cfg)`: the real controller (`Model/Full.lean`,
`rawCtl`) typed on the states that satisfy the invariant `Valid cfg` = `Good cfg` (`Lemmas/FullInv.lean`) + `Sync`
(`Lemmas/FullSync.lean`).

Why a subtype: the generic theorems about the stream (`Observing`, `ObservingAll`, `CleanEnds`;
C01 / C11 / C12) quantify over ALL controller states `g : γ`. The real controller only behaves as an
observer in states it can reach with observing scripts (no element marked "content removed", only
observing end-tag handlers stored), so its state type carries that invariant. Every callback is
`rawCtl`'s callback on the underlying state (`fullCtl_val_*`, by `rfl`); the proofs are erased at
run time, so lane `full` executes exactly these definitions.
-/
import LolHtml.Lemmas.FullSync

namespace LolHtml.Model.Full
open LolHtml LolHtml.Model

/-- the invariant carried by the state type: `Good` (dispatcher totals synchronised; observer facts when
no script mutates) and `Sync` (one controller descriptor per open element of the VM) -/
structure Valid (cfg : Cfg) (s : St) : Prop extends Good cfg s where
  sync : Sync s

/-- states of `HtmlRewriteController` that satisfy the invariant -/
def FullSt (cfg : Cfg) : Type := { s : St // Valid cfg s }

/-- `HtmlRewriteController::from_settings` -/
def FullSt.init (cfg : Cfg) : FullSt cfg := ⟨St.init cfg, ⟨init_good cfg, init_sync cfg⟩⟩

/-- **The real transform controller** (`HtmlRewriteController` as a `TransformController`). -/
def fullCtl (cfg : Cfg) : Controller (FullSt cfg) :=
  { initialFlags := fun s => s.1.flags
    startTag := fun s name ns => (⟨(startTag s.1 name ns).1, ⟨startTag_good s.2.toGood name ns, startTag_sync s.2.sync name ns⟩⟩, (startTag s.1 name ns).2)
    auxInfo := fun s info => (⟨(auxInfo s.1 info).1, ⟨auxInfo_good s.2.toGood info, auxInfo_sync s.2.sync info⟩⟩, (auxInfo s.1 info).2)
    endTag := fun s name => (⟨(endTag s.1 name).1, ⟨endTag_good s.2.toGood name, endTag_sync s.2.sync name⟩⟩, (endTag s.1 name).2)
    token := fun s t => (⟨(token cfg s.1 t).1, ⟨token_good s.2.toGood t, token_sync s.2.sync t⟩⟩, (token cfg s.1 t).2)
    shouldEmit := fun s => shouldEmit s.1
    handleEnd := fun s => (⟨(handleEnd cfg s.1).1, ⟨handleEnd_good s.2.toGood, handleEnd_sync s.2.sync⟩⟩, (handleEnd cfg s.1).2)
    -- no bail-out handlers are registered (rewrite_controller.rs:195: the loop is empty)
    bailOut := fun s _ => (s, []) }

/-- the whole rewriter: current tokenizer table, current tag lists, the real controller -/
def fullWorld (tbl : Table) (tags : TagCfg) (cfg : Cfg) : World (FullSt cfg) := ⟨tbl, tags, fullCtl cfg⟩

/-! `fullCtl` is `rawCtl` on the underlying state -/

theorem fullCtl_val_startTag (cfg : Cfg) (s : FullSt cfg) (n : LocalName) (ns : Model.Ns) :
    (((fullCtl cfg).startTag s n ns).1.1, ((fullCtl cfg).startTag s n ns).2) = (rawCtl cfg).startTag s.1 n ns := rfl
theorem fullCtl_val_auxInfo (cfg : Cfg) (s : FullSt cfg) (i : AuxInfo) :
    (((fullCtl cfg).auxInfo s i).1.1, ((fullCtl cfg).auxInfo s i).2) = (rawCtl cfg).auxInfo s.1 i := rfl
theorem fullCtl_val_endTag (cfg : Cfg) (s : FullSt cfg) (n : LocalName) :
    (((fullCtl cfg).endTag s n).1.1, ((fullCtl cfg).endTag s n).2) = (rawCtl cfg).endTag s.1 n := rfl
theorem fullCtl_val_token (cfg : Cfg) (s : FullSt cfg) (t : Token) :
    (((fullCtl cfg).token s t).1.1, ((fullCtl cfg).token s t).2) = (rawCtl cfg).token s.1 t := rfl
theorem fullCtl_val_handleEnd (cfg : Cfg) (s : FullSt cfg) :
    (((fullCtl cfg).handleEnd s).1.1, ((fullCtl cfg).handleEnd s).2) = (rawCtl cfg).handleEnd s.1 := rfl
theorem fullCtl_val_flags (cfg : Cfg) (s : FullSt cfg) :
    (fullCtl cfg).initialFlags s = (rawCtl cfg).initialFlags s.1 ∧
    (fullCtl cfg).shouldEmit s = (rawCtl cfg).shouldEmit s.1 := ⟨rfl, rfl⟩

end LolHtml.Model.Full
