/-
Model of `TextEncoder::encode` (/repo/src/rewritable_units/text_encoder.rs:44-117): ASCII fast path,
`encode_from_utf8` into a 63-byte stack / 4096-byte heap buffer with `OutputFull` retries, numeric
character references for unmappable scalar values; and of `IncompleteUtf8Resync` (:127-239).
-/
import LolHtml.Model.Codec
import LolHtml.Model.Utf8

namespace LolHtml.Enc

/-! ## numeric character references (encoding_rs `write_ncr`) -/

/-- decimal digits of `n < 10^7` without leading zeros (at least one digit) -/
def dec7 (n : Nat) : Bytes :=
  let ds := [n / 1000000 % 10, n / 100000 % 10, n / 10000 % 10, n / 1000 % 10, n / 100 % 10, n / 10 % 10]
  ((ds.dropWhile (· == 0)) ++ [n % 10]).map (fun d => UInt8.ofNat (48 + d))

/-- `&#N;` -/
def ncr (ch : Char) : Bytes := [38, 35] ++ dec7 ch.toNat ++ [59]

/-- what one scalar value turns into in the output encoding -/
def encUnit (c : Codec) (ch : Char) : Bytes :=
  match c.encChar ch with
  | some bs => bs
  | none => ncr ch

/-- THE SPECIFICATION: whole-string encode with NCR fallback (`Encoding::encode`). -/
def encodeAll (c : Codec) (s : List Char) : Bytes := s.flatMap (encUnit c)

/-! ## `Encoder::encode_from_utf8(src, dst, false)` on a buffer of `bufLen` bytes -/

/-- where the encoder reports `OutputFull` although the next unit would fit: any function; consulted
only when fewer than 14 bytes are free (encoding_rs reserves `NCR_EXTRA = 10` bytes plus at most one
4-byte sequence). -/
structure EncPolicy where
  stop : Nat → Nat → List Char → Bool

def EncPolicy.greedy : EncPolicy := ⟨fun _ _ _ => false⟩
def EncPolicy.lazy : EncPolicy := ⟨fun _ _ _ => true⟩

structure EncodeRes where
  status : CoderResult
  /-- scalar values consumed (`read` is a byte offset on a char boundary in the Rust) -/
  read : Nat
  out : Bytes

def EncodeRes.push (u : Bytes) (r : EncodeRes) : EncodeRes :=
  { r with read := r.read + 1, out := u ++ r.out }

def encodeAux (c : Codec) (pol : EncPolicy) (bufLen : Nat) : List Char → Nat → EncodeRes
  | [], _ => ⟨.inputEmpty, 0, []⟩
  | ch :: rest, free =>
    let u := encUnit c ch
    if free < u.length || (free < 14 && pol.stop bufLen free (ch :: rest)) then ⟨.outputFull, 0, []⟩
    else (encodeAux c pol bufLen rest (free - u.length)).push u

def encodeFromUtf8 (c : Codec) (pol : EncPolicy) (bufLen : Nat) (content : List Char) : EncodeRes :=
  encodeAux c pol bufLen content bufLen

/-! ## `TextEncoder::encode` -/

/-- `Encoding::ascii_valid_up_to(content.as_bytes())` counted in scalar values -/
def asciiPrefixLen : List Char → Nat
  | [] => 0
  | ch :: rest => if ch.toNat < 128 then 1 + asciiPrefixLen rest else 0

def asciiBytes (s : List Char) : Bytes := s.map (fun ch => UInt8.ofNat ch.toNat)

/-- buffer sizes: `Buffer::Stack([u8; 63])`, `DEFAULT_HEAP_BUFFER_SIZE = 4096`,
`CONTENT_WRITE_LENGTH_LONG_ENOUGH_TO_USE_LARGER_BUFFER = 1 << 20` (text_encoder.rs:15-27) -/
structure BufCfg where
  stack : Nat
  heap : Nat
  longEnough : Nat

def BufCfg.real : BufCfg := ⟨63, 4096, 1048576⟩

/-- Result of `encode`: buffer kind afterwards, the calls of `output_handler`, and the content that was
silently dropped by one of the early `return`s (text_encoder.rs:88-90, :101-104) — `[]` by
`C13_encoder`. -/
structure EncodeOut where
  heap : Bool
  calls : List Bytes
  dropped : List Char

/-- text_encoder.rs:65-116; `none` = fuel exhausted (never, `C13_encoder`). -/
def encodeLoop (c : Codec) (pol : EncPolicy) (cfg : BufCfg) : Nat → Bool → List Char → Option EncodeOut
  | 0, _, _ => none
  | fuel + 1, heap, content =>
    -- :68-78 ASCII fast path (split_at_checked at an ASCII boundary always succeeds)
    let n := asciiPrefixLen content
    let ascii := content.take n
    let remainder := content.drop n
    let o1 : List Bytes := if ascii.isEmpty then [] else [asciiBytes ascii]
    if remainder.isEmpty then some ⟨heap, o1, []⟩
    else
      -- :81 buffer_for_length(content.len())
      let heap1 := heap || decide (cfg.longEnough ≤ (Utf8.encode remainder).length)
      let bufLen := if heap1 then cfg.heap else cfg.stack
      -- :84
      let r := encodeFromUtf8 c pol bufLen remainder
      -- :86-88
      let o2 : List Bytes := if 0 < r.out.length && r.out.length ≤ bufLen then [r.out] else []
      -- :89-92
      let rest := remainder.drop r.read
      if rest.isEmpty then some ⟨heap1, o1 ++ o2, []⟩
      else
        match r.status with
        | .inputEmpty => some ⟨heap1, o1 ++ o2, rest⟩                 -- :95-98 (debug_assert only)
        | .outputFull =>
          if 0 < r.out.length then                                    -- :100
            match encodeLoop c pol cfg fuel heap1 rest with
            | none => none
            | some o => some ⟨o.heap, o1 ++ o2 ++ o.calls, o.dropped⟩
          else if cfg.heap ≤ bufLen then some ⟨heap1, o1 ++ o2, rest⟩ -- :103-106 "encoding_rs stalled"
          else
            match encodeLoop c pol cfg fuel true rest with             -- :107
            | none => none
            | some o => some ⟨o.heap, o1 ++ o2 ++ o.calls, o.dropped⟩

def encode (c : Codec) (pol : EncPolicy) (cfg : BufCfg) (heap : Bool) (content : List Char) :
    Option EncodeOut :=
  encodeLoop c pol cfg (content.length + 1) heap content

/-! ## `IncompleteUtf8Resync` -/

/-- `char_bytes[..char_len]` (text_encoder.rs:127-132) -/
structure Resync where
  buf : Bytes
  deriving DecidableEq, Repr

def Resync.new : Resync := ⟨[]⟩

/-- `is_continuation_byte` (:119) -/
def isContinuationByte (b : UInt8) : Bool := b >>> 6 == 2

/-- `utf8_width` = `b.leading_ones()` (:123) -/
def utf8Width (b : UInt8) : Nat :=
  if b < 0x80 then 0 else if b < 0xC0 then 1 else if b < 0xE0 then 2 else if b < 0xF0 then 3
  else if b < 0xF8 then 4 else if b < 0xFC then 5 else if b < 0xFE then 6 else if b < 0xFF then 7
  else 8

/-- the `while let` loop at :153-165: append continuation bytes while there is room (4 bytes);
returns `(char_bytes, content, must_emit_now)` -/
def absorb : Bytes → Bytes → Bytes × Bytes × Bool
  | buf, [] => (buf, [], false)
  | buf, b :: rest =>
    if isContinuationByte b && buf.length < 4 then absorb (buf ++ [b]) rest
    else (buf, b :: rest, true)

inductive Utf8Error
  | invalid
  deriving DecidableEq, Repr

/-- `utf8_width(self.char_bytes[0])` (:167) -/
def headWidthOf (buf : Bytes) : Nat :=
  match buf with
  | [] => 0
  | b0 :: _ => utf8Width b0

/-- `utf8_bytes_to_slice`, branch `self.char_len > 0` (:150-183) -/
def sliceBuffered (buf0 content : Bytes) : Except Utf8Error (Resync × Bytes × Bytes) :=
  -- :151-169 must_emit_now
  if (absorb buf0 content).2.2 || decide (headWidthOf (absorb buf0 content).1 ≤ (absorb buf0 content).1.length) then
    -- :172-178 (char_len is reset before the check)
    if (Utf8.scan (absorb buf0 content).1).fin = .done then
      .ok (⟨[]⟩, (absorb buf0 content).1, (absorb buf0 content).2.1)
    else .error .invalid
  else .ok (⟨(absorb buf0 content).1⟩, [], [])                 -- :181-182

/-- `utf8_bytes_to_slice`, branch `self.char_len == 0` (:184-204) -/
def sliceFresh (st : Resync) (content : Bytes) : Except Utf8Error (Resync × Bytes × Bytes) :=
  match (Utf8.scan content).fin with
  | .done => .ok (st, content, [])                             -- :186
  | .invalid => .error .invalid                                -- :188
  | .incomplete =>
    -- :190-201 split_at_checked(valid_up_to); char_bytes.get_mut(..invalid.len()); from_utf8(valid)
    if (Utf8.scan content).validUpTo > content.length then .error .invalid
    else if (content.drop (Utf8.scan content).validUpTo).length > 4 then .error .invalid
    else if (Utf8.scan (content.take (Utf8.scan content).validUpTo)).fin = .done then
      .ok (⟨content.drop (Utf8.scan content).validUpTo⟩, content.take (Utf8.scan content).validUpTo, [])
    else .error .invalid

/-- `utf8_bytes_to_slice` (:146-206): new state, valid fragment, unchecked remainder. -/
def utf8BytesToSlice (st : Resync) (content : Bytes) : Except Utf8Error (Resync × Bytes × Bytes) :=
  if st.buf.length > 0 then sliceBuffered st.buf content else sliceFresh st content

/-- `discard_incomplete` (:209-216) -/
def discardIncomplete (st : Resync) : Resync × Bool :=
  if st.buf.length > 0 then (⟨[]⟩, true) else (st, false)

/-- Result of `write_utf8_chunk`: the non-empty fragments passed to `flush` (also those flushed before
an error), and the new state or the error. -/
structure WriteRes where
  flushed : List Bytes
  res : Except Utf8Error Resync

/-- `write_utf8_chunk` (:218-231); the outer `Option` is fuel (3 iterations always suffice). -/
def writeLoop : Nat → Resync → Bytes → Option WriteRes
  | 0, _, _ => none
  | fuel + 1, st, content =>
    if content.isEmpty then some ⟨[], .ok st⟩
    else
      match utf8BytesToSlice st content with
      | .error e => some ⟨[], .error e⟩
      | .ok (st1, valid, rest) =>
        match writeLoop fuel st1 rest with
        | none => none
        | some r => some ⟨if valid.isEmpty then r.flushed else valid :: r.flushed, r.res⟩

def writeUtf8Chunk (st : Resync) (content : Bytes) : Option WriteRes :=
  writeLoop 3 st content

/-- A sequence of `write_utf8_chunk` calls (stops at the first error, like a caller using `?`). -/
def writeAll : Resync → List Bytes → Option WriteRes
  | st, [] => some ⟨[], .ok st⟩
  | st, p :: ps =>
    match writeUtf8Chunk st p with
    | none => none
    | some r =>
      match r.res with
      | .error e => some ⟨r.flushed, .error e⟩
      | .ok st1 =>
        match writeAll st1 ps with
        | none => none
        | some r2 => some ⟨r.flushed ++ r2.flushed, r2.res⟩

end LolHtml.Enc
