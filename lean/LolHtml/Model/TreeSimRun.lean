import LolHtml.Model.TreeSim
/-!
Driving the tree-builder simulator over tag sequences: one *tag step* (feedback for the tag + the
`RequestLexeme` callback applied immediately to the same tag, as the lexer does) and runs.
-/
namespace LolHtml.Model

/-- A tag as the simulator sees it: the name hash given to `get_feedback_for_*_tag` and the lexeme
view handed to a `RequestLexeme` callback. (`view.isStart` says which of the two entry points is
called. Nothing ties `hash` to `view.name`: the invariants hold for arbitrary pairs.) -/
structure TagEvent where
  hash : Nat
  view : TagView
  deriving Repr, Inhabited

/-- `Lexer::handle_tree_builder_feedback` for `RequestLexeme` (lexer/mod.rs:91): the callback runs at
once on the lexeme of the same tag, and its feedback replaces the request. -/
def Sim.finishStep (v : TagView) : Except Err (Sim × Feedback) → Except Err (Sim × Feedback)
  | .error e => .error e
  | .ok (s', .requestLexeme k) =>
    match s'.runCallback k v with
    | some r => .ok r
    | none => .error (.panic "request_lexeme callback: expect_tag! mismatch or leave_ns on empty stack")
  | .ok r => .ok r

/-- One tag: `get_feedback_for_start_tag` / `get_feedback_for_end_tag`, then the requested callback. -/
def Sim.stepTag (cfg : TagCfg) (s : Sim) (ev : TagEvent) : Except Err (Sim × Feedback) :=
  Sim.finishStep ev.view
    (if ev.view.isStart then s.feedbackForStartTag cfg ev.hash else s.feedbackForEndTag cfg ev.hash)

/-- Run over a tag sequence: the (state, feedback) after every accepted tag, and the error that
stopped the run, if any. -/
def Sim.run (cfg : TagCfg) : Sim → List TagEvent → List (Sim × Feedback) × Option Err
  | _, [] => ([], none)
  | s, ev :: evs =>
    match s.stepTag cfg ev with
    | .error e => ([], some e)
    | .ok (s', fb) =>
      let r := Sim.run cfg s' evs
      ((s', fb) :: r.1, r.2)

end LolHtml.Model
