import LolHtml.Model.Types
import LolHtml.Model.TagCfg
/-!
Tree-builder simulator and ambiguity guard
(src/parser/tree_builder_simulator/{mod,ambiguity_guard}.rs), over the translated tag lists.
-/
namespace LolHtml.Model

/-- ambiguity_guard.rs:128 `State` (the template depth is a `u64`; modelled unbounded) -/
inductive GuardState
  | default | inSelect | inTemplateInSelect (depth : Nat) | inOrAfterFrameset
  deriving DecidableEq, Repr, Inhabited

/-- `assert_not_ambiguous_text_type_switch` -/
def Guard.assertNotAmbiguous (cfg : TagCfg) (tag : Nat) : Except Err Unit :=
  if cfg.guardTextSwitch.contains tag then .error (.ambiguity tag) else .ok ()

/-- `AmbiguityGuard::track_start_tag` (ambiguity_guard.rs:147) -/
def Guard.trackStartTag (cfg : TagCfg) (g : GuardState) (tag : Nat) : Except Err GuardState :=
  match g with
  | .default =>
      if tag == cfg.gSelect then .ok .inSelect
      else if tag == cfg.gFrameset then .ok .inOrAfterFrameset
      else .ok .default
  | .inSelect =>
      if cfg.gSelectExit.contains tag then .ok .default
      else if tag == cfg.gTemplate then .ok (.inTemplateInSelect 1)
      else if tag != cfg.gScript then
        match Guard.assertNotAmbiguous cfg tag with
        | .ok () => .ok .inSelect
        | .error e => .error e
      else .ok .inSelect
  | .inTemplateInSelect d =>
      if tag == cfg.gTemplate then .ok (.inTemplateInSelect (d + 1))
      else
        match Guard.assertNotAmbiguous cfg tag with
        | .ok () => .ok (.inTemplateInSelect d)
        | .error e => .error e
  | .inOrAfterFrameset =>
      if tag != cfg.gNoframes then
        match Guard.assertNotAmbiguous cfg tag with
        | .ok () => .ok .inOrAfterFrameset
        | .error e => .error e
      else .ok .inOrAfterFrameset

/-- `AmbiguityGuard::track_end_tag` (ambiguity_guard.rs:192) -/
def Guard.trackEndTag (cfg : TagCfg) (g : GuardState) (tag : Nat) : GuardState :=
  match g with
  | .inSelect => if tag == cfg.gSelect then .default else g
  | .inTemplateInSelect d =>
      if tag == cfg.gTemplate then (if d == 1 then .inSelect else .inTemplateInSelect (d - 1)) else g
  | _ => g

/-- `TreeBuilderSimulator` (mod.rs:103). `nsStack` has its top at the head. -/
structure Sim where
  nsStack : List Ns
  currentNs : Ns
  guard : GuardState
  strict : Bool
  deriving DecidableEq, Repr, Inhabited

def Sim.new (strict : Bool) : Sim := ⟨[.html], .html, .default, strict⟩

/-- `get_text_type_adjustment` (mod.rs:64) -/
def textTypeAdjustment (cfg : TagCfg) (tag : Nat) : Feedback :=
  if cfg.rcdata.contains tag then .switchTextType .rcData
  else if tag == cfg.plaintext then .switchTextType .plainText
  else if tag == cfg.script then .switchTextType .scriptData
  else if cfg.rawtext.contains tag then .switchTextType .rawText
  else .none

/-- `enter_ns` -/
def Sim.enterNs (s : Sim) (ns : Ns) : Sim × Feedback :=
  ({ s with nsStack := ns :: s.nsStack, currentNs := ns }, .setAllowCdata (ns != .html))

/-- `leave_ns` (mod.rs:187): popping the last item is a `debug_assert!(false)`; modelled as `none`. -/
def Sim.leaveNs (s : Sim) : Option (Sim × Feedback) :=
  match s.nsStack with
  | _ :: top :: rest => some ({ s with nsStack := top :: rest, currentNs := top }, .setAllowCdata (top != .html))
  | _ => none

def Sim.isIntegrationPointEnter (cfg : TagCfg) (s : Sim) (tag : Nat) : Bool :=
  (s.currentNs == .svg && cfg.svgHtmlIP.contains tag) || (s.currentNs == .mathml && cfg.mathmlTextIP.contains tag)

/-- `get_feedback_for_start_tag_in_foreign_content` (mod.rs:236) -/
def Sim.startTagInForeign (cfg : TagCfg) (s : Sim) (tag : Nat) : Option (Sim × Feedback) :=
  if cfg.foreignExit.contains tag then s.leaveNs
  else if s.isIntegrationPointEnter cfg tag then some (s, .requestLexeme .integrationPointEnter)
  else if tag == cfg.font then some (s, .requestLexeme .fontCheck)
  else if NameHash.isEmpty tag && s.currentNs == .mathml then some (s, .requestLexeme .annotationXmlStart)
  else some (s, .none)

/-- `get_feedback_for_start_tag` (mod.rs:125). `none` = the unreachable `debug_assert!` in `leave_ns`. -/
def Sim.feedbackForStartTag (cfg : TagCfg) (s : Sim) (tag : Nat) : Except Err (Sim × Feedback) :=
  let guarded : Except Err Sim :=
    if s.strict then
      match Guard.trackStartTag cfg s.guard tag with
      | .ok g => .ok { s with guard := g }
      | .error e => .error e
    else .ok s
  match guarded with
  | .error e => .error e
  | .ok s =>
    if tag == cfg.svg then .ok (s.enterNs .svg)
    else if tag == cfg.math then .ok (s.enterNs .mathml)
    else if s.currentNs != .html then
      match s.startTagInForeign cfg tag with
      | some r => .ok r
      | none => .error (.panic "leave_ns: namespace stack empty")
    else .ok (s, textTypeAdjustment cfg tag)

/-- `should_leave_ns` (mod.rs:159) -/
def Sim.shouldLeaveNs (cfg : TagCfg) (s : Sim) (tag : Nat) : Bool :=
  (s.currentNs == .svg && tag == cfg.svg) || (s.currentNs == .mathml && tag == cfg.math) ||
  ((s.currentNs == .svg || s.currentNs == .mathml) && cfg.nsLeaveEnd.contains tag)

/-- `check_integration_point_exit` (mod.rs:204) -/
def Sim.checkIntegrationPointExit (cfg : TagCfg) (s : Sim) (tag : Nat) : Option (Sim × Feedback) :=
  match s.nsStack with
  | _ :: prev :: _ =>
      if (prev == .mathml && cfg.mathmlTextIP.contains tag) || (prev == .svg && cfg.svgHtmlIP.contains tag) then
        s.leaveNs
      else if NameHash.isEmpty tag && prev == .mathml then some (s, .requestLexeme .annotationXmlEnd)
      else some (s, .none)
  | _ => some (s, .none)

/-- `get_feedback_for_end_tag` (mod.rs:145) -/
def Sim.feedbackForEndTag (cfg : TagCfg) (s : Sim) (tag : Nat) : Except Err (Sim × Feedback) :=
  let s := if s.strict then { s with guard := Guard.trackEndTag cfg s.guard tag } else s
  let r :=
    if s.currentNs == .html then s.checkIntegrationPointExit cfg tag
    else if s.shouldLeaveNs cfg tag then s.leaveNs
    else some (s, .none)
  match r with
  | some r => .ok r
  | none => .error (.panic "leave_ns: namespace stack empty")

/-- What the `RequestLexeme` callbacks read from the tag lexeme. -/
structure TagView where
  isStart : Bool
  name : Bytes
  attrs : List (Bytes × Bytes)   -- (name bytes, value bytes)
  selfClosing : Bool
  deriving Repr, Inhabited

/-- bytes of "annotation-xml", "color", "size", "face", "encoding", "text/html", "application/xhtml+xml" -/
def bAnnotationXml : Bytes := [97,110,110,111,116,97,116,105,111,110,45,120,109,108]
def bColor : Bytes := [99,111,108,111,114]
def bSize : Bytes := [115,105,122,101]
def bFace : Bytes := [102,97,99,101]
def bEncoding : Bytes := [101,110,99,111,100,105,110,103]
def bTextHtml : Bytes := [116,101,120,116,47,104,116,109,108]
def bAppXhtml : Bytes := [97,112,112,108,105,99,97,116,105,111,110,47,120,104,116,109,108,43,120,109,108]

/-- `eq_case_insensitive(mixed, lowercased)` (src/base/mod.rs:21) -/
def eqCaseInsensitive (mixed lowercased : Bytes) : Bool := asciiLowerBytes mixed == lowercased

/-- The four `request_lexeme` callbacks. `none` = `expect_tag!` mismatch (`debug_assert!`) or the
`leave_ns` assertion. -/
def Sim.runCallback (s : Sim) (k : RLKind) (v : TagView) : Option (Sim × Feedback) :=
  match k with
  | .integrationPointEnter =>
      if !v.isStart then none
      else if v.selfClosing then some (s, .none) else some (s.enterNs .html)
  | .fontCheck =>
      if !v.isStart then none
      else if v.attrs.any (fun a => eqCaseInsensitive a.1 bColor || eqCaseInsensitive a.1 bSize || eqCaseInsensitive a.1 bFace)
      then s.leaveNs else some (s, .none)
  | .annotationXmlStart =>
      if !v.isStart then none
      else if !v.selfClosing && eqCaseInsensitive v.name bAnnotationXml &&
          v.attrs.any (fun a => eqCaseInsensitive a.1 bEncoding && (eqCaseInsensitive a.2 bTextHtml || eqCaseInsensitive a.2 bAppXhtml))
      then some (s.enterNs .html) else some (s, .none)
  | .annotationXmlEnd =>
      if v.isStart then none
      else if eqCaseInsensitive v.name bAnnotationXml then s.leaveNs else some (s, .none)

end LolHtml.Model
