/-
Model.SelVM — selector AST (trie) → program → matching VM, with the open-element stack.

Rust anchors (all under /repo/src/selectors_vm unless noted):
  ast.rs:41-47,99-104,186-253   OnTagNameExpr / OnAttributesExpr / Expr / Predicate / add_component /
                                 add_selector_components (negation flattening)
  ast.rs:255-345                 AstNode, Ast::host_expressions, Ast::add_selector
  match_info.rs                  DenseHashSet (as a strictly increasing `List Nat`)
  compiler.rs:56-197             Compilable for Expr<…> (closures = `evalTagExpr` / `evalAttrExpr`)
  compiler.rs:209-319            compile_predicate / reserve / compile_descendants / compile_nodes / compile
  program.rs                     ExecutionBranch, TryExecResult, Instruction::{try_exec_without_attrs,
                                 complete_exec_with_attrs, exec}, Program
  stack.rs                       is_void_element, ChildCounter, TypedChildCounterMap, StackItem, Stack
  mod.rs                         ExecutionCtx, SelectorMatchingVm (exec_for_start_tag, bailout, the three
                                 recover_after_bailout_*, exec_for_end_tag)
  ../rewriter/rewrite_controller.rs:100-165 + ../transform_stream/dispatcher.rs:300-370
                                 handle_start_tag / respond_to_aux_info_request (= `handleStartTag`)

Abstractions (documented in docs/pkg-selvm.md): `LocalName` is the name bytes compared
ASCII-case-insensitively; hash maps are association lists keyed by the lower-cased name; the memory
limiter (`push_item` failing) and the `i32` overflow of a child counter after 2^31-1 siblings are
not modelled; selector literals are assumed representable in the document encoding.
-/
import LolHtml.Model.Sel

namespace LolHtml.SelVM
open LolHtml LolHtml.Sel

/-- The panics / `expect`s the Rust code can hit in principle. -/
inductive Panic where
  | typedCounterMissing   -- compiler.rs:88 `.expect("Counter for type required at this point")`
  | instrIndex            -- mod.rs:332,351,382 `self.program.instructions[addr]`
  | openNameCountUnderflow -- stack.rs:309 `*e.get_mut() -= 1`
  deriving DecidableEq, Repr

instance instDecidableEqExcept {ε α : Type} [DecidableEq ε] [DecidableEq α] : DecidableEq (Except ε α) :=
  fun a b =>
    match a, b with
    | .ok x, .ok y => if h : x = y then isTrue (by rw [h]) else isFalse (fun h' => h (Except.ok.inj h'))
    | .error x, .error y =>
      if h : x = y then isTrue (by rw [h]) else isFalse (fun h' => h (Except.error.inj h'))
    | .ok _, .error _ => isFalse (fun h => by cases h)
    | .error _, .ok _ => isFalse (fun h => by cases h)

/-! ## AST (ast.rs) -/

inductive OnTagNameExpr where
  | explicitAny
  | unmatchable
  | localName (n : Bytes)
  | nthChild (step offset : Int)
  | nthOfType (step offset : Int)
  deriving DecidableEq, Repr

inductive OnAttributesExpr where
  | id (v : Bytes)
  | cls (v : Bytes)
  | attributeExists (n : Bytes)
  | attributeComparison (name value : Bytes) (cs : ParsedCase) (op : AttrOp)
  deriving DecidableEq, Repr

structure Expr (α : Type) where
  simpleExpr : α
  negation : Bool
  deriving DecidableEq, Repr

structure Predicate where
  onTagNameExprs : List (Expr OnTagNameExpr) := []
  onAttrExprs : List (Expr OnAttributesExpr) := []
  deriving DecidableEq, Repr

inductive Condition where
  | onTagName (e : OnTagNameExpr)
  | onAttributes (e : OnAttributesExpr)

/-- `impl From<&Component> for Condition` (ast.rs:114-183) on the accepted components. The
    `Negation` arm is the `bad_selector` fallback; both callers dispatch on `Negation` first. -/
def Condition.ofSimple : Simple → Condition
  | .type n => .onTagName (.localName n)
  | .universal => .onTagName .explicitAny
  | .id v => .onAttributes (.id v)
  | .cls v => .onAttributes (.cls v)
  | .attrExists n => .onAttributes (.attributeExists (asciiLowerBytes n))   -- local_name_lower
  | .attr n op v cs => .onAttributes (.attributeComparison (asciiLowerBytes n) v cs op)
  | .nthChild a b => .onTagName (.nthChild a b)
  | .nthOfType a b => .onTagName (.nthOfType a b)
  | .firstChild => .onTagName (.nthChild 0 1)
  | .firstOfType => .onTagName (.nthOfType 0 1)
  | .not _ => .onTagName .unmatchable

/-- `Predicate::add_component` (ast.rs:225) -/
def Predicate.addComponent (p : Predicate) (s : Simple) (negation : Bool) : Predicate :=
  match Condition.ofSimple s with
  | .onTagName e => { p with onTagNameExprs := p.onTagNameExprs ++ [⟨e, negation⟩] }
  | .onAttributes e => { p with onAttrExprs := p.onAttrExprs ++ [⟨e, negation⟩] }

/- `Predicate::add_selector_components` (ast.rs:232-251): every component of a compound is added
   with the *same* negation flag, a nested `:not()` flips it — i.e. `:not(div.foo)` becomes
   `!div && !.foo` (finding F3). `addSimple p neg s` is one iteration of the `for component` loop. -/
mutual
def Predicate.addSimple (p : Predicate) (negation : Bool) : Simple → Predicate
  | .not args => Predicate.addArgs p (!negation) args
  | .type n => p.addComponent (.type n) negation
  | .universal => p.addComponent .universal negation
  | .id v => p.addComponent (.id v) negation
  | .cls v => p.addComponent (.cls v) negation
  | .attrExists n => p.addComponent (.attrExists n) negation
  | .attr n op v cs => p.addComponent (.attr n op v cs) negation
  | .nthChild a b => p.addComponent (.nthChild a b) negation
  | .nthOfType a b => p.addComponent (.nthOfType a b) negation
  | .firstChild => p.addComponent .firstChild negation
  | .firstOfType => p.addComponent .firstOfType negation
def Predicate.addSelectorComponents (p : Predicate) (negation : Bool) : List Simple → Predicate
  | [] => p
  | s :: ss => Predicate.addSelectorComponents (Predicate.addSimple p negation s) negation ss
def Predicate.addArgs (p : Predicate) (negation : Bool) : List (List Simple) → Predicate
  | [] => p
  | c :: cs => Predicate.addArgs (Predicate.addSelectorComponents p negation c) negation cs
end

/-- The predicate `add_selector` (ast.rs:315-331) builds for one compound of the top-level selector:
    `iter_raw_parse_order_from(0)` is the *reverse* of the crate's storage order, which keeps simple
    selectors of a compound left-to-right, so a compound's components arrive right-to-left;
    a top-level `Negation(ss)` adds every `s` with `negation = true`, anything else `false` —
    both are `addSimple · false`. -/
def Predicate.ofCompound (c : Compound) : Predicate :=
  c.reverse.foldl (fun p s => Predicate.addSimple p false s) {}

/-! ### DenseHashSet as a strictly increasing list -/

def DenseHashSet.insert : List Nat → Nat → List Nat
  | [], v => [v]
  | x :: xs, v => if v < x then v :: x :: xs else if v == x then x :: xs else x :: DenseHashSet.insert xs v

def DenseHashSet.union (a b : List Nat) : List Nat := b.foldl DenseHashSet.insert a

inductive AstNode where
  | mk (predicate : Predicate) (children descendants : List AstNode) (matchIds : List Nat)

def AstNode.predicate : AstNode → Predicate | .mk p _ _ _ => p
def AstNode.children : AstNode → List AstNode | .mk _ c _ _ => c
def AstNode.descendants : AstNode → List AstNode | .mk _ _ d _ => d
def AstNode.matchIds : AstNode → List Nat | .mk _ _ _ i => i
def AstNode.new (p : Predicate) : AstNode := .mk p [] [] []

structure Ast where
  root : List AstNode := []
  cumulativeNodeCount : Nat := 0

/-- `Ast::host_expressions` (ast.rs:280-297): index of the first branch with an equal predicate, or
    a new node pushed at the end. Returned as a split `(before, node, after, isNew)` so that the
    later `branches[node_idx]` needs no partial indexing. -/
def hostExpressions (p : Predicate) : List AstNode → List AstNode × AstNode × List AstNode × Bool
  | [] => ([], AstNode.new p, [], true)
  | n :: rest =>
    if n.predicate == p then ([], n, rest, false)
    else
      let r := hostExpressions p rest
      (n :: r.1, r.2.1, r.2.2.1, r.2.2.2)

/-- One `selector_item` of `add_selector` (ast.rs:300-344): `path` are the compounds that are
    followed by a combinator, `last` the rightmost compound. -/
def insertPath (branches : List AstNode) (cnt : Nat) (path : List (Predicate × Comb))
    (last : Predicate) (matchId : Nat) : List AstNode × Nat :=
  match path with
  | [] =>
    let r := hostExpressions last branches
    match r.2.1 with
    | .mk p ch de ids =>
      (r.1 ++ [.mk p ch de (DenseHashSet.insert ids matchId)] ++ r.2.2.1,
        if r.2.2.2 then cnt + 1 else cnt)
  | (p, c) :: rest =>
    let r := hostExpressions p branches
    let cnt := if r.2.2.2 then cnt + 1 else cnt
    match r.2.1 with
    | .mk np ch de ids =>
      match c with
      | .child =>
        let s := insertPath ch cnt rest last matchId
        (r.1 ++ [.mk np s.1 de ids] ++ r.2.2.1, s.2)
      | .descendant =>
        let s := insertPath de cnt rest last matchId
        (r.1 ++ [.mk np ch s.1 ids] ++ r.2.2.1, s.2)

def pathOfTail (cur : Predicate) : List (Comb × Compound) → List (Predicate × Comb) × Predicate
  | [] => ([], cur)
  | (k, cp) :: rest =>
    let r := pathOfTail (Predicate.ofCompound cp) rest
    ((cur, k) :: r.1, r.2)

def complexToPath (c : Complex) : List (Predicate × Comb) × Predicate :=
  pathOfTail (Predicate.ofCompound c.head) c.tail

/-- `Ast::add_selector` (ast.rs:300) -/
def Ast.addSelector (ast : Ast) (sel : SelList) (matchId : Nat) : Ast :=
  sel.foldl (fun ast cx =>
    let pl := complexToPath cx
    let r := insertPath ast.root ast.cumulativeNodeCount pl.1 pl.2 matchId
    { root := r.1, cumulativeNodeCount := r.2 }) ast

/-- `HtmlRewriteController::from_settings` (rewrite_controller.rs:66-70): match ids are the
    registration indices. -/
def Ast.ofSelectors (sels : List SelList) : Ast :=
  (sels.foldl (fun (acc : Ast × Nat) s => (acc.1.addSelector s acc.2, acc.2 + 1)) ({}, 0)).1

/-! ## Program (program.rs) and compiler (compiler.rs) -/

/-- `Range<usize>`; empty when `stop ≤ start`. -/
structure AddressRange where
  start : Nat
  stop : Nat
  deriving DecidableEq, Repr

structure ExecutionBranch where
  matchedIds : List Nat := []
  jumps : Option AddressRange := none
  hereditaryJumps : Option AddressRange := none
  deriving DecidableEq, Repr

structure Instruction where
  associatedBranch : ExecutionBranch := {}
  localNameExprs : List (Expr OnTagNameExpr) := []
  attributeExprs : List (Expr OnAttributesExpr) := []
  deriving DecidableEq, Repr

/-- `Instruction::noop` -/
def Instruction.noop : Instruction := {}

structure Program where
  instructions : List Instruction
  entryPoints : AddressRange
  enableNthOfType : Bool
  deriving Repr

/-- `SelectorState` (mod.rs:63): the two counters, already dereferenced. -/
structure SelectorState where
  cumulative : Nat
  typed : Option Nat
  deriving DecidableEq, Repr

/-- The closures built by `Compilable for Expr<OnTagNameExpr>` (compiler.rs:56-97). -/
def evalTagExpr (st : SelectorState) (localName : Bytes) (e : Expr OnTagNameExpr) : Except Panic Bool :=
  let r : Except Panic Bool :=
    match e.simpleExpr with
    | .explicitAny => pure true
    | .unmatchable => pure false
    | .localName n => pure (localNameEq localName n)
    | .nthChild a b => pure (hasIndex a b st.cumulative)
    | .nthOfType a b =>
      match st.typed with
      | some c => pure (hasIndex a b c)
      | none => throw .typedCounterMissing
  if e.negation then r.map (!·) else r

/-- The closures built by `Compilable for Expr<OnAttributesExpr>` (compiler.rs:142-197). -/
def evalAttrExpr (m : AttributeMatcher) (e : Expr OnAttributesExpr) : Bool :=
  let r :=
    match e.simpleExpr with
    | .id v => m.hasId v
    | .cls v => m.hasClass v
    | .attributeExists n => m.hasAttribute n
    | .attributeComparison n v cs op => m.attrCmp n v cs op
  if e.negation then !r else r

/-- `iter().all(..)` over the tag-name closures, short-circuiting like Rust. -/
def allTagExprs (st : SelectorState) (localName : Bytes) : List (Expr OnTagNameExpr) → Except Panic Bool
  | [] => pure true
  | e :: es => do
    if ← evalTagExpr st localName e then allTagExprs st localName es else pure false

def allAttrExprs (m : AttributeMatcher) (es : List (Expr OnAttributesExpr)) : Bool :=
  es.all (evalAttrExpr m)

inductive TryExecResult where
  | branch (b : ExecutionBranch)
  | attributesRequired
  | fail
  deriving DecidableEq, Repr

/-- `Instruction::try_exec_without_attrs` (program.rs:47) -/
def Instruction.tryExecWithoutAttrs (i : Instruction) (st : SelectorState) (localName : Bytes) :
    Except Panic TryExecResult := do
  if ← allTagExprs st localName i.localNameExprs then
    if i.attributeExprs.isEmpty then pure (.branch i.associatedBranch) else pure .attributesRequired
  else pure .fail

/-- `Instruction::complete_exec_with_attrs` (program.rs:63) -/
def Instruction.completeExecWithAttrs (i : Instruction) (m : AttributeMatcher) : Option ExecutionBranch :=
  if allAttrExprs m i.attributeExprs then some i.associatedBranch else none

/-- `Instruction::exec` (program.rs:75) -/
def Instruction.exec (i : Instruction) (st : SelectorState) (localName : Bytes) (m : AttributeMatcher) :
    Except Panic (Option ExecutionBranch) := do
  if ← allTagExprs st localName i.localNameExprs then
    pure (if allAttrExprs m i.attributeExprs then some i.associatedBranch else none)
  else pure none

/-- Compiler state: the pre-sized instruction vector and `free_space_start`. -/
structure Compiler where
  instructions : List Instruction
  freeSpaceStart : Nat
  enableNthOfType : Bool

def exprIsNthOfType (e : Expr OnTagNameExpr) : Bool :=
  match e.simpleExpr with
  | .nthOfType _ _ => true
  | _ => false

/-- `compile_predicate` (compiler.rs:209) -/
def compilePredicate (p : Predicate) (branch : ExecutionBranch) : Instruction :=
  { associatedBranch := branch, localNameExprs := p.onTagNameExprs, attributeExprs := p.onAttrExprs }

/-- `reserve` (compiler.rs:245) -/
def Compiler.reserve (c : Compiler) (n : Nat) : Compiler × AddressRange :=
  ({ c with freeSpaceStart := c.freeSpaceStart + n }, ⟨c.freeSpaceStart, c.freeSpaceStart + n⟩)

/- `compile_nodes` (compiler.rs:270-299) and `compile_descendants` (compiler.rs:257): `compileNode`
   is one iteration of the `for (node, position)` loop, `compileList` the loop. `List.set` is the
   `if let Some(inst) = self.instructions.get_mut(position)` (a silent no-op out of range). -/
mutual
def compileNode (c : Compiler) (n : AstNode) (position : Nat) : Compiler :=
  match n with
  | .mk pred ch de ids =>
    let cj : Compiler × Option AddressRange :=
      if ch.isEmpty then (c, none) else
        let r := c.reserve ch.length
        (compileList r.1 ch r.2.start, some r.2)
    let ch' : Compiler × Option AddressRange :=
      if de.isEmpty then (cj.1, none) else
        let r := cj.1.reserve de.length
        (compileList r.1 de r.2.start, some r.2)
    let c := ch'.1
    let instr := compilePredicate pred ⟨ids, cj.2, ch'.2⟩
    { c with
      instructions := c.instructions.set position instr
      enableNthOfType := c.enableNthOfType || pred.onTagNameExprs.any exprIsNthOfType }
def compileList (c : Compiler) (nodes : List AstNode) (position : Nat) : Compiler :=
  match nodes with
  | [] => c
  | n :: rest => compileList (compileNode c n position) rest (position + 1)
end

def Compiler.compileNodes (c : Compiler) (nodes : List AstNode) : Compiler × AddressRange :=
  let r := c.reserve nodes.length
  (compileList r.1 nodes r.2.start, r.2)

/-- `Compiler::compile` (compiler.rs:301) -/
def compile (ast : Ast) : Program :=
  let c : Compiler :=
    { instructions := List.replicate ast.cumulativeNodeCount Instruction.noop
      freeSpaceStart := 0, enableNthOfType := false }
  let r := c.compileNodes ast.root
  { instructions := r.1.instructions, entryPoints := r.2, enableNthOfType := r.1.enableNthOfType }

/-! ## Stack (stack.rs) -/

inductive StackDirective where
  | push | pushIfNotSelfClosing | popImmediately
  deriving DecidableEq, Repr

/-- `Stack::get_stack_directive` (stack.rs:267) -/
def getStackDirective (localName : Bytes) (ns : Ns) (enableEsiTags : Bool) : StackDirective :=
  if ns == .html then
    if isVoidElement localName enableEsiTags then .popImmediately else .push
  else .pushIfNotSelfClosing

/-- `CounterItem` (stack.rs:74) -/
structure CounterItem where
  counter : Nat
  index : Nat
  deriving DecidableEq, Repr

/-- `CounterList` (stack.rs:81): `items` bottom-first, `current` on top. -/
structure CounterList where
  items : List CounterItem
  current : CounterItem
  deriving DecidableEq, Repr

/-- `TypedChildCounterMap` (stack.rs:100): association list keyed by the lower-cased name. -/
abbrev TypedChildCounterMap := List (Bytes × CounterList)

/-- `TypedChildCounterMap::add_child` (stack.rs:114) -/
def TypedChildCounterMap.addChild (m : TypedChildCounterMap) (name : Bytes) (index : Nat) :
    TypedChildCounterMap :=
  let key := asciiLowerBytes name
  match m with
  | [] => [(key, ⟨[], ⟨1, index⟩⟩)]
  | (k, cl) :: rest =>
    if k == key then
      if cl.current.index == index then (k, { cl with current := { cl.current with counter := cl.current.counter + 1 } }) :: rest
      else (k, ⟨cl.items ++ [cl.current], ⟨1, index⟩⟩) :: rest
    else (k, cl) :: TypedChildCounterMap.addChild rest name index

/-- the `while v.current.index > index` loop of `pop_to` for one list; `none` = entry removed -/
def CounterList.popTo (current : CounterItem) (index : Nat) : (itemsRev : List CounterItem) → Option (List CounterItem × CounterItem)
  | [] => if current.index > index then none else some ([], current)
  | next :: rest =>
    if current.index > index then CounterList.popTo next index rest else some (next :: rest, current)

/-- `TypedChildCounterMap::pop_to` (stack.rs:139) -/
def TypedChildCounterMap.popTo (m : TypedChildCounterMap) (index : Nat) : TypedChildCounterMap :=
  m.filterMap fun (k, cl) =>
    (CounterList.popTo cl.current index cl.items.reverse).map fun r => (k, ⟨r.1.reverse, r.2⟩)

/-- `TypedChildCounterMap::get` (stack.rs:155) -/
def TypedChildCounterMap.get (m : TypedChildCounterMap) (name : Bytes) (index : Nat) : Option Nat :=
  match m.find? (fun e => e.1 == asciiLowerBytes name) with
  | some (_, cl) => if cl.current.index == index then some cl.current.counter else none
  | none => none

/-- `StackItem` (stack.rs:173); `element_data` is the set of matched ids. -/
structure StackItem where
  localName : Bytes
  matchedIds : List Nat := []
  jumps : List AddressRange := []
  hereditaryJumps : List AddressRange := []
  childCounter : Nat := 0
  deriving DecidableEq, Repr

/-- `Stack` (stack.rs:212); `items` bottom-first. -/
structure Stack where
  rootChildCounter : Nat := 0
  typedChildCounters : Option TypedChildCounterMap := none
  items : List StackItem := []
  openNameCounts : List (Bytes × Nat) := []
  activeHereditaryJumps : List (AddressRange × Nat) := []
  deriving Repr

/-- `Stack::new` -/
def Stack.new (enableNthOfType : Bool) : Stack :=
  { typedChildCounters := if enableNthOfType then some [] else none }

def incLastChildCounter : List StackItem → List StackItem
  | [] => []
  | [x] => [{ x with childCounter := x.childCounter + 1 }]
  | x :: y :: rest => x :: incLastChildCounter (y :: rest)

/-- `Stack::add_child` (stack.rs:237) -/
def Stack.addChild (s : Stack) (name : Bytes) : Stack :=
  let s :=
    if s.items.isEmpty then { s with rootChildCounter := s.rootChildCounter + 1 }
    else { s with items := incLastChildCounter s.items }
  { s with typedChildCounters := s.typedChildCounters.map fun c => TypedChildCounterMap.addChild c name s.items.length }

/-- `Stack::build_state` (stack.rs:250) -/
def Stack.buildState (s : Stack) (name : Bytes) : SelectorState :=
  { cumulative := match s.items.getLast? with
      | some last => last.childCounter
      | none => s.rootChildCounter
    typed := s.typedChildCounters.bind fun f => TypedChildCounterMap.get f name s.items.length }

def countsIncr (key : Bytes) : List (Bytes × Nat) → List (Bytes × Nat)
  | [] => [(key, 1)]
  | (k, c) :: rest => if k == key then (k, c + 1) :: rest else (k, c) :: countsIncr key rest

/-- `*e.get_mut() -= 1; if *e.get() == 0 { e.remove() }` for an occupied entry, nothing otherwise -/
def countsDecr (key : Bytes) : List (Bytes × Nat) → Except Panic (List (Bytes × Nat))
  | [] => pure []
  | (k, c) :: rest =>
    if k == key then
      match c with
      | 0 => throw .openNameCountUnderflow
      | 1 => pure rest
      | c + 2 => pure ((k, c + 1) :: rest)
    else do pure ((k, c) :: (← countsDecr key rest))

/-- `Stack::push_item` (stack.rs:336) without the memory limiter. -/
def Stack.pushItem (s : Stack) (item : StackItem) : Stack :=
  let depth := s.items.length
  { s with
    items := s.items ++ [item]
    openNameCounts := countsIncr (asciiLowerBytes item.localName) s.openNameCounts
    activeHereditaryJumps := item.hereditaryJumps.foldl
      (fun act r => if act.any (fun a => a.1 == r) then act else act ++ [(r, depth)])
      s.activeHereditaryJumps }

/-- `iter().rposition(pred)` -/
def rposition (p : α → Bool) (l : List α) : Option Nat :=
  match l.reverse.findIdx? p with
  | some i => some (l.length - 1 - i)
  | none => none

/-- `Stack::pop_up_to` (stack.rs:284); also returns the popped items (their element data goes to
    `popped_element_data_handler`), bottom-first = drain order. -/
def Stack.popUpTo (s : Stack) (localName : Bytes) : Except Panic (Stack × List StackItem) :=
  if !(s.openNameCounts.any fun e => e.1 == asciiLowerBytes localName) then pure (s, [])
  else
    match rposition (fun it => localNameEq it.localName localName) s.items with
    | none => pure (s, [])
    | some index => do
      let drained := s.items.drop index
      let counts ← drained.foldlM (fun cs it => countsDecr (asciiLowerBytes it.localName) cs) s.openNameCounts
      pure ({ s with
        typedChildCounters := s.typedChildCounters.map fun c => TypedChildCounterMap.popTo c index
        activeHereditaryJumps := s.activeHereditaryJumps.filter fun e => e.2 < index
        items := s.items.take index
        openNameCounts := counts }, drained)

/-! ## VM (mod.rs) -/

structure MatchInfo where
  matchId : Nat
  withContent : Bool
  deriving DecidableEq, Repr

/-- `ExecutionCtx` (mod.rs:68); `stack_item` is kept as a `StackItem`. -/
structure ExecutionCtx where
  stackItem : StackItem
  withContent : Bool := true
  ns : Ns
  deriving DecidableEq, Repr

/-- `ExecutionCtx::add_execution_branch` (mod.rs:88) -/
def ExecutionCtx.addExecutionBranch (ctx : ExecutionCtx) (b : ExecutionBranch) : ExecutionCtx :=
  let item := { ctx.stackItem with matchedIds := DenseHashSet.union ctx.stackItem.matchedIds b.matchedIds }
  let item :=
    if ctx.withContent then
      let item := match b.jumps with
        | some j => { item with jumps := item.jumps ++ [j] }
        | none => item
      match b.hereditaryJumps with
        | some h => { item with hereditaryJumps := item.hereditaryJumps ++ [h] }
        | none => item
    else item
  { ctx with stackItem := item }

def ExecutionCtx.addOpt (ctx : ExecutionCtx) : Option ExecutionBranch → ExecutionCtx
  | some b => ctx.addExecutionBranch b
  | none => ctx

/-- `ExecutionCtx::handle_matched_ids` (mod.rs:108) -/
def ExecutionCtx.matchInfos (ctx : ExecutionCtx) : List MatchInfo :=
  ctx.stackItem.matchedIds.map fun i => ⟨i, ctx.withContent⟩

/-- `AuxStartTagInfo` -/
structure AuxStartTagInfo where
  attrs : List Attr
  selfClosing : Bool

/-- `JumpPtr` / `HereditaryJumpPtr` (mod.rs:46-56) -/
structure SetPtr where
  instrSetIdx : Nat := 0
  offset : Nat := 0
  deriving DecidableEq, Repr

abbrev JumpPtr := SetPtr
abbrev HereditaryJumpPtr := SetPtr

/-- `Bailout<T>` (mod.rs:58) -/
structure Bailout (T : Type) where
  atAddr : Nat
  recoveryPoint : T
  deriving DecidableEq, Repr

structure Vm where
  program : Program
  stack : Stack
  enableEsiTags : Bool
  deriving Repr

/-- `SelectorMatchingVm::new` (mod.rs:141) -/
def Vm.new (ast : Ast) (enableEsiTags : Bool) : Vm :=
  let program := compile ast
  { program, stack := Stack.new program.enableNthOfType, enableEsiTags }

def Vm.fetch (vm : Vm) (addr : Nat) : Except Panic Instruction :=
  match vm.program.instructions[addr]? with
  | some i => pure i
  | none => throw .instrIndex

/-- The addresses `for addr in range.start + offset .. range.end` visits. -/
def AddressRange.addrsFrom (r : AddressRange) (offset : Nat) : List Nat :=
  List.range' (r.start + offset) (r.stop - (r.start + offset))

def AddressRange.addrs (r : AddressRange) : List Nat := r.addrsFrom 0

/-- `complete_instr_execution_with_attrs` (mod.rs:321) -/
def Vm.completeInstrExecutionWithAttrs (vm : Vm) (addr : Nat) (m : AttributeMatcher)
    (ctx : ExecutionCtx) : Except Panic ExecutionCtx := do
  let instr ← vm.fetch addr
  pure (ctx.addOpt (instr.completeExecWithAttrs m))

/-- loop body of `try_exec_instr_set_without_attrs`; `k` is `addr - start`. -/
def Vm.tryExecAddrs (vm : Vm) (st : SelectorState) :
    List Nat → Nat → ExecutionCtx → Except Panic (ExecutionCtx × Option (Bailout Nat))
  | [], _, ctx => pure (ctx, none)
  | addr :: rest, k, ctx => do
    let instr ← vm.fetch addr
    match ← instr.tryExecWithoutAttrs st ctx.stackItem.localName with
    | .branch b => vm.tryExecAddrs st rest (k + 1) (ctx.addExecutionBranch b)
    | .attributesRequired => pure (ctx, some ⟨addr, k + 1⟩)
    | .fail => vm.tryExecAddrs st rest (k + 1) ctx

/-- `try_exec_instr_set_without_attrs` (mod.rs:337); the `ExecutionCtx` mutated so far is returned
    in both cases. -/
def Vm.tryExecInstrSetWithoutAttrs (vm : Vm) (r : AddressRange) (ctx : ExecutionCtx) :
    Except Panic (ExecutionCtx × Option (Bailout Nat)) :=
  vm.tryExecAddrs (vm.stack.buildState ctx.stackItem.localName) r.addrs 0 ctx

def Vm.execAddrs (vm : Vm) (st : SelectorState) (m : AttributeMatcher) :
    List Nat → ExecutionCtx → Except Panic ExecutionCtx
  | [], ctx => pure ctx
  | addr :: rest, ctx => do
    let instr ← vm.fetch addr
    let b ← instr.exec st ctx.stackItem.localName m
    vm.execAddrs st m rest (ctx.addOpt b)

/-- `exec_instr_set_with_attrs` (mod.rs:363) -/
def Vm.execInstrSetWithAttrs (vm : Vm) (r : AddressRange) (m : AttributeMatcher) (ctx : ExecutionCtx)
    (offset : Nat) : Except Panic ExecutionCtx :=
  vm.execAddrs (vm.stack.buildState ctx.stackItem.localName) m (r.addrsFrom offset) ctx

/-- the `for (i, jumps) in … .enumerate()` loops of `try_exec_jumps_without_attrs` and
    `try_exec_hereditary_jumps_without_attrs` -/
def Vm.tryExecSets (vm : Vm) :
    List AddressRange → Nat → ExecutionCtx → Except Panic (ExecutionCtx × Option (Bailout SetPtr))
  | [], _, ctx => pure (ctx, none)
  | r :: rest, i, ctx => do
    match ← vm.tryExecInstrSetWithoutAttrs r ctx with
    | (ctx, some b) => pure (ctx, some ⟨b.atAddr, ⟨i, b.recoveryPoint⟩⟩)
    | (ctx, none) => vm.tryExecSets rest (i + 1) ctx

/-- `stack.items().last()`'s jumps, or nothing when the stack is empty -/
def Vm.parentJumps (vm : Vm) : List AddressRange :=
  match vm.stack.items.getLast? with
  | some parent => parent.jumps
  | none => []

/-- `try_exec_jumps_without_attrs` (mod.rs:381) -/
def Vm.tryExecJumpsWithoutAttrs (vm : Vm) (ctx : ExecutionCtx) :
    Except Panic (ExecutionCtx × Option (Bailout JumpPtr)) :=
  vm.tryExecSets vm.parentJumps 0 ctx

def Vm.activeRanges (vm : Vm) : List AddressRange := vm.stack.activeHereditaryJumps.map (·.1)

/-- `try_exec_hereditary_jumps_without_attrs` (mod.rs:420) -/
def Vm.tryExecHereditaryJumpsWithoutAttrs (vm : Vm) (ctx : ExecutionCtx) :
    Except Panic (ExecutionCtx × Option (Bailout HereditaryJumpPtr)) :=
  vm.tryExecSets vm.activeRanges 0 ctx

def Vm.execSetsWithAttrs (vm : Vm) (m : AttributeMatcher) :
    List AddressRange → ExecutionCtx → Except Panic ExecutionCtx
  | [], ctx => pure ctx
  | r :: rest, ctx => do
    let ctx ← vm.execInstrSetWithAttrs r m ctx 0
    vm.execSetsWithAttrs m rest ctx

/-- common shape of `exec_jumps_with_attrs` (mod.rs:401) and `exec_hereditary_jumps_with_attrs`
    (mod.rs:438): the pointed set from `offset`, then `skip(idx + 1)` from 0; nothing at all when
    `get(idx)` is `None`. -/
def Vm.execSetsFromPtr (vm : Vm) (m : AttributeMatcher) (sets : List AddressRange) (ctx : ExecutionCtx)
    (ptr : SetPtr) : Except Panic ExecutionCtx :=
  match sets[ptr.instrSetIdx]? with
  | some ptrJumps => do
    let ctx ← vm.execInstrSetWithAttrs ptrJumps m ctx ptr.offset
    vm.execSetsWithAttrs m (sets.drop (ptr.instrSetIdx + 1)) ctx
  | none => pure ctx

def Vm.execJumpsWithAttrs (vm : Vm) (m : AttributeMatcher) (ctx : ExecutionCtx) (ptr : JumpPtr) :
    Except Panic ExecutionCtx :=
  vm.execSetsFromPtr m vm.parentJumps ctx ptr

def Vm.execHereditaryJumpsWithAttrs (vm : Vm) (m : AttributeMatcher) (ctx : ExecutionCtx)
    (ptr : HereditaryJumpPtr) : Except Panic ExecutionCtx :=
  vm.execSetsFromPtr m vm.activeRanges ctx ptr

/-- `recover_after_bailout_in_entry_points` (mod.rs:251) -/
def Vm.recoverAfterBailoutInEntryPoints (vm : Vm) (ctx : ExecutionCtx) (m : AttributeMatcher)
    (recoveryPoint : Nat) : Except Panic ExecutionCtx := do
  let ctx ← vm.execInstrSetWithAttrs vm.program.entryPoints m ctx recoveryPoint
  let ctx ← vm.execJumpsWithAttrs m ctx {}
  vm.execHereditaryJumpsWithAttrs m ctx {}

/-- `recover_after_bailout_in_jumps` (mod.rs:269) -/
def Vm.recoverAfterBailoutInJumps (vm : Vm) (ctx : ExecutionCtx) (m : AttributeMatcher)
    (recoveryPoint : JumpPtr) : Except Panic ExecutionCtx := do
  let ctx ← vm.execJumpsWithAttrs m ctx recoveryPoint
  vm.execHereditaryJumpsWithAttrs m ctx {}

/-- `recover_after_bailout_in_hereditary_jumps` (mod.rs:281) -/
def Vm.recoverAfterBailoutInHereditaryJumps (vm : Vm) (ctx : ExecutionCtx) (m : AttributeMatcher)
    (recoveryPoint : HereditaryJumpPtr) : Except Panic ExecutionCtx :=
  vm.execHereditaryJumpsWithAttrs m ctx recoveryPoint

/-- The boxed `AuxStartTagInfoRequest` closures, as data: what they captured. -/
inductive Pending where
  | immediate (ctx : ExecutionCtx)                                   -- mod.rs:174
  | bailoutInEntryPoints (ctx : ExecutionCtx) (b : Bailout Nat)      -- mod.rs:296
  | bailoutInJumps (ctx : ExecutionCtx) (b : Bailout JumpPtr)        -- mod.rs:300
  | bailoutInHereditaryJumps (ctx : ExecutionCtx) (b : Bailout HereditaryJumpPtr)  -- mod.rs:304
  deriving Repr

inductive StartTagOutcome where
  | done (vm : Vm) (infos : List MatchInfo)
  | infoRequest (vm : Vm) (req : Pending)
  deriving Repr

/-- tail of every path: `ctx.handle_matched_ids(..); if ctx.with_content { push_item }` -/
def Vm.finish (vm : Vm) (ctx : ExecutionCtx) : Vm × List MatchInfo :=
  (if ctx.withContent then { vm with stack := vm.stack.pushItem ctx.stackItem } else vm, ctx.matchInfos)

/-- `exec_without_attrs` (mod.rs:288) -/
def Vm.execWithoutAttrs (vm : Vm) (ctx : ExecutionCtx) : Except Panic StartTagOutcome := do
  match ← vm.tryExecInstrSetWithoutAttrs vm.program.entryPoints ctx with
  | (ctx, some b) => pure (.infoRequest vm (.bailoutInEntryPoints ctx b))
  | (ctx, none) =>
  match ← vm.tryExecJumpsWithoutAttrs ctx with
  | (ctx, some b) => pure (.infoRequest vm (.bailoutInJumps ctx b))
  | (ctx, none) =>
  match ← vm.tryExecHereditaryJumpsWithoutAttrs ctx with
  | (ctx, some b) => pure (.infoRequest vm (.bailoutInHereditaryJumps ctx b))
  | (ctx, none) =>
    let r := vm.finish ctx
    pure (.done r.1 r.2)

/-- `exec_for_start_tag` (mod.rs:160): sees the name and the namespace only. -/
def Vm.execForStartTag (vm : Vm) (localName : Bytes) (ns : Ns) : Except Panic StartTagOutcome :=
  let vm := { vm with stack := vm.stack.addChild localName }
  let ctx : ExecutionCtx := { stackItem := { localName }, ns }
  match getStackDirective localName ns vm.enableEsiTags with
  | .popImmediately => vm.execWithoutAttrs { ctx with withContent := false }
  | .pushIfNotSelfClosing => pure (.infoRequest vm (.immediate ctx))
  | .push => vm.execWithoutAttrs ctx

/-- `exec_after_immediate_aux_info_request` (mod.rs:195) -/
def Vm.execAfterImmediateAuxInfoRequest (vm : Vm) (ctx : ExecutionCtx) (aux : AuxStartTagInfo) :
    Except Panic (Vm × List MatchInfo) := do
  let m : AttributeMatcher := ⟨aux.attrs, ctx.ns == .html⟩
  let ctx := { ctx with withContent := !aux.selfClosing }
  let ctx ← vm.execInstrSetWithAttrs vm.program.entryPoints m ctx 0
  let ctx ← vm.execJumpsWithAttrs m ctx {}
  let ctx ← vm.execHereditaryJumpsWithAttrs m ctx {}
  pure (vm.finish ctx)

/-- Calling the boxed request with the aux info (`bailout`'s closure, mod.rs:224-242, or the
    immediate one). -/
def Pending.resume (vm : Vm) (aux : AuxStartTagInfo) : Pending → Except Panic (Vm × List MatchInfo)
  | .immediate ctx => vm.execAfterImmediateAuxInfoRequest ctx aux
  | .bailoutInEntryPoints ctx b => do
    let m : AttributeMatcher := ⟨aux.attrs, ctx.ns == .html⟩
    let ctx ← vm.completeInstrExecutionWithAttrs b.atAddr m ctx
    let ctx ← vm.recoverAfterBailoutInEntryPoints ctx m b.recoveryPoint
    pure (vm.finish ctx)
  | .bailoutInJumps ctx b => do
    let m : AttributeMatcher := ⟨aux.attrs, ctx.ns == .html⟩
    let ctx ← vm.completeInstrExecutionWithAttrs b.atAddr m ctx
    let ctx ← vm.recoverAfterBailoutInJumps ctx m b.recoveryPoint
    pure (vm.finish ctx)
  | .bailoutInHereditaryJumps ctx b => do
    let m : AttributeMatcher := ⟨aux.attrs, ctx.ns == .html⟩
    let ctx ← vm.completeInstrExecutionWithAttrs b.atAddr m ctx
    let ctx ← vm.recoverAfterBailoutInHereditaryJumps ctx m b.recoveryPoint
    pure (vm.finish ctx)

/-- `exec_for_end_tag` (mod.rs:184) -/
def Vm.execForEndTag (vm : Vm) (localName : Bytes) : Except Panic (Vm × List StackItem) := do
  let r ← vm.stack.popUpTo localName
  pure ({ vm with stack := r.1 }, r.2)

/-! ## How the rewrite controller and the dispatcher drive the VM -/

/-- `HtmlRewriteController::handle_start_tag` (rewrite_controller.rs:138) followed, on
    `VmError::InfoRequest`, by `respond_to_aux_info_request` being called by the dispatcher with the
    tag's attributes and self-closing flag (dispatcher.rs:316-352). -/
def Vm.handleStartTag (vm : Vm) (t : StartTag) : Except Panic (Vm × List MatchInfo) := do
  match ← vm.execForStartTag t.name t.ns with
  | .done vm ms => pure (vm, ms)
  | .infoRequest vm req => req.resume vm ⟨t.attrs, t.selfClosing⟩

/-- Did the start tag need the attribute bail-out (observable as a lexer round trip)? -/
def Vm.requestsAttributes (vm : Vm) (t : StartTag) : Except Panic Bool := do
  match ← vm.execForStartTag t.name t.ns with
  | .done _ _ => pure false
  | .infoRequest _ _ => pure true

/-- `handle_end_tag` (rewrite_controller.rs:162) -/
def Vm.handleEndTag (vm : Vm) (name : Bytes) : Except Panic Vm := do
  pure (← vm.execForEndTag name).1

def Vm.step (vm : Vm) : Event → Except Panic (Vm × List MatchInfo)
  | .start t => vm.handleStartTag t
  | .end_ n => do pure (← vm.handleEndTag n, [])

/-- Run a tag-event sequence; the result lists, per start tag (by ordinal), the matched ids in
    handler-invocation order. -/
def Vm.runAux (vm : Vm) : List Event → Nat → List (Nat × Nat) → Except Panic (Vm × List (Nat × Nat))
  | [], _, acc => pure (vm, acc)
  | .start t :: rest, ord, acc => do
    let r ← vm.handleStartTag t
    Vm.runAux r.1 rest (ord + 1) (acc ++ r.2.map fun mi => (mi.matchId, ord))
  | .end_ n :: rest, ord, acc => do
    let vm ← vm.handleEndTag n
    Vm.runAux vm rest ord acc

/-- Hits `(selector index, start-tag ordinal)` of a whole run, in order of occurrence. -/
def runSelectors (sels : List SelList) (enableEsiTags : Bool) (evs : List Event) :
    Except Panic (List (Nat × Nat)) := do
  let vm := Vm.new (Ast.ofSelectors sels) enableEsiTags
  pure (← vm.runAux evs 0 []).2

end LolHtml.SelVM
